import CrabProofs.Lemmas.CrawlCtrlRun

/-!
  Executions, control part (the main argument).  `F` solves the data inequations (`isDataSol`)
  and the control inequations (`isCtrlSol`) for a control-dependence graph `g` that passes
  `isCdgOK`.  Two runs under the same scheduler from states that agree on `F l a`:
   * as long as they are in the same block they execute `a` with the same outcomes
     (`runStmts_rel2`), and they agree on `F l' a` for every successor `l'`;
   * when they part at a deterministic branch `d` (successors `s1 ≠ s2`, each feasible in one run
     only): an entry of `a` at `s_i` together with `add_control_deps` firing for the edge
     `d → s_i` would make the two states agree on the guard of `s_i` -- impossible; one of `s1`,
     `s2` is control dependent on `d`; so `a` has an entry on one side at most (`s1`, the join of
     the branches of `d`), and no block control dependent on `d` reaches the block of `a` in `g`.
     The other run never executes `a`, and it cannot be complete (`dead_side`): to end at the exit
     it would pass through `s1`, and to end in a block without successors it would leave the
     blocks that reach the exit at a block of the region between `d` and `s1`, which makes the
     block of `a` reachable in `g`.
-/
namespace Crab
namespace TIR

theorem ctrlCond_eq (g : Cdg) (d l : Label) (a : AId) :
    ctrlCond g d l a = ((g.kids d).contains l || g.reaches (g.kids d) a.1) := by
  unfold ctrlCond Cdg.kids
  cases hl : g.lookup d with
  | some K => rfl
  | none =>
    simp only [Option.getD_none, List.contains_nil, Bool.false_or]
    unfold Cdg.reaches
    cases (g.fuel + ([] : List Label).length) <;> simp [reachFrom]

/-- the run on the side of the branch where the assertion has no entry is not complete -/
theorem dead_side {P : Prog} {g : Cdg} {F : Label → Facts} {a : AId} (hwf : WFp P) (okp : CdgOKp P g)
    (hs : CtrlSolp P g F a) (hv : Nat → Var → Int) (ch : Chooser) {d s s' : Label} (hd : d ∈ P.labels)
    (hsm : s ∈ P.succsOf d) (hsm' : s' ∈ P.succsOf d) (hne : s ≠ s') (hnk : s ∉ g.kids d)
    (hnr : g.reaches (g.kids d) a.1 = false) (hlive : (F s).has a = true) (hdead : (F s').has a = false)
    (hpath : GPath P.succsOf s a.1) (f step : Nat) (cnt : Counts) (σ : State) (nh : Nat) :
    (runB P hv ch f step cnt s' σ nh).kind a ≠ .complete := by
  intro hk
  have h2 : 2 ≤ (P.succsOf d).length := two_le_of_mem_ne hsm hsm' hne
  obtain ⟨x, hx, hall, hreg⟩ := okp.join d s hd h2 hsm hnk
  obtain ⟨hch, hex, hsk⟩ := run_chain P hv ch f step cnt s' σ nh
  have hthrough : s ∈ (runB P hv ch f step cnt s' σ nh).path → False := by
    intro hin
    have := chain_live hs _ s' s hch hin hlive
    rw [hdead] at this; cases this
  rcases kind_complete_cases P a hv ch f step cnt s' σ nh hk with h | h | h
  · have hlast : lastOf s' (runB P hv ch f step cnt s' σ nh).path = x := by
      have := isExit_iff.mp (hex h)
      rw [hx] at this
      simp only [Option.some.injEq] at this
      exact this.symm
    have := chain_pdom _ s' hch hlast (hall s' hsm').2
    rcases List.mem_cons.mp this with h' | h'
    · exact hne h'
    · exact hthrough h'
  · rcases sink_reach hwf hx _ s' hch (hsk h).1 (hsk h).2 (GPath.refl s') (hall s' hsm').1
        (fun e => hne e.symm) (hall s' hsm').2 with h' | ⟨w, w', hpw, hcow, hws, hsw, h2w, hw', hw'co⟩
    · exact hthrough h'
    · have hRw := hreg s' w hsm' (fun e => hne e.symm) hpw hcow
      obtain ⟨t, ht, htp⟩ := gpath_first (PDom.reach hcow hsw).1 hws
      have := okp.esc w w' t a.1 (succ_label hw') h2w hw' hw'co ht (htp.trans hpath)
      have := reaches_step g _ hRw this
      rw [hnr] at this; cases this
  · have := (run_live hs hv ch f step cnt s' σ nh h).1
    rw [hdead] at this; cases this

/-- the two runs after a deterministic branch -/
theorem diverge_ok {P : Prog} {g : Cdg} {F : Label → Facts} {a : AId} (hwf : WFp P) (okp : CdgOKp P g)
    (hs : CtrlSolp P g F a) (hv : Nat → Var → Int) (ch : Chooser) {d s1 s2 : Label} (hd : d ∈ P.labels)
    (h1m : s1 ∈ P.succsOf d) (h2m : s2 ∈ P.succsOf d) (hne : s1 ≠ s2) (σ1 σ2 : State)
    (hag : ∀ l', l' ∈ P.succsOf d → agreeOn ((F l').get a) σ1 σ2)
    (hg11 : guardOk P s1 σ1 = true) (hg12 : guardOk P s1 σ2 = false)
    (hg22 : guardOk P s2 σ2 = true) (hg21 : guardOk P s2 σ1 = false)
    (f step : Nat) (cnt : Counts) (nh : Nat) :
    differK ((runB P hv ch f step cnt s1 σ1 nh).kind a) ((runB P hv ch f step cnt s2 σ2 nh).kind a)
      (aSeq a (runB P hv ch f step cnt s1 σ1 nh).evs) (aSeq a (runB P hv ch f step cnt s2 σ2 nh).evs) = false := by
  have hguard : ∀ s, s ∈ P.succsOf d → (F s).has a = true → ctrlCond g d s a = true →
      guardOk P s σ1 = guardOk P s σ2 := by
    intro s hsm hh hc
    apply guardOk_congr
    intro y hy
    exact hag s hsm y (hs.ctrl s d (hwf.succ_lab d s hsm) ((hwf.sym d s).mp hsm) hh hc y hy)
  have hn1 : (F s1).has a = true → ctrlCond g d s1 a = true → False := by
    intro h1 h2
    have := hguard s1 h1m h1 h2
    rw [hg11, hg12] at this; cases this
  have hn2 : (F s2).has a = true → ctrlCond g d s2 a = true → False := by
    intro h1 h2
    have := hguard s2 h2m h1 h2
    rw [hg21, hg22] at this; cases this
  have h2 : 2 ≤ (P.succsOf d).length := two_le_of_mem_ne h1m h2m hne
  have hL0 : s1 ∈ g.kids d ∨ s2 ∈ g.kids d := by
    by_cases hk1 : s1 ∈ g.kids d
    · exact Or.inl hk1
    · by_cases hk2 : s2 ∈ g.kids d
      · exact Or.inr hk2
      · exfalso
        obtain ⟨x, hx, hall, _⟩ := okp.join d s1 hd h2 h1m hk1
        obtain ⟨x', hx', hall', _⟩ := okp.join d s2 hd h2 h2m hk2
        rw [hx] at hx'
        simp only [Option.some.injEq] at hx'
        subst hx'
        exact hne (PDom.antisymm (hall s2 h2m).1 (hall s2 h2m).2 (hall' s1 h1m).2)
  have hkid : ∀ s, s ∈ g.kids d → ctrlCond g d s a = true := by
    intro s hk
    rw [ctrlCond_eq, List.contains_iff_mem.mpr hk]
    rfl
  have hnoA : ∀ s σ, (F s).has a = false → aSeq a (runB P hv ch f step cnt s σ nh).evs = [] := by
    intro s σ hh
    apply Classical.byContradiction
    intro hne'
    have := (run_live hs hv ch f step cnt s σ nh hne').1
    rw [hh] at this; cases this
  -- the side where the assertion has an entry is not control dependent on `d`
  have hlive : ∀ s s', s ∈ P.succsOf d → s' ∈ P.succsOf d → s ≠ s' → (s ∈ g.kids d ∨ s' ∈ g.kids d) →
      ((F s).has a = true → ctrlCond g d s a = true → False) →
      ((F s').has a = true → ctrlCond g d s' a = true → False) → (F s).has a = true →
      ∀ σ σ', aSeq a (runB P hv ch f step cnt s' σ' nh).evs = [] ∧
        (aSeq a (runB P hv ch f step cnt s σ nh).evs ≠ [] → (runB P hv ch f step cnt s' σ' nh).kind a ≠ .complete) := by
    intro s s' hsm hsm' hss hL hns hns' hh σ σ'
    have hc : ctrlCond g d s a = false := by
      cases hcc : ctrlCond g d s a with
      | false => rfl
      | true => exact absurd hcc (fun h => hns hh h)
    rw [ctrlCond_eq] at hc
    simp only [Bool.or_eq_false_iff] at hc
    have hnk : s ∉ g.kids d := by
      intro hk
      rw [List.contains_iff_mem.mpr hk] at hc
      cases hc.1
    have hk' : s' ∈ g.kids d := hL.resolve_left hnk
    have hdead : (F s').has a = false := by
      cases hd' : (F s').has a with
      | false => rfl
      | true => exact absurd (hkid s' hk') (fun h => hns' hd' h)
    refine ⟨hnoA s' σ' hdead, ?_⟩
    intro hq
    exact dead_side hwf okp hs hv ch hd hsm hsm' hss hnk hc.2 hh hdead
      (run_live hs hv ch f step cnt s σ nh hq).2 f step cnt σ' nh
  cases hh1 : (F s1).has a with
  | true =>
    obtain ⟨he, hk⟩ := hlive s1 s2 h1m h2m hne hL0 hn1 hn2 hh1 σ1 σ2
    rw [he]
    by_cases hq : aSeq a (runB P hv ch f step cnt s1 σ1 nh).evs = []
    · rw [hq]; exact differK_same _ _ _
    · exact differK_prefix_r (nil_prefix _) (hk hq)
  | false =>
    cases hh2 : (F s2).has a with
    | true =>
      obtain ⟨he, hk⟩ := hlive s2 s1 h2m h1m (fun e => hne e.symm) hL0.symm hn2 hn1 hh2 σ2 σ1
      rw [he]
      by_cases hq : aSeq a (runB P hv ch f step cnt s2 σ2 nh).evs = []
      · rw [hq]; exact differK_same _ _ _
      · exact differK_prefix_l (nil_prefix _) (hk hq)
    | false =>
      rw [hnoA s1 σ1 hh1, hnoA s2 σ2 hh2]
      exact differK_same _ _ _

theorem kind_mk (a : AId) (e : List TEv) (p : List Label) (v : List Visit) (fin : End) (e' : List TEv)
    (p' : List Label) (v' : List Visit) : (⟨e, p, v, fin⟩ : Trace).kind a = (⟨e', p', v', fin⟩ : Trace).kind a := rfl

/-- two runs under the same scheduler from states that agree on what is listed for `a` -/
theorem lockstep_ok {P : Prog} {g : Cdg} {F : Label → Facts} {a : AId} {c0 : Cst} (hwf : WFp P)
    (hsol : isDataSol P F = true) (hm : (a, c0) ∈ P.asserts) (okp : CdgOKp P g) (hs : CtrlSolp P g F a)
    (hv : Nat → Var → Int) (prio : Label → Nat → Label → Nat) :
    ∀ (f step : Nat) (cnt : Counts) (l : Label) (i : Nat) (ss : List Stmt) (σ1 σ2 : State) (nh : Nat),
      l ∈ P.labels → BlockInv P F a l i ss σ1 σ2 →
      (detDivergence P l (runWith P hv (schedChooser P prio) f step cnt l i ss σ1 nh)
          (runWith P hv (schedChooser P prio) f step cnt l i ss σ2 nh) &&
        differCtrl a (runWith P hv (schedChooser P prio) f step cnt l i ss σ1 nh)
          (runWith P hv (schedChooser P prio) f step cnt l i ss σ2 nh)) = false := by
  intro f
  induction f with
  | zero =>
    intro step cnt l i ss σ1 σ2 nh _ _
    simp [runWith, differCtrl_eq, Trace.kind, differK, conflict, aSeq]
  | succ f ih =>
    intro step cnt l i ss σ1 σ2 nh hl hinv
    have hrel := runStmts_rel2 P F a hv l ss i σ1 σ2 nh hinv
    obtain ⟨x1, hx1⟩ := runWith_evs P hv (schedChooser P prio) f step cnt l i ss σ1 nh
    obtain ⟨x2, hx2⟩ := runWith_evs P hv (schedChooser P prio) f step cnt l i ss σ2 nh
    rw [differCtrl_eq, detDivergence_eq]
    cases hr1 : runStmts hv l i ss σ1 nh with
    | mk t1 b1 =>
      cases hr2 : runStmts hv l i ss σ2 nh with
      | mk t2 b2 =>
        rw [hr1, hr2] at hrel
        rw [hr1] at hx1
        rw [hr2] at hx2
        simp only at hx1 hx2
        cases b1 with
        | stop o1 =>
          rw [hx2, runWith_stop hr1]
          simp only [detDiv'_nil_left, Bool.true_and]
          show differK (stopKind a t1 o1) _ (aSeq a t1) _ = false
          cases b2 with
          | stop o2 =>
            rw [runWith_stop hr2] at hx2 ⊢
            simp only at hx2
            have : x2 = [] := by simpa using hx2.symm
            subst this
            simp only [List.append_nil]
            show differK (stopKind a t1 o1) (stopKind a t2 o2) (aSeq a t1) (aSeq a t2) = false
            rcases hrel with h | h | h
            · rw [h]; exact differK_same _ _ _
            · exact differK_prefix_l h.1 h.2
            · exact differK_prefix_r h.1 h.2
          | fall σ2' n2 =>
            rw [aSeq_append]
            exact differK_prefix_l (List.IsPrefix.trans hrel.1 (List.prefix_append _ _)) hrel.2
        | fall σ1' n1 =>
          cases b2 with
          | stop o2 =>
            rw [hx1, runWith_stop hr2]
            simp only [detDiv'_nil_right, Bool.true_and]
            show differK _ (stopKind a t2 o2) _ (aSeq a t2) = false
            rw [aSeq_append]
            exact differK_prefix_r (List.IsPrefix.trans hrel.1 (List.prefix_append _ _)) hrel.2
          | fall σ2' n2 =>
            obtain ⟨hseq, hn, hend⟩ := hrel
            subst hn
            cases hn1 : nextOf P (schedChooser P prio) step cnt l σ1' with
            | halt e1 =>
              rw [runWith_halt hr1 hn1]
              simp only [detDiv'_nil_left, Bool.true_and]
              cases hn2 : nextOf P (schedChooser P prio) step cnt l σ2' with
              | halt e2 =>
                rw [runWith_halt hr2 hn2]
                simp only
                rw [hseq]
                exact differK_same _ _ _
              | goto l2 =>
                have he := nextOf_halt_goto hn1 hn2
                subst he
                rw [hx2, aSeq_append, hseq]
                exact differK_prefix_l (List.prefix_append _ _) (by simp [Trace.kind])
            | goto l1 =>
              cases hn2 : nextOf P (schedChooser P prio) step cnt l σ2' with
              | halt e2 =>
                have he := nextOf_halt_goto hn2 hn1
                subst he
                rw [runWith_halt hr2 hn2]
                simp only [detDiv'_nil_right, Bool.true_and]
                rw [hx1, aSeq_append, hseq]
                exact differK_prefix_r (List.prefix_append _ _) (by simp [Trace.kind])
              | goto l2 =>
                rw [runWith_goto hr1 hn1, runWith_goto hr2 hn2]
                simp only [aSeq_append, hseq]
                rw [differK_append]
                obtain ⟨hm1, _, hc1⟩ := nextOf_goto hn1
                obtain ⟨hm2, _, hc2⟩ := nextOf_goto hn2
                rw [kind_mk a _ _ _ _ (runWith P hv (schedChooser P prio) f (step + 1) (cnt.bump l) l1 0 (P.stmtsOf l1) σ1' n1).evs
                    (runWith P hv (schedChooser P prio) f (step + 1) (cnt.bump l) l1 0 (P.stmtsOf l1) σ1' n1).path
                    (runWith P hv (schedChooser P prio) f (step + 1) (cnt.bump l) l1 0 (P.stmtsOf l1) σ1' n1).visits,
                  kind_mk a _ _ _ _ (runWith P hv (schedChooser P prio) f (step + 1) (cnt.bump l) l2 0 (P.stmtsOf l2) σ2' n1).evs
                    (runWith P hv (schedChooser P prio) f (step + 1) (cnt.bump l) l2 0 (P.stmtsOf l2) σ2' n1).path
                    (runWith P hv (schedChooser P prio) f (step + 1) (cnt.bump l) l2 0 (P.stmtsOf l2) σ2' n1).visits]
                by_cases hll : l1 = l2
                · subst hll
                  rw [detDiv'_cons_same]
                  have := ih (step + 1) (cnt.bump l) l1 0 (P.stmtsOf l1) σ1' σ2' n1 (hwf.succ_lab l l1 hm1)
                    (BlockInv_entry hsol hm l1 σ1' σ2' (hend l1 hm1))
                  rw [differCtrl_eq, detDivergence_eq] at this
                  exact this
                · rw [detDiv'_cons_diff P l l1 l2 hll]
                  cases hdet : ((feasibleSuccs P l σ1').length == 1 && (feasibleSuccs P l σ2').length == 1) with
                  | false => rfl
                  | true =>
                    simp only [Bool.and_eq_true, beq_iff_eq] at hdet
                    obtain ⟨hg11, hoth1⟩ := sched_det P prio step (cnt.get l) l σ1' hdet.1
                    obtain ⟨hg22, hoth2⟩ := sched_det P prio step (cnt.get l) l σ2' hdet.2
                    rw [← hc1] at hg11 hoth1
                    rw [← hc2] at hg22 hoth2
                    have := diverge_ok hwf okp hs hv (schedChooser P prio) hl hm1 hm2 hll σ1' σ2' hend hg11
                      (hoth2 l1 hm1 hll) hg22 (hoth1 l2 hm2 (fun e => hll e.symm)) f (step + 1) (cnt.bump l) n1
                    simp only [Bool.true_and]
                    exact this

/-- THE SEMANTIC THEOREM: for an answer `F` that solves the data and the control inequations, with
    a control-dependence graph that passes `isCdgOK`: a variable that is not listed for assertion
    `a` at the entry of block `l` is not relevant there -/
theorem not_relevantCtrl {P : Prog} {g : Cdg} {F : Label → Facts} (hwf : WFp P) (hsol : isDataSol P F = true)
    (hctrl : isCtrlSol P g F = true) (hg : isCdgOK P g = true) {a : AId} {c0 : Cst} (hm : (a, c0) ∈ P.asserts)
    {l : Label} (hl : l ∈ P.labels) {x : Var} (hx : x ∉ (F l).get a) : ¬ RelevantCtrl P a l 0 x := by
  rintro ⟨σ, v, hv, prio, fuel, h⟩
  simp only [runFrom, List.drop_zero] at h
  have := lockstep_ok hwf hsol hm (isCdgOK_spec hwf hg) (isCtrlSol_spec hctrl hm) hv prio fuel 0 [] l 0
    (P.stmtsOf l) σ (σ.set x v) 0 hl (BlockInv_entry hsol hm l σ (σ.set x v) (agreeOn_set hx σ v))
  rw [this] at h
  cases h

/-- the same for every identifier (one that is not an assertion of the program is never executed) -/
theorem not_relevantCtrl_any {P : Prog} {g : Cdg} {F : Label → Facts} (hwf : WFp P) (hsol : isDataSol P F = true)
    (hctrl : isCtrlSol P g F = true) (hg : isCdgOK P g = true) (a : AId)
    {l : Label} (hl : l ∈ P.labels) {x : Var} (hx : x ∉ (F l).get a) : ¬ RelevantCtrl P a l 0 x := by
  by_cases hex : ∃ c, (a, c) ∈ P.asserts
  · obtain ⟨c, hm⟩ := hex
    exact not_relevantCtrl hwf hsol hctrl hg hm hl hx
  · rintro ⟨σ, v, hv, prio, fuel, h⟩
    simp only [runFrom, List.drop_zero] at h
    have hnil : ∀ σ', aSeq a (runB P hv (schedChooser P prio) fuel 0 [] l σ' 0).evs = [] := by
      intro σ'
      apply Classical.byContradiction
      intro hne
      exact hex (run_assert P a hv _ fuel 0 [] l σ' 0 hne)
    rw [differCtrl_eq] at h
    have h1 := hnil σ
    have h2 := hnil (σ.set x v)
    unfold runB at h1 h2
    rw [h1, h2, differK_same] at h
    simp at h

end TIR
end Crab
