import CrabModel.Inter.BottomUp
import CrabProofs.Lemmas.InterWire

/-!
  Frames (`Env = Array Int`) of the call-stack semantics against total states (`St`):
  reads / writes, `setMany`, `MatchVals`, evaluation of expressions under `Ext`.
  Used by the C10 proofs (`InterSim`, `InterAbs`, `Props/C10BottomUp`).
-/
namespace Crab.Inter

theorem getD_set (σ : Env) (x y : Nat) (v : Int) :
    (σ.setIfInBounds x v).getD y 0 = if y = x ∧ x < σ.size then v else σ.getD y 0 := by
  simp only [Array.getD_eq_getD_getElem?, Array.getElem?_setIfInBounds]
  by_cases h : x = y
  · subst h
    by_cases hx : x < σ.size
    · simp [hx]
    · simp [hx]
  · have : ¬ (y = x) := fun e => h e.symm
    simp [h, this]

theorem getD_set_same (σ : Env) (x : Nat) (v : Int) (hx : x < σ.size) :
    (σ.setIfInBounds x v).getD x 0 = v := by
  rw [getD_set]; simp [hx]

theorem getD_set_other (σ : Env) (x y : Nat) (v : Int) (h : y ≠ x) :
    (σ.setIfInBounds x v).getD y 0 = σ.getD y 0 := by
  rw [getD_set]; simp [h]

/-- the frame as a total state (0 beyond the frame) -/
def toSt (env : Env) : St := fun v => env.getD v 0

theorem Ext_toSt (env : Env) : Ext env (toSt env) := fun _ _ => rfl

theorem setMany_size : ∀ (xs : List Var) (vs : List Int) (σ : Env), (setMany σ xs vs).size = σ.size
  | [], _, σ => by cases ‹List Int› <;> rfl
  | _ :: _, [], σ => rfl
  | x :: xs, v :: vs, σ => by
    simp only [setMany]
    rw [setMany_size xs vs, Array.size_setIfInBounds]

theorem setMany_other : ∀ (xs : List Var) (vs : List Int) (σ : Env) (y : Var), y ∉ xs →
    (setMany σ xs vs).getD y 0 = σ.getD y 0
  | [], _, σ, y, _ => by cases ‹List Int› <;> rfl
  | _ :: _, [], σ, y, _ => rfl
  | x :: xs, v :: vs, σ, y, h => by
    simp only [setMany]
    have hy : y ≠ x := fun e => h (e ▸ List.mem_cons_self ..)
    rw [setMany_other xs vs _ y (fun e => h (List.mem_cons_of_mem _ e)), getD_set_other _ _ _ _ hy]

theorem MatchVals.congr : ∀ {xs : List Var} {vs : List Int} {ρ ρ' : St},
    (∀ x, x ∈ xs → ρ' x = ρ x) → MatchVals xs vs ρ → MatchVals xs vs ρ'
  | [], _, _, _, _, _ => by cases ‹List Int› <;> trivial
  | _ :: _, [], _, _, _, _ => trivial
  | x :: xs, v :: vs, ρ, ρ', h, hm => by
    refine ⟨by rw [h x (List.mem_cons_self ..)]; exact hm.1, ?_⟩
    exact MatchVals.congr (fun y hy => h y (List.mem_cons_of_mem _ hy)) hm.2

theorem MatchVals.agree : ∀ {xs : List Var} {vs : List Int} {ρ ρ' : St}, xs.length = vs.length →
    MatchVals xs vs ρ → MatchVals xs vs ρ' → ∀ x, x ∈ xs → ρ' x = ρ x
  | [], _, _, _, _, _, _, x, hx => by cases hx
  | _ :: _, [], _, _, hl, _, _, _, _ => by simp at hl
  | x0 :: xs, v :: vs, ρ, ρ', hl, h1, h2, x, hx => by
    rcases List.mem_cons.mp hx with rfl | hx'
    · rw [h1.1, h2.1]
    · exact MatchVals.agree (by simpa using hl) h1.2 h2.2 x hx'

theorem MatchVals_map : ∀ (xs : List Var) (ρ : St), MatchVals xs (xs.map ρ) ρ
  | [], _ => trivial
  | _ :: xs, ρ => ⟨rfl, MatchVals_map xs ρ⟩

/-- after `setMany` with distinct in-bounds targets every target holds its value -/
theorem setMany_match : ∀ (xs : List Var) (vs : List Int) (σ : Env), xs.Nodup →
    (∀ x, x ∈ xs → x < σ.size) → MatchVals xs vs (toSt (setMany σ xs vs))
  | [], _, σ, _, _ => by cases ‹List Int› <;> trivial
  | _ :: _, [], σ, _, _ => trivial
  | x :: xs, v :: vs, σ, hnd, hb => by
    have hx : x ∉ xs := (List.nodup_cons.mp hnd).1
    simp only [setMany]
    refine ⟨?_, ?_⟩
    · show (setMany (σ.setIfInBounds x v) xs vs).getD x 0 = v
      rw [setMany_other xs vs _ x hx, getD_set_same _ _ _ (hb x (List.mem_cons_self ..))]
    · apply setMany_match xs vs _ (List.nodup_cons.mp hnd).2
      intro y hy
      rw [Array.size_setIfInBounds]
      exact hb y (List.mem_cons_of_mem _ hy)

/-- a later `setMany` on other variables keeps a match -/
theorem MatchVals.of_getD_eq {xs : List Var} {vs : List Int} {e e' : Env}
    (h : ∀ x, x ∈ xs → e'.getD x 0 = e.getD x 0) (hm : MatchVals xs vs (toSt e)) :
    MatchVals xs vs (toSt e') :=
  MatchVals.congr (fun x hx => h x hx) hm

/-! ### expressions -/

theorem foldl_eval_eq (env : Env) (σ : St) (h : Ext env σ) :
    ∀ (ts : List (Int × Var)) (a : Int), (∀ kv, kv ∈ ts → kv.2 < env.size) →
      ts.foldl (fun a (kv : Int × Var) => a + kv.1 * σ kv.2) a =
      ts.foldl (fun a (kv : Int × Var) => a + kv.1 * env.getD kv.2 0) a
  | [], _, _ => rfl
  | kv :: ts, a, hv => by
    simp only [List.foldl_cons]
    rw [h kv.2 (hv kv (List.mem_cons_self ..))]
    exact foldl_eval_eq env σ h ts _ (fun kv' hk => hv kv' (List.mem_cons_of_mem _ hk))

theorem ILin.evalSt_eq (l : ILin) (env : Env) (σ : St) (h : Ext env σ)
    (hv : ∀ v, v ∈ l.vars → v < env.size) : l.evalSt σ = l.eval env := by
  unfold ILin.evalSt ILin.eval
  apply foldl_eval_eq env σ h
  intro kv hk
  exact hv kv.2 (List.mem_map.mpr ⟨kv, hk, rfl⟩)

theorem ICst.satSt_eq (c : ICst) (env : Env) (σ : St) (h : Ext env σ)
    (hv : ∀ v, v ∈ c.e.vars → v < env.size) : c.satSt σ = c.sat env := by
  unfold ICst.satSt ICst.sat
  rw [ILin.evalSt_eq c.e env σ h hv]
  rfl

/-- `Ext` after a write: the old total state is recovered by resetting the written variable -/
theorem Ext_unset {env : Env} {σ' : St} {x : Var} {v : Int} (hx : x < env.size)
    (h : Ext (env.setIfInBounds x v) σ') :
    Ext env (σ'.upd x (env.getD x 0)) ∧ σ' = (σ'.upd x (env.getD x 0)).upd x v := by
  constructor
  · intro y hy
    by_cases hyx : y = x
    · subst hyx; simp [St.upd]
    · have := h y (by rw [Array.size_setIfInBounds]; exact hy)
      rw [getD_set_other _ _ _ _ hyx] at this
      simp [St.upd, hyx, this]
  · funext y
    by_cases hyx : y = x
    · subst hyx
      have := h y (by rw [Array.size_setIfInBounds]; exact hx)
      rw [getD_set_same _ _ _ hx] at this
      simp [St.upd, this]
    · simp [St.upd, hyx]

end Crab.Inter
