import CrabModel.Container.Patricia

/-! Bit-level facts behind the patricia trees: `mask`, `zero_bit`, `match_prefix`,
    `highest_bit`, `compute_branching_bit` on 64-bit indices, stated through `Nat.testBit`. -/
namespace Crab
namespace Patricia

/-- `a` and `b` have the same bits strictly above position `i` -/
def AgreeAbove (i a b : Nat) : Prop := ∀ j, i < j → a.testBit j = b.testBit j
/-- the shape of a node prefix for branching bit `2^i`: ones below `i`, zero at `i` -/
def Aligned (i p : Nat) : Prop := (∀ j, j < i → p.testBit j = true) ∧ p.testBit i = false
/-- `k` belongs to the left half of the node `(p, 2^i)` -/
def InL (i p k : Nat) : Prop := AgreeAbove i k p ∧ k.testBit i = false
/-- `k` belongs to the right half of the node `(p, 2^i)` -/
def InR (i p k : Nat) : Prop := AgreeAbove i k p ∧ k.testBit i = true

theorem AgreeAbove.refl (i a : Nat) : AgreeAbove i a a := fun _ _ => rfl
theorem AgreeAbove.symm {i a b : Nat} (h : AgreeAbove i a b) : AgreeAbove i b a := fun j hj => (h j hj).symm
theorem AgreeAbove.trans {i a b c : Nat} (h1 : AgreeAbove i a b) (h2 : AgreeAbove i b c) : AgreeAbove i a c :=
  fun j hj => (h1 j hj).trans (h2 j hj)
theorem AgreeAbove.mono {i i' a b : Nat} (h : AgreeAbove i a b) (hi : i ≤ i') : AgreeAbove i' a b :=
  fun j hj => h j (by omega)

theorem testBit_false_of_lt64 {k j : Nat} (hk : k < 2 ^ 64) (hj : 64 ≤ j) : k.testBit j = false :=
  Nat.testBit_lt_two_pow (Nat.lt_of_lt_of_le hk (Nat.pow_le_pow_right (by decide) hj))

/-- strict order from the most significant differing bit -/
theorem lt_of_testBit {x y : Nat} (i : Nat) (hx : x.testBit i = false) (hy : y.testBit i = true)
    (h : AgreeAbove i x y) : x < y := by
  have e : x / 2 ^ (i + 1) = y / 2 ^ (i + 1) := by
    apply Nat.eq_of_testBit_eq
    intro j
    rw [Nat.testBit_div_two_pow, Nat.testBit_div_two_pow]
    exact h _ (by omega)
  have hx' : x / 2 ^ i % 2 = 0 := by
    have := @Nat.testBit_eq_decide_div_mod_eq i x
    rw [hx] at this; simp at this; omega
  have hy' : y / 2 ^ i % 2 = 1 := by
    have := @Nat.testBit_eq_decide_div_mod_eq i y
    rw [hy] at this; simpa using this.symm
  have e2 : ∀ z, z / 2 ^ (i + 1) = z / 2 ^ i / 2 := by
    intro z; rw [Nat.pow_succ, Nat.div_div_eq_div_mul]
  rw [e2 x, e2 y] at e
  have : x / 2 ^ i < y / 2 ^ i := by omega
  exact Nat.lt_of_div_lt_div this

theorem le_of_InL {i p k : Nat} (hp : Aligned i p) (hk : InL i p k) : k ≤ p := by
  apply Nat.le_of_testBit
  intro j hj
  rcases Nat.lt_trichotomy j i with h | h | h
  · exact hp.1 j h
  · subst h; rw [hk.2] at hj; cases hj
  · rw [← hk.1 j h]; exact hj

theorem lt_of_InR {i p k : Nat} (hp : Aligned i p) (hk : InR i p k) : p < k :=
  lt_of_testBit i hp.2 hk.2 hk.1.symm

theorem sub1_two_pow {i : Nat} (hi : i < 64) : sub1 (2 ^ i) = 2 ^ i - 1 := by
  have h1 : 2 ^ i < 2 ^ 64 := Nat.pow_lt_pow_right (by decide) hi
  have h2 : 0 < 2 ^ i := Nat.pow_pos (by decide)
  unfold sub1
  rw [Nat.mod_eq_of_lt h1]
  split
  · omega
  · rfl

theorem testBit_not64 {x : Nat} (hx : x < 2 ^ 64) (j : Nat) :
    (not64 x).testBit j = (decide (j < 64) && !x.testBit j) := by
  unfold not64
  rw [Nat.mod_eq_of_lt hx]
  have : 2 ^ 64 - 1 - x = 2 ^ 64 - (x + 1) := by omega
  rw [this]
  exact Nat.testBit_two_pow_sub_succ hx j

theorem not64_lt (x : Nat) : not64 x < 2 ^ 64 := by
  unfold not64; omega

theorem two_pow_lt64 {i : Nat} (hi : i < 64) : 2 ^ i < 2 ^ 64 := Nat.pow_lt_pow_right (by decide) hi

theorem testBit_mask {i k : Nat} (hi : i < 64) (hk : k < 2 ^ 64) (j : Nat) :
    (mask k (2 ^ i)).testBit j = (decide (j < i) || (decide (j ≠ i) && k.testBit j)) := by
  unfold mask
  rw [Nat.testBit_and, Nat.testBit_or, sub1_two_pow hi, Nat.testBit_two_pow_sub_one,
    testBit_not64 (two_pow_lt64 hi), Nat.testBit_two_pow]
  by_cases h64 : j < 64
  · by_cases h1 : j < i <;> by_cases h2 : i = j <;> simp [h1, h2, h64] <;> omega
  · have := testBit_false_of_lt64 hk (by omega : 64 ≤ j)
    have h1 : ¬ j < i := by omega
    simp [this, h64, h1]

theorem mask_lt (k m : Nat) : mask k m < 2 ^ 64 := by
  unfold mask
  exact Nat.lt_of_le_of_lt Nat.and_le_right (not64_lt m)

theorem zeroBit_two_pow (k i : Nat) : zeroBit k (2 ^ i) = !k.testBit i := by
  unfold zeroBit
  cases h : k.testBit i
  · have : k &&& 2 ^ i = 0 := by
      apply Nat.eq_of_testBit_eq
      intro j
      rw [Nat.testBit_and, Nat.testBit_two_pow]
      by_cases hj : i = j
      · subst hj; simp [h]
      · simp [hj]
    simp [this]
  · have : (k &&& 2 ^ i).testBit i = true := by
      rw [Nat.testBit_and, Nat.testBit_two_pow]; simp [h]
    have hne : k &&& 2 ^ i ≠ 0 := by
      intro h0; rw [h0] at this; simp at this
    simp [hne]

theorem aligned_mask {i k : Nat} (hi : i < 64) (hk : k < 2 ^ 64) : Aligned i (mask k (2 ^ i)) := by
  constructor
  · intro j hj; rw [testBit_mask hi hk]; simp [hj]
  · rw [testBit_mask hi hk]; simp

theorem agree_mask {i k : Nat} (hi : i < 64) (hk : k < 2 ^ 64) : AgreeAbove i (mask k (2 ^ i)) k := by
  intro j hj
  rw [testBit_mask hi hk]
  have h1 : ¬ j < i := by omega
  have h2 : j ≠ i := by omega
  simp [h1, h2]

/-- two aligned prefixes that agree above the bit are equal -/
theorem aligned_eq {i p q : Nat} (hp : Aligned i p) (hq : Aligned i q) (h : AgreeAbove i p q) : p = q := by
  apply Nat.eq_of_testBit_eq
  intro j
  rcases Nat.lt_trichotomy j i with hj | hj | hj
  · rw [hp.1 j hj, hq.1 j hj]
  · subst hj; rw [hp.2, hq.2]
  · exact h j hj

theorem matchPrefix_iff {i k p : Nat} (hi : i < 64) (hk : k < 2 ^ 64) (hp : Aligned i p) :
    matchPrefix k p (2 ^ i) = true ↔ AgreeAbove i k p := by
  unfold matchPrefix
  rw [beq_iff_eq]
  constructor
  · intro h; rw [← h]; exact (agree_mask hi hk).symm
  · intro h
    exact aligned_eq (aligned_mask hi hk) hp ((agree_mask hi hk).trans h)

/-- with branching bit `2^63` every 64-bit index matches -/
theorem agreeAbove_63 {k p : Nat} (hk : k < 2 ^ 64) (hp : p < 2 ^ 64) : AgreeAbove 63 k p := by
  intro j hj
  rw [testBit_false_of_lt64 hk (by omega), testBit_false_of_lt64 hp (by omega)]

/-! ### `highest_bit` -/

theorem dbl_two_pow {t : Nat} (ht : t < 63) : dbl (2 ^ t) = 2 ^ (t + 1) := by
  unfold dbl
  rw [Nat.pow_succ, Nat.mul_comm]
  exact Nat.mod_eq_of_lt (by rw [← Nat.pow_succ]; exact two_pow_lt64 (by omega))

/-- the loop: `xt` is `x` without its bits below `t`; `h` is the most significant bit of `x` -/
theorem highestBitLoop_spec (x h : Nat) (hh : h < 64) (hx : x < 2 ^ 64) (hbit : x.testBit h = true)
    (htop : ∀ j, h < j → x.testBit j = false) :
    ∀ (fuel t xt : Nat), t ≤ h → h - t < fuel →
      (∀ j, xt.testBit j = (decide (t ≤ j) && x.testBit j)) →
      highestBitLoop fuel xt (2 ^ t) = 2 ^ h := by
  intro fuel
  induction fuel with
  | zero => intro t xt _ h2; omega
  | succ f ih =>
    intro t xt ht hf hxt
    unfold highestBitLoop
    by_cases hth : t = h
    · subst hth
      have : xt = 2 ^ t := by
        apply Nat.eq_of_testBit_eq
        intro j
        rw [hxt, Nat.testBit_two_pow]
        rcases Nat.lt_trichotomy j t with hj | hj | hj
        · have h1 : ¬ t ≤ j := by omega
          have h2 : t ≠ j := by omega
          simp [h1, h2]
        · subst hj; simp [hbit]
        · have h1 : t ≤ j := by omega
          have h2 : t ≠ j := by omega
          simp [h1, h2, htop j hj]
      simp [this]
    · have hlt : t < h := by omega
      have hne : xt ≠ 2 ^ t := by
        intro he
        have h1 := hxt h
        rw [he, Nat.testBit_two_pow] at h1
        have h2 : t ≠ h := hth
        simp [h2, hbit] at h1
        omega
      rw [if_neg hne, dbl_two_pow (by omega)]
      apply ih (t + 1) _ (by omega) (by omega)
      intro j
      rw [Nat.testBit_and, hxt, testBit_not64 (two_pow_lt64 (by omega)), Nat.testBit_two_pow]
      by_cases h64 : j < 64
      · by_cases h1 : t ≤ j <;> by_cases h2 : t = j <;> by_cases h3 : t + 1 ≤ j <;> simp [h1, h2, h3, h64] <;> omega
      · have := testBit_false_of_lt64 hx (by omega : 64 ≤ j)
        simp [this]

/-- `highest_bit(a ^ b, 2^s)`: when `a` and `b` differ at some bit `≥ s`, the result is `2^h`
    for the most significant differing bit `h` -/
theorem highestBit_xor {a b s : Nat} (ha : a < 2 ^ 64) (hb : b < 2 ^ 64) (hs : s < 64)
    (hd : ∃ j, s ≤ j ∧ a.testBit j ≠ b.testBit j) :
    ∃ h, s ≤ h ∧ h < 64 ∧ highestBit (a ^^^ b) (2 ^ s) = 2 ^ h ∧
      a.testBit h ≠ b.testBit h ∧ AgreeAbove h a b := by
  -- the most significant differing bit
  have hx : a ^^^ b < 2 ^ 64 := Nat.xor_lt_two_pow ha hb
  obtain ⟨j0, hj0s, hj0⟩ := hd
  have hj0' : (a ^^^ b).testBit j0 = true := by
    rw [Nat.testBit_xor]; cases h1 : a.testBit j0 <;> cases h2 : b.testBit j0 <;> simp_all
  -- find the maximum by bounded search from 63 downwards
  have key : ∀ n, (∀ j, n ≤ j → (a ^^^ b).testBit j = false) → n ≤ 64 →
      ∃ h, h < 64 ∧ (a ^^^ b).testBit h = true ∧ ∀ j, h < j → (a ^^^ b).testBit j = false := by
    intro n
    induction n with
    | zero => intro hall _; have := hall j0 (by omega); rw [hj0'] at this; cases this
    | succ n ih =>
      intro hall hn
      by_cases hb : (a ^^^ b).testBit n = true
      · exact ⟨n, by omega, hb, fun j hj => hall j (by omega)⟩
      · apply ih _ (by omega)
        intro j hj
        by_cases hjn : j = n
        · subst hjn; simpa using hb
        · exact hall j (by omega)
  obtain ⟨h, hh, hbit, htop⟩ := key 64 (fun j hj => testBit_false_of_lt64 hx hj) (Nat.le_refl _)
  have hsh : s ≤ h := by
    by_cases hc : s ≤ h
    · exact hc
    · have := htop j0 (by omega); rw [hj0'] at this; cases this
  refine ⟨h, hsh, hh, ?_, ?_, ?_⟩
  · unfold highestBit
    apply highestBitLoop_spec (a ^^^ b) h hh hx hbit htop 65 s _ hsh (by omega)
    intro j
    rw [Nat.testBit_and, sub1_two_pow hs, testBit_not64 (by have := two_pow_lt64 hs; omega),
      Nat.testBit_two_pow_sub_one]
    by_cases h64 : j < 64
    · by_cases h1 : s ≤ j <;> by_cases h2 : j < s <;> simp [h1, h2, h64] <;> omega
    · have := testBit_false_of_lt64 hx (by omega : 64 ≤ j)
      simp [this]
  · rw [Nat.testBit_xor] at hbit
    cases h1 : a.testBit h <;> cases h2 : b.testBit h <;> simp_all
  · intro j hj
    have := htop j hj
    rw [Nat.testBit_xor] at this
    cases h1 : a.testBit j <;> cases h2 : b.testBit j <;> simp_all

end Patricia
end Crab
