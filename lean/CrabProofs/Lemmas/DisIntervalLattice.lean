import CrabProofs.Lemmas.DisIntervalOrder

/-! `dis_interval::operator|` and `operator&` (`Crab.Dis.join`, `Crab.Dis.meet`). -/
namespace Crab
namespace Dis
open Bound

/-! ### the tails of `operator|` -/

theorem absorb_all (P : Itv → Prop) (hj : ∀ a b, P a → P b → P (Itv.join a b)) :
    ∀ (res : List Itv) (intv : Itv), P intv → (∀ r ∈ res, P r) →
    (∀ r ∈ (absorb intv res).1, P r) ∧ (∀ v, (absorb intv res).2 = some v → P v) ∧
    (absorb intv res).1.length + (if (absorb intv res).2.isSome then 1 else 0) ≤ res.length + 1 := by
  intro res
  induction res with
  | nil => intro intv hi _; simp [absorb]; exact hi
  | cons prev rest ih =>
    intro intv hi hr
    unfold absorb
    split
    · obtain ⟨h1, h2, h3⟩ := ih (Itv.join prev intv) (hj _ _ (hr prev (by simp)) hi)
        (fun r h => hr r (List.mem_cons_of_mem _ h))
      exact ⟨h1, h2, by simp at h3 ⊢; omega⟩
    · split
      · exact ⟨hr, by simp, by simp⟩
      · refine ⟨hr, ?_, by simp⟩
        intro v hv; simp at hv; subst hv; exact hi

theorem restLoop_mem (k : Int) : ∀ (l res : List Itv),
    memL k (restLoop l res) ↔ (memL k l ∨ memL k res) := by
  intro l
  induction l with
  | nil => intro res; simp [restLoop, memL_nil]
  | cons intv more ih =>
    intro res
    have hm := absorb_mem_iff intv res k
    unfold restLoop
    cases ha : absorb intv res with
    | mk res' o =>
      rw [ha] at hm
      cases o with
      | none =>
        simp only
        have hm' : memL k res' ↔ (Itv.mem k intv ∨ memL k res) := by rw [← hm]; simp [outMem]
        rw [ih res', memL_cons, hm']
        grind
      | some v =>
        simp only
        have hm' : (Itv.mem k v ∨ memL k res') ↔ (Itv.mem k intv ∨ memL k res) := by
          rw [← hm]; simp [outMem, or_comm]
        rw [ih (v :: res'), memL_cons, memL_cons, hm']
        grind

theorem restLoop_all (P : Itv → Prop) (hj : ∀ a b, P a → P b → P (Itv.join a b)) :
    ∀ (l res : List Itv), (∀ i ∈ l, P i) → (∀ r ∈ res, P r) →
    (∀ r ∈ restLoop l res, P r) ∧ (restLoop l res).length ≤ l.length + res.length := by
  intro l
  induction l with
  | nil => intro res _ hr; simp [restLoop]; exact hr
  | cons intv more ih =>
    intro res hl hr
    obtain ⟨h1, h2, h3⟩ := absorb_all P hj res intv (hl intv (by simp)) hr
    have hlm : ∀ i ∈ more, P i := fun i hi => hl i (List.mem_cons_of_mem _ hi)
    unfold restLoop
    cases ha : absorb intv res with
    | mk res' o =>
      rw [ha] at h1 h2 h3
      cases o with
      | none =>
        simp only
        obtain ⟨g1, g2⟩ := ih res' hlm h1
        exact ⟨g1, by simp at h3 ⊢; omega⟩
      | some v =>
        simp only
        obtain ⟨g1, g2⟩ := ih (v :: res') hlm (by
          intro r hr'
          rcases List.mem_cons.mp hr' with rfl | hr'
          · exact h2 _ rfl
          · exact h1 r hr')
        exact ⟨g1, by simp at h3 g2 ⊢; omega⟩

/-! ### the main loop of `operator|` -/

theorem beq_mem {a b : Itv} (h : Itv.beq a b = true) (ha : a.isBottom = false) {k : Int}
    (hk : Itv.mem k b) : Itv.mem k a := by
  simp [Itv.beq, ha] at h
  simpa [Itv.mem, h.1, h.2] using hk

/-- the unread tails and the result vector keep every member and every invariant of the
    intervals, and no interval is created -/
def JoinPost (P : Itv → Prop) (xs ys res xs' ys' res' : List Itv) : Prop :=
  (∀ i ∈ xs', P i) ∧ (∀ i ∈ ys', P i) ∧ (∀ i ∈ res', P i) ∧
  (∀ k, memL k xs ∨ memL k ys ∨ memL k res → memL k xs' ∨ memL k ys' ∨ memL k res') ∧
  xs'.length + ys'.length + res'.length ≤ xs.length + ys.length + res.length

theorem joinMain_spec (P : Itv → Prop) (hj : ∀ a b, P a → P b → P (Itv.join a b)) :
    ∀ (fuel : Nat) (xs ys res xs' ys' res' : List Itv),
    (∀ i ∈ xs, P i) → (∀ i ∈ ys, P i) → (∀ i ∈ res, P i) →
    joinMain fuel xs ys res = some (xs', ys', res') → JoinPost P xs ys res xs' ys' res' := by
  intro fuel
  induction fuel with
  | zero =>
    intro xs ys res xs' ys' res' hx hy hr h
    simp [joinMain] at h
    obtain ⟨rfl, rfl, rfl⟩ := h
    exact ⟨hx, hy, hr, fun k h => h, Nat.le_refl _⟩
  | succ fuel ih =>
    intro xs ys res xs' ys' res' hx hy hr h
    cases xs with
    | nil =>
      simp [joinMain] at h
      obtain ⟨rfl, rfl, rfl⟩ := h
      exact ⟨hx, hy, hr, fun k h => h, Nat.le_refl _⟩
    | cons a as =>
      cases ys with
      | nil =>
        simp [joinMain] at h
        obtain ⟨rfl, rfl, rfl⟩ := h
        exact ⟨hx, hy, hr, fun k h => h, Nat.le_refl _⟩
      | cons b bs =>
        have hPa := hx a (by simp)
        have hPb := hy b (by simp)
        have hxs : ∀ i ∈ as, P i := fun i hi => hx i (List.mem_cons_of_mem _ hi)
        have hys : ∀ i ∈ bs, P i := fun i hi => hy i (List.mem_cons_of_mem _ hi)
        have hpush : ∀ c, P c → ∀ i ∈ c :: res, P i := by
          intro c hc i hi
          rcases List.mem_cons.mp hi with rfl | hi
          · exact hc
          · exact hr i hi
        -- one step to the state (xs2, ys2, res2), then the induction hypothesis
        have key : ∀ xs2 ys2 res2, (∀ i ∈ xs2, P i) → (∀ i ∈ ys2, P i) → (∀ i ∈ res2, P i) →
            (∀ k, memL k (a :: as) ∨ memL k (b :: bs) ∨ memL k res →
              memL k xs2 ∨ memL k ys2 ∨ memL k res2) →
            xs2.length + ys2.length + res2.length ≤ (a :: as).length + (b :: bs).length + res.length →
            joinMain fuel xs2 ys2 res2 = some (xs', ys', res') →
            JoinPost P (a :: as) (b :: bs) res xs' ys' res' := by
          intro xs2 ys2 res2 g1 g2 g3 g4 g5 g6
          obtain ⟨e1, e2, e3, e4, e5⟩ := ih xs2 ys2 res2 xs' ys' res' g1 g2 g3 g6
          exact ⟨e1, e2, e3, fun k hk => e4 k (g4 k hk), Nat.le_trans e5 g5⟩
        rw [joinMain] at h
        split at h
        · simp at h
        split at h
        · rename_i hab
          refine key as (b :: bs) res hxs hy hr ?_ (by simp) h
          intro k hk
          rcases hk with hk | hk | hk
          · rcases memL_cons.mp hk with hk | hk
            · exact absurd hk (Itv.not_mem_of_isBottom hab)
            · exact Or.inl hk
          · exact Or.inr (Or.inl hk)
          · exact Or.inr (Or.inr hk)
        rename_i hab
        have hab : a.isBottom = false := by simpa using hab
        split at h
        · rename_i hbb
          refine key (a :: as) bs res hx hys hr ?_ (by simp) h
          intro k hk
          rcases hk with hk | hk | hk
          · exact Or.inl hk
          · rcases memL_cons.mp hk with hk | hk
            · exact absurd hk (Itv.not_mem_of_isBottom hbb)
            · exact Or.inr (Or.inl hk)
          · exact Or.inr (Or.inr hk)
        -- the five branches that push one interval `c` containing what is dropped
        have both : ∀ c, P c → (∀ k, Itv.mem k a → Itv.mem k c) → (∀ k, Itv.mem k b → Itv.mem k c) →
            joinMain fuel as bs (c :: res) = some (xs', ys', res') →
            JoinPost P (a :: as) (b :: bs) res xs' ys' res' := by
          intro c hc ha' hb' hh
          refine key as bs (c :: res) hxs hys (hpush c hc) ?_ (by simp; omega) hh
          intro k hk
          rcases hk with hk | hk | hk
          · rcases memL_cons.mp hk with hk | hk
            · exact Or.inr (Or.inr (memL_cons.mpr (Or.inl (ha' k hk))))
            · exact Or.inl hk
          · rcases memL_cons.mp hk with hk | hk
            · exact Or.inr (Or.inr (memL_cons.mpr (Or.inl (hb' k hk))))
            · exact Or.inr (Or.inl hk)
          · exact Or.inr (Or.inr (memL_cons.mpr (Or.inr hk)))
        split at h
        · rename_i heq
          exact both a hPa (fun _ h => h) (fun _ hk => beq_mem heq hab hk) h
        split at h
        · rename_i hle
          exact both b hPb (fun _ hk => Itv.leq_sound hle hk) (fun _ h => h) h
        split at h
        · rename_i hle
          exact both a hPa (fun _ h => h) (fun _ hk => Itv.leq_sound hle hk) h
        split at h
        · exact both (Itv.join a b) (hj a b hPa hPb) (fun _ hk => Itv.join_upper_left hk)
            (fun _ hk => Itv.join_upper_right hk) h
        split at h
        · refine key as (b :: bs) (a :: res) hxs hy (hpush a hPa) ?_ (by simp; omega) h
          intro k hk
          rcases hk with hk | hk | hk
          · rcases memL_cons.mp hk with hk | hk
            · exact Or.inr (Or.inr (memL_cons.mpr (Or.inl hk)))
            · exact Or.inl hk
          · exact Or.inr (Or.inl hk)
          · exact Or.inr (Or.inr (memL_cons.mpr (Or.inr hk)))
        · refine key (a :: as) bs (b :: res) hx hys (hpush b hPb) ?_ (by simp; omega) h
          intro k hk
          rcases hk with hk | hk | hk
          · exact Or.inl hk
          · rcases memL_cons.mp hk with hk | hk
            · exact Or.inr (Or.inr (memL_cons.mpr (Or.inl hk)))
            · exact Or.inr (Or.inl hk)
          · exact Or.inr (Or.inr (memL_cons.mpr (Or.inr hk)))

/-! ### `operator|` -/

/-- the vector handed to the constructor at the end of `operator|` -/
def joinVec (lx ly : List Itv) : Option (List Itv) :=
  match joinMain (lx.length + ly.length) lx ly [] with
  | none => none
  | some (xs, ys, res) => some (restLoop ys (restLoop xs res)).reverse

theorem join_fin (lx ly : List Itv) : join ⟨.fin, lx⟩ ⟨.fin, ly⟩ =
    match joinVec lx ly with
    | none => ⟨.top, []⟩
    | some [] => ⟨.bot, []⟩
    | some [r] => if r.isTop then ⟨.top, []⟩ else mkList [r]
    | some v => mkList v := by
  simp only [join, joinVec, isBottom, isTop]
  cases joinMain (lx.length + ly.length) lx ly [] with
  | none => rfl
  | some p =>
    obtain ⟨xs, ys, res⟩ := p
    have e1 : (DisState.fin == DisState.bot) = false := rfl
    have e2 : (DisState.fin == DisState.top) = false := rfl
    simp only [e1, e2, Bool.false_eq_true, if_false]
    generalize (restLoop ys (restLoop xs res)).reverse = v
    match v with
    | [] => rfl
    | [r] => rfl
    | a :: b :: c => rfl

theorem joinVec_spec (P : Itv → Prop) (hj : ∀ a b, P a → P b → P (Itv.join a b))
    {lx ly v : List Itv} (hx : ∀ i ∈ lx, P i) (hy : ∀ i ∈ ly, P i) (h : joinVec lx ly = some v) :
    (∀ i ∈ v, P i) ∧ (∀ k, memL k lx ∨ memL k ly → memL k v) ∧ v.length ≤ lx.length + ly.length := by
  unfold joinVec at h
  cases hm : joinMain (lx.length + ly.length) lx ly [] with
  | none => simp [hm] at h
  | some p =>
    obtain ⟨xs, ys, res⟩ := p
    simp [hm] at h
    subst h
    obtain ⟨h1, h2, h3, h4, h5⟩ := joinMain_spec P hj _ lx ly [] xs ys res hx hy (by simp) hm
    obtain ⟨g1, g2⟩ := restLoop_all P hj xs res h1 h3
    obtain ⟨f1, f2⟩ := restLoop_all P hj ys (restLoop xs res) h2 g1
    refine ⟨fun i hi => f1 i (List.mem_reverse.mp hi), ?_, by simp at h5 ⊢; omega⟩
    intro k hk
    rw [memL_reverse, restLoop_mem, restLoop_mem]
    have := h4 k (by rcases hk with hk | hk; exact Or.inl hk; exact Or.inr (Or.inl hk))
    grind

theorem join_mem_upper {x y : Dis} (hx : EWF x) (hy : EWF y) {k : Int} (h : mem k x ∨ mem k y) :
    mem k (join x y) := by
  obtain ⟨sx, lx⟩ := x
  obtain ⟨sy, ly⟩ := y
  cases sx <;> cases sy <;> try (simp_all [join, isBottom, isTop, mem]; done)
  rw [join_fin]
  cases hv : joinVec lx ly with
  | none => exact mem_top k
  | some v =>
    obtain ⟨h1, h2, _⟩ := joinVec_spec Itv.WF (fun a b => Itv.wf_join) hx hy hv
    have hk : memL k v := h2 k h
    match v, h1, hk with
    | [], _, hk => exact absurd hk (memL_nil k)
    | [r], h1, hk =>
      simp only
      split
      · exact mem_top k
      · exact mkList_mem_upper h1 hk
    | a :: b :: c, h1, hk => exact mkList_mem_upper h1 hk

/-- `operator|` keeps the invariant as long as fewer than 50 disjuncts are involved -/
theorem join_wf {x y : Dis} (hx : WF x) (hy : WF y)
    (hlen : x.l.length + y.l.length < maxDisjunctions) : WF (join x y) := by
  obtain ⟨sx, lx⟩ := x
  obtain ⟨sy, ly⟩ := y
  cases sx <;> cases sy <;> try (simp_all [join, isBottom, isTop, WF]; done)
  rw [join_fin]
  cases hv : joinVec lx ly with
  | none => simp [WF]
  | some v =>
    have hg : ∀ l : List Itv, WFList l → ∀ i ∈ l, i.isBottom = false ∧ i.WF := by
      intro l hl i hi
      have := (proper_iff i).mp (hl.1 i hi)
      exact ⟨this.1, this.2.2⟩
    obtain ⟨h1, _, h3⟩ := joinVec_spec (fun i => i.isBottom = false ∧ i.WF)
      (fun a b ha hb => ⟨join_isBottom ha.1, Itv.wf_join ha.2 hb.2⟩)
      (hg lx hx.2.2) (hg ly hy.2.2) hv
    simp only at hlen
    match v, h1, h3 with
    | [], _, _ => simp [WF]
    | [r], h1, _ =>
      simp only
      split
      · simp [WF]
      · rename_i hnt
        refine mkList_wf (fun i hi => (h1 i hi).2) ?_ (by simp [maxDisjunctions])
        intro a ha
        simp at ha; subst ha
        exact (proper_iff _).mpr ⟨(h1 _ (by simp)).1, by simpa using hnt, (h1 _ (by simp)).2⟩
    | a :: b :: c, h1, h3 =>
      exact mkList_wf (fun i hi => (h1 i hi).2) (by simp) (by omega)

/-! ### `operator&` -/

/-- the non-bottom pairwise meets -/
def meetVec (lx ly : List Itv) : List Itv :=
  (lx.flatMap (fun a => ly.map (fun b => Itv.meet a b))).filter (fun m => !m.isBottom)

theorem mem_meetVec {lx ly : List Itv} {m : Itv} :
    m ∈ meetVec lx ly ↔ (∃ a ∈ lx, ∃ b ∈ ly, Itv.meet a b = m) ∧ m.isBottom = false := by
  simp [meetVec, List.mem_filter, List.mem_flatMap, List.mem_map]

theorem length_pairs {β : Type} (f : Itv → Itv → β) (lx ly : List Itv) :
    (lx.flatMap (fun a => ly.map (fun b => f a b))).length = lx.length * ly.length := by
  induction lx with
  | nil => simp
  | cons a as ih => simp [List.flatMap_cons, ih, Nat.succ_mul, Nat.add_comm]

theorem length_meetVec (lx ly : List Itv) : (meetVec lx ly).length ≤ lx.length * ly.length := by
  unfold meetVec
  exact Nat.le_trans (List.length_filter_le _ _) (Nat.le_of_eq (length_pairs _ lx ly))

theorem meet_fin (lx ly : List Itv) : meet ⟨.fin, lx⟩ ⟨.fin, ly⟩ =
    if (meetVec lx ly).isEmpty then bot else mkList (meetVec lx ly) := by
  have e1 : (DisState.fin == DisState.bot) = false := rfl
  have e2 : (DisState.fin == DisState.top) = false := rfl
  simp only [meet, meetVec, isBottom, isTop, e1, e2, Bool.or_self, Bool.false_eq_true, if_false]
  rfl

theorem meetVec_wf {lx ly : List Itv} (hx : ∀ a ∈ lx, a.WF) (hy : ∀ b ∈ ly, b.WF) :
    ∀ m ∈ meetVec lx ly, m.WF := by
  intro m hm
  obtain ⟨⟨a, ha, b, hb, rfl⟩, _⟩ := mem_meetVec.mp hm
  exact Itv.wf_meet (hx a ha) (hy b hb)

theorem meet_mem_sound {x y : Dis} (hx : EWF x) (hy : EWF y) {k : Int} (h1 : mem k x) (h2 : mem k y) :
    mem k (meet x y) := by
  obtain ⟨sx, lx⟩ := x
  obtain ⟨sy, ly⟩ := y
  cases sx <;> cases sy <;> try (simp_all [meet, isBottom, isTop, mem]; done)
  rw [meet_fin]
  obtain ⟨a, ha, hka⟩ := h1
  obtain ⟨b, hb, hkb⟩ := h2
  have hkm : Itv.mem k (Itv.meet a b) := Itv.meet_sound hka hkb
  have hin : Itv.meet a b ∈ meetVec lx ly :=
    mem_meetVec.mpr ⟨⟨a, ha, b, hb, rfl⟩, Itv.isBottom_false_of_mem hkm⟩
  have hne : (meetVec lx ly).isEmpty = false := by
    cases hv : meetVec lx ly with
    | nil => rw [hv] at hin; simp at hin
    | cons _ _ => rfl
  simp only [hne, Bool.false_eq_true, if_false]
  exact mkList_mem_upper (meetVec_wf hx hy) ⟨_, hin, hkm⟩

/-- below 50 pieces the meet describes exactly the common members -/
theorem meet_mem_exact {x y : Dis} (hx : EWF x) (hy : EWF y)
    (hsmall : x.l.length * y.l.length < maxDisjunctions) {k : Int} (h : mem k (meet x y)) :
    mem k x ∧ mem k y := by
  obtain ⟨sx, lx⟩ := x
  obtain ⟨sy, ly⟩ := y
  cases sx <;> cases sy <;> try (simp_all [meet, isBottom, isTop, mem, bot]; done)
  rw [meet_fin] at h
  split at h
  · exact absurd h (not_mem_bot k)
  · rename_i hne
    have hne' : meetVec lx ly ≠ [] := by
      intro e; simp [e] at hne
    have hlen : (meetVec lx ly).length < maxDisjunctions :=
      Nat.lt_of_le_of_lt (length_meetVec lx ly) hsmall
    obtain ⟨m, hm, hkm⟩ := mkList_mem_exact (meetVec_wf hx hy) hne' hlen h
    obtain ⟨⟨a, ha, b, hb, rfl⟩, _⟩ := mem_meetVec.mp hm
    obtain ⟨h1, h2⟩ := Itv.meet_exact hkm
    exact ⟨⟨a, ha, h1⟩, ⟨b, hb, h2⟩⟩

theorem meet_isTop {a b : Itv} (ha : a.WF) (hb : b.WF) (h : (Itv.meet a b).isTop = true) :
    a.isTop = true := by
  have hall : ∀ k, Itv.mem k a := fun k =>
    (Itv.meet_exact (mem_of_isTop h (Itv.wf_meet ha hb) k)).1
  obtain ⟨al, au⟩ := a
  cases al with
  | fin l => have := (hall (l - 1)).1; simp at this; omega
  | pinf => exact absurd rfl ha.1
  | ninf =>
    cases au with
    | fin u => have := (hall (u + 1)).2; simp at this; omega
    | ninf => exact absurd rfl ha.2
    | pinf => rfl

theorem meet_wf {x y : Dis} (hx : WF x) (hy : WF y)
    (hsmall : x.l.length * y.l.length < maxDisjunctions) : WF (meet x y) := by
  obtain ⟨sx, lx⟩ := x
  obtain ⟨sy, ly⟩ := y
  cases sx <;> cases sy <;> try (simp_all [meet, isBottom, isTop, WF, bot]; done)
  rw [meet_fin]
  split
  · simp [WF, bot]
  · have hpx : ∀ a ∈ lx, a.isBottom = false ∧ a.isTop = false ∧ a.WF :=
      fun a ha => (proper_iff a).mp (hx.2.2.1 a ha)
    have hpy : ∀ a ∈ ly, a.isBottom = false ∧ a.isTop = false ∧ a.WF :=
      fun a ha => (proper_iff a).mp (hy.2.2.1 a ha)
    have hwf := meetVec_wf (fun a ha => (hpx a ha).2.2) (fun a ha => (hpy a ha).2.2)
    refine mkList_wf hwf ?_ (Nat.lt_of_le_of_lt (length_meetVec lx ly) hsmall)
    intro m hm
    have hin : m ∈ meetVec lx ly := by rw [hm]; simp
    obtain ⟨⟨a, ha, b, hb, rfl⟩, hnb⟩ := mem_meetVec.mp hin
    refine (proper_iff _).mpr ⟨hnb, ?_, hwf _ hin⟩
    cases ht : (Itv.meet a b).isTop with
    | false => rfl
    | true =>
      have := meet_isTop (hpx a ha).2.2 (hpy b hb).2.2 ht
      rw [(hpx a ha).2.1] at this
      exact absurd this (by decide)

end Dis
end Crab
