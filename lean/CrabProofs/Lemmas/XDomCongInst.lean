import CrabProofs.Lemmas.XDomCongOps2

/-!
  The congruence domain as an instance of the generic history contract: environments with the
  invariant of `separate_domain` (stored congruences in standard form), the lattice operations
  on them, and the abstract execution of the statements of `XDom.Stmt`.

  `Shl` by a *variable* amount is sound only when the modulus of the class of the amount fits a
  machine word (`Env.applyBitVar_sound`; `z_number` shifts by `mpz_get_ui`, known finding F22):
  that side condition is about the abstract value, not about the statement, so these statements
  are left out of the histories (`Ok'`).
-/
namespace Crab
namespace GDom
open XDom Lin

local notation "GL" => congLattice

/-- the values of the domain: environments that satisfy the invariant of `separate_domain` -/
def SEnv := { e : Env // e.Inv }

namespace SEnv

def γ (a : SEnv) (σ : State) : Prop := Env.γ a.1 σ
def bot : SEnv := ⟨Env.bot, Env.inv_bot⟩
def top : SEnv := ⟨Env.top, Env.inv_top⟩
def leq (a b : SEnv) : Bool := XDom.Env.leq GL a.1 b.1
def join (a b : SEnv) : SEnv := ⟨XDom.Env.join GL a.1 b.1, XDom.Env.upper_inv congLaws congLaws.join a.2 b.2⟩
def widen (a b : SEnv) : SEnv := ⟨XDom.Env.widen GL a.1 b.1, XDom.Env.upper_inv congLaws congLaws.widen a.2 b.2⟩
def meet (a b : SEnv) : SEnv := ⟨XDom.Env.meet GL a.1 b.1, XDom.Env.lower_inv congLaws congLaws.meet a.2 b.2⟩
def narrow (a b : SEnv) : SEnv := ⟨XDom.Env.narrow GL a.1 b.1, XDom.Env.lower_inv congLaws congLaws.narrow a.2 b.2⟩

end SEnv

/-- abstract execution of a statement: one call of the domain -/
def exec : Stmt → Env → Env
  | .assign x e, a => a.assign x e
  | .weakAssign x e, a => a.weakAssign x e
  | .arithVar op x y z, a => a.applyVar op x y z
  | .arithCst op x y k, a => a.applyCst op x y k
  | .bitVar op x y z, a => a.applyBitVar op x y z
  | .bitCst op x y k, a => a.applyBitCst op x y k
  | .assume csts, a => a.add csts
  | .select lhs c e1 e2, a => a.select lhs c e1 e2
  | .forget x, a => a.forget x
  | .havoc vs, a => a.forgetAll vs
  | .project vs, a => a.project vs
  | .expand x nx, a => a.expand x nx
  | .cast z bw d s, a => a.intCast z bw d s

/-- the side conditions of `Stmt.Ok`, and no left shift by a variable amount -/
def Ok' (st : Stmt) : Prop := st.Ok ∧ ∀ x y z, st ≠ .bitVar .shl x y z

theorem exec_inv (st : Stmt) (hok : st.Ok) {a : Env} (h : a.Inv) : (exec st a).Inv := by
  cases st <;> simp only [exec]
  · exact Env.assign_inv h hok _
  · exact Env.weakAssign_inv h hok _
  · exact Env.applyVar_inv h _ hok _ _
  · exact Env.applyCst_inv h _ hok _ _
  · exact Env.applyBitVar_inv h _ hok _ _
  · exact Env.applyBitCst_inv h _ hok _ _
  · exact Env.add_inv h hok
  · exact Env.select_inv h hok.1 hok.2 _ _
  · rw [Env.forget_eq]; exact XDom.Env.forget_inv congLaws h hok
  · rw [Env.forgetAll_eq]; exact XDom.Env.forgetAll_inv congLaws h hok
  · rw [Env.project_eq]; exact XDom.Env.project_inv congLaws h hok
  · rw [Env.expand_eq]; exact XDom.Env.expand_inv congLaws h hok
  · exact Env.intCast_inv h _ _ hok _

/-- **every statement is sound**: the abstract execution describes every concrete successor -/
theorem exec_sound (st : Stmt) (hok : Ok' st) {a : Env} (ha : a.Inv) {s s' : State} (hg : a.γ s)
    (hr : st.rel s s') : (exec st a).γ s' := by
  obtain ⟨hok, hshl⟩ := hok
  cases st with
  | assign x e => simp only [Stmt.rel] at hr; subst hr; exact Env.assign_sound ha hg hok e
  | weakAssign x e =>
    rcases hr with hr | hr <;> subst hr
    · exact (Env.weakAssign_sound ha hg hok e).1
    · exact (Env.weakAssign_sound ha hg hok e).2
  | arithVar op x y z => obtain ⟨c, hc, hs⟩ := hr; subst hs; exact Env.applyVar_sound ha hg op hok y z hc
  | arithCst op x y k => obtain ⟨c, hc, hs⟩ := hr; subst hs; exact Env.applyCst_sound ha hg op hok y k hc
  | bitVar op x y z =>
    obtain ⟨c, hc, hs⟩ := hr; subst hs
    exact Env.applyBitVar_sound ha hg op hok y z hc (fun h => by subst h; exact absurd rfl (hshl x y z))
  | bitCst op x y k => obtain ⟨c, hc, hs⟩ := hr; subst hs; exact Env.applyBitCst_sound ha hg op hok y k hc
  | assume csts => obtain ⟨hsat, hs⟩ := hr; subst hs; exact Env.add_sound ha hg hok hsat
  | select lhs c e1 e2 => simp only [Stmt.rel] at hr; subst hr; exact Env.select_sound ha hg hok.1 hok.2 e1 e2
  | forget x =>
    obtain ⟨n, hs⟩ := hr; subst hs
    simp only [exec]; rw [Env.forget_eq]; exact XDom.Env.forget_sound congLaws ha hg hok n
  | havoc vs => simp only [exec]; rw [Env.forgetAll_eq]; exact XDom.Env.forgetAll_sound congLaws ha hg hok hr
  | project vs => simp only [exec]; rw [Env.project_eq]; exact XDom.Env.project_sound congLaws ha hg hok hr
  | expand x nx =>
    simp only [Stmt.rel] at hr; subst hr
    simp only [exec]; rw [Env.expand_eq]; exact XDom.Env.expand_sound congLaws ha hg hok (hg.2 x)
  | cast z bw d src => obtain ⟨hz, hs⟩ := hr; subst hs; exact Env.intCast_sound ha hg z bw hok src hz

/-- lifted to the environments with the invariant -/
def execS (st : Stmt) (hok : st.Ok) (a : SEnv) : SEnv := ⟨exec st a.1, exec_inv st hok a.2⟩

end GDom
end Crab
