import CrabProofs.Lemmas.DbmIncrRelax

/-!
  The first loop of `close_over_edge` (predecessors `se` of `ii`): invariant and postcondition.

  The loop is analysed in its IMMEDIATE form `p1I` (a new edge is written at once instead of being
  pushed on `delta`); `DbmIncrDelta.lean` shows that the coded loop followed by `apply_delta`
  computes the same graph and the same `src_dec`.
-/
namespace Crab
namespace DbmIncr
open Dbm Zones

variable {n : Nat}

/-- generic fold lemma: an invariant `I`, a preorder `le` in which every step descends, and a
    postcondition `P a` established by the step on `a` and stable under descent -/
theorem foldl_post {σ α : Type} (step : σ → α → σ) (I : σ → Prop) (le : σ → σ → Prop)
    (P : α → σ → Prop) (le_refl : ∀ s, le s s) (le_trans : ∀ a b c, le a b → le b c → le a c)
    (hstep : ∀ s a, I s → I (step s a) ∧ le (step s a) s ∧ P a (step s a))
    (hstab : ∀ a s s', P a s → le s' s → P a s') :
    ∀ (l : List α) (s : σ), I s →
      I (l.foldl step s) ∧ le (l.foldl step s) s ∧ ∀ a ∈ l, P a (l.foldl step s) := by
  intro l
  induction l with
  | nil => intro s hs; exact ⟨hs, le_refl s, fun a ha => by cases ha⟩
  | cons x l ih =>
    intro s hs
    obtain ⟨h1, h2, h3⟩ := hstep s x hs
    obtain ⟨k1, k2, k3⟩ := ih (step s x) h1
    refine ⟨k1, le_trans _ _ _ k2 h2, ?_⟩
    intro a ha
    rcases List.mem_cons.1 ha with rfl | ha
    · exact hstab _ _ _ h3 k2
    · exact k3 a ha

/-- state of the immediate loops: graph and `src_dec` / `dest_dec` -/
abbrev ISt (n : Nat) := Zone n × List (Fin (n + 1) × Int)

/-- descent of states: the graph is only lowered, the list only grows -/
def ISt.le (s' s : ISt n) : Prop := Dec s'.1 s.1 ∧ ∀ p, p ∈ s.2 → p ∈ s'.2

theorem ISt.le_refl (s : ISt n) : ISt.le s s := ⟨Dec.refl _, fun _ h => h⟩
theorem ISt.le_trans (a b c : ISt n) (h1 : ISt.le a b) (h2 : ISt.le b c) : ISt.le a c :=
  ⟨Dec.trans h1.1 h2.1, fun p hp => h1.2 p (h2.2 p hp)⟩

/-- immediate form of `pass1Step` -/
def p1I (inl : Bool) (ii jj : Fin (n + 1)) (c : Int) (st : ISt n) (se : Fin (n + 1)) : ISt n :=
  if se = 0 ∨ se = ii then st else
  match edge st.1 se ii with
  | none => st
  | some ev =>
    if se = jj then st else
    if W.le (edge st.1 se jj) (some (ev + c)) = true then st else
    let g1 := relax st.1 se (ev + c) jj
    (if inl then closeBounds g1 se jj (ev + c) else g1, st.2 ++ [(se, ev)])

section
variable (inl : Bool) (G Tf Tv : Zone n) (ii jj : Fin (n + 1)) (c : Int)

/-- invariant of the first loop -/
structure I1 (st : ISt n) : Prop where
  snd : Snd G Tf Tv st.1
  intoI : ∀ x, edge st.1 x ii = edge G x ii
  outJ : ∀ x, edge st.1 jj x = edge G jj x
  outI : ∀ x, x ≠ 0 → edge st.1 ii x = edge G ii x
  decS : ∀ p ∈ st.2, p.1 ≠ 0 ∧ p.1 ≠ ii ∧ p.1 ≠ jj ∧ edge G p.1 ii = some p.2
  unt : ∀ x, x ≠ 0 → edge st.1 x jj = edge G x jj ∨ ∃ ev, (x, ev) ∈ st.2
  bnd : inl = false → ∀ x, edge st.1 0 x = edge G 0 x ∧ edge st.1 x 0 = edge G x 0
  ubJ : ∀ p ∈ st.2, W.LE (edge st.1 p.1 jj) (some (p.2 + c))
  ubS : inl = true → ∀ p ∈ st.2, ∀ y, edge G jj 0 = some y →
    W.LE (edge st.1 p.1 0) (some (y + (p.2 + c)))

/-- postcondition for the vertex `se`: recorded in `src_dec` unless `se → jj` was short enough -/
def P1 (se : Fin (n + 1)) (st : ISt n) : Prop :=
  ∀ ev, se ≠ 0 → se ≠ ii → se ≠ jj → edge G se ii = some ev →
    (se, ev) ∈ st.2 ∨ W.LE (edge G se jj) (some (ev + c))

end

variable {inl : Bool} {G Tf Tv : Zone n} {ii jj : Fin (n + 1)} {c : Int}

theorem P1_stable (se : Fin (n + 1)) (s s' : ISt n) (h : P1 G ii jj c se s) (hle : ISt.le s' s) :
    P1 G ii jj c se s' := by
  intro ev h0 h1 h2 h3
  rcases h ev h0 h1 h2 h3 with h | h
  · exact Or.inl (hle.2 _ h)
  · exact Or.inr h

theorem p1I_step (hr : Ref Tf Tv) (hi : ii ≠ 0) (hj : jj ≠ 0) (hij : ii ≠ jj)
    (hc : edge G ii jj = some c) (st : ISt n) (se : Fin (n + 1)) (h : I1 inl G Tf Tv ii jj c st) :
    I1 inl G Tf Tv ii jj c (p1I inl ii jj c st se) ∧ ISt.le (p1I inl ii jj c st se) st ∧
      P1 G ii jj c se (p1I inl ii jj c st se) := by
  unfold p1I
  by_cases h0 : se = 0 ∨ se = ii
  · simp only [h0, if_true]
    refine ⟨h, ISt.le_refl _, ?_⟩
    intro ev a1 a2 _ _
    rcases h0 with h0 | h0
    · exact absurd h0 a1
    · exact absurd h0 a2
  simp only [h0, if_false]
  have hs0 : se ≠ 0 := fun e => h0 (Or.inl e)
  have hsi : se ≠ ii := fun e => h0 (Or.inr e)
  rcases hev : edge st.1 se ii with _ | ev0
  · simp only
    refine ⟨h, ISt.le_refl _, ?_⟩
    intro ev _ _ _ a4
    rw [← h.intoI, hev] at a4; cases a4
  simp only
  have hevG : edge G se ii = some ev0 := by rw [← h.intoI]; exact hev
  by_cases hsj : se = jj
  · simp only [hsj, if_true]
    refine ⟨h, ISt.le_refl _, ?_⟩
    intro ev _ _ a3 _
    exact absurd rfl a3
  simp only [hsj, if_false]
  by_cases hg : W.le (edge st.1 se jj) (some (ev0 + c)) = true
  · simp only [hg, if_true]
    refine ⟨h, ISt.le_refl _, ?_⟩
    intro ev _ _ _ a4
    rw [hevG] at a4; cases a4
    rcases h.unt se hs0 with hu | ⟨ev', hu⟩
    · right; rw [← hu]; exact (W.le_iff _ _).1 hg
    · left
      have := (h.decS _ hu).2.2.2
      simp only at this
      rw [hevG] at this; cases this
      exact hu
  simp only [hg]
  -- the relaxation of `se → jj`
  have hcur : edge st.1 ii jj = some c := by rw [h.outI jj hj]; exact hc
  have hTfE : W.LE (edge Tf ii jj) (some c) := h.snd.edgeF hcur
  have hTvE : W.LE (edge Tv ii jj) (some c) := h.snd.edgeV hi hj hcur
  have hF : W.LE (edge Tf se jj) (some (ev0 + c)) := h.snd.path2F hr hev hTfE
  have hV : W.LE (edge Tv se jj) (some (ev0 + c)) := h.snd.path2V hr hs0 hi hj hev hTvE
  have s1 : Snd G Tf Tv (relax st.1 se (ev0 + c) jj) := h.snd.relax hsj hF (fun _ _ => hV)
  -- the new graph, by cases on `inl`
  have key : ∀ g2 : Zone n, Snd G Tf Tv g2 → Dec g2 (relax st.1 se (ev0 + c) jj) →
      (∀ x y, ¬ (x = 0 ∧ y = jj) → ¬ (x = se ∧ y = 0) →
        edge g2 x y = edge (relax st.1 se (ev0 + c) jj) x y) →
      (inl = false → g2 = relax st.1 se (ev0 + c) jj) →
      (inl = true → ∀ y, edge (relax st.1 se (ev0 + c) jj) jj 0 = some y →
        W.LE (edge g2 se 0) (some (y + (ev0 + c)))) →
      I1 inl G Tf Tv ii jj c (g2, st.2 ++ [(se, ev0)]) ∧ ISt.le (g2, st.2 ++ [(se, ev0)]) st ∧
        P1 G ii jj c se (g2, st.2 ++ [(se, ev0)]) := by
    intro g2 s2 d2 fr2 hb2 hu2
    have dd : Dec g2 st.1 := Dec.trans d2 (relax_dec _ _ _ _)
    have fr : ∀ x y, ¬ (x = 0 ∧ y = jj) → ¬ (x = se ∧ y = 0) → ¬ (x = se ∧ y = jj) →
        edge g2 x y = edge st.1 x y := by
      intro x y a1 a2 a3
      rw [fr2 x y a1 a2, edge_relax_ne _ _ a3]
    refine ⟨⟨s2, ?_, ?_, ?_, ?_, ?_, ?_, ?_, ?_⟩, ⟨dd, fun p hp => List.mem_append_left _ hp⟩, ?_⟩
    · intro x
      rw [fr x ii (fun e => hij e.2) (fun e => hi e.2) (fun e => hij e.2)]
      exact h.intoI x
    · intro x
      rw [fr jj x (fun e => hj e.1) (fun e => hsj e.1.symm) (fun e => hsj e.1.symm)]
      exact h.outJ x
    · intro x hx
      rw [fr ii x (fun e => hi e.1) (fun e => hx e.2) (fun e => hsi e.1.symm)]
      exact h.outI x hx
    · intro p hp
      rcases List.mem_append.1 hp with hp | hp
      · exact h.decS p hp
      · simp only [List.mem_singleton] at hp
        subst hp
        exact ⟨hs0, hsi, hsj, hevG⟩
    · intro x hx
      by_cases hxs : x = se
      · subst hxs
        exact Or.inr ⟨ev0, List.mem_append_right _ (List.mem_singleton.2 rfl)⟩
      · rw [fr x jj (fun e => hx e.1) (fun e => hj e.2) (fun e => hxs e.1)]
        rcases h.unt x hx with hu | ⟨ev', hu⟩
        · exact Or.inl hu
        · exact Or.inr ⟨ev', List.mem_append_left _ hu⟩
    · intro hf x
      rw [hb2 hf, edge_relax_ne _ _ (fun e => hs0 e.1.symm), edge_relax_ne _ _ (fun e => hj e.2.symm)]
      exact h.bnd hf x
    · intro p hp
      rcases List.mem_append.1 hp with hp | hp
      · exact W.LE_trans (dd _ _) (h.ubJ p hp)
      · simp only [List.mem_singleton] at hp
        subst hp
        exact W.LE_trans (d2 _ _) (relax_le_val _ _ _ _)
    · intro ht p hp y hy
      rcases List.mem_append.1 hp with hp | hp
      · exact W.LE_trans (dd _ _) (h.ubS ht p hp y hy)
      · simp only [List.mem_singleton] at hp
        subst hp
        apply hu2 ht y
        rw [edge_relax_ne _ _ (fun e => hsj e.1.symm), h.outJ 0]
        exact hy
    · intro ev _ _ _ a4
      rw [hevG] at a4; cases a4
      exact Or.inl (List.mem_append_right _ (List.mem_singleton.2 rfl))
  cases inl with
  | false =>
    simp only [Bool.false_eq_true, if_false]
    exact key _ s1 (Dec.refl _) (fun _ _ _ _ => rfl) (fun _ => rfl) (fun e => by cases e)
  | true =>
    simp only [if_true]
    refine key _ (s1.closeBounds hr hs0 hj hF) (closeBounds_dec _ _ _ _)
      (fun x y a1 a2 => closeBounds_frame _ _ _ _ a1 a2) (fun e => by cases e) ?_
    intro _ y hy
    exact closeBounds_ub1 _ _ hj hy

/-- the first loop: invariant, descent, and every vertex of the enumeration is postconditioned -/
theorem p1I_fold (hr : Ref Tf Tv) (hi : ii ≠ 0) (hj : jj ≠ 0) (hij : ii ≠ jj)
    (hc : edge G ii jj = some c) (vs : List (Fin (n + 1))) (st : ISt n)
    (h : I1 inl G Tf Tv ii jj c st) :
    I1 inl G Tf Tv ii jj c (vs.foldl (p1I inl ii jj c) st) ∧
      ISt.le (vs.foldl (p1I inl ii jj c) st) st ∧
      ∀ se ∈ vs, P1 G ii jj c se (vs.foldl (p1I inl ii jj c) st) :=
  foldl_post (p1I inl ii jj c) (I1 inl G Tf Tv ii jj c) ISt.le (P1 G ii jj c) ISt.le_refl
    ISt.le_trans (fun s a hs => p1I_step hr hi hj hij hc s a hs) P1_stable vs st h

end DbmIncr
end Crab
