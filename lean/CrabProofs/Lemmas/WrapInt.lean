import CrabModel.Num.WrapInt

/-!
  Lemmas relating the model `Crab.WrapInt` of `crab::wrapint` to `BitVec w`.
  `ofBV x` is the wrapint of width `w` whose `_n` is `x.toNat`: these are exactly the
  well-formed *reduced* objects.
-/
namespace Crab
namespace WrapInt

/-- the wrapint representing a bit-vector (reduced by construction) -/
abbrev ofBV {w : Nat} (x : BitVec w) : WrapInt := ⟨w, x.toNat⟩

@[simp] theorem ofBV_width {w} (x : BitVec w) : (ofBV x).width = w := rfl
@[simp] theorem ofBV_n {w} (x : BitVec w) : (ofBV x).n = x.toNat := rfl

theorem pow_dvd_64 {w : Nat} (hw : w ≤ 64) : 2 ^ w ∣ 2 ^ 64 := Nat.pow_dvd_pow 2 hw

theorem pow_le_64 {w : Nat} (hw : w ≤ 64) : 2 ^ w ≤ 2 ^ 64 := Nat.pow_le_pow_right (by decide) hw

theorem bv_lt_64 {w : Nat} (hw : w ≤ 64) (x : BitVec w) : x.toNat < 2 ^ 64 :=
  Nat.lt_of_lt_of_le x.isLt (pow_le_64 hw)

theorem ofBV_reduced {w} (x : BitVec w) : (ofBV x).Reduced := x.isLt

theorem ofBV_wf {w} (h1 : 1 ≤ w) (hw : w ≤ 64) (x : BitVec w) : (ofBV x).WF :=
  ⟨h1, hw, bv_lt_64 hw x⟩

theorem reduced_iff_ofBV (a : WrapInt) : a.Reduced ↔ ∃ x : BitVec a.width, a = ofBV x := by
  constructor
  · intro h
    refine ⟨BitVec.ofNatLT a.n h, ?_⟩
    cases a; rfl
  · rintro ⟨x, hx⟩
    rw [hx]; exact x.isLt

/-- the post-reduction of a uint64 result -/
theorem red_mod {w : Nat} (hw : w ≤ 64) (m : Nat) : red w (m % 2 ^ 64) = m % 2 ^ w := by
  unfold red
  split
  · next h => subst h; rfl
  · exact Nat.mod_mod_of_dvd m (pow_dvd_64 hw)

theorem red_small {w r : Nat} (h : r < 2 ^ w) : red w r = r := by
  unfold red
  split
  · rfl
  · exact Nat.mod_eq_of_lt h

theorem sub_mod_lemma (M K x y : Nat) (hK : 0 < K) (hy : y ≤ M) :
    (x + M * K - y) % M = (M - y + x) % M := by
  obtain ⟨K', rfl⟩ : ∃ K', K = K' + 1 := ⟨K - 1, by omega⟩
  have h : x + M * (K' + 1) - y = (M - y + x) + M * K' := by
    rw [Nat.mul_succ]; omega
  rw [h, Nat.add_mul_mod_self_left]

theorem pow64_split {w : Nat} (hw : w ≤ 64) : (2:Nat) ^ 64 = 2 ^ w * 2 ^ (64 - w) := by
  rw [← Nat.pow_add]; congr 1; omega

theorem widthOk_of {w : Nat} (h1 : 1 ≤ w) (hw : w ≤ 64) : widthOk w = true := by
  unfold widthOk
  have : ¬ (w > 64) := by omega
  have : (w == 0) = false := by simp; omega
  simp [*]

theorem mk?_eq {w : Nat} (h1 : 1 ≤ w) (hw : w ≤ 64) (n : Nat) (hn : n < 2 ^ 64) :
    mk? n w = some (ofBV (BitVec.ofNat w n)) := by
  unfold mk?
  rw [widthOk_of h1 hw]
  simp only [if_true, ofBV, BitVec.toNat_ofNat]
  split
  · rfl
  · have : w = 64 := by omega
    subst this
    rw [Nat.mod_eq_of_lt hn]


/-! ### arithmetic -/

theorem add_ofBV {w : Nat} (hw : w ≤ 64) (x y : BitVec w) :
    add (ofBV x) (ofBV y) = some (ofBV (x + y)) := by
  simp only [add, ofBV, if_true, red_mod hw, BitVec.toNat_add]

theorem mul_ofBV {w : Nat} (hw : w ≤ 64) (x y : BitVec w) :
    mul (ofBV x) (ofBV y) = some (ofBV (x * y)) := by
  simp only [mul, ofBV, if_true, red_mod hw, BitVec.toNat_mul]

theorem sub_ofBV {w : Nat} (hw : w ≤ 64) (x y : BitVec w) :
    sub (ofBV x) (ofBV y) = some (ofBV (x - y)) := by
  simp only [sub, ofBV, if_true, red_mod hw, BitVec.toNat_sub]
  rw [Nat.mod_eq_of_lt (bv_lt_64 hw y), pow64_split hw,
    sub_mod_lemma _ _ _ _ (Nat.pow_pos (by decide)) (Nat.le_of_lt y.isLt)]

theorem neg_ofBV {w : Nat} (hw : w ≤ 64) (x : BitVec w) :
    neg (ofBV x) = ofBV (-x) := by
  simp only [neg, ofBV, red_mod hw, BitVec.toNat_neg]
  rw [Nat.mod_eq_of_lt (bv_lt_64 hw x)]
  have := sub_mod_lemma (2 ^ w) (2 ^ (64 - w)) 0 x.toNat (Nat.pow_pos (by decide)) (Nat.le_of_lt x.isLt)
  rw [← pow64_split hw] at this
  simpa using this

theorem isZero_ofBV {w : Nat} (x : BitVec w) : isZero (ofBV x) = (x == 0) := by
  simp only [isZero]
  rw [Bool.eq_iff_iff]
  simp [← BitVec.toNat_inj]

theorem udiv_ofBV {w : Nat} (x y : BitVec w) (hy : y ≠ 0) :
    udiv (ofBV x) (ofBV y) = some (ofBV (x / y)) := by
  have hz : isZero (ofBV y) = false := by rw [isZero_ofBV]; simpa using hy
  simp only [ofBV] at hz
  simp only [udiv, hz, ofBV, if_true, BitVec.toNat_udiv]
  rw [red_small (Nat.lt_of_le_of_lt (Nat.div_le_self _ _) x.isLt)]
  rfl

theorem urem_ofBV {w : Nat} (x y : BitVec w) (hy : y ≠ 0) :
    urem (ofBV x) (ofBV y) = some (ofBV (x % y)) := by
  have hz : isZero (ofBV y) = false := by rw [isZero_ofBV]; simpa using hy
  simp only [ofBV] at hz
  simp only [urem, hz, ofBV, if_true, BitVec.toNat_umod]
  rw [red_small (Nat.lt_of_le_of_lt (Nat.mod_le _ _) x.isLt)]
  rfl

theorem udiv_zero {w : Nat} (x : BitVec w) : udiv (ofBV x) (ofBV (0 : BitVec w)) = none := by
  simp [udiv, isZero]
theorem urem_zero {w : Nat} (x : BitVec w) : urem (ofBV x) (ofBV (0 : BitVec w)) = none := by
  simp [urem, isZero]

theorem and_ofBV {w : Nat} (x y : BitVec w) : WrapInt.and (ofBV x) (ofBV y) = some (ofBV (x &&& y)) := by
  simp [WrapInt.and, ofBV]
theorem or_ofBV {w : Nat} (x y : BitVec w) : WrapInt.or (ofBV x) (ofBV y) = some (ofBV (x ||| y)) := by
  simp [WrapInt.or, ofBV]
theorem xor_ofBV {w : Nat} (x y : BitVec w) : WrapInt.xor (ofBV x) (ofBV y) = some (ofBV (x ^^^ y)) := by
  simp [WrapInt.xor, ofBV]

/-! ### sign, conversions to big integers -/

theorem one_shl_mod {k : Nat} (hk : k < 64) : (1 <<< k) % 2 ^ 64 = 2 ^ k := by
  rw [Nat.one_shiftLeft]
  exact Nat.mod_eq_of_lt (Nat.pow_lt_pow_right (by decide) hk)

theorem and_two_pow' (n k : Nat) : n &&& 2 ^ k = if n.testBit k then 2 ^ k else 0 := by
  apply Nat.eq_of_testBit_eq; intro i
  rw [Nat.testBit_and, Nat.testBit_two_pow]
  by_cases h : k = i
  · subst h; cases hb : n.testBit k <;> simp
  · simp [h]; split <;> simp [h]

theorem msb_ofBV {w : Nat} (h1 : 1 ≤ w) (hw : w ≤ 64) (x : BitVec w) : msb (ofBV x) = x.msb := by
  have hk : w - 1 < 64 := by omega
  simp only [msb, one_shl_mod hk, and_two_pow', BitVec.testBit_toNat, BitVec.msb_eq_getLsbD_last]
  by_cases hb : x.getLsbD (w - 1) = true
  · simp [hb]
  · simp [hb]

theorem ones_mask {k : Nat} (hk : k < 64) : ((1 <<< k) % 2 ^ 64 + 2 ^ 64 - 1) % 2 ^ 64 = 2 ^ k - 1 := by
  rw [one_shl_mod hk]
  have h1 : 0 < 2 ^ k := Nat.pow_pos (by decide)
  have h2 : 2 ^ k < 2 ^ 64 := Nat.pow_lt_pow_right (by decide) hk
  have : 2 ^ k + 2 ^ 64 - 1 = (2 ^ k - 1) + 2 ^ 64 := by omega
  rw [this, Nat.add_mod_right]
  exact Nat.mod_eq_of_lt (by omega)

theorem unsignedMax?_eq {w : Nat} (h1 : 1 ≤ w) (hw : w ≤ 64) :
    unsignedMax? w = some (ofBV (BitVec.allOnes w)) := by
  have hlt : 2 ^ w - 1 < 2 ^ 64 := by
    have := pow_le_64 hw; have : 0 < 2 ^ w := Nat.pow_pos (by decide); omega
  have key : mk? (2 ^ w - 1) w = some (ofBV (BitVec.allOnes w)) := by
    rw [mk?_eq h1 hw _ hlt]
    congr 2
    apply BitVec.eq_of_toNat_eq
    simp [BitVec.toNat_allOnes]
  unfold unsignedMax?
  split
  · next h => subst h; exact key
  split
  · next h => subst h; exact key
  split
  · next h => subst h; exact key
  split
  · next h => subst h; exact key
  have hlt : w < 64 := by omega
  rw [if_pos hlt, ones_mask hlt]; exact key

theorem toUnsigned_ofBV {w} (x : BitVec w) : toUnsigned (ofBV x) = (x.toNat : Int) := rfl

theorem toSigned_ofBV {w : Nat} (h1 : 1 ≤ w) (hw : w ≤ 64) (x : BitVec w) :
    toSigned (ofBV x) = some x.toInt := by
  unfold toSigned
  rw [msb_ofBV h1 hw, ofBV_width, unsignedMax?_eq h1 hw]
  simp only [xor_ofBV, toUnsigned_ofBV, BitVec.toInt_eq_msb_cond]
  split
  · congr 1
    have : x ^^^ BitVec.allOnes w = ~~~x := by simp
    rw [this, BitVec.toNat_not]
    have := x.isLt
    omega
  · rfl

/-! ### construction from big integers, signed division -/

theorem fitsInt64_iff (z : Int) : ZNum.fitsInt64 z = true ↔ (-(2:Int)^63 ≤ z ∧ z ≤ 2^63 - 1) := by
  unfold ZNum.fitsInt64 ZNum.int64Min ZNum.int64Max
  simp

theorem toInt64?_of_fits {z : Int} (h : ZNum.fitsInt64 z = true) : ZNum.toInt64? z = some z := by
  unfold ZNum.toInt64?
  rw [h]
  rw [fitsInt64_iff] at h
  split
  · rfl
  · simp only [if_true, ZNum.int64Max]
    congr 1
    split <;> split <;> split <;> omega

theorem ofZ?_eq {w : Nat} (h1 : 1 ≤ w) (hw : w ≤ 64) (z : Int) (hz : ZNum.fitsInt64 z = true) :
    ofZ? z w = some (ofBV (BitVec.ofInt w z)) := by
  unfold ofZ?
  rw [widthOk_of h1 hw, hz, toInt64?_of_fits hz]
  simp only [if_true, ofBV, BitVec.toNat_ofInt]
  congr 2
  have h64 : (0:Int) ≤ z % 2 ^ 64 := Int.emod_nonneg _ (by decide)
  split
  · next h => subst h; rfl
  · have hpos : (0:Int) ≤ ((2 ^ w : Nat) : Int) := Int.natCast_nonneg _
    have e : (2 ^ w : Nat) = (((2 ^ w : Nat) : Int)).toNat := (Int.toNat_natCast _).symm
    rw [e, ← Int.toNat_emod h64 hpos]
    congr 1
    apply Int.emod_emod_of_dvd
    have := Int.natCast_dvd_natCast.mpr (pow_dvd_64 hw)
    simpa using this

theorem ofInt_bmod (w : Nat) (z : Int) : BitVec.ofInt w (z.bmod (2 ^ w)) = BitVec.ofInt w z := by
  apply BitVec.eq_of_toNat_eq
  rw [BitVec.toNat_ofInt, BitVec.toNat_ofInt, Int.bmod_emod]

theorem ofInt_tdiv_eq_sdiv {w : Nat} (x y : BitVec w) :
    BitVec.ofInt w (x.toInt.tdiv y.toInt) = x.sdiv y := by
  rw [← ofInt_bmod, ← BitVec.toInt_sdiv, BitVec.ofInt_toInt]

theorem ofInt_tmod_eq_srem {w : Nat} (x y : BitVec w) :
    BitVec.ofInt w (x.toInt.tmod y.toInt) = x.srem y := by
  rw [← BitVec.toInt_srem, BitVec.ofInt_toInt]

theorem int_pow_le {a b : Nat} (h : a ≤ b) : (2:Int) ^ a ≤ 2 ^ b := by
  have := Int.ofNat_le.mpr (Nat.pow_le_pow_right (by decide : 0 < 2) h)
  simpa using this

theorem toInt_bounds64 {w : Nat} (h1 : 1 ≤ w) (hw : w ≤ 64) (x : BitVec w) :
    -(2:Int)^63 ≤ x.toInt ∧ x.toInt ≤ 2^63 - 1 := by
  have a := BitVec.le_toInt x
  have b := @BitVec.toInt_lt w x
  have c : (2:Int) ^ (w - 1) ≤ 2 ^ 63 := int_pow_le (by omega)
  omega

theorem tdiv_fits {w : Nat} (h1 : 1 ≤ w) (hw : w ≤ 64) (x y : BitVec w)
    (hno : ¬ (w = 64 ∧ x = BitVec.intMin w ∧ y = BitVec.allOnes w)) :
    ZNum.fitsInt64 (x.toInt.tdiv y.toInt) = true := by
  by_cases h64 : w = 64
  · have hne : x ≠ BitVec.intMin w ∨ y ≠ -1#w := by
      rw [BitVec.neg_one_eq_allOnes]
      by_cases hx : x = BitVec.intMin w
      · right; intro hy; exact hno ⟨h64, hx, hy⟩
      · left; exact hx
    rw [← BitVec.toInt_sdiv_of_ne_or_ne x y hne, fitsInt64_iff]
    exact toInt_bounds64 h1 hw _
  · rw [fitsInt64_iff]
    have a := BitVec.le_toInt x
    have b := @BitVec.toInt_lt w x
    have c : (2:Int) ^ (w - 1) ≤ 2 ^ 62 := int_pow_le (by omega)
    have hq : (x.toInt.tdiv y.toInt).natAbs ≤ x.toInt.natAbs := by
      rw [Int.natAbs_tdiv]; exact Nat.div_le_self _ _
    omega

theorem tmod_fits {w : Nat} (h1 : 1 ≤ w) (hw : w ≤ 64) (x y : BitVec w) :
    ZNum.fitsInt64 (x.toInt.tmod y.toInt) = true := by
  rw [← BitVec.toInt_srem, fitsInt64_iff]
  exact toInt_bounds64 h1 hw _

theorem toInt_ne_zero {w : Nat} {y : BitVec w} (hy : y ≠ 0) : y.toInt ≠ 0 := by
  intro h; apply hy; apply BitVec.eq_of_toInt_eq; rw [h]; exact BitVec.toInt_zero.symm

theorem toInt_eq_neg_one_iff {w : Nat} (h1 : 1 ≤ w) (y : BitVec w) :
    y.toInt = -1 ↔ y = BitVec.allOnes w := by
  have hpos : 0 < w := by omega
  constructor
  · intro h; apply BitVec.eq_of_toInt_eq; rw [h, BitVec.toInt_allOnes, if_pos hpos]
  · intro h; rw [h, BitVec.toInt_allOnes, if_pos hpos]

theorem sdiv_ofBV {w : Nat} (h1 : 1 ≤ w) (hw : w ≤ 64) (x y : BitVec w) (hy : y ≠ 0) :
    sdiv (ofBV x) (ofBV y) = some (ofBV (x.sdiv y)) := by
  have hz : isZero (ofBV y) = false := by rw [isZero_ofBV]; simpa using hy
  unfold sdiv
  rw [hz, toSigned_ofBV h1 hw, toSigned_ofBV h1 hw]
  simp only [if_true, Bool.false_eq_true, if_false]
  by_cases hm : y.toInt = -1
  · simp only [hm, if_true]
    rw [neg_ofBV hw, ← ofInt_tdiv_eq_sdiv, hm, Int.tdiv_neg, Int.tdiv_one, BitVec.ofInt_neg,
      BitVec.ofInt_toInt]
  · have hno : ¬ (w = 64 ∧ x = BitVec.intMin w ∧ y = BitVec.allOnes w) :=
      fun h => hm ((toInt_eq_neg_one_iff h1 y).mpr h.2.2)
    simp only [hm, if_false, ZNum.div?, toInt_ne_zero hy]
    rw [ofZ?_eq h1 hw _ (tdiv_fits h1 hw x y hno), ofInt_tdiv_eq_sdiv]

theorem srem_ofBV {w : Nat} (h1 : 1 ≤ w) (hw : w ≤ 64) (x y : BitVec w) (hy : y ≠ 0) :
    srem (ofBV x) (ofBV y) = some (ofBV (x.srem y)) := by
  have hz : isZero (ofBV y) = false := by rw [isZero_ofBV]; simpa using hy
  unfold srem
  rw [hz, toSigned_ofBV h1 hw, toSigned_ofBV h1 hw]
  simp only [if_true, ZNum.rem?, toInt_ne_zero hy, if_false, Bool.false_eq_true]
  rw [ofZ?_eq h1 hw _ (tmod_fits h1 hw x y), ofInt_tmod_eq_srem]

theorem sdiv_zero {w : Nat} (x : BitVec w) : sdiv (ofBV x) (ofBV (0 : BitVec w)) = none := by
  simp [sdiv, isZero]
theorem srem_zero {w : Nat} (x : BitVec w) : srem (ofBV x) (ofBV (0 : BitVec w)) = none := by
  simp [srem, isZero]

/-! ### comparisons -/
theorem eq?_ofBV {w} (x y : BitVec w) : eq? (ofBV x) (ofBV y) = some (x == y) := by
  simp only [eq?, if_true]
  congr 1
  rw [Bool.eq_iff_iff]; simp [← BitVec.toNat_inj]
theorem ne?_ofBV {w} (x y : BitVec w) : ne? (ofBV x) (ofBV y) = some (x != y) := by
  simp only [ne?, if_true]
  congr 1
  rw [Bool.eq_iff_iff]; simp [← BitVec.toNat_inj]
theorem lt?_ofBV {w} (x y : BitVec w) : lt? (ofBV x) (ofBV y) = some (x.ult y) := by
  simp only [lt?, if_true, BitVec.ult]
theorem le?_ofBV {w} (x y : BitVec w) : le? (ofBV x) (ofBV y) = some (x.ule y) := by
  simp only [le?, if_true, BitVec.ule]
theorem gt?_ofBV {w} (x y : BitVec w) : gt? (ofBV x) (ofBV y) = some (y.ult x) := by
  simp only [gt?, if_true, BitVec.ult]
theorem ge?_ofBV {w} (x y : BitVec w) : ge? (ofBV x) (ofBV y) = some (y.ule x) := by
  simp only [ge?, if_true, BitVec.ule]

/-! ### shifts -/
theorem bv_shl_ge {w : Nat} (x : BitVec w) {n : Nat} (h : w ≤ n) : x <<< n = 0 := by
  apply BitVec.eq_of_getLsbD_eq
  intro i hi
  have : i < n := by omega
  simp [BitVec.getLsbD_shiftLeft, this]

theorem bv_lshr_ge {w : Nat} (x : BitVec w) {n : Nat} (h : w ≤ n) : x >>> n = 0 := by
  apply BitVec.eq_of_toNat_eq
  rw [BitVec.toNat_ushiftRight, Nat.shiftRight_eq_div_pow]
  have : x.toNat < 2 ^ n := Nat.lt_of_lt_of_le x.isLt (Nat.pow_le_pow_right (by decide) h)
  simp [Nat.div_eq_of_lt this]

theorem bv_ashr_ge {w : Nat} (x : BitVec w) {n : Nat} (h : w ≤ n) :
    x.sshiftRight n = if x.msb then BitVec.allOnes w else 0 := by
  apply BitVec.eq_of_getLsbD_eq
  intro i hi
  rw [BitVec.getLsbD_sshiftRight]
  have a : ¬ (w ≤ i) := by omega
  have b : ¬ (n + i < w) := by omega
  cases hm : x.msb <;> simp [a, b, hi]

theorem shl_ofBV {w : Nat} (hw : w ≤ 64) (x y : BitVec w) :
    shl (ofBV x) (ofBV y) = some (ofBV (x <<< y)) := by
  rw [BitVec.shiftLeft_eq']
  by_cases h : y.toNat ≥ w
  · simp only [shl, if_true, h, bv_shl_ge x h]
    rfl
  · simp only [shl, h, if_true, if_false, red_mod hw]
    rfl

theorem lshr_ofBV {w : Nat} (x y : BitVec w) :
    lshr (ofBV x) (ofBV y) = some (ofBV (x >>> y)) := by
  rw [BitVec.ushiftRight_eq']
  by_cases h : y.toNat ≥ w
  · simp only [lshr, if_true, h, bv_lshr_ge x h]
    rfl
  · simp only [lshr, h, if_true, if_false]
    rfl

/-- the value built on the msb branch of `ashr` -/
def ashrRaw (w n s : Nat) : Nat := ((2 ^ w - 1) <<< (w - s)) % 2 ^ 64 ||| (n >>> s)

theorem ashrRaw_low {w : Nat} (hw : w ≤ 64) (x : BitVec w) (s : Nat) (hs : s ≤ w) (hm : x.msb = true)
    (hnu : w - s < 64) :
    ashrRaw w x.toNat s % 2 ^ w = (x.sshiftRight s).toNat := by
  apply Nat.eq_of_testBit_eq; intro i
  simp only [ashrRaw, Nat.testBit_mod_two_pow, Nat.testBit_or, Nat.testBit_shiftLeft,
    Nat.testBit_two_pow_sub_one, Nat.testBit_shiftRight, BitVec.testBit_toNat,
    BitVec.getLsbD_sshiftRight, hm]
  by_cases h1 : i < w
  · by_cases h2 : s + i < w
    · have a : ¬ (i ≥ w - s) := by omega
      have b : ¬ (w ≤ i) := by omega
      simp [h1, h2, a, b]
    · have a : i ≥ w - s := by omega
      have b : ¬ (w ≤ i) := by omega
      have c : i < 64 := by omega
      have d : i - (w - s) < w := by omega
      simp [h1, h2, a, b, c, d]
  · have b : w ≤ i := by omega
    simp [h1, b]

/-- `ashr` for every amount: exact -/
theorem ashr_ofBV {w : Nat} (h1 : 1 ≤ w) (hw : w ≤ 64) (x y : BitVec w) :
    ashr (ofBV x) (ofBV y) = some (ofBV (x.sshiftRight' y)) := by
  rw [BitVec.sshiftRight_eq']
  by_cases h0 : y.toNat = 0
  · unfold ashr
    simp only [if_true, h0, BEq.rfl, BitVec.sshiftRight_zero]
  · have hne : (y.toNat == 0) = false := by simpa using h0
    unfold ashr
    rw [msb_ofBV h1 hw]
    simp only [if_true, hne, Bool.false_eq_true, if_false]
    by_cases hge : y.toNat ≥ w
    · simp only [hge, if_true, bv_ashr_ge x hge, unsignedMax?_eq h1 hw]
      cases hm : x.msb <;> simp
    · simp only [hge, if_false]
      have hs : y.toNat ≤ w := by omega
      cases hm : x.msb
      · simp only [Bool.not_false, if_true]
        congr 2
        simp [BitVec.toNat_sshiftRight, hm]
      · simp only [Bool.not_true, Bool.false_eq_true, if_false]
        congr 2
        have h3 : w - y.toNat < 64 := by omega
        rw [← ashrRaw_low hw x y.toNat hs hm h3]
        by_cases h64 : w < 64
        · rw [if_pos h64, ones_mask h64, Nat.and_two_pow_sub_one_eq_mod]; rfl
        · have : w = 64 := by omega
          subst this
          rw [if_neg h64, Nat.and_two_pow_sub_one_eq_mod]; rfl

/-! ### extensions, truncation -/
theorem zext_ofBV {w : Nat} (h1 : 1 ≤ w) (x : BitVec w) (k : Nat) (hk : w + k ≤ 64) :
    zext (ofBV x) k = some (ofBV (x.setWidth (w + k))) := by
  have hn : ¬ (w + k > 64) := by omega
  simp only [zext, hn, if_false]
  rw [mk?_eq (by omega) hk _ (bv_lt_64 (by omega) x)]
  congr 2
  apply BitVec.eq_of_toNat_eq
  simp

theorem zext_err {w : Nat} (x : BitVec w) (k : Nat) (hk : 64 < w + k) : zext (ofBV x) k = none := by
  simp [zext, hk]

theorem sext_err {w : Nat} (x : BitVec w) (k : Nat) (hk : 64 < w + k) : sext (ofBV x) k = none := by
  simp [sext, hk]

theorem sext_ofBV {w : Nat} (h1 : 1 ≤ w) (x : BitVec w) (k : Nat) (hk : w + k ≤ 64) :
    sext (ofBV x) k = some (ofBV (x.signExtend (w + k))) := by
  have hw : w ≤ 64 := by omega
  have hn : ¬ (w + k > 64) := by omega
  unfold sext
  simp only [hn, if_false, msb_ofBV h1 hw]
  by_cases hk0 : k = 0
  · subst hk0
    simp only [if_true, Nat.add_zero, BitVec.signExtend_eq]
  simp only [hk0, if_false]
  cases hm : x.msb
  · simp only [Bool.false_eq_true, if_false]
    rw [mk?_eq (by omega) hk _ (bv_lt_64 hw x)]
    congr 2
    apply BitVec.eq_of_toNat_eq
    rw [BitVec.toNat_signExtend]
    simp [hm]
  · have hw' : w < 64 := by omega
    simp only [if_true]
    -- all ones of the new width
    have hall : (if w + k < 64 then ((1 <<< (w + k)) % 2 ^ 64 + 2 ^ 64 - 1) % 2 ^ 64 else 2 ^ 64 - 1)
        = 2 ^ (w + k) - 1 := by
      split
      · next h => exact ones_mask h
      · have : w + k = 64 := by omega
        rw [this]
    rw [hall]
    have hlt : (x.toNat ||| ((2 ^ (w + k) - 1) <<< w) % 2 ^ 64) < 2 ^ 64 :=
      Nat.or_lt_two_pow (bv_lt_64 hw x) (Nat.mod_lt _ (by decide))
    rw [mk?_eq (by omega) hk _ hlt]
    congr 2
    apply BitVec.eq_of_toNat_eq
    rw [BitVec.toNat_ofNat]
    apply Nat.eq_of_testBit_eq; intro i
    rw [BitVec.testBit_toNat, BitVec.getLsbD_signExtend]
    simp only [Nat.testBit_mod_two_pow, Nat.testBit_or, Nat.testBit_shiftLeft,
      Nat.testBit_two_pow_sub_one, BitVec.testBit_toNat, hm]
    by_cases a : i < w + k
    · by_cases b : i < w
      · have c : ¬ (i ≥ w) := by omega
        simp [a, b, c]
      · have c : i ≥ w := by omega
        have d : i < 64 := by omega
        have e : i - w < w + k := by omega
        simp [a, b, c, d, e]
    · simp [a]

theorem keepLower_ge {w : Nat} (x : BitVec w) (k : Nat) (hk : w ≤ k) :
    keepLower (ofBV x) k = some (ofBV x) := by
  simp [keepLower, hk]

theorem keepLower_zero {w : Nat} (h1 : 1 ≤ w) (x : BitVec w) : keepLower (ofBV x) 0 = none := by
  have : ¬ (0 ≥ w) := by omega
  simp [keepLower, this, mk?, widthOk]

theorem keepLower_ofBV {w : Nat} (hw : w ≤ 64) (x : BitVec w) (k : Nat) (h1 : 1 ≤ k) (hk : k < w) :
    keepLower (ofBV x) k = some (ofBV (x.setWidth k)) := by
  have a : ¬ (k ≥ w) := by omega
  have hk64 : k < 64 := by omega
  simp only [keepLower, a, if_false, ones_mask hk64, Nat.and_two_pow_sub_one_eq_mod]
  have hlt : x.toNat % 2 ^ k < 2 ^ 64 :=
    Nat.lt_of_le_of_lt (Nat.mod_le _ _) (bv_lt_64 hw x)
  rw [mk?_eq h1 (by omega) _ hlt]
  congr 2
  apply BitVec.eq_of_toNat_eq
  rw [BitVec.toNat_ofNat, BitVec.toNat_setWidth, Nat.mod_mod]

/-! ### static values -/
theorem unsignedMin?_eq {w : Nat} (h1 : 1 ≤ w) (hw : w ≤ 64) :
    unsignedMin? w = some (ofBV (0 : BitVec w)) := by
  rw [unsignedMin?, mk?_eq h1 hw _ (by decide)]; rfl

theorem signedMin?_eq {w : Nat} (h1 : 1 ≤ w) (hw : w ≤ 64) :
    signedMin? w = some (ofBV (BitVec.intMin w)) := by
  have hk : w - 1 < 64 := by omega
  rw [signedMin?, one_shl_mod hk, mk?_eq h1 hw _ (Nat.pow_lt_pow_right (by decide) hk)]
  congr 2
  apply BitVec.eq_of_toNat_eq
  rw [BitVec.toNat_ofNat, BitVec.toNat_intMin]

theorem signedMax?_eq {w : Nat} (h1 : 1 ≤ w) (hw : w ≤ 64) :
    signedMax? w = some (ofBV (BitVec.intMax w)) := by
  have hk : w - 1 < 64 := by omega
  have hlt : 2 ^ (w - 1) - 1 < 2 ^ 64 := by
    have := Nat.pow_lt_pow_right (by decide : 1 < 2) hk; omega
  rw [signedMax?, ones_mask hk, mk?_eq h1 hw _ hlt]
  congr 2
  apply BitVec.eq_of_toNat_eq
  rw [BitVec.toNat_ofNat, BitVec.toNat_intMax]
  apply Nat.mod_eq_of_lt
  have : 2 ^ (w - 1) ≤ 2 ^ w := Nat.pow_le_pow_right (by decide) (by omega)
  have : 0 < 2 ^ (w - 1) := Nat.pow_pos (by decide)
  omega

/-! ### compound assignment, increment, decrement -/
theorem red_lt_form {w : Nat} (hw : w ≤ 64) (r : Nat) :
    (if w < 64 then r % 2 ^ w else r) = red w r := by
  unfold red
  by_cases h : w = 64
  · subst h; simp
  · have : w < 64 := by omega
    simp [h, this]

theorem addAssign_eq_add {w : Nat} (hw : w ≤ 64) (x y : BitVec w) :
    addAssign (ofBV x) (ofBV y) = some (ofBV (x + y)) := by
  rw [← add_ofBV hw]
  simp only [addAssign, add, if_true]
  rw [red_lt_form hw]

theorem subAssign_eq_sub {w : Nat} (hw : w ≤ 64) (x y : BitVec w) :
    subAssign (ofBV x) (ofBV y) = some (ofBV (x - y)) := by
  rw [← sub_ofBV hw]
  simp only [subAssign, sub, if_true]
  rw [red_lt_form hw]

theorem mulAssign_eq_mul {w : Nat} (hw : w ≤ 64) (x y : BitVec w) :
    mulAssign (ofBV x) (ofBV y) = some (ofBV (x * y)) := by
  rw [← mul_ofBV hw]
  simp only [mulAssign, mul, if_true]
  rw [red_lt_form hw]

theorem inc_ofBV {w : Nat} (hw : w ≤ 64) (x : BitVec w) : inc (ofBV x) = ofBV (x + 1) := by
  simp only [inc]
  rw [red_lt_form hw, red_mod hw]
  show (⟨w, _⟩ : WrapInt) = ⟨w, (x + 1).toNat⟩
  congr 1
  rw [BitVec.toNat_add]
  simp

theorem dec_ofBV {w : Nat} (h1 : 1 ≤ w) (hw : w ≤ 64) (x : BitVec w) : dec (ofBV x) = ofBV (x - 1) := by
  simp only [dec]
  rw [red_lt_form hw, red_mod hw]
  show (⟨w, _⟩ : WrapInt) = ⟨w, (x - 1).toNat⟩
  congr 1
  rw [BitVec.toNat_sub]
  have h1' : (1 : BitVec w).toNat = 1 := by
    simp; omega
  rw [h1']
  have := sub_mod_lemma (2 ^ w) (2 ^ (64 - w)) x.toNat 1 (Nat.pow_pos (by decide))
    (Nat.pow_pos (by decide))
  rw [← pow64_split hw] at this
  exact this


/-! ### `Reduced` is preserved (direct from the definitions, operands need not come from `ofBV`) -/

theorem red_mod_lt {w : Nat} (hw : w ≤ 64) (m : Nat) : red w (m % 2 ^ 64) < 2 ^ w := by
  rw [red_mod hw]; exact Nat.mod_lt _ (Nat.pow_pos (by decide))

theorem mk?_reduced {n w : Nat} {r : WrapInt} (hn : n < 2 ^ 64) (h : mk? n w = some r) : r.Reduced := by
  unfold mk? at h
  split at h
  · next hok =>
    injection h with h; subst h
    show (if w < 64 then n % 2 ^ w else n) < 2 ^ w
    split
    · exact Nat.mod_lt _ (Nat.pow_pos (by decide))
    · have : w = 64 := by
        simp [widthOk] at hok; omega
      subst this; exact hn
  · cases h

theorem ofZ?_reduced {z : Int} {w : Nat} {r : WrapInt} (h : ofZ? z w = some r) : r.Reduced := by
  unfold ofZ? at h
  split at h
  · split at h
    · split at h
      · cases h
      · next x hx =>
        injection h with h; subst h
        show (if w = 64 then _ else _) < 2 ^ w
        split
        · next h64 =>
          subst h64
          have h1 : (x % (2 ^ 64 : Int)) < 2 ^ 64 := Int.emod_lt_of_pos _ (by decide)
          have h0 : 0 ≤ (x % (2 ^ 64 : Int)) := Int.emod_nonneg _ (by decide)
          omega
        · exact Nat.mod_lt _ (Nat.pow_pos (by decide))
    · cases h
  · cases h

theorem add_reduced {a b r : WrapInt} (hw : a.width ≤ 64) (h : add a b = some r) : r.Reduced := by
  unfold add at h; split at h
  · injection h with h; subst h; exact red_mod_lt hw _
  · cases h
theorem sub_reduced {a b r : WrapInt} (hw : a.width ≤ 64) (h : sub a b = some r) : r.Reduced := by
  unfold sub at h; split at h
  · injection h with h; subst h; exact red_mod_lt hw _
  · cases h
theorem mul_reduced {a b r : WrapInt} (hw : a.width ≤ 64) (h : mul a b = some r) : r.Reduced := by
  unfold mul at h; split at h
  · injection h with h; subst h; exact red_mod_lt hw _
  · cases h
theorem neg_reduced {a : WrapInt} (hw : a.width ≤ 64) : (neg a).Reduced := red_mod_lt hw _
theorem shl_reduced {a b r : WrapInt} (hw : a.width ≤ 64) (h : shl a b = some r) : r.Reduced := by
  unfold shl at h; split at h
  · split at h
    · injection h with h; subst h; exact Nat.pow_pos (by decide)
    · injection h with h; subst h; exact red_mod_lt hw _
  · cases h

theorem red_le_reduced {w n m : Nat} (hn : n < 2 ^ w) (hm : m ≤ n) : red w m < 2 ^ w := by
  rw [red_small (Nat.lt_of_le_of_lt hm hn)]; exact Nat.lt_of_le_of_lt hm hn

theorem udiv_reduced {a b r : WrapInt} (ha : a.Reduced) (h : udiv a b = some r) : r.Reduced := by
  unfold udiv at h; split at h
  · split at h
    · cases h
    · injection h with h; subst h; exact red_le_reduced ha (Nat.div_le_self _ _)
  · cases h
theorem urem_reduced {a b r : WrapInt} (ha : a.Reduced) (h : urem a b = some r) : r.Reduced := by
  unfold urem at h; split at h
  · split at h
    · cases h
    · injection h with h; subst h; exact red_le_reduced ha (Nat.mod_le _ _)
  · cases h
theorem lshr_reduced {a b r : WrapInt} (ha : a.Reduced) (h : lshr a b = some r) : r.Reduced := by
  unfold lshr at h; split at h
  · split at h
    · injection h with h; subst h; exact Nat.pow_pos (by decide)
    · injection h with h; subst h
      show a.n >>> b.n < 2 ^ a.width
      rw [Nat.shiftRight_eq_div_pow]
      exact Nat.lt_of_le_of_lt (Nat.div_le_self _ _) ha
  · cases h
theorem and_reduced {a b r : WrapInt} (ha : a.Reduced) (h : WrapInt.and a b = some r) : r.Reduced := by
  unfold WrapInt.and at h; split at h
  · injection h with h; subst h; exact Nat.and_lt_two_pow _ ha |> fun h => by rw [Nat.and_comm] at h; exact h
  · cases h
theorem or_reduced {a b r : WrapInt} (ha : a.Reduced) (hb : b.Reduced) (h : WrapInt.or a b = some r) :
    r.Reduced := by
  unfold WrapInt.or at h; split at h
  · next hw => injection h with h; subst h; exact Nat.or_lt_two_pow ha (hw ▸ hb)
  · cases h
theorem xor_reduced {a b r : WrapInt} (ha : a.Reduced) (hb : b.Reduced) (h : WrapInt.xor a b = some r) :
    r.Reduced := by
  unfold WrapInt.xor at h; split at h
  · next hw => injection h with h; subst h; exact Nat.xor_lt_two_pow ha (hw ▸ hb)
  · cases h

theorem sdiv_reduced {a b r : WrapInt} (hw : a.width ≤ 64) (h : sdiv a b = some r) : r.Reduced := by
  unfold sdiv at h
  split at h
  · split at h
    · cases h
    · split at h
      · split at h
        · injection h with h; subst h; exact neg_reduced hw
        · split at h
          · exact ofZ?_reduced h
          · cases h
      · cases h
  · cases h
theorem srem_reduced {a b r : WrapInt} (h : srem a b = some r) : r.Reduced := by
  unfold srem at h
  split at h
  · split at h
    · cases h
    · split at h
      · split at h
        · exact ofZ?_reduced h
        · cases h
      · cases h
  · cases h

theorem zext_reduced {a r : WrapInt} {k : Nat} (ha : a.n < 2 ^ 64) (h : zext a k = some r) : r.Reduced := by
  unfold zext at h
  simp only at h
  split at h
  · cases h
  · exact mk?_reduced ha h
theorem sext_reduced {a r : WrapInt} {k : Nat} (ha : a.Reduced) (hw : a.width ≤ 64)
    (h : sext a k = some r) : r.Reduced := by
  have h64 : a.n < 2 ^ 64 := Nat.lt_of_lt_of_le ha (pow_le_64 hw)
  unfold sext at h
  simp only at h
  split at h
  · cases h
  · split at h
    · injection h with h; subst h; exact ha
    · split at h
      · exact mk?_reduced (Nat.or_lt_two_pow h64 (Nat.mod_lt _ (by decide))) h
      · exact mk?_reduced h64 h
theorem keepLower_reduced {a r : WrapInt} {k : Nat} (ha : a.Reduced) (hw : a.width ≤ 64)
    (h : keepLower a k = some r) : r.Reduced := by
  unfold keepLower at h
  split at h
  · injection h with h; subst h; exact ha
  · refine mk?_reduced ?_ h
    exact Nat.lt_of_le_of_lt Nat.and_le_left (Nat.lt_of_lt_of_le ha (pow_le_64 hw))
theorem ashr_reduced {a b r : WrapInt} (ha : a.Reduced) (h1 : 1 ≤ a.width) (hw : a.width ≤ 64)
    (h : ashr a b = some r) : r.Reduced := by
  unfold ashr at h
  split at h
  · split at h
    · injection h with h; subst h; exact ha
    · split at h
      · split at h
        · rw [unsignedMax?_eq h1 hw] at h
          injection h with h; subst h; exact ofBV_reduced _
        · injection h with h; subst h; exact Nat.pow_pos (by decide)
      · split at h
        · injection h with h; subst h
          show a.n >>> b.n < 2 ^ a.width
          rw [Nat.shiftRight_eq_div_pow]
          exact Nat.lt_of_le_of_lt (Nat.div_le_self _ _) ha
        · injection h with h; subst h
          show _ &&& _ < 2 ^ a.width
          refine Nat.lt_of_le_of_lt Nat.and_le_right ?_
          split
          · next h64 =>
            rw [ones_mask h64]
            have : 0 < 2 ^ a.width := Nat.pow_pos (by decide)
            omega
          · next h64 =>
            have : 2 ^ 64 ≤ 2 ^ a.width := Nat.pow_le_pow_right (by decide) (by omega)
            omega
  · cases h

end WrapInt
end Crab
