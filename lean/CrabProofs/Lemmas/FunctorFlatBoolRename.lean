import CrabProofs.Lemmas.FunctorFlatBoolOps4

/-!
Soundness of `rename` of ONE variable (`rename({x}, {y})`, `x ≠ y`, both of the same type, `y`
not in the abstract state) for the model of `flat_boolean_numerical_domain`.
-/
set_option linter.unusedSectionVars false
set_option linter.unusedSimpArgs false

namespace Crab
namespace Dom
namespace Fct

variable {V : Type} [DecidableEq V] {K : CSig V}

namespace AL
variable {α : Type}

theorem get_rename1 (m : List (V × α)) (k k' j : V) (h : k ≠ k') :
    get (rename1 m k k') j =
      match get m k with
      | some v => if j = k then none else if j = k' then some v else get m j
      | none => get m j := by
  unfold rename1
  simp only [h, if_false]
  cases hg : get m k with
  | none => rfl
  | some v =>
    simp only [get_del, get_put]

theorem rename_single (m : List (V × α)) (k k' : V) : rename m [k] [k'] = rename1 m k k' := by
  simp [rename]
end AL

namespace FBN
variable {N : BNDom V K}

/-! the flat Boolean environment -/

theorem FEnv.rename1_sound_bool {e : FEnv V} {s : CSt V} (h : FEnv.γ e s) (x y : V) (hxy : x ≠ y)
    (hy : e.get y = .top) (b : Bool) : FEnv.γ (e.rename [x] [y]) ((s.setB y (s.bool x)).setB x b) := by
  cases e with
  | bot => exact h.elim
  | env m =>
    have hyn : AL.get m y = none := by
      simp only [FEnv.get] at hy
      cases hg : AL.get m y with
      | none => rfl
      | some v => rw [hg] at hy; cases v <;> simp [BVal.ofBool] at hy
    simp only [FEnv.rename, AL.rename_single]
    intro j v hj
    rw [AL.get_rename1 m x y j hxy] at hj
    have hyx : ¬ y = x := fun e => hxy e.symm
    cases hgx : AL.get m x with
    | some vx =>
      simp only [hgx] at hj
      by_cases hjx : j = x
      · simp [hjx] at hj
      · simp only [hjx, if_false] at hj
        by_cases hjy : j = y
        · simp only [hjy, if_true, Option.some.injEq] at hj
          subst hj
          simp only [CSt.setB, hjy, hyx, if_false, if_true]
          exact h x vx hgx
        · simp only [hjy, if_false] at hj
          simp only [CSt.setB, hjx, hjy, if_false]
          exact h j v hj
    | none =>
      simp only [hgx] at hj
      have hjx : j ≠ x := by rintro rfl; rw [hgx] at hj; cases hj
      have hjy : j ≠ y := by rintro rfl; rw [hyn] at hj; cases hj
      simp only [CSt.setB, hjx, hjy, if_false]
      exact h j v hj

theorem FEnv.rename1_sound_num {e : FEnv V} {s s' : CSt V} (h : FEnv.γ e s) (x y : V) (hxy : x ≠ y)
    (hx : e.get x = .top) (hs : s'.bool = s.bool) : FEnv.γ (e.rename [x] [y]) s' := by
  cases e with
  | bot => exact h.elim
  | env m =>
    have hxn : AL.get m x = none := by
      simp only [FEnv.get] at hx
      cases hg : AL.get m x with
      | none => rfl
      | some v => rw [hg] at hx; cases v <;> simp [BVal.ofBool] at hx
    simp only [FEnv.rename, AL.rename_single]
    intro j v hj
    rw [AL.get_rename1 m x y j hxy, hxn] at hj
    rw [hs]; exact h j v hj

/-! the map of constraints -/

theorem look_rename1 {α : Type} [DecidableEq α] (m : List (V × List α)) (x y j : V) (hxy : x ≠ y)
    (hy : AL.get m y = none ∨ (AL.get m y).getD [] = []) (c : α) :
    (((SEnv.env m).rename [x] [y]).look j).mem c = true →
      (j ≠ x ∧ j ≠ y ∧ ((SEnv.env m).look j).mem c = true) ∨ (j = y ∧ ((SEnv.env m).look x).mem c = true) := by
  simp only [SEnv.rename, AL.rename_single, SEnv.look, AL.get_rename1 m x y j hxy]
  intro hc
  cases hgx : AL.get m x with
  | some vx =>
    simp only [hgx] at hc
    by_cases hjx : j = x
    · simp [hjx, DSet.mem] at hc
    · simp only [hjx, if_false] at hc
      by_cases hjy : j = y
      · simp only [hjy, if_true] at hc
        exact Or.inr ⟨hjy, by simpa [hgx] using hc⟩
      · simp only [hjy, if_false] at hc
        exact Or.inl ⟨hjx, hjy, hc⟩
  | none =>
    simp only [hgx] at hc
    have hjx : j ≠ x := by rintro rfl; simp [hgx, DSet.mem] at hc
    have hjy : j ≠ y := by
      rintro rfl
      rcases hy with hy | hy
      · simp [hy, DSet.mem] at hc
      · simp [hy, DSet.mem] at hc
    exact Or.inl ⟨hjx, hjy, hc⟩

theorem rename1_sound (isBool : V → Bool) {f2 : N.B → N.B} {x y : V} (hxy : x ≠ y)
    (hty : isBool y = isBool x) (hf2 : N.TSound f2 (relRename1 isBool x y)) {a : FBN N} {s s' : CSt V}
    (hg : γ a s) (hfresh : Fresh isBool y a) (htx : isBool x = false → a.prod.fst.get x = .top)
    (hr : relRename1 isBool x y s s') : γ (rename isBool f2 [x] [y] a) s' := by
  obtain ⟨hp, hlb, hbb, hub, hL, hB⟩ := hg
  have h2 := hf2 _ _ _ hp.2.2 hr
  have hyx : ¬ y = x := fun e => hxy e.symm
  unfold rename
  simp only [isBottom, Prod2.isBottom_false_of_γ hp, Bool.false_eq_true, if_false]
  unfold relRename1 at hr
  unfold Fresh at hfresh
  cases hx : isBool x with
  | false =>
    have hy : isBool y = false := by rw [hty, hx]
    simp only [hx, hy, Bool.false_eq_true, if_false, List.filter_cons, List.filter_nil, Bool.not_false,
      if_true, List.foldl_cons, List.foldl_nil] at hr hfresh ⊢
    obtain ⟨k, rfl⟩ := hr
    refine ⟨Prod2.op_γ .rename hp (FEnv.rename1_sound_num hp.2.1 x y hxy (htx hx) rfl) h2, ?_, ?_,
      by show (a.unch.remove x).isBot = false; rw [DSet.isBot_remove]; exact hub, ?_, ?_⟩
    · obtain ⟨m, hm⟩ := SEnv.exists_env hlb; rw [hm]; rfl
    · obtain ⟨m, hm⟩ := SEnv.exists_env hbb; rw [hm]; rfl
    · -- nothing is renamed in the map; `x` is marked changed and `y` was not marked
      have e1 : a.lin.rename [] [] = a.lin := by
        obtain ⟨m, hm⟩ := SEnv.exists_env hlb; rw [hm]; rfl
      rw [e1]
      intro j c hc hu
      rw [unchanged_iff] at hu
      have hu' : unchanged a.unch c = true := by
        rw [unchanged_iff]; exact fun v hv => ((DSet.mem_remove _ hub x v).1 (hu v hv)).2
      have hfr : K.holds c ((s.setN y (s.num x)).setN x k).num ↔ K.holds c s.num := by
        apply K.frame
        intro v hv
        have h1 := (DSet.mem_remove _ hub x v).1 (hu v hv)
        have hvy : v ≠ y := by rintro rfl; rw [hfresh] at h1; exact absurd h1.2 (by simp)
        simp [CSt.setN, h1.1, hvy]
      rw [hfr]; exact hL j c hc hu'
    · have e1 : renameMembers ([] : List V) [] (a.bools.rename [] []) = a.bools := by
        obtain ⟨m, hm⟩ := SEnv.exists_env hbb; rw [hm]; rfl
      rw [e1]; exact hB
  | true =>
    have hy : isBool y = true := by rw [hty, hx]
    simp only [hx, hy, if_true, List.filter_cons, List.filter_nil, Bool.not_true, Bool.false_eq_true,
      if_false, List.foldl_nil] at hr hfresh ⊢
    obtain ⟨b, rfl⟩ := hr
    obtain ⟨fy1, fy2, fy3⟩ := hfresh
    obtain ⟨ml, hml⟩ := SEnv.exists_env hlb
    obtain ⟨mb, hmb⟩ := SEnv.exists_env hbb
    have hbool : ∀ j, j ≠ x → j ≠ y → ((s.setB y (s.bool x)).setB x b).bool j = s.bool j := by
      intro j h1 h2; simp [CSt.setB, h1, h2]
    have hboolY : ((s.setB y (s.bool x)).setB x b).bool y = s.bool x := by simp [CSt.setB, hyx]
    refine ⟨Prod2.op_γ .rename hp (FEnv.rename1_sound_bool hp.2.1 x y hxy fy1 b) h2,
      by rw [hml]; rfl, by rw [hmb]; rfl, hub, ?_, ?_⟩
    · intro j c hc hu
      have hyE : AL.get ml y = none ∨ (AL.get ml y).getD [] = [] := by
        right
        have := fy2
        rw [hml] at this
        simp only [SEnv.look, DSet.mem] at this
        cases hl : (AL.get ml y).getD [] with
        | nil => rfl
        | cons c0 t => have := this c0; simp [hl] at this
      rw [hml] at hc
      rcases look_rename1 ml x y j hxy hyE c hc with ⟨h1, h2, h3⟩ | ⟨h1, h3⟩
      · rw [hbool j h1 h2]; rw [← hml] at h3; exact hL j c h3 hu
      · rw [h1, hboolY]; rw [← hml] at h3; exact hL x c h3 hu
    · -- `m_bool_to_bools`: keys, then members
      intro j j' hj hs
      unfold renameMembers at hj
      simp only [renameMembers] at hj
      have hbr : (a.bools.rename [x] [y]).isBot = false := by rw [hmb]; rfl
      rw [SEnv.mem_look_transformIf _ _ (by simp) hbr] at hj
      obtain ⟨l, hl, hm⟩ := hj
      -- a member of the renamed set comes from a member of the old set
      have hmem : ∃ j0', j0' ∈ l ∧ ((j0' ≠ x ∧ j' = j0') ∨ (j0' = x ∧ j' = y)) := by
        split at hm
        · rename_i hcx
          split at hm
          · simp only [List.mem_filter, decide_eq_true_eq] at hm
            exact ⟨j', hm.1, Or.inl ⟨hm.2, rfl⟩⟩
          · simp only [List.mem_cons, List.mem_filter, decide_eq_true_eq] at hm
            rcases hm with hm | hm
            · exact ⟨x, by simpa [List.contains_iff_mem] using hcx, Or.inr ⟨rfl, hm⟩⟩
            · exact ⟨j', hm.1, Or.inl ⟨hm.2, rfl⟩⟩
        · rename_i hcx
          refine ⟨j', hm, Or.inl ⟨?_, rfl⟩⟩
          rintro rfl; exact hcx (by simpa [List.contains_iff_mem] using hm)
      obtain ⟨j0', hj0, hcase⟩ := hmem
      have hyE : AL.get mb y = none ∨ (AL.get mb y).getD [] = [] := by
        right
        cases hl2 : (AL.get mb y).getD [] with
        | nil => rfl
        | cons c0 t =>
          have := (fy3 y c0 (by rw [hmb]; simp [SEnv.look, DSet.mem, hl2])).1
          exact absurd rfl this
      have hlook : ((a.bools.rename [x] [y]).look j).mem j0' = true := by
        rw [hl]; simpa [DSet.mem, List.contains_iff_mem] using hj0
      rw [hmb] at hlook
      -- the key
      have hkey : ∃ j0, (a.bools.look j0).mem j0' = true ∧
          ((s.setB y (s.bool x)).setB x b).bool j = s.bool j0 := by
        rcases look_rename1 mb x y j hxy hyE j0' hlook with ⟨h1, h2, h3⟩ | ⟨h1, h3⟩
        · exact ⟨j, by rw [hmb]; exact h3, hbool j h1 h2⟩
        · exact ⟨x, by rw [hmb]; exact h3, by rw [h1]; exact hboolY⟩
      obtain ⟨j0, hk0, hb0⟩ := hkey
      rw [hb0] at hs
      have hold := hB j0 j0' hk0 hs
      have hfr := fy3 j0 j0' hk0
      rcases hcase with ⟨h1, h2⟩ | ⟨h1, h2⟩
      · rw [h2, hbool j0' h1 hfr.2]; exact hold
      · rw [h2, hboolY, ← h1]; exact hold

end FBN

end Fct
end Dom
end Crab
