import CrabProofs.Lemmas.FixSSem

/-!
  Soundness of the state-passing iterator, part 1: the four visit functions
  (port of `visit_all` of `FixSoundMain.lean`; the table lemmas are shared).
-/
namespace Crab
namespace Fix
namespace Sound

variable {A S σ : Type}

/-- the contract of a state-passing block transformer: it keeps the invariant `I` of the state,
    the state only grows (`Le`), the returned value is a sound image, and afterwards the state
    *covers* (`Cov`) every concrete state the analysed invariant describes -/
structure AnOK (c : Ctx A) (sem : Sem c S) (an : AnS A σ) (I : σ → Prop) (Le : σ → σ → Prop)
    (Cov : σ → Nat → S → Prop) : Prop where
  le_refl : ∀ s, Le s s
  le_trans : ∀ a b d, Le a b → Le b d → Le a d
  cov_mono : ∀ a b n x, Le a b → Cov a n x → Cov b n x
  call : ∀ n a s1 r s2, I s1 → an n a s1 = some (r, s2) →
    I s2 ∧ Le s1 s2 ∧ PostOf sem n a r ∧ (∀ x, sem.γ a x → Cov s2 n x)

/-- every concrete state described by the stored invariant of a block of `C` is covered -/
def CovC {c : Ctx A} (sem : Sem c S) (Cov : σ → Nat → S → Prop) (C : List Nat) (st : St A) (s : σ) : Prop :=
  ∀ n, n ∈ C → ∀ x, sem.γ (st.pre n) x → Cov s n x

variable {c : Ctx A} {sem : Sem c S} {an : AnS A σ} {I : σ → Prop} {Le : σ → σ → Prop}
  {Cov : σ → Nat → S → Prop}

theorem CovC.mono (ok : AnOK c sem an I Le Cov) {C : List Nat} {st st' : St A} {s s' : σ}
    (h : CovC sem Cov C st s) (hle : Le s s') (hpre : ∀ n, n ∈ C → st'.pre n = st.pre n) :
    CovC sem Cov C st' s' := by
  intro n hn x hx
  rw [hpre n hn] at hx
  exact ok.cov_mono _ _ _ _ hle (h n hn x hx)

theorem computePostS_spec (ok : AnOK c sem an I Le Cov) {st st' : St A} {n : Nat} {a : A} {s s' : σ}
    (h : computePostS an st n a s = some (st', s')) (hI : I s) :
    ∃ r, st' = { st with post := upd st.post n r } ∧ I s' ∧ Le s s' ∧ PostOf sem n a r ∧
      (∀ x, sem.γ a x → Cov s' n x) := by
  unfold computePostS at h
  cases ha : an n a s with
  | none => rw [ha] at h; cases h
  | some rs =>
    obtain ⟨r, s2⟩ := rs
    rw [ha] at h
    simp only [Option.some.injEq, Prod.mk.injEq] at h
    obtain ⟨h1, h2⟩ := h
    subst h1; subst h2
    obtain ⟨k1, k2, k3, k4⟩ := ok.call n a s r s2 hI ha
    exact ⟨r, rfl, k1, k2, k3, k4⟩

/-- what is shown about a visit of the region `C` -/
def VisitGoodS (c : Ctx A) (sem : Sem c S) (I : σ → Prop) (Le : σ → σ → Prop) (Cov : σ → Nat → S → Prop)
    (C : List Nat) (st : St A) (s : σ) (st' : St A) (s' : σ) : Prop :=
  VisitGood c sem C st st' ∧ I s' ∧ Le s s' ∧ CovC sem Cov C st' s'

theorem visitVertexS_spec (ok : AnOK c sem an I Le Cov) {st st' : St A} {v : Nat} {s s' : σ}
    (h : visitVertexS c an st v s = some (st', s')) (hs : st.skip = false) (hI : I s) :
    ∃ r, st' = { st with pre := upd st.pre v (vertexPre c st v), post := upd st.post v r } ∧
      I s' ∧ Le s s' ∧ PostOf sem v (vertexPre c st v) r ∧
      (∀ x, sem.γ (vertexPre c st v) x → Cov s' v x) := by
  simp only [visitVertexS, hs, Bool.false_and, Bool.false_eq_true, if_false] at h
  obtain ⟨r, h1, h2, h3, h4, h5⟩ := computePostS_spec ok h hI
  refine ⟨r, ?_, h2, h3, h4, h5⟩
  rw [h1]
  cases st
  simp only at hs
  subst hs
  rfl

theorem visit_allS (ok : AnOK c sem an I Le Cov) : ∀ fuel : Nat,
    (∀ st x s st' s', visitCompS c an fuel st x s = some (st', s') → st.skip = false → I s →
        CompOK c x → x.nodes.Nodup → VisitGoodS c sem I Le Cov x.nodes st s st' s') ∧
    (∀ st xs s st' s', visitListS c an fuel st xs s = some (st', s') → st.skip = false → I s →
        ListOK c xs → (nodesList xs).Nodup → VisitGoodS c sem I Le Cov (nodesList xs) st s st' s') ∧
    (∀ st h B it pre s st' p s', ascendS c an fuel st h B it pre s = some (st', p, s') →
        st.skip = false → I s → ListOK c B → (h :: nodesList B).Nodup →
        VisitGoodS c sem I Le Cov (h :: nodesList B) st s st' s' ∧ st'.pre h = p ∧
        ∀ x, LPre c sem (h :: nodesList B) (Ext sem st) h x → sem.γ p x) ∧
    (∀ st h B it pre s st' s', descendS c an fuel st h B it pre s = some (st', s') →
        st.skip = false → I s → ListOK c B → (h :: nodesList B).Nodup → st.pre h = pre →
        (∀ x, LPre c sem (h :: nodesList B) (Ext sem st) h x → sem.γ pre x) →
        VisitGoodS c sem I Le Cov (h :: nodesList B) st s st' s') := by
  intro fuel
  induction fuel with
  | zero =>
    refine ⟨?_, ?_, ?_, ?_⟩
    · intro st x s st' s' H; simp [visitCompS] at H
    · intro st xs s st' s' H; simp [visitListS] at H
    · intro st h B it pre s st' p s' H; simp [ascendS] at H
    · intro st h B it pre s st' s' H; simp [descendS] at H
  | succ fuel ih =>
    obtain ⟨ihC, ihL, ihA, ihD⟩ := ih
    refine ⟨?_, ?_, ?_, ?_⟩
    · -- visitCompS
      intro st x s st' s' H hs hI hok hnd
      cases x with
      | vertex v =>
        simp only [visitCompS] at H
        simp only [CompOK] at hok
        obtain ⟨r, h1, h2, h3, h4, h5⟩ := visitVertexS_spec ok H hs hI
        subst h1
        refine ⟨⟨⟨hs, fun n hn => ?_⟩, ?_⟩, h2, h3, ?_⟩
        · have hn' : n ≠ v := by simpa [Comp.nodes] using hn
          exact ⟨upd_other _ _ _ _ hn', upd_other _ _ _ _ hn'⟩
        · show Snd c sem [v] (Ext sem st) _
          apply vertex_sound' st _ v hok
          · exact upd_same _ _ _
          · show PostOf sem v _ (upd st.post v r v)
            rw [upd_same]; exact h4
        · intro n hn x hx
          have hn' : n = v := by simpa [Comp.nodes] using hn
          subst hn'
          have hx' : sem.γ (vertexPre c st n) x := by simpa [upd] using hx
          exact h5 x hx'
      | cycle h B =>
        simp only [visitCompS, hs, Bool.false_and, Bool.false_eq_true, if_false] at H
        simp only [CompOK] at hok
        simp only [Comp.nodes] at hnd ⊢
        split at H
        · exact absurd H (by simp)
        · rename_i st1 p1 s1 hA
          obtain ⟨hG, hpe, hp1⟩ := ihA _ h B 1 _ s st1 p1 s1 hA rfl hI hok hnd
          obtain ⟨hG', hI1, hL1, hC1⟩ := hG
          have hG'' : VisitGood c sem (h :: nodesList B) st st1 := hG'
          have hp1' : ∀ x, LPre c sem (h :: nodesList B) (Ext sem st) h x → sem.γ p1 x := hp1
          split at H
          · simp only [Option.some.injEq, Prod.mk.injEq] at H
            obtain ⟨e1, e2⟩ := H
            subst e1; subst e2
            exact ⟨hG'', hI1, hL1, hC1⟩
          · have hmono : ∀ x, LPre c sem (h :: nodesList B) (Ext sem st1) h x →
                LPre c sem (h :: nodesList B) (Ext sem st) h x :=
              fun x hL => hL.mono (fun p x hp hE => (hG''.1.ext_iff sem p x hp).2 hE)
            obtain ⟨hD, hI2, hL2, hC2⟩ := ihD st1 h B 1 p1 s1 st' s' H hG''.1.1 hI1 hok hnd hpe
              (fun x hL => hp1' x (hmono x hL))
            exact ⟨hD.rebase hG''.1, hI2, ok.le_trans _ _ _ hL1 hL2, hC2⟩
    · -- visitListS
      intro st xs s st' s' H hs hI hok hnd
      cases xs with
      | nil =>
        simp only [visitListS, Option.some.injEq, Prod.mk.injEq] at H
        obtain ⟨e1, e2⟩ := H
        subst e1; subst e2
        refine ⟨⟨⟨hs, fun n _ => ⟨rfl, rfl⟩⟩, ?_⟩, hI, ok.le_refl _, fun n hn => by simp [nodesList] at hn⟩
        intro n x hL
        exact absurd hL.mem (by simp [nodesList])
      | cons x xs =>
        simp only [visitListS] at H
        split at H
        · exact absurd H (by simp)
        · rename_i st1 s1 hC
          simp only [ListOK] at hok
          simp only [nodesList] at hnd ⊢
          have hnd' := List.nodup_append.1 hnd
          obtain ⟨g1, hI1, hL1, hC1⟩ := ihC st x s st1 s1 hC hs hI hok.1 hnd'.1
          obtain ⟨g2, hI2, hL2, hC2⟩ := ihL st1 xs s1 st' s' H g1.1.1 hI1 hok.2.1 hnd'.2.1
          refine ⟨⟨g1.1.trans g2.1 (fun n hn => List.mem_append.2 (Or.inl hn))
            (fun n hn => List.mem_append.2 (Or.inr hn)), ?_⟩, hI2, ok.le_trans _ _ _ hL1 hL2, ?_⟩
          · exact seq_sound x.nodes (nodesList xs) st st1 st'
              (fun n h1 h2 => hnd'.2.2 n h1 n h2 rfl) hok.2.2
              (fun n hn => (g1.1.2 n hn).2) g2.1.2 g1.2 g2.2
          · intro n hn
            rcases List.mem_append.1 hn with hn | hn
            · have hnx : n ∉ nodesList xs := fun h2 => hnd'.2.2 n hn n h2 rfl
              exact (hC1.mono ok hL2 (fun m hm => (g2.1.2 m (fun h2 => hnd'.2.2 m hm m h2 rfl)).1)) n hn
            · exact hC2 n hn
    · -- ascendS
      intro st h B it pre s st' p s' H hs hI hok hnd
      simp only [ascendS] at H
      split at H
      · exact absurd H (by simp)
      · rename_i st1 s1 hCP
        split at H
        · exact absurd H (by simp)
        · rename_i st2 s2 hL
          have hnd1 := List.nodup_cons.1 hnd
          obtain ⟨r, hst1, hI1, hL1, hpo, hcov⟩ := computePostS_spec ok hCP hI
          have hs1 : st1.skip = false := by rw [hst1]; exact hs
          have hp1 : PostOf sem h pre (st1.post h) := by rw [hst1]; simpa [upd] using hpo
          have hpre1 : st1.pre h = pre := by rw [hst1]; simp [upd]
          have hf1 : ∀ n, n ≠ h → st1.post n = st.post n := by
            intro n hn; rw [hst1]; simp [upd, hn]
          have hfp1 : ∀ n, n ≠ h → st1.pre n = st.pre n := by
            intro n hn; rw [hst1]; simp [upd, hn]
          have hF1 : Frame (h :: nodesList B) st st1 :=
            ⟨hs1, fun n hn => by
              have : n ≠ h := fun e => hn (by simp [e])
              exact ⟨hfp1 n this, hf1 n this⟩⟩
          obtain ⟨gB, hI2, hL2, hC2⟩ := ihL st1 B s1 st2 s2 hL hs1 hI1 hok hnd1.2
          have hF2 : Frame (h :: nodesList B) st st2 :=
            hF1.trans gB.1 (fun _ x => x) (fun n hn => List.mem_cons_of_mem _ hn)
          have hpre2 : st2.pre h = pre := by rw [(gB.1.2 h hnd1.1).1, hpre1]
          have hL12 : Le s s2 := ok.le_trans _ _ _ hL1 hL2
          -- the head is covered for everything `pre` describes
          have hcovh : ∀ x, sem.γ pre x → Cov s2 h x := fun x hx => ok.cov_mono _ _ _ _ hL2 (hcov x hx)
          split at H
          · -- stabilisation test passed
            rename_i hle
            simp only [Option.some.injEq, Prod.mk.injEq] at H
            obtain ⟨e1, e2, e3⟩ := H
            subst e1; subst e2; subst e3
            have hR := cycle_round' (sem := sem) h (nodesList B) st st1 st2 pre hnd1.1 hp1 hf1
              (fun n hn => (gB.1.2 n hn).2) gB.2
              (fun x _ hnp => sem.leq_sound _ _ _ hle hnp)
              (fun x _ hp => by rw [hpre2]; exact hp)
            have hNP := cycle_newPre (sem := sem) h (nodesList B) st st2
              (fun n hn => (hF2.2 n hn).2) hR.1
            refine ⟨⟨⟨⟨hF2.1, fun n hn => ?_⟩, ?_⟩, hI2, hL12, ?_⟩, by simp [upd], hNP⟩
            · have : n ≠ h := fun e => hn (by simp [e])
              have := hF2.2 n hn
              simpa [upd, ‹n ≠ h›] using this
            · exact Snd.set_pre h _ hR.1 hNP
            · intro n hn x hx
              by_cases hnh : n = h
              · subst hnh
                have hx' : sem.γ (newPre c st2 n) x := by simpa [upd] using hx
                exact hcovh x (sem.leq_sound _ _ _ hle hx')
              · have hnB : n ∈ nodesList B := (List.mem_cons.1 hn).resolve_left hnh
                have hx' : sem.γ (st2.pre n) x := by simpa [upd, hnh] using hx
                exact hC2 n hnB x hx'
          · -- another ascending round
            obtain ⟨hA, hpe, hp⟩ := ihA st2 h B (it + 1) _ s2 st' p s' H hF2.1 hI2 hok hnd
            obtain ⟨hA1, hI3, hL3, hC3⟩ := hA
            refine ⟨⟨hA1.rebase hF2, hI3, ok.le_trans _ _ _ hL12 hL3, hC3⟩, hpe, fun x hL' => hp x ?_⟩
            exact hL'.mono (fun p x hp hE => (hF2.ext_iff sem p x hp).1 hE)
    · -- descendS
      intro st h B it pre s st' s' H hs hI hok hnd hpeq hH
      simp only [descendS] at H
      split at H
      · exact absurd H (by simp)
      · rename_i st1 s1 hCP
        split at H
        · exact absurd H (by simp)
        · rename_i st2 s2 hL
          have hnd1 := List.nodup_cons.1 hnd
          obtain ⟨r, hst1, hI1, hL1, hpo, hcov⟩ := computePostS_spec ok hCP hI
          have hs1 : st1.skip = false := by rw [hst1]; exact hs
          have hp1 : PostOf sem h pre (st1.post h) := by rw [hst1]; simpa [upd] using hpo
          have hf1 : ∀ n, n ≠ h → st1.post n = st.post n := by
            intro n hn; rw [hst1]; simp [upd, hn]
          have hfp1 : ∀ n, st1.pre n = st.pre n := by
            intro n; rw [hst1]
          have hF1 : Frame (h :: nodesList B) st st1 :=
            ⟨hs1, fun n hn => by
              have : n ≠ h := fun e => hn (by simp [e])
              exact ⟨hfp1 n, hf1 n this⟩⟩
          obtain ⟨gB, hI2, hL2, hC2⟩ := ihL st1 B s1 st2 s2 hL hs1 hI1 hok hnd1.2
          have hF2 : Frame (h :: nodesList B) st st2 :=
            hF1.trans gB.1 (fun _ x => x) (fun n hn => List.mem_cons_of_mem _ hn)
          have hpre2 : st2.pre h = pre := by rw [(gB.1.2 h hnd1.1).1, hfp1 h, hpeq]
          have hL12 : Le s s2 := ok.le_trans _ _ _ hL1 hL2
          have hcovh : ∀ x, sem.γ pre x → Cov s2 h x := fun x hx => ok.cov_mono _ _ _ _ hL2 (hcov x hx)
          have hR := cycle_round' (sem := sem) h (nodesList B) st st1 st2 pre hnd1.1 hp1 hf1
            (fun n hn => (gB.1.2 n hn).2) gB.2
            (fun x hL' _ => hH x hL')
            (fun x hL' _ => by rw [hpre2]; exact hH x hL')
          have hG2 : VisitGood c sem (h :: nodesList B) st st2 := ⟨hF2, hR.1⟩
          have hCov2 : CovC sem Cov (h :: nodesList B) st2 s2 := by
            intro n hn x hx
            rcases List.mem_cons.1 hn with hnh | hnB
            · subst hnh
              rw [hpre2] at hx
              exact hcovh x hx
            · exact hC2 n hnB x hx
          split at H
          · simp only [Option.some.injEq, Prod.mk.injEq] at H
            obtain ⟨e1, e2⟩ := H
            subst e1; subst e2
            exact ⟨hG2, hI2, hL12, hCov2⟩
          · split at H
            · simp only [Option.some.injEq, Prod.mk.injEq] at H
              obtain ⟨e1, e2⟩ := H
              subst e1; subst e2
              exact ⟨hG2, hI2, hL12, hCov2⟩
            · have hNP := cycle_newPre (sem := sem) h (nodesList B) st st2
                (fun n hn => (hF2.2 n hn).2) hR.1
              have hRef : ∀ x, LPre c sem (h :: nodesList B) (Ext sem st) h x →
                  sem.γ (refine c it pre (newPre c st2 h)) x :=
                fun x hL' => refine_sound it _ _ x (hH x hL') (hNP x hL')
              have hF3 : Frame (h :: nodesList B) st
                  { st2 with pre := upd st2.pre h (refine c it pre (newPre c st2 h)) } := by
                refine ⟨hF2.1, fun n hn => ?_⟩
                have : n ≠ h := fun e => hn (by simp [e])
                have := hF2.2 n hn
                simpa [upd, ‹n ≠ h›] using this
              have hmono : ∀ x, LPre c sem (h :: nodesList B)
                  (Ext sem { st2 with pre := upd st2.pre h (refine c it pre (newPre c st2 h)) }) h x →
                  LPre c sem (h :: nodesList B) (Ext sem st) h x :=
                fun x hL' => hL'.mono (fun p x hp hE => (hF3.ext_iff sem p x hp).2 hE)
              obtain ⟨hD, hI3, hL3, hC3⟩ := ihD _ h B (it + 1) _ s2 st' s' H hF3.1 hI2 hok hnd
                (by simp [upd])
                (fun x hL' => hRef x (hmono x hL'))
              exact ⟨hD.rebase hF3, hI3, ok.le_trans _ _ _ hL12 hL3, hC3⟩

end Sound
end Fix
end Crab
