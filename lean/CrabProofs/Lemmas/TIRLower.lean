import CrabModel.Transform.Dce
import CrabProofs.Lemmas.TIRDce

/-!
  Replacing assertions by assumes (in either direction) does not change the exit-reaching
  executions, up to the kind recorded in the events: a false assertion ends the execution
  (`failed`), a false assume blocks it — neither reaches the exit.
-/
namespace Crab
namespace TIR

/-- same statement up to assert / assume -/
def KindRel (s s' : Stmt) : Prop :=
  s = s' ∨ ∃ c, (s = .assert c ∧ s' = .assume c) ∨ (s = .assume c ∧ s' = .assert c)

/-- pointwise on statement lists -/
inductive KindList : List Stmt → List Stmt → Prop
  | nil : KindList [] []
  | cons {s s' r r'} : KindRel s s' → KindList r r' → KindList (s :: r) (s' :: r')

/-- `T` is `P` with some asserts / assumes exchanged -/
structure KindProg (P T : Prog) : Prop where
  stmts : ∀ l, KindList (P.stmtsOf l) (T.stmtsOf l)
  succ : ∀ l, T.succsOf l = P.succsOf l
  exit : ∀ l, T.isExit l = P.isExit l
  outs : T.outputs = P.outputs

theorem eraseKinds_append (a b : List Event) : eraseKinds (a ++ b) = eraseKinds a ++ eraseKinds b := by
  simp [eraseKinds]

theorem kind_forward (P T : Prog) (h : KindProg P T)
    {stmts : List Stmt} {l : Label} {σ : State} {t : List Event} {o : Outcome}
    (he : Exec P stmts l σ t o) :
    ∀ outs, o = .exit outs → ∀ stmts', KindList stmts stmts' →
      ∃ t', Exec T stmts' l σ t' (.exit outs) ∧ eraseKinds t' = eraseKinds t := by
  induction he with
  | @exit l σ hex =>
    intro outs ho stmts' hr
    cases hr
    simp only [Outcome.exit.injEq] at ho
    subst ho
    refine ⟨[], ?_, rfl⟩
    rw [← h.outs]
    exact Exec.exit (by rw [h.exit]; exact hex)
  | @goto l l' σ t o hex hmem _ ih =>
    intro outs ho stmts' hr
    cases hr
    obtain ⟨t', h1, h2⟩ := ih outs ho _ (h.stmts l')
    exact ⟨t', Exec.goto (by rw [h.exit]; exact hex) (by rw [h.succ]; exact hmem) h1, h2⟩
  | @stuck l σ hex hs => intro outs ho; cases ho
  | @cont s rest l σ σ' ev t o hv hstep _ ih =>
    intro outs ho stmts' hr
    cases hr with
    | cons hs hrest =>
      rename_i s' rest'
      obtain ⟨t', h1, h2⟩ := ih outs ho rest' hrest
      rcases hs with rfl | ⟨c, ⟨rfl, rfl⟩ | ⟨rfl, rfl⟩⟩
      · exact ⟨evs ev ++ t', Exec.cont hv hstep h1, by rw [eraseKinds_append, eraseKinds_append, h2]⟩
      · simp only [stepStmt] at hstep
        split at hstep
        · rename_i hc
          simp only [StepRes.cont.injEq] at hstep
          obtain ⟨rfl, rfl⟩ := hstep
          refine ⟨evs (some ⟨false, c, true⟩) ++ t', Exec.cont hv (by simp [stepStmt, hc]) h1, ?_⟩
          rw [eraseKinds_append, eraseKinds_append, h2]; rfl
        · cases hstep
      · simp only [stepStmt] at hstep
        split at hstep
        · rename_i hc
          simp only [StepRes.cont.injEq] at hstep
          obtain ⟨rfl, rfl⟩ := hstep
          refine ⟨evs (some ⟨true, c, true⟩) ++ t', Exec.cont hv (by simp [stepStmt, hc]) h1, ?_⟩
          rw [eraseKinds_append, eraseKinds_append, h2]; rfl
        · cases hstep
  | @stop s rest l σ ev o hv hstep =>
    intro outs ho
    exact absurd ho (stepStmt_stop_not_exit hstep outs)

theorem KindRel.symm {s s' : Stmt} (h : KindRel s s') : KindRel s' s := by
  rcases h with rfl | ⟨c, ⟨rfl, rfl⟩ | ⟨rfl, rfl⟩⟩
  · exact Or.inl rfl
  · exact Or.inr ⟨c, Or.inr ⟨rfl, rfl⟩⟩
  · exact Or.inr ⟨c, Or.inl ⟨rfl, rfl⟩⟩

theorem forall2_kind_symm : ∀ {a b : List Stmt}, KindList a b → KindList b a
  | _, _, .nil => .nil
  | _, _, .cons h r => .cons h.symm (forall2_kind_symm r)

theorem KindProg.symm {P T : Prog} (h : KindProg P T) : KindProg T P where
  stmts := fun l => forall2_kind_symm (h.stmts l)
  succ := fun l => (h.succ l).symm
  exit := fun l => (h.exit l).symm
  outs := h.outs.symm

/-! ### `lower` produces such a program -/

theorem lowerBlock_rel (safe : List Nat) : ∀ (stmts : List Stmt) (i : Nat),
    KindList stmts (lowerBlock safe stmts i) := by
  intro stmts
  induction stmts with
  | nil => intro i; exact .nil
  | cons s rest ih =>
    intro i
    simp only [lowerBlock]
    refine .cons ?_ (ih (i + 1))
    cases s with
    | assert c =>
      simp only
      split
      · exact Or.inr ⟨c, Or.inl ⟨rfl, rfl⟩⟩
      · exact Or.inl rfl
    | _ => exact Or.inl rfl

def lowerF (safe : List (Label × Nat)) (b : Block) : Block :=
  { b with stmts := lowerBlock ((safe.filter (fun p => p.1 == b.label)).map (·.2)) b.stmts 0 }

theorem lower_eq (P : Prog) (safe : List (Label × Nat)) : lower P safe = P.mapBlocks (lowerF safe) := rfl

theorem lower_kindProg (P : Prog) (safe : List (Label × Nat)) : KindProg P (lower P safe) where
  stmts := by
    intro l
    rw [lower_eq, mapBlocks_stmtsOf P (lowerF safe) (fun _ => rfl)
      (fun l s => lowerBlock ((safe.filter (fun p => p.1 == l)).map (·.2)) s 0) (fun _ => rfl) (fun _ => rfl) l]
    exact lowerBlock_rel _ _ 0
  succ := fun l => by rw [lower_eq]; exact mapBlocks_succsOf P (lowerF safe) (fun _ => rfl) (fun _ => rfl) l
  exit := fun _ => rfl
  outs := rfl

end TIR
end Crab
