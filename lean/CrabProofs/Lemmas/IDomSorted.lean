import CrabProofs.Lemmas.IDomEnv

/-!
  The map invariant of `separate_domain` (strictly increasing keys, i.e. at most one binding per
  variable) is preserved by every operation of the interval domain.  Stated for an arbitrary
  predicate on environments that holds of `top`, `bot` and is preserved by `set` / `forget`
  where only those are used (the solver, `assign`, `apply`, …).
-/
namespace Crab
namespace IDom
open Lin

/-- a predicate on environments preserved by the two primitive updates -/
structure EnvInv (P : Env → Prop) : Prop where
  bot : P Env.bot
  top : P Env.top
  set : ∀ e k v, P e → P (e.set k v)
  forget : ∀ e k, P e → P (e.forget k)

section generic
variable {P : Env → Prop} (hP : EnvInv P)
include hP

theorem refine_inv (st : SolverSt) (v : Var) (i : Itv) (h : P st.env) : P (refine st v i).2.env := by
  unfold refine
  simp only []
  split
  · exact h
  · split
    · exact hP.set _ _ _ h
    · exact h

theorem propagateTerm_inv (c : Cst) (st : SolverSt) (pivot : Var) (coef : Int) (h : P st.env) :
    P (propagateTerm c st pivot coef).2.env := by
  unfold propagateTerm
  simp only []
  generalize computeResidual c pivot st.env st.ops = ro
  generalize (if (!ro.1.isTop) = true then divT ro.1 (Itv.single coef) else Itv.top) = rhs
  have h' : P (SolverSt.mk st.env st.refined ro.2).env := h
  cases c.kind with
  | eq => exact refine_inv hP _ _ _ h'
  | leq =>
    simp only []
    by_cases hc : coef > 0
    · simp only [hc, if_true]; exact refine_inv hP _ _ _ h'
    · simp only [hc, if_false]; exact refine_inv hP _ _ _ h'
  | lt => exact h
  | neq =>
    simp only []
    by_cases h1 : (!Itv.beq (Itv.mul rhs (Itv.single coef)) ro.1) = true
    · simp only [h1, if_true]; exact h
    · simp only [h1]
      by_cases h2 : (Itv.trim (st.env.get pivot) rhs).isBottom = true
      · simp only [h2, if_true]; exact h
      · simp only [h2]
        by_cases h3 : (!Itv.beq (st.env.get pivot) (Itv.trim (st.env.get pivot) rhs)) = true
        · simp only [h3, if_true]; exact hP.set _ _ _ h
        · simp only [h3]; exact h

theorem propagateLoop_inv (c : Cst) : ∀ (ts : List (Var × Int)) (st : SolverSt), P st.env →
    P (propagateLoop c ts st).2.env := by
  intro ts
  induction ts with
  | nil => intro st h; exact h
  | cons p rest ih =>
    obtain ⟨v, k⟩ := p
    intro st h
    have h1 := propagateTerm_inv hP c st v k h
    unfold propagateLoop
    generalize propagateTerm c st v k = r at h1
    obtain ⟨b, st'⟩ := r
    cases b
    · exact ih st' h1
    · exact h1

theorem propagateAll_inv : ∀ (tbl : List Cst) (st : SolverSt), P st.env → P (propagateAll tbl st).2.env := by
  intro tbl
  induction tbl with
  | nil => intro st h; exact h
  | cons c rest ih =>
    intro st h
    have h1 := propagateLoop_inv hP c c.expr.terms st h
    unfold propagateAll propagate
    generalize propagateLoop c c.expr.terms st = r at h1
    obtain ⟨b, st'⟩ := r
    cases b
    · exact ih st' h1
    · exact h1

theorem solveSmallLoop_inv (tbl : List Cst) : ∀ (fuel : Nat) (st : SolverSt), P st.env →
    P (solveSmallLoop tbl fuel st).2.env := by
  intro fuel
  induction fuel with
  | zero =>
    intro st h
    have h1 := propagateAll_inv hP tbl ⟨st.env, [], st.ops⟩ h
    unfold solveSmallLoop
    generalize propagateAll tbl ⟨st.env, [], st.ops⟩ = r at h1
    obtain ⟨b, st'⟩ := r
    cases b <;> exact h1
  | succ n ih =>
    intro st h
    have h1 := propagateAll_inv hP tbl ⟨st.env, [], st.ops⟩ h
    unfold solveSmallLoop
    generalize propagateAll tbl ⟨st.env, [], st.ops⟩ = r at h1
    obtain ⟨b, st'⟩ := r
    cases b
    · simp only []; split
      · exact ih st' h1
      · exact h1
    · exact h1

theorem solveLargeLoop_inv (tbl : List Cst) (maxOp : Nat) : ∀ (fuel : Nat) (st : SolverSt), P st.env →
    P (solveLargeLoop tbl maxOp fuel st).2.env := by
  intro fuel
  induction fuel with
  | zero =>
    intro st h
    have h1 := propagateAll_inv hP (st.refined.flatMap (trigger tbl)) ⟨st.env, [], st.ops⟩ h
    unfold solveLargeLoop
    simp only []
    generalize propagateAll (st.refined.flatMap (trigger tbl)) ⟨st.env, [], st.ops⟩ = r at h1
    obtain ⟨b, st'⟩ := r
    cases b <;> exact h1
  | succ n ih =>
    intro st h
    have h1 := propagateAll_inv hP (st.refined.flatMap (trigger tbl)) ⟨st.env, [], st.ops⟩ h
    unfold solveLargeLoop
    simp only []
    generalize propagateAll (st.refined.flatMap (trigger tbl)) ⟨st.env, [], st.ops⟩ = r at h1
    obtain ⟨b, st'⟩ := r
    cases b
    · simp only []; split
      · exact ih st' h1
      · exact h1
    · exact h1

theorem solveLarge_inv (tbl : List Cst) (maxOp : Nat) (st : SolverSt) (h : P st.env) :
    P (solveLarge tbl maxOp st).2.env := by
  unfold solveLarge
  have h1 := propagateAll_inv hP tbl ⟨st.env, [], 0⟩ h
  generalize propagateAll tbl ⟨st.env, [], 0⟩ = r at h1
  obtain ⟨b, st'⟩ := r
  cases b
  · exact solveLargeLoop_inv hP _ _ _ st' h1
  · exact h1

theorem solverRun_inv (csts : Sys) (maxCycles : Nat) (env : Env) (h : P env) : P (solverRun csts maxCycles env) := by
  unfold solverRun
  simp only []
  generalize prepLoop csts [] 0 = p
  by_cases hc : p.contradiction = true
  · simp only [hc, if_true]; exact hP.bot
  · simp only [hc]
    generalize hr : (if (decide (p.tbl.length > largeCstThreshold) || decide (p.opc > largeOpThreshold)) = true
        then solveLarge p.tbl (p.opc * maxCycles) ⟨env, [], 0⟩
        else solveSmall p.tbl maxCycles ⟨env, [], 0⟩) = r
    have hr' : P r.2.env := by
      rw [← hr]
      split
      · exact solveLarge_inv hP _ _ _ h
      · exact solveSmallLoop_inv hP _ _ ⟨env, [], 0⟩ h
    by_cases hb : r.1 = true
    · simp only [hb, if_true]; exact hP.bot
    · simp only [hb]; exact hr'

theorem foldSet_inv (f : Var → Itv) : ∀ (ks : List Var) (acc : Env), P acc →
    P (ks.foldl (fun env key => env.set key (f key)) acc) := by
  intro ks
  induction ks with
  | nil => intro acc h; exact h
  | cons k rest ih => intro acc h; exact ih _ (hP.set _ _ _ h)

theorem foldForget_inv : ∀ (ks : List Var) (acc : Env), P acc →
    P (ks.foldl (fun env key => env.forget key) acc) := by
  intro ks
  induction ks with
  | nil => intro acc h; exact h
  | cons k rest ih => intro acc h; exact ih _ (hP.forget _ _ h)

namespace Env
theorem addRaw_inv (e : Env) (csts : Sys) (h : P e) : P (e.addRaw csts) := by
  unfold addRaw; split
  · exact h
  · exact solverRun_inv hP _ _ _ h
theorem add_inv (e : Env) (csts : Sys) (h : P e) : P (e.add csts) := by
  unfold add; split
  · exact h
  · exact solverRun_inv hP _ _ _ h
theorem assign_inv (e : Env) (x : Var) (ex : Expr) (h : P e) : P (e.assign x ex) := by
  unfold assign; split <;> exact hP.set _ _ _ h
theorem applyVar_inv (e : Env) (op : ArithOp) (x y z : Var) (h : P e) : P (e.applyVar op x y z) := hP.set _ _ _ h
theorem applyCst_inv (e : Env) (op : ArithOp) (x y : Var) (k : Int) (h : P e) : P (e.applyCst op x y k) := hP.set _ _ _ h
theorem applyBitVar_inv (e : Env) (op : BitOp) (x y z : Var) (h : P e) : P (e.applyBitVar op x y z) := hP.set _ _ _ h
theorem applyBitCst_inv (e : Env) (op : BitOp) (x y : Var) (k : Int) (h : P e) : P (e.applyBitCst op x y k) := hP.set _ _ _ h
theorem select_inv (e : Env) (lhs : Var) (c : Cst) (e1 e2 : Expr) (h : P e) : P (e.select lhs c e1 e2) := by
  unfold select
  split
  · exact h
  · split
    · exact assign_inv hP _ _ _ h
    · split
      · exact assign_inv hP _ _ _ h
      · exact hP.set _ _ _ h
theorem forgetAll_inv (e : Env) (vs : List Var) (h : P e) : P (e.forgetAll vs) := by
  unfold forgetAll; split
  · exact h
  · exact foldForget_inv hP _ _ h
theorem expand_inv (e : Env) (x nx : Var) (h : P e) : P (e.expand x nx) := by
  unfold expand; split
  · exact h
  · exact hP.set _ _ _ h
theorem project_inv (e : Env) (ks : List Var) (h : P e) : P (e.project ks) := by
  unfold project; split
  · exact h
  · simp only []; split
    · exact foldSet_inv hP _ _ _ hP.top
    · exact foldForget_inv hP _ _ h
theorem intCast_inv (e : Env) (z : Bool) (bw : Nat) (d s : Var) (h : P e) : P (e.intCast z bw d s) := by
  unfold intCast
  simp only []
  split
  · exact add_inv hP _ _ (assign_inv hP _ _ _ h)
  · exact assign_inv hP _ _ _ h
end Env
end generic

/-! ### the sortedness invariant -/

namespace Env

/-- at most one binding per variable, in increasing order -/
def Sorted (e : Env) : Prop := e.m.Sorted

theorem sorted_bot : Sorted bot := by simp [Sorted, bot, Map.Sorted]
theorem sorted_top : Sorted top := by simp [Sorted, top, Map.Sorted]

theorem set_sorted (e : Env) (k : Var) (v : Itv) (h : e.Sorted) : (e.set k v).Sorted := by
  unfold set
  split
  · exact h
  · split
    · exact sorted_bot
    · split
      · exact Map.remove_sorted h k
      · exact Map.insert_sorted h k v

theorem forget_sorted (e : Env) (k : Var) (h : e.Sorted) : (e.forget k).Sorted := by
  unfold forget; split
  · exact h
  · exact Map.remove_sorted h k

theorem sortedInv : EnvInv Sorted := ⟨sorted_bot, sorted_top, set_sorted, forget_sorted⟩

theorem joinKey_sorted (e : Env) (k : Var) (v : Itv) (h : e.Sorted) : (e.joinKey k v).Sorted := by
  unfold joinKey
  split
  · exact h
  · split
    · exact sorted_bot
    · split
      · exact Map.remove_sorted h k
      · split
        · exact Map.remove_sorted h k
        · simp only []; split
          · exact Map.remove_sorted h k
          · exact Map.insert_sorted h k _

theorem weakAssign_sorted (e : Env) (x : Var) (ex : Expr) (h : e.Sorted) : (e.weakAssign x ex).Sorted := by
  unfold weakAssign; split <;> exact joinKey_sorted _ _ _ h

theorem upperWith_sorted (op : Itv → Itv → Itv) {a b : Env} (ha : a.Sorted) (hb : b.Sorted) : (upperWith op a b).Sorted := by
  unfold upperWith
  split
  · exact hb
  · split
    · exact ha
    · exact Map.mergeAbs_sorted op ha b.m

theorem lowerWith_sorted (op : Itv → Itv → Itv) {a : Env} (ha : a.Sorted) (b : Env) : (lowerWith op a b).Sorted := by
  unfold lowerWith
  split
  · exact sorted_bot
  · split
    · exact sorted_bot
    · exact Map.mergeKeep_sorted op ha b.m

theorem renameLoop_sorted : ∀ (f t : List Var) (m : Map), m.Sorted → (renameLoop f t m).Sorted := by
  intro f
  induction f with
  | nil => intro t m h; unfold renameLoop; exact h
  | cons k rest ih =>
    intro t m h
    cases t with
    | nil => unfold renameLoop; exact h
    | cons nk rest' =>
      unfold renameLoop
      split
      · exact ih _ _ h
      · split
        · apply ih
          apply Map.remove_sorted
          split
          · exact Map.insert_sorted h _ _
          · exact h
        · exact ih _ _ h

theorem rename_sorted {e e' : Env} {f t : List Var} (hr : e.rename f t = some e') (h : e.Sorted) : e'.Sorted := by
  unfold rename at hr
  split at hr
  · simp only [Option.some.injEq] at hr; subst hr; exact h
  · split at hr
    · simp at hr
    · simp only [Option.some.injEq] at hr; subst hr; exact renameLoop_sorted _ _ _ h

end Env
end IDom
end Crab
