import CrabModel.Dom.ZonesOps
import CrabProofs.Lemmas.DbmWiden

/-!
  Matrix-level facts behind the relational instances of C03 / C04 / C01
  (`CrabModel/Dom/ZonesOps.lean`): translation, renaming of indices, and the textbook widening of
  difference-bound matrices, for every dimension `N`.
-/
namespace Crab
namespace Dbm
namespace Mat
variable {N : Nat}

/-- translating the matrix by `d` translates the solutions by `d` -/
theorem shiftBy_sat (m : Mat N) (d : Fin N → Int) (v : Fin N → Int) :
    (m.shiftBy d).sat v ↔ m.sat (fun i => v i - d i) := by
  constructor
  · intro h i j k hk
    have := h i j (k + (d i - d j)) (by simp [shiftBy, hk, W.add])
    simp only
    omega
  · intro h i j k hk
    simp only [shiftBy, get_ofFn] at hk
    obtain ⟨a, b, ha, hb, rfl⟩ := W.add_some_iff.1 hk
    cases hb
    have := h i j a ha
    simp only at this
    omega

/-- renaming the indices by an involution renames the solutions -/
theorem permute_sat (m : Mat N) (π : Fin N → Fin N) (hπ : ∀ i, π (π i) = i) (v : Fin N → Int) :
    (m.permute π).sat v ↔ m.sat (fun i => v (π i)) := by
  constructor
  · intro h i j k hk
    have := h (π i) (π j) k (by simp [permute, hπ, hk])
    simpa using this
  · intro h i j k hk
    simp only [permute, get_ofFn] at hk
    have := h (π i) (π j) k hk
    simpa [hπ] using this

theorem widenStd_some {l r : Mat N} {i j : Fin N} {k : Int} (h : (widenStd l r).get i j = some k) :
    l.get i j = some k ∧ ∃ k', r.get i j = some k' ∧ k' ≤ k := by
  simp only [widenStd, get_ofFn] at h
  split at h
  · rename_i hc
    rw [h] at hc
    exact ⟨h, W.le_some_iff.1 hc⟩
  · cases h

/-- the widening only drops entries of the left operand … -/
theorem widenStd_sat_left (l r : Mat N) (v : Fin N → Int) (h : l.sat v) : (widenStd l r).sat v :=
  fun i j k hk => h i j k (widenStd_some hk).1

/-- … and every entry it keeps is above the entry of the right operand -/
theorem widenStd_sat_right (l r : Mat N) (v : Fin N → Int) (h : r.sat v) : (widenStd l r).sat v := by
  intro i j k hk
  obtain ⟨_, k', h1, h2⟩ := widenStd_some hk
  have := h i j k' h1
  omega

/-- an entry of `l` not covered by `r` is dropped: the number of finite entries decreases -/
theorem edges_widenStd_lt {l r : Mat N} {i j : Fin N} (h : W.le (r.get i j) (l.get i j) = false) :
    Zones.edges (widenStd l r) < Zones.edges l := by
  have hl : (l.get i j).isSome = true := by
    cases hx : l.get i j with
    | none => rw [hx, W.le_none] at h; cases h
    | some k => rfl
  unfold Zones.edges
  apply Zones.countP_lt_of_imp _ _ _ _ (i, j) (Zones.mem_allPairs i j)
  · exact hl
  · simp [widenStd, h]
  · intro p hp
    cases hg : (widenStd l r).get p.1 p.2 with
    | none => rw [hg] at hp; cases hp
    | some k => rw [(widenStd_some hg).1]; rfl

end Mat
end Dbm
end Crab
