import CrabProofs.Lemmas.DbmIncrPass1

/-!
  The second loop of `close_over_edge` (successors `de` of `jj`), immediate form `p2I`:
  invariant and postcondition (mirror image of `DbmIncrPass1.lean`).
-/
namespace Crab
namespace DbmIncr
open Dbm Zones

variable {n : Nat}

theorem Snd.path2V' {G Tf Tv g : Zone n} (hr : Ref Tf Tv) (h : Snd G Tf Tv g) {a k b : Fin (n + 1)}
    {x y : Int} (ha : a ≠ 0) (hk : k ≠ 0) (hb : b ≠ 0)
    (hx : W.LE (edge Tv a k) (some x)) (hy : edge g k b = some y) : W.LE (edge Tv a b) (some (x + y)) := by
  have h1 := h.abV k b hk hb
  rw [hy] at h1
  have := W.LE_trans (hr.triV a k b ha hk hb) (W.add_mono hx h1)
  simpa using this

/-- immediate form of `pass2Step` -/
def p2I (inl : Bool) (ii jj : Fin (n + 1)) (c : Int) (st : ISt n) (de : Fin (n + 1)) : ISt n :=
  if de = 0 ∨ de = jj then st else
  match edge st.1 jj de with
  | none => st
  | some ev =>
    if de = ii then st else
    if W.le (edge st.1 ii de) (some (ev + c)) = true then st else
    let g1 := relax st.1 ii (ev + c) de
    (if inl then closeBounds g1 ii de (ev + c) else g1, st.2 ++ [(de, ev)])

section
variable (inl : Bool) (G Tf Tv : Zone n) (ii jj : Fin (n + 1)) (c : Int)

/-- invariant of the second loop -/
structure I2 (st : ISt n) : Prop where
  snd : Snd G Tf Tv st.1
  intoI : ∀ x, edge st.1 x ii = edge G x ii
  outJ : ∀ x, edge st.1 jj x = edge G jj x
  decS : ∀ p ∈ st.2, p.1 ≠ 0 ∧ p.1 ≠ ii ∧ p.1 ≠ jj ∧ edge G jj p.1 = some p.2
  unt : ∀ x, x ≠ 0 → edge st.1 ii x = edge G ii x ∨ ∃ ev, (x, ev) ∈ st.2
  bnd : inl = false → ∀ x, edge st.1 0 x = edge G 0 x ∧ edge st.1 x 0 = edge G x 0
  ubJ : ∀ p ∈ st.2, W.LE (edge st.1 ii p.1) (some (p.2 + c))
  ubS : inl = true → ∀ p ∈ st.2, ∀ x, edge G 0 ii = some x →
    W.LE (edge st.1 0 p.1) (some (x + (p.2 + c)))

/-- postcondition for the vertex `de`: recorded in `dest_dec` unless `ii → de` was short enough -/
def P2 (de : Fin (n + 1)) (st : ISt n) : Prop :=
  ∀ dv, de ≠ 0 → de ≠ ii → de ≠ jj → edge G jj de = some dv →
    (de, dv) ∈ st.2 ∨ W.LE (edge G ii de) (some (dv + c))

end

variable {inl : Bool} {G Tf Tv : Zone n} {ii jj : Fin (n + 1)} {c : Int}

theorem P2_stable (de : Fin (n + 1)) (s s' : ISt n) (h : P2 G ii jj c de s) (hle : ISt.le s' s) :
    P2 G ii jj c de s' := by
  intro ev h0 h1 h2 h3
  rcases h ev h0 h1 h2 h3 with h | h
  · exact Or.inl (hle.2 _ h)
  · exact Or.inr h

theorem p2I_step (hr : Ref Tf Tv) (hi : ii ≠ 0) (hj : jj ≠ 0) (hij : ii ≠ jj)
    (hc : edge G ii jj = some c) (st : ISt n) (de : Fin (n + 1)) (h : I2 inl G Tf Tv ii jj c st) :
    I2 inl G Tf Tv ii jj c (p2I inl ii jj c st de) ∧ ISt.le (p2I inl ii jj c st de) st ∧
      P2 G ii jj c de (p2I inl ii jj c st de) := by
  unfold p2I
  by_cases h0 : de = 0 ∨ de = jj
  · simp only [h0, if_true]
    refine ⟨h, ISt.le_refl _, ?_⟩
    intro ev a1 _ a3 _
    rcases h0 with h0 | h0
    · exact absurd h0 a1
    · exact absurd h0 a3
  simp only [h0, if_false]
  have hd0 : de ≠ 0 := fun e => h0 (Or.inl e)
  have hdj : de ≠ jj := fun e => h0 (Or.inr e)
  rcases hev : edge st.1 jj de with _ | ev0
  · simp only
    refine ⟨h, ISt.le_refl _, ?_⟩
    intro ev _ _ _ a4
    rw [← h.outJ, hev] at a4; cases a4
  simp only
  have hevG : edge G jj de = some ev0 := by rw [← h.outJ]; exact hev
  by_cases hdi : de = ii
  · simp only [hdi, if_true]
    refine ⟨h, ISt.le_refl _, ?_⟩
    intro ev _ a2 _ _
    exact absurd rfl a2
  simp only [hdi, if_false]
  by_cases hg : W.le (edge st.1 ii de) (some (ev0 + c)) = true
  · simp only [hg, if_true]
    refine ⟨h, ISt.le_refl _, ?_⟩
    intro ev _ _ _ a4
    rw [hevG] at a4; cases a4
    rcases h.unt de hd0 with hu | ⟨ev', hu⟩
    · right; rw [← hu]; exact (W.le_iff _ _).1 hg
    · left
      have := (h.decS _ hu).2.2.2
      simp only at this
      rw [hevG] at this; cases this
      exact hu
  simp only [hg]
  have hcur : edge st.1 ii jj = some c := by
    rcases h.unt jj hj with hu | ⟨ev', hu⟩
    · rw [hu]; exact hc
    · exact absurd rfl (h.decS _ hu).2.2.1
  have hTfE : W.LE (edge Tf ii jj) (some c) := h.snd.edgeF hcur
  have hTvE : W.LE (edge Tv ii jj) (some c) := h.snd.edgeV hi hj hcur
  have hF : W.LE (edge Tf ii de) (some (ev0 + c)) := by
    have := h.snd.path2F' hr hTfE hev; rwa [Int.add_comm] at this
  have hV : W.LE (edge Tv ii de) (some (ev0 + c)) := by
    have := h.snd.path2V' hr hi hj hd0 hTvE hev; rwa [Int.add_comm] at this
  have hid : ii ≠ de := fun e => hdi e.symm
  have s1 : Snd G Tf Tv (relax st.1 ii (ev0 + c) de) := h.snd.relax hid hF (fun _ _ => hV)
  have key : ∀ g2 : Zone n, Snd G Tf Tv g2 → Dec g2 (relax st.1 ii (ev0 + c) de) →
      (∀ x y, ¬ (x = 0 ∧ y = de) → ¬ (x = ii ∧ y = 0) →
        edge g2 x y = edge (relax st.1 ii (ev0 + c) de) x y) →
      (inl = false → g2 = relax st.1 ii (ev0 + c) de) →
      (inl = true → ∀ x, edge (relax st.1 ii (ev0 + c) de) 0 ii = some x →
        W.LE (edge g2 0 de) (some (x + (ev0 + c)))) →
      I2 inl G Tf Tv ii jj c (g2, st.2 ++ [(de, ev0)]) ∧ ISt.le (g2, st.2 ++ [(de, ev0)]) st ∧
        P2 G ii jj c de (g2, st.2 ++ [(de, ev0)]) := by
    intro g2 s2 d2 fr2 hb2 hu2
    have dd : Dec g2 st.1 := Dec.trans d2 (relax_dec _ _ _ _)
    have fr : ∀ x y, ¬ (x = 0 ∧ y = de) → ¬ (x = ii ∧ y = 0) → ¬ (x = ii ∧ y = de) →
        edge g2 x y = edge st.1 x y := by
      intro x y a1 a2 a3
      rw [fr2 x y a1 a2, edge_relax_ne _ _ a3]
    refine ⟨⟨s2, ?_, ?_, ?_, ?_, ?_, ?_, ?_⟩, ⟨dd, fun p hp => List.mem_append_left _ hp⟩, ?_⟩
    · intro x
      rw [fr x ii (fun e => hdi e.2.symm) (fun e => hi e.2) (fun e => hdi e.2.symm)]
      exact h.intoI x
    · intro x
      rw [fr jj x (fun e => hj e.1) (fun e => hij e.1.symm) (fun e => hij e.1.symm)]
      exact h.outJ x
    · intro p hp
      rcases List.mem_append.1 hp with hp | hp
      · exact h.decS p hp
      · simp only [List.mem_singleton] at hp
        subst hp
        exact ⟨hd0, hdi, hdj, hevG⟩
    · intro x hx
      by_cases hxd : x = de
      · subst hxd
        exact Or.inr ⟨ev0, List.mem_append_right _ (List.mem_singleton.2 rfl)⟩
      · rw [fr ii x (fun e => hi e.1) (fun e => hx e.2) (fun e => hxd e.2)]
        rcases h.unt x hx with hu | ⟨ev', hu⟩
        · exact Or.inl hu
        · exact Or.inr ⟨ev', List.mem_append_left _ hu⟩
    · intro hf x
      rw [hb2 hf, edge_relax_ne _ _ (fun e => hi e.1.symm), edge_relax_ne _ _ (fun e => hd0 e.2.symm)]
      exact h.bnd hf x
    · intro p hp
      rcases List.mem_append.1 hp with hp | hp
      · exact W.LE_trans (dd _ _) (h.ubJ p hp)
      · simp only [List.mem_singleton] at hp
        subst hp
        exact W.LE_trans (d2 _ _) (relax_le_val _ _ _ _)
    · intro ht p hp x hx
      rcases List.mem_append.1 hp with hp | hp
      · exact W.LE_trans (dd _ _) (h.ubS ht p hp x hx)
      · simp only [List.mem_singleton] at hp
        subst hp
        apply hu2 ht x
        rw [edge_relax_ne _ _ (fun e => hi e.1.symm), h.intoI 0]
        exact hx
    · intro ev _ _ _ a4
      rw [hevG] at a4; cases a4
      exact Or.inl (List.mem_append_right _ (List.mem_singleton.2 rfl))
  cases inl with
  | false =>
    simp only [Bool.false_eq_true, if_false]
    exact key _ s1 (Dec.refl _) (fun _ _ _ _ => rfl) (fun _ => rfl) (fun e => by cases e)
  | true =>
    simp only [if_true]
    refine key _ (s1.closeBounds hr hi hd0 hF) (closeBounds_dec _ _ _ _)
      (fun x y a1 a2 => closeBounds_frame _ _ _ _ a1 a2) (fun e => by cases e) ?_
    intro _ x hx
    exact closeBounds_ub0 _ _ hi hx

/-- the second loop: invariant, descent, and every vertex of the enumeration is postconditioned -/
theorem p2I_fold (hr : Ref Tf Tv) (hi : ii ≠ 0) (hj : jj ≠ 0) (hij : ii ≠ jj)
    (hc : edge G ii jj = some c) (vs : List (Fin (n + 1))) (st : ISt n)
    (h : I2 inl G Tf Tv ii jj c st) :
    I2 inl G Tf Tv ii jj c (vs.foldl (p2I inl ii jj c) st) ∧
      ISt.le (vs.foldl (p2I inl ii jj c) st) st ∧
      ∀ de ∈ vs, P2 G ii jj c de (vs.foldl (p2I inl ii jj c) st) :=
  foldl_post (p2I inl ii jj c) (I2 inl G Tf Tv ii jj c) ISt.le (P2 G ii jj c) ISt.le_refl
    ISt.le_trans (fun s a hs => p2I_step hr hi hj hij hc s a hs) P2_stable vs st h

end DbmIncr
end Crab
