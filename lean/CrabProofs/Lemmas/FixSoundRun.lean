import CrabProofs.Lemmas.FixSoundMain

/-!
# From components to `run` (C01, engine part)

* the components in front of the one containing the start block are skipped and keep their
  tables; from the component containing the start block on, `skip` is off;
* the global collecting semantics is contained in the least solution of the region formed by
  the components that are not skipped (nothing flows back into the skipped ones, nothing is
  reachable outside the ordering).
-/
namespace Crab
namespace Fix
namespace Sound

variable {A S : Type}

theorem nodesList_append : ∀ K R : List Comp, nodesList (K ++ R) = nodesList K ++ nodesList R
  | [], R => by simp [nodesList]
  | x :: K, R => by simp [nodesList, nodesList_append K R]

theorem ListOK.no_back_append {c : Ctx A} : ∀ K R : List Comp, ListOK c (K ++ R) →
    ∀ p n, p ∈ c.preds n → n ∈ nodesList K → p ∈ nodesList R → False
  | [], _, _ => by simp [nodesList]
  | x :: K, R, hok => by
      intro p n hpn hn hp
      simp only [List.cons_append, ListOK] at hok
      simp only [nodesList, List.mem_append] at hn
      rcases hn with hn | hn
      · exact hok.2.2 p n hpn hn (by rw [nodesList_append]; exact List.mem_append.2 (Or.inr hp))
      · exact ListOK.no_back_append K R hok.2.1 p n hpn hn hp

theorem ListOK.suffix {c : Ctx A} : ∀ K R : List Comp, ListOK c (K ++ R) → ListOK c R
  | [], _, h => h
  | x :: K, R, h => by
      simp only [List.cons_append, ListOK] at h
      exact ListOK.suffix K R h.2.1

/-- a skipped component: nothing happens -/
theorem visitComp_skipped (c : Ctx A) (fuel : Nat) (st : St A) (x : Comp)
    (hs : st.skip = true) (hm : x.member c.entry = false) :
    visitComp c (fuel + 1) st x = some st := by
  cases x with
  | vertex v =>
    have hv : (v == c.entry) = false := by simpa [Comp.member] using hm
    simp [visitComp, visitVertex, hs, hv]
  | cycle h B =>
    simp [visitComp, hs, hm]

/-- the component containing the start block: visited as if `skip` were off -/
theorem visitComp_enter (c : Ctx A) (fuel : Nat) (st : St A) (x : Comp)
    (hs : st.skip = true) (hm : x.member c.entry = true) :
    visitComp c fuel st x = visitComp c fuel { st with skip := false } x := by
  cases fuel with
  | zero => simp [visitComp]
  | succ fuel =>
    cases x with
    | vertex v =>
      have hv : (v == c.entry) = true := by simpa [Comp.member] using hm
      simp [visitComp, visitVertex, hs, hv]
    | cycle h B =>
      simp [visitComp, hs, hm]

/-- top level: split of the ordering into the skipped prefix and the analysed rest -/
theorem visitList_top (c : Ctx A) (sem : Sem c S) : ∀ (w : List Comp) (fuel : Nat) (st st' : St A),
    visitList c fuel st w = some st' → st.skip = true → c.entry ∈ nodesList w →
    ListOK c w → (nodesList w).Nodup →
    ∃ K R, w = K ++ R ∧ c.entry ∈ nodesList R ∧ VisitGood c sem (nodesList R) st st'
  | [], _, _, _, _, _, he, _, _ => by simp [nodesList] at he
  | x :: xs, 0, _, _, H, _, _, _, _ => by simp [visitList] at H
  | x :: xs, fuel + 1, st, st', H, hs, he, hok, hnd => by
      cases hm : x.member c.entry with
      | false =>
        have hex : c.entry ∉ x.nodes := fun h => by
          rw [(Comp.member_iff c.entry x).2 h] at hm; exact Bool.noConfusion hm
        simp only [nodesList, List.mem_append] at he
        have he' : c.entry ∈ nodesList xs := he.resolve_left hex
        cases fuel with
        | zero => simp [visitList, visitComp] at H
        | succ fuel =>
          simp only [visitList, visitComp_skipped c fuel st x hs hm] at H
          simp only [ListOK] at hok
          simp only [nodesList] at hnd
          obtain ⟨K, R, hw, heR, hG⟩ := visitList_top c sem xs (fuel + 1) st st' H hs he' hok.2.1
            (List.nodup_append.1 hnd).2.1
          exact ⟨x :: K, R, by simp [hw], heR, hG⟩
      | true =>
        have H' : visitList c (fuel + 1) { st with skip := false } (x :: xs) = some st' := by
          simp only [visitList] at H ⊢
          rw [← visitComp_enter c fuel st x hs hm]; exact H
        have hG := (visit_all c sem (fuel + 1)).2.1 _ (x :: xs) st' H' rfl hok hnd
        exact ⟨[], x :: xs, rfl, he, hG⟩

/-- the collecting semantics is inside the least solution of a suffix of the ordering that
    contains the start block -/
theorem reach_in_region (c : Ctx A) (sem : Sem c S) (K R : List Comp) (E : Nat → S → Prop)
    (hok : ListOK c (K ++ R))
    (hclosed : ∀ p n, p ∈ c.preds n → p ∈ nodesList (K ++ R) → n ∈ nodesList (K ++ R))
    (he : c.entry ∈ nodesList R) :
    (∀ n s, ReachPre c sem n s → LPre c sem (nodesList R) E n s) ∧
    (∀ n s', ReachPost c sem n s' → ∃ s, LPre c sem (nodesList R) E n s ∧ sem.step n s s') := by
  have key : ∀ n s (t : ReachPre c sem n s), LPre c sem (nodesList R) E n s := by
    intro n s t
    refine ReachPre.rec (motive_1 := fun n s _ => LPre c sem (nodesList R) E n s)
      (motive_2 := fun n s' _ => ∃ s, LPre c sem (nodesList R) E n s ∧ sem.step n s s')
      ?_ ?_ ?_ t
    · intro s h1 h2
      exact .init s he h1 h2
    · intro p n s hpn _ ha ih
      obtain ⟨s0, hL, hs⟩ := ih
      have hpR : p ∈ nodesList R := hL.mem
      have hpw : p ∈ nodesList (K ++ R) := by
        rw [nodesList_append]; exact List.mem_append.2 (Or.inr hpR)
      have hnw := hclosed p n hpn hpw
      rw [nodesList_append] at hnw
      rcases List.mem_append.1 hnw with hn | hn
      · exact (ListOK.no_back_append K R hok p n hpn hn hpR).elim
      · exact .flow p n s0 s hn hpR hpn hL hs ha
    · intro n s s' _ hs ih
      exact ⟨s, ih, hs⟩
  refine ⟨key, ?_⟩
  intro n s' t
  cases t with
  | step n s s' hpre hs => exact ⟨s, key n s hpre, hs⟩

/-- soundness of `run`; of `WtoWF` only the four clauses below are used (the nesting table,
    which only influences the first candidate invariant of a cycle head, is irrelevant) -/
theorem run_sound_core (c : Ctx A) (w : List Comp) (sem : Sem c S) (fuel : Nat) (st : St A)
    (hnodup : (nodesList w).Nodup)
    (hclosed : ∀ p n, p ∈ c.preds n → p ∈ nodesList w → n ∈ nodesList w)
    (hedge : ∀ p n, p ∈ c.preds n → p ∈ nodesList w → n ∈ nodesList w →
      pos w p < pos w n ∨ n ∈ headsOfList p w)
    (hentry : c.entry ∈ nodesList w)
    (hrun : run c fuel w = some st) :
    (∀ n s, ReachPre c sem n s → sem.γ (st.pre n) s) ∧
    (∀ n s, ReachPost c sem n s → sem.γ (st.post n) s) := by
  have hok : ListOK c w := LWF.listOK w ⟨hnodup, hedge⟩
  unfold run at hrun
  obtain ⟨K, R, hw, heR, hG⟩ := visitList_top c sem w fuel _ st hrun rfl hentry hok hnodup
  subst hw
  have hR := reach_in_region c sem K R
    (Ext sem { pre := upd (fun _ => c.ops.bot) c.entry c.init, post := fun _ => c.ops.bot,
               skip := true })
    hok hclosed heR
  constructor
  · intro n s hr
    exact (hG.2 n s (hR.1 n s hr)).1
  · intro n s' hr
    obtain ⟨s, hL, hs⟩ := hR.2 n s' hr
    exact (hG.2 n s hL).2 s' hs

theorem run_sound_of (c : Ctx A) (w : List Comp) : RunSound c w :=
  fun _ sem fuel st hwf hrun =>
    run_sound_core c w sem fuel st hwf.nodup hwf.closed hwf.edge hwf.entry_mem hrun

end Sound
end Fix
end Crab
