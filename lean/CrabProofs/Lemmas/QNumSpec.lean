import CrabModel.Num.QNum

/-! `q_number`: `round_to_lower` / `round_to_upper` are floor and ceiling on pairs with a positive
    denominator; the arithmetic operators return canonical pairs denoting the exact result. -/
namespace Crab.QNum

/-! ### rounding on the raw pair -/

/-- truncating quotient and remainder by a positive divisor in terms of floor division -/
theorem tdiv_tmod_pos (n d : Int) (hd : 0 < d) :
    (n % d = 0 ∨ 0 ≤ n → n.tdiv d = n / d ∧ n.tmod d = n % d) ∧
    (¬ (n % d = 0 ∨ 0 ≤ n) → n.tdiv d = n / d + 1 ∧ n.tmod d = n % d - d) := by
  have T := @Int.tdiv_eq_ediv n d
  have M := @Int.tmod_eq_emod n d
  have hs : d.sign = 1 := Int.sign_eq_one_of_pos hd
  have hn : (d.natAbs : Int) = d := Int.natAbs_of_nonneg (by omega)
  constructor
  · intro h
    have hC : 0 ≤ n ∨ d ∣ n := by
      rcases h with h | h
      · exact Or.inr (Int.dvd_of_emod_eq_zero h)
      · exact Or.inl h
    rw [if_pos hC] at T M
    exact ⟨by omega, by simpa using M⟩
  · intro h
    have hC : ¬ (0 ≤ n ∨ d ∣ n) := by
      rintro (h' | h')
      · exact h (Or.inr h')
      · exact h (Or.inl (Int.emod_eq_zero_of_dvd h'))
    rw [if_neg hC] at T M
    rw [hs] at T
    rw [hn] at M
    exact ⟨T, M⟩

theorem roundToLower_pos (q : QNum) (hd : 0 < q.den) : roundToLower q = some (q.num / q.den) := by
  obtain ⟨n, d⟩ := q
  simp only at hd
  have hd0 : d ≠ 0 := by omega
  have hq : ZNum.div? n d = some (n.tdiv d) := by simp [ZNum.div?, hd0]
  have hr : ZNum.rem? n d = some (n.tmod d) := by simp [ZNum.rem?, hd0]
  have hg : (gtZero ⟨n, d⟩ = true) ↔ 0 < n := by simp [gtZero]
  have h1 : 0 ≤ n % d := Int.emod_nonneg n hd0
  have h2 : n % d < d := Int.emod_lt_of_pos n hd
  obtain ⟨k1, k2⟩ := tdiv_tmod_pos n d hd
  unfold roundToLower
  simp only [hq, hr]
  by_cases hc : n.tmod d = 0 ∨ gtZero ⟨n, d⟩ = true
  · rw [if_pos hc]
    congr 1
    by_cases hm : n % d = 0 ∨ 0 ≤ n
    · exact (k1 hm).1
    · exfalso
      obtain ⟨_, e2⟩ := k2 hm
      rcases hc with hc | hc
      · omega
      · have := hg.1 hc; omega
  · rw [if_neg hc]
    congr 1
    by_cases hm : n % d = 0 ∨ 0 ≤ n
    · exfalso
      obtain ⟨_, e2⟩ := k1 hm
      apply hc
      rcases hm with hm | hm
      · exact Or.inl (by omega)
      · rcases Int.lt_or_eq_of_le hm with h | h
        · exact Or.inr (hg.2 h)
        · left; rw [e2, ← h]; simp
    · have := (k2 hm).1; omega

theorem roundToUpper_pos (q : QNum) (hd : 0 < q.den) :
    roundToUpper q = some (-((-q.num) / q.den)) := by
  obtain ⟨n, d⟩ := q
  simp only at hd
  have hd0 : d ≠ 0 := by omega
  have hq : ZNum.div? n d = some (n.tdiv d) := by simp [ZNum.div?, hd0]
  have hr : ZNum.rem? n d = some (n.tmod d) := by simp [ZNum.rem?, hd0]
  have hg : (ltZero ⟨n, d⟩ = true) ↔ n < 0 := by simp [ltZero]
  have h1 : 0 ≤ n % d := Int.emod_nonneg n hd0
  have h2 : n % d < d := Int.emod_lt_of_pos n hd
  obtain ⟨k1, k2⟩ := tdiv_tmod_pos n d hd
  -- -((-n)/d) in terms of n/d and n%d
  have hneg : -((-n) / d) = if n % d = 0 then n / d else n / d + 1 := by
    have e1 := Int.emod_add_mul_ediv n d
    split
    · next hz =>
      have : (-n) / d = -(n / d) := by
        have := (Int.ediv_emod_unique (a := -n) (q := -(n / d)) (r := 0) hd).2
          ⟨by rw [Int.mul_neg]; omega, by omega, hd⟩
        exact this.1
      omega
    · next hnz =>
      have : (-n) / d = -(n / d) - 1 := by
        have := (Int.ediv_emod_unique (a := -n) (q := -(n / d) - 1) (r := d - n % d) hd).2
          ⟨by rw [Int.mul_sub, Int.mul_neg]; omega, by omega, by omega⟩
        exact this.1
      omega
  unfold roundToUpper
  simp only [hq, hr]
  show (if n.tmod d = 0 ∨ ltZero ⟨n, d⟩ = true then some (n.tdiv d) else some (n.tdiv d + 1))
    = some (-((-n) / d))
  rw [hneg]
  by_cases hc : n.tmod d = 0 ∨ ltZero ⟨n, d⟩ = true
  · rw [if_pos hc]
    congr 1
    by_cases hm : n % d = 0 ∨ 0 ≤ n
    · obtain ⟨e1, e2⟩ := k1 hm
      have hz : n % d = 0 := by
        rcases hc with hc | hc
        · omega
        · have := hg.1 hc
          rcases hm with hm | hm
          · exact hm
          · omega
      rw [if_pos hz]; exact e1
    · obtain ⟨e1, e2⟩ := k2 hm
      have hz : ¬ n % d = 0 := fun h => hm (Or.inl h)
      rw [if_neg hz]; exact e1
  · rw [if_neg hc]
    congr 1
    by_cases hm : n % d = 0 ∨ 0 ≤ n
    · obtain ⟨e1, e2⟩ := k1 hm
      have hz : ¬ n % d = 0 := fun h => hc (Or.inl (by omega))
      rw [if_neg hz, e1]
    · exfalso
      apply hc
      right
      apply hg.2
      by_cases h : n < 0
      · exact h
      · exact absurd (Or.inr (by omega)) hm

theorem roundToLower_none_iff (q : QNum) : roundToLower q = none ↔ q.den = 0 := by
  unfold roundToLower ZNum.div? ZNum.rem?
  by_cases h : q.den = 0
  · simp [h]
  · simp only [h, if_false, iff_false]
    split <;> simp

theorem roundToUpper_none_iff (q : QNum) : roundToUpper q = none ↔ q.den = 0 := by
  unfold roundToUpper ZNum.div? ZNum.rem?
  by_cases h : q.den = 0
  · simp [h]
  · simp only [h, if_false, iff_false]
    split <;> simp

/-! ### floor and ceiling of `Rat` on a fraction with positive denominator -/

theorem intCast_le_divInt (x n d : Int) (hd : 0 < d) : (x : Rat) ≤ Rat.divInt n d ↔ x * d ≤ n := by
  rw [Rat.le_iff_sub_nonneg]
  have hx : (x : Rat) = Rat.divInt x 1 := by
    have := Rat.num_divInt_den (x : Rat)
    simpa using this.symm
  rw [hx, Rat.divInt_sub_divInt _ _ (by omega) (by decide),
    Rat.divInt_nonneg_iff_of_pos_right (by omega)]
  simp only [Int.mul_one]
  omega

theorem floor_divInt (n d : Int) (hd : 0 < d) : (Rat.divInt n d).floor = n / d := by
  apply Int.le_antisymm
  · have h : ((Rat.divInt n d).floor : Rat) ≤ Rat.divInt n d := Rat.floor_le _
    rw [intCast_le_divInt _ _ _ hd] at h
    exact Int.le_ediv_of_mul_le hd h
  · rw [Rat.le_floor_iff, intCast_le_divInt _ _ _ hd]
    exact Int.ediv_mul_le n (by omega)

theorem ceil_divInt (n d : Int) (hd : 0 < d) : (Rat.divInt n d).ceil = -((-n) / d) := by
  rw [Rat.ceil_eq_neg_floor_neg, Rat.neg_divInt, floor_divInt _ _ hd]

theorem roundToLower_floor (q : QNum) (hd : 0 < q.den) : roundToLower q = some q.toRat.floor := by
  rw [roundToLower_pos q hd, toRat, floor_divInt _ _ hd]

theorem roundToUpper_ceil (q : QNum) (hd : 0 < q.den) : roundToUpper q = some q.toRat.ceil := by
  rw [roundToUpper_pos q hd, toRat, ceil_divInt _ _ hd]

/-! ### arithmetic -/

theorem toRat_ofRat (r : Rat) : toRat (ofRat r) = r := by
  simp [toRat, ofRat]

theorem canonical_ofRat (r : Rat) : (ofRat r).Canonical := by
  refine ⟨by simp [ofRat]; exact Nat.pos_of_ne_zero r.den_nz, ?_⟩
  simpa [ofRat] using r.reduced

theorem canon_ok {q : QNum} (h : q.den ≠ 0) :
    ∃ c, canon q = .ok c ∧ c.Canonical ∧ c.toRat = q.toRat := by
  refine ⟨ofRat q.toRat, by simp [canon, h], canonical_ofRat _, toRat_ofRat _⟩

/-! ### the constructor `q_number(num, den)` -/

theorem mk?_none_iff (n d : Int) : mk? n d = none ↔ d = 0 := by
  unfold mk?; split <;> simp_all

/-- on a non-zero denominator (of either sign) the constructor stores the canonical pair that
    denotes `n / d` -/
theorem mk?_spec (n d : Int) (h : d ≠ 0) :
    ∃ q, mk? n d = some q ∧ q.Canonical ∧ q.toRat = Rat.divInt n d :=
  ⟨ofRat (Rat.divInt n d), by simp [mk?, h, toRat], canonical_ofRat _, toRat_ofRat _⟩

theorem roundToLower_mk (n d : Int) (h : d ≠ 0) :
    ∃ q, mk? n d = some q ∧ roundToLower q = some (Rat.divInt n d).floor := by
  obtain ⟨q, h1, h2, h3⟩ := mk?_spec n d h
  exact ⟨q, h1, by rw [roundToLower_floor q h2.1, h3]⟩

theorem roundToUpper_mk (n d : Int) (h : d ≠ 0) :
    ∃ q, mk? n d = some q ∧ roundToUpper q = some (Rat.divInt n d).ceil := by
  obtain ⟨q, h1, h2, h3⟩ := mk?_spec n d h
  exact ⟨q, h1, by rw [roundToUpper_ceil q h2.1, h3]⟩

/-- `operator+`, `-`, `*` on operands GMP accepts: a canonical pair denoting the exact result -/
theorem bin_spec (f : Rat → Rat → Rat) (a b : QNum) (ha : 0 < a.den) (hb : b.den ≠ 0) :
    ∃ r, bin f a b = .ok r ∧ r.Canonical ∧ r.toRat = f a.toRat b.toRat := by
  have ha0 : a.den ≠ 0 := by omega
  have hna : ¬ a.den ≤ 0 := by omega
  refine ⟨ofRat (f a.toRat b.toRat), ?_, canonical_ofRat _, toRat_ofRat _⟩
  simp [bin, copyThis, canon, hna, ha0, hb, toRat_ofRat]

theorem binAssign_spec (f : Rat → Rat → Rat) (a b : QNum) (ha : a.den ≠ 0) (hb : b.den ≠ 0) :
    ∃ r, binAssign f a b = .ok r ∧ r.Canonical ∧ r.toRat = f a.toRat b.toRat := by
  refine ⟨ofRat (f a.toRat b.toRat), ?_, canonical_ofRat _, toRat_ofRat _⟩
  simp [binAssign, canon, ha, hb, toRat_ofRat]

theorem num_ofRat_eq_zero (r : Rat) : (ofRat r).num = 0 ↔ r = 0 := by
  simp [ofRat, Rat.num_eq_zero]

/-- `operator/`: CRAB_ERROR exactly on a zero divisor, otherwise the exact quotient -/
theorem div_spec (a b : QNum) (ha : 0 < a.den) (hb : b.den ≠ 0) :
    (b.toRat = 0 → div a b = .err) ∧
    (b.toRat ≠ 0 → ∃ r, div a b = .ok r ∧ r.Canonical ∧ r.toRat = a.toRat / b.toRat) := by
  have ha0 : a.den ≠ 0 := by omega
  have hna : ¬ a.den ≤ 0 := by omega
  constructor
  · intro hz
    simp [div, copyThis, canon, hna, ha0, hb, eqZero, num_ofRat_eq_zero, hz]
  · intro hnz
    refine ⟨ofRat (a.toRat / b.toRat), ?_, canonical_ofRat _, toRat_ofRat _⟩
    simp [div, copyThis, canon, hna, ha0, hb, eqZero, num_ofRat_eq_zero, hnz, toRat_ofRat]

end Crab.QNum
