import CrabProofs.Lemmas.FunctorFlatBoolLat

/-!
A small lawful instance of the interface of `flat_boolean_numerical_domain`'s functor model, used for
counterexamples, non-vacuity and the regression examples of `Props/C03FlatBool.lean`:

* constraints `C0`: `x ≥ k`, `x < k`, `true`, `false` over variables `Nat`;
* base domain `N0`: a value is the list of the constraints asserted so far (γ = their conjunction),
  join / widening forget everything, meet / narrowing concatenate, `+=` conses.
-/
set_option linter.unusedSectionVars false
set_option linter.unusedSimpArgs false

namespace Crab
namespace Dom
namespace Fct
namespace FBInst

inductive C0 where
  | ge (x : Nat) (k : Int)
  | lt (x : Nat) (k : Int)
  | tru
  | fls
  deriving DecidableEq, Repr

def C0.holds : C0 → (Nat → Int) → Prop
  | .ge x k, s => k ≤ s x
  | .lt x k, s => s x < k
  | .tru, _ => True
  | .fls, _ => False

def C0.vars : C0 → List Nat
  | .ge x _ => [x]
  | .lt x _ => [x]
  | _ => []

def C0.negate : C0 → C0
  | .ge x k => .lt x k
  | .lt x k => .ge x k
  | .tru => .fls
  | .fls => .tru

def K0 : CSig Nat where
  C := C0
  deq := inferInstance
  holds := C0.holds
  vars := C0.vars
  negate := C0.negate
  isTaut := fun c => c == .tru
  isContra := fun c => c == .fls
  frame := by
    intro c s s' h
    cases c <;> simp [C0.holds, C0.vars] at h ⊢ <;> rw [h]
  negate_holds := by
    intro c s
    cases c <;> simp [C0.holds, C0.negate] <;> omega
  negate_vars := by intro c v; cases c <;> simp [C0.vars, C0.negate]
  taut_holds := by intro c s h; cases c <;> simp_all [C0.holds]
  contra_holds := by intro c s h; cases c <;> simp_all [C0.holds]

def γ0 (b : List C0) (s : CSt Nat) : Prop := ∀ c ∈ b, C0.holds c s.num

def N0 : BNDom Nat K0 where
  B := List C0
  γ := γ0
  top := []
  bot := [.fls]
  isBot := fun b => b.contains .fls
  isTop := fun b => b.isEmpty
  leq := fun a b => b.all (fun c => a.contains c)
  join := fun _ _ => []
  meet := fun a b => a ++ b
  widen := fun _ _ => []
  narrow := fun a b => a ++ b
  top_sound := by intro s c hc; cases hc
  bot_sound := by intro s h; exact h .fls (by simp)
  isBot_sound := by
    intro b s h hg
    exact hg .fls (by simpa [List.contains_iff_mem] using h)
  leq_sound := by
    intro a b s h hg c hc
    simp only [List.all_eq_true] at h
    exact hg c (by simpa [List.contains_iff_mem] using h c hc)
  join_l := by intro a b s _ c hc; cases hc
  join_r := by intro a b s _ c hc; cases hc
  widen_l := by intro a b s _ c hc; cases hc
  widen_r := by intro a b s _ c hc; cases hc
  meet_sound := by
    intro a b s ha hb c hc
    rcases List.mem_append.1 hc with h | h
    · exact ha c h
    · exact hb c h
  narrow_sound := by
    intro a b s ha hb c hc
    rcases List.mem_append.1 hc with h | h
    · exact ha c h
    · exact hb c h
  addCst := fun b c => c :: b
  addCst_sound := by
    intro b c s hg hc c' hc'
    rcases List.mem_cons.1 hc' with h | h
    · subst h; exact hc
    · exact hg c' h
  entails := fun b c => b.contains c
  entails_sound := by
    intro b c s h hg
    exact hg c (List.contains_iff_mem.1 h)
  isZero := fun _ _ => false
  isZero_sound := by intro b v s h; cases h
  nonZero := fun _ _ => false
  nonZero_sound := by intro b v s h; cases h
  assignK := fun b x k => .ge x k :: .lt x (k + 1) :: b.filter (fun c => !c.vars.contains x)
  assignK_sound := by
    intro b x k s hg c hc
    simp only [List.mem_cons, List.mem_filter] at hc
    rcases hc with rfl | rfl | ⟨h1, h2⟩
    · simp [C0.holds, CSt.setN]
    · simp only [C0.holds, CSt.setN, if_true]; omega
    · have := hg c h1
      have hx : ∀ v ∈ c.vars, v ≠ x := by
        intro v hv e; subst e
        simp [List.contains_iff_mem, hv] at h2
      exact (K0.frame c _ _ (fun v hv => by simp [CSt.setN, hx v hv])).2 this

/-- the base forgets what it knows about `x` (a sound transformer for every statement that only
    redefines `x`) -/
def fforget (x : Nat) (b : List C0) : List C0 := b.filter (fun c => !c.vars.contains x)

theorem fforget_sound (x : Nat) (r : CSt Nat → CSt Nat → Prop) (hd : FBN.DefinesNum x r) :
    N0.TSound (fforget x) r := by
  intro (b : List C0) s s' hg hr c hc
  obtain ⟨k, rfl⟩ := hd s s' hr
  have hc : c ∈ b ∧ (!c.vars.contains x) = true := by simpa [fforget, List.mem_filter] using hc
  have hx : ∀ v ∈ c.vars, v ≠ x := by
    intro v hv e; subst e
    have := hc.2
    simp [List.contains_iff_mem, hv] at this
  exact (K0.frame c _ _ (fun v hv => by simp [CSt.setN, hx v hv])).2 (hg c hc.1)

/-- the base ignores the Boolean statements (its values only talk about numbers) -/
theorem id_sound_bool (x : Nat) (P : CSt Nat → Bool → Prop) : N0.TSound id (FBN.RelB x P) := by
  rintro b s s' hg ⟨v, _, rfl⟩
  exact hg

theorem id_sound_filter (r : CSt Nat → CSt Nat → Prop) (hr : FBN.Filters r) : N0.TSound id r := by
  intro b s s' hg h
  rw [hr s s' h]; exact hg

theorem ignoresBool (dst : Nat) : FBN.IgnoresBool N0 dst := fun _ _ _ h => h

theorem n0_meetLower : N0.MeetLower := by
  intro (a : List C0) (b : List C0) s h
  exact ⟨fun c hc => h c (List.mem_append.2 (Or.inl hc)), fun c hc => h c (List.mem_append.2 (Or.inr hc))⟩

theorem n0_topSound : N0.TopSound := by
  intro (b : List C0) s h c hc
  have : b = [] := List.isEmpty_iff.1 h
  subst this; cases hc

abbrev St0 := FBN N0

end FBInst
end Fct
end Dom
end Crab
