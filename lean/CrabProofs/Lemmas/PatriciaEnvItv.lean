import CrabProofs.Lemmas.PatriciaItv

/-! `separate_domain<Key, interval<z_number>>`: the tree-level results of
    `PatriciaSepDom.lean` read through `at(k)` (total maps with default top). -/
set_option linter.unusedSimpArgs false

namespace Crab
open Patricia Patricia.Tree

/-- the environments of the interval domain -/
abbrev IEnv := SepDom Itv

/-- invariant of an interval environment -/
def EnvInv (e : IEnv) : Prop := SepDom.Inv StoredItv e

/-- the oracles of an interval environment: any pointer-equality oracle, `operator==` of
    intervals as `ValueEqual` -/
def itvCtx (pe : Tree Itv → Tree Itv → Bool) : Ctx Itv := ⟨pe, Itv.beq⟩

/-- the pointer-equality oracle answers yes only on structurally equal trees -/
def PtrSound (pe : Tree Itv → Tree Itv → Bool) : Prop := ∀ a b, pe a b = true → a = b

theorem itvCtx_sound {pe : Tree Itv → Tree Itv → Bool} (h : PtrSound pe) : (itvCtx pe).SoundOn StoredItv :=
  ⟨h, fun _ _ hy hxy => Itv.beq_sound hy.2.1 hxy⟩

namespace IEnv
open SepDom

local notation "IL" => itvLattice

/-- `at` through the bindings -/
theorem atKey_eq (e : IEnv) (k : Nat) :
    atKey IL e k = if e.isBot then Itv.bot else (e.tree.lookup k).getD Itv.top := by
  unfold atKey
  split
  · rfl
  · cases e.tree.lookup k <;> rfl

/-- what `at` returns on a non-bottom environment: a stored value or top -/
theorem atKey_cases {e : IEnv} (he : EnvInv e) (ne : e.isBot = false) (k : Nat) :
    (∃ x, e.tree.lookup k = some x ∧ atKey IL e k = x ∧ StoredItv x) ∨
    (e.tree.lookup k = none ∧ atKey IL e k = Itv.top) := by
  rw [atKey_eq, ne]
  cases hl : e.tree.lookup k with
  | none => exact Or.inr ⟨rfl, rfl⟩
  | some x => exact Or.inl ⟨x, rfl, rfl, he.1.val_of_lookup hl⟩

theorem atKey_not_bottom {e : IEnv} (he : EnvInv e) (ne : e.isBot = false) (k : Nat) :
    (atKey IL e k).isBottom = false := by
  rcases atKey_cases he ne k with ⟨x, _, e1, hx⟩ | ⟨_, e1⟩
  · rw [e1]; exact hx.2.1
  · rw [e1]; exact Itv.isBottom_top

theorem atKey_wf {e : IEnv} (he : EnvInv e) (ne : e.isBot = false) (k : Nat) : (atKey IL e k).WF := by
  rcases atKey_cases he ne k with ⟨x, _, e1, hx⟩ | ⟨_, e1⟩
  · rw [e1]; exact hx.2.2
  · rw [e1]; exact ⟨by simp [Itv.top], by simp [Itv.top]⟩

theorem atKey_bottom {e : IEnv} (h : e.isBot = true) (k : Nat) : atKey IL e k = Itv.bot := by
  rw [atKey_eq, h]; rfl

/-! ### join, widening -/

theorem join_wf {x y : Itv} (hx : StoredItv x) (hy : StoredItv y) : (Itv.join x y).WF := by
  rw [Itv.join_eq hx.2.1 hy.2.1]
  constructor
  · rcases Bound.min_eq_or x.lb y.lb with e | e <;> simp only [e]
    · exact hx.2.2.1
    · exact hy.2.2.1
  · rcases Bound.max_eq_or x.ub y.ub with e | e <;> simp only [e]
    · exact hx.2.2.2
    · exact hy.2.2.2

theorem widen_wf {x y : Itv} (hx : StoredItv x) (hy : StoredItv y) : (Itv.widen x y).WF := by
  rw [Itv.widen_eq hx.2.1 hy.2.1]
  constructor
  · simp only; split
    · simp
    · exact hx.2.2.1
  · simp only; split
    · simp
    · exact hx.2.2.2

/-- generic "upper" operation on interval environments, at the level of `at` -/
theorem upper_at {pe : Tree Itv → Tree Itv → Bool} (hpe : PtrSound pe) {f : Itv → Itv → Itv}
    (hpres : ∀ x y, StoredItv x → StoredItv y → (f x y).isTop = false → StoredItv (f x y))
    (hwf : ∀ x y, StoredItv x → StoredItv y → (f x y).WF)
    (hidem : ∀ x, StoredItv x → f x x = x)
    (hbl : ∀ y : Itv, f Itv.bot y = y) (hbr : ∀ x : Itv, x.isBottom = false → f x Itv.bot = x)
    (htl : ∀ y : Itv, y.isBottom = false → f Itv.top y = Itv.top)
    (htr : ∀ x : Itv, x.isBottom = false → x.WF → f x Itv.top = Itv.top)
    {a b : IEnv} (ha : EnvInv a) (hb : EnvInv b) :
    EnvInv (upper (itvCtx pe) IL f a b) ∧ ∀ k, atKey IL (upper (itvCtx pe) IL f a b) k = f (atKey IL a k) (atKey IL b k) := by
  cases na : a.isBot
  · cases nb : b.isBot
    · obtain ⟨hi, hnb, hl⟩ := upper_spec (L := IL) (f := f) (itvCtx_sound hpe) hpres hidem
        (fun x hx => hx.1) ha hb na nb
      refine ⟨hi, fun k => ?_⟩
      rw [atKey_eq, hnb, hl]
      simp only [Bool.false_eq_true, if_false]
      rcases atKey_cases ha na k with ⟨x, l1, e1, hx⟩ | ⟨l1, e1⟩ <;>
        rcases atKey_cases hb nb k with ⟨y, l2, e2, hy⟩ | ⟨l2, e2⟩ <;> rw [l1, l2, e1, e2] <;> simp only
      · split
        · rename_i ht
          exact (Itv.eq_top_of_isTop ht (hwf x y hx hy)).symm
        · rfl
      · exact (htr x hx.2.1 hx.2.2).symm
      · exact (htl y hy.2.1).symm
      · exact (htl _ Itv.isBottom_top).symm
    · have e0 : upper (itvCtx pe) IL f a b = a := by unfold upper; simp [na, nb]
      rw [e0]
      refine ⟨ha, fun k => ?_⟩
      rw [atKey_bottom nb, hbr _ (atKey_not_bottom ha na k)]
  · have e0 : upper (itvCtx pe) IL f a b = b := by unfold upper; simp [na]
    rw [e0]
    refine ⟨hb, fun k => ?_⟩
    rw [atKey_bottom na, hbl]

theorem join_bot_left (y : Itv) : Itv.join Itv.bot y = y := by simp [Itv.join, Itv.isBottom_bot]
theorem join_bot_right {x : Itv} (h : x.isBottom = false) : Itv.join x Itv.bot = x := by
  simp [Itv.join, h, Itv.isBottom_bot]
theorem widen_bot_left (y : Itv) : Itv.widen Itv.bot y = y := by simp [Itv.widen, Itv.isBottom_bot]
theorem widen_bot_right {x : Itv} (h : x.isBottom = false) : Itv.widen x Itv.bot = x := by
  simp [Itv.widen, h, Itv.isBottom_bot]

theorem join_at {pe : Tree Itv → Tree Itv → Bool} (hpe : PtrSound pe) {a b : IEnv} (ha : EnvInv a) (hb : EnvInv b) :
    EnvInv (SepDom.join (itvCtx pe) IL a b) ∧
      ∀ k, atKey IL (SepDom.join (itvCtx pe) IL a b) k = Itv.join (atKey IL a k) (atKey IL b k) :=
  upper_at hpe (fun _ _ => Itv.join_pres) (fun _ _ => join_wf) (fun _ => Itv.join_idem)
    join_bot_left (fun _ => join_bot_right) (fun _ => Itv.join_top_left) (fun _ h _ => Itv.join_top_right h) ha hb

theorem widen_at {pe : Tree Itv → Tree Itv → Bool} (hpe : PtrSound pe) {a b : IEnv} (ha : EnvInv a) (hb : EnvInv b) :
    EnvInv (SepDom.widen (itvCtx pe) IL a b) ∧
      ∀ k, atKey IL (SepDom.widen (itvCtx pe) IL a b) k = Itv.widen (atKey IL a k) (atKey IL b k) :=
  upper_at hpe (fun _ _ => Itv.widen_pres) (fun _ _ => widen_wf) (fun _ => Itv.widen_idem)
    widen_bot_left (fun _ => widen_bot_right) (fun _ => Itv.widen_top_left) (fun _ => Itv.widen_top_right) ha hb

/-! ### meet, narrowing -/

theorem lower_at {pe : Tree Itv → Tree Itv → Bool} (hpe : PtrSound pe) {g : Itv → Itv → Itv}
    (hpres : ∀ x y, StoredItv x → StoredItv y → (g x y).isBottom = false → StoredItv (g x y))
    (hidem : ∀ x, StoredItv x → g x x = x)
    (hbot : ∀ x y : Itv, (x.isBottom || y.isBottom) = true → (g x y).isBottom = true)
    (htl : ∀ y : Itv, StoredItv y → g Itv.top y = y)
    (htr : ∀ x : Itv, x.isBottom = false → g x Itv.top = x)
    {a b : IEnv} (ha : EnvInv a) (hb : EnvInv b) :
    EnvInv (lower (itvCtx pe) IL g a b) ∧
    ((lower (itvCtx pe) IL g a b).isBot = true ↔ ∃ k, (g (atKey IL a k) (atKey IL b k)).isBottom = true) ∧
    ((lower (itvCtx pe) IL g a b).isBot = false →
      ∀ k, atKey IL (lower (itvCtx pe) IL g a b) k = g (atKey IL a k) (atKey IL b k)) := by
  by_cases nab : a.isBot = false ∧ b.isBot = false
  · obtain ⟨na, nb⟩ := nab
    obtain ⟨hi, hiff, hl⟩ := lower_spec (L := IL) (g := g) (itvCtx_sound hpe) hpres hidem
      (fun x hx => hx.2.1) ha hb na nb
    -- value of g on the two `at`s
    have hval : ∀ k, g (atKey IL a k) (atKey IL b k) =
        match a.tree.lookup k, b.tree.lookup k with
        | some x, some y => g x y
        | some x, none => x
        | none, some y => y
        | none, none => Itv.top := by
      intro k
      rcases atKey_cases ha na k with ⟨x, l1, e1, hx⟩ | ⟨l1, e1⟩ <;>
        rcases atKey_cases hb nb k with ⟨y, l2, e2, hy⟩ | ⟨l2, e2⟩ <;> rw [l1, l2, e1, e2] <;> simp only
      · exact htr x hx.2.1
      · exact htl y hy
      · exact htr _ Itv.isBottom_top
    refine ⟨hi, ?_, ?_⟩
    · rw [hiff]
      constructor
      · rintro ⟨k, x, y, l1, l2, hbq⟩
        refine ⟨k, ?_⟩
        rw [hval, l1, l2]; exact hbq
      · rintro ⟨k, hk⟩
        rw [hval] at hk
        cases l1 : a.tree.lookup k <;> cases l2 : b.tree.lookup k <;> rw [l1, l2] at hk <;> simp only at hk
        · rw [Itv.isBottom_top] at hk; cases hk
        · rename_i y
          have := (hb.1.val_of_lookup l2).2.1
          rw [this] at hk; cases hk
        · rename_i x
          have := (ha.1.val_of_lookup l1).2.1
          rw [this] at hk; cases hk
        · rename_i x y
          exact ⟨k, x, y, l1, l2, hk⟩
    · intro hnb k
      rw [atKey_eq, hnb, hl hnb, hval]
      simp only [Bool.false_eq_true, if_false]
      cases l1 : a.tree.lookup k <;> cases l2 : b.tree.lookup k <;> rfl
  · have e0 : lower (itvCtx pe) IL g a b = bottom := by
      unfold lower
      cases na : a.isBot <;> cases nb : b.isBot <;> simp_all
    rw [e0]
    refine ⟨inv_bottom, ?_, fun h => by cases h⟩
    constructor
    · intro _
      refine ⟨0, hbot _ _ ?_⟩
      cases na : a.isBot
      · cases nb : b.isBot
        · exact absurd ⟨na, nb⟩ nab
        · rw [atKey_bottom nb]; simp [Itv.isBottom_bot]
      · rw [atKey_bottom na]; simp [Itv.isBottom_bot]
    · intro _; rfl

theorem meet_bot (x y : Itv) (h : (x.isBottom || y.isBottom) = true) : (Itv.meet x y).isBottom = true := by
  unfold Itv.meet; rw [if_pos h]; exact Itv.isBottom_bot
theorem narrow_bot (x y : Itv) (h : (x.isBottom || y.isBottom) = true) : (Itv.narrow x y).isBottom = true := by
  unfold Itv.narrow; rw [if_pos h]; exact Itv.isBottom_bot

theorem meet_at {pe : Tree Itv → Tree Itv → Bool} (hpe : PtrSound pe) {a b : IEnv} (ha : EnvInv a) (hb : EnvInv b) :
    EnvInv (SepDom.meet (itvCtx pe) IL a b) ∧
    ((SepDom.meet (itvCtx pe) IL a b).isBot = true ↔ ∃ k, (Itv.meet (atKey IL a k) (atKey IL b k)).isBottom = true) ∧
    ((SepDom.meet (itvCtx pe) IL a b).isBot = false →
      ∀ k, atKey IL (SepDom.meet (itvCtx pe) IL a b) k = Itv.meet (atKey IL a k) (atKey IL b k)) :=
  lower_at hpe (fun _ _ => Itv.meet_pres) (fun _ => Itv.meet_idem) meet_bot
    (fun _ hy => Itv.meet_top_left hy.2.1) (fun _ => Itv.meet_top_right) ha hb

theorem narrow_at {pe : Tree Itv → Tree Itv → Bool} (hpe : PtrSound pe) {a b : IEnv} (ha : EnvInv a) (hb : EnvInv b) :
    EnvInv (SepDom.narrow (itvCtx pe) IL a b) ∧
    ((SepDom.narrow (itvCtx pe) IL a b).isBot = true ↔ ∃ k, (Itv.narrow (atKey IL a k) (atKey IL b k)).isBottom = true) ∧
    ((SepDom.narrow (itvCtx pe) IL a b).isBot = false →
      ∀ k, atKey IL (SepDom.narrow (itvCtx pe) IL a b) k = Itv.narrow (atKey IL a k) (atKey IL b k)) :=
  lower_at hpe (fun _ _ => Itv.narrow_pres) (fun _ => Itv.narrow_idem) narrow_bot
    (fun _ hy => Itv.narrow_top_left hy) (fun _ => Itv.narrow_top_right) ha hb

/-! ### inclusion -/

theorem pwLe_iff_at {a b : IEnv} (ha : EnvInv a) (hb : EnvInv b) (na : a.isBot = false) (nb : b.isBot = false) :
    PwLe (domainPO IL) true a.tree b.tree ↔ ∀ k, Itv.leq (atKey IL a k) (atKey IL b k) = true := by
  have key : ∀ k, rel (domainPO IL) true (a.tree.lookup k) (b.tree.lookup k) =
      Itv.leq (atKey IL a k) (atKey IL b k) := by
    intro k
    rcases atKey_cases ha na k with ⟨x, l1, e1, hx⟩ | ⟨l1, e1⟩ <;>
      rcases atKey_cases hb nb k with ⟨y, l2, e2, hy⟩ | ⟨l2, e2⟩ <;> rw [l1, l2, e1, e2]
    · rfl
    · simp only [rel, leO, domainPO, if_true]; exact (Itv.leq_top x).symm
    · simp only [rel, leO, domainPO, if_true, Bool.not_true]; exact (Itv.leq_top_left hy).symm
    · simp only [rel, leO, if_true]; exact (Itv.leq_top _).symm
  unfold PwLe
  constructor
  · intro h k; rw [← key]; exact h k
  · intro h k; rw [key]; exact h k

/-- the repaired `operator<=` is the pointwise order of the `at` values, bottoms included -/
theorem leq_fixed_at {pe : Tree Itv → Tree Itv → Bool} (hpe : PtrSound pe) {a b : IEnv}
    (ha : EnvInv a) (hb : EnvInv b) :
    SepDom.leq true (itvCtx pe) IL a b = true ↔ ∀ k, Itv.leq (atKey IL a k) (atKey IL b k) = true := by
  cases na : a.isBot
  · cases nb : b.isBot
    · rw [leq_spec (itvCtx_sound hpe) (fun x _ => Itv.leq_refl x) ha hb na nb, pwLe_iff_at ha hb na nb]
    · rw [leq_bottom_right true na nb]
      simp only [Bool.false_eq_true, false_iff]
      intro h
      have := h 0
      rw [atKey_bottom nb] at this
      have hn := atKey_not_bottom ha na 0
      simp [Itv.leq, hn, Itv.isBottom_bot] at this
  · rw [leq_bottom_left true na]
    simp only [true_iff]
    intro k
    rw [atKey_bottom na]; exact Itv.bot_leq _

/-- the current `operator<=` never misses an inclusion -/
theorem leq_complete_at (fxd : Bool) {pe : Tree Itv → Tree Itv → Bool} (hpe : PtrSound pe) {a b : IEnv}
    (ha : EnvInv a) (hb : EnvInv b) (h : ∀ k, Itv.leq (atKey IL a k) (atKey IL b k) = true) :
    SepDom.leq fxd (itvCtx pe) IL a b = true := by
  cases na : a.isBot
  · cases nb : b.isBot
    · exact leq_complete fxd (itvCtx_sound hpe) (fun x _ => Itv.leq_refl x) ha hb na nb
        ((pwLe_iff_at ha hb na nb).mpr h)
    · exfalso
      have := (leq_fixed_at hpe ha hb).mpr h
      rw [leq_bottom_right true na nb] at this; cases this
  · exact leq_bottom_left fxd na

/-! ### point updates, iteration -/

theorem forget_at {pe : Tree Itv → Tree Itv → Bool} (hpe : PtrSound pe) {e : IEnv} (he : EnvInv e)
    {k : Nat} (hk : k < 2 ^ 64) :
    EnvInv (forget (itvCtx pe) e k) ∧ (forget (itvCtx pe) e k).isBot = e.isBot ∧
      (e.isBot = false → ∀ k', atKey IL (forget (itvCtx pe) e k) k' = if k' = k then Itv.top else atKey IL e k') := by
  obtain ⟨hi, hb, hl⟩ := forget_spec (itvCtx_sound hpe) he hk
  refine ⟨hi, hb, fun ne k' => ?_⟩
  rw [atKey_eq, atKey_eq, hb, ne, hl]
  by_cases e1 : k' = k <;> simp [e1]

/-- `set(k, v)`: bottom when the environment or the value is bottom, otherwise the binding
    of `k` becomes `v` (a top `v` removes it) and nothing else changes -/
theorem set_at {pe : Tree Itv → Tree Itv → Bool} (hpe : PtrSound pe) {e : IEnv} (he : EnvInv e)
    {k : Nat} (hk : k < 2 ^ 64) {v : Itv} (hv : v.isBottom = true ∨ v.WF) :
    EnvInv (set (itvCtx pe) IL e k v) ∧
    ((set (itvCtx pe) IL e k v).isBot = (e.isBot || v.isBottom)) ∧
    ((set (itvCtx pe) IL e k v).isBot = false →
      ∀ k', atKey IL (set (itvCtx pe) IL e k v) k' = if k' = k then v else atKey IL e k') := by
  cases ne : e.isBot
  · cases hvb : v.isBottom
    · have hw : v.WF := by
        rcases hv with h | h
        · rw [hvb] at h; cases h
        · exact h
      cases hvt : v.isTop
      · have hs : StoredItv v := ⟨hvt, hvb, hw⟩
        obtain ⟨hi, hb, hl⟩ := set_spec_stored (L := IL) (itvCtx_sound hpe) he ne hk hs hvb hvt
        refine ⟨hi, by simpa using hb, fun _ k' => ?_⟩
        rw [atKey_eq, atKey_eq, hb, ne, hl]
        by_cases e1 : k' = k <;> simp [e1]
      · obtain ⟨hi, hb, hl⟩ := set_spec_top (L := IL) (itvCtx_sound hpe) he ne hk hvb hvt
        refine ⟨hi, by simpa using hb, fun _ k' => ?_⟩
        rw [atKey_eq, atKey_eq, hb, ne, hl]
        have := Itv.eq_top_of_isTop hvt hw
        by_cases e1 : k' = k <;> simp [e1, this]
    · rw [set_bottom_val (L := IL) ne hvb]
      exact ⟨inv_bottom, by simp [bottom], fun h => by cases h⟩
  · rw [set_of_bottom ne]
    exact ⟨he, by simp [ne], fun h => by rw [ne] at h; cases h⟩

/-- iteration over a non-bottom environment: strictly increasing keys, and `(k, v)` is
    listed exactly when `at(k) = v` and `v` is not top -/
theorem bindings_spec {e : IEnv} (he : EnvInv e) (ne : e.isBot = false) :
    ∃ l, bindings e = some l ∧ (l.map Prod.fst).Pairwise (· < ·) ∧
      ∀ k v, (k, v) ∈ l ↔ (atKey IL e k = v ∧ v.isTop = false) := by
  refine ⟨e.tree.toList, by simp [bindings, ne, iterate_eq_toList he.1.ne], he.1.keys_sorted, fun k v => ?_⟩
  rw [mem_toList_iff_lookup he.1]
  constructor
  · intro hl
    rw [atKey_eq, ne, hl]
    exact ⟨rfl, (he.1.val_of_lookup hl).1⟩
  · intro ⟨h1, h2⟩
    rcases atKey_cases he ne k with ⟨x, l1, e1, _⟩ | ⟨_, e1⟩
    · rw [l1, ← e1, h1]
    · rw [e1] at h1; rw [← h1] at h2; rw [Itv.isTop_top] at h2; cases h2

theorem project_at {pe : Tree Itv → Tree Itv → Bool} (hpe : PtrSound pe) {e : IEnv} (he : EnvInv e)
    (ne : e.isBot = false) {keys : List Nat} (hkeys : ∀ k ∈ keys, k < 2 ^ 64) :
    EnvInv (project (itvCtx pe) IL e keys) ∧ (project (itvCtx pe) IL e keys).isBot = false ∧
      ∀ k', atKey IL (project (itvCtx pe) IL e keys) k' = if k' ∈ keys then atKey IL e k' else Itv.top := by
  obtain ⟨hi, hb, hl⟩ := project_spec (L := IL) (itvCtx_sound hpe) (fun x hx => hx.1) (fun x hx => hx.2.1)
    Itv.isTop_top Itv.isBottom_top he ne hkeys
  refine ⟨hi, hb, fun k' => ?_⟩
  rw [atKey_eq, atKey_eq, hb, ne, hl]
  by_cases e1 : k' ∈ keys <;> simp [e1]

theorem isTop_iff {e : IEnv} (he : EnvInv e) : e.isTop = true ↔ (e.isBot = false ∧ ∀ k, atKey IL e k = Itv.top) := by
  unfold SepDom.isTop
  cases ne : e.isBot
  · simp only [Bool.not_false, Bool.true_and, beq_iff_eq, true_and]
    constructor
    · intro hsz k
      have : e.tree = .empty := by
        cases ht : e.tree with
        | empty => rfl
        | leaf k v => rw [ht] at hsz; simp [Tree.size] at hsz
        | node p m l r =>
          exfalso
          rw [ht] at hsz
          have hw := he.1; rw [ht] at hw
          obtain ⟨⟨k1, hk1⟩, _⟩ := hw.node_keys
          have h0 : 0 < l.toList.length := by
            obtain ⟨v, hv⟩ := mem_keys_iff_toList.mp hk1
            exact List.length_pos_of_mem hv
          simp only [Tree.size] at hsz
          have := size_eq_length l
          omega
      rw [atKey_eq, ne, this]; rfl
    · intro h
      cases ht : e.tree with
      | empty => rfl
      | leaf k v =>
        exfalso
        have hw := he.1; rw [ht] at hw
        have := h k
        rw [atKey_eq, ne, ht] at this
        simp at this
        have h2 := hw.2.1
        rw [this, Itv.isTop_top] at h2; cases h2
      | node p m l r =>
        exfalso
        obtain ⟨k1, hk1⟩ := he.1.exists_key (by rw [ht]; simp)
        obtain ⟨v, hv⟩ := (mem_keys_iff_lookup he.1).mp hk1
        have := h k1
        rw [atKey_eq, ne, hv] at this
        simp at this
        have h2 := (he.1.val_of_lookup hv).1
        rw [this, Itv.isTop_top] at h2; cases h2
  · simp

end IEnv
end Crab
