import CrabProofs.Lemmas.DbmIncrAssign2

/-!
  `closeAfterAssign_exact`: `close_after_assign(g, potential, 0, delta); apply_delta(g, delta)`
  restores the split normal form from a graph whose edges among variables are closed.
-/
namespace Crab
namespace DbmIncr
open Dbm Zones

variable {n : Nat}

theorem closeAfterAssign_exact (adjF adjB vs : List (Fin (n + 1))) (hF : ∀ x, x ∈ adjF)
    (hB : ∀ x, x ∈ adjB) (hvs : ∀ x, x ∈ vs) {g : Zone n} (hv : VarNF g) (hb : isBottom g = false) :
    let r := closeAfterAssign adjF adjB vs g 0
    SplitNF r ∧ (∀ v, r.sat v ↔ g.sat v) ∧ ∀ s d, s ≠ 0 → d ≠ 0 → edge r s d = edge g s d := by
  intro r
  obtain ⟨eF, eB, eV, e00⟩ := closeAfterAssign_edges adjF adjB vs hvs g hv.noLoop
  have cF := closedWithout_fwd hv
  have cB := closedWithout_bwd hv
  obtain ⟨lowF, up1F, up2F⟩ := cafFwd_spec cF adjF vs hF hvs
  obtain ⟨lowB, up1B, up2B⟩ := cafFwd_spec cB adjB vs hB hvs
  generalize cafFwd (fun s d => edge g s d) adjF vs 0 = df at *
  generalize cafFwd (fun s d => edge g d s) adjB vs 0 = db at *
  have rF : ∀ x, x ≠ 0 → edge r 0 x = df x := by
    intro x hx
    rw [eF x hx]
    rcases hk : df x with _ | k
    · have := up1F x hx; rw [hk] at this
      rcases hg : edge g 0 x with _ | y
      · rfl
      · rw [hg] at this; simp at this
    · rfl
  have rB : ∀ x, x ≠ 0 → edge r x 0 = db x := by
    intro x hx
    rw [eB x hx]
    rcases hk : db x with _ | k
    · have := up1B x hx; rw [hk] at this
      rcases hg : edge g x 0 with _ | y
      · rfl
      · rw [hg] at this; simp at this
    · rfl
  have hdec : ∀ a b, W.LE (edge r a b) (edge g a b) := by
    intro a b
    by_cases ha : a = 0
    · subst ha
      by_cases hb' : b = 0
      · subst hb'; rw [e00]; rw [show edge g 0 0 = none from hv.noLoop 0]; exact W.LE_refl _
      · rw [rF b hb']; exact up1F b hb'
    · by_cases hb' : b = 0
      · subst hb'; rw [rB a ha]; exact up1B a ha
      · rw [eV a b ha hb']; exact W.LE_refl _
  have habove : ∀ a b, W.LE (edge (close g) a b) (edge r a b) := by
    intro a b
    by_cases ha : a = 0
    · subst ha
      by_cases hb' : b = 0
      · subst hb'; rw [e00]; exact W.LE_none _
      · rw [rF b hb']
        rcases hk : df b with _ | k
        · exact W.LE_none _
        · exact caf_above hb (lowF b k hb' hk)
    · by_cases hb' : b = 0
      · subst hb'; rw [rB a ha]
        rcases hk : db a with _ | k
        · exact W.LE_none _
        · exact caf_above' hb (lowB a k ha hk)
      · rw [eV a b ha hb']; exact edge_close_LE g a b
  have cT := Zones.close_closed hb
  have hloop : NoSelfLoop r := by
    intro a
    by_cases ha : a = 0
    · subst ha; exact e00
    · show edge r a a = none
      rw [eV a a ha ha]; exact hv.noLoop a
  refine ⟨⟨hloop, ?_⟩, ?_, eV⟩
  · intro i j k hk
    simp only [zdiag_get]
    have ab : ∀ a b, W.LE ((close g).get a b) (r.get a b) := fun a b => habove b a
    by_cases hik : i = k
    · subst hik; simp only [if_true]; rw [W.zero_add]; exact W.LE_refl _
    by_cases hkj : k = j
    · subst hkj; simp only [if_true]; rw [W.add_zero]; exact W.LE_refl _
    simp only [hik, hkj, if_false]
    by_cases hij : i = j
    · subst hij
      simp only [if_true]
      have := W.LE_trans (cT.tri i i k) (W.add_mono (ab i k) (ab k i))
      rw [cT.diag] at this
      exact this
    simp only [hij, if_false]
    by_cases hj0 : j = 0
    · -- the edge `0 → i` against `0 → k → i`
      subst hj0
      have hi0 : i ≠ 0 := hij
      show W.LE (edge r 0 i) (W.add (edge r k i) (edge r 0 k))
      rw [rF i hi0, rF k hk, eV k i hk hi0, W.add_comm]
      exact caf_tri cF lowF up1F up2F hk hi0 (fun e => hik e.symm)
    by_cases hi0 : i = 0
    · -- the edge `j → 0` against `j → k → 0`
      subst hi0
      show W.LE (edge r j 0) (W.add (edge r k 0) (edge r j k))
      rw [rB j hj0, rB k hk, eV j k hj0 hk]
      exact caf_tri cB lowB up1B up2B hk hj0 hkj
    · show W.LE (edge r j i) (W.add (edge r k i) (edge r j k))
      rw [eV j i hj0 hi0, eV k i hk hi0, eV j k hj0 hk, W.add_comm]
      exact hv.tri_edge hj0 hk hi0 (fun e => hij e.symm)
  · intro v
    constructor
    · exact Mat.sat_of_LE (fun a b => hdec b a)
    · intro h
      exact Mat.sat_of_LE (fun a b => habove b a) ((Mat.fw_sat g v).2 h)

end DbmIncr
end Crab
