import CrabProofs.Lemmas.RelDomOct

/-!
  The operations of `CrabModel/Dom/OctagonOps.lean`, part 2: coherence (`m i j = m j̄ ī`) is an
  invariant of every operation, and on coherent matrices every statement is the EXACT post-image,
  the inclusion / bottom / top tests are exact and the join is the least upper bound
  (from the tight-closure completeness lemmas of C12, `Lemmas/OctExact.lean`).
-/
namespace Crab
namespace Octagon
open Dbm

variable {n : Nat}

/-! ### coherence is preserved -/

theorem forgetAll_coherent (xs : List (Fin n)) (o : Oct n) (h : Coherent o) : Coherent (forgetAll o xs) := by
  induction xs generalizing o with
  | nil => exact h
  | cons x xs ih => rw [forgetAll_cons]; exact ih _ (forget_coherent o x h)

theorem project_coherent (keep : List (Fin n)) (o : Oct n) (h : Coherent o) : Coherent (project o keep) :=
  forgetAll_coherent _ o h

theorem shiftVec_bar (x : Fin n) (k : Int) (i : Fin (2 * n)) : shiftVec x k (bar i) = - shiftVec x k i := by
  have hpn := pos_ne_neg x
  by_cases h1 : i = pos x
  · subst h1; rw [bar_pos]; simp [shiftVec, hpn.symm]
  · by_cases h2 : i = neg x
    · subst h2; rw [bar_neg]; simp [shiftVec, hpn.symm]
    · have h3 : bar i ≠ pos x := fun e => h2 (by rw [← bar_bar i, e, bar_pos])
      have h4 : bar i ≠ neg x := fun e => h1 (by rw [← bar_bar i, e, bar_neg])
      simp [shiftVec, h1, h2, h3, h4]

theorem shiftBy_coherent (o : Oct n) (d : Fin (2 * n) → Int) (hd : ∀ i, d (bar i) = - d i)
    (h : Coherent o) : Coherent (o.shiftBy d) := by
  intro i j
  simp only [Mat.shiftBy, Mat.get_ofFn]
  rw [h i j, hd i, hd j]
  congr 2; omega

theorem negate_coherent (o : Oct n) (x : Fin n) (h : Coherent o) : Coherent (negate o x) := by
  intro i j
  simp only [negate, Mat.permute, Mat.get_ofFn]
  rw [swapLit_bar, swapLit_bar]
  exact h _ _

theorem assignCst_coherent (o : Oct n) (x : Fin n) (k : Int) (h : Coherent o) : Coherent (assignCst o x k) :=
  assumeAll_coherent _ _ (forget_coherent o x h)

theorem assignVar_coherent (o : Oct n) (x y : Fin n) (k : Int) (h : Coherent o) :
    Coherent (assignVar o x y k) := by
  unfold assignVar
  split
  · exact shiftBy_coherent o _ (shiftVec_bar x k) h
  · exact assumeAll_coherent _ _ (forget_coherent o x h)

theorem assignNeg_coherent (o : Oct n) (x y : Fin n) (k : Int) (h : Coherent o) :
    Coherent (assignNeg o x y k) := by
  unfold assignNeg
  split
  · exact shiftBy_coherent _ _ (shiftVec_bar x k) (negate_coherent o x h)
  · exact assumeAll_coherent _ _ (forget_coherent o x h)

theorem Stmt.exec_coherent (st : Stmt n) (o : Oct n) (h : Coherent o) : Coherent (st.exec o) := by
  cases st with
  | assume cs => exact assumeAll_coherent o cs h
  | assignCst x k => exact assignCst_coherent o x k h
  | assignVar x y k => exact assignVar_coherent o x y k h
  | assignNeg x y k => exact assignNeg_coherent o x y k h
  | havoc x => exact forget_coherent o x h
  | forget xs => exact forgetAll_coherent xs o h
  | project keep => exact project_coherent keep o h

theorem widenStd_coherent (l c : Oct n) (hl : Coherent l) (hc : Coherent c) : Coherent (Mat.widenStd l c) := by
  intro i j
  simp only [Mat.widenStd, Mat.get_ofFn]
  rw [hl i j, hc i j]

/-! ### exactness on coherent matrices -/

theorem forgetAll_exact (xs : List (Fin n)) (o : Oct n) (hco : Coherent o) (σ' : State n) :
    γ (forgetAll o xs) σ' ↔ ∃ σ, γ o σ ∧ ∀ y, y ∉ xs → σ' y = σ y := by
  constructor
  · intro h
    induction xs generalizing o with
    | nil => exact ⟨σ', h, fun _ _ => rfl⟩
    | cons x xs ih =>
      rw [forgetAll_cons] at h
      obtain ⟨σ1, h1, e1⟩ := ih (forget o x) (forget_coherent o x hco) h
      obtain ⟨t, ht⟩ := (forget_exact o hco x σ1).1 h1
      refine ⟨updS σ1 x t, ht, fun y hy => ?_⟩
      have hy' : y ≠ x ∧ y ∉ xs := by simpa using hy
      rw [e1 y hy'.2]; simp [updS, hy'.1]
  · rintro ⟨σ, h, hσ⟩
    exact forgetAll_sound xs o σ σ' h hσ

theorem project_exact (keep : List (Fin n)) (o : Oct n) (hco : Coherent o) (σ' : State n) :
    γ (project o keep) σ' ↔ ∃ σ, γ o σ ∧ ∀ y, y ∈ keep → σ' y = σ y := by
  unfold project
  rw [forgetAll_exact _ o hco]
  constructor
  · rintro ⟨σ, h, e⟩
    exact ⟨σ, h, fun y hy => e y ((not_mem_projList keep y).2 hy)⟩
  · rintro ⟨σ, h, e⟩
    exact ⟨σ, h, fun y hy => e y ((not_mem_projList keep y).1 hy)⟩

theorem assignCst_exact (o : Oct n) (hco : Coherent o) (x : Fin n) (k : Int) (σ' : State n) :
    γ (assignCst o x k) σ' ↔ ∃ σ, γ o σ ∧ σ' = updS σ x k := by
  constructor
  · unfold assignCst
    rw [assumeAll_exact, forget_exact o hco]
    rintro ⟨⟨t, ht⟩, hc⟩
    have h1 := hc (.ub x k) (by simp)
    have h2 := hc (.lb x (-k)) (by simp)
    simp only [Cst.sat] at h1 h2
    refine ⟨updS σ' x t, ht, ?_⟩
    rw [updS_updS]
    funext y; unfold updS; split
    · rename_i e; rw [e]; omega
    · rfl
  · rintro ⟨σ, h, rfl⟩; exact assignCst_sound o x k σ h

theorem assignVar_exact (o : Oct n) (hco : Coherent o) (x y : Fin n) (k : Int) (σ' : State n) :
    γ (assignVar o x y k) σ' ↔ ∃ σ, γ o σ ∧ σ' = updS σ x (σ y + k) := by
  constructor
  · unfold assignVar
    split
    · rename_i e; subst e
      rw [shift_γ]
      intro h
      refine ⟨_, h, ?_⟩
      rw [updS_updS]
      funext v; unfold updS; split
      · rename_i e; rw [e]; simp
      · rfl
    · rename_i hne
      have hyx : y ≠ x := fun e => hne e.symm
      rw [assumeAll_exact, forget_exact o hco]
      rintro ⟨⟨t, ht⟩, hc⟩
      have h1 := hc (.diff x y k) (by simp)
      have h2 := hc (.diff y x (-k)) (by simp)
      simp only [Cst.sat] at h1 h2
      refine ⟨updS σ' x t, ht, ?_⟩
      rw [updS_updS]
      funext v
      by_cases e : v = x
      · rw [e]; simp [updS, hyx]; omega
      · simp [updS, e]
  · rintro ⟨σ, h, rfl⟩; exact assignVar_sound o x y k σ h

theorem assignNeg_exact (o : Oct n) (hco : Coherent o) (x y : Fin n) (k : Int) (σ' : State n) :
    γ (assignNeg o x y k) σ' ↔ ∃ σ, γ o σ ∧ σ' = updS σ x (-σ y + k) := by
  constructor
  · unfold assignNeg
    split
    · rename_i e; subst e
      rw [shift_γ, negate_γ, updS_updS]
      intro h
      refine ⟨_, h, ?_⟩
      rw [updS_updS]
      funext v; unfold updS; split
      · rename_i e; rw [e]; simp
      · rfl
    · rename_i hne
      have hyx : y ≠ x := fun e => hne e.symm
      rw [assumeAll_exact, forget_exact o hco]
      rintro ⟨⟨t, ht⟩, hc⟩
      have h1 := hc (.sum x y k) (by simp)
      have h2 := hc (.nsum x y (-k)) (by simp)
      simp only [Cst.sat] at h1 h2
      refine ⟨updS σ' x t, ht, ?_⟩
      rw [updS_updS]
      funext v
      by_cases e : v = x
      · rw [e]; simp [updS, hyx]; omega
      · simp [updS, e]
  · rintro ⟨σ, h, rfl⟩; exact assignNeg_sound o x y k σ h

/-- **every statement is the exact post-image on coherent matrices** (best transformer) -/
theorem Stmt.exec_exact (st : Stmt n) (o : Oct n) (hco : Coherent o) (σ' : State n) :
    γ (st.exec o) σ' ↔ ∃ σ, γ o σ ∧ st.rel σ σ' := by
  cases st with
  | assume cs =>
    simp only [Stmt.exec, Stmt.rel]
    rw [assumeAll_exact]
    constructor
    · rintro ⟨h, hc⟩; exact ⟨σ', h, rfl, hc⟩
    · rintro ⟨σ, h, rfl, hc⟩; exact ⟨h, hc⟩
  | assignCst x k => exact assignCst_exact o hco x k σ'
  | assignVar x y k => exact assignVar_exact o hco x y k σ'
  | assignNeg x y k => exact assignNeg_exact o hco x y k σ'
  | havoc x =>
    simp only [Stmt.exec, Stmt.rel]
    rw [forget_exact o hco]
    constructor
    · rintro ⟨t, ht⟩; exact ⟨_, ht, fun y hy => by simp [updS, hy]⟩
    · rintro ⟨σ, h, e⟩
      refine ⟨σ x, ?_⟩
      have : updS σ' x (σ x) = σ := updS_eq_of_agree (σ := σ') (σ' := σ) (fun y hy => (e y hy).symm)
      rw [this]; exact h
  | forget xs => exact forgetAll_exact xs o hco σ'
  | project keep => exact project_exact keep o hco σ'

theorem isTop_iff (o : Oct n) : isTop o = true ↔ ∀ σ, γ o σ := by
  unfold isTop
  rw [leq_iff _ _ top_coherent]
  exact ⟨fun h σ => h σ (top_γ σ), fun h σ _ => h σ⟩

theorem isBottom_iff (o : Oct n) (hco : Coherent o) : isBottom o = true ↔ ∀ σ, ¬ γ o σ := by
  rw [bottom_iff_unsat o hco]
  exact ⟨fun h σ hσ => h ⟨σ, hσ⟩, fun h ⟨σ, hσ⟩ => h σ hσ⟩

/-! ### values with a bottom flag -/
namespace OVal

/-- the invariant of the values: the matrix is coherent -/
def Coh : OVal n → Prop
  | none => True
  | some o => Coherent o

theorem coh_top : Coh (top : OVal n) := top_coherent
theorem coh_bot : Coh (bot : OVal n) := trivial

theorem coh_exec (st : Stmt n) (v : OVal n) (h : Coh v) : Coh (exec st v) := by
  cases v with
  | none => trivial
  | some o => exact Stmt.exec_coherent st o h

theorem coh_join (a b : OVal n) (ha : Coh a) (hb : Coh b) : Coh (join a b) := by
  cases a with
  | none => simpa [join] using hb
  | some x =>
    cases b with
    | none => exact ha
    | some y => exact join_coherent x y ha hb

theorem coh_meet (a b : OVal n) (ha : Coh a) (hb : Coh b) : Coh (meet a b) := by
  cases a with
  | none => trivial
  | some x =>
    cases b with
    | none => trivial
    | some y => exact meet_coherent x y ha hb

theorem coh_widen (a b : OVal n) (ha : Coh a) (hb : Coh b) : Coh (widen a b) := by
  cases a with
  | none => simpa [widen] using hb
  | some l =>
    cases b with
    | none => exact ha
    | some r =>
      simp only [widen]
      split
      · exact ha
      · rename_i hbot
        have hbot' : Octagon.isBottom r = false := by simpa using hbot
        exact widenStd_coherent l _ ha (close_tightClosed r hb hbot').coh

end OVal

end Octagon
end Crab
