import CrabModel.Dom.Functors.Packing

/-!
The union-find primitives of the packing model at the level of the partition: `takePack`,
`mergeGo` / `merge` (as an inductive relation `MG` with one constructor per branch of the loop),
the invariant `WFl` (disjoint, non-empty classes) and what a merge does to classes and values.
-/
namespace Crab
namespace Dom
namespace Fct

variable {V : Type} [DecidableEq V]

namespace PK
variable {N : NDom V}

/-- two classes share no variable -/
def Dj (p q : Pack N) : Prop := ∀ v, v ∈ p.vars → v ∉ q.vars

theorem Dj.symm {p q : Pack N} (h : Dj p q) : Dj q p := fun v hv hp => h v hp hv

theorem wfl_perm {l l' : List (Pack N)} (hp : l.Perm l') (h : WFl l) : WFl l' :=
  ⟨(List.Perm.pairwise_iff (R := Dj) (fun h => Dj.symm h) hp).1 h.1, fun p hp' => h.2 p ((hp.mem_iff).2 hp')⟩

theorem wfl_cons {p : Pack N} {l : List (Pack N)} :
    WFl (p :: l) ↔ (∀ q ∈ l, Dj p q) ∧ p.vars ≠ [] ∧ WFl l := by
  unfold WFl
  rw [List.pairwise_cons]
  constructor
  · rintro ⟨⟨h1, h2⟩, h3⟩
    exact ⟨h1, h3 p List.mem_cons_self, h2, fun q hq => h3 q (List.mem_cons_of_mem _ hq)⟩
  · rintro ⟨h1, h2, h3, h4⟩
    refine ⟨⟨h1, h3⟩, ?_⟩
    intro q hq
    rcases List.mem_cons.1 hq with rfl | hq
    · exact h2
    · exact h4 q hq

/-- in a disjoint family two classes that share a variable are the same class -/
theorem wfl_unique {l : List (Pack N)} (h : WFl l) {p q : Pack N} (hp : p ∈ l) (hq : q ∈ l) {v : V}
    (hvp : v ∈ p.vars) (hvq : v ∈ q.vars) : p = q := by
  induction l with
  | nil => simp at hp
  | cons a l ih =>
    rw [wfl_cons] at h
    rcases List.mem_cons.1 hp with rfl | hp' <;> rcases List.mem_cons.1 hq with rfl | hq'
    · rfl
    · exact absurd hvq (h.1 q hq' v hvp)
    · exact absurd hvp (h.1 p hp' v hvq)
    · exact ih h.2.2 hp' hq'

theorem takePack_some : ∀ {l : List (Pack N)} {v : V} {p : Pack N} {r : List (Pack N)},
    takePack l v = some (p, r) → (p :: r).Perm l ∧ v ∈ p.vars
  | [], v, p, r, h => by simp [takePack] at h
  | a :: l, v, p, r, h => by
    unfold takePack at h
    split at h
    · rename_i hc
      simp only [Option.some.injEq, Prod.mk.injEq] at h
      obtain ⟨rfl, rfl⟩ := h
      exact ⟨List.Perm.refl _, List.contains_iff_mem.1 hc⟩
    · split at h
      · rename_i q r' hq
        simp only [Option.some.injEq, Prod.mk.injEq] at h
        obtain ⟨rfl, rfl⟩ := h
        have := takePack_some hq
        exact ⟨(List.Perm.swap a q r').trans (List.Perm.cons a this.1), this.2⟩
      · simp at h

theorem takePack_none : ∀ {l : List (Pack N)} {v : V}, takePack l v = none → ∀ p ∈ l, v ∉ p.vars
  | [], _, _, p, hp => by simp at hp
  | a :: l, v, h, p, hp => by
    unfold takePack at h
    split at h
    · simp at h
    · rename_i hc
      split at h
      · simp at h
      · rename_i hn
        rcases List.mem_cons.1 hp with rfl | hp'
        · intro hv; exact hc (List.contains_iff_mem.2 hv)
        · exact takePack_none hn p hp'

theorem packOf_some {l : List (Pack N)} {v : V} {p : Pack N} (h : packOf l v = some p) : p ∈ l ∧ v ∈ p.vars :=
  ⟨List.mem_of_find?_eq_some h, by
    have h' : List.find? (fun p => p.vars.contains v) l = some p := h
    have h2 := List.find?_some h'
    exact List.contains_iff_mem.1 h2⟩

theorem packOf_isSome {l : List (Pack N)} {v : V} {p : Pack N} (hp : p ∈ l) (hv : v ∈ p.vars) :
    ∃ q, packOf l v = some q := by
  cases h : packOf l v with
  | some q => exact ⟨q, rfl⟩
  | none =>
    have := List.find?_eq_none.1 h p hp
    exact absurd (List.contains_iff_mem.2 hv) (by simpa using this)

/-- under `WFl` the class found by `packOf` is THE class of the variable -/
theorem packOf_eq {l : List (Pack N)} (h : WFl l) {v : V} {p : Pack N} (hp : p ∈ l) (hv : v ∈ p.vars) :
    packOf l v = some p := by
  obtain ⟨q, hq⟩ := packOf_isSome hp hv
  have := packOf_some hq
  rw [hq, wfl_unique h this.1 hp this.2 hv]

/-- the run of `mergeGo`, one constructor per branch -/
inductive MG (fresh : N.B) : List V → Pack N → List (Pack N) → Pack N × List (Pack N) → Prop where
  | nil (acc rest) : MG fresh [] acc rest (acc, rest)
  | skip (v vs acc rest res) (hv : v ∈ acc.vars) (h : MG fresh vs acc rest res) : MG fresh (v :: vs) acc rest res
  | hit (v vs acc rest p rest' res) (hv : v ∉ acc.vars) (ht : takePack rest v = some (p, rest'))
      (hb : N.isBot (N.meet acc.val p.val) = false)
      (h : MG fresh vs ⟨acc.vars ++ p.vars, N.meet acc.val p.val⟩ rest' res) : MG fresh (v :: vs) acc rest res
  | fresh (v vs acc rest res) (hv : v ∉ acc.vars) (ht : takePack rest v = none)
      (hf : N.isBot fresh = false) (hb : N.isBot (N.meet acc.val fresh) = false)
      (h : MG fresh vs ⟨acc.vars ++ [v], N.meet acc.val fresh⟩ rest res) : MG fresh (v :: vs) acc rest res

theorem mergeGo_some {fresh : N.B} : ∀ {vs : List V} {acc : Pack N} {rest : List (Pack N)}
    {res : Pack N × List (Pack N)}, mergeGo fresh vs acc rest = some res → MG fresh vs acc rest res
  | [], acc, rest, res, h => by
    simp only [mergeGo, Option.some.injEq] at h; subst h; exact MG.nil _ _
  | v :: vs, acc, rest, res, h => by
    unfold mergeGo at h
    split at h
    · rename_i hc
      exact MG.skip _ _ _ _ _ (List.contains_iff_mem.1 hc) (mergeGo_some h)
    · rename_i hc
      have hv : v ∉ acc.vars := fun hv => hc (List.contains_iff_mem.2 hv)
      split at h
      · rename_i p rest' ht
        simp only at h
        split at h
        · simp at h
        · rename_i hb
          exact MG.hit _ _ _ _ _ _ _ hv ht (by simpa using hb) (mergeGo_some h)
      · rename_i ht
        split at h
        · simp at h
        · rename_i hf
          simp only at h
          split at h
          · simp at h
          · rename_i hb
            exact MG.fresh _ _ _ _ _ hv ht (by simpa using hf) (by simpa using hb) (mergeGo_some h)

/-- `mergeGo` is defined as soon as one state is accepted by every value involved -/
theorem mergeGo_isSome {fresh : N.B} {t : St V} (hf : N.γ fresh t) : ∀ (vs : List V) (acc : Pack N)
    (rest : List (Pack N)), N.γ acc.val t → (∀ p ∈ rest, N.γ p.val t) → ∃ res, mergeGo fresh vs acc rest = some res
  | [], acc, rest, _, _ => ⟨_, rfl⟩
  | v :: vs, acc, rest, ha, hr => by
    unfold mergeGo
    split
    · exact mergeGo_isSome hf vs acc rest ha hr
    · split
      · rename_i p rest' ht
        have hp := takePack_some ht
        have hm := N.meet_sound _ _ t ha (hr p ((hp.1.mem_iff).1 List.mem_cons_self))
        simp only [N.isBot_false_of_γ hm, Bool.false_eq_true, if_false]
        exact mergeGo_isSome hf vs _ rest' hm (fun q hq => hr q ((hp.1.mem_iff).1 (List.mem_cons_of_mem _ hq)))
      · have hm := N.meet_sound _ _ t ha hf
        simp only [N.isBot_false_of_γ hf, N.isBot_false_of_γ hm, Bool.false_eq_true, if_false]
        exact mergeGo_isSome hf vs _ rest hm hr

/-! ### what a merge does to the classes -/

theorem MG.wfl {fresh : N.B} {vs : List V} {acc : Pack N} {rest : List (Pack N)} {res : Pack N × List (Pack N)}
    (h : MG fresh vs acc rest res) : WFl (acc :: rest) → WFl (res.1 :: res.2) := by
  induction h with
  | nil => exact id
  | skip v vs acc rest res hv _ ih => exact ih
  | hit v vs acc rest p rest' res hv ht hb _ ih =>
    intro hw
    apply ih
    have hp := takePack_some ht
    have hw' : WFl (acc :: p :: rest') := wfl_perm (List.Perm.cons acc hp.1.symm) hw
    rw [wfl_cons, wfl_cons] at hw'
    obtain ⟨h1, h2, h3, h4, h5⟩ := hw'
    rw [wfl_cons]
    refine ⟨?_, ?_, h5⟩
    · intro q hq u hu
      rcases List.mem_append.1 hu with hu | hu
      · exact h1 q (List.mem_cons_of_mem _ hq) u hu
      · exact h3 q hq u hu
    · intro he
      simp only [List.append_eq_nil_iff] at he
      exact h2 he.1
  | fresh v vs acc rest res hv ht hf hb _ ih =>
    intro hw
    apply ih
    rw [wfl_cons] at hw ⊢
    obtain ⟨h1, h2, h3⟩ := hw
    refine ⟨?_, ?_, h3⟩
    · intro q hq u hu
      rcases List.mem_append.1 hu with hu | hu
      · exact h1 q hq u hu
      · simp only [List.mem_singleton] at hu
        subst hu
        exact takePack_none ht q hq
    · simp

/-- the classes that are left are old classes -/
theorem MG.rest_sub {fresh : N.B} {vs : List V} {acc : Pack N} {rest : List (Pack N)} {res : Pack N × List (Pack N)}
    (h : MG fresh vs acc rest res) : ∀ q ∈ res.2, q ∈ rest := by
  induction h with
  | nil => exact fun q hq => hq
  | skip v vs acc rest res hv _ ih => exact ih
  | hit v vs acc rest p rest' res hv ht hb _ ih =>
    intro q hq
    exact ((takePack_some ht).1.mem_iff).1 (List.mem_cons_of_mem _ (ih q hq))
  | fresh v vs acc rest res hv ht hf hb _ ih => exact ih

/-- the merged class contains the class it started from and all the variables to merge -/
theorem MG.acc_grows {fresh : N.B} {vs : List V} {acc : Pack N} {rest : List (Pack N)} {res : Pack N × List (Pack N)}
    (h : MG fresh vs acc rest res) : (∀ u ∈ acc.vars, u ∈ res.1.vars) ∧ (∀ v ∈ vs, v ∈ res.1.vars) := by
  induction h with
  | nil => exact ⟨fun u hu => hu, fun v hv => by simp at hv⟩
  | skip v vs acc rest res hv _ ih =>
    refine ⟨ih.1, ?_⟩
    intro w hw
    rcases List.mem_cons.1 hw with rfl | hw
    · exact ih.1 _ hv
    · exact ih.2 w hw
  | hit v vs acc rest p rest' res hv ht hb _ ih =>
    refine ⟨fun u hu => ih.1 u (List.mem_append_left _ hu), ?_⟩
    intro w hw
    rcases List.mem_cons.1 hw with rfl | hw
    · exact ih.1 _ (List.mem_append_right _ (takePack_some ht).2)
    · exact ih.2 w hw
  | fresh v vs acc rest res hv ht hf hb _ ih =>
    refine ⟨fun u hu => ih.1 u (List.mem_append_left _ hu), ?_⟩
    intro w hw
    rcases List.mem_cons.1 hw with rfl | hw
    · exact ih.1 _ (List.mem_append_right _ (by simp))
    · exact ih.2 w hw

/-- every old class is kept as it is or absorbed -/
theorem MG.coarsens {fresh : N.B} {vs : List V} {acc : Pack N} {rest : List (Pack N)} {res : Pack N × List (Pack N)}
    (h : MG fresh vs acc rest res) : ∀ p ∈ rest, p ∈ res.2 ∨ (∀ w ∈ p.vars, w ∈ res.1.vars) := by
  induction h with
  | nil => exact fun p hp => Or.inl hp
  | skip v vs acc rest res hv _ ih => exact ih
  | hit v vs acc rest p rest' res hv ht hb hm ih =>
    intro q hq
    rcases List.mem_cons.1 (((takePack_some ht).1.mem_iff).2 hq) with rfl | hq'
    · exact Or.inr (fun w hw => hm.acc_grows.1 w (List.mem_append_right _ hw))
    · exact ih q hq'
  | fresh v vs acc rest res hv ht hf hb _ ih => exact ih

/-- where the variables of the merged class come from: the start class, a merged variable that
    was in no class, or an absorbed class that contains one of the variables to merge -/
theorem MG.origin {fresh : N.B} {vs : List V} {acc : Pack N} {rest : List (Pack N)} {res : Pack N × List (Pack N)}
    (h : MG fresh vs acc rest res) : ∀ u ∈ res.1.vars, u ∈ acc.vars ∨ u ∈ vs ∨
      ∃ p ∈ rest, u ∈ p.vars ∧ (∀ w ∈ p.vars, w ∈ res.1.vars) ∧ ∃ v ∈ vs, v ∈ p.vars := by
  induction h with
  | nil => exact fun u hu => Or.inl hu
  | skip v vs acc rest res hv _ ih =>
    intro u hu
    rcases ih u hu with h | h | ⟨p, hp, h1, h2, w, hw, h3⟩
    · exact Or.inl h
    · exact Or.inr (Or.inl (List.mem_cons_of_mem _ h))
    · exact Or.inr (Or.inr ⟨p, hp, h1, h2, w, List.mem_cons_of_mem _ hw, h3⟩)
  | hit v vs acc rest p rest' res hv ht hb hm ih =>
    intro u hu
    have hp := takePack_some ht
    rcases ih u hu with h | h | ⟨q, hq, h1, h2, w, hw, h3⟩
    · rcases List.mem_append.1 h with h | h
      · exact Or.inl h
      · exact Or.inr (Or.inr ⟨p, (hp.1.mem_iff).1 List.mem_cons_self, h,
          fun w hw => hm.acc_grows.1 w (List.mem_append_right _ hw), v, List.mem_cons_self, hp.2⟩)
    · exact Or.inr (Or.inl (List.mem_cons_of_mem _ h))
    · exact Or.inr (Or.inr ⟨q, (hp.1.mem_iff).1 (List.mem_cons_of_mem _ hq), h1, h2, w, List.mem_cons_of_mem _ hw, h3⟩)
  | fresh v vs acc rest res hv ht hf hb _ ih =>
    intro u hu
    rcases ih u hu with h | h | ⟨q, hq, h1, h2, w, hw, h3⟩
    · rcases List.mem_append.1 h with h | h
      · exact Or.inl h
      · simp only [List.mem_singleton] at h; subst h
        exact Or.inr (Or.inl List.mem_cons_self)
    · exact Or.inr (Or.inl (List.mem_cons_of_mem _ h))
    · exact Or.inr (Or.inr ⟨q, hq, h1, h2, w, List.mem_cons_of_mem _ hw, h3⟩)

/-- the value of the merged class accepts every state that the start value, the value given to
    new classes and the values of the absorbed classes accept -/
theorem MG.val_sound {fresh : N.B} {vs : List V} {acc : Pack N} {rest : List (Pack N)} {res : Pack N × List (Pack N)}
    (h : MG fresh vs acc rest res) (t : St V) (hf : N.γ fresh t) : N.γ acc.val t →
    (∀ p ∈ rest, (∀ w ∈ p.vars, w ∈ res.1.vars) → N.γ p.val t) → N.γ res.1.val t := by
  induction h with
  | nil => exact fun ha _ => ha
  | skip v vs acc rest res hv _ ih => exact ih
  | hit v vs acc rest p rest' res hv ht hb hm ih =>
    intro ha hr
    have hp := takePack_some ht
    apply ih
    · exact N.meet_sound _ _ t ha (hr p ((hp.1.mem_iff).1 List.mem_cons_self)
        (fun w hw => hm.acc_grows.1 w (List.mem_append_right _ hw)))
    · exact fun q hq hsub => hr q ((hp.1.mem_iff).1 (List.mem_cons_of_mem _ hq)) hsub
  | fresh v vs acc rest res hv ht hf' hb _ ih =>
    intro ha hr
    exact ih (N.meet_sound _ _ t ha hf) hr

end PK
end Fct
end Dom
end Crab
