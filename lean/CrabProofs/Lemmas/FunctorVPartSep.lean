import CrabProofs.Lemmas.FunctorVPartHist
import CrabProofs.Lemmas.Bound

/-!
`update_partitions()` after repo commit 8f4c9c7: the intervals of the result are non-empty, sorted
and strictly separated (`VP.keysSep`), hence pairwise disjoint.
-/
namespace Crab
namespace Dom
namespace Fct
namespace VP
set_option linter.unusedSectionVars false

variable {V S : Type} [DecidableEq V] {D : VDom V S}

def NonBot (p : Part D) : Prop := Bound.le p.key.lb p.key.ub = true

theorem nonBot_of_not_isBottom {i : Itv} (h : i.isBottom = false) : Bound.le i.lb i.ub = true := by
  simpa [Itv.isBottom, Bound.gt] using h

theorem refreshGo_nonBot (x : V) (n : Nat) (l : List (Part D)) : ∀ p ∈ (refreshGo x n l).1, NonBot p := by
  induction l generalizing n with
  | nil => intro p hp; simp [refreshGo] at hp
  | cons q qs ih =>
    intro p hp
    simp only [refreshGo] at hp
    split at hp
    · split at hp
      · exact ih (n + 1) p hp
      · simp only [List.mem_singleton] at hp; subst hp; simp [NonBot, Itv.top, Bound.le]
    · rename_i hb
      rcases List.mem_cons.1 hp with rfl | hp
      · exact nonBot_of_not_isBottom (by simpa using hb)
      · exact ih (n + 1) p hp

/-- sorted by lower bound -/
def SortedLb (l : List (Part D)) : Prop := l.Pairwise (fun p q => Bound.le p.key.lb q.key.lb = true)

theorem sorted_insertPart (p : Part D) {l : List (Part D)} (h : SortedLb l) : SortedLb (insertPart p l) := by
  induction l with
  | nil => simp [insertPart, SortedLb]
  | cons q qs ih =>
    have hq := List.pairwise_cons.1 h
    simp only [insertPart]
    split
    · rename_i hlt
      have hqp : Bound.le q.key.lb p.key.lb = true := Bound.not_le ((Bound.lt_iff _ _).1 hlt)
      refine List.pairwise_cons.2 ⟨?_, ih hq.2⟩
      intro r hr
      rcases (mem_insertPart p r qs).1 hr with rfl | hr
      · exact hqp
      · exact hq.1 r hr
    · rename_i hlt
      have hpq : Bound.le p.key.lb q.key.lb = true := by
        cases hx : Bound.le p.key.lb q.key.lb
        · exact absurd ((Bound.lt_iff _ _).2 hx) hlt
        · rfl
      refine List.pairwise_cons.2 ⟨?_, h⟩
      intro r hr
      rcases List.mem_cons.1 hr with rfl | hr
      · exact hpq
      · exact Bound.le_trans hpq (hq.1 r hr)

theorem sorted_sortParts (l : List (Part D)) : SortedLb (sortParts l) := by
  induction l with
  | nil => exact List.Pairwise.nil
  | cons p ps ih => exact sorted_insertPart p ih

theorem keysSep_tail {p : Part D} {l : List (Part D)} (h : keysSep (p :: l) = true) : keysSep l = true := by
  match l with
  | [] => rfl
  | q :: r => simp only [keysSep, Bool.and_eq_true] at h; exact h.2

theorem keysSep_head {p : Part D} {l : List (Part D)} (h : keysSep (p :: l) = true) : NonBot p := by
  match l with
  | [] => exact h
  | q :: r => simp only [keysSep, Bool.and_eq_true] at h; exact h.1.1

theorem join_key {a b : Itv} (ha : Bound.le a.lb a.ub = true) (hb : Bound.le b.lb b.ub = true)
    (hab : Bound.le a.lb b.lb = true) :
    (Itv.join a b).lb = a.lb ∧ Bound.le (Itv.join a b).lb (Itv.join a b).ub = true ∧
      Bound.le a.ub (Itv.join a b).ub = true := by
  have h1 : a.isBottom = false := by simp [Itv.isBottom, Bound.gt, ha]
  have h2 : b.isBottom = false := by simp [Itv.isBottom, Bound.gt, hb]
  have h3 : Bound.min a.lb b.lb = a.lb := by simp [Bound.min, hab]
  have h4 : Bound.le a.lb (Bound.max a.ub b.ub) = true := Bound.le_trans ha (Bound.le_max_left _ _)
  have h5 : Bound.gt a.lb (Bound.max a.ub b.ub) = false := by simp [Bound.gt, h4]
  simp only [Itv.join, h1, h2, Bool.false_eq_true, if_false, h3, Itv.mk', h5]
  exact ⟨trivial, h4, Bound.le_max_left _ _⟩

theorem absorb_sep (p : Part D) (l : List (Part D)) (hp : NonBot p) (hs : keysSep l = true)
    (hl : ∀ q ∈ l, Bound.le p.key.lb q.key.lb = true) :
    keysSep ((absorb p l).1 :: (absorb p l).2) = true ∧ (absorb p l).1.key.lb = p.key.lb ∧
      ∀ r ∈ (absorb p l).2, r ∈ l := by
  induction l generalizing p with
  | nil => exact ⟨hp, rfl, fun r hr => hr⟩
  | cons q qs ih =>
    have hq : NonBot q := keysSep_head hs
    simp only [absorb]
    split
    · have hj := join_key hp hq (hl q List.mem_cons_self)
      obtain ⟨a1, a2, a3⟩ := ih (Part.join p q) hj.2.1 (keysSep_tail hs) (fun r hr => by
        show Bound.le (Itv.join p.key q.key).lb r.key.lb = true
        rw [hj.1]; exact hl r (List.mem_cons_of_mem _ hr))
      exact ⟨a1, by rw [a2]; exact hj.1, fun r hr => List.mem_cons_of_mem _ (a3 r hr)⟩
    · rename_i hge
      refine ⟨?_, rfl, fun r hr => hr⟩
      have hlt : Bound.lt p.key.ub q.key.lb = true := by
        simp only [Bound.lt]; simpa using hge
      match qs, hs with
      | [], hs => simp only [keysSep, Bool.and_eq_true]; exact ⟨⟨hp, hlt⟩, hs⟩
      | r :: rs, hs => simp only [keysSep, Bool.and_eq_true] at hs ⊢; exact ⟨⟨hp, hlt⟩, hs⟩

theorem mergeAdj_sep (l : List (Part D)) (hs : SortedLb l) (hn : ∀ p ∈ l, NonBot p) :
    keysSep (mergeAdj l) = true ∧ ∀ q ∈ mergeAdj l, ∃ r ∈ l, q.key.lb = r.key.lb := by
  induction l with
  | nil => exact ⟨rfl, fun q hq => by simp [mergeAdj] at hq⟩
  | cons p ps ih =>
    have hp := List.pairwise_cons.1 hs
    obtain ⟨i1, i2⟩ := ih hp.2 (fun q hq => hn q (List.mem_cons_of_mem _ hq))
    have hl : ∀ q ∈ mergeAdj ps, Bound.le p.key.lb q.key.lb = true := by
      intro q hq
      obtain ⟨r, hr, he⟩ := i2 q hq
      rw [he]; exact hp.1 r hr
    obtain ⟨a1, a2, a3⟩ := absorb_sep p (mergeAdj ps) (hn p List.mem_cons_self) i1 hl
    simp only [mergeAdj]
    refine ⟨a1, ?_⟩
    intro q hq
    rcases List.mem_cons.1 hq with rfl | hq
    · exact ⟨p, List.mem_cons_self, a2⟩
    · obtain ⟨r, hr, he⟩ := i2 q (a3 q hq)
      exact ⟨r, List.mem_cons_of_mem _ hr, he⟩

/-- `update_partitions()` leaves non-empty, sorted, strictly separated intervals -/
theorem updateParts_sep {a : VP D} (hv : a.var ≠ none) : keysSep (updateParts a).parts = true := by
  cases hx : a.var with
  | none => exact absurd hx hv
  | some x =>
    rw [updateParts_some hx]
    split
    · rename_i hstop
      obtain ⟨p, hp⟩ := refreshGo_stop x a.parts hstop
      show keysSep (refreshGo x 0 a.parts).1 = true
      have := refreshGo_nonBot x 0 a.parts p (by rw [hp]; exact List.mem_singleton.2 rfl)
      rw [hp]; exact this
    · exact (mergeAdj_sep _ (sorted_sortParts _) (fun p hp =>
        refreshGo_nonBot x 0 a.parts p ((mem_sortParts p _).1 hp))).1

/-! ### separated intervals are pairwise disjoint -/

theorem sep_lt_all {p : Part D} {l : List (Part D)} (h : keysSep (p :: l) = true) :
    ∀ r ∈ l, Bound.le r.key.lb p.key.ub = false := by
  induction l generalizing p with
  | nil => intro r hr; simp at hr
  | cons q qs ih =>
    have hh := h
    simp only [keysSep, Bool.and_eq_true] at hh
    have hpq : Bound.le q.key.lb p.key.ub = false := (Bound.lt_iff _ _).1 hh.1.2
    intro r hr
    rcases List.mem_cons.1 hr with rfl | hr
    · exact hpq
    · have hqr := ih hh.2 r hr
      cases hx : Bound.le r.key.lb p.key.ub
      · rfl
      · exfalso
        have h1 : Bound.le p.key.ub q.key.lb = true := Bound.not_le hpq
        have h2 : Bound.le r.key.lb q.key.ub = true :=
          Bound.le_trans hx (Bound.le_trans h1 (keysSep_head hh.2))
        rw [h2] at hqr; cases hqr

theorem keysDisjoint_of_sep (l : List (Part D)) (h : keysSep l = true) : KeysDisjoint l := by
  induction l with
  | nil => exact List.Pairwise.nil
  | cons p ps ih =>
    refine List.pairwise_cons.2 ⟨?_, ih (keysSep_tail h)⟩
    intro r hr k hk
    have := sep_lt_all h r hr
    have h2 : Bound.le r.key.lb p.key.ub = true := Bound.le_trans hk.2.1 hk.1.2
    rw [h2] at this; cases this

end VP
end Fct
end Dom
end Crab
