import CrabProofs.Lemmas.WtoState

/-!
  The loop invariant of the iterative `visit` (Tarjan / Bourdoncle) used to prove `C07.build_wf`.

  Ghost data: every frame of `visit_stack` is paired with the list `above` of the finished nodes of
  its DFS subtree that are still on the vertex stack, and the list `done` of the successors of its
  node that were already examined.
-/
namespace Crab
namespace Wto

/-- a frame with its ghost data -/
structure GF where
  f : Frame
  above : List Nat
  done : List Nat

/-- the part of the vertex stack that belongs to the frame (top first) -/
def GF.seg (p : GF) : List Nat := p.above ++ [p.f.node]

/-- the part of the vertex stack pushed by the current call of `visit` (top first) -/
def stk (gs : List GF) : List Nat := gs.flatMap GF.seg

/-- the dfn of a node as a number (0 for +oo, never used there) -/
def dn (t : Array Dfn) (x : Nat) : Nat :=
  match getDfn t x with
  | .fin k => k
  | .inf => 0

/-- `K` is a set of nodes that are free or already placed, whose edges stay in `K` or go to placed
    nodes: the region a call of `visit` works in -/
def ClosedK (g : Graph) (K : Nat → Prop) (st0 : St) : Prop :=
  ∀ x, K x → x < st0.dfn.size ∧ (getDfn st0.dfn x = .fin 0 ∨ getDfn st0.dfn x = .inf) ∧
    ∀ y ∈ g.succ x, K y ∨ getDfn st0.dfn y = .inf

/-- per-frame invariant.  `dnf` = current dfn numbers, `ln` = `loop_nodes`, `DoneNow` = placed
    nodes, `S` = the current call's part of the vertex stack. -/
structure FrameOK (g : Graph) (num0 : Nat) (dnf : Nat → Nat) (ln : List Nat) (DoneNow : Nat → Prop)
    (S : List Nat) (p : GF) : Prop where
  succ_eq : g.succ p.f.node = p.done ++ p.f.succs
  min_gt : num0 < p.f.min
  min_le : p.f.min ≤ dnf p.f.node
  /-- examined edges of the node -/
  ex_node : ∀ y ∈ p.done, DoneNow y ∨ (y ∈ S ∧ p.f.min ≤ dnf y)
  /-- edges of the finished nodes of the subtree -/
  ex_above : ∀ x ∈ p.above, ∀ y ∈ g.succ x, DoneNow y ∨ (y ∈ S ∧ p.f.min ≤ dnf y)
  /-- a lowered `_min` is the dfn of a node recorded in `loop_nodes` -/
  min_wit : p.f.min = dnf p.f.node ∨ ∃ z ∈ ln, z ∈ S ∧ dnf z = p.f.min
  /-- every finished node still on the stack has a recorded loop node strictly below it -/
  above_wit : ∀ x ∈ p.above, ∃ z ∈ ln, z ∈ S ∧ p.f.min ≤ dnf z ∧ dnf z < dnf x
  /-- an examined self loop is recorded -/
  self_loop : p.f.node ∈ p.done → p.f.node ∈ ln ∨ p.f.min < dnf p.f.node
  /-- DFS tree parents -/
  parent : ∀ x ∈ p.above, ∃ q ∈ p.seg, dnf q < dnf x ∧ x ∈ g.succ q

/-- consecutive frames are DFS tree edges -/
def ChainOK (g : Graph) : List GF → Prop
  | [] => True
  | [_] => True
  | c :: p :: rest => c.f.node ∈ g.succ p.f.node ∧ ChainOK g (p :: rest)

/-- placed nodes: in the partition built by this call, or placed before the call -/
def DoneNow (st0 : St) (W : List WtoC) (y : Nat) : Prop := y ∈ flattenL W ∨ getDfn st0.dfn y = .inf

/-- invariant of `visitLoop` in a call `visit(g, v, part0)` entered with state `st0` -/
structure Inv (g : Graph) (K : Nat → Prop) (st0 : St) (part0 : List WtoC) (v : Nat)
    (gs : List GF) (ln : List Nat) (part : List WtoC) (st : St) (W : List WtoC) : Prop where
  part_eq : part = W ++ part0
  stack_eq : st.stack = stk gs ++ st0.stack
  size_eq : st.dfn.size = st0.dfn.size
  num_ge : st0.num ≤ st.num
  dfn_W : ∀ x ∈ flattenL W, getDfn st.dfn x = .inf
  dfn_stk : ∀ x ∈ stk gs, ∃ k, getDfn st.dfn x = .fin k ∧ st0.num < k ∧ k ≤ st.num
  dfn_other : ∀ x, x ∉ flattenL W → x ∉ stk gs → getDfn st.dfn x = getDfn st0.dfn x
  sorted : (stk gs).Pairwise (fun a b => dn st.dfn a > dn st.dfn b)
  W_nodup : (flattenL W).Nodup
  W_K : ∀ x ∈ flattenL W, K x ∧ getDfn st0.dfn x = .fin 0
  stk_K : ∀ x ∈ stk gs, K x ∧ getDfn st0.dfn x = .fin 0
  disj : ∀ x ∈ flattenL W, x ∉ stk gs
  W_edges : ∀ x ∈ flattenL W, ∀ y ∈ g.succ x, getDfn st0.dfn y = .inf ∨ EdgeOK W x y
  frames : ∀ p ∈ gs, FrameOK g st0.num (dn st.dfn) ln (DoneNow st0 W) (stk gs) p
  chain : ChainOK g gs
  root_in : v ∈ stk gs ∨ v ∈ flattenL W

/-- what a finished call of `visit` (or a sequence of calls) has done: `W` was put in front of the
    partition, its nodes went from free to placed, nothing else changed -/
structure Placed (g : Graph) (K : Nat → Prop) (st0 : St) (W : List WtoC) (st : St) : Prop where
  stack_eq : st.stack = st0.stack
  size_eq : st.dfn.size = st0.dfn.size
  num_ge : st0.num ≤ st.num
  dfn_W : ∀ x ∈ flattenL W, getDfn st.dfn x = .inf
  dfn_other : ∀ x, x ∉ flattenL W → getDfn st.dfn x = getDfn st0.dfn x
  W_nodup : (flattenL W).Nodup
  W_K : ∀ x ∈ flattenL W, K x ∧ getDfn st0.dfn x = .fin 0
  W_edges : ∀ x ∈ flattenL W, ∀ y ∈ g.succ x, getDfn st0.dfn y = .inf ∨ EdgeOK W x y

end Wto
end Crab
