import CrabModel.Scalar.Congruence

/-! Helper lemmas about `Crab.Cong` (model of `ikos::congruence<z_number>`): the gcd helpers
    compute the gcd, membership through the normalising constructor, lattice operations and
    the ring operations. -/
namespace Crab
namespace Cong

/-! ### gcd / lcm helpers -/

theorem gcdLoop_eq (fuel x y : Nat) (h : y < fuel) : gcdLoop fuel x y = Nat.gcd x y := by
  induction fuel generalizing x y with
  | zero => omega
  | succ n ih =>
    unfold gcdLoop
    split
    · rename_i hy; subst hy; simp
    · rename_i hy
      have hlt : x % y < y := Nat.mod_lt _ (Nat.pos_of_ne_zero hy)
      rw [ih y (x % y) (by omega), Nat.gcd_comm x y, Nat.gcd_rec y x, Nat.gcd_comm]

theorem gcdHelper_eq (x y : Nat) : gcdHelper x y = Nat.gcd x y :=
  gcdLoop_eq (y + 1) x y (by omega)

theorem gcd_eq (x y : Int) : gcd x y = (Int.gcd x y : Int) := by
  simp [gcd, gcdHelper_eq, Int.gcd]

theorem gcd_dvd_left (x y : Int) : gcd x y ∣ x := by rw [gcd_eq]; exact Int.gcd_dvd_left x y
theorem gcd_dvd_right (x y : Int) : gcd x y ∣ y := by rw [gcd_eq]; exact Int.gcd_dvd_right x y
theorem gcd_nonneg (x y : Int) : 0 ≤ gcd x y := by rw [gcd_eq]; exact Int.natCast_nonneg _

theorem gcd3_dvd_1 (x y z : Int) : gcd3 x y z ∣ x := gcd_dvd_left _ _
theorem gcd3_dvd_2 (x y z : Int) : gcd3 x y z ∣ y :=
  Int.dvd_trans (gcd_dvd_right _ _) (gcd_dvd_left _ _)
theorem gcd3_dvd_3 (x y z : Int) : gcd3 x y z ∣ z :=
  Int.dvd_trans (gcd_dvd_right _ _) (gcd_dvd_right _ _)

theorem dvd_iabs {a x : Int} : a ∣ iabs x ↔ a ∣ x := by
  unfold iabs; split
  · exact Int.dvd_neg
  · exact Iff.rfl

/-! ### membership -/

theorem mem_def (k : Int) (c : Cong) : mem k c ↔ (c.isBot = false ∧ c.a ∣ k - c.b) := Iff.rfl

theorem not_mem_bot (k : Int) : ¬ mem k bot := by simp [mem, bot]
theorem not_mem_of_isBot {k : Int} {c : Cong} (h : c.isBot = true) : ¬ mem k c := by
  simp [mem, h]
theorem mem_top (k : Int) : mem k top := by simp [mem, top]
theorem mem_ofInt (k n : Int) : mem k (ofInt n) ↔ k = n := by
  simp [mem, ofInt]; omega

theorem mem_of_isTop {k : Int} {c : Cong} (hb : c.isBot = false) (h : c.isTop = true) : mem k c := by
  simp [isTop] at h; simp [mem, hb, h]

/-- the normalising constructor keeps the class: `|a|` generates the same ideal and the
    reduced residue differs from `b` by a multiple of `|a|` -/
theorem mem_mk' (k a b : Int) : mem k (mk' a b) ↔ a ∣ k - b := by
  unfold mk' mem
  simp only [true_and]
  generalize ha' : (if a < 0 then -a else a) = a'
  have hdvd : ∀ x, a' ∣ x ↔ a ∣ x := by
    intro x; rw [← ha']; split
    · exact Int.neg_dvd
    · exact Iff.rfl
  by_cases h0 : a' = 0
  · simp only [h0, ne_eq, not_true_eq_false, if_false]
    rw [← h0]; exact hdvd _
  · simp only [h0, ne_eq, not_false_eq_true, if_true]
    have hm : a' ∣ b - Int.tmod b a' := by
      rw [Int.tmod_def]
      have : b - (b - a' * b.tdiv a') = a' * b.tdiv a' := by omega
      rw [this]; exact Int.dvd_mul_right _ _
    rw [← hdvd]
    split
    · have e : k - (Int.tmod b a' + a') = (k - b) + ((b - Int.tmod b a') - a') := by omega
      rw [e]
      have h2 : a' ∣ (b - Int.tmod b a') - a' := Int.dvd_sub hm (Int.dvd_refl _)
      constructor
      · intro h
        have := Int.dvd_sub h h2
        simpa using this
      · intro h; exact Int.dvd_add h h2
    · have e : k - Int.tmod b a' = (k - b) + (b - Int.tmod b a') := by omega
      rw [e]
      constructor
      · intro h
        have := Int.dvd_sub h hm
        simpa using this
      · intro h; exact Int.dvd_add h hm

/-- the normalising constructor produces the standard form -/
theorem wf_mk' (a b : Int) : WF (mk' a b) := by
  unfold mk' WF
  simp only [Bool.false_eq_true, false_implies, and_true]
  generalize ha' : (if a < 0 then -a else a) = a'
  have hnn : 0 ≤ a' := by rw [← ha']; split <;> omega
  refine ⟨hnn, ?_⟩
  intro h0
  simp only [h0, ne_eq, not_false_eq_true, if_true]
  have hpos : 0 < a' := by omega
  have h1 := Int.tmod_lt_of_pos b hpos
  have h2 := Int.lt_tmod_of_pos b hpos
  split <;> omega

theorem contains_iff (c : Cong) (k : Int) : c.contains k = true ↔ mem k c := by
  unfold contains mem
  cases c.isBot <;> simp
  by_cases ha : c.a = 0
  · simp [ha]; omega
  · simp [ha, Int.dvd_iff_emod_eq_zero]

/-- two truncated remainders agree only for congruent numbers -/
theorem dvd_sub_of_tmod_eq {x y a : Int} (h : Int.tmod x a = Int.tmod y a) : a ∣ x - y := by
  have hx := Int.tmod_def x a
  have hy := Int.tmod_def y a
  have : x - y = a * (Int.tdiv x a - Int.tdiv y a) := by
    rw [Int.mul_sub]; omega
  rw [this]; exact Int.dvd_mul_right _ _

theorem mem_trans_dvd {k a a' b b' : Int} (h : a ∣ k - b) (ha : a' ∣ a) (hb : a' ∣ b - b') :
    a' ∣ k - b' := by
  have h1 := Int.dvd_trans ha h
  have : k - b' = (k - b) + (b - b') := by omega
  rw [this]; exact Int.dvd_add h1 hb

/-! ### order -/

theorem leq_sound {x o : Cong} (h : leq x o = true) {k : Int} (hk : mem k x) : mem k o := by
  have hx := hk.1
  unfold leq at h
  simp only [hx, Bool.false_eq_true, if_false] at h
  split at h
  · simp at h
  · rename_i ho
    have ho : o.isBot = false := by simpa using ho
    split at h
    · rename_i h0
      simp only [beq_iff_eq] at h
      obtain ⟨_, hk2⟩ := hk
      refine ⟨ho, ?_⟩
      rw [h0.2, ← h]; rw [h0.1] at hk2; exact hk2
    · split at h
      · simp at h
      · simp only [Bool.and_eq_true, beq_iff_eq] at h
        exact ⟨ho, mem_trans_dvd hk.2 (Int.dvd_of_tmod_eq_zero h.1) (Int.dvd_of_tmod_eq_zero h.2)⟩

theorem leq_refl (c : Cong) : leq c c = true := by
  unfold leq
  cases hb : c.isBot <;> simp

theorem bot_leq (o : Cong) : leq bot o = true := by simp [leq, bot]
theorem leq_of_isBot {c : Cong} (h : c.isBot = true) (o : Cong) : leq c o = true := by
  simp [leq, h]

theorem leq_top (c : Cong) : leq c top = true := by
  unfold leq
  cases hb : c.isBot <;> simp [top]

/-- `operator<=` decides the inclusion of the concretisations -/
theorem leq_complete {x o : Cong} (h : ∀ k, mem k x → mem k o) : leq x o = true := by
  unfold leq
  cases hx : x.isBot
  · simp only [Bool.false_eq_true, if_false]
    have hb : mem x.b x := ⟨hx, by simp⟩
    have hba : mem (x.b + x.a) x := ⟨hx, by
      have e : x.b + x.a - x.b = x.a := by omega
      rw [e]; exact Int.dvd_refl _⟩
    have h1 := h _ hb
    have h2 := h _ hba
    simp only [h1.1, Bool.false_eq_true, if_false]
    -- o.a ∣ x.b - o.b and o.a ∣ x.a
    have d1 : o.a ∣ x.b - o.b := h1.2
    have d2 : o.a ∣ x.a := by
      have := Int.dvd_sub h2.2 h1.2
      have e : x.b + x.a - o.b - (x.b - o.b) = x.a := by omega
      rwa [e] at this
    split
    · rename_i h0
      rw [h0.2] at d1
      have := Int.eq_of_sub_eq_zero (Int.zero_dvd.mp d1)
      simp [this]
    · split
      · rename_i hn hoa
        rw [hoa] at d2
        have : x.a = 0 := Int.zero_dvd.mp d2
        exact absurd ⟨this, hoa⟩ hn
      · simp [Int.tmod_eq_zero_of_dvd d1, Int.tmod_eq_zero_of_dvd d2]
  · simp

/-! ### join / widening -/

theorem join_upper_left {x o : Cong} {k : Int} (hk : mem k x) : mem k (join x o) := by
  have hx := hk.1
  unfold join
  simp only [hx, Bool.false_eq_true, if_false]
  split
  · exact hk
  · split
    · exact mem_top k
    · rw [mem_mk']
      refine mem_trans_dvd hk.2 (gcd3_dvd_1 _ _ _) ?_
      unfold imin; split
      · simp
      · exact (dvd_iabs.mp (gcd3_dvd_3 x.a o.a (iabs (x.b - o.b))))

theorem join_upper_right {x o : Cong} {k : Int} (hk : mem k o) : mem k (join x o) := by
  have ho := hk.1
  unfold join
  split
  · exact hk
  · simp only [ho, Bool.false_eq_true, if_false]
    split
    · exact mem_top k
    · rw [mem_mk']
      refine mem_trans_dvd hk.2 (gcd3_dvd_2 _ _ _) ?_
      unfold imin; split
      · have := (dvd_iabs.mp (gcd3_dvd_3 x.a o.a (iabs (x.b - o.b))))
        have h2 : o.b - x.b = -(x.b - o.b) := by omega
        rw [h2]; exact Int.dvd_neg.mpr this
      · simp

/-! ### narrowing -/

theorem narrow_sound {x o : Cong} {k : Int} (hx : mem k x) (ho : mem k o) : mem k (narrow x o) := by
  unfold narrow; split <;> assumption

/-! ### ring operations -/

theorem add_sound {x o : Cong} {a b : Int} (ha : mem a x) (hb : mem b o) : mem (a + b) (add x o) := by
  unfold add
  simp only [ha.1, hb.1, Bool.or_self, Bool.false_eq_true, if_false]
  split
  · exact mem_top _
  · rw [mem_mk']
    have h1 := Int.dvd_trans (gcd_dvd_left x.a o.a) ha.2
    have h2 := Int.dvd_trans (gcd_dvd_right x.a o.a) hb.2
    have : a + b - (x.b + o.b) = (a - x.b) + (b - o.b) := by omega
    rw [this]; exact Int.dvd_add h1 h2

theorem sub_sound {x o : Cong} {a b : Int} (ha : mem a x) (hb : mem b o) : mem (a - b) (sub x o) := by
  unfold sub
  simp only [ha.1, hb.1, Bool.or_self, Bool.false_eq_true, if_false]
  split
  · exact mem_top _
  · rw [mem_mk']
    have h1 := Int.dvd_trans (gcd_dvd_left x.a o.a) ha.2
    have h2 := Int.dvd_trans (gcd_dvd_right x.a o.a) hb.2
    have : a - b - (x.b - o.b) = (a - x.b) - (b - o.b) := by omega
    rw [this]; exact Int.dvd_sub h1 h2

theorem neg_sound {x : Cong} {a : Int} (ha : mem a x) : mem (-a) (neg x) := by
  unfold neg
  simp only [ha.1, Bool.false_or]
  split
  · rename_i ht; exact mem_of_isTop ha.1 ht
  · rw [mem_mk']
    have : -a - (-x.b + x.a) = -(a - x.b) - x.a := by omega
    rw [this]; exact Int.dvd_sub (Int.dvd_neg.mpr ha.2) (Int.dvd_refl _)

theorem mul_sound {x o : Cong} {a b : Int} (ha : mem a x) (hb : mem b o) : mem (a * b) (mul x o) := by
  unfold mul
  simp only [ha.1, hb.1, Bool.or_self, Bool.false_eq_true, if_false]
  split
  · exact mem_top _
  · rw [mem_mk']
    obtain ⟨i, hi⟩ := ha.2
    obtain ⟨j, hj⟩ := hb.2
    have ea : a = x.a * i + x.b := by omega
    have eb : b = o.a * j + o.b := by omega
    have : a * b - x.b * o.b = (x.a * o.a) * (i * j) + (x.a * o.b) * i + (o.a * x.b) * j := by
      rw [ea, eb]
      simp only [Int.mul_add, Int.mul_comm, Int.mul_left_comm]
      omega
    rw [this]
    refine Int.dvd_add (Int.dvd_add ?_ ?_) ?_
    · exact Int.dvd_trans (gcd3_dvd_1 _ _ _) (Int.dvd_mul_right _ _)
    · exact Int.dvd_trans (gcd3_dvd_2 _ _ _) (Int.dvd_mul_right _ _)
    · exact Int.dvd_trans (gcd3_dvd_3 _ _ _) (Int.dvd_mul_right _ _)

end Cong
end Crab
