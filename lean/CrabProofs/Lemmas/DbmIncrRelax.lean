import CrabProofs.Lemmas.DbmIncrSplit

/-!
  Every write of `close_over_edge` / `close_after_assign` is a RELAXATION of one edge
  (`relax g s w d`: the edge `s → d` becomes `min(old, w)`): `update_edge(.., min_op)` by
  definition, `set_edge` because it is guarded by `w.get() <= wt → continue`, `add_edge` /
  `delta.push_back` because the edge is absent.

  `Snd G Tf Tv g` is the invariant shared by all loops: `g` is below the start graph `G`, above a
  closed matrix `Tf` (the closure of `G`: nothing unsound is ever written) and, on the edges among
  variables, above a matrix `Tv` closed among the variables (the closure of the variable subgraph);
  no self loop is written.
-/
namespace Crab
namespace DbmIncr
open Dbm Zones

variable {n : Nat}

/-- the edge `s → d` becomes `min(old, w)` -/
def relax (g : Zone n) (s : Fin (n + 1)) (w : Int) (d : Fin (n + 1)) : Zone n := g.addEdge d s w

theorem edge_relax (g : Zone n) (s d a b : Fin (n + 1)) (w : Int) :
    edge (relax g s w d) a b = if a = s ∧ b = d then W.min (edge g s d) (some w) else edge g a b := by
  simp only [edge, relax, Mat.addEdge, Mat.get_ofFn]
  by_cases h : b = d ∧ a = s
  · obtain ⟨rfl, rfl⟩ := h; simp
  · have : ¬ (a = s ∧ b = d) := fun h' => h ⟨h'.2, h'.1⟩
    simp [h, this]

theorem edge_relax_self (g : Zone n) (s d : Fin (n + 1)) (w : Int) :
    edge (relax g s w d) s d = W.min (edge g s d) (some w) := by simp [edge_relax]

theorem edge_relax_ne (g : Zone n) {s d a b : Fin (n + 1)} (w : Int) (h : ¬ (a = s ∧ b = d)) :
    edge (relax g s w d) a b = edge g a b := by simp [edge_relax, h]

theorem edge_setEdge (g : Zone n) (s d a b : Fin (n + 1)) (w : Int) :
    edge (setEdge g s w d) a b = if a = s ∧ b = d then some w else edge g a b := by
  simp only [edge, setEdge, Mat.get_ofFn]
  by_cases h : b = d ∧ a = s
  · obtain ⟨rfl, rfl⟩ := h; simp
  · have : ¬ (a = s ∧ b = d) := fun h' => h ⟨h'.2, h'.1⟩
    simp [h, this]

theorem ext_edge {g h : Zone n} (e : ∀ a b, edge g a b = edge h a b) : g = h :=
  Mat.ext_get fun i j => e j i

/-- a guarded `set_edge` / an `add_edge` of an absent edge is a relaxation -/
theorem setEdge_eq_relax {g : Zone n} {s d : Fin (n + 1)} {w : Int}
    (h : ∀ k, edge g s d = some k → w ≤ k) : setEdge g s w d = relax g s w d := by
  apply ext_edge
  intro a b
  rw [edge_setEdge, edge_relax]
  by_cases hab : a = s ∧ b = d
  · simp only [hab, and_self, if_true]
    rcases hk : edge g s d with _ | k
    · simp
    · have := h k hk
      simp only [W.min_some_some]; congr 1; omega
  · simp [hab]

theorem updEdge_eq_relax (g : Zone n) (s d : Fin (n + 1)) (w : Int) : updEdge g s w d = relax g s w d := by
  unfold updEdge
  rcases hk : edge g s d with _ | k
  · exact setEdge_eq_relax (fun k h => by rw [hk] at h; cases h)
  · simp only
    apply ext_edge
    intro a b
    rw [edge_setEdge, edge_relax]
    by_cases hab : a = s ∧ b = d
    · simp only [hab, and_self, if_true, hk, W.min_some_some, Int.min_def]
    · simp [hab]

/-- `closeBounds` as two relaxations -/
theorem closeBounds_eq (g : Zone n) (a b : Fin (n + 1)) (wt : Int) :
    closeBounds g a b wt =
      (let g1 := match edge g 0 a with
        | some w => relax g 0 (w + wt) b
        | none => g
       match edge g1 b 0 with
       | some w => relax g1 a (w + wt) 0
       | none => g1) := by
  simp only [closeBounds, updEdge_eq_relax]
  rfl

/-! ### the order "only lowered" -/

/-- `g'` is entrywise below `g` -/
def Dec (g' g : Zone n) : Prop := ∀ a b, W.LE (edge g' a b) (edge g a b)

theorem Dec.refl (g : Zone n) : Dec g g := fun _ _ => W.LE_refl _
theorem Dec.trans {a b c : Zone n} (h1 : Dec a b) (h2 : Dec b c) : Dec a c :=
  fun x y => W.LE_trans (h1 x y) (h2 x y)

theorem relax_dec (g : Zone n) (s d : Fin (n + 1)) (w : Int) : Dec (relax g s w d) g := by
  intro a b
  rw [edge_relax]
  split
  · rename_i h; obtain ⟨rfl, rfl⟩ := h; exact W.min_LE_left _ _
  · exact W.LE_refl _

theorem relax_le_val (g : Zone n) (s d : Fin (n + 1)) (w : Int) :
    W.LE (edge (relax g s w d) s d) (some w) := by
  rw [edge_relax_self]; exact W.min_LE_right _ _

theorem closeBounds_dec (g : Zone n) (a b : Fin (n + 1)) (wt : Int) : Dec (closeBounds g a b wt) g := by
  rw [closeBounds_eq]
  rcases h1 : edge g 0 a with _ | x <;> simp only
  · rcases h2 : edge g b 0 with _ | y <;> simp only
    · exact Dec.refl g
    · exact relax_dec _ _ _ _
  · rcases h2 : edge (relax g 0 (x + wt) b) b 0 with _ | y <;> simp only
    · exact relax_dec _ _ _ _
    · exact Dec.trans (relax_dec _ _ _ _) (relax_dec _ _ _ _)

/-- `closeBounds` writes only `0 → b` and `a → 0` -/
theorem closeBounds_frame (g : Zone n) (a b : Fin (n + 1)) (wt : Int) {x y : Fin (n + 1)}
    (h1 : ¬ (x = 0 ∧ y = b)) (h2 : ¬ (x = a ∧ y = 0)) :
    edge (closeBounds g a b wt) x y = edge g x y := by
  rw [closeBounds_eq]
  rcases e1 : edge g 0 a with _ | u <;> simp only
  · rcases e2 : edge g b 0 with _ | v <;> simp only
    rw [edge_relax_ne _ _ h2]
  · rcases e2 : edge (relax g 0 (u + wt) b) b 0 with _ | v <;> simp only
    · rw [edge_relax_ne _ _ h1]
    · rw [edge_relax_ne _ _ h2, edge_relax_ne _ _ h1]

/-- first update of `closeBounds`: `0 → b` is at most `(0 → a) + wt` -/
theorem closeBounds_ub0 (g : Zone n) {a b : Fin (n + 1)} (wt : Int) (ha : a ≠ 0) {x : Int}
    (hx : edge g 0 a = some x) : W.LE (edge (closeBounds g a b wt) 0 b) (some (x + wt)) := by
  rw [closeBounds_eq]
  simp only [hx]
  have h0 : W.LE (edge (relax g 0 (x + wt) b) 0 b) (some (x + wt)) := relax_le_val _ _ _ _
  rcases e2 : edge (relax g 0 (x + wt) b) b 0 with _ | v <;> simp only
  · exact h0
  · exact W.LE_trans (relax_dec _ _ _ _ 0 b) h0

/-- second update of `closeBounds`: `a → 0` is at most `(b → 0) + wt` -/
theorem closeBounds_ub1 (g : Zone n) {a b : Fin (n + 1)} (wt : Int) (hb : b ≠ 0) {y : Int}
    (hy : edge g b 0 = some y) : W.LE (edge (closeBounds g a b wt) a 0) (some (y + wt)) := by
  rw [closeBounds_eq]
  have hne : ¬ (b = (0 : Fin (n + 1)) ∧ (0 : Fin (n + 1)) = b) := fun h => hb h.1
  rcases e1 : edge g 0 a with _ | u <;> simp only
  · simp only [hy]; exact relax_le_val _ _ _ _
  · have : edge (relax g 0 (u + wt) b) b 0 = some y := by rw [edge_relax_ne _ _ hne, hy]
    simp only [this]; exact relax_le_val _ _ _ _

/-! ### the shared invariant -/

/-- the reference matrices: `Tf` satisfies the triangle inequality, `Tv` among the variables -/
structure Ref (Tf Tv : Zone n) : Prop where
  triF : ∀ a k b, W.LE (edge Tf a b) (W.add (edge Tf a k) (edge Tf k b))
  triV : ∀ a k b, a ≠ 0 → k ≠ 0 → b ≠ 0 → W.LE (edge Tv a b) (W.add (edge Tv a k) (edge Tv k b))

structure Snd (G Tf Tv g : Zone n) : Prop where
  dec : Dec g G
  abF : ∀ a b, W.LE (edge Tf a b) (edge g a b)
  abV : ∀ a b, a ≠ 0 → b ≠ 0 → W.LE (edge Tv a b) (edge g a b)
  noLoop : ∀ a, edge g a a = none

variable {G Tf Tv g : Zone n}

theorem Snd.relax (h : Snd G Tf Tv g) {s d : Fin (n + 1)} {w : Int} (hsd : s ≠ d)
    (hF : W.LE (edge Tf s d) (some w)) (hV : s ≠ 0 → d ≠ 0 → W.LE (edge Tv s d) (some w)) :
    Snd G Tf Tv (relax g s w d) := by
  refine ⟨Dec.trans (relax_dec _ _ _ _) h.dec, ?_, ?_, ?_⟩
  · intro a b
    rw [edge_relax]
    split
    · rename_i hab; obtain ⟨rfl, rfl⟩ := hab
      exact W.LE_min (h.abF _ _) hF
    · exact h.abF a b
  · intro a b ha hb
    rw [edge_relax]
    split
    · rename_i hab; obtain ⟨rfl, rfl⟩ := hab
      exact W.LE_min (h.abV _ _ ha hb) (hV ha hb)
    · exact h.abV a b ha hb
  · intro a
    rw [edge_relax_ne _ _ (fun hh => hsd (hh.1.symm.trans hh.2))]
    exact h.noLoop a

/-- a two-hop path of the current graph is above `Tf` -/
theorem Snd.path2F (hr : Ref Tf Tv) (h : Snd G Tf Tv g) {a k b : Fin (n + 1)} {x y : Int}
    (hx : edge g a k = some x) (hy : W.LE (edge Tf k b) (some y)) : W.LE (edge Tf a b) (some (x + y)) := by
  have h1 := h.abF a k
  rw [hx] at h1
  have := W.LE_trans (hr.triF a k b) (W.add_mono h1 hy)
  simpa using this

theorem Snd.path2F' (hr : Ref Tf Tv) (h : Snd G Tf Tv g) {a k b : Fin (n + 1)} {x y : Int}
    (hx : W.LE (edge Tf a k) (some x)) (hy : edge g k b = some y) : W.LE (edge Tf a b) (some (x + y)) := by
  have h1 := h.abF k b
  rw [hy] at h1
  have := W.LE_trans (hr.triF a k b) (W.add_mono hx h1)
  simpa using this

theorem Snd.path2V (hr : Ref Tf Tv) (h : Snd G Tf Tv g) {a k b : Fin (n + 1)} {x y : Int}
    (ha : a ≠ 0) (hk : k ≠ 0) (hb : b ≠ 0)
    (hx : edge g a k = some x) (hy : W.LE (edge Tv k b) (some y)) : W.LE (edge Tv a b) (some (x + y)) := by
  have h1 := h.abV a k ha hk
  rw [hx] at h1
  have := W.LE_trans (hr.triV a k b ha hk hb) (W.add_mono h1 hy)
  simpa using this

theorem Snd.edgeF (h : Snd G Tf Tv g) {a b : Fin (n + 1)} {x : Int} (hx : edge g a b = some x) :
    W.LE (edge Tf a b) (some x) := by have := h.abF a b; rwa [hx] at this

theorem Snd.edgeV (h : Snd G Tf Tv g) {a b : Fin (n + 1)} {x : Int} (ha : a ≠ 0) (hb : b ≠ 0)
    (hx : edge g a b = some x) : W.LE (edge Tv a b) (some x) := by
  have := h.abV a b ha hb; rwa [hx] at this

/-- `closeBounds g a b wt` is sound when `a → b` of weight `wt` is -/
theorem Snd.closeBounds (hr : Ref Tf Tv) (h : Snd G Tf Tv g) {a b : Fin (n + 1)} {wt : Int}
    (ha : a ≠ 0) (hb : b ≠ 0) (hF : W.LE (edge Tf a b) (some wt)) :
    Snd G Tf Tv (closeBounds g a b wt) := by
  rw [closeBounds_eq]
  have step1 : ∀ u, edge g 0 a = some u → Snd G Tf Tv (DbmIncr.relax g 0 (u + wt) b) := by
    intro u hu
    exact h.relax (fun e => hb e.symm) (h.path2F hr hu hF) (fun h0 => absurd rfl h0)
  have step2 : ∀ g1 : Zone n, Snd G Tf Tv g1 → ∀ v, edge g1 b 0 = some v →
      Snd G Tf Tv (DbmIncr.relax g1 a (v + wt) 0) := by
    intro g1 h1 v hv
    refine h1.relax ha ?_ (fun _ h0 => absurd rfl h0)
    have := h1.path2F' hr hF hv
    rwa [Int.add_comm] at this
  rcases e1 : edge g 0 a with _ | u <;> simp only
  · rcases e2 : edge g b 0 with _ | v <;> simp only
    · exact h
    · exact step2 g h v e2
  · rcases e2 : edge (DbmIncr.relax g 0 (u + wt) b) b 0 with _ | v <;> simp only
    · exact step1 u e1
    · exact step2 _ (step1 u e1) v e2

end DbmIncr
end Crab
