import CrabProofs.Lemmas.InterTDRCall
import CrabProofs.Lemmas.FixSRun

/-!
  C09, whole top-down analysis — the block transformer with state (`stmtsS`, `blockS`) satisfies
  the contract `AnOK` of the state-passing iterator; `analyze_function` (`afBody`) keeps the
  invariant and records a sound run (`afBody_ok`, `tdAF_ok`).
-/
namespace Crab.Inter
open Crab.Fix
variable {p : IProg} {D : IDom} {P : TDParams}

/-- the wiring hypotheses at every call site of the program -/
def WiringOK (p : IProg) : Prop :=
  ∀ g b k h lhs args, g < p.funs.size → k < ((p.fn g).blk b).stmts.size →
    ((p.fn g).blk b).stmts.getD k default = .call h lhs args → WireOK p h lhs args

theorem Pref.inv_succ {CR : CallRel} {b : IBlock} {k : Nat} {x e' : Env} (h : Pref CR b (k + 1) x e') :
    ∃ e, Pref CR b k x e ∧ k < b.stmts.size ∧ LStep CR (b.stmts.getD k default) e e' := by
  cases h with
  | snoc hp hk hst => exact ⟨_, hp, hk, hst⟩

theorem drop_eq_cons (b : IBlock) (k : Nat) (hk : k < b.stmts.size) :
    b.stmts.toList.drop k = b.stmts.getD k default :: b.stmts.toList.drop (k + 1) := by
  rw [List.drop_eq_getElem_cons (by simpa using hk)]
  congr 1
  simp [Array.getD_eq_getD_getElem?, hk]

theorem stmtS_noncall (rec : AF D) (a : D.A) (s : TDSt D) {st : IStmt} (hnc : ∀ c l r, st ≠ .call c l r) :
    stmtS D p P rec a s st = some (D.stmt a st, s) := by
  cases st with
  | call c l r => exact absurd rfl (hnc c l r)
  | assign _ _ => rfl
  | bin _ _ _ _ => rfl
  | havoc _ => rfl
  | assume _ => rfl
  | assert _ _ => rfl

/-- coverage of the call sites before position `k` -/
def CovUpTo (D : IDom) (p : IProg) (P : TDParams) (s : TDSt D) (f : IFun) (b k : Nat) (x : Env) : Prop :=
  ∀ j env h lhs args, j < k → Pref (TrueCR p) (f.blk b) j x env → j < (f.blk b).stmts.size →
    (f.blk b).stmts.getD j default = .call h lhs args →
    ∀ env' : Env, env'.size = p.nv → MatchVals (p.fn h).ins (args.map (fun a => env.getD a 0)) (toSt env') →
      Covd D P s h env'

theorem stmtsS_ok (hP : ProgOK p) (hmain : p.main < p.funs.size) (hmode : P.simpleRec = true)
    (hwire : WiringOK p) {rec : AF D} (hrec : AFOK D p P rec) {g : Nat} (hg : g < p.funs.size) (b : Nat)
    (X : Env → Prop) :
    ∀ (m k : Nat), k + m = ((p.fn g).blk b).stmts.size → ∀ (a r : D.A) (s s' : TDSt D),
      StOK D p P s → s.stack.head? = some g →
      stmtsS D p P rec (((p.fn g).blk b).stmts.toList.drop k) a s = some (r, s') →
      (∀ x env, X x → Pref (TrueCR p) ((p.fn g).blk b) k x env → env.size = p.nv ∧ EnvIn D.toAbsDom a env) →
      (∀ x, X x → CovUpTo D p P s (p.fn g) b k x) →
      StOK D p P s' ∧ s'.stack.head? = some g ∧ LeSt D s s' ∧
      (∀ x env, X x → Pref (TrueCR p) ((p.fn g).blk b) ((p.fn g).blk b).stmts.size x env →
        env.size = p.nv ∧ EnvIn D.toAbsDom r env) ∧
      (∀ x, X x → CovUpTo D p P s' (p.fn g) b ((p.fn g).blk b).stmts.size x)
  | 0, k, hk, a, r, s, s', hI, hhd, hrun, hA, hC => by
    have hk' : k = ((p.fn g).blk b).stmts.size := by omega
    subst hk'
    rw [List.drop_of_length_le (by simp)] at hrun
    simp only [stmtsS, Option.some.injEq, Prod.mk.injEq] at hrun
    obtain ⟨e1, e2⟩ := hrun
    subst e1; subst e2
    exact ⟨hI, hhd, LeSt.refl _, hA, hC⟩
  | m + 1, k, hk, a, r, s, s', hI, hhd, hrun, hA, hC => by
    have hklt : k < ((p.fn g).blk b).stmts.size := by omega
    rw [drop_eq_cons _ k hklt] at hrun
    simp only [stmtsS] at hrun
    have hSt := (hP g hg).stmts b k hklt
    cases hst : stmtS D p P rec a s (((p.fn g).blk b).stmts.getD k default) with
    | none => rw [hst] at hrun; cases hrun
    | some res =>
      obtain ⟨a1, s1⟩ := res
      rw [hst] at hrun
      simp only at hrun
      -- one statement
      have hstep : StOK D p P s1 ∧ s1.stack.head? = some g ∧ LeSt D s s1 ∧
          (∀ x env, X x → Pref (TrueCR p) ((p.fn g).blk b) (k + 1) x env →
            env.size = p.nv ∧ EnvIn D.toAbsDom a1 env) ∧
          (∀ x, X x → CovUpTo D p P s1 (p.fn g) b (k + 1) x) := by
        by_cases hisc : ∃ c lhs args, ((p.fn g).blk b).stmts.getD k default = .call c lhs args
        · obtain ⟨c, lhs, args, hs⟩ := hisc
          rw [hs] at hst hSt
          simp only [stmtS] at hst
          by_cases hbot : D.isBot a = true
          · simp only [hbot, if_true, Option.some.injEq, Prod.mk.injEq] at hst
            obtain ⟨e1, e2⟩ := hst
            subst e1; subst e2
            have hvac : ∀ x env, X x → Pref (TrueCR p) ((p.fn g).blk b) k x env → False := by
              intro x env hx hp
              exact D.isBot_sound hbot ((hA x env hx hp).2 (toSt env) (Ext_toSt env))
            refine ⟨hI, hhd, LeSt.refl _, ?_, ?_⟩
            · intro x env hx hp
              obtain ⟨e, hp', _, _⟩ := hp.inv_succ
              exact (hvac x e hx hp').elim
            · intro x hx j env h lhs' args' hj hp hjs hcs env' hsz hm
              by_cases hjk : j = k
              · subst hjk; exact (hvac x env hx hp).elim
              · exact hC x hx j env h lhs' args' (by omega) hp hjs hcs env' hsz hm
          · simp only [hbot] at hst
            have hcal : c ∈ (p.fn g).callees := mem_callees hklt hs
            obtain ⟨k1, k2, k3⟩ := callBody_ok hP hmain hmode hrec hg hSt (hwire g b k c lhs args hg hklt hs)
              hcal hI hhd hst
            refine ⟨k1, by rw [k2.1]; exact hhd, k2, ?_, ?_⟩
            · intro x env' hx hp
              obtain ⟨e, hp', _, hls⟩ := hp.inv_succ
              rw [hs] at hls
              obtain ⟨ov, hcr, he⟩ := hls
              obtain ⟨hsz, ha⟩ := hA x e hx hp'
              subst he
              exact ⟨by rw [setMany_size]; exact hsz, (k3 e hsz ha).1 ov hcr⟩
            · intro x hx j env h lhs' args' hj hp hjs hcs env' hsz hm
              by_cases hjk : j = k
              · subst hjk
                rw [hs] at hcs
                cases hcs
                obtain ⟨hsz0, ha⟩ := hA x env hx hp
                exact (k3 env hsz0 ha).2 env' hsz hm
              · exact (hC x hx j env h lhs' args' (by omega) hp hjs hcs env' hsz hm).mono k2
        · have hnc : ∀ c l r, ((p.fn g).blk b).stmts.getD k default ≠ .call c l r :=
            fun c l r e => hisc ⟨c, l, r, e⟩
          rw [stmtS_noncall rec a s hnc] at hst
          simp only [Option.some.injEq, Prod.mk.injEq] at hst
          obtain ⟨e1, e2⟩ := hst
          subst e1; subst e2
          refine ⟨hI, hhd, LeSt.refl _, ?_, ?_⟩
          · intro x env' hx hp
            obtain ⟨e, hp', _, hls⟩ := hp.inv_succ
            obtain ⟨hsz, ha⟩ := hA x e hx hp'
            refine ⟨by rw [LStep.size hls]; exact hsz, ?_⟩
            exact EnvIn.stmt D (TrueCR p) ha (fun v hv => by rw [hsz]; exact hSt.2.1 v hv) hnc hls
          · intro x hx j env h lhs' args' hj hp hjs hcs env' hsz hm
            by_cases hjk : j = k
            · subst hjk; exact absurd hcs (hnc h lhs' args')
            · exact hC x hx j env h lhs' args' (by omega) hp hjs hcs env' hsz hm
      obtain ⟨hI1, hhd1, hLe1, hA1, hC1⟩ := hstep
      obtain ⟨j1, j2, j3, j4, j5⟩ := stmtsS_ok hP hmain hmode hwire hrec hg b X m (k + 1) (by omega) a1 r s1 s'
        hI1 hhd1 hrun hA1 hC1
      exact ⟨j1, j2, hLe1.trans j3, j4, j5⟩

/-- the contract `Sem` for the iterator context of the top-down analysis (its own `analyze`
    field, not used by `runS`, answers `top`) -/
def tdSem (D : IDom) (p : IProg) (cfg : FixCfg) (g : Nat) (f : IFun) (init : D.A) :
    Sem (mkCtx D cfg g f (fun _ _ => D.top) init) Env where
  γ := fun a env => env.size = p.nv ∧ EnvIn D.toAbsDom a env
  step := fun n s s' => Pref (TrueCR p) (f.blk n) (f.blk n).stmts.size s s'
  analyze_sound := fun n a s s' hγ hst => ⟨by rw [Pref.size hst]; exact hγ.1, envIn_top D s'⟩
  join_left := fun a b s h => ⟨h.1, fun σ hσ => D.join_left (h.2 σ hσ)⟩
  join_right := fun a b s h => ⟨h.1, fun σ hσ => D.join_right (h.2 σ hσ)⟩
  widen_left := fun a b s h => ⟨h.1, fun σ hσ => D.widen_left (h.2 σ hσ)⟩
  widen_right := fun a b s h => ⟨h.1, fun σ hσ => D.widen_right (h.2 σ hσ)⟩
  meet_sound := fun a b s h1 h2 => ⟨h1.1, fun σ hσ => D.meet_sound (h1.2 σ hσ) (h2.2 σ hσ)⟩
  narrow_sound := fun a b s h1 h2 => ⟨h1.1, fun σ hσ => D.narrow_sound (h1.2 σ hσ) (h2.2 σ hσ)⟩
  leq_sound := fun a b s hl h => ⟨h.1, fun σ hσ => D.leq_sound hl (h.2 σ hσ)⟩

theorem LPre.reachTD (D : IDom) (cfg : FixCfg) (g : Nat) (f : IFun) (init : D.A) (E : Env → Prop)
    (hE : ∀ s, E s → s.size = p.nv ∧ EnvIn D.toAbsDom init s) :
    ∀ {n : Nat} {s : Env}, LPre (TrueCR p) f E n s → ReachPre _ (tdSem D p cfg g f init) n s := by
  intro n s h
  induction h with
  | init hs => exact ReachPre.init _ (hE _ hs) (by simp [asmOk, hasAssumptions, mkCtx])
  | flow _ hp hn ih =>
    exact ReachPre.flow _ _ _ (mem_preds hn) (ReachPost.step _ _ _ ih hp) (by simp [asmOk, hasAssumptions, mkCtx])

theorem blockS_anOK (hP : ProgOK p) (hmain : p.main < p.funs.size) (hmode : P.simpleRec = true)
    (hwire : WiringOK p) {rec : AF D} (hrec : AFOK D p P rec) (cfg : FixCfg) {g : Nat} (hg : g < p.funs.size)
    (init : D.A) :
    Sound.AnOK (mkCtx D cfg g (p.fn g) (fun _ _ => D.top) init) (tdSem D p cfg g (p.fn g) init)
      (blockS D p P rec (p.fn g))
      (fun s => StOK D p P s ∧ s.stack.head? = some g) (LeSt D)
      (fun s n x => BlockCov D p P s (p.fn g) n x) where
  le_refl := LeSt.refl
  le_trans := fun _ _ _ h1 h2 => h1.trans h2
  cov_mono := fun _ _ _ _ hle hc => hc.mono hle
  call := by
    intro n a s1 r s2 hI hrun
    unfold blockS at hrun
    have hrun' : stmtsS D p P rec (((p.fn g).blk n).stmts.toList.drop 0) a s1 = some (r, s2) := hrun
    obtain ⟨k1, k2, k3, k4, k5⟩ := stmtsS_ok hP hmain hmode hwire hrec hg n
      (fun x => x.size = p.nv ∧ EnvIn D.toAbsDom a x) ((p.fn g).blk n).stmts.size 0 (Nat.zero_add _) a r s1 s2 hI.1 hI.2 hrun'
      (fun x env hx hp => by cases hp; exact hx)
      (fun x _ j _ _ _ _ hj => absurd hj (Nat.not_lt_zero j))
    refine ⟨⟨k1, k2⟩, k3, ?_, ?_⟩
    · intro x x' hx hst
      exact k4 x x' hx hst
    · intro x hx j env h lhs args hp hjs hcs env' hsz hm
      exact k5 x hx j env h lhs args hjs hp hjs hcs env' hsz hm

theorem joinTable_sub (D : IDom) (g : Option (Nat → D.A)) (t : Nat → D.A) :
    ∃ tj, joinTable D g t = some tj ∧ (∀ b, SubG D (t b) (tj b)) ∧
      (∀ old, g = some old → ∀ b, SubG D (old b) (tj b)) := by
  cases g with
  | none => exact ⟨t, rfl, fun b => SubG.refl D _, fun _ h => by cases h⟩
  | some old =>
    refine ⟨_, rfl, fun b σ h => D.join_right h, ?_⟩
    intro o ho b σ h
    cases ho
    exact D.join_left h

/-- recording a sound run whose call sites are covered keeps the invariant -/
theorem StOK.recordRun {s : TDSt D} (h : StOK D p P s) (g : Nat) (e : D.A) (st : Fix.St D.A)
    (hg : g < p.funs.size) (hsound : RunSound D p ⟨g, e, st.pre, st.post⟩)
    (hcov : ∀ b x, LPre (TrueCR p) (p.fn g) (RunEntry D p ⟨g, e, st.pre, st.post⟩) b x →
      BlockCov D p P s (p.fn g) b x) :
    StOK D p P (joinInv D s g e st) ∧ LeSt D s (joinInv D s g e st) := by
  have hle : LeSt D s (joinInv D s g e st) := ⟨rfl, [_], rfl⟩
  refine ⟨?_, hle⟩
  obtain ⟨tp, htp, htp1, htp2⟩ := joinTable_sub D (s.gpre g) st.pre
  obtain ⟨tq, htq, htq1, htq2⟩ := joinTable_sub D (s.gpost g) st.post
  have hmem : ∀ ρ, ρ ∈ (joinInv D s g e st).runs → ρ ∈ s.runs ∨ ρ = ⟨g, e, st.pre, st.post⟩ := by
    intro ρ hρ
    have : ρ ∈ s.runs ++ [⟨g, e, st.pre, st.post⟩] := hρ
    rcases List.mem_append.mp this with h1 | h1
    · exact Or.inl h1
    · exact Or.inr (by simpa using h1)
  refine { nofix := h.nofix, ctxs := ?_, runs := ?_, glob := ?_, cov := ?_, nodup := h.nodup, paths := h.paths }
  · intro x c hc
    refine ⟨(h.ctxs x c hc).1, fun hst => ?_⟩
    obtain ⟨h1, ρ, h2, h3, h4⟩ := (h.ctxs x c hc).2 hst
    exact ⟨h1, ρ, hle.mem_runs h2, h3, h4⟩
  · intro ρ hρ
    rcases hmem ρ hρ with h1 | h1
    · exact h.runs ρ h1
    · subst h1; exact ⟨hg, hsound⟩
  · intro ρ hρ
    by_cases hfn : ρ.fn = g
    · refine ⟨tp, tq, ?_, ?_, ?_⟩
      · show upd s.gpre g (joinTable D (s.gpre g) st.pre) ρ.fn = some tp
        rw [hfn, upd_same', htp]
      · show upd s.gpost g (joinTable D (s.gpost g) st.post) ρ.fn = some tq
        rw [hfn, upd_same', htq]
      · intro b
        rcases hmem ρ hρ with h1 | h1
        · obtain ⟨op, oq, k1, k2, k3⟩ := h.glob ρ h1
          rw [hfn] at k1 k2
          exact ⟨(k3 b).1.trans (htp2 op k1 b), (k3 b).2.trans (htq2 oq k2 b)⟩
        · subst h1; exact ⟨htp1 b, htq1 b⟩
    · rcases hmem ρ hρ with h1 | h1
      · obtain ⟨op, oq, k1, k2, k3⟩ := h.glob ρ h1
        refine ⟨op, oq, ?_, ?_, k3⟩
        · show upd s.gpre g _ ρ.fn = some op
          rw [upd_other' _ _ _ hfn]; exact k1
        · show upd s.gpost g _ ρ.fn = some oq
          rw [upd_other' _ _ _ hfn]; exact k2
      · subst h1; exact absurd rfl hfn
  · intro ρ hρ b x hx
    rcases hmem ρ hρ with h1 | h1
    · exact (h.cov ρ h1 b x hx).mono hle
    · subst h1; exact (hcov b x hx).mono hle

theorem afBody_ok (hP : ProgOK p) (hmain : p.main < p.funs.size) (hmode : P.simpleRec = true)
    (hwire : WiringOK p) (cfg : FixCfg) (hw : WtoHyp D p cfg) {rec : AF D} (hrec : AFOK D p P rec) :
    AFOK D p P (afBody D p cfg P rec) := by
  intro g e it s nn st s' hI hhd hg hrun
  unfold afBody at hrun
  have hrecG : (P.recursive && P.wset.contains g) = false := by
    rcases simpleRec_cases hmode with hm | hm
    · simp [hm]
    · simp [hm]
  simp only [hrecG, Bool.false_eq_true, if_false] at hrun
  cases hr : Fix.runS (mkCtx D cfg g (p.fn g) (fun _ _ => D.top) e) (blockS D p P rec (p.fn g)) cfg.fuel
      (cfg.wto g) s with
  | none => rw [hr] at hrun; cases hrun
  | some res =>
    obtain ⟨st1, s2⟩ := res
    rw [hr] at hrun
    have ok := blockS_anOK hP hmain hmode hwire hrec cfg hg e
    obtain ⟨hI2, hLe2, hpre, hpost⟩ := Sound.runS_sound ok (cfg.wto g) cfg.fuel st1 s s2
      (hw g hg _ _) ⟨hI, hhd⟩ hr
    have hfix : s2.fix g = none := by rw [hI2.1.nofix]
    simp only [hfix, Option.some.injEq, Prod.mk.injEq] at hrun
    obtain ⟨e1, e2, e3⟩ := hrun
    subst e1; subst e2; subst e3
    have hreach : ∀ {n : Nat} {x : Env}, LPre (TrueCR p) (p.fn g) (RunEntry D p ⟨g, e, st1.pre, st1.post⟩) n x →
        ReachPre _ (tdSem D p cfg g (p.fn g) e) n x :=
      fun h => LPre.reachTD D cfg g (p.fn g) e _ (fun _ hs => hs) h
    have hsound : RunSound D p ⟨g, e, st1.pre, st1.post⟩ := by
      intro b k env ⟨s0, h1, h2⟩
      have hr0 := hreach h1
      constructor
      · intro hk
        subst hk
        cases h2
        exact (hpre b _ hr0).1.2
      · intro hk
        subst hk
        exact (hpost b env (ReachPost.step _ _ _ hr0 h2)).2
    have hcov : ∀ b x, LPre (TrueCR p) (p.fn g) (RunEntry D p ⟨g, e, st1.pre, st1.post⟩) b x →
        BlockCov D p P s2 (p.fn g) b x := fun b x hx => (hpre b x (hreach hx)).2
    obtain ⟨k1, k2⟩ := hI2.1.recordRun g e st1 hg hsound hcov
    refine ⟨k1, hLe2.trans k2, rfl, ?_⟩
    show _ ∈ s2.runs ++ [_]
    exact List.mem_append.mpr (Or.inr (by simp))

theorem tdAF_ok (hP : ProgOK p) (hmain : p.main < p.funs.size) (hmode : P.simpleRec = true)
    (hwire : WiringOK p) (cfg : FixCfg) (hw : WtoHyp D p cfg) : ∀ k, AFOK D p P (tdAF D p cfg P k)
  | 0 => by intro g e it s nn st s' _ _ _ h; simp [tdAF] at h
  | k + 1 => afBody_ok hP hmain hmode hwire cfg hw (tdAF_ok hP hmain hmode hwire cfg hw k)

end Crab.Inter
