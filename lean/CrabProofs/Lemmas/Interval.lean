import CrabProofs.Lemmas.Bound

/-! Helper lemmas about `Crab.Itv`: membership through the normalising constructor,
    bottom, and the building blocks of the soundness proofs. -/
namespace Crab
namespace Itv
open Bound

theorem mem_def (k : Int) (i : Itv) : mem k i ↔ (Bound.le i.lb (fin k) = true ∧ Bound.le (fin k) i.ub = true) := Iff.rfl

theorem not_mem_bot (k : Int) : ¬ mem k bot := by
  simp [mem, bot]; omega

theorem mem_mk' (k : Int) (l u : Bound) :
    mem k (mk' l u) ↔ (Bound.le l (fin k) = true ∧ Bound.le (fin k) u = true) := by
  unfold mk'
  split
  · rename_i h
    constructor
    · intro hm; exact absurd hm (not_mem_bot k)
    · intro ⟨h1, h2⟩
      have := Bound.le_trans h1 h2
      simp [Bound.gt] at h; simp [h] at this
  · rfl

theorem not_mem_of_isBottom {k : Int} {i : Itv} (h : i.isBottom = true) : ¬ mem k i := by
  intro ⟨h1, h2⟩
  have := Bound.le_trans h1 h2
  simp [isBottom, Bound.gt] at h; simp [h] at this

theorem isBottom_false_of_mem {k : Int} {i : Itv} (h : mem k i) : i.isBottom = false := by
  cases hb : i.isBottom
  · rfl
  · exact absurd h (not_mem_of_isBottom hb)

theorem isBottom_bot : bot.isBottom = true := by decide

theorem mem_top (k : Int) : mem k top := by simp [mem, top]

theorem mem_single (k j : Int) : mem k (single j) ↔ k = j := by
  simp [mem, single]; omega

theorem contains_iff (i : Itv) (k : Int) : i.contains k = true ↔ mem k i := by
  unfold contains
  split
  · rename_i h; simp; exact not_mem_of_isBottom h
  · simp [mem]

/-- a non-bottom interval with equal finite bounds -/
theorem singleton?_some {a : Itv} {c : Int} (h : a.singleton? = some c) :
    a.lb = fin c ∧ a.ub = fin c := by
  unfold singleton? at h
  split at h
  · rename_i hc
    simp at hc
    obtain ⟨_, he⟩ := hc
    cases hl : a.lb <;> simp [hl, number?] at h
    subst h
    exact ⟨rfl, by rw [← he, hl]⟩
  · simp at h

theorem mem_of_singleton? {a : Itv} {c k : Int} (h : a.singleton? = some c) (hk : mem k a) : k = c := by
  obtain ⟨h1, h2⟩ := singleton?_some h
  simp [mem, h1, h2] at hk; omega

end Itv
end Crab
