import CrabProofs.Lemmas.IDomOps2
import CrabProofs.Lemmas.IDomSorted
import CrabProofs.Lemmas.IDomWiden
import CrabModel.Dom.History
import CrabModel.Fix.Semantics

/-!
  The interval domain as an instance of the generic contracts:
   * `SEnv`: the environments that satisfy the map invariant of `separate_domain` (one binding
     per variable), with the operations of the domain (they preserve the invariant);
   * a small statement language whose abstract execution is made of the operations of the domain
     and whose concrete meaning is a relation on states: each statement is a `Dom.Trans`;
   * the `Crab.Fix.Sem` contract of the fixpoint engine for block transformers made of these
     statements.
-/
namespace Crab
namespace IDom
open Lin

/-- environments with at most one binding per variable (what the Patricia tree guarantees) -/
def SEnv := { e : Env // e.Sorted }

namespace SEnv

def γ (a : SEnv) (σ : State) : Prop := Env.γ a.1 σ

def bot : SEnv := ⟨Env.bot, Env.sorted_bot⟩
def top : SEnv := ⟨Env.top, Env.sorted_top⟩
def leq (a b : SEnv) : Bool := Env.leq a.1 b.1
def join (a b : SEnv) : SEnv := ⟨Env.join a.1 b.1, Env.upperWith_sorted _ a.2 b.2⟩
def widen (a b : SEnv) : SEnv := ⟨Env.widen a.1 b.1, Env.upperWith_sorted _ a.2 b.2⟩
def widenTh (ts : Thresholds) (a b : SEnv) : SEnv := ⟨Env.widenTh ts a.1 b.1, Env.upperWith_sorted _ a.2 b.2⟩
def meet (a b : SEnv) : SEnv := ⟨Env.meet a.1 b.1, Env.lowerWith_sorted _ a.2 b.1⟩
def narrow (a b : SEnv) : SEnv := ⟨Env.narrow a.1 b.1, Env.lowerWith_sorted _ a.2 b.1⟩

/-- the operations record of the fixpoint engine -/
def ops : Fix.Ops SEnv := ⟨bot, top, leq, join, meet, widen, narrow⟩

end SEnv

/-! ### statements -/

/-- the shift amount of `LShr` must fit a machine word (the scalar operation reduces it modulo
    `2^64`, see `Itv.lshr_big_shift`): outside of that the statement has no concrete successor here -/
def BitOp.conc64 (op : BitOp) (a b : Int) : Option Int :=
  if op = .lshr ∧ ¬ b < 2 ^ 64 then none else op.conc a b

inductive Stmt where
  | assign (x : Var) (e : Expr)
  | arithVar (op : ArithOp) (x y z : Var)
  | arithCst (op : ArithOp) (x y : Var) (k : Int)
  | bitVar (op : BitOp) (x y z : Var)
  | bitCst (op : BitOp) (x y : Var) (k : Int)
  | assume (csts : Sys)
  | select (lhs : Var) (cond : Cst) (e1 e2 : Expr)
  | havoc (vs : List Var)
  | project (vs : List Var)
  | expand (x nx : Var)
  | cast (zext : Bool) (bw : Nat) (dst src : Var)

namespace Stmt

/-- abstract execution: one call of the domain -/
def exec : Stmt → Env → Env
  | assign x e, a => a.assign x e
  | arithVar op x y z, a => a.applyVar op x y z
  | arithCst op x y k, a => a.applyCst op x y k
  | bitVar op x y z, a => a.applyBitVar op x y z
  | bitCst op x y k, a => a.applyBitCst op x y k
  | assume csts, a => a.add csts
  | select lhs c e1 e2, a => a.select lhs c e1 e2
  | havoc vs, a => a.forgetAll vs
  | project vs, a => a.project vs
  | expand x nx, a => a.expand x nx
  | cast z bw d s, a => a.intCast z bw d s

/-- concrete meaning: the transition relation on states -/
def rel : Stmt → State → State → Prop
  | assign x e, s, s' => s' = upd s x (e.eval s)
  | arithVar op x y z, s, s' => ∃ c, op.conc (s y) (s z) = some c ∧ s' = upd s x c
  | arithCst op x y k, s, s' => ∃ c, op.conc (s y) k = some c ∧ s' = upd s x c
  | bitVar op x y z, s, s' => ∃ c, op.conc64 (s y) (s z) = some c ∧ s' = upd s x c
  | bitCst op x y k, s, s' => ∃ c, op.conc64 (s y) k = some c ∧ s' = upd s x c
  | assume csts, s, s' => Sys.sat csts s ∧ s' = s
  | select lhs c e1 e2, s, s' => s' = upd s lhs (if c.sat s then e1.eval s else e2.eval s)
  | havoc vs, s, s' => ∀ y, y ∉ vs → s' y = s y
  | project vs, s, s' => ∀ y, y ∈ vs → s' y = s y
  | expand x nx, s, s' => s' = upd s nx (s x)
  | cast z bw d src, s, s' => (z = true → s src ≤ 2 ^ bw - 1) ∧ s' = upd s d (s src)

/-- the constraints of the statement are in the form the class `linear_expression` maintains
    (sorted variables, no zero coefficient) -/
def Ok : Stmt → Prop
  | assume csts => ∀ c ∈ csts, c.expr.Canonical
  | select _ c _ _ => c.expr.Canonical
  | _ => True

theorem exec_sorted (st : Stmt) (a : Env) (h : a.Sorted) : (st.exec a).Sorted := by
  cases st <;> simp only [exec]
  · exact Env.assign_inv Env.sortedInv _ _ _ h
  · exact Env.applyVar_inv Env.sortedInv _ _ _ _ _ h
  · exact Env.applyCst_inv Env.sortedInv _ _ _ _ _ h
  · exact Env.applyBitVar_inv Env.sortedInv _ _ _ _ _ h
  · exact Env.applyBitCst_inv Env.sortedInv _ _ _ _ _ h
  · exact Env.add_inv Env.sortedInv _ _ h
  · exact Env.select_inv Env.sortedInv _ _ _ _ _ h
  · exact Env.forgetAll_inv Env.sortedInv _ _ h
  · exact Env.project_inv Env.sortedInv _ _ h
  · exact Env.expand_inv Env.sortedInv _ _ _ h
  · exact Env.intCast_inv Env.sortedInv _ _ _ _ _ h

theorem conc64_some {op : BitOp} {a b c : Int} (h : op.conc64 a b = some c) :
    op.conc a b = some c ∧ (op = .lshr → b < 2 ^ 64) := by
  unfold BitOp.conc64 at h
  split at h
  · simp at h
  · rename_i hn
    refine ⟨h, fun ho => ?_⟩
    apply Classical.byContradiction
    intro hb; exact hn ⟨ho, hb⟩

/-- **every statement is sound**: the abstract execution describes every concrete successor -/
theorem exec_sound (st : Stmt) (hok : st.Ok) {a : Env} {s s' : State} (hg : Env.γ a s) (hr : st.rel s s') :
    Env.γ (st.exec a) s' := by
  cases st with
  | assign x e => simp only [rel] at hr; subst hr; exact Env.assign_sound hg x e
  | arithVar op x y z =>
    obtain ⟨c, hc, hs⟩ := hr; subst hs
    exact Env.set_sound hg (op.eval_sound (hg.2 y) (hg.2 z) hc) x
  | arithCst op x y k =>
    obtain ⟨c, hc, hs⟩ := hr; subst hs
    exact Env.set_sound hg (op.eval_sound (hg.2 y) ((Itv.mem_single k k).2 rfl) hc) x
  | bitVar op x y z =>
    obtain ⟨c, hc, hs⟩ := hr; subst hs
    obtain ⟨h1, h2⟩ := conc64_some hc
    exact Env.set_sound hg (op.eval_sound (hg.2 y) (hg.2 z) h1 h2) x
  | bitCst op x y k =>
    obtain ⟨c, hc, hs⟩ := hr; subst hs
    obtain ⟨h1, h2⟩ := conc64_some hc
    exact Env.set_sound hg (op.eval_sound (hg.2 y) ((Itv.mem_single k k).2 rfl) h1 h2) x
  | assume csts =>
    obtain ⟨hsat, hs⟩ := hr; subst hs
    exact Env.add_sound hg hok hsat
  | select lhs c e1 e2 => simp only [rel] at hr; subst hr; exact Env.select_sound hg lhs hok e1 e2
  | havoc vs => exact Env.forgetAll_sound hg vs hr
  | project vs => exact Env.project_sound hg vs hr
  | expand x nx => simp only [rel] at hr; subst hr; exact Env.expand_sound hg x nx (hg.2 x)
  | cast z bw d src => obtain ⟨hz, hs⟩ := hr; subst hs; exact Env.intCast_sound hg z bw d src hz

/-- lifted to the environments with the map invariant -/
def execS (st : Stmt) (a : SEnv) : SEnv := ⟨st.exec a.1, st.exec_sorted a.1 a.2⟩

end Stmt

/-! ### blocks -/

def execBlock (b : List Stmt) (a : SEnv) : SEnv := b.foldl (fun a st => st.execS a) a

/-- the composition of the relations of the statements -/
def BlockRel : List Stmt → State → State → Prop
  | [], s, s' => s' = s
  | st :: rest, s, s' => ∃ t, st.rel s t ∧ BlockRel rest t s'

theorem execBlock_sound : ∀ (b : List Stmt), (∀ st ∈ b, st.Ok) → ∀ (a : SEnv) (s s' : State),
    a.γ s → BlockRel b s s' → (execBlock b a).γ s' := by
  intro b
  induction b with
  | nil => intro _ a s s' hg hr; simp only [BlockRel] at hr; subst hr; exact hg
  | cons st rest ih =>
    intro hok a s s' hg hr
    obtain ⟨t, h1, h2⟩ := hr
    simp only [execBlock, List.foldl_cons]
    exact ih (fun q hq => hok q (List.mem_cons_of_mem _ hq)) (st.execS a) t s'
      (st.exec_sound (hok st List.mem_cons_self) hg h1) h2

/-! ### the contract of the fixpoint engine -/

/-- a context of the iterator whose value type is the interval domain and whose block
    transformers are blocks of statements -/
def mkCtx (prog : Nat → List Stmt) (preds : Nat → List Nat) (nesting : Nat → Option (List Nat))
    (entry : Nat) (init : SEnv) (assumptions : Option (List (Nat × SEnv))) (delay descending : Nat) :
    Fix.Ctx SEnv :=
  { ops := SEnv.ops, analyze := fun n a => execBlock (prog n) a, preds := preds, nesting := nesting,
    entry := entry, init := init, assumptions := assumptions, delay := delay, descending := descending }

/-- the soundness contract `Crab.Fix.Sem` holds for the interval domain -/
def sem (prog : Nat → List Stmt) (hok : ∀ n, ∀ st ∈ prog n, st.Ok) (preds : Nat → List Nat)
    (nesting : Nat → Option (List Nat)) (entry : Nat) (init : SEnv)
    (assumptions : Option (List (Nat × SEnv))) (delay descending : Nat) :
    Fix.Sem (mkCtx prog preds nesting entry init assumptions delay descending) State where
  γ := SEnv.γ
  step := fun n s s' => BlockRel (prog n) s s'
  analyze_sound := fun n a s s' hg hr => execBlock_sound (prog n) (hok n) a s s' hg hr
  join_left := fun a b _ h => Env.join_upper_left a.2 b.1 h
  join_right := fun a _ _ h => Env.join_upper_right a.2 h
  widen_left := fun a b _ h => Env.widen_upper_left a.2 b.1 h
  widen_right := fun a _ _ h => Env.widen_upper_right a.2 h
  meet_sound := fun a _ _ h1 h2 => Env.meet_sound a.2 h1 h2
  narrow_sound := fun a _ _ h1 h2 => Env.narrow_sound a.2 h1 h2
  leq_sound := fun _ _ _ h hg => Env.leq_sound h hg

/-- the chain condition of the engine (`Fix.WidenStep`) for these contexts -/
theorem widenStep_wf (c : Fix.Ctx SEnv) (hops : c.ops = SEnv.ops) : WellFounded (Fix.WidenStep c) := by
  apply Subrelation.wf (r := InvImage (fun x' x : Env => ∃ y, Env.leq y x = false ∧ x' = Env.widen x y) Subtype.val)
  · intro x' x ⟨y, hy, e⟩
    rw [hops] at hy e
    exact ⟨y.1, hy, by rw [e]; rfl⟩
  · exact InvImage.wf _ Env.widen_wf

end IDom
end Crab
