import CrabProofs.Lemmas.PatriciaCompare

/-! `tree::merge` is the pointwise combination of the bindings, in both
    `default_is_absorbing` modes and both combination directions. -/
namespace Crab
namespace Patricia
open Tree

variable {V : Type} {P : V → Prop}

/-- pointwise effect of `merge` on "binding or default"; outer `none` = bottom is raised.
    A key bound on one side only keeps its value when the default is neutral and loses it
    when the default is absorbing (`apply` is not called). -/
def pw (op : BinOp V) (l2r : Bool) (k : Nat) : Option V → Option V → Option (Option V)
  | some x, some y =>
    match app op l2r k x y with
    | .bottom => none
    | .dflt => some none
    | .val z => some (some z)
  | some x, none => some (if op.absorbing then none else some x)
  | none, some y => some (if op.absorbing then none else some y)
  | none, none => some none

/-- what `merge` guarantees -/
def MergeOK (P : V → Prop) (op : BinOp V) (l2r : Bool) (s t : Tree V) (res : Option (Tree V)) : Prop :=
  match res with
  | none => ∃ k, pw op l2r k (s.lookup k) (t.lookup k) = none
  | some r => WF P r ∧ ∀ k, pw op l2r k (s.lookup k) (t.lookup k) = some (r.lookup k)

/-- `apply(k, x, x) = x` on stored values (what the `s == t` shortcut relies on) -/
def BinOp.Idem (op : BinOp V) (P : V → Prop) : Prop := ∀ k x, P x → op.apply k x x = .val x

@[simp] theorem pw_none_none (op : BinOp V) (l2r : Bool) (k : Nat) : pw op l2r k none none = some none := rfl

theorem pw_none_right (op : BinOp V) (l2r : Bool) (k : Nat) (a : Option V) :
    pw op l2r k a none = some (if op.absorbing then none else a) := by
  cases a <;> simp [pw]

theorem pw_none_left (op : BinOp V) (l2r : Bool) (k : Nat) (b : Option V) :
    pw op l2r k none b = some (if op.absorbing then none else b) := by
  cases b <;> simp [pw]

theorem pw_eq_none {op : BinOp V} {l2r : Bool} {k : Nat} {a b : Option V} (h : pw op l2r k a b = none) :
    ∃ x y, a = some x ∧ b = some y ∧ app op l2r k x y = .bottom := by
  cases a <;> cases b <;> simp [pw] at h
  rename_i x y
  refine ⟨x, y, rfl, rfl, ?_⟩
  cases hr : app op l2r k x y <;> simp [hr] at h
  rfl

theorem pw_some_some {op : BinOp V} {l2r : Bool} {k : Nat} {a b : Option V} {z : V}
    (h : pw op l2r k a b = some (some z)) : (∃ x, a = some x) ∨ (∃ y, b = some y) := by
  cases a <;> cases b <;> simp [pw] at h
  · rename_i y; exact Or.inr ⟨y, rfl⟩
  · rename_i x; exact Or.inl ⟨x, rfl⟩
  · rename_i x y; exact Or.inl ⟨x, rfl⟩

/-- the values produced satisfy the invariant -/
theorem pw_val {op : BinOp V} (hop : op.Pres P) {l2r : Bool} {k : Nat} {a b : Option V} {z : V}
    (ha : ∀ x, a = some x → P x) (hb : ∀ y, b = some y → P y)
    (h : pw op l2r k a b = some (some z)) : P z := by
  cases a <;> cases b <;> simp [pw] at h
  · rename_i y
    obtain ⟨_, rfl⟩ := h; exact hb _ rfl
  · rename_i x
    obtain ⟨_, rfl⟩ := h; exact ha _ rfl
  · rename_i x y
    cases hr : app op l2r k x y <;> simp [hr] at h
    subst h
    exact hop.app (ha _ rfl) (hb _ rfl) hr

/-- keys of the result of a merge come from the operands -/
theorem keys_of_mergeOK {op : BinOp V} {l2r : Bool} {s t r : Tree V} (hr : WF P r)
    (h : ∀ k, pw op l2r k (s.lookup k) (t.lookup k) = some (r.lookup k)) :
    ∀ k ∈ r.keys, k ∈ s.keys ∨ k ∈ t.keys := by
  intro k hk
  obtain ⟨z, hz⟩ := (mem_keys_iff_lookup hr).mp hk
  have := h k
  rw [hz] at this
  rcases pw_some_some this with ⟨x, hx⟩ | ⟨y, hy⟩
  · exact Or.inl (mem_keys_of_lookup hx)
  · exact Or.inr (mem_keys_of_lookup hy)

theorem pw_pivot {op : BinOp V} {l2r : Bool} {s t r a b c d e f : Tree V} {pv : Nat}
    (hs : ∀ k, s.lookup k = if k ≤ pv then a.lookup k else b.lookup k)
    (ht : ∀ k, t.lookup k = if k ≤ pv then c.lookup k else d.lookup k)
    (hr : ∀ k, r.lookup k = if k ≤ pv then e.lookup k else f.lookup k)
    (h1 : ∀ k, pw op l2r k (a.lookup k) (c.lookup k) = some (e.lookup k))
    (h2 : ∀ k, pw op l2r k (b.lookup k) (d.lookup k) = some (f.lookup k)) :
    ∀ k, pw op l2r k (s.lookup k) (t.lookup k) = some (r.lookup k) := by
  intro k
  rw [hs, ht, hr]
  split
  · exact h1 k
  · exact h2 k

theorem lookup_pivot_left {t : Tree V} {pv : Nat} (h : ∀ k ∈ t.keys, k ≤ pv) (k : Nat) :
    t.lookup k = if k ≤ pv then t.lookup k else (Tree.empty : Tree V).lookup k := by
  split
  · rfl
  · rename_i hk; exact lookup_none_of_not_mem (fun hm => hk (h k hm))

theorem lookup_pivot_right {t : Tree V} {pv : Nat} (h : ∀ k ∈ t.keys, pv < k) (k : Nat) :
    t.lookup k = if k ≤ pv then (Tree.empty : Tree V).lookup k else t.lookup k := by
  split
  · rename_i hk; exact lookup_none_of_not_mem (fun hm => by have := h k hm; omega)
  · rfl

/-! ### trivial and shortcut cases -/

theorem mergeOK_empty_left (op : BinOp V) (l2r : Bool) {t : Tree V} (ht : WF P t) :
    MergeOK P op l2r .empty t (if op.absorbing then some .empty else some t) := by
  split
  · rename_i h; exact ⟨trivial, fun k => by simp [pw_none_left, h]⟩
  · rename_i h; exact ⟨ht, fun k => by simp [pw_none_left, h]⟩

theorem mergeOK_empty_right (op : BinOp V) (l2r : Bool) {s : Tree V} (hs : WF P s) :
    MergeOK P op l2r s .empty (if op.absorbing then some .empty else some s) := by
  split
  · rename_i h; exact ⟨trivial, fun k => by simp [pw_none_right, h]⟩
  · rename_i h; exact ⟨hs, fun k => by simp [pw_none_right, h]⟩

theorem mergeOK_self {op : BinOp V} (hid : op.Idem P) (l2r : Bool) {s : Tree V} (hs : WF P s) :
    MergeOK P op l2r s s (some s) := by
  refine ⟨hs, fun k => ?_⟩
  cases hl : s.lookup k with
  | none => rfl
  | some x =>
    have : app op l2r k x x = .val x := by
      cases l2r <;> exact hid k x (hs.val_of_lookup hl)
    simp [pw, this]

/-! ### a leaf against a tree -/

theorem mergeLeafL_ok {c : Ctx V} {op : BinOp V} {l2r : Bool} (hc : c.SoundOn P) (hop : op.Pres P)
    {ks : Nat} {vs : V} {t : Tree V} (hs : WF P (.leaf ks vs)) (ht : WF P t) :
    MergeOK P op l2r (.leaf ks vs) t (mergeLeafL c op l2r ks vs t) := by
  unfold mergeLeafL
  split
  · rename_i hab
    cases hf : t.lookup ks with
    | none =>
      refine ⟨trivial, fun k => ?_⟩
      by_cases e : ks = k
      · subst e; simp [hf, pw, hab]
      · simp [e, pw_none_left, hab]
    | some value =>
      simp only
      rw [combineLeaf_spec hc hs.2]
      have e1 : (if l2r = true then op.apply ks vs value else op.apply ks value vs) = app op l2r ks vs value := rfl
      rw [e1]
      cases hr : app op l2r ks vs value with
      | bottom => exact ⟨ks, by simp [hf, pw, hr]⟩
      | dflt =>
        refine ⟨trivial, fun k => ?_⟩
        by_cases e : ks = k
        · subst e; simp [hf, pw, hr]
        · simp [e, pw_none_left, hab]
      | val nv =>
        refine ⟨⟨hs.1, hop.app hs.2 (ht.val_of_lookup hf) hr⟩, fun k => ?_⟩
        by_cases e : ks = k
        · subst e; simp [hf, pw, hr]
        · simp [e, pw_none_left, hab]
  · rename_i hab
    have h := insert_spec (l2r := !l2r) hc hop hs.1 hs.2 ht
    cases hres : insert c op (!l2r) t ks vs with
    | none =>
      rw [hres] at h
      simp only [InsertOK] at h
      cases hf : t.lookup ks with
      | none => simp [hf, insSpec] at h
      | some y =>
        rw [hf] at h
        refine ⟨ks, ?_⟩
        simp only [lookup_leaf, if_true, hf, pw]
        simp only [insSpec, app_not] at h
        exact h
    | some r =>
      rw [hres] at h
      obtain ⟨hwr, hsp, hoth⟩ := h
      refine ⟨hwr, fun k => ?_⟩
      by_cases e : ks = k
      · subst e
        simp only [lookup_leaf, if_true]
        rw [← hsp]
        cases hf : t.lookup ks with
        | none => simp [pw, insSpec]
        | some y => simp only [pw, insSpec, app_not]; rfl
      · have e' : k ≠ ks := fun h => e h.symm
        simp only [lookup_leaf, e, if_false]
        rw [hoth k e', pw_none_left]
        simp [hab]

theorem mergeLeafR_ok {c : Ctx V} {op : BinOp V} {l2r : Bool} (hc : c.SoundOn P) (hop : op.Pres P)
    {kt : Nat} {vt : V} {s : Tree V} (hs : WF P s) (ht : WF P (.leaf kt vt)) :
    MergeOK P op l2r s (.leaf kt vt) (mergeLeafR c op l2r s kt vt) := by
  unfold mergeLeafR
  split
  · rename_i hab
    cases hf : s.lookup kt with
    | none =>
      refine ⟨trivial, fun k => ?_⟩
      by_cases e : kt = k
      · subst e; simp [hf, pw, hab]
      · simp [e, pw_none_right, hab]
    | some value =>
      simp only
      rw [combineLeaf_spec hc ht.2]
      have e1 : (if l2r = true then op.apply kt value vt else op.apply kt vt value) = app op l2r kt value vt := rfl
      rw [e1]
      cases hr : app op l2r kt value vt with
      | bottom => exact ⟨kt, by simp [hf, pw, hr]⟩
      | dflt =>
        refine ⟨trivial, fun k => ?_⟩
        by_cases e : kt = k
        · subst e; simp [hf, pw, hr]
        · simp [e, pw_none_right, hab]
      | val nv =>
        refine ⟨⟨ht.1, hop.app (hs.val_of_lookup hf) ht.2 hr⟩, fun k => ?_⟩
        by_cases e : kt = k
        · subst e; simp [hf, pw, hr]
        · simp [e, pw_none_right, hab]
  · rename_i hab
    have h := insert_spec (l2r := l2r) hc hop ht.1 ht.2 hs
    cases hres : insert c op l2r s kt vt with
    | none =>
      rw [hres] at h
      simp only [InsertOK] at h
      cases hf : s.lookup kt with
      | none => simp [hf, insSpec] at h
      | some x =>
        rw [hf] at h
        refine ⟨kt, ?_⟩
        simp only [lookup_leaf, if_true, hf, pw]
        simp only [insSpec] at h
        exact h
    | some r =>
      rw [hres] at h
      obtain ⟨hwr, hsp, hoth⟩ := h
      refine ⟨hwr, fun k => ?_⟩
      by_cases e : kt = k
      · subst e
        simp only [lookup_leaf, if_true]
        rw [← hsp]
        cases hf : s.lookup kt with
        | none => simp [pw, insSpec]
        | some x => simp only [pw, insSpec]; rfl
      · have e' : k ≠ kt := fun h => e h.symm
        simp only [lookup_leaf, e, if_false]
        rw [hoth k e', pw_none_right]
        simp [hab]

/-! ### two nodes -/

section
variable {op : BinOp V} {l2r : Bool} {p i q j : Nat} {sl sr tl tr : Tree V}

theorem mergeOK_none_of_left {s t a c : Tree V} {pv : Nat}
    (hs : ∀ k, k ≤ pv → s.lookup k = a.lookup k) (ht : ∀ k, k ≤ pv → t.lookup k = c.lookup k)
    (ha : ∀ k ∈ a.keys, k ≤ pv) (h : MergeOK P op l2r a c none) : MergeOK P op l2r s t none := by
  obtain ⟨k, hk⟩ := h
  obtain ⟨x, y, hx, hy, _⟩ := pw_eq_none hk
  have : k ≤ pv := ha k (mem_keys_of_lookup hx)
  exact ⟨k, by rw [hs k this, ht k this]; exact hk⟩

theorem mergeOK_none_of_right {s t b d : Tree V} {pv : Nat}
    (hs : ∀ k, pv < k → s.lookup k = b.lookup k) (ht : ∀ k, pv < k → t.lookup k = d.lookup k)
    (hb : ∀ k ∈ b.keys, pv < k) (h : MergeOK P op l2r b d none) : MergeOK P op l2r s t none := by
  obtain ⟨k, hk⟩ := h
  obtain ⟨x, y, hx, hy, _⟩ := pw_eq_none hk
  have : pv < k := hb k (mem_keys_of_lookup hx)
  exact ⟨k, by rw [hs k this, ht k this]; exact hk⟩

theorem lookup_node_le {p m : Nat} {l r : Tree V} {k : Nat} (h : k ≤ p) : (Tree.node p m l r).lookup k = l.lookup k := by
  simp [h]
theorem lookup_node_gt {p m : Nat} {l r : Tree V} {k : Nat} (h : p < k) : (Tree.node p m l r).lookup k = r.lookup k := by
  have : ¬ k ≤ p := by omega
  simp [this]

/-- same prefix and branching bit: merge the two halves -/
theorem mergeOK_same (hs : WF P (.node p (2 ^ i) sl sr)) (ht : WF P (.node p (2 ^ i) tl tr)) {nl nr : Tree V}
    (hl : MergeOK P op l2r sl tl (some nl)) (hr : MergeOK P op l2r sr tr (some nr)) :
    MergeOK P op l2r (.node p (2 ^ i) sl sr) (.node p (2 ^ i) tl tr) (some (mkNode p (2 ^ i) nl nr)) := by
  obtain ⟨hwl, hpl⟩ := hl
  obtain ⟨hwr, hpr⟩ := hr
  obtain ⟨hal, hi, hp⟩ := aligned_of_WF hs
  have hs' := hs
  have ht' := ht
  obtain ⟨i1, _, he1, _, _, _, _, _, _, hksl, hksr⟩ := hs
  have : i = i1 := two_pow_inj.mp he1
  subst this
  obtain ⟨i2, _, he2, _, _, _, _, _, _, hktl, hktr⟩ := ht
  have : i = i2 := two_pow_inj.mp he2
  subst this
  have kl : ∀ k ∈ nl.keys, InL i p k := fun k hk =>
    (keys_of_mergeOK hwl hpl k hk).elim (hksl k) (hktl k)
  have kr : ∀ k ∈ nr.keys, InR i p k := fun k hk =>
    (keys_of_mergeOK hwr hpr k hk).elim (hksr k) (hktr k)
  refine ⟨WF_mkNode hi hp hal hwl hwr kl kr, ?_⟩
  exact pw_pivot (pv := p) (fun _ => rfl) (fun _ => rfl)
    (lookup_mkNode (fun k hk => le_of_InL hal (kl k hk)) (fun k hk => lt_of_InR hal (kr k hk))) hpl hpr

/-- `t` lies in the left half of `s` -/
theorem mergeOK_gt_left (hs : WF P (.node p (2 ^ i) sl sr)) (ht : WF P (.node q (2 ^ j) tl tr))
    (hji : j < i) (hag : AgreeAbove i q p) (hb : q.testBit i = false) {nl : Tree V}
    (hl : MergeOK P op l2r sl (.node q (2 ^ j) tl tr) (some nl)) :
    MergeOK P op l2r (.node p (2 ^ i) sl sr) (.node q (2 ^ j) tl tr)
      (some (mkNode p (2 ^ i) nl (if op.absorbing then .empty else sr))) := by
  obtain ⟨hwl, hpl⟩ := hl
  obtain ⟨hal, hi, hp⟩ := aligned_of_WF hs
  have hs' := hs
  obtain ⟨i1, _, he1, _, _, _, _, _, hwsr, hksl, hksr⟩ := hs
  have : i = i1 := two_pow_inj.mp he1
  subst this
  have hkt : ∀ k ∈ (Tree.node q (2 ^ j) tl tr).keys, InL i p k := fun k hk =>
    ⟨(keys_inside ht hji hag k hk).1, by rw [(keys_inside ht hji hag k hk).2, hb]⟩
  have kl : ∀ k ∈ nl.keys, InL i p k := fun k hk =>
    (keys_of_mergeOK hwl hpl k hk).elim (hksl k) (hkt k)
  have hwn : WF P (if op.absorbing then (.empty : Tree V) else sr) := by split <;> simp [hwsr]
  have kr : ∀ k ∈ (if op.absorbing then (.empty : Tree V) else sr).keys, InR i p k := by
    split
    · simp
    · exact hksr
  refine ⟨WF_mkNode hi hp hal hwl hwn kl kr, ?_⟩
  refine pw_pivot (pv := p) (d := .empty) (fun _ => rfl)
    (lookup_pivot_left (fun k hk => le_of_InL hal (hkt k hk)))
    (lookup_mkNode (fun k hk => le_of_InL hal (kl k hk)) (fun k hk => lt_of_InR hal (kr k hk))) hpl ?_
  intro k
  rw [lookup_empty, pw_none_right]
  split <;> simp

/-- `t` lies in the right half of `s` -/
theorem mergeOK_gt_right (hs : WF P (.node p (2 ^ i) sl sr)) (ht : WF P (.node q (2 ^ j) tl tr))
    (hji : j < i) (hag : AgreeAbove i q p) (hb : q.testBit i = true) {nr : Tree V}
    (hr : MergeOK P op l2r sr (.node q (2 ^ j) tl tr) (some nr)) :
    MergeOK P op l2r (.node p (2 ^ i) sl sr) (.node q (2 ^ j) tl tr)
      (some (mkNode p (2 ^ i) (if op.absorbing then .empty else sl) nr)) := by
  obtain ⟨hwr, hpr⟩ := hr
  obtain ⟨hal, hi, hp⟩ := aligned_of_WF hs
  have hs' := hs
  obtain ⟨i1, _, he1, _, _, _, _, hwsl, _, hksl, hksr⟩ := hs
  have : i = i1 := two_pow_inj.mp he1
  subst this
  have hkt : ∀ k ∈ (Tree.node q (2 ^ j) tl tr).keys, InR i p k := fun k hk =>
    ⟨(keys_inside ht hji hag k hk).1, by rw [(keys_inside ht hji hag k hk).2, hb]⟩
  have kr : ∀ k ∈ nr.keys, InR i p k := fun k hk =>
    (keys_of_mergeOK hwr hpr k hk).elim (hksr k) (hkt k)
  have hwn : WF P (if op.absorbing then (.empty : Tree V) else sl) := by split <;> simp [hwsl]
  have kl : ∀ k ∈ (if op.absorbing then (.empty : Tree V) else sl).keys, InL i p k := by
    split
    · simp
    · exact hksl
  refine ⟨WF_mkNode hi hp hal hwn hwr kl kr, ?_⟩
  refine pw_pivot (pv := p) (c := .empty) (fun _ => rfl)
    (lookup_pivot_right (fun k hk => lt_of_InR hal (hkt k hk)))
    (lookup_mkNode (fun k hk => le_of_InL hal (kl k hk)) (fun k hk => lt_of_InR hal (kr k hk))) ?_ hpr
  intro k
  rw [lookup_empty, pw_none_right]
  split <;> simp

/-- `s` lies in the left half of `t` -/
theorem mergeOK_lt_left (hs : WF P (.node p (2 ^ i) sl sr)) (ht : WF P (.node q (2 ^ j) tl tr))
    (hij : i < j) (hag : AgreeAbove j p q) (hb : p.testBit j = false) {nl : Tree V}
    (hl : MergeOK P op l2r (.node p (2 ^ i) sl sr) tl (some nl)) :
    MergeOK P op l2r (.node p (2 ^ i) sl sr) (.node q (2 ^ j) tl tr)
      (some (mkNode q (2 ^ j) nl (if op.absorbing then .empty else tr))) := by
  obtain ⟨hwl, hpl⟩ := hl
  obtain ⟨hal, hj, hq⟩ := aligned_of_WF ht
  have ht' := ht
  obtain ⟨j1, _, he1, _, _, _, _, _, hwtr, hktl, hktr⟩ := ht
  have : j = j1 := two_pow_inj.mp he1
  subst this
  have hks : ∀ k ∈ (Tree.node p (2 ^ i) sl sr).keys, InL j q k := fun k hk =>
    ⟨(keys_inside hs hij hag k hk).1, by rw [(keys_inside hs hij hag k hk).2, hb]⟩
  have kl : ∀ k ∈ nl.keys, InL j q k := fun k hk =>
    (keys_of_mergeOK hwl hpl k hk).elim (hks k) (hktl k)
  have hwn : WF P (if op.absorbing then (.empty : Tree V) else tr) := by split <;> simp [hwtr]
  have kr : ∀ k ∈ (if op.absorbing then (.empty : Tree V) else tr).keys, InR j q k := by
    split
    · simp
    · exact hktr
  refine ⟨WF_mkNode hj hq hal hwl hwn kl kr, ?_⟩
  refine pw_pivot (pv := q) (b := .empty)
    (lookup_pivot_left (fun k hk => le_of_InL hal (hks k hk))) (fun _ => rfl)
    (lookup_mkNode (fun k hk => le_of_InL hal (kl k hk)) (fun k hk => lt_of_InR hal (kr k hk))) hpl ?_
  intro k
  rw [lookup_empty, pw_none_left]
  split <;> simp

/-- `s` lies in the right half of `t` -/
theorem mergeOK_lt_right (hs : WF P (.node p (2 ^ i) sl sr)) (ht : WF P (.node q (2 ^ j) tl tr))
    (hij : i < j) (hag : AgreeAbove j p q) (hb : p.testBit j = true) {nr : Tree V}
    (hr : MergeOK P op l2r (.node p (2 ^ i) sl sr) tr (some nr)) :
    MergeOK P op l2r (.node p (2 ^ i) sl sr) (.node q (2 ^ j) tl tr)
      (some (mkNode q (2 ^ j) (if op.absorbing then .empty else tl) nr)) := by
  obtain ⟨hwr, hpr⟩ := hr
  obtain ⟨hal, hj, hq⟩ := aligned_of_WF ht
  have ht' := ht
  obtain ⟨j1, _, he1, _, _, _, _, hwtl, _, hktl, hktr⟩ := ht
  have : j = j1 := two_pow_inj.mp he1
  subst this
  have hks : ∀ k ∈ (Tree.node p (2 ^ i) sl sr).keys, InR j q k := fun k hk =>
    ⟨(keys_inside hs hij hag k hk).1, by rw [(keys_inside hs hij hag k hk).2, hb]⟩
  have kr : ∀ k ∈ nr.keys, InR j q k := fun k hk =>
    (keys_of_mergeOK hwr hpr k hk).elim (hks k) (hktr k)
  have hwn : WF P (if op.absorbing then (.empty : Tree V) else tl) := by split <;> simp [hwtl]
  have kl : ∀ k ∈ (if op.absorbing then (.empty : Tree V) else tl).keys, InL j q k := by
    split
    · simp
    · exact hktl
  refine ⟨WF_mkNode hj hq hal hwn hwr kl kr, ?_⟩
  refine pw_pivot (pv := q) (a := .empty)
    (lookup_pivot_right (fun k hk => lt_of_InR hal (hks k hk))) (fun _ => rfl)
    (lookup_mkNode (fun k hk => le_of_InL hal (kl k hk)) (fun k hk => lt_of_InR hal (kr k hk))) ?_ hpr
  intro k
  rw [lookup_empty, pw_none_left]
  split <;> simp

/-- disjoint key sets -/
theorem mergeOK_disjoint {s t : Tree V}
    (hdis : ∀ k, k ∈ s.keys → k ∉ t.keys) {r : Tree V} (hr : WF P r)
    (hl : ∀ k, r.lookup k = if op.absorbing then none else (s.lookup k).or (t.lookup k)) :
    MergeOK P op l2r s t (some r) := by
  refine ⟨hr, fun k => ?_⟩
  rw [hl]
  cases h1 : s.lookup k with
  | none => rw [pw_none_left]; simp
  | some x =>
    have : t.lookup k = none := lookup_none_of_not_mem (hdis k (mem_keys_of_lookup h1))
    rw [this, pw_none_right]; simp

end

theorem node_ne_of_WF2 {p m : Nat} {l r : Tree V} (hs : WF P (.node p m l r)) :
    l ≠ .empty ∧ r ≠ .empty ∧ WF P l ∧ WF P r := by
  obtain ⟨_, _, _, _, _, h1, h2, h3, h4, _⟩ := hs
  exact ⟨h1, h2, h3, h4⟩

/-- **`merge` is the pointwise combination**, for every sound pointer-equality oracle -/
theorem merge_ok {c : Ctx V} {op : BinOp V} (hc : c.SoundOn P) (hop : op.Pres P) (hid : op.Idem P)
    (l2r : Bool) (s t : Tree V) (hs : WF P s) (ht : WF P t) :
    MergeOK P op l2r s t (merge c op l2r s t) := by
  fun_induction merge c op l2r s t with
  | case1 t h => have := mergeOK_empty_left op l2r ht; simpa [h] using this
  | case2 t h => have := mergeOK_empty_left op l2r ht; simpa [h] using this
  | case3 ks vs h => have := mergeOK_empty_right op l2r hs; simpa [h] using this
  | case4 ks vs h => have := mergeOK_empty_right op l2r hs; simpa [h] using this
  | case5 p m sl sr h => have := mergeOK_empty_right op l2r hs; simpa [h] using this
  | case6 p m sl sr h => have := mergeOK_empty_right op l2r hs; simpa [h] using this
  | case7 ks vs kt vt h => rw [← hc.1 _ _ h]; exact mergeOK_self hid l2r hs
  | case8 ks vs kt vt h => exact mergeLeafL_ok hc hop hs ht
  | case9 ks vs q n tl tr h => rw [← hc.1 _ _ h]; exact mergeOK_self hid l2r hs
  | case10 ks vs q n tl tr h => exact mergeLeafL_ok hc hop hs ht
  | case11 p m sl sr kt vt h => rw [← hc.1 _ _ h]; exact mergeOK_self hid l2r hs
  | case12 p m sl sr kt vt h => exact mergeLeafR_ok hc hop hs ht
  | case13 p m sl sr q n tl tr h => rw [← hc.1 _ _ h]; exact mergeOK_self hid l2r hs
  | case14 p m sl sr q n tl tr h hpq hres ih =>
    obtain ⟨rfl, rfl⟩ := hpq
    obtain ⟨_, _, w1, w2⟩ := node_ne_of_WF2 hs
    obtain ⟨_, _, w3, w4⟩ := node_ne_of_WF2 ht
    have := ih w1 w3
    rw [hres] at this
    exact mergeOK_none_of_left (pv := p) (fun k hk => lookup_node_le hk) (fun k hk => lookup_node_le hk)
      hs.left_le this
  | case15 p m sl sr q n tl tr h hpq nl hresl hresr ih2 ih1 =>
    obtain ⟨rfl, rfl⟩ := hpq
    obtain ⟨_, _, w1, w2⟩ := node_ne_of_WF2 hs
    obtain ⟨_, _, w3, w4⟩ := node_ne_of_WF2 ht
    have := ih1 w2 w4
    rw [hresr] at this
    exact mergeOK_none_of_right (pv := p) (fun k hk => lookup_node_gt hk) (fun k hk => lookup_node_gt hk)
      hs.right_gt this
  | case16 p m sl sr q n tl tr h hpq nl hresl nr hresr hpeq ih2 ih1 =>
    obtain ⟨rfl, rfl⟩ := hpq
    obtain ⟨i, rfl⟩ := hs.bb_pow
    obtain ⟨n1, n2, w1, w2⟩ := node_ne_of_WF hs
    obtain ⟨_, _, w3, w4⟩ := node_ne_of_WF ht
    have hl := ih2 w1 w3; rw [hresl] at hl
    have hr := ih1 w2 w4; rw [hresr] at hr
    have := mergeOK_same hs ht hl hr
    rw [Bool.and_eq_true] at hpeq
    rw [hc.peq hpeq.1, hc.peq hpeq.2, mkNode_of_ne n1 n2] at this
    exact this
  | case17 p m sl sr q n tl tr h hpq nl hresl nr hresr hnpeq hpeq ih2 ih1 =>
    obtain ⟨rfl, rfl⟩ := hpq
    obtain ⟨i, rfl⟩ := hs.bb_pow
    obtain ⟨_, _, w1, w2⟩ := node_ne_of_WF hs
    obtain ⟨n3, n4, w3, w4⟩ := node_ne_of_WF ht
    have hl := ih2 w1 w3; rw [hresl] at hl
    have hr := ih1 w2 w4; rw [hresr] at hr
    have := mergeOK_same hs ht hl hr
    rw [Bool.and_eq_true] at hpeq
    rw [hc.peq hpeq.1, hc.peq hpeq.2, mkNode_of_ne n3 n4] at this
    exact this
  | case18 p m sl sr q n tl tr h hpq nl hresl nr hresr hnpeq hnpeq2 ih2 ih1 =>
    obtain ⟨rfl, rfl⟩ := hpq
    obtain ⟨i, rfl⟩ := hs.bb_pow
    obtain ⟨_, _, w1, w2⟩ := node_ne_of_WF hs
    obtain ⟨_, _, w3, w4⟩ := node_ne_of_WF ht
    have hl := ih2 w1 w3; rw [hresl] at hl
    have hr := ih1 w2 w4; rw [hresr] at hr
    exact mergeOK_same hs ht hl hr
  | case19 p m sl sr q n tl tr h hne hgt hz hres ih =>
    obtain ⟨i, rfl⟩ := hs.bb_pow
    obtain ⟨j, rfl⟩ := ht.bb_pow
    obtain ⟨hji, hag⟩ := (decode_gt hs ht).mp hgt
    have hb : q.testBit i = false := by rw [zeroBit_two_pow] at hz; simpa using hz
    have hal := (aligned_of_WF hs).1
    have hkt : ∀ k ∈ (Tree.node q (2 ^ j) tl tr).keys, k ≤ p := fun k hk =>
      le_of_InL hal ⟨(keys_inside ht hji hag k hk).1, by rw [(keys_inside ht hji hag k hk).2, hb]⟩
    have := ih (node_ne_of_WF hs).2.2.1 ht
    rw [hres] at this
    exact mergeOK_none_of_left (pv := p) (fun k hk => lookup_node_le hk) (fun _ _ => rfl) hs.left_le this
  | case20 p m sl sr q n tl tr h hne hgt hz nl hres sameR hpeq ih =>
    obtain ⟨i, rfl⟩ := hs.bb_pow
    obtain ⟨j, rfl⟩ := ht.bb_pow
    obtain ⟨hji, hag⟩ := (decode_gt hs ht).mp hgt
    have hb : q.testBit i = false := by rw [zeroBit_two_pow] at hz; simpa using hz
    obtain ⟨n1, n2, w1, w2⟩ := node_ne_of_WF hs
    have hl := ih w1 ht; rw [hres] at hl
    have := mergeOK_gt_left hs ht hji hag hb hl
    rw [Bool.and_eq_true] at hpeq
    have hna : ¬ op.absorbing = true := by
      intro ha
      have := hpeq.2
      simp [sameR, ha, isEmpty_false n2] at this
    rw [hc.peq hpeq.1, if_neg hna, mkNode_of_ne n1 n2] at this
    exact this
  | case21 p m sl sr q n tl tr h hne hgt hz nl hres newRb sameR hnpeq ih =>
    obtain ⟨i, rfl⟩ := hs.bb_pow
    obtain ⟨j, rfl⟩ := ht.bb_pow
    obtain ⟨hji, hag⟩ := (decode_gt hs ht).mp hgt
    have hb : q.testBit i = false := by rw [zeroBit_two_pow] at hz; simpa using hz
    have hl := ih (node_ne_of_WF hs).2.2.1 ht; rw [hres] at hl
    exact mergeOK_gt_left hs ht hji hag hb hl
  | case22 p m sl sr q n tl tr h hne hgt hz hres ih =>
    obtain ⟨i, rfl⟩ := hs.bb_pow
    obtain ⟨j, rfl⟩ := ht.bb_pow
    obtain ⟨hji, hag⟩ := (decode_gt hs ht).mp hgt
    have hb : q.testBit i = true := by rw [zeroBit_two_pow] at hz; simpa using hz
    have := ih (node_ne_of_WF hs).2.2.2 ht
    rw [hres] at this
    exact mergeOK_none_of_right (pv := p) (fun k hk => lookup_node_gt hk) (fun _ _ => rfl) hs.right_gt this
  | case23 p m sl sr q n tl tr h hne hgt hz sameL nr hres hpeq ih =>
    obtain ⟨i, rfl⟩ := hs.bb_pow
    obtain ⟨j, rfl⟩ := ht.bb_pow
    obtain ⟨hji, hag⟩ := (decode_gt hs ht).mp hgt
    have hb : q.testBit i = true := by rw [zeroBit_two_pow] at hz; simpa using hz
    obtain ⟨n1, n2, w1, w2⟩ := node_ne_of_WF hs
    have hr := ih w2 ht; rw [hres] at hr
    have := mergeOK_gt_right hs ht hji hag hb hr
    rw [Bool.and_eq_true] at hpeq
    have hna : ¬ op.absorbing = true := by
      intro ha
      have := hpeq.1
      simp [sameL, ha, isEmpty_false n1] at this
    rw [hc.peq hpeq.2, if_neg hna, mkNode_of_ne n1 n2] at this
    exact this
  | case24 p m sl sr q n tl tr h hne hgt hz newLb sameL nr hres hnpeq ih =>
    obtain ⟨i, rfl⟩ := hs.bb_pow
    obtain ⟨j, rfl⟩ := ht.bb_pow
    obtain ⟨hji, hag⟩ := (decode_gt hs ht).mp hgt
    have hb : q.testBit i = true := by rw [zeroBit_two_pow] at hz; simpa using hz
    have hr := ih (node_ne_of_WF hs).2.2.2 ht; rw [hres] at hr
    exact mergeOK_gt_right hs ht hji hag hb hr
  | case25 p m sl sr q n tl tr h hne hngt hlt hz hres ih =>
    obtain ⟨i, rfl⟩ := hs.bb_pow
    obtain ⟨j, rfl⟩ := ht.bb_pow
    obtain ⟨hij, hag⟩ := (decode_gt ht hs).mp hlt
    have hb : p.testBit j = false := by rw [zeroBit_two_pow] at hz; simpa using hz
    have hal := (aligned_of_WF ht).1
    have hks : ∀ k ∈ (Tree.node p (2 ^ i) sl sr).keys, k ≤ q := fun k hk =>
      le_of_InL hal ⟨(keys_inside hs hij hag k hk).1, by rw [(keys_inside hs hij hag k hk).2, hb]⟩
    have := ih hs (node_ne_of_WF ht).2.2.1
    rw [hres] at this
    exact mergeOK_none_of_left (pv := q) (fun _ _ => rfl) (fun k hk => lookup_node_le hk) hks this
  | case26 p m sl sr q n tl tr h hne hngt hlt hz nl hres sameR hpeq ih =>
    obtain ⟨i, rfl⟩ := hs.bb_pow
    obtain ⟨j, rfl⟩ := ht.bb_pow
    obtain ⟨hij, hag⟩ := (decode_gt ht hs).mp hlt
    have hb : p.testBit j = false := by rw [zeroBit_two_pow] at hz; simpa using hz
    obtain ⟨n1, n2, w1, w2⟩ := node_ne_of_WF ht
    have hl := ih hs w1; rw [hres] at hl
    have := mergeOK_lt_left hs ht hij hag hb hl
    rw [Bool.and_eq_true] at hpeq
    have hna : ¬ op.absorbing = true := by
      intro ha
      have := hpeq.2
      simp [sameR, ha, isEmpty_false n2] at this
    rw [hc.peq hpeq.1, if_neg hna, mkNode_of_ne n1 n2] at this
    exact this
  | case27 p m sl sr q n tl tr h hne hngt hlt hz nl hres newRb sameR hnpeq ih =>
    obtain ⟨i, rfl⟩ := hs.bb_pow
    obtain ⟨j, rfl⟩ := ht.bb_pow
    obtain ⟨hij, hag⟩ := (decode_gt ht hs).mp hlt
    have hb : p.testBit j = false := by rw [zeroBit_two_pow] at hz; simpa using hz
    have hl := ih hs (node_ne_of_WF ht).2.2.1; rw [hres] at hl
    exact mergeOK_lt_left hs ht hij hag hb hl
  | case28 p m sl sr q n tl tr h hne hngt hlt hz hres ih =>
    obtain ⟨i, rfl⟩ := hs.bb_pow
    obtain ⟨j, rfl⟩ := ht.bb_pow
    obtain ⟨hij, hag⟩ := (decode_gt ht hs).mp hlt
    have hb : p.testBit j = true := by rw [zeroBit_two_pow] at hz; simpa using hz
    have hal := (aligned_of_WF ht).1
    have hks : ∀ k ∈ (Tree.node p (2 ^ i) sl sr).keys, q < k := fun k hk =>
      lt_of_InR hal ⟨(keys_inside hs hij hag k hk).1, by rw [(keys_inside hs hij hag k hk).2, hb]⟩
    have := ih hs (node_ne_of_WF ht).2.2.2
    rw [hres] at this
    exact mergeOK_none_of_right (pv := q) (fun _ _ => rfl) (fun k hk => lookup_node_gt hk) hks this
  | case29 p m sl sr q n tl tr h hne hngt hlt hz sameL nr hres hpeq ih =>
    obtain ⟨i, rfl⟩ := hs.bb_pow
    obtain ⟨j, rfl⟩ := ht.bb_pow
    obtain ⟨hij, hag⟩ := (decode_gt ht hs).mp hlt
    have hb : p.testBit j = true := by rw [zeroBit_two_pow] at hz; simpa using hz
    obtain ⟨n1, n2, w1, w2⟩ := node_ne_of_WF ht
    have hr := ih hs w2; rw [hres] at hr
    have := mergeOK_lt_right hs ht hij hag hb hr
    rw [Bool.and_eq_true] at hpeq
    have hna : ¬ op.absorbing = true := by
      intro ha
      have := hpeq.1
      simp [sameL, ha, isEmpty_false n1] at this
    rw [hc.peq hpeq.2, if_neg hna, mkNode_of_ne n1 n2] at this
    exact this
  | case30 p m sl sr q n tl tr h hne hngt hlt hz newLb sameL nr hres hnpeq ih =>
    obtain ⟨i, rfl⟩ := hs.bb_pow
    obtain ⟨j, rfl⟩ := ht.bb_pow
    obtain ⟨hij, hag⟩ := (decode_gt ht hs).mp hlt
    have hb : p.testBit j = true := by rw [zeroBit_two_pow] at hz; simpa using hz
    have hr := ih hs (node_ne_of_WF ht).2.2.2; rw [hres] at hr
    exact mergeOK_lt_right hs ht hij hag hb hr
  | case31 p m sl sr q n tl tr h hne hngt hnlt hab =>
    obtain ⟨i, rfl⟩ := hs.bb_pow
    obtain ⟨j, rfl⟩ := ht.bb_pow
    have hbit := else_case_bit hs ht (fun h => hne (decode_eq.mpr h))
      (fun h => hngt ((decode_gt hs ht).mpr h)) (fun h => hnlt ((decode_gt ht hs).mpr h))
    exact mergeOK_disjoint (disjoint_of_bit hs ht hbit) (WF_empty P) (fun k => by simp [hab])
  | case32 p m sl sr q n tl tr h hne hngt hnlt hab =>
    obtain ⟨i, rfl⟩ := hs.bb_pow
    obtain ⟨j, rfl⟩ := ht.bb_pow
    have hbit := else_case_bit hs ht (fun h => hne (decode_eq.mpr h))
      (fun h => hngt ((decode_gt hs ht).mpr h)) (fun h => hnlt ((decode_gt ht hs).mpr h))
    have hd : ∃ b, max (lvl (Tree.node p (2 ^ i) sl sr)) (lvl (Tree.node q (2 ^ j) tl tr)) ≤ b ∧
        (Tree.node p (2 ^ i) sl sr).pfx'.testBit b ≠ (Tree.node q (2 ^ j) tl tr).pfx'.testBit b := by
      obtain ⟨b, hb, hne⟩ := hbit
      exact ⟨b, by simpa [lvl, Nat.log2_two_pow] using hb, hne⟩
    obtain ⟨hwj, hlj⟩ := join_spec hs ht hd
    exact mergeOK_disjoint (disjoint_of_bit hs ht hbit) hwj (fun k => by simp [hab, hlj])

end Patricia
end Crab
