import CrabProofs.Lemmas.FunctorUfMeet

/-!
`uf_domain`: reflexivity of `operator<=` (on maps without duplicate keys: `flat_map`), the value of
`build_linexpr` under the arithmetic reading of `+` and `*`.
-/
namespace Crab
namespace Dom
namespace Fct
namespace Uf
set_option linter.unusedSectionVars false

variable {V F : Type} [DecidableEq V] [DecidableEq F]

/-- the map sends every term to itself -/
def IdM (M : TMap F) : Prop := ∀ k v, look M k = some v → v = k

theorem idM_cons {M : TMap F} (h : IdM M) (t : Term F) : IdM ((t, t) :: M) := by
  intro k v hl
  by_cases he : t = k
  · subst he; rw [look_cons_self] at hl; cases hl; rfl
  · rw [look_cons_ne _ _ he] at hl; exact h k v hl

mutual
theorem mapLeq_refl : (t : Term F) → (M : TMap F) → IdM M → ∃ M', mapLeq t t M = some M' ∧ IdM M'
  | .var n, M, h => by
    simp only [mapLeq]
    cases hl : look M (Term.var n) with
    | none => exact ⟨_, rfl, idM_cons h _⟩
    | some r => rw [h _ _ hl]; simp only [if_true]; exact ⟨M, rfl, h⟩
  | .const k, M, h => by
    simp only [mapLeq]
    cases hl : look M (Term.const k) with
    | none => simp only [if_true]; exact ⟨_, rfl, idM_cons h _⟩
    | some r => rw [h _ _ hl]; simp only [if_true]; exact ⟨M, rfl, h⟩
  | .app f xs, M, h => by
    unfold mapLeq
    cases hl : look M (Term.app f xs) with
    | some r => rw [h _ _ hl]; simp only [if_true]; exact ⟨M, rfl, h⟩
    | none =>
      obtain ⟨M1, h1, h2⟩ := mapLeqL_refl xs M h
      simp only [and_self, if_true, h1]
      exact ⟨_, rfl, idM_cons h2 _⟩
theorem mapLeqL_refl : (ts : List (Term F)) → (M : TMap F) → IdM M → ∃ M', mapLeqL ts ts M = some M' ∧ IdM M'
  | [], M, h => ⟨M, by simp [mapLeqL], h⟩
  | t :: ts, M, h => by
    obtain ⟨M1, h1, h2⟩ := mapLeq_refl t M h
    obtain ⟨M2, h3, h4⟩ := mapLeqL_refl ts M1 h2
    exact ⟨M2, by simp only [mapLeqL, h1, h3], h4⟩
end

/-- no variable is tracked twice (`flat_map`) -/
def KeysNodup (m : List (V × Term F)) : Prop := (m.map (·.1)).Nodup

theorem look_of_nodup {m : List (V × Term F)} (hn : KeysNodup m) {p : V × Term F} (hp : p ∈ m) :
    look m p.1 = some p.2 := by
  induction m with
  | nil => simp at hp
  | cons q r ih =>
    obtain ⟨k, t⟩ := q
    simp only [KeysNodup, List.map_cons, List.nodup_cons] at hn
    rcases List.mem_cons.1 hp with rfl | hp
    · simp [look]
    · have hne : k ≠ p.1 := by
        intro he
        apply hn.1
        rw [he]
        exact List.mem_map.2 ⟨p, hp, rfl⟩
      rw [look_cons_ne _ _ hne]
      exact ih hn.2 hp

theorem leqGo_refl (left : UVal V F) (hn : KeysNodup left.map) :
    (rest : List (V × Term F)) → (∀ p ∈ rest, p ∈ left.map) → (M : TMap F) → IdM M → leqGo rest left M = true
  | [], _, _, _ => rfl
  | (v, ty) :: rest, hsub, M, h => by
    have hl : look left.map v = some ty := look_of_nodup hn (hsub (v, ty) List.mem_cons_self)
    obtain ⟨M1, h1, h2⟩ := mapLeq_refl ty M h
    simp only [leqGo, UVal.termOfVar, hl, h1]
    exact leqGo_refl left hn rest (fun p hp => hsub p (List.mem_cons_of_mem _ hp)) M1 h2

theorem leq_refl (a : UF V F) (hn : match a with | .bot => True | .val u => KeysNodup u.map) :
    UF.leq a a = true := by
  match a with
  | .bot => rfl
  | .val u => exact leqGo_refl u hn u.map (fun _ hp => hp) [] (fun _ _ hl => by simp [look] at hl)

/-! ### `build_linexpr` under the arithmetic reading -/

/-- `c + Σ aᵢ·s(xᵢ)` -/
def linVal (s : St V) (c : Int) (ts : List (Int × V)) : Int := ts.foldl (fun acc p => acc + p.1 * s p.2) c

theorem eval_linTerm (I : F → List Int → Int) (mul : F) (hmul : ∀ a b, I mul [a, b] = a * b) (s : St V)
    (p : Int × V) : (Exp.linTerm mul p).eval I s = p.1 * s p.2 := by
  unfold Exp.linTerm
  split
  · rename_i h; simp [Exp.eval, h]
  · simp [Exp.eval, Exp.evalL, hmul]

theorem eval_linFold (I : F → List Int → Int) (add mul : F) (hadd : ∀ a b, I add [a, b] = a + b)
    (hmul : ∀ a b, I mul [a, b] = a * b) (s : St V) (ts : List (Int × V)) (e : Exp V F) :
    (ts.foldl (fun t q => Exp.app add [t, Exp.linTerm mul q]) e).eval I s = linVal s (e.eval I s) ts := by
  induction ts generalizing e with
  | nil => rfl
  | cons p ps ih =>
    simp only [List.foldl_cons, linVal]
    rw [ih]
    simp [Exp.eval, Exp.evalL, hadd, eval_linTerm I mul hmul, linVal]

/-- the tree `build_linexpr` builds evaluates to the linear expression -/
theorem eval_ofLin (I : F → List Int → Int) (add mul : F) (hadd : ∀ a b, I add [a, b] = a + b)
    (hmul : ∀ a b, I mul [a, b] = a * b) (s : St V) (c : Int) (ts : List (Int × V)) :
    (Exp.ofLin add mul c ts).eval I s = linVal s c ts := by
  match ts with
  | [] => simp [Exp.ofLin, Exp.eval, linVal]
  | p :: ps =>
    simp only [Exp.ofLin]
    split
    · rename_i hc
      rw [eval_linFold I add mul hadd hmul, eval_linTerm I mul hmul]
      simp [linVal, hc]
    · rw [eval_linFold I add mul hadd hmul]
      simp [Exp.eval]

end Uf
end Fct
end Dom
end Crab
