import CrabModel.Dom.ArraySmash

/-!
  Per-operation soundness of the array smashing functor over a generic base domain
  (`Crab.Dom.Smash`): every operation maps `γ` of its argument into `γ` of its result along the
  concrete semantics of `Crab.Dom.Arr`.
-/
namespace Crab
namespace Dom
namespace Smash
open Crab.Dom.Arr

variable {Bs : Base} {esz : Nat → Nat}

theorem progOf_mkEnv (s : CState) (env : Nat → Option Nat) (g : Env) (c : Nat → Nat) :
    progOf (mkEnv esz s env g c) = s.iv := rfl

/-- changing a program variable of the state = updating the environment -/
theorem mkEnv_setVar (s : CState) (env : Nat → Option Nat) (g : Env) (c : Nat → Nat) (x : Nat) (v : Int) :
    mkEnv esz (s.setVar x v) env g c = (mkEnv esz s env g c).set (.prog x) v := by
  funext y
  cases y with
  | prog n =>
    simp only [mkEnv, Env.set, CState.setVar]
    by_cases h : n = x
    · subst h; simp
    · have : ¬ Var.prog n = Var.prog x := fun h' => h (Var.prog.inj h')
      simp [h, this]
  | smashed a => simp [mkEnv, Env.set, CState.setVar]
  | copy a => simp [mkEnv, Env.set]

theorem nAssign_sound {st : St Bs} {s : CState} (x : Nat) (e : Lin) (h : γ esz st s) :
    γ esz (nAssign st x e) (s.setVar x (e.eval s.iv)) := by
  obtain ⟨g, hg⟩ := h
  refine ⟨g, fun c => ?_⟩
  have h1 := Bs.assign_sound st.base (.prog x) (.lin e) _ (hg c)
  rw [mkEnv_setVar]
  exact h1

theorem nAssume_sound {st : St Bs} {s : CState} (c : (Nat → Int) → Prop) (h : γ esz st s) (hc : c s.iv) :
    γ esz (nAssume st c) s := by
  obtain ⟨g, hg⟩ := h
  exact ⟨g, fun ch => Bs.assume_sound st.base c _ (hg ch) hc⟩

theorem nForget_sound {st : St Bs} {s : CState} (x : Nat) (v : Int) (h : γ esz st s) :
    γ esz (nForget st x) (s.setVar x v) := by
  obtain ⟨g, hg⟩ := h
  refine ⟨g, fun c => ?_⟩
  rw [mkEnv_setVar]
  exact Bs.forget_sound st.base (.prog x) _ v (hg c)

/-! ### array_init -/

theorem init_cells (e l : Nat) (ub : Int) (v : Int) (o : Nat) (w : Int)
    (h : Mem.init e l ub v o = some w) : w = v := by
  unfold Mem.init Mem.storeRange at h
  split at h
  · exact (Option.some.inj h).symm
  · simp [Mem.empty] at h

theorem aInit_sound {st : St Bs} {s s' : CState} (a : Nat) (lb ub val : Lin) (h : γ esz st s)
    (hr : cInit (esz a) a lb.eval ub.eval val.eval s = some s') : γ esz (aInit esz st a val) s' := by
  obtain ⟨g, hg⟩ := h
  unfold cInit at hr
  split at hr
  · exact absurd hr (by simp)
  · rename_i l hl
    have hs' : s' = s.setArr a (Mem.init (esz a) l (ub.eval s.iv) (val.eval s.iv)) := (Option.some.inj hr).symm
    refine ⟨g.set (.smashed a) (val.eval s.iv), fun c => ?_⟩
    have h1 := Bs.assign_sound st.base (.smashed a) (.lin val) _ (hg c)
    have heq : mkEnv esz s' (aInit esz st a val).env (g.set (.smashed a) (val.eval s.iv)) c
        = (mkEnv esz s st.env g c).set (.smashed a) ((RExpr.lin val).eval (mkEnv esz s st.env g c)) := by
      funext y
      cases y with
      | prog n => simp [mkEnv, Env.set, hs', CState.setArr]
      | copy b => simp [mkEnv, Env.set]
      | smashed b =>
        by_cases hb : b = a
        · subst hb
          simp only [mkEnv, aInit, setSize, if_true, Env.set, RExpr.eval, progOf_mkEnv, hs', CState.setArr]
          cases hm : Mem.init (esz b) l (ub.eval s.iv) (val.eval s.iv) (c b) with
          | none => rfl
          | some w => exact init_cells _ _ _ _ _ _ hm
        · have hne : ¬ Var.smashed b = Var.smashed a := fun h' => hb (Var.smashed.inj h')
          simp [mkEnv, aInit, setSize, hb, Env.set, hne, hs', CState.setArr]
    show Bs.γ (aInit esz st a val).base _
    rw [heq]
    exact h1

/-! ### updates of one array -/

/-- an update of an array that the functor does not track needs no abstract counterpart -/
theorem untracked_update_sound {st : St Bs} {s : CState} (a : Nat) (m' : Mem)
    (hu : ¬ st.env a = some (esz a)) (h : γ esz st s) : γ esz st (s.setArr a m') := by
  obtain ⟨g, hg⟩ := h
  refine ⟨g, fun c => ?_⟩
  have heq : mkEnv esz (s.setArr a m') st.env g c = mkEnv esz s st.env g c := by
    funext y
    cases y with
    | prog n => simp [mkEnv, CState.setArr]
    | copy b => simp [mkEnv]
    | smashed b =>
      by_cases hb : b = a
      · subst hb; simp [mkEnv, hu]
      · simp [mkEnv, CState.setArr, hb]
  rw [heq]; exact hg c

/-- weak update: every cell of the new contents holds the stored value or its old value -/
theorem weak_update_sound {st : St Bs} {s : CState} (a : Nat) (val : Lin) (m' : Mem)
    (hm : ∀ o', m' o' = some (val.eval s.iv) ∨ m' o' = s.ar a o') (h : γ esz st s) :
    γ esz (⟨st.env, Bs.weakAssign st.base (.smashed a) (.lin val)⟩ : St Bs) (s.setArr a m') := by
  obtain ⟨g, hg⟩ := h
  refine ⟨g.set (.smashed a) (val.eval s.iv), fun c => ?_⟩
  have hw := Bs.weakAssign_sound st.base (.smashed a) (.lin val) _ (hg c)
  -- the two candidate environments
  have hset : ∀ (hyp : st.env a = some (esz a) → (m' (c a) = some (val.eval s.iv) ∨ m' (c a) = none)),
      mkEnv esz (s.setArr a m') st.env (g.set (.smashed a) (val.eval s.iv)) c
        = (mkEnv esz s st.env g c).set (.smashed a) ((RExpr.lin val).eval (mkEnv esz s st.env g c)) := by
    intro hyp
    funext y
    cases y with
    | prog n => simp [mkEnv, Env.set, CState.setArr]
    | copy b => simp [mkEnv, Env.set]
    | smashed b =>
      by_cases hb : b = a
      · subst hb
        simp only [mkEnv, Env.set, RExpr.eval, progOf_mkEnv, CState.setArr, if_true]
        by_cases ht : st.env b = some (esz b)
        · simp only [ht, if_true]
          rcases hyp ht with h1 | h1 <;> simp [h1]
        · simp [ht]
      · have hne : ¬ Var.smashed b = Var.smashed a := fun h' => hb (Var.smashed.inj h')
        simp [mkEnv, Env.set, hne, CState.setArr, hb]
  have hsame : ∀ w, st.env a = some (esz a) → m' (c a) = some w → s.ar a (c a) = some w →
      mkEnv esz (s.setArr a m') st.env (g.set (.smashed a) (val.eval s.iv)) c = mkEnv esz s st.env g c := by
    intro w ht h1 h2
    funext y
    cases y with
    | prog n => simp [mkEnv, CState.setArr]
    | copy b => simp [mkEnv, Env.set]
    | smashed b =>
      by_cases hb : b = a
      · subst hb
        simp [mkEnv, CState.setArr, ht, h1, h2]
      · have hne : ¬ Var.smashed b = Var.smashed a := fun h' => hb (Var.smashed.inj h')
        simp [mkEnv, Env.set, hne, CState.setArr, hb]
  show Bs.γ (Bs.weakAssign st.base (.smashed a) (.lin val)) _
  by_cases ht : st.env a = some (esz a)
  · rcases hm (c a) with h1 | h1
    · rw [hset (fun _ => Or.inl h1)]; exact hw.2
    · cases h2 : s.ar a (c a) with
      | none => rw [hset (fun _ => Or.inr (h1.trans h2))]; exact hw.2
      | some w => rw [hsame w ht (h1.trans h2) h2]; exact hw.1
  · rw [hset (fun h' => absurd h' ht)]; exact hw.2

/-- strong update / initialisation: every cell of the new contents holds the stored value -/
theorem strong_update_sound {st : St Bs} {s : CState} (a : Nat) (val : Lin) (m' : Mem)
    (hm : ∀ o' w, m' o' = some w → w = val.eval s.iv) (h : γ esz st s) :
    γ esz (⟨setSize st.env a (some (esz a)), Bs.assign st.base (.smashed a) (.lin val)⟩ : St Bs)
      (s.setArr a m') := by
  obtain ⟨g, hg⟩ := h
  refine ⟨g.set (.smashed a) (val.eval s.iv), fun c => ?_⟩
  have h1 := Bs.assign_sound st.base (.smashed a) (.lin val) _ (hg c)
  have heq : mkEnv esz (s.setArr a m') (setSize st.env a (some (esz a))) (g.set (.smashed a) (val.eval s.iv)) c
      = (mkEnv esz s st.env g c).set (.smashed a) ((RExpr.lin val).eval (mkEnv esz s st.env g c)) := by
    funext y
    cases y with
    | prog n => simp [mkEnv, Env.set, CState.setArr]
    | copy b => simp [mkEnv, Env.set]
    | smashed b =>
      by_cases hb : b = a
      · subst hb
        simp only [mkEnv, setSize, if_true, Env.set, RExpr.eval, progOf_mkEnv, CState.setArr]
        cases hm' : m' (c b) with
        | none => rfl
        | some w => exact hm _ _ hm'
      · have hne : ¬ Var.smashed b = Var.smashed a := fun h' => hb (Var.smashed.inj h')
        simp [mkEnv, setSize, hb, Env.set, hne, CState.setArr]
  show Bs.γ (Bs.assign st.base (.smashed a) (.lin val)) _
  rw [heq]; exact h1

theorem aStore_sound {st : St Bs} {s s' : CState} (a : Nat) (i val : Lin) (strong : Bool)
    (h : γ esz st s) (hr : cStore (esz a) a i.eval val.eval s = some s')
    (hl : strong = true → ∀ o, alignedOff (esz a) (i.eval s.iv) = some o → singleCell (s.ar a) o) :
    γ esz (aStore esz st a val strong) s' := by
  unfold cStore at hr
  split at hr
  · exact absurd hr (by simp)
  · rename_i o ho
    have hs' : s' = s.setArr a ((s.ar a).store o (val.eval s.iv)) := (Option.some.inj hr).symm
    subst hs'
    cases strong with
    | true =>
      have hsc := hl rfl o ho
      have : aStore esz st a val true
          = ⟨setSize st.env a (some (esz a)), Bs.assign st.base (.smashed a) (.lin val)⟩ := by
        simp [aStore, setSize]
      rw [this]
      apply strong_update_sound a val _ _ h
      intro o' w hw
      unfold Mem.store at hw
      split at hw
      · exact (Option.some.inj hw).symm
      · rename_i hne
        exact absurd (hsc o' w hw) hne
    | false =>
      by_cases ht : st.env a = some (esz a)
      · have : aStore esz st a val false = ⟨st.env, Bs.weakAssign st.base (.smashed a) (.lin val)⟩ := by
          simp [aStore, ht]
        rw [this]
        apply weak_update_sound a val _ _ h
        intro o'
        unfold Mem.store
        split
        · exact Or.inl rfl
        · exact Or.inr rfl
      · have : aStore esz st a val false = st := by
          simp [aStore, ht]
        rw [this]
        exact untracked_update_sound a _ ht h

theorem aStoreRange_sound {st : St Bs} {s s' : CState} (a : Nat) (lb ub val : Lin)
    (h : γ esz st s) (hr : cStoreRange (esz a) a lb.eval ub.eval val.eval s = some s') :
    γ esz (aStoreRange esz st a val) s' := by
  unfold cStoreRange at hr
  split at hr
  · exact absurd hr (by simp)
  · rename_i l hl
    have hs' : s' = s.setArr a ((s.ar a).storeRange (esz a) l (ub.eval s.iv) (val.eval s.iv)) :=
      (Option.some.inj hr).symm
    subst hs'
    by_cases ht : st.env a = some (esz a)
    · have : aStoreRange esz st a val = ⟨st.env, Bs.weakAssign st.base (.smashed a) (.lin val)⟩ := by
        simp [aStoreRange, ht]
      rw [this]
      apply weak_update_sound a val _ _ h
      intro o'
      unfold Mem.storeRange
      split
      · exact Or.inl rfl
      · exact Or.inr rfl
    · have : aStoreRange esz st a val = st := by simp [aStoreRange, ht]
      rw [this]
      exact untracked_update_sound a _ ht h

/-! ### array_load -/

theorem aLoad_sound {st : St Bs} {s s' : CState} (x a : Nat) (i : Lin)
    (h : γ esz st s) (hr : cLoad (esz a) x a i.eval s = some s') : γ esz (aLoad esz st x a) s' := by
  unfold cLoad at hr
  split at hr
  · exact absurd hr (by simp)
  · rename_i o ho
    split at hr
    · exact absurd hr (by simp)
    · rename_i w hw
      have hs' : s' = s.setVar x w := (Option.some.inj hr).symm
      subst hs'
      by_cases ht : st.env a = some (esz a)
      · have hdef : aLoad esz st x a = ⟨st.env, Bs.forget (Bs.assign (Bs.expand st.base (.smashed a) (.copy a))
            (.prog x) (.var (.copy a))) (.copy a)⟩ := by simp [aLoad, ht]
        rw [hdef]
        obtain ⟨g, hg⟩ := h
        refine ⟨g, fun c => ?_⟩
        -- the state where the summary stands for the loaded cell
        let c₂ : Nat → Nat := fun b => if b = a then o else c b
        have hagree : ∀ z, z ≠ Var.smashed a → mkEnv esz s st.env g c z = mkEnv esz s st.env g c₂ z := by
          intro z hz
          cases z with
          | prog n => rfl
          | copy b => rfl
          | smashed b =>
            have hb : b ≠ a := fun h' => hz (by rw [h'])
            simp [mkEnv, c₂, hb]
        have h2 : mkEnv esz s st.env g c₂ (.smashed a) = w := by
          simp [mkEnv, ht, c₂, hw]
        have he := Bs.expand_sound st.base (.smashed a) (.copy a) _ _ (hg c) (hg c₂) hagree
        rw [h2] at he
        have ha := Bs.assign_sound _ (.prog x) (.var (.copy a)) _ he
        have hf := Bs.forget_sound _ (.copy a) _ (g (.copy a)) ha
        have heq : mkEnv esz (s.setVar x w) st.env g c
            = ((((mkEnv esz s st.env g c).set (.copy a) w).set (.prog x)
                ((RExpr.var (.copy a)).eval ((mkEnv esz s st.env g c).set (.copy a) w))).set (.copy a) (g (.copy a))) := by
          rw [mkEnv_setVar]
          funext y
          cases y with
          | prog n =>
            by_cases hn : n = x
            · subst hn; simp [Env.set, RExpr.eval]
            · have : ¬ Var.prog n = Var.prog x := fun h' => hn (Var.prog.inj h')
              simp [Env.set, this]
          | smashed b => simp [Env.set]
          | copy b =>
            by_cases hb : b = a
            · subst hb; simp [Env.set, mkEnv]
            · have : ¬ Var.copy b = Var.copy a := fun h' => hb (Var.copy.inj h')
              simp [Env.set, this]
        show Bs.γ (Bs.forget (Bs.assign (Bs.expand st.base (.smashed a) (.copy a)) (.prog x) (.var (.copy a))) (.copy a)) _
        rw [heq]; exact hf
      · have hdef : aLoad esz st x a = nForget st x := by simp [aLoad, ht, nForget]
        rw [hdef]
        exact nForget_sound x w h

/-! ### array_assign -/

theorem setArr_self (s : CState) (a : Nat) : s.setArr a (s.ar a) = s := by
  cases s with
  | mk iv ar =>
    simp only [CState.setArr]
    congr
    funext b
    by_cases hb : b = a
    · subst hb; simp
    · simp [hb]

theorem aAssign_sound {st : St Bs} {s s' : CState} (lhs rhs : Nat)
    (h : γ esz st s) (hsz : esz lhs = esz rhs) (hr : cAssign lhs rhs s = some s') :
    γ esz (aAssign st lhs rhs) s' := by
  have hs' : s' = s.setArr lhs (s.ar rhs) := (Option.some.inj hr).symm
  subst hs'
  by_cases hlr : lhs = rhs
  · subst hlr
    have : aAssign st lhs lhs = st := by simp [aAssign]
    rw [this, setArr_self]; exact h
  · obtain ⟨g, hg⟩ := h
    cases hsize : st.env rhs with
    | none =>
      have hdef : aAssign st lhs rhs = ⟨setSize st.env lhs none, Bs.forget st.base (.smashed lhs)⟩ := by
        simp [aAssign, hlr, hsize]
      rw [hdef]
      refine ⟨g, fun c => ?_⟩
      have hf := Bs.forget_sound st.base (.smashed lhs) _ (g (.smashed lhs)) (hg c)
      have heq : mkEnv esz (s.setArr lhs (s.ar rhs)) (setSize st.env lhs none) g c
          = (mkEnv esz s st.env g c).set (.smashed lhs) (g (.smashed lhs)) := by
        funext y
        cases y with
        | prog n => simp [mkEnv, Env.set, CState.setArr]
        | copy b => simp [mkEnv, Env.set]
        | smashed b =>
          by_cases hb : b = lhs
          · subst hb; simp [mkEnv, setSize, Env.set]
          · have hne : ¬ Var.smashed b = Var.smashed lhs := fun h' => hb (Var.smashed.inj h')
            simp [mkEnv, setSize, hb, Env.set, hne, CState.setArr]
      show Bs.γ (Bs.forget st.base (.smashed lhs)) _
      rw [heq]; exact hf
    | some sz =>
      have hdef : aAssign st lhs rhs = ⟨setSize st.env lhs (some sz),
          Bs.expand (Bs.forget st.base (.smashed lhs)) (.smashed rhs) (.smashed lhs)⟩ := by
        simp [aAssign, hlr, hsize]
      rw [hdef]
      refine ⟨g.set (.smashed lhs) (g (.smashed rhs)), fun c => ?_⟩
      let c₂ : Nat → Nat := fun b => if b = rhs then c lhs else c b
      have hf1 := Bs.forget_sound st.base (.smashed lhs) _ 0 (hg c)
      have hf2 := Bs.forget_sound st.base (.smashed lhs) _ 0 (hg c₂)
      have hagree : ∀ z, z ≠ Var.smashed rhs →
          ((mkEnv esz s st.env g c).set (.smashed lhs) 0) z = ((mkEnv esz s st.env g c₂).set (.smashed lhs) 0) z := by
        intro z hz
        cases z with
        | prog n => simp [Env.set, mkEnv]
        | copy b => simp [Env.set, mkEnv]
        | smashed b =>
          have hb : b ≠ rhs := fun h' => hz (by rw [h'])
          by_cases hbl : b = lhs
          · subst hbl; simp [Env.set]
          · have hne : ¬ Var.smashed b = Var.smashed lhs := fun h' => hbl (Var.smashed.inj h')
            simp [Env.set, hne, mkEnv, c₂, hb]
      have he := Bs.expand_sound _ (.smashed rhs) (.smashed lhs) _ _ hf1 hf2 hagree
      have hrl : ¬ Var.smashed rhs = Var.smashed lhs := fun h' => hlr (Var.smashed.inj h').symm
      have heq : mkEnv esz (s.setArr lhs (s.ar rhs)) (setSize st.env lhs (some sz))
            (g.set (.smashed lhs) (g (.smashed rhs))) c
          = ((mkEnv esz s st.env g c).set (.smashed lhs) 0).set (.smashed lhs)
              (((mkEnv esz s st.env g c₂).set (.smashed lhs) 0) (.smashed rhs)) := by
        funext y
        cases y with
        | prog n => simp [mkEnv, Env.set, CState.setArr]
        | copy b => simp [mkEnv, Env.set]
        | smashed b =>
          by_cases hb : b = lhs
          · subst hb
            have hrl' : ¬ rhs = b := fun h' => hlr h'.symm
            simp only [mkEnv, setSize, if_true, Env.set, hrl, if_false, CState.setArr, hsize, c₂]
            rw [hsz]
          · have hne : ¬ Var.smashed b = Var.smashed lhs := fun h' => hb (Var.smashed.inj h')
            simp [mkEnv, setSize, hb, Env.set, hne, CState.setArr]
      show Bs.γ (Bs.expand (Bs.forget st.base (.smashed lhs)) (.smashed rhs) (.smashed lhs)) _
      rw [heq]; exact he

/-! ### join and widening -/

theorem envJoin_tracked_l {e₁ e₂ : Nat → Option Nat} {a : Nat} {k : Nat}
    (h : envJoin e₁ e₂ a = some k) : e₁ a = some k := by
  unfold envJoin at h
  split at h
  · exact h
  · exact absurd h (by simp)

theorem envJoin_tracked_r {e₁ e₂ : Nat → Option Nat} {a : Nat} {k : Nat}
    (h : envJoin e₁ e₂ a = some k) : e₂ a = some k := by
  unfold envJoin at h
  split at h
  · rename_i heq; rw [← heq]; exact h
  · exact absurd h (by simp)

/-- a state accepted with tracking environment `env` is accepted with any environment that tracks
    fewer arrays (the ghosts of the arrays no longer tracked take the value of a fixed cell) -/
theorem γ_mono_env {b : Bs.B} {env env' : Nat → Option Nat} {s : CState}
    (hsub : ∀ a, env' a = some (esz a) → env a = some (esz a))
    (h : γ esz (⟨env, b⟩ : St Bs) s) : γ esz (⟨env', b⟩ : St Bs) s := by
  obtain ⟨g, hg⟩ := h
  let c₀ : Nat → Nat := fun _ => 0
  let g' : Env := fun v => match v with
    | .smashed a => mkEnv esz s env g c₀ (.smashed a)
    | other => g other
  refine ⟨g', fun c => ?_⟩
  let c'' : Nat → Nat := fun a =>
    if env' a = some (esz a) then (if (s.ar a (c a)).isSome then c a else c₀ a) else c₀ a
  have heq : mkEnv esz s env' g' c = mkEnv esz s env g c'' := by
    funext y
    cases y with
    | prog n => rfl
    | copy a => rfl
    | smashed a =>
      by_cases ht' : env' a = some (esz a)
      · have ht := hsub a ht'
        cases hc : s.ar a (c a) with
        | some v => simp [mkEnv, ht', ht, c'', hc]
        | none => simp [mkEnv, ht', ht, c'', hc, g', c₀]
      · by_cases ht : env a = some (esz a)
        · simp [mkEnv, ht', ht, c'', g', c₀]
        · simp [mkEnv, ht', ht, g']
  show Bs.γ b _
  rw [heq]; exact hg c''

theorem sJoin_sound {s₁ s₂ : St Bs} {s : CState} (h : γ esz s₁ s ∨ γ esz s₂ s) : γ esz (sJoin s₁ s₂) s := by
  rcases h with h | h
  · have h1 : γ esz (⟨s₁.env, Bs.join s₁.base s₂.base⟩ : St Bs) s := by
      obtain ⟨g, hg⟩ := h
      exact ⟨g, fun c => Bs.join_sound_l _ _ _ (hg c)⟩
    exact γ_mono_env (fun a ha => envJoin_tracked_l ha) h1
  · have h1 : γ esz (⟨s₂.env, Bs.join s₁.base s₂.base⟩ : St Bs) s := by
      obtain ⟨g, hg⟩ := h
      exact ⟨g, fun c => Bs.join_sound_r _ _ _ (hg c)⟩
    exact γ_mono_env (fun a ha => envJoin_tracked_r ha) h1

theorem sWiden_sound {s₁ s₂ : St Bs} {s : CState} (h : γ esz s₁ s ∨ γ esz s₂ s) : γ esz (sWiden s₁ s₂) s := by
  rcases h with h | h
  · have h1 : γ esz (⟨s₁.env, Bs.widen s₁.base s₂.base⟩ : St Bs) s := by
      obtain ⟨g, hg⟩ := h
      exact ⟨g, fun c => Bs.widen_sound_l _ _ _ (hg c)⟩
    exact γ_mono_env (fun a ha => envJoin_tracked_l ha) h1
  · have h1 : γ esz (⟨s₂.env, Bs.widen s₁.base s₂.base⟩ : St Bs) s := by
      obtain ⟨g, hg⟩ := h
      exact ⟨g, fun c => Bs.widen_sound_r _ _ _ (hg c)⟩
    exact γ_mono_env (fun a ha => envJoin_tracked_r ha) h1

/-- the initial value: nothing tracked, base top -/
theorem γ_top (s : CState) : γ esz (St.top : St Bs) s :=
  ⟨fun _ => 0, fun _ => Bs.top_sound _⟩

/-- from membership to a value of one program variable -/
theorem valIn_of_γ {st : St Bs} {s : CState} (h : γ esz st s) (x : Nat) : ValIn st x (s.iv x) := by
  obtain ⟨g, hg⟩ := h
  exact ⟨_, hg (fun _ => 0), rfl⟩

theorem not_bottom_of_γ {st : St Bs} {s : CState} (h : γ esz st s) : st.isBottom = false := by
  obtain ⟨g, hg⟩ := h
  cases hb : st.isBottom
  · rfl
  · exact absurd (hg (fun _ => 0)) (Bs.isBot_sound _ _ hb)

end Smash
end Dom
end Crab
