import CrabProofs.Lemmas.FunctorProductOps

/-!
Precision side of the product: `is_top`, lower-bound property of `&` / `&&` (they hold on
well-formed values when the components have them), canonical bottom.
-/
namespace Crab
namespace Dom
namespace Fct

variable {S : Type}

namespace Prod2
variable {D1 D2 : LDom S}

/-- `is_top()` does not read `m_is_bottom`: it is right on well-formed values -/
theorem γ_of_isTop (t1 : D1.TopSound) (t2 : D2.TopSound) {p : Prod2 D1 D2} (hw : p.WF)
    (h : p.isTop = true) (s : S) : p.γ s := by
  unfold isTop at h
  simp only [Bool.and_eq_true] at h
  have g1 := t1 _ s h.1
  have g2 := t2 _ s h.2
  refine ⟨?_, g1, g2⟩
  cases hb : p.isBot
  · rfl
  · exact absurd g1 ((hw hb).1 s)

theorem meet_lower (m1 : D1.MeetLower) (m2 : D2.MeetLower) (t1 : D1.TopSound) (t2 : D2.TopSound)
    {p q : Prod2 D1 D2} (hp : p.WF) (hq : q.WF) {s : S} (h : (meet p q).γ s) : p.γ s ∧ q.γ s := by
  unfold meet at h
  split at h
  · rename_i hc
    refine ⟨h, ?_⟩
    rcases Bool.or_eq_true _ _ ▸ hc with hc | hc
    · exact absurd h (not_γ_of_isBottom hc s)
    · exact γ_of_isTop t1 t2 hq hc s
  · rename_i hc1
    split at h
    · rename_i hc
      refine ⟨?_, h⟩
      rcases Bool.or_eq_true _ _ ▸ hc with hc | hc
      · exact absurd h (not_γ_of_isBottom hc s)
      · exact γ_of_isTop t1 t2 hp hc s
    · rename_i hc2
      simp only [Bool.or_eq_true, not_or, Bool.not_eq_true] at hc1 hc2
      rw [γ_mk'] at h
      have a := m1 _ _ s h.1
      have b := m2 _ _ s h.2
      exact ⟨⟨isBot_false_of_not_isBottom hc1.1, a.1, b.1⟩, ⟨isBot_false_of_not_isBottom hc2.1, a.2, b.2⟩⟩

theorem narrow_lower (n1 : D1.NarrowLower) (n2 : D2.NarrowLower) (t1 : D1.TopSound) (t2 : D2.TopSound)
    {p q : Prod2 D1 D2} (hp : p.WF) {s : S} (h : (narrow p q).γ s) : p.γ s := by
  unfold narrow at h
  split at h
  · exact h
  · rename_i hc1
    split at h
    · rename_i hc
      rcases Bool.or_eq_true _ _ ▸ hc with hc | hc
      · exact absurd h (not_γ_of_isBottom hc s)
      · exact γ_of_isTop t1 t2 hp hc s
    · simp only [Bool.or_eq_true, not_or, Bool.not_eq_true] at hc1
      rw [γ_mk'] at h
      exact ⟨isBot_false_of_not_isBottom hc1.1, n1 _ _ s h.1, n2 _ _ s h.2⟩

/-! ### canonical bottom -/

/-- after `canonicalize()` the flag is set iff it was set or a component is recognised as bottom -/
theorem canonicalize_isBot (p : Prod2 D1 D2) :
    p.canonicalize.isBot = (p.isBot || D1.isBot p.fst || D2.isBot p.snd) := by
  unfold canonicalize
  cases h0 : p.isBot <;> cases h1 : D1.isBot p.fst <;> cases h2 : D2.isBot p.snd <;> simp_all

/-- ... and a bottom component makes the whole value THE bottom triple -/
theorem canonicalize_of_component_bottom {p : Prod2 D1 D2} (h0 : p.isBot = false)
    (h : D1.isBot p.fst = true ∨ D2.isBot p.snd = true) : p.canonicalize = ⟨true, D1.bot, D2.bot⟩ := by
  unfold canonicalize
  rcases h with h | h <;> simp [h0, h]

theorem canonicalize_isBottom (p : Prod2 D1 D2) : p.canonicalize.isBot = p.isBottom := by
  rw [canonicalize_isBot]
  unfold isBottom
  cases h0 : p.isBot <;> simp

/-- `canonicalize()` is idempotent -/
theorem canonicalize_idem (p : Prod2 D1 D2) : p.canonicalize.canonicalize = p.canonicalize := by
  cases h : p.canonicalize.isBot
  · -- flag clear: nothing was bottom
    have h' := h
    rw [canonicalize_isBot] at h'
    simp only [Bool.or_eq_false_iff] at h'
    have e : p.canonicalize = p := canonicalize_eq_self h'.1.1 h'.1.2 h'.2
    rw [e, e]
  · unfold canonicalize at h ⊢
    simp only [h, Bool.not_true, Bool.false_eq_true, if_false]

end Prod2
end Fct
end Dom
end Crab
