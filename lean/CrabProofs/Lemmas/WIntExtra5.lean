import CrabProofs.Lemmas.WIntExtra4

/-!
  More lemmas about `Crab.WInt` (part 5): `LShr`, `AShr`, the shifts by an interval, the half lines.
-/
namespace Crab
namespace WInt
open WrapInt

theorem getBitwidth_nontop {w s e : Nat} (hnt : (W w s e false).isTop = false) :
    (W w s e false).getBitwidth? = some w := by
  simp [getBitwidth?, hnt]

theorem crossU_val {w s e : Nat} (hnt : (W w s e false).isTop = false) :
    (W w s e false).crossUnsignedLimit? = some ((unsignedLimit w).leq (W w s e false)) := by
  simp [crossUnsignedLimit?, getBitwidth_nontop hnt]

theorem crossS_val {w s e : Nat} (hnt : (W w s e false).isTop = false) :
    (W w s e false).crossSignedLimit? = some ((signedLimit w).leq (W w s e false)) := by
  simp [crossSignedLimit?, getBitwidth_nontop hnt]

/-! ### `LShr` -/

theorem wlshr_val {w s k : Nat} (hs : s < 2 ^ w) :
    WrapInt.lshr ⟨w, s⟩ ⟨w, k⟩ = some ⟨w, s / 2 ^ k⟩ := by
  by_cases hk : k ≥ w
  · simp only [WrapInt.lshr, if_true, hk]
    have : s / 2 ^ k = 0 :=
      Nat.div_eq_of_lt (Nat.lt_of_lt_of_le hs (Nat.pow_le_pow_right (by decide) hk))
    rw [this]
  · simp only [WrapInt.lshr, if_true, hk, if_false, Nat.shiftRight_eq_div_pow]

/-- `LShr(k)` (`k` a shift amount representable in `w` bits) contains `v / 2^k` for every member -/
theorem lshrK_sound {w k : Nat} (h1w : 1 ≤ w) (hw : w ≤ 64) (hk : k < 2 ^ w) {x r : WInt}
    (hx : Shape w x) (h : x.lshrK k = some r) {v : Nat} (hv : v < 2 ^ w) (hm : mem w v x) :
    mem w (v / 2 ^ k) r := by
  obtain ⟨s, e, hs, he, rfl⟩ := shape_cases hx hm.1
  cases hnt : (W w s e false).isTop
  · unfold lshrK at h
    simp only [hnt, Bool.false_eq_true, if_false, crossU_val hnt, Option.bind_eq_bind,
      Option.bind_some, mk?_val h1w hw hk, wlshr_val hs, wlshr_val he] at h
    split at h
    · next hc =>
      injection h with h; subst h
      have hc' : ¬ (unsignedLimit w).leq (W w s e false) = true := by simpa using hc
      have hse : s ≤ e := by
        have := mt (crossU_iff h1w hw hs he hnt).mpr hc'
        omega
      have hm' := (mem_ord_iff hw hse he hv).mp hm
      show mem w (v / 2 ^ k) (W w (s / 2 ^ k) (e / 2 ^ k) false)
      have hb : e / 2 ^ k < 2 ^ w := Nat.lt_of_le_of_lt (Nat.div_le_self _ _) he
      rw [mem_ord_iff hw (Nat.div_le_div_right hse) hb
        (Nat.lt_of_le_of_lt (Nat.div_le_self _ _) hv)]
      exact ⟨Nat.div_le_div_right hm'.1, Nat.div_le_div_right hm'.2⟩
    · injection h with h; subst h; exact mem_top _ _
  · rw [show (W w s e false).lshrK k = some (W w s e false) by simp [lshrK, hnt]] at h
    injection h with h; subst h
    exact mem_of_isTop hnt

/-! ### `AShr` -/

theorem sg_toInt {w : Nat} (x : BitVec w) : sg (2 ^ w) x.toNat = x.toInt := by
  rw [BitVec.toInt_eq_toNat_cond]; rfl

/-- the arithmetic shift of a point of the circle of `2^w` points -/
def ashrN (w v k : Nat) : Nat := ((BitVec.ofNat w v).sshiftRight k).toNat

theorem ashrN_bv {w : Nat} (a : BitVec w) (k : Nat) : (a.sshiftRight k).toNat = ashrN w a.toNat k := by
  unfold ashrN
  rw [BitVec.ofNat_toNat, BitVec.setWidth_eq]

theorem ashrN_lt (w v k : Nat) : ashrN w v k < 2 ^ w := BitVec.isLt _

theorem ofNatLT_eq_ofNat {w v : Nat} (hv : v < 2 ^ w) : BitVec.ofNatLT v hv = BitVec.ofNat w v := by
  apply BitVec.eq_of_toNat_eq
  simp [Nat.mod_eq_of_lt hv]

theorem sg_ashrN {w v k : Nat} (hv : v < 2 ^ w) :
    sg (2 ^ w) (ashrN w v k) = sg (2 ^ w) v / ((2 ^ k : Nat) : Int) := by
  unfold ashrN
  rw [sg_toInt, BitVec.toInt_sshiftRight, Int.shiftRight_eq_div_pow, ← sg_toInt,
    BitVec.toNat_ofNat, Nat.mod_eq_of_lt hv]

theorem washr_val' {w s k : Nat} (h1w : 1 ≤ w) (hw : w ≤ 64) (hs : s < 2 ^ w) (hk : k < 2 ^ w) :
    WrapInt.ashr ⟨w, s⟩ ⟨w, k⟩ = some ⟨w, ashrN w s k⟩ := by
  rw [washr_val h1w hw hs hk, ofNatLT_eq_ofNat]; rfl

/-- `AShr(k)` contains the arithmetic shift of every member -/
theorem ashrK_sound {w k : Nat} (h1w : 1 ≤ w) (hw : w ≤ 64) (hk : k < 2 ^ w) {x r : WInt}
    (hx : Shape w x) (h : x.ashrK k = some r) {v : Nat} (hv : v < 2 ^ w) (hm : mem w v x) :
    mem w (ashrN w v k) r := by
  obtain ⟨s, e, hs, he, rfl⟩ := shape_cases hx hm.1
  cases hnt : (W w s e false).isTop
  · unfold ashrK at h
    simp only [hnt, Bool.false_eq_true, if_false, crossS_val hnt, Option.bind_eq_bind,
      Option.bind_some, mk?_val h1w hw hk, washr_val' h1w hw hs hk, washr_val' h1w hw he hk] at h
    split at h
    · next hc =>
      injection h with h; subst h
      have hc' : ¬ (signedLimit w).leq (W w s e false) = true := by simpa using hc
      have hse : sg (2 ^ w) s ≤ sg (2 ^ w) e := by
        have := mt (crossS_iff h1w hw hs he hnt).mpr hc'
        omega
      have hm' := (mem_sord_iff h1w hw hs he hv hse).mp hm
      show mem w (ashrN w v k) (W w (ashrN w s k) (ashrN w e k) false)
      have hpos : (0 : Int) < ((2 ^ k : Nat) : Int) := by
        have : 0 < 2 ^ k := Nat.pow_pos (by decide)
        exact Int.natCast_pos.mpr this
      rw [mem_sord_iff h1w hw (ashrN_lt _ _ _) (ashrN_lt _ _ _) (ashrN_lt _ _ _)
        (by rw [sg_ashrN hs, sg_ashrN he]; exact Int.ediv_le_ediv hpos hse)]
      rw [sg_ashrN hs, sg_ashrN he, sg_ashrN hv]
      exact ⟨Int.ediv_le_ediv hpos hm'.1, Int.ediv_le_ediv hpos hm'.2⟩
    · injection h with h; subst h; exact mem_top _ _
  · rw [show (W w s e false).ashrK k = some (W w s e false) by simp [ashrK, hnt]] at h
    injection h with h; subst h
    exact mem_of_isTop hnt

/-! ### shifts by an interval: only a singleton amount is used -/

/-- the only member of a singleton -/
theorem singleton_mem {w : Nat} (hw : w ≤ 64) {y : WInt} (hy : Shape w y) (hs : y.isSingleton = true)
    {b : Nat} (_hb : b < 2 ^ w) (hm : mem w b y) : y.start.n = b := by
  obtain ⟨c, d, hc, hd, rfl⟩ := shape_cases hy hm.1
  unfold isSingleton at hs
  simp only [Bool.not_false, Bool.true_and, Bool.and_eq_true, Bool.not_eq_true', beq_iff_eq] at hs
  obtain ⟨hnt, hcd⟩ := hs
  have hcd' : c = d := hcd
  subst hcd'
  have := mem_nontop hw hc hc hnt hm
  rw [D_self] at this
  rcases D_spec (2 ^ w) c b with ⟨a1, a2⟩ | ⟨a1, a2⟩
  · show c = b; omega
  · show c = b; omega

theorem shl_sound {w : Nat} (h1w : 1 ≤ w) (hw : w ≤ 64) {x y r : WInt} (hx : Shape w x) (hy : Shape w y)
    (h : x.shl y = some r) {a b : Nat} (ha : a < 2 ^ w) (hb : b < 2 ^ w) (hma : mem w a x)
    (hmb : mem w b y) : mem w ((a * 2 ^ b) % 2 ^ w) r := by
  unfold shl at h
  rw [hma.1] at h
  simp only [Bool.false_eq_true, if_false] at h
  split at h
  · next hs => rw [singleton_mem hw hy hs hb hmb] at h; exact shlK_sound h1w hw hx h ha hma
  · injection h with h; subst h; exact mem_top _ _

theorem lshr_sound {w : Nat} (h1w : 1 ≤ w) (hw : w ≤ 64) {x y r : WInt} (hx : Shape w x) (hy : Shape w y)
    (h : x.lshr y = some r) {a b : Nat} (ha : a < 2 ^ w) (hb : b < 2 ^ w) (hma : mem w a x)
    (hmb : mem w b y) : mem w (a / 2 ^ b) r := by
  unfold lshr at h
  rw [hma.1] at h
  simp only [Bool.false_eq_true, if_false] at h
  split at h
  · next hs => rw [singleton_mem hw hy hs hb hmb] at h; exact lshrK_sound h1w hw hb hx h ha hma
  · injection h with h; subst h; exact mem_top _ _

theorem ashr_sound {w : Nat} (h1w : 1 ≤ w) (hw : w ≤ 64) {x y r : WInt} (hx : Shape w x) (hy : Shape w y)
    (h : x.ashr y = some r) {a b : Nat} (ha : a < 2 ^ w) (hb : b < 2 ^ w) (hma : mem w a x)
    (hmb : mem w b y) : mem w (ashrN w a b) r := by
  unfold ashr at h
  rw [hma.1] at h
  simp only [Bool.false_eq_true, if_false] at h
  split at h
  · next hs => rw [singleton_mem hw hy hs hb hmb] at h; exact ashrK_sound h1w hw hb hx h ha hma
  · injection h with h; subst h; exact mem_top _ _

/-! ### half lines -/

theorem not_at_not_mem {w : Nat} (hw : w ≤ 64) {s e p : Nat} (hs : s < 2 ^ w) (he : e < 2 ^ w)
    (hp : p < 2 ^ w) (h : ¬ (W w s e false).at ⟨w, p⟩ = true) :
    ¬ D (2 ^ w) s p ≤ D (2 ^ w) s e := by
  rw [at_W_iff hw hs he hp] at h
  exact fun hh => h (Or.inr hh)

/-- `lower_half_line(signed)`: everything below a member in the signed order -/
theorem lowerHalfLine_signed_sound {w : Nat} (h1w : 1 ≤ w) (hw : w ≤ 64) {x : WInt} (hx : Shape w x)
    {a v : Nat} (ha : a < 2 ^ w) (hv : v < 2 ^ w) (hm : mem w a x)
    (hle : sg (2 ^ w) v ≤ sg (2 ^ w) a) : mem w v (x.lowerHalfLine true) := by
  obtain ⟨s, e, hs, he, rfl⟩ := shape_cases hx hm.1
  have hM := pow_succ_pred h1w
  have hH : 0 < 2 ^ (w - 1) := Nat.pow_pos (by decide)
  cases hnt : (W w s e false).isTop
  · unfold lowerHalfLine
    simp only [hnt, Bool.or_self, Bool.false_eq_true, if_false, Bool.true_and, Bool.not_true,
      Bool.false_and, if_true]
    split
    · exact mem_top _ _
    · next hat =>
      have hat' := not_at_not_mem hw hs he (by omega : 2 ^ (w - 1) - 1 < 2 ^ w) hat
      have hse : sg (2 ^ w) s ≤ sg (2 ^ w) e := by
        rcases Int.lt_or_le (sg (2 ^ w) e) (sg (2 ^ w) s) with c | c
        · exfalso
          obtain ⟨H, hHe⟩ : ∃ H, 2 ^ (w - 1) = H + 1 := ⟨2 ^ (w - 1) - 1, by omega⟩
          rw [hHe] at hM hat'
          have := (crossS_bwd _ H s e hM hs he c).1
          exact hat' (by simpa using this)
        · exact c
      have hm' := (mem_sord_iff h1w hw hs he ha hse).mp hm
      show mem w v (W w (2 ^ (w - 1)) e false)
      have g1 := sg_spec (2 ^ w) (2 ^ (w - 1)); have g2 := sg_spec (2 ^ w) e
      have g3 := sg_spec (2 ^ w) v
      rw [mem_sord_iff h1w hw (by omega) he hv (by omega)]
      omega
  · have : (W w s e false).lowerHalfLine true = W w s e false := by simp [lowerHalfLine, hnt]
    rw [this]; exact mem_of_isTop hnt

/-- `lower_half_line(unsigned)`: everything below a member -/
theorem lowerHalfLine_unsigned_sound {w : Nat} (h1w : 1 ≤ w) (hw : w ≤ 64) {x : WInt} (hx : Shape w x)
    {a v : Nat} (ha : a < 2 ^ w) (hm : mem w a x) (hle : v ≤ a) :
    mem w v (x.lowerHalfLine false) := by
  obtain ⟨s, e, hs, he, rfl⟩ := shape_cases hx hm.1
  have hM := two_le_pow h1w
  cases hnt : (W w s e false).isTop
  · unfold lowerHalfLine
    simp only [hnt, Bool.or_self, Bool.false_eq_true, if_false, Bool.false_and, Bool.not_false,
      Bool.true_and]
    split
    · exact mem_top _ _
    · next hat =>
      have hat' := not_at_not_mem hw hs he (by omega : 2 ^ w - 1 < 2 ^ w) hat
      have hse : s ≤ e := by
        rcases Nat.lt_or_ge e s with c | c
        · exfalso
          obtain ⟨H, hHe⟩ : ∃ H, 2 ^ w = H + 1 := ⟨2 ^ w - 1, by omega⟩
          have := (crossU_bwd _ H s e hHe hs he c).1
          apply hat'
          have e1 : 2 ^ w - 1 = H := by omega
          rw [e1]; exact this
        · exact c
      have hm' := (mem_ord_iff hw hse he ha).mp hm
      show mem w v (W w 0 e false)
      rw [mem_ord_iff hw (Nat.zero_le _) he (by omega)]
      omega
  · have : (W w s e false).lowerHalfLine false = W w s e false := by simp [lowerHalfLine, hnt]
    rw [this]; exact mem_of_isTop hnt

/-- `upper_half_line(signed)`: everything above a member in the signed order -/
theorem upperHalfLine_signed_sound {w : Nat} (h1w : 1 ≤ w) (hw : w ≤ 64) {x : WInt} (hx : Shape w x)
    {a v : Nat} (ha : a < 2 ^ w) (hv : v < 2 ^ w) (hm : mem w a x)
    (hle : sg (2 ^ w) a ≤ sg (2 ^ w) v) : mem w v (x.upperHalfLine true) := by
  obtain ⟨s, e, hs, he, rfl⟩ := shape_cases hx hm.1
  have hM := pow_succ_pred h1w
  have hH : 0 < 2 ^ (w - 1) := Nat.pow_pos (by decide)
  cases hnt : (W w s e false).isTop
  · unfold upperHalfLine
    simp only [hnt, Bool.or_self, Bool.false_eq_true, if_false, Bool.true_and, Bool.not_true,
      Bool.false_and, if_true]
    split
    · exact mem_top _ _
    · next hat =>
      have hat' := not_at_not_mem hw hs he (by omega : 2 ^ (w - 1) < 2 ^ w) hat
      have hse : sg (2 ^ w) s ≤ sg (2 ^ w) e := by
        rcases Int.lt_or_le (sg (2 ^ w) e) (sg (2 ^ w) s) with c | c
        · exfalso
          obtain ⟨H, hHe⟩ : ∃ H, 2 ^ (w - 1) = H + 1 := ⟨2 ^ (w - 1) - 1, by omega⟩
          rw [hHe] at hM hat'
          exact hat' (crossS_bwd _ H s e hM hs he c).2.1
        · exact c
      have hm' := (mem_sord_iff h1w hw hs he ha hse).mp hm
      show mem w v (W w s (2 ^ (w - 1) - 1) false)
      have g1 := sg_spec (2 ^ w) (2 ^ (w - 1) - 1); have g2 := sg_spec (2 ^ w) s
      have g3 := sg_spec (2 ^ w) v
      rw [mem_sord_iff h1w hw hs (by omega) hv (by omega)]
      omega
  · have : (W w s e false).upperHalfLine true = W w s e false := by simp [upperHalfLine, hnt]
    rw [this]; exact mem_of_isTop hnt

/-- `upper_half_line(unsigned)`: everything above a member -/
theorem upperHalfLine_unsigned_sound {w : Nat} (h1w : 1 ≤ w) (hw : w ≤ 64) {x : WInt} (hx : Shape w x)
    {a v : Nat} (ha : a < 2 ^ w) (hv : v < 2 ^ w) (hm : mem w a x) (hle : a ≤ v) :
    mem w v (x.upperHalfLine false) := by
  obtain ⟨s, e, hs, he, rfl⟩ := shape_cases hx hm.1
  have hM := two_le_pow h1w
  cases hnt : (W w s e false).isTop
  · unfold upperHalfLine
    simp only [hnt, Bool.or_self, Bool.false_eq_true, if_false, Bool.false_and, Bool.not_false,
      Bool.true_and]
    split
    · exact mem_top _ _
    · next hat =>
      have hat' := not_at_not_mem hw hs he (by omega : 0 < 2 ^ w) hat
      have hse : s ≤ e := by
        rcases Nat.lt_or_ge e s with c | c
        · exfalso
          obtain ⟨H, hHe⟩ : ∃ H, 2 ^ w = H + 1 := ⟨2 ^ w - 1, by omega⟩
          exact hat' (crossU_bwd _ H s e hHe hs he c).2.1
        · exact c
      have hm' := (mem_ord_iff hw hse he ha).mp hm
      show mem w v (W w s (2 ^ w - 1) false)
      rw [mem_ord_iff hw (by omega) (by omega) hv]
      omega
  · have : (W w s e false).upperHalfLine false = W w s e false := by simp [upperHalfLine, hnt]
    rw [this]; exact mem_of_isTop hnt

end WInt
end Crab
