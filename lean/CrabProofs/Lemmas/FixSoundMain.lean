import CrabProofs.Lemmas.FixSoundStruct
import CrabProofs.Lemmas.FixSoundSem

/-!
# Soundness of the interleaved fixpoint iterator (C01, engine part)

`visit_all` : by induction on the fuel, simultaneously for `visitComp`, `visitList`, `ascend`,
`descend` : a visit started with `skip = false` changes only the tables of the blocks of the
component, and afterwards the tables contain the least solution of the component relative to
the posts of the blocks outside (`Snd`).  `run_sound_of` handles the skipping of the components
in front of the start block and concludes for the global collecting semantics.
-/
namespace Crab
namespace Fix
namespace Sound

variable {A S : Type}

/-- only the tables of the blocks of `C` change, and `skip` is (still) off -/
def Frame (C : List Nat) (st st' : St A) : Prop :=
  st'.skip = false ∧ ∀ n, n ∉ C → st'.pre n = st.pre n ∧ st'.post n = st.post n

theorem Frame.trans {C1 C2 C : List Nat} {a b d : St A} (h1 : Frame C1 a b) (h2 : Frame C2 b d)
    (s1 : ∀ n, n ∈ C1 → n ∈ C) (s2 : ∀ n, n ∈ C2 → n ∈ C) : Frame C a d := by
  refine ⟨h2.1, fun n hn => ?_⟩
  have e1 := h1.2 n (fun h => hn (s1 n h))
  have e2 := h2.2 n (fun h => hn (s2 n h))
  exact ⟨e2.1.trans e1.1, e2.2.trans e1.2⟩

theorem Frame.ext_iff {c : Ctx A} (sem : Sem c S) {C : List Nat} {a b : St A} (h : Frame C a b) :
    ∀ p s, p ∉ C → (Ext sem a p s ↔ Ext sem b p s) := by
  intro p s hp
  unfold Ext
  rw [(h.2 p hp).2]

/-! ### a plain vertex -/

theorem visitVertex_pre (c : Ctx A) (st : St A) (v : Nat) (hs : st.skip = false) :
    (visitVertex c st v).pre = upd st.pre v (vertexPre c st v) := by
  simp [visitVertex, hs, computePost, vertexPre]

theorem visitVertex_post (c : Ctx A) (st : St A) (v : Nat) (hs : st.skip = false) :
    (visitVertex c st v).post = upd st.post v (c.analyze v (vertexPre c st v)) := by
  simp [visitVertex, hs, computePost, vertexPre]

theorem visitVertex_skip (c : Ctx A) (st : St A) (v : Nat) (hs : st.skip = false) :
    (visitVertex c st v).skip = false := by
  simp [visitVertex, hs, computePost]

/-! ### the four mutually recursive functions -/

/-- what is shown about a visit of the region `C` from `st` to `st'` -/
def VisitGood (c : Ctx A) (sem : Sem c S) (C : List Nat) (st st' : St A) : Prop :=
  Frame C st st' ∧ Snd c sem C (Ext sem st) st'

theorem VisitGood.rebase {c : Ctx A} {sem : Sem c S} {C : List Nat} {a b d : St A}
    (hab : Frame C a b) (h : VisitGood c sem C b d) : VisitGood c sem C a d := by
  refine ⟨hab.trans h.1 (fun _ x => x) (fun _ x => x), ?_⟩
  exact h.2.mono (fun p s hp hE => (hab.ext_iff sem p s hp).1 hE)

theorem visit_all (c : Ctx A) (sem : Sem c S) : ∀ fuel : Nat,
    (∀ st x st', visitComp c fuel st x = some st' → st.skip = false → CompOK c x →
        x.nodes.Nodup → VisitGood c sem x.nodes st st') ∧
    (∀ st xs st', visitList c fuel st xs = some st' → st.skip = false → ListOK c xs →
        (nodesList xs).Nodup → VisitGood c sem (nodesList xs) st st') ∧
    (∀ st h B it pre r, ascend c fuel st h B it pre = some r → st.skip = false → ListOK c B →
        (h :: nodesList B).Nodup →
        VisitGood c sem (h :: nodesList B) st r.1 ∧
        ∀ s, LPre c sem (h :: nodesList B) (Ext sem st) h s → sem.γ r.2 s) ∧
    (∀ st h B it pre st', descend c fuel st h B it pre = some st' → st.skip = false →
        ListOK c B → (h :: nodesList B).Nodup →
        (∀ s, LPre c sem (h :: nodesList B) (Ext sem st) h s → sem.γ pre s) →
        (∀ s, LPre c sem (h :: nodesList B) (Ext sem st) h s → sem.γ (st.pre h) s) →
        VisitGood c sem (h :: nodesList B) st st') := by
  intro fuel
  induction fuel with
  | zero =>
    refine ⟨?_, ?_, ?_, ?_⟩
    · intro st x st' H; simp [visitComp] at H
    · intro st xs st' H; simp [visitList] at H
    · intro st h B it pre r H; simp [ascend] at H
    · intro st h B it pre st' H; simp [descend] at H
  | succ fuel ih =>
    obtain ⟨ihC, ihL, ihA, ihD⟩ := ih
    refine ⟨?_, ?_, ?_, ?_⟩
    · -- visitComp
      intro st x st' H hs hok hnd
      cases x with
      | vertex v =>
        simp only [visitComp, Option.some.injEq] at H
        subst H
        simp only [CompOK] at hok
        refine ⟨⟨visitVertex_skip c st v hs, fun n hn => ?_⟩, ?_⟩
        · have hn' : n ≠ v := by simpa [Comp.nodes] using hn
          rw [visitVertex_pre c st v hs, visitVertex_post c st v hs]
          exact ⟨upd_other _ _ _ _ hn', upd_other _ _ _ _ hn'⟩
        · show Snd c sem [v] (Ext sem st) _
          apply vertex_sound st _ v hok
          · rw [visitVertex_pre c st v hs]; exact upd_same _ _ _
          · rw [visitVertex_post c st v hs]; exact upd_same _ _ _
      | cycle h B =>
        simp only [visitComp, hs, Bool.false_and, Bool.false_eq_true, if_false] at H
        simp only [CompOK] at hok
        simp only [Comp.nodes] at hnd ⊢
        split at H
        · exact absurd H (by simp)
        · rename_i st1 p1 hA
          have hA' := ihA _ h B 1 _ (st1, p1) hA rfl hok hnd
          obtain ⟨hG, hp1⟩ := hA'
          -- `{st with skip := false}` has the tables of `st`
          have hG' : VisitGood c sem (h :: nodesList B) st st1 := hG
          have hp1' : ∀ s, LPre c sem (h :: nodesList B) (Ext sem st) h s → sem.γ p1 s := hp1
          split at H
          · simp only [Option.some.injEq] at H
            subst H
            exact hG'
          · have hmono : ∀ s, LPre c sem (h :: nodesList B) (Ext sem st1) h s →
                LPre c sem (h :: nodesList B) (Ext sem st) h s :=
              fun s hL => hL.mono (fun p s hp hE => (hG'.1.ext_iff sem p s hp).2 hE)
            have hD := ihD st1 h B 1 p1 st' H hG'.1.1 hok hnd
              (fun s hL => hp1' s (hmono s hL))
              (fun s hL => (hG'.2 h s (hmono s hL)).1)
            exact hD.rebase hG'.1
    · -- visitList
      intro st xs st' H hs hok hnd
      cases xs with
      | nil =>
        simp only [visitList, Option.some.injEq] at H
        subst H
        refine ⟨⟨hs, fun n _ => ⟨rfl, rfl⟩⟩, ?_⟩
        intro n s hL
        exact absurd hL.mem (by simp [nodesList])
      | cons x xs =>
        simp only [visitList] at H
        split at H
        · exact absurd H (by simp)
        · rename_i st1 hC
          simp only [ListOK] at hok
          simp only [nodesList] at hnd ⊢
          have hnd' := List.nodup_append.1 hnd
          have g1 := ihC st x st1 hC hs hok.1 hnd'.1
          have g2 := ihL st1 xs st' H g1.1.1 hok.2.1 hnd'.2.1
          refine ⟨g1.1.trans g2.1 (fun n hn => List.mem_append.2 (Or.inl hn))
            (fun n hn => List.mem_append.2 (Or.inr hn)), ?_⟩
          exact seq_sound x.nodes (nodesList xs) st st1 st'
            (fun n h1 h2 => hnd'.2.2 n h1 n h2 rfl) hok.2.2
            (fun n hn => (g1.1.2 n hn).2) g2.1.2 g1.2 g2.2
    · -- ascend
      intro st h B it pre r H hs hok hnd
      simp only [ascend] at H
      split at H
      · exact absurd H (by simp)
      · rename_i st2 hL
        have hnd1 := List.nodup_cons.1 hnd
        -- the state after recomputing the head
        have hst1 : ∃ st1, st1 = computePost c { st with pre := upd st.pre h pre } h pre :=
          ⟨_, rfl⟩
        obtain ⟨st1, hst1⟩ := hst1
        rw [← hst1] at hL
        have hs1 : st1.skip = false := by rw [hst1]; exact hs
        have hp1 : st1.post h = c.analyze h pre := by rw [hst1]; simp [computePost, upd]
        have hpre1 : st1.pre h = pre := by rw [hst1]; simp [computePost, upd]
        have hf1 : ∀ n, n ≠ h → st1.post n = st.post n := by
          intro n hn; rw [hst1]; simp [computePost, upd, hn]
        have hfp1 : ∀ n, n ≠ h → st1.pre n = st.pre n := by
          intro n hn; rw [hst1]; simp [computePost, upd, hn]
        have hF1 : Frame (h :: nodesList B) st st1 :=
          ⟨hs1, fun n hn => by
            have : n ≠ h := fun e => hn (by simp [e])
            exact ⟨hfp1 n this, hf1 n this⟩⟩
        have gB := ihL st1 B st2 hL hs1 hok hnd1.2
        have hF2 : Frame (h :: nodesList B) st st2 :=
          hF1.trans gB.1 (fun _ x => x) (fun n hn => List.mem_cons_of_mem _ hn)
        split at H
        · -- stabilisation test passed
          rename_i hle
          simp only [Option.some.injEq] at H
          subst H
          have hR := cycle_round (sem := sem) h (nodesList B) st st1 st2 pre hnd1.1 hp1 hf1
            (fun n hn => (gB.1.2 n hn).2) gB.2
            (fun s _ hnp => sem.leq_sound _ _ _ hle hnp)
            (fun s _ hp => by rw [(gB.1.2 h hnd1.1).1, hpre1]; exact hp)
          have hNP := cycle_newPre (sem := sem) h (nodesList B) st st2
            (fun n hn => (hF2.2 n hn).2) hR.1
          refine ⟨⟨⟨hF2.1, fun n hn => ?_⟩, ?_⟩, hNP⟩
          · have : n ≠ h := fun e => hn (by simp [e])
            have := hF2.2 n hn
            simpa [upd, ‹n ≠ h›] using this
          · exact Snd.set_pre h _ hR.1 hNP
        · -- another ascending round
          have hA := ihA st2 h B (it + 1) _ r H hF2.1 hok hnd
          refine ⟨hA.1.rebase hF2, fun s hL' => hA.2 s ?_⟩
          exact hL'.mono (fun p s hp hE => (hF2.ext_iff sem p s hp).1 hE)
    · -- descend
      intro st h B it pre st' H hs hok hnd hH hH'
      simp only [descend] at H
      split at H
      · exact absurd H (by simp)
      · rename_i st2 hL
        have hnd1 := List.nodup_cons.1 hnd
        have hst1 : ∃ st1, st1 = computePost c st h pre := ⟨_, rfl⟩
        obtain ⟨st1, hst1⟩ := hst1
        rw [← hst1] at hL
        have hs1 : st1.skip = false := by rw [hst1]; exact hs
        have hp1 : st1.post h = c.analyze h pre := by rw [hst1]; simp [computePost, upd]
        have hf1 : ∀ n, n ≠ h → st1.post n = st.post n := by
          intro n hn; rw [hst1]; simp [computePost, upd, hn]
        have hfp1 : ∀ n, st1.pre n = st.pre n := by
          intro n; rw [hst1]; simp [computePost]
        have hF1 : Frame (h :: nodesList B) st st1 :=
          ⟨hs1, fun n hn => by
            have : n ≠ h := fun e => hn (by simp [e])
            exact ⟨hfp1 n, hf1 n this⟩⟩
        have gB := ihL st1 B st2 hL hs1 hok hnd1.2
        have hF2 : Frame (h :: nodesList B) st st2 :=
          hF1.trans gB.1 (fun _ x => x) (fun n hn => List.mem_cons_of_mem _ hn)
        have hR := cycle_round (sem := sem) h (nodesList B) st st1 st2 pre hnd1.1 hp1 hf1
          (fun n hn => (gB.1.2 n hn).2) gB.2
          (fun s hL' _ => hH s hL')
          (fun s hL' _ => by rw [(gB.1.2 h hnd1.1).1, hfp1 h]; exact hH' s hL')
        have hG2 : VisitGood c sem (h :: nodesList B) st st2 := ⟨hF2, hR.1⟩
        split at H
        · simp only [Option.some.injEq] at H
          subst H; exact hG2
        · split at H
          · simp only [Option.some.injEq] at H
            subst H; exact hG2
          · have hNP := cycle_newPre (sem := sem) h (nodesList B) st st2
              (fun n hn => (hF2.2 n hn).2) hR.1
            have hRef : ∀ s, LPre c sem (h :: nodesList B) (Ext sem st) h s →
                sem.γ (refine c it pre (newPre c st2 h)) s :=
              fun s hL' => refine_sound it _ _ s (hH s hL') (hNP s hL')
            -- the state handed to the next descending round
            have hF3 : Frame (h :: nodesList B) st
                { st2 with pre := upd st2.pre h (refine c it pre (newPre c st2 h)) } := by
              refine ⟨hF2.1, fun n hn => ?_⟩
              have : n ≠ h := fun e => hn (by simp [e])
              have := hF2.2 n hn
              simpa [upd, ‹n ≠ h›] using this
            have hmono : ∀ s, LPre c sem (h :: nodesList B)
                (Ext sem { st2 with pre := upd st2.pre h (refine c it pre (newPre c st2 h)) }) h s →
                LPre c sem (h :: nodesList B) (Ext sem st) h s :=
              fun s hL' => hL'.mono (fun p s hp hE => (hF3.ext_iff sem p s hp).2 hE)
            have hD := ihD _ h B (it + 1) _ st' H hF3.1 hok hnd
              (fun s hL' => hRef s (hmono s hL'))
              (fun s hL' => by
                show sem.γ (upd st2.pre h _ h) s
                rw [upd_same]; exact hRef s (hmono s hL'))
            exact hD.rebase hF3

end Sound
end Fix
end Crab
