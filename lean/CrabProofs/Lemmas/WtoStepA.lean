import CrabProofs.Lemmas.WtoInvLemmas

/-! Steps of `visitLoop` that examine a successor without discovering a new node. -/
namespace Crab
namespace Wto

theorem ChainOK.congr_head {g : Graph} {p p' : GF} {gs : List GF} (hn : p'.f.node = p.f.node)
    (h : ChainOK g (p :: gs)) : ChainOK g (p' :: gs) := by
  cases gs with
  | nil => trivial
  | cons q rest =>
    simp only [ChainOK] at h ⊢
    rw [hn]; exact h

theorem ChainOK.tail {g : Graph} {p : GF} {gs : List GF} (h : ChainOK g (p :: gs)) : ChainOK g gs := by
  cases gs with
  | nil => trivial
  | cons q rest => exact h.2

/-- where a node of the region is, according to its current dfn -/
theorem Inv.classify {g : Graph} {K : Nat → Prop} {st0 : St} {part0 : List WtoC} {v : Nat}
    {gs : List GF} {ln : List Nat} {part : List WtoC} {st : St} {W : List WtoC}
    (h : Inv g K st0 part0 v gs ln part st W) (hK : ClosedK g K st0) {y : Nat}
    (hy : K y ∨ getDfn st0.dfn y = .inf) :
    (getDfn st.dfn y = .inf → DoneNow st0 W y) ∧
    (getDfn st.dfn y = .fin 0 → K y ∧ getDfn st0.dfn y = .fin 0 ∧ y ∉ flattenL W ∧ y ∉ stk gs) ∧
    (∀ k, k ≠ 0 → getDfn st.dfn y = .fin k → y ∈ stk gs) := by
  by_cases hW : y ∈ flattenL W
  · have := h.dfn_W y hW
    refine ⟨fun _ => Or.inl hW, ?_, ?_⟩
    · intro h0; rw [this] at h0; cases h0
    · intro k _ hk; rw [this] at hk; cases hk
  · by_cases hS : y ∈ stk gs
    · obtain ⟨k, hk, hk0, _⟩ := h.dfn_stk y hS
      refine ⟨?_, ?_, fun _ _ _ => hS⟩
      · intro hi; rw [hk] at hi; cases hi
      · intro h0; rw [hk] at h0; cases h0; omega
    · have he := h.dfn_other y hW hS
      rw [he]
      have h01 : getDfn st0.dfn y = .fin 0 ∨ getDfn st0.dfn y = .inf := by
        rcases hy with hy | hy
        · exact (hK y hy).2.1
        · exact Or.inr hy
      refine ⟨fun hi => Or.inr hi, ?_, ?_⟩
      · intro h0
        rcases hy with hy | hy
        · exact ⟨hy, h0, hW, hS⟩
        · rw [hy] at h0; cases h0
      · intro k hk0 hk
        rcases h01 with h1 | h1
        · rw [h1] at hk; cases hk; exact absurd rfl hk0
        · rw [h1] at hk; cases hk

/-- the successors of a node of the current stack are in the region -/
theorem Inv.succ_region {g : Graph} {K : Nat → Prop} {st0 : St} {part0 : List WtoC} {v : Nat}
    {gs : List GF} {ln : List Nat} {part : List WtoC} {st : St} {W : List WtoC}
    (h : Inv g K st0 part0 v gs ln part st W) (hK : ClosedK g K st0) {x y : Nat}
    (hx : x ∈ stk gs) (hy : y ∈ g.succ x) : K y ∨ getDfn st0.dfn y = .inf :=
  (hK x (h.stk_K x hx).1).2.2 y hy

/-- replace the top frame by one with the same node and the same finished nodes -/
theorem Inv.update_top {g : Graph} {K : Nat → Prop} {st0 : St} {part0 : List WtoC} {v : Nat}
    {p p' : GF} {gs : List GF} {ln ln' : List Nat} {part : List WtoC} {st : St} {W : List WtoC}
    (h : Inv g K st0 part0 v (p :: gs) ln part st W)
    (hn : p'.f.node = p.f.node) (ha : p'.above = p.above) (hln : ∀ z ∈ ln, z ∈ ln')
    (hp' : FrameOK g st0.num (dn st.dfn) ln' (DoneNow st0 W) (stk (p :: gs)) p') :
    Inv g K st0 part0 v (p' :: gs) ln' part st W := by
  have hstk : stk (p' :: gs) = stk (p :: gs) := by
    simp [stk_cons, GF.seg, hn, ha]
  refine ⟨h.part_eq, by rw [hstk]; exact h.stack_eq, h.size_eq, h.num_ge, h.dfn_W,
    by rw [hstk]; exact h.dfn_stk, by rw [hstk]; exact h.dfn_other, by rw [hstk]; exact h.sorted,
    h.W_nodup, h.W_K, by rw [hstk]; exact h.stk_K, by rw [hstk]; exact h.disj, h.W_edges, ?_,
    h.chain.congr_head hn, by rw [hstk]; exact h.root_in⟩
  intro q hq
  rw [hstk]
  rcases List.mem_cons.1 hq with rfl | hq
  · exact hp'
  · exact (h.frames q (List.mem_cons_of_mem _ hq)).mono
      (fun x hx => mem_stk_of_mem (List.mem_cons_of_mem _ hq) hx)
      (fun _ _ => rfl) hln (fun _ hd => hd) (fun _ hy => hy)

/-- the top frame after one successor has been examined (`_min` possibly lowered to `m'`) -/
def GF.examined (p : GF) (child : Nat) (rest : List Nat) (m' : Nat) : GF :=
  { f := { node := p.f.node, succs := rest, min := m' }, above := p.above, done := p.done ++ [child] }

theorem FrameOK.examine {g : Graph} {num0 : Nat} {dnf : Nat → Nat} {ln ln' : List Nat}
    {D : Nat → Prop} {S : List Nat} {p : GF} {child : Nat} {rest : List Nat} {m' : Nat}
    (h : FrameOK g num0 dnf ln D S p) (hs : p.f.succs = child :: rest)
    (hm : m' ≤ p.f.min) (hm0 : num0 < m') (hln : ∀ z ∈ ln, z ∈ ln')
    (hchild : D child ∨ (child ∈ S ∧ m' ≤ dnf child))
    (hwit : m' = p.f.min ∨ ∃ z ∈ ln', z ∈ S ∧ dnf z = m')
    (hself : child = p.f.node → p.f.node ∈ ln' ∨ m' < dnf p.f.node) :
    FrameOK g num0 dnf ln' D S (p.examined child rest m') := by
  refine ⟨?_, hm0, Nat.le_trans hm h.min_le, ?_, ?_, ?_, ?_, ?_, ?_⟩
  · simp [GF.examined, h.succ_eq, hs]
  · intro y hy
    simp only [GF.examined, List.mem_append, List.mem_singleton] at hy
    rcases hy with hy | rfl
    · rcases h.ex_node y hy with hd | ⟨hyS, hle⟩
      · exact Or.inl hd
      · exact Or.inr ⟨hyS, Nat.le_trans hm hle⟩
    · exact hchild
  · intro x hx y hy
    rcases h.ex_above x hx y hy with hd | ⟨hyS, hle⟩
    · exact Or.inl hd
    · exact Or.inr ⟨hyS, Nat.le_trans hm hle⟩
  · rcases hwit with he | hw
    · rcases h.min_wit with h1 | ⟨z, hz, hzS, hzd⟩
      · exact Or.inl (by simp only [GF.examined]; omega)
      · exact Or.inr ⟨z, hln z hz, hzS, by simp only [GF.examined]; omega⟩
    · exact Or.inr hw
  · intro x hx
    obtain ⟨z, hz, hzS, h1, h2⟩ := h.above_wit x hx
    exact ⟨z, hln z hz, hzS, Nat.le_trans hm h1, h2⟩
  · intro hd
    simp only [GF.examined, List.mem_append, List.mem_singleton] at hd
    rcases hd with hd | hd
    · rcases h.self_loop hd with h1 | h1
      · exact Or.inl (hln _ h1)
      · exact Or.inr (by simp only [GF.examined]; omega)
    · exact hself hd.symm
  · exact h.parent

section
variable {g : Graph} {K : Nat → Prop} {st0 : St} {part0 : List WtoC} {v : Nat}
  {p : GF} {gs : List GF} {ln : List Nat} {part : List WtoC} {st : St} {W : List WtoC}

theorem Inv.top_frame (h : Inv g K st0 part0 v (p :: gs) ln part st W) :
    FrameOK g st0.num (dn st.dfn) ln (DoneNow st0 W) (stk (p :: gs)) p :=
  h.frames p (by simp)

theorem Inv.node_mem_stk (_h : Inv g K st0 part0 v (p :: gs) ln part st W) : p.f.node ∈ stk (p :: gs) :=
  mem_stk_of_mem (by simp) (node_mem_seg p)

theorem Inv.child_region (h : Inv g K st0 part0 v (p :: gs) ln part st W) (hK : ClosedK g K st0)
    {child : Nat} {rest : List Nat} (hs : p.f.succs = child :: rest) :
    K child ∨ getDfn st0.dfn child = .inf := by
  apply h.succ_region hK h.node_mem_stk
  rw [h.top_frame.succ_eq, hs]; simp

/-- the examined successor is placed (`+oo`), or active with a dfn above `_min` -/
theorem Inv.step_skip (h : Inv g K st0 part0 v (p :: gs) ln part st W) (hK : ClosedK g K st0)
    {child : Nat} {rest : List Nat} (hs : p.f.succs = child :: rest)
    (hc : getDfn st.dfn child = .inf ∨ ∃ k, getDfn st.dfn child = .fin k ∧ k ≠ 0 ∧ ¬ k ≤ p.f.min) :
    Inv g K st0 part0 v (p.examined child rest p.f.min :: gs) ln part st W := by
  have hcl := h.classify hK (h.child_region hK hs)
  refine h.update_top (p' := p.examined child rest p.f.min) rfl rfl (fun _ hz => hz) ?_
  apply h.top_frame.examine hs (Nat.le_refl _) h.top_frame.min_gt (fun _ hz => hz)
  · rcases hc with hi | ⟨k, hk, hk0, hkm⟩
    · exact Or.inl (hcl.1 hi)
    · exact Or.inr ⟨hcl.2.2 k hk0 hk, by rw [dn_of_getDfn hk]; omega⟩
  · exact Or.inl rfl
  · intro he
    right
    rcases hc with hi | ⟨k, hk, _, hkm⟩
    · obtain ⟨k, hk, _, _⟩ := h.dfn_stk _ h.node_mem_stk
      rw [← he, hi] at hk; cases hk
    · rw [← he, dn_of_getDfn hk]; omega

/-- "loop found": the examined successor is active with a dfn not above `_min` -/
theorem Inv.step_lower (h : Inv g K st0 part0 v (p :: gs) ln part st W) (hK : ClosedK g K st0)
    {child : Nat} {rest : List Nat} (hs : p.f.succs = child :: rest) {k : Nat}
    (hk : getDfn st.dfn child = .fin k) (hk0 : k ≠ 0) (hkm : k ≤ p.f.min) :
    Inv g K st0 part0 v (p.examined child rest k :: gs) (child :: ln) part st W := by
  have hcl := h.classify hK (h.child_region hK hs)
  have hcS : child ∈ stk (p :: gs) := hcl.2.2 k hk0 hk
  obtain ⟨k', hk', hk'0, _⟩ := h.dfn_stk child hcS
  have hkk : k' = k := by rw [hk] at hk'; cases hk'; rfl
  subst hkk
  refine h.update_top (p' := p.examined child rest k') (ln' := child :: ln) rfl rfl
    (fun _ hz => List.mem_cons_of_mem _ hz) ?_
  apply h.top_frame.examine hs hkm hk'0 (fun _ hz => List.mem_cons_of_mem _ hz)
  · exact Or.inr ⟨hcS, by rw [dn_of_getDfn hk]; exact Nat.le_refl _⟩
  · exact Or.inr ⟨child, by simp, hcS, dn_of_getDfn hk⟩
  · intro he
    left; rw [← he]; simp
end

end Wto
end Crab
