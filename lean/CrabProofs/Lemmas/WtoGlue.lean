import CrabProofs.Lemmas.WtoStepH

/-! Entering and leaving a call of `visit`; sequencing calls (the loop of `component`). -/
namespace Crab
namespace Wto

theorem Inv.init {g : Graph} {K : Nat → Prop} {st0 : St} (part0 : List WtoC) {v : Nat}
    (hK : ClosedK g K st0) (hv : K v) (hfree : getDfn st0.dfn v = .fin 0) :
    Inv g K st0 part0 v [GF.fresh g v (st0.num + 1)] [] part0 (discover st0 v) [] := by
  have hsz : v < st0.dfn.size := (hK v hv).1
  have hstk : stk [GF.fresh g v (st0.num + 1)] = [v] := by simp [stk, GF.seg, GF.fresh]
  have hdnv : dn (discover st0 v).dfn v = st0.num + 1 := by
    apply dn_of_getDfn; rw [getDfn_discover st0 v v hsz]; simp
  refine ⟨rfl, by rw [hstk]; simp [discover], by simp [discover], by simp [discover], ?_, ?_, ?_, ?_,
    by simp [flattenL], ?_, ?_, ?_, ?_, ?_, trivial, ?_⟩
  · intro x hx; simp [flattenL] at hx
  · intro x hx
    rw [hstk] at hx
    have : x = v := by simpa using hx
    subst this
    exact ⟨st0.num + 1, by rw [getDfn_discover st0 x x hsz]; simp, by omega, by simp [discover]⟩
  · intro x _ hx
    rw [hstk] at hx
    have hne : x ≠ v := by simpa using hx
    rw [getDfn_discover st0 v x hsz, if_neg hne]
  · rw [hstk]; simp
  · intro x hx; simp [flattenL] at hx
  · intro x hx
    rw [hstk] at hx
    have : x = v := by simpa using hx
    subst this
    exact ⟨hv, hfree⟩
  · intro x hx; simp [flattenL] at hx
  · intro x hx; simp [flattenL] at hx
  · intro q hq
    have : q = GF.fresh g v (st0.num + 1) := by simpa using hq
    subst this
    exact FrameOK.fresh g _ _ _ _ _ v (st0.num + 1) (by omega) hdnv
  · rw [hstk]; simp

theorem Inv.final {g : Graph} {K : Nat → Prop} {st0 : St} {part0 : List WtoC} {v : Nat}
    {ln : List Nat} {part : List WtoC} {st : St} {W : List WtoC}
    (h : Inv g K st0 part0 v [] ln part st W) :
    part = W ++ part0 ∧ Placed g K st0 W st ∧ v ∈ flattenL W := by
  refine ⟨h.part_eq, ⟨by simpa [stk_nil] using h.stack_eq, h.size_eq, h.num_ge, h.dfn_W, ?_,
    h.W_nodup, h.W_K, h.W_edges⟩, ?_⟩
  · intro x hx
    exact h.dfn_other x hx (by simp [stk_nil])
  · rcases h.root_in with hv | hv
    · simp [stk_nil] at hv
    · exact hv

theorem Placed.refl (g : Graph) (K : Nat → Prop) (st0 : St) : Placed g K st0 [] st0 :=
  ⟨rfl, rfl, Nat.le_refl _, by intro x hx; simp [flattenL] at hx, fun _ _ => rfl, by simp [flattenL],
    by intro x hx; simp [flattenL] at hx, by intro x hx; simp [flattenL] at hx⟩

/-- a region stays a region when some of its free nodes get placed -/
theorem ClosedK.placed {g : Graph} {K : Nat → Prop} {st0 st : St} {W : List WtoC}
    (hK : ClosedK g K st0) (hP : Placed g K st0 W st) : ClosedK g K st := by
  have hd : ∀ y, getDfn st.dfn y = getDfn st0.dfn y ∨ getDfn st.dfn y = .inf := by
    intro y
    by_cases hy : y ∈ flattenL W
    · exact Or.inr (hP.dfn_W y hy)
    · exact Or.inl (hP.dfn_other y hy)
  intro x hx
  obtain ⟨h1, h2, h3⟩ := hK x hx
  refine ⟨by rw [hP.size_eq]; exact h1, ?_, ?_⟩
  · rcases hd x with he | he
    · rw [he]; exact h2
    · exact Or.inr he
  · intro y hy
    rcases h3 y hy with hk | hk
    · exact Or.inl hk
    · right
      rcases hd y with he | he
      · rw [he]; exact hk
      · exact he

/-- two consecutive placements compose (the later one goes in front) -/
theorem Placed.trans {g : Graph} {K : Nat → Prop} {st0 st1 st2 : St} {W1 W2 : List WtoC}
    (h1 : Placed g K st0 W1 st1) (h2 : Placed g K st1 W2 st2) : Placed g K st0 (W2 ++ W1) st2 := by
  have hdisj : ∀ x ∈ flattenL W2, x ∉ flattenL W1 := by
    intro x hx hx1
    have := (h2.W_K x hx).2
    rw [h1.dfn_W x hx1] at this; cases this
  refine ⟨by rw [h2.stack_eq, h1.stack_eq], by rw [h2.size_eq, h1.size_eq],
    Nat.le_trans h1.num_ge h2.num_ge, ?_, ?_, ?_, ?_, ?_⟩
  · intro x hx
    rw [flattenL_append, List.mem_append] at hx
    by_cases hx2 : x ∈ flattenL W2
    · exact h2.dfn_W x hx2
    · rw [h2.dfn_other x hx2]
      rcases hx with hx | hx
      · exact absurd hx hx2
      · exact h1.dfn_W x hx
  · intro x hx
    rw [flattenL_append, List.mem_append, not_or] at hx
    rw [h2.dfn_other x hx.1, h1.dfn_other x hx.2]
  · rw [flattenL_append, List.nodup_append]
    exact ⟨h2.W_nodup, h1.W_nodup, fun a ha b hb e => hdisj a ha (e ▸ hb)⟩
  · intro x hx
    rw [flattenL_append, List.mem_append] at hx
    rcases hx with hx | hx
    · have := h2.W_K x hx
      refine ⟨this.1, ?_⟩
      rw [← h1.dfn_other x (hdisj x hx)]; exact this.2
    · exact h1.W_K x hx
  · intro x hx y hy
    rw [flattenL_append, List.mem_append] at hx
    rcases hx with hx | hx
    · rcases h2.W_edges x hx y hy with hd | hd
      · by_cases hy1 : y ∈ flattenL W1
        · exact Or.inr (EdgeOK.cross hx hy1)
        · left; rw [← h1.dfn_other y hy1]; exact hd
      · exact Or.inr (hd.append_right W1)
    · rcases h1.W_edges x hx y hy with hd | hd
      · exact Or.inl hd
      · exact Or.inr (hd.append_left W2)

end Wto
end Crab
