import CrabProofs.Lemmas.DisIntervalArith

/-! `dis_interval::widening` (`Crab.Dis.widenWith`) for an arbitrary interval widening `wop`
    (`BasicWidenOp` = `Itv.widen`, `WidenWithThresholdsOp` = `IDom.widenTh ts`): upper bound of both
    arguments and invariant, on normalised values. -/
namespace Crab
namespace Dis
open Bound

theorem mem_ofItv {i : Itv} (hw : i.WF) (k : Int) : mem k (ofItv i) ↔ Itv.mem k i := by
  unfold ofItv
  split
  · rename_i ht; exact ⟨fun _ => mem_of_isTop ht hw k, fun _ => trivial⟩
  · split
    · rename_i hb; exact ⟨fun h => absurd h (not_mem_bot k), fun h => absurd h (Itv.not_mem_of_isBottom hb)⟩
    · simp [mem]

theorem ofItv_wf {i : Itv} (hw : i.WF) : WF (ofItv i) := by
  unfold ofItv
  split
  · simp [WF]
  · split
    · simp [WF]
    · rename_i ht hb
      refine ⟨by simp, by simp [maxDisjunctions], ?_, by simp⟩
      intro a ha
      simp at ha; subst ha
      exact (proper_iff _).mpr ⟨by simpa using hb, by simpa using ht, hw⟩

theorem mem_of_isTop' {x : Dis} (h : x.isTop = true) (k : Int) : mem k x := by
  obtain ⟨s, l⟩ := x
  cases s <;> simp_all [isTop, mem]

theorem wfList_wf {l : List Itv} (h : WFList l) : ∀ a ∈ l, a.WF :=
  fun a ha => ((proper_iff a).mp (h.1 a ha)).2.2

/-- what the two interval widenings have in common -/
structure WOp (wop : Itv → Itv → Itv) : Prop where
  upper : ∀ a b k, Itv.mem k a ∨ Itv.mem k b → Itv.mem k (wop a b)
  wf : ∀ a b, a.WF → b.WF → (wop a b).WF

theorem wop_widen : WOp Itv.widen :=
  ⟨fun _ _ _ h => h.elim Itv.widen_upper_left Itv.widen_upper_right, fun _ _ => Itv.wf_widen⟩

theorem wop_widenTh {ts : IDom.Thresholds} (hts : ts.WF) : WOp (IDom.widenTh ts) :=
  ⟨fun _ _ _ h => h.elim (IDom.widenTh_upper_left hts) (IDom.widenTh_upper_right hts),
   fun _ _ => IDom.wf_widenTh hts⟩

/-- the vector `lb_widen, interior of the left argument, ub_widen` -/
def stableVec (wop : Itv → Itv → Itv) (a a' : Itv) (as : List Itv) (b b' : Itv) (bs : List Itv) : List Itv :=
  wop a b :: ((a' :: as).dropLast ++ [wop ((a' :: as).getLast (by simp)) ((b' :: bs).getLast (by simp))])

theorem widenWith_big (wop : Itv → Itv → Itv) (a a' : Itv) (as : List Itv) (b b' : Itv) (bs : List Itv) :
    widenWith wop ⟨.fin, a :: a' :: as⟩ ⟨.fin, b :: b' :: bs⟩ =
      if (mkList (stableVec wop a a' as b b' bs)).isTop ||
          leq ⟨.fin, b :: b' :: bs⟩ (mkList (stableVec wop a a' as b b' bs))
      then mkList (stableVec wop a a' as b b' bs)
      else ofItv (wop (approxNE a (a' :: as)) (approxNE b (b' :: bs))) := by
  have e1 : (DisState.fin == DisState.bot) = false := rfl
  have e2 : (DisState.fin == DisState.top) = false := rfl
  simp only [widenWith, stableVec, isBottom, isTop, e1, e2, Bool.false_eq_true, if_false]
  rfl

theorem stableVec_wf {wop : Itv → Itv → Itv} (hw : WOp wop) {a a' : Itv} {as : List Itv} {b b' : Itv}
    {bs : List Itv} (hx : ∀ i ∈ a :: a' :: as, i.WF) (hy : ∀ i ∈ b :: b' :: bs, i.WF) :
    ∀ i ∈ stableVec wop a a' as b b' bs, i.WF := by
  intro i hi
  unfold stableVec at hi
  rcases List.mem_cons.mp hi with rfl | hi
  · exact hw.wf _ _ (hx a (by simp)) (hy b (by simp))
  · rcases List.mem_append.mp hi with hi | hi
    · exact hx i (List.mem_cons_of_mem _ (List.dropLast_subset _ hi))
    · simp at hi; subst hi
      exact hw.wf _ _ (hx _ (List.mem_cons_of_mem _ (List.getLast_mem _)))
        (hy _ (List.mem_cons_of_mem _ (List.getLast_mem _)))

theorem stableVec_upper {wop : Itv → Itv → Itv} (hw : WOp wop) {a a' : Itv} {as : List Itv} {b b' : Itv}
    {bs : List Itv} {k : Int} (hk : memL k (a :: a' :: as)) : memL k (stableVec wop a a' as b b' bs) := by
  obtain ⟨i, hi, hki⟩ := hk
  unfold stableVec
  rcases List.mem_cons.mp hi with rfl | hi
  · exact ⟨wop i b, by simp, hw.upper _ _ k (Or.inl hki)⟩
  · rw [← List.dropLast_concat_getLast (l := a' :: as) (by simp)] at hi
    rcases List.mem_append.mp hi with hi | hi
    · exact ⟨i, by simp [hi], hki⟩
    · simp at hi; subst hi
      exact ⟨wop ((a' :: as).getLast (by simp)) ((b' :: bs).getLast (by simp)), by simp,
        hw.upper _ _ k (Or.inl hki)⟩

theorem stableVec_length (wop : Itv → Itv → Itv) (a a' : Itv) (as : List Itv) (b b' : Itv) (bs : List Itv) :
    (stableVec wop a a' as b b' bs).length = (a :: a' :: as).length := by
  simp [stableVec]

theorem widenWith_upper {wop : Itv → Itv → Itv} (hw : WOp wop) {x y : Dis} (hx : WF x) (hy : WF y)
    {k : Int} (h : mem k x ∨ mem k y) : mem k (widenWith wop x y) := by
  obtain ⟨sx, lx⟩ := x
  obtain ⟨sy, ly⟩ := y
  cases sx <;> cases sy <;> try (simp_all [widenWith, isBottom, isTop, mem]; done)
  have hwx := wfList_wf hx.2.2
  have hwy := wfList_wf hy.2.2
  have hnx := hx.1
  have hny := hy.1
  have e1 : (DisState.fin == DisState.bot) = false := rfl
  have e2 : (DisState.fin == DisState.top) = false := rfl
  match lx, ly, hx, hy, hwx, hwy, hnx, hny, h with
  | [a], [b], _, _, hwx, hwy, _, _, h =>
    simp only [widenWith, isBottom, isTop, e1, e2, Bool.false_eq_true, if_false]
    rw [mem_ofItv (hw.wf _ _ (hwx a (by simp)) (hwy b (by simp)))]
    apply hw.upper
    simpa [mem] using h
  | [a], b :: b' :: bs, _, hy, hwx, hwy, _, _, h =>
    simp only [widenWith, isBottom, isTop, e1, e2, Bool.false_eq_true, if_false]
    have hwa : (approxNE b (b' :: bs)).WF := by
      simp only [approxNE]; exact Itv.wf_join (hwy b (by simp)) (hwy _ (List.mem_cons_of_mem _ (List.getLast_mem _)))
    rw [mem_ofItv (hw.wf _ _ (hwx a (by simp)) hwa)]
    apply hw.upper
    rcases h with h | h
    · left; simpa [mem] using h
    · right; exact approxNE_mem hy.2.2 h
  | a :: a' :: as, [b], hx, _, hwx, hwy, _, _, h =>
    simp only [widenWith, isBottom, isTop, e1, e2, Bool.false_eq_true, if_false]
    have hwa : (approxNE a (a' :: as)).WF := by
      simp only [approxNE]; exact Itv.wf_join (hwx a (by simp)) (hwx _ (List.mem_cons_of_mem _ (List.getLast_mem _)))
    rw [mem_ofItv (hw.wf _ _ hwa (hwy b (by simp)))]
    apply hw.upper
    rcases h with h | h
    · left; exact approxNE_mem hx.2.2 h
    · right; simpa [mem] using h
  | a :: a' :: as, b :: b' :: bs, hx, hy, hwx, hwy, _, _, h =>
    rw [widenWith_big]
    split
    · rename_i hc
      rcases h with h | h
      · exact mkList_mem_upper (stableVec_wf hw hwx hwy) (stableVec_upper hw h)
      · rcases Bool.or_eq_true _ _ |>.mp hc with hc | hc
        · exact mem_of_isTop' hc k
        · exact leq_sound hc h
    · have hwa : (approxNE a (a' :: as)).WF := by
        simp only [approxNE]; exact Itv.wf_join (hwx a (by simp)) (hwx _ (List.mem_cons_of_mem _ (List.getLast_mem _)))
      have hwb : (approxNE b (b' :: bs)).WF := by
        simp only [approxNE]; exact Itv.wf_join (hwy b (by simp)) (hwy _ (List.mem_cons_of_mem _ (List.getLast_mem _)))
      rw [mem_ofItv (hw.wf _ _ hwa hwb)]
      apply hw.upper
      rcases h with h | h
      · left; exact approxNE_mem hx.2.2 h
      · right; exact approxNE_mem hy.2.2 h
  | [], _, _, _, _, _, hnx, _, _ => exact absurd rfl hnx
  | _ :: _, [], _, _, _, _, _, hny, _ => exact absurd rfl hny

theorem approxNE_wf {a : Itv} {as : List Itv} (h : ∀ i ∈ a :: as, i.WF) : (approxNE a as).WF := by
  cases as with
  | nil => exact h a (by simp)
  | cons a' as =>
    simp only [approxNE]
    exact Itv.wf_join (h a (by simp)) (h _ (List.mem_cons_of_mem _ (List.getLast_mem _)))

theorem widenWith_wf {wop : Itv → Itv → Itv} (hw : WOp wop) {x y : Dis} (hx : WF x) (hy : WF y) :
    WF (widenWith wop x y) := by
  obtain ⟨sx, lx⟩ := x
  obtain ⟨sy, ly⟩ := y
  cases sx <;> cases sy <;> try (simp_all [widenWith, isBottom, isTop, WF]; done)
  have hwx := wfList_wf hx.2.2
  have hwy := wfList_wf hy.2.2
  have hnx := hx.1
  have hny := hy.1
  have hlx := hx.2.1
  have e1 : (DisState.fin == DisState.bot) = false := rfl
  have e2 : (DisState.fin == DisState.top) = false := rfl
  match lx, ly, hwx, hwy, hnx, hny, hlx with
  | [a], [b], hwx, hwy, _, _, _ =>
    simp only [widenWith, isBottom, isTop, e1, e2, Bool.false_eq_true, if_false]
    exact ofItv_wf (hw.wf _ _ (hwx a (by simp)) (hwy b (by simp)))
  | [a], b :: b' :: bs, hwx, hwy, _, _, _ =>
    simp only [widenWith, isBottom, isTop, e1, e2, Bool.false_eq_true, if_false]
    exact ofItv_wf (hw.wf _ _ (hwx a (by simp)) (approxNE_wf hwy))
  | a :: a' :: as, [b], hwx, hwy, _, _, _ =>
    simp only [widenWith, isBottom, isTop, e1, e2, Bool.false_eq_true, if_false]
    exact ofItv_wf (hw.wf _ _ (approxNE_wf hwx) (hwy b (by simp)))
  | a :: a' :: as, b :: b' :: bs, hwx, hwy, _, _, hlx =>
    rw [widenWith_big]
    split
    · refine mkList_wf (stableVec_wf hw hwx hwy) ?_ (by rw [stableVec_length]; exact hlx)
      intro c hc
      have := congrArg List.length hc
      rw [stableVec_length] at this
      simp at this
    · exact ofItv_wf (hw.wf _ _ (approxNE_wf hwx) (approxNE_wf hwy))
  | [], _, _, _, hnx, _, _ => exact absurd rfl hnx
  | _ :: _, [], _, _, _, hny, _ => exact absurd rfl hny

end Dis
end Crab
