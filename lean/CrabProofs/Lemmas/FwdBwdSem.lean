import CrabProofs.Lemmas.FwdBwdDom
import CrabProofs.Lemmas.IRTrace
import CrabProofs.Lemmas.CheckerSound

/-!
  Semantic lemmas for the forward+backward discharge rule: executions as `Arrives` derivations
  (with the list of visited blocks), traces of the executable semantics are such derivations, an
  execution that visits `d` and later fails yields an error-reaching state at `d`, the
  statement loop of the checker with a set of discharged assertions.
-/
namespace Crab
namespace Analysis
open Crab.IR

variable {A : Type}

/-- the blocks visited by an execution form a path of the CFG from the entry block -/
theorem arrives_path (p : Program) (Init : State → Prop) (b : Nat) (σ : State) (l : List Nat)
    (h : Arrives p Init b σ l) : PathTo (progGraph p) b l := by
  induction h with
  | init σ _ => exact PathTo.entry
  | step b m σ σ' l _ _ hm ih => exact PathTo.step b m l ih hm

/-- an execution that visited block `d` and can still fail was, at `d`, in a state from which a
    failure is reachable -/
theorem arrives_through (p : Program) (Init : State → Prop) (m : Nat) (σ : State) (l : List Nat)
    (h : Arrives p Init m σ l) (d : Nat) (hd : d ∈ l) (hf : FailsFrom p m σ) :
    ∃ σd, ErrArr p Init d σd := by
  induction h with
  | init σ hi =>
    simp only [List.mem_singleton] at hd
    subst hd
    exact ⟨σ, ⟨_, Arrives.init σ hi⟩, hf⟩
  | step b m σ σ' l ha hs hm ih =>
    simp only [List.mem_cons] at hd
    rcases hd with hd | hd
    · subst hd
      exact ⟨σ', ⟨_, Arrives.step b d σ σ' l ha hs hm⟩, hf⟩
    · exact ih hd (FailsFrom.step b m σ σ' hs hm hf)

/-- every `enter` event of a trace started from an arrival is an arrival -/
theorem trace_arrives (p : Program) (Init : State → Prop) :
    ∀ (fuel b0 : Nat) (σ0 : State) (ch : List Int) (l0 : List Nat), Arrives p Init b0 σ0 l0 →
      ∀ b σ, Event.enter b σ ∈ exec p fuel b0 σ0 ch → ∃ l, Arrives p Init b σ l := by
  intro fuel
  induction fuel with
  | zero => intro b0 σ0 ch l0 _ b σ h; simp [exec] at h
  | succ fuel ih =>
    intro b0 σ0 ch l0 h0 b σ h
    have hev : ∀ e, e ∈ (runBlock p b0 σ0 ch).events → ∃ j σ' ok, e = Event.check b0 j σ' ok := by
      intro e he
      obtain ⟨j, σ', ok, h, _⟩ := runStmts_events_check b0 _ 0 σ0 ch e he
      exact ⟨j, σ', ok, h⟩
    unfold exec at h
    simp only [List.mem_cons, List.mem_append] at h
    rcases h with h | h | h
    · cases h; exact ⟨l0, h0⟩
    · obtain ⟨_, _, _, he⟩ := hev _ h; cases he
    · cases hres : (runBlock p b0 σ0 ch).res with
      | next σ1 =>
        rw [hres] at h
        simp only [List.mem_cons] at h
        rcases h with h | h
        · cases h
        · cases hp : pickSucc (p.block b0).succs (runBlock p b0 σ0 ch).rest with
          | none => rw [hp] at h; simp at h
          | some sc =>
            obtain ⟨s, ch1⟩ := sc
            rw [hp] at h
            have hs : s ∈ (p.block b0).succs := pickSucc_mem _ _ _ _ hp
            exact ih s σ1 ch1 (s :: l0) (Arrives.step b0 s σ0 σ1 l0 h0 ⟨ch, hres⟩ hs) b σ h
      | stop => rw [hres] at h; simp at h
      | fail => rw [hres] at h; simp at h
      | undef => rw [hres] at h; simp at h

/-- a failed `check` event of a run: the run arrives at the block in a state from which the
    block fails -/
theorem run_fail_arrives (p : Program) (Init : State → Prop) (n : Nat) (σ0 : State) (ch : List Int)
    (h0 : Init σ0) (b j : Nat) (σ' : State)
    (hev : Event.check b j σ' false ∈ IR.run p n σ0 ch) :
    ∃ σ l, Arrives p Init b σ l ∧ BlockFails p b σ := by
  obtain ⟨σ, ch', hen, hc⟩ := exec_check_of_enter p n p.entry σ0 ch b j σ' false hev
  obtain ⟨l, hl⟩ := trace_arrives p Init n p.entry σ0 ch [p.entry] (Arrives.init σ0 h0) b σ hen
  exact ⟨σ, l, hl, ⟨ch', j, σ', hc⟩⟩

/-- with forward invariants that describe the error-reaching states, every error-reaching state
    is co-reachable from the error states along an execution consistent with the invariants -/
theorem errArr_coFail (p : Program) (Init : State → Prop) (γ : A → State → Prop) (F : Nat → A)
    (hF : ErrCover p Init γ F) (b : Nat) (σ : State) (h : ErrArr p Init b σ) :
    CoFail p (fun n s => γ (F n) s) b σ := by
  obtain ⟨⟨l, ha⟩, hf⟩ := h
  induction hf generalizing l with
  | here b σ hb => exact CoFail.fail b σ (hF b σ ⟨⟨l, ha⟩, FailsFrom.here b σ hb⟩) hb
  | step b m σ σ' hs hm hf ih =>
    exact CoFail.flow b m σ σ' (hF b σ ⟨⟨l, ha⟩, FailsFrom.step b m σ σ' hs hm hf⟩) hs hm
      (ih (m :: l) (Arrives.step b m σ σ' l ha hs hm))

/-- a failed `check` event in a trace started at `(b0, σ0)`: a failure is reachable from there -/
theorem exec_fail_failsFrom (p : Program) :
    ∀ (fuel b0 : Nat) (σ0 : State) (ch : List Int) (b j : Nat) (σ' : State),
      Event.check b j σ' false ∈ exec p fuel b0 σ0 ch → FailsFrom p b0 σ0 := by
  intro fuel
  induction fuel with
  | zero => intro b0 σ0 ch b j σ' h; simp [exec] at h
  | succ fuel ih =>
    intro b0 σ0 ch b j σ' h
    unfold exec at h
    simp only [List.mem_cons, List.mem_append] at h
    rcases h with h | h | h
    · cases h
    · obtain ⟨j', σ'', ok', he, _⟩ := runStmts_events_check b0 _ 0 σ0 ch _ h
      cases he
      exact FailsFrom.here b0 σ0 ⟨ch, j, σ', h⟩
    · cases hres : (runBlock p b0 σ0 ch).res with
      | next σ1 =>
        rw [hres] at h
        simp only [List.mem_cons] at h
        rcases h with h | h
        · cases h
        · cases hp : pickSucc (p.block b0).succs (runBlock p b0 σ0 ch).rest with
          | none => rw [hp] at h; simp at h
          | some sc =>
            obtain ⟨s, ch1⟩ := sc
            rw [hp] at h
            exact FailsFrom.step b0 s σ0 σ1 ⟨ch, hres⟩ (pickSucc_mem _ _ _ _ hp) (ih s σ1 ch1 b j σ' h)
      | stop => rw [hres] at h; simp at h
      | fail => rw [hres] at h; simp at h
      | undef => rw [hres] at h; simp at h

/-! ### the statement loop of the checker with discharged assertions -/

def headVerdictFB (D : CheckDom A) (safe : Nat → Bool) (s : Stmt) (a : A) (i : Nat) : List (Nat × CheckKind) :=
  match s with
  | .assert c => [(i, if safe i then CheckKind.safe else checkAssert D a c)]
  | .bassert b => [(i, if safe i then CheckKind.safe else checkBoolAssert D a b)]
  | _ => []

def nextInvFB (D : CheckDom A) (tr : Stmt → A → A) (safe : Nat → Bool) (s : Stmt) (a : A) (i : Nat) : A :=
  match s with
  | .assert c =>
    if (if safe i then CheckKind.safe else checkAssert D a c) == .unreachable then a else tr s a
  | .bassert b =>
    if (if safe i then CheckKind.safe else checkBoolAssert D a b) == .unreachable then a else tr s a
  | _ => tr s a

theorem checkStmtsFB_cons (D : CheckDom A) (tr : Stmt → A → A) (safe : Nat → Bool) (i : Nat) (s : Stmt)
    (ss : List Stmt) (a : A) :
    checkStmtsFB D tr safe i (s :: ss) a =
      headVerdictFB D safe s a i ++ checkStmtsFB D tr safe (i + 1) ss (nextInvFB D tr safe s a i) := by
  cases s <;> rfl

theorem checkStmtsFB_index_ge (D : CheckDom A) (tr : Stmt → A → A) (safe : Nat → Bool) :
    ∀ (ss : List Stmt) (i : Nat) (a : A) (j : Nat) (v : CheckKind),
      (j, v) ∈ checkStmtsFB D tr safe i ss a → i ≤ j := by
  intro ss
  induction ss with
  | nil => intro i a j v h; simp [checkStmtsFB] at h
  | cons s ss ih =>
    intro i a j v h
    rw [checkStmtsFB_cons] at h
    simp only [List.mem_append] at h
    rcases h with h | h
    · cases s <;> simp [headVerdictFB] at h <;> omega
    · have := ih _ _ _ _ h; omega

theorem headVerdictFB_sound (D : CheckDom A) (safe : Nat → Bool) (s : Stmt) (a : A) (i j : Nat)
    (v : CheckKind) (σ : State) (ch : Int) (hγ : D.γ a σ) (h : (j, v) ∈ headVerdictFB D safe s a i) :
    j = i ∧ v ≠ .unreachable ∧ (v = .safe → safe j = true ∨ stepStmt s σ ch ≠ .fail) := by
  cases s <;> simp [headVerdictFB] at h
  case assert c =>
    obtain ⟨hj, hv⟩ := h
    subst hj
    cases hs : safe j with
    | true => rw [hs] at hv; simp at hv; subst hv; exact ⟨rfl, by decide, fun _ => Or.inl rfl⟩
    | false =>
      rw [hs] at hv
      simp at hv
      refine ⟨rfl, ?_, ?_⟩
      · intro hu; exact checkAssert_unreachable D a c σ (hv ▸ hu) hγ
      · intro hsf
        have := checkAssert_safe D a c σ (hv ▸ hsf) hγ
        right
        simp [stepStmt, this]
  case bassert b =>
    obtain ⟨hj, hv⟩ := h
    subst hj
    cases hs : safe j with
    | true => rw [hs] at hv; simp at hv; subst hv; exact ⟨rfl, by decide, fun _ => Or.inl rfl⟩
    | false =>
      rw [hs] at hv
      simp at hv
      refine ⟨rfl, ?_, ?_⟩
      · intro hu; exact checkBoolAssert_unreachable D a b σ (hv ▸ hu) hγ
      · intro hsf
        have := checkBoolAssert_safe D a b σ (hv ▸ hsf) hγ
        right
        simp [stepStmt, this]

theorem nextInvFB_sound (D : CheckDom A) (tr : Stmt → A → A) (htr : TrSound D tr) (safe : Nat → Bool)
    (s : Stmt) (a : A) (i : Nat) (σ σ1 : State) (ch : Int) (hγ : D.γ a σ)
    (hs : stepStmt s σ ch = .next σ1) : D.γ (nextInvFB D tr safe s a i) σ1 := by
  have ht := htr s a σ ch σ1 hγ hs
  cases s <;> try exact ht
  case assert c =>
    simp only [nextInvFB]
    cases hsf : safe i with
    | true => simpa using ht
    | false =>
      simp only [Bool.false_eq_true, if_false]
      split
      · rename_i hu
        exact absurd hγ (checkAssert_unreachable D a c σ (by simpa using hu))
      · exact ht
  case bassert b =>
    simp only [nextInvFB]
    cases hsf : safe i with
    | true => simpa using ht
    | false =>
      simp only [Bool.false_eq_true, if_false]
      split
      · rename_i hu
        exact absurd hγ (checkBoolAssert_unreachable D a b σ (by simpa using hu))
      · exact ht

/-- the statement loop: for an execution of the block from a state of `γ a`, no assert event has
    the verdict `unreachable`, and an assert with verdict `safe` that is not in the discharged
    set does not fail -/
theorem checkStmtsFB_sound (D : CheckDom A) (tr : Stmt → A → A) (htr : TrSound D tr) (safe : Nat → Bool)
    (b : Nat) :
    ∀ (ss : List Stmt) (i : Nat) (a : A) (σ : State) (ch : List Int), D.γ a σ →
      ∀ (j : Nat) (σ' : State) (ok : Bool) (v : CheckKind),
        Event.check b j σ' ok ∈ (runStmts b i ss σ ch).events →
        (j, v) ∈ checkStmtsFB D tr safe i ss a →
        v ≠ .unreachable ∧ (v = .safe → safe j = true ∨ ok = true) := by
  intro ss
  induction ss with
  | nil => intro i a σ ch _ j σ' ok v h; simp [runStmts] at h
  | cons s ss ih =>
    intro i a σ ch hγ j σ' ok v hev hv
    rw [checkStmtsFB_cons] at hv
    simp only [List.mem_append] at hv
    rcases runStmts_cons_mem b i s ss σ ch _ hev with he | ⟨σ1, hs, htail⟩
    · injection he with _ hj _ hok
      rcases hv with hv | hv
      · obtain ⟨_, hnu, hsafe⟩ := headVerdictFB_sound D safe s a i j v σ
          (if s.usesChoice then popChoice ch else (0, ch)).1 hγ hv
        refine ⟨hnu, fun hvs => ?_⟩
        rcases hsafe hvs with h1 | h1
        · exact Or.inl h1
        · right
          rw [hok]
          split
          · rename_i hf; exact absurd hf h1
          · rfl
      · have := checkStmtsFB_index_ge D tr safe _ _ _ _ _ hv; omega
    · rcases hv with hv | hv
      · obtain ⟨hj, _, _⟩ := headVerdictFB_sound D safe s a i j v σ 0 hγ hv
        obtain ⟨_, _, _, he, hle⟩ := runStmts_events_check b ss (i + 1) σ1 _ _ htail
        injection he with _ hj' _ _
        omega
      · exact ih (i + 1) _ σ1 _ (nextInvFB_sound D tr htr safe s a i σ σ1 _ hγ hs) j σ' ok v htail hv

end Analysis
end Crab
