import CrabProofs.Lemmas.CrawlCtrlPdom
import CrabProofs.Lemmas.TIRCrawlerFix

/-!
  The model of the repaired `control_dep_graph` (`Prog.cdgModel`) is complete:
   * `CdgComplete.fow` (Ferrante/Ottenstein/Warren): a block `u` that post-dominates a successor
     `t` of `d` (with `t` reaching the exit) without strictly post-dominating `d` is listed under `d`
     -- the walk of `graph_algo_impl::dominance` from `t` up the immediate-post-dominator tree
     meets every post-dominator of `t` before it meets `idom[d]`;
   * `CdgComplete.escape`: under a block with two successors one of which cannot reach the exit,
     every block reachable from its successors is listed.
-/
namespace Crab
namespace TIR

/-- what the soundness proof of the crawler needs from a control-dependence graph -/
structure CdgComplete (P : Prog) (g : Cdg) : Prop where
  escape : ∀ d s t u, d ∈ P.labels → 2 ≤ (P.succsOf d).length → s ∈ P.succsOf d →
    (∀ x, P.exit = some x → ¬ CoReach P x s) → t ∈ P.succsOf d → GPath P.succsOf t u → u ∈ g.kids d
  fow : ∀ x d t u, P.exit = some x → d ∈ P.labels → t ∈ P.succsOf d → CoReach P x t → PDom P x u t →
    ¬ (u ≠ d ∧ PDom P x u d) → u ∈ g.kids d

/-! ### counting -/

theorem filter_length_lt {α : Type} (q1 q2 : α → Bool) : ∀ (L : List α), (∀ y, y ∈ L → q1 y = true → q2 y = true) →
    ∀ z, z ∈ L → q2 z = true → q1 z = false → (L.filter q1).length < (L.filter q2).length := by
  intro L
  induction L with
  | nil => intro _ z hz; cases hz
  | cons a r ih =>
    intro hsub z hz h2 h1
    have hle : (r.filter q1).length ≤ (r.filter q2).length := by
      clear ih hz
      induction r with
      | nil => simp
      | cons b r' ih' =>
        have hb := hsub b (List.mem_cons_of_mem _ List.mem_cons_self)
        have := ih' (fun y hy => hsub y (by
          rcases List.mem_cons.mp hy with rfl | hy
          · exact List.mem_cons_self
          · exact List.mem_cons_of_mem _ (List.mem_cons_of_mem _ hy)))
        simp only [List.filter_cons]
        cases h1b : q1 b with
        | true => simp only [hb h1b, if_true, List.length_cons]; omega
        | false =>
          simp only [Bool.false_eq_true, if_false]
          split
          · simp only [List.length_cons]; omega
          · exact this
    rcases List.mem_cons.mp hz with rfl | hz
    · simp only [List.filter_cons, h1, h2, Bool.false_eq_true, if_false, if_true, List.length_cons]
      omega
    · have := ih (fun y hy => hsub y (List.mem_cons_of_mem _ hy)) z hz h2 h1
      have ha := hsub a List.mem_cons_self
      simp only [List.filter_cons]
      cases h1a : q1 a with
      | true => simp only [ha h1a, if_true, List.length_cons]; omega
      | false =>
        simp only [Bool.false_eq_true, if_false]
        split
        · simp only [List.length_cons]; omega
        · exact this

/-- the number of post-dominators of `s` -/
def pdCount (P : Prog) (x s : Label) : Nat := (P.labels.filter (fun y => P.pdomB x y s)).length

theorem pdCount_le (P : Prog) (x s : Label) : pdCount P x s ≤ P.blocks.length := by
  unfold pdCount
  have := List.length_filter_le (fun y => P.pdomB x y s) P.labels
  simpa [Prog.labels] using this

theorem pdCount_pos {P : Prog} (hwf : WFp P) {x s : Label} (hs : s ∈ P.labels) : 0 < pdCount P x s := by
  unfold pdCount
  apply List.length_pos_of_mem (a := s)
  exact List.mem_filter.mpr ⟨hs, (pdomB_iff hwf hs).mpr (PDom.refl P x s)⟩

theorem pdCount_ipdom {P : Prog} (hwf : WFp P) {x s p : Label} (hx : x ∈ P.labels) (hs : s ∈ P.labels)
    (h : P.ipdom x (P.coReachable x) s = some p) : pdCount P x p < pdCount P x s := by
  obtain ⟨hpl, hps, hpd, hco, _⟩ := ipdom_some hwf hx hs h
  unfold pdCount
  refine filter_length_lt (fun y => P.pdomB x y p) (fun y => P.pdomB x y s) P.labels ?_ s hs
    ((pdomB_iff hwf hs).mpr (PDom.refl P x s)) ?_
  rotate_left
  · cases hb : P.pdomB x s p with
    | false => rfl
    | true =>
      have h1 : PDom P x s p := (pdomB_iff hwf hpl).mp hb
      exact absurd (PDom.antisymm hco hpd h1) hps
  · intro y _ hy
    exact (pdomB_iff hwf hs).mpr (PDom.trans ((pdomB_iff hwf hpl).mp hy) hpd)

/-! ### the walk up the tree -/

/-- the walk from `s` lists every post-dominator `y` of `s` that does not post-dominate the
    stop node -/
theorem pdfWalk_complete {P : Prog} (hwf : WFp P) {x : Label} (hx : x ∈ P.labels)
    (ipd : Label → Option Label) (hipd : ∀ n, n ∈ P.labels → ipd n = P.ipdom x (P.coReachable x) n)
    (stop : Option Label) (y : Label) (hstop : ∀ q, stop = some q → ¬ PDom P x y q) :
    ∀ (f : Nat) (s : Label), s ∈ P.labels → CoReach P x s → pdCount P x s ≤ f → PDom P x y s →
      y ∈ pdfWalk ipd stop f (some s) := by
  intro f
  induction f with
  | zero =>
    intro s hs _ hc _
    have := pdCount_pos hwf (x := x) hs
    omega
  | succ f ih =>
    intro s hs hco hc hy
    unfold pdfWalk
    have hne : (stop == some s) = false := by
      cases hb : stop == some s with
      | false => rfl
      | true => exact absurd hy (hstop s (by simpa using hb))
    simp only [hne, Bool.false_eq_true, if_false]
    by_cases hys : y = s
    · subst hys; exact List.mem_cons_self
    · apply List.mem_cons_of_mem
      have hsx : s ≠ x := by
        intro e
        subst e
        exact hys (PDom.of_exit hy)
      obtain ⟨p, hp⟩ := ipdom_exists hwf hx hs hco hsx
      obtain ⟨hpl, _, hpd, _, hmin⟩ := ipdom_some hwf hx hs hp
      rw [hipd s hs, hp]
      have hlt := pdCount_ipdom hwf hx hs hp
      exact ih p hpl (PDom.reach hco hpd).2 (by omega) (hmin y hys hy)

/-! ### association lists built by `filterMap` -/

theorem lookup_filterMap_key (F : Label → Option (Label × List Label)) (hF : ∀ m p, F m = some p → p.1 = m) :
    ∀ (L : List Label) (n : Label) (p : Label × List Label), n ∈ L → F n = some p →
      (L.filterMap F).lookup n = some p.2 := by
  intro L
  induction L with
  | nil => intro n p h; cases h
  | cons a r ih =>
    intro n p hn hp
    by_cases hna : n = a
    · subst hna
      have h1 := hF n p hp
      simp only [List.filterMap_cons, hp]
      obtain ⟨p1, p2⟩ := p
      simp only at h1
      subst h1
      simp [List.lookup_cons]
    · have hn' := (List.mem_cons.mp hn).resolve_left hna
      simp only [List.filterMap_cons]
      cases hfa : F a with
      | none => exact ih n p hn' hp
      | some q =>
        have hq := hF a q hfa
        obtain ⟨q1, q2⟩ := q
        simp only at hq
        subst hq
        have hb : (n == q1) = false := by simpa using hna
        simp only [List.lookup_cons, hb]
        exact ih n p hn' hp

theorem kids_merge_left (g h : Cdg) (d u : Label) (hu : u ∈ g.kids d) : u ∈ (g.merge h).kids d := by
  unfold Cdg.kids at hu ⊢
  cases hl : g.lookup d with
  | none => rw [hl] at hu; simp at hu
  | some K =>
    have hkey : d ∈ (g.map (·.1) ++ h.map (·.1)).eraseDups := by
      apply List.mem_eraseDups.mpr
      apply List.mem_append.mpr
      left
      have := lookup_mem g d K hl
      exact List.mem_map.mpr ⟨(d, K), this, rfl⟩
    unfold Cdg.merge
    have : ∀ (L : List Label), d ∈ L →
        (L.map (fun k => (k, ((g.lookup k).getD [] ++ (h.lookup k).getD []).eraseDups))).lookup d =
          some (((g.lookup d).getD [] ++ (h.lookup d).getD []).eraseDups) := by
      intro L
      induction L with
      | nil => intro hh; cases hh
      | cons a r ih =>
        intro hh
        by_cases hda : d = a
        · subst hda; simp [List.lookup_cons]
        · have hb : (d == a) = false := by simpa using hda
          simp only [List.map_cons, List.lookup_cons, hb]
          exact ih ((List.mem_cons.mp hh).resolve_left hda)
    simp only [this _ hkey, Option.getD_some]
    exact List.mem_eraseDups.mpr (List.mem_append.mpr (Or.inl hu))

theorem kids_merge_right (g h : Cdg) (d u : Label) (hu : u ∈ h.kids d) : u ∈ (g.merge h).kids d := by
  unfold Cdg.kids at hu ⊢
  cases hl : h.lookup d with
  | none => rw [hl] at hu; simp at hu
  | some K =>
    have hkey : d ∈ (g.map (·.1) ++ h.map (·.1)).eraseDups := by
      apply List.mem_eraseDups.mpr
      apply List.mem_append.mpr
      right
      have := lookup_mem h d K hl
      exact List.mem_map.mpr ⟨(d, K), this, rfl⟩
    unfold Cdg.merge
    have : ∀ (L : List Label), d ∈ L →
        (L.map (fun k => (k, ((g.lookup k).getD [] ++ (h.lookup k).getD []).eraseDups))).lookup d =
          some (((g.lookup d).getD [] ++ (h.lookup d).getD []).eraseDups) := by
      intro L
      induction L with
      | nil => intro hh; cases hh
      | cons a r ih =>
        intro hh
        by_cases hda : d = a
        · subst hda; simp [List.lookup_cons]
        · have hb : (d == a) = false := by simpa using hda
          simp only [List.map_cons, List.lookup_cons, hb]
          exact ih ((List.mem_cons.mp hh).resolve_left hda)
    simp only [this _ hkey, Option.getD_some]
    exact List.mem_eraseDups.mpr (List.mem_append.mpr (Or.inr hu))

/-! ### the two parts of the model -/

theorem kids_cdgPdf {P : Prog} {x d u : Label} (hx : P.exit = some x) (hd : d ∈ P.labels)
    (hu : u ∈ pdfKids P (tabFn (P.ipdomTab x (P.coReachable x))) d) : u ∈ P.cdgPdf.kids d := by
  unfold Cdg.kids
  simp only [Prog.cdgPdf, hx]
  have := lookup_filterMap_key
    (fun n => if (pdfKids P (tabFn (P.ipdomTab x (P.coReachable x))) n).isEmpty then none
      else some (n, pdfKids P (tabFn (P.ipdomTab x (P.coReachable x))) n))
    (by
      intro m p hp
      split at hp
      · cases hp
      · simp only [Option.some.injEq] at hp; rw [← hp])
    P.labels d (d, pdfKids P (tabFn (P.ipdomTab x (P.coReachable x))) d) hd
    (by
      have hne : (pdfKids P (tabFn (P.ipdomTab x (P.coReachable x))) d).isEmpty = false := by
        cases hk : pdfKids P (tabFn (P.ipdomTab x (P.coReachable x))) d with
        | nil => rw [hk] at hu; cases hu
        | cons _ _ => rfl
      simp [hne])
  rw [this]
  exact hu

theorem cdgPdf_fow {P : Prog} (hwf : WFp P) {x d t u : Label} (hx : P.exit = some x) (hd : d ∈ P.labels)
    (ht : t ∈ P.succsOf d) (hco : CoReach P x t) (hpd : PDom P x u t) (hns : ¬ (u ≠ d ∧ PDom P x u d)) :
    u ∈ P.cdgPdf.kids d := by
  have hxl : x ∈ P.labels := hwf.exit x hx
  have htl : t ∈ P.labels := hwf.succ_lab d t ht
  apply kids_cdgPdf hx hd
  unfold pdfKids
  apply List.mem_eraseDups.mpr
  apply List.mem_flatMap.mpr
  refine ⟨t, ht, ?_⟩
  apply pdfWalk_complete hwf hxl _ (fun n hn => tabFn_ipdomTab x _ hn) _ u _ _ t htl hco
    (Nat.le_succ_of_le (pdCount_le P x t)) hpd
  intro q hq hpq
  rw [tabFn_ipdomTab x _ hd] at hq
  obtain ⟨_, hqd, hqpd, hcod, _⟩ := ipdom_some hwf hxl hd hq
  apply hns
  refine ⟨?_, PDom.trans hpq hqpd⟩
  intro e
  subst e
  exact hqd (PDom.antisymm hcod hqpd hpq)

def escFn (P : Prog) (co : List Label) (n : Label) : Option (Label × List Label) :=
  if (P.succsOf n).length ≥ 2 && (P.succsOf n).any (fun s => !co.contains s) then
    some (n, reachFrom P.succsOf ((P.blocks.length + 1) * (P.blocks.length + 1) + 1) (P.succsOf n) [])
  else none

theorem cdgEscape_eq (P : Prog) : P.cdgEscape = P.labels.filterMap (escFn P P.coExit) := rfl

theorem mem_coExit {P : Prog} (hwf : WFp P) {s : Label} (h : s ∈ P.coExit) : ∃ x, P.exit = some x ∧ CoReach P x s := by
  unfold Prog.coExit at h
  cases hx : P.exit with
  | none => rw [hx] at h; cases h
  | some x =>
    rw [hx] at h
    exact ⟨x, rfl, (coReachable_iff hwf (hwf.exit x hx)).mp h⟩

theorem coExit_of_coReach {P : Prog} (hwf : WFp P) {x s : Label} (hx : P.exit = some x) (h : CoReach P x s) :
    s ∈ P.coExit := by
  unfold Prog.coExit
  rw [hx]
  exact (coReachable_iff hwf (hwf.exit x hx)).mpr h

theorem cdgEscape_kids {P : Prog} (hwf : WFp P) {d s t u : Label} (hd : d ∈ P.labels)
    (h2 : 2 ≤ (P.succsOf d).length) (hs : s ∈ P.succsOf d) (hesc : ∀ x, P.exit = some x → ¬ CoReach P x s)
    (ht : t ∈ P.succsOf d) (hp : GPath P.succsOf t u) : u ∈ P.cdgEscape.kids d := by
  have hsco : s ∉ P.coExit := by
    intro hm
    obtain ⟨x, hx, hco⟩ := mem_coExit hwf hm
    exact hesc x hx hco
  have hF : escFn P P.coExit d =
      some (d, reachFrom P.succsOf ((P.blocks.length + 1) * (P.blocks.length + 1) + 1) (P.succsOf d) []) := by
    unfold escFn
    have : (decide ((P.succsOf d).length ≥ 2) && (P.succsOf d).any (fun s => !P.coExit.contains s)) = true := by
      simp only [Bool.and_eq_true, decide_eq_true_eq, List.any_eq_true, Bool.not_eq_eq_eq_not, Bool.not_true]
      exact ⟨h2, s, hs, by simpa using hsco⟩
    simp only [this, if_true]
  have := lookup_filterMap_key (escFn P P.coExit)
    (by
      intro m p hp
      unfold escFn at hp
      split at hp
      · simp only [Option.some.injEq] at hp; rw [← hp]
      · cases hp)
    P.labels d _ hd hF
  unfold Cdg.kids
  rw [cdgEscape_eq, this]
  simp only [Option.getD_some]
  have hfuel := reachFuel_eq P
  unfold Prog.reachFuel at hfuel
  rw [hfuel]
  exact reachFrom_complete_list P.succsOf P.labels (wf_next_succs hwf) (P.succsOf d)
    (fun s hs => hwf.succ_lab d s hs) (wf_next_succs hwf d).2 ht hp

/-- THE MODEL OF THE REPAIRED `control_dep_graph` IS COMPLETE -/
theorem cdgModel_complete {P : Prog} (hwf : WFp P) : CdgComplete P P.cdgModel where
  escape := fun d s t u hd h2 hs hesc ht hp =>
    kids_merge_right _ _ d u (cdgEscape_kids hwf hd h2 hs hesc ht hp)
  fow := fun x d t u hx hd ht hco hpd hns =>
    kids_merge_left _ _ d u (cdgPdf_fow hwf hx hd ht hco hpd hns)

theorem covers_kids {g h : Cdg} (hc : g.covers h = true) {d u : Label} (hu : u ∈ h.kids d) : u ∈ g.kids d := by
  unfold Cdg.kids at hu
  cases hl : h.lookup d with
  | none => rw [hl] at hu; simp at hu
  | some K =>
    rw [hl] at hu
    simp only [Option.getD_some] at hu
    have hm := lookup_mem h d K hl
    have := (List.all_eq_true.mp hc) (d, K) hm
    have := (List.all_eq_true.mp this) u hu
    simpa using this

theorem CdgComplete.of_covers {P : Prog} {g h : Cdg} (hc : g.covers h = true) (hh : CdgComplete P h) :
    CdgComplete P g where
  escape := fun d s t u hd h2 hs hesc ht hp => covers_kids hc (hh.escape d s t u hd h2 hs hesc ht hp)
  fow := fun x d t u hx hd ht hco hpd hns => covers_kids hc (hh.fow x d t u hx hd ht hco hpd hns)

end TIR
end Crab
