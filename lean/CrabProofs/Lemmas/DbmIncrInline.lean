import CrabProofs.Lemmas.DbmIncrHist

/-!
  `zones.close_bounds_inline = true`: the propagation loops of `add_linear_leq` after a bound was
  set (`lbPropStep`, `ubPropStep`) restore the split normal form.
-/
namespace Crab
namespace DbmIncr
open Dbm Zones

variable {n : Nat}

/-- a graph with closed edges among variables, above the closure of `G` and with the bounds of the
    closure of `G`, is in split normal form -/
theorem splitNF_of_exact_bounds {G r : Zone n} (hb : isBottom G = false) (hvr : VarNF r)
    (habove : ∀ a b, W.LE (edge (close G) a b) (edge r a b))
    (hout : ∀ d, d ≠ 0 → edge r 0 d = edge (close G) 0 d)
    (hin : ∀ s, s ≠ 0 → edge r s 0 = edge (close G) s 0) : SplitNF r := by
  have cTf := Zones.close_closed hb
  refine ⟨hvr.noLoop, ?_⟩
  intro i j k hk
  simp only [zdiag_get]
  have triF : W.LE ((close G).get i j) (W.add ((close G).get i k) ((close G).get k j)) := cTf.tri i j k
  have ab : ∀ a b, W.LE ((close G).get a b) (r.get a b) := fun a b => habove b a
  by_cases hik : i = k
  · subst hik
    simp only [if_true]
    rw [W.zero_add]; exact W.LE_refl _
  by_cases hkj : k = j
  · subst hkj
    simp only [if_true]
    rw [W.add_zero]; exact W.LE_refl _
  simp only [hik, hkj, if_false]
  by_cases hij' : i = j
  · subst hij'
    simp only [if_true]
    have := W.LE_trans triF (W.add_mono (ab i k) (ab k i))
    rw [cTf.diag] at this
    exact this
  simp only [hij', if_false]
  by_cases hi0 : i = 0
  · subst hi0
    have hj0 : j ≠ 0 := fun e => hij' e.symm
    rw [show r.get 0 j = (close G).get 0 j from hin j hj0]
    exact W.LE_trans triF (W.add_mono (ab 0 k) (ab k j))
  by_cases hj0 : j = 0
  · subst hj0
    rw [show r.get i 0 = (close G).get i 0 from hout i hi0]
    exact W.LE_trans triF (W.add_mono (ab i k) (ab k 0))
  have t := hvr.vars.tri i j k
  simp only [varPart_get, hik, hkj, hij', hi0, hj0, hk, or_false, if_false] at t
  exact t

/-- descent of optional states: a result comes from a state it is below -/
def OLe (a b : Option (SG n)) : Prop := ∀ sa, a = some sa → ∃ sb, b = some sb ∧ Dec sa.g sb.g

theorem OLe.refl (a : Option (SG n)) : OLe a a := fun sa h => ⟨sa, h, Dec.refl _⟩
theorem OLe.trans (a b c : Option (SG n)) (h1 : OLe a b) (h2 : OLe b c) : OLe a c := by
  intro sa ha
  obtain ⟨sb, hb, d1⟩ := h1 sa ha
  obtain ⟨sc, hc, d2⟩ := h2 sb hb
  exact ⟨sc, hc, Dec.trans d1 d2⟩

section
variable (g1 Tf : Zone n)

/-- invariant of the propagation loops; `zs` says which edges may have changed
    (`true`: the edges INTO the zero vertex, `false`: the edges OUT OF it) -/
structure PropJ (into : Bool) (s' : SG n) : Prop where
  pot : s'.g.sat s'.pot
  dec : Dec s'.g g1
  above : ∀ a b, W.LE (edge Tf a b) (edge s'.g a b)
  frame : ∀ a b, (if into then b ≠ 0 else a ≠ 0) → edge s'.g a b = edge g1 a b
  loop0 : edge s'.g 0 0 = none

def PropI (into : Bool) (acc : Option (SG n)) : Prop := ∃ s', acc = some s' ∧ PropJ g1 Tf into s'
end

variable {g1 Tf : Zone n}

/-- a relaxation by an implied value keeps the potential valid, so `repair_potential` succeeds -/
theorem repair_of_sat (vs : List (Fin (n + 1))) (hvs : ∀ v, v ∈ vs) (g : Zone n)
    (p : Fin (n + 1) → Int) (a b : Fin (n + 1)) (w : Int) (hsat : (updEdge g a w b).sat p) :
    ∃ p2, repairPotential vs (updEdge g a w b) p a b = some p2 ∧ (updEdge g a w b).sat p2 := by
  obtain ⟨c, hc, _, _⟩ := edge_upd_new g a b w
  have hpv : PotValidExcept (updEdge g a w b) p a b :=
    fun s d k hk _ => (sat_iff_pot _ _).1 hsat s d k hk
  obtain ⟨r1, r2⟩ := repairPotential_spec vs hvs _ p a b c hc hpv
  rcases hrp : repairPotential vs (updEdge g a w b) p a b with _ | p2
  · exact absurd hsat (r2 hrp p)
  · exact ⟨p2, rfl, r1 p2 hrp⟩

theorem lbPropStep_step (vs : List (Fin (n + 1))) (hvs : ∀ x, x ∈ vs) (hT : Mat.Closed Tf)
    (v : Fin (n + 1)) (hv : v ≠ 0) (k : Int) (hk : edge g1 v 0 = some k)
    (acc : Option (SG n)) (e : Fin (n + 1)) (h : PropI g1 Tf true acc) :
    PropI g1 Tf true (lbPropStep vs v k acc e) ∧ OLe (lbPropStep vs v k acc e) acc ∧
      (∀ s', lbPropStep vs v k acc e = some s' → e ≠ 0 → ∀ ev, edge g1 e v = some ev →
        W.LE (edge s'.g e 0) (some (ev + k))) := by
  obtain ⟨s', rfl, j⟩ := h
  unfold lbPropStep
  simp only
  by_cases he : e = 0
  · simp only [he, if_true]
    exact ⟨⟨s', rfl, j⟩, OLe.refl _, fun _ _ h0 => absurd rfl h0⟩
  simp only [he, if_false]
  have hfr : edge s'.g e v = edge g1 e v := j.frame e v (by simpa using hv)
  rcases hev : edge s'.g e v with _ | ev
  · simp only
    refine ⟨⟨s', rfl, j⟩, OLe.refl _, fun s'' _ _ ev' hev' => ?_⟩
    rw [← hfr, hev] at hev'; cases hev'
  simp only
  -- the stored bound of `v`
  obtain ⟨k', hk', hkk⟩ : ∃ k', edge s'.g v 0 = some k' ∧ k' ≤ k := by
    have := j.dec v 0; rw [hk] at this; exact this k rfl
  have hsat : (updEdge s'.g e (ev + k) 0).sat s'.pot := by
    rw [updEdge_eq_relax, relax_sat]
    refine ⟨j.pot, ?_⟩
    have h1 := sat_edge j.pot hev
    have h2 := sat_edge j.pot hk'
    omega
  obtain ⟨p2, hp2, hs2⟩ := repair_of_sat vs hvs s'.g s'.pot e 0 (ev + k) hsat
  rw [hp2]
  simp only
  have hTe : W.LE (edge Tf e 0) (some (ev + k)) := by
    have t := hT.tri 0 e v
    rw [W.add_comm] at t
    have a1 := j.above e v; rw [hev] at a1
    have a2 := j.above v 0; rw [hk'] at a2
    have := W.LE_trans t (W.add_mono a1 a2)
    exact W.LE_trans this (by simp; omega)
  refine ⟨⟨_, rfl, ⟨hs2, ?_, ?_, ?_, ?_⟩⟩, ?_, ?_⟩
  · rw [updEdge_eq_relax]; exact Dec.trans (relax_dec _ _ _ _) j.dec
  · intro a b
    rw [updEdge_eq_relax, edge_relax]
    split
    · rename_i hab; obtain ⟨rfl, rfl⟩ := hab
      exact W.LE_min (j.above _ _) hTe
    · exact j.above a b
  · intro a b hb
    simp only [if_true] at hb
    rw [updEdge_eq_relax, edge_relax_ne _ _ (fun h => hb h.2)]
    exact j.frame a b (by simpa using hb)
  · rw [updEdge_eq_relax, edge_relax_ne _ _ (fun h => he h.1.symm)]
    exact j.loop0
  · intro sa hsa
    cases hsa
    exact ⟨s', rfl, by rw [updEdge_eq_relax]; exact relax_dec _ _ _ _⟩
  · intro s'' hs'' _ ev' hev'
    cases hs''
    rw [← hfr, hev] at hev'; cases hev'
    simp only
    rw [updEdge_eq_relax]
    exact relax_le_val _ _ _ _

theorem ubPropStep_step (vs : List (Fin (n + 1))) (hvs : ∀ x, x ∈ vs) (hT : Mat.Closed Tf)
    (v : Fin (n + 1)) (hv : v ≠ 0) (k : Int) (hk : edge g1 0 v = some k)
    (acc : Option (SG n)) (e : Fin (n + 1)) (h : PropI g1 Tf false acc) :
    PropI g1 Tf false (ubPropStep vs v k acc e) ∧ OLe (ubPropStep vs v k acc e) acc ∧
      (∀ s', ubPropStep vs v k acc e = some s' → e ≠ 0 → ∀ ev, edge g1 v e = some ev →
        W.LE (edge s'.g 0 e) (some (ev + k))) := by
  obtain ⟨s', rfl, j⟩ := h
  unfold ubPropStep
  simp only
  by_cases he : e = 0
  · simp only [he, if_true]
    exact ⟨⟨s', rfl, j⟩, OLe.refl _, fun _ _ h0 => absurd rfl h0⟩
  simp only [he, if_false]
  have hfr : edge s'.g v e = edge g1 v e := j.frame v e (by simpa using hv)
  rcases hev : edge s'.g v e with _ | ev
  · simp only
    refine ⟨⟨s', rfl, j⟩, OLe.refl _, fun s'' _ _ ev' hev' => ?_⟩
    rw [← hfr, hev] at hev'; cases hev'
  simp only
  obtain ⟨k', hk', hkk⟩ : ∃ k', edge s'.g 0 v = some k' ∧ k' ≤ k := by
    have := j.dec 0 v; rw [hk] at this; exact this k rfl
  have hsat : (updEdge s'.g 0 (ev + k) e).sat s'.pot := by
    rw [updEdge_eq_relax, relax_sat]
    refine ⟨j.pot, ?_⟩
    have h1 := sat_edge j.pot hev
    have h2 := sat_edge j.pot hk'
    omega
  obtain ⟨p2, hp2, hs2⟩ := repair_of_sat vs hvs s'.g s'.pot 0 e (ev + k) hsat
  rw [hp2]
  simp only
  have hTe : W.LE (edge Tf 0 e) (some (ev + k)) := by
    have t := hT.tri e 0 v
    rw [W.add_comm] at t
    have a1 := j.above 0 v; rw [hk'] at a1
    have a2 := j.above v e; rw [hev] at a2
    have := W.LE_trans t (W.add_mono a1 a2)
    exact W.LE_trans this (by simp; omega)
  refine ⟨⟨_, rfl, ⟨hs2, ?_, ?_, ?_, ?_⟩⟩, ?_, ?_⟩
  · rw [updEdge_eq_relax]; exact Dec.trans (relax_dec _ _ _ _) j.dec
  · intro a b
    rw [updEdge_eq_relax, edge_relax]
    split
    · rename_i hab; obtain ⟨rfl, rfl⟩ := hab
      exact W.LE_min (j.above _ _) hTe
    · exact j.above a b
  · intro a b ha
    simp only [Bool.false_eq_true, if_false] at ha
    rw [updEdge_eq_relax, edge_relax_ne _ _ (fun h => ha h.1)]
    exact j.frame a b (by simpa using ha)
  · rw [updEdge_eq_relax, edge_relax_ne _ _ (fun h => he h.2.symm)]
    exact j.loop0
  · intro sa hsa
    cases hsa
    exact ⟨s', rfl, by rw [updEdge_eq_relax]; exact relax_dec _ _ _ _⟩
  · intro s'' hs'' _ ev' hev'
    cases hs''
    rw [← hfr, hev] at hev'; cases hev'
    simp only
    rw [updEdge_eq_relax]
    exact relax_le_val _ _ _ _

end DbmIncr
end Crab
