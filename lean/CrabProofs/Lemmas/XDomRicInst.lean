import CrabProofs.Lemmas.XDomRicOps2
import CrabProofs.Lemmas.XDomEngine
import CrabProofs.Lemmas.IDomCsts

/-!
  The "ric" domain (model `Crab.RDom`): `-=`, `forget`, `project`, `expand`, `rename`, `set`,
  `entails`, `at`, exported constraints; the abstract execution of the statements of `XDom.Stmt`
  and the instance of the engine contract.
-/
namespace Crab
namespace RDom
open XDom Lin

local notation "GL" => GDom.congLattice

namespace Env

theorem forget_inv {e : Env} (he : e.Inv) {x : Var} (hx : x < 2 ^ 64) : (e.forget x).Inv :=
  both_inv he (fun f h => IDom.Env.forget_sorted f x h) (fun _ h => iforget_bot h x)
    (fun s h => by rw [GDom.Env.forget_eq]; exact XDom.Env.forget_inv GDom.congLaws h hx)

/-- `operator-=(x)` -/
theorem forget_sound {e : Env} (he : e.Inv) {σ : State} (hg : e.γ σ) {x : Var} (hx : x < 2 ^ 64) (n : Int) :
    (e.forget x).γ (upd σ x n) :=
  both_sound hg (IDom.Env.forget_sound hg.2.1 x n)
    (by rw [GDom.Env.forget_eq]; exact XDom.Env.forget_sound GDom.congLaws he.2.1 hg.2.2 hx n)

theorem forgetAll_inv {e : Env} (he : e.Inv) {vs : List Var} (hv : ∀ v ∈ vs, v < 2 ^ 64) : (e.forgetAll vs).Inv :=
  both_inv he (fun f h => IDom.Env.forgetAll_inv IDom.Env.sortedInv f vs h) (fun _ h => iforgetAll_bot h vs)
    (fun s h => by rw [GDom.Env.forgetAll_eq]; exact XDom.Env.forgetAll_inv GDom.congLaws h hv)

/-- `forget(variables)` -/
theorem forgetAll_sound {e : Env} (he : e.Inv) {σ : State} (hg : e.γ σ) {vs : List Var}
    (hv : ∀ v ∈ vs, v < 2 ^ 64) {σ' : State} (h : ∀ y, y ∉ vs → σ' y = σ y) : (e.forgetAll vs).γ σ' :=
  both_sound hg (IDom.Env.forgetAll_sound hg.2.1 vs h)
    (by rw [GDom.Env.forgetAll_eq]; exact XDom.Env.forgetAll_sound GDom.congLaws he.2.1 hg.2.2 hv h)

theorem project_inv {e : Env} (he : e.Inv) {vs : List Var} (hv : ∀ v ∈ vs, v < 2 ^ 64) : (e.project vs).Inv :=
  both_inv he (fun f h => IDom.Env.project_inv IDom.Env.sortedInv f vs h) (fun _ h => iproject_bot h vs)
    (fun s h => by rw [GDom.Env.project_eq]; exact XDom.Env.project_inv GDom.congLaws h hv)

/-- `project(variables)` -/
theorem project_sound {e : Env} (he : e.Inv) {σ : State} (hg : e.γ σ) {vs : List Var}
    (hv : ∀ v ∈ vs, v < 2 ^ 64) {σ' : State} (h : ∀ y ∈ vs, σ' y = σ y) : (e.project vs).γ σ' :=
  both_sound hg (IDom.Env.project_sound hg.2.1 vs h)
    (by rw [GDom.Env.project_eq]; exact XDom.Env.project_sound GDom.congLaws he.2.1 hg.2.2 hv h)

theorem expand_inv {e : Env} (he : e.Inv) (x : Var) {nx : Var} (hnx : nx < 2 ^ 64) : (e.expand x nx).Inv :=
  both_inv he (fun f h => IDom.Env.expand_inv IDom.Env.sortedInv f x nx h) (fun _ h => iexpand_bot h x nx)
    (fun s h => XDom.Env.expand_inv GDom.congLaws h hnx)

/-- `expand(x, new_x)`: `new_x` receives the value of `x` -/
theorem expand_sound {e : Env} (he : e.Inv) {σ : State} (hg : e.γ σ) (x : Var) {nx : Var} (hnx : nx < 2 ^ 64) :
    (e.expand x nx).γ (upd σ nx (σ x)) :=
  both_sound hg (IDom.Env.expand_sound hg.2.1 x nx (hg.2.1.2 x))
    (XDom.Env.expand_sound GDom.congLaws he.2.1 hg.2.2 hnx (hg.2.2.2 x))

/-- `set(v, x)`: `v` receives any member of the pair (its congruence in standard form) -/
theorem set_sound {e : Env} (he : e.Inv) {σ : State} (hg : e.γ σ) {x : Var} (hx : x < 2 ^ 64) {v : IC}
    (hw : Cong.WF v.c) {n : Int} (hn : IC.mem n v) : (e.set x v).γ (upd σ x n) :=
  both_sound hg (IDom.Env.set_sound hg.2.1 hn.1 x) (GDom.Env.set_sound he.2.1 hg.2.2 hx hw hn.2)

theorem set_inv {e : Env} (he : e.Inv) {x : Var} (hx : x < 2 ^ 64) {v : IC} (hw : Cong.WF v.c) : (e.set x v).Inv :=
  both_inv he (fun f h => IDom.Env.set_sorted f x v.i h) (fun _ h => iset_bot h _ _)
    (fun _ h => GDom.Env.set_inv h hx hw)

/-- the relation between the states before and after `rename(from, to)` -/
theorem renameRel_of_zip : ∀ (frm to : List Var) (σ σ' : State), (∀ p ∈ frm.zip to, σ' p.2 = σ p.1) →
    IDom.Env.RenameRel frm to σ σ' := by
  intro frm
  induction frm with
  | nil => intro to σ σ' _; cases to <;> trivial
  | cons k rest ih =>
    intro to σ σ' h
    cases to with
    | nil => trivial
    | cons nk rest' =>
      simp only [IDom.Env.RenameRel]
      exact ⟨h (k, nk) (by simp), ih rest' σ σ' (fun p hp => h p (by simp [hp]))⟩

/-- `rename(from, to)` with distinct sources and distinct, fresh targets -/
theorem rename_sound {e e' : Env} (he : e.Inv) {σ σ' : State} (hg : e.γ σ) {frm to : List Var}
    (hr : e.rename frm to = some e') (hf : ∀ v ∈ frm, v < 2 ^ 64) (ht : ∀ v ∈ to, v < 2 ^ 64)
    (hnf : frm.Nodup) (hnt : to.Nodup) (hdis : ∀ y ∈ to, y ∉ frm)
    (hfresh : ∀ y ∈ to, IDom.Map.find e.f.m y = none ∧ e.s.tree.lookup y = none)
    (hrel : ∀ p ∈ frm.zip to, σ' p.2 = σ p.1) (hout : ∀ y, y ∉ frm → y ∉ to → σ' y = σ y) : e'.γ σ' := by
  unfold rename at hr
  rw [canon_of_γ hg] at hr
  simp only at hr
  cases h1 : e.f.rename frm to with
  | none => rw [h1] at hr; cases hr
  | some f' =>
    rw [h1] at hr
    simp only at hr
    have g1 : IDom.Env.γ f' σ' := IDom.Env.rename_sound hg.2.1 h1 hnf hnt hdis (fun y hy => (hfresh y hy).1)
      (renameRel_of_zip frm to σ σ' hrel) hout
    have hc : canon ⟨e.isBot, f', e.s⟩ = ⟨e.isBot, f', e.s⟩ := by
      unfold canon
      have a1 : f'.bottom = false := g1.1
      have a2 : e.s.isBot = false := hg.2.2.1
      simp [hg.1, a1, a2]
    rw [hc] at hr
    simp only at hr
    cases h2 : e.s.rename frm to with
    | none => rw [h2] at hr; cases hr
    | some s' =>
      rw [h2] at hr
      simp only [Option.some.injEq] at hr
      subst hr
      rw [GDom.Env.rename_eq] at h2
      exact ⟨hg.1, g1, XDom.Env.rename_sound GDom.congLaws he.2.1 hg.2.2 h2 hf ht hnf hnt hdis
        (fun y hy => (hfresh y hy).2) hrel hout⟩

/-! ### `entails`, `at`, exported constraints -/

/-- `entails(cst)`: a yes answer of either component holds in every state of `γ` -/
theorem entails_sound {e : Env} (he : e.Inv) {σ : State} (hg : e.γ σ) {c : Lin.Cst} (hc : CstOk c)
    (h : e.entails c = true) : c.sat σ := by
  unfold entails at h
  simp only [Bool.or_eq_true] at h
  rcases h with h | h
  · exact IDom.Env.entails_sound hg.2.1 hc.1 h
  · exact GDom.Env.entails_sound he.2.1 hg.2.2 hc h

/-- `at(v)` contains the value of `v` in every state of `γ` -/
theorem atItv_sound {e : Env} {σ : State} (hg : e.γ σ) (x : Var) : Itv.mem (σ x) (e.atItv x) := hg.2.1.2 x

/-- `to_linear_constraint_system()` holds in every state of `γ` -/
theorem toCsts_sound {e : Env} (he : e.Inv) {σ : State} (hg : e.γ σ) : Sys.sat e.toCsts σ := by
  unfold toCsts
  rw [Sys.sat_addSys, Sys.sat_addSys]
  refine ⟨⟨(fun c hc => by simp at hc), IDom.Env.toCsts_sound he.1 hg.2.1⟩, GDom.Env.toCsts_sound he.2.1 hg.2.2⟩

end Env

/-! ### statements, histories, engine -/

/-- the values of the domain: products that satisfy the invariant -/
def SEnv := { e : Env // e.Inv }

namespace SEnv
def γ (a : SEnv) (σ : State) : Prop := Env.γ a.1 σ
def bot : SEnv := ⟨Env.bot, Env.inv_bot⟩
def top : SEnv := ⟨Env.top, Env.inv_top⟩
def leq (a b : SEnv) : Bool := Env.leq a.1 b.1
def join (a b : SEnv) : SEnv := ⟨Env.join a.1 b.1, Env.join_inv a.2 b.2⟩
def joinEq (a b : SEnv) : SEnv := ⟨Env.joinEq a.1 b.1, Env.joinEq_inv a.2 b.2⟩
def widen (a b : SEnv) : SEnv := ⟨Env.widen a.1 b.1, Env.widen_inv a.2 b.2⟩
def widenTh (ts : IDom.Thresholds) (a b : SEnv) : SEnv := ⟨Env.widenTh ts a.1 b.1, Env.widenTh_inv ts a.2 b.2⟩
def meet (a b : SEnv) : SEnv := ⟨Env.meet a.1 b.1, Env.meet_inv a.2 b.2⟩
def meetEq (a b : SEnv) : SEnv := ⟨Env.meetEq a.1 b.1, Env.meetEq_inv a.2 b.2⟩
def narrow (a b : SEnv) : SEnv := ⟨Env.narrow a.1 b.1, Env.narrow_inv a.2 b.2⟩
def ops : Fix.Ops SEnv := ⟨bot, top, leq, join, meet, widen, narrow⟩
end SEnv

/-- abstract execution of a statement: one call of the domain -/
def exec : Stmt → Env → Env
  | .assign x e, a => a.assign x e
  | .weakAssign x e, a => a.weakAssign x e
  | .arithVar op x y z, a => a.applyVar op x y z
  | .arithCst op x y k, a => a.applyCst op x y k
  | .bitVar op x y z, a => a.applyBitVar op x y z
  | .bitCst op x y k, a => a.applyBitCst op x y k
  | .assume csts, a => a.add csts
  | .select lhs c e1 e2, a => a.select lhs c e1 e2
  | .forget x, a => a.forget x
  | .havoc vs, a => a.forgetAll vs
  | .project vs, a => a.project vs
  | .expand x nx, a => a.expand x nx
  | .cast z bw d s, a => a.intCast z bw d s

theorem exec_inv (st : Stmt) (hok : st.Ok) {a : Env} (h : a.Inv) : (exec st a).Inv := by
  cases st <;> simp only [exec]
  · exact Env.assign_inv h hok _
  · exact Env.weakAssign_inv h hok _
  · exact Env.applyVar_inv h _ hok _ _
  · exact Env.applyCst_inv h _ hok _ _
  · exact Env.applyBitVar_inv h _ hok _ _
  · exact Env.applyBitCst_inv h _ hok _ _
  · exact Env.add_inv h hok
  · exact Env.select_inv h hok.1 hok.2 _ _
  · exact Env.forget_inv h hok
  · exact Env.forgetAll_inv h hok
  · exact Env.project_inv h hok
  · exact Env.expand_inv h _ hok
  · exact Env.intCast_inv h _ _ hok _

/-- **every statement is sound** (statements: `GDom.Ok'`, the side conditions of the congruence
    component) -/
theorem exec_sound (st : Stmt) (hok : GDom.Ok' st) {a : Env} (ha : a.Inv) {s s' : State} (hg : a.γ s)
    (hr : st.rel s s') : (exec st a).γ s' := by
  obtain ⟨hok, hshl⟩ := hok
  cases st with
  | assign x e => simp only [Stmt.rel] at hr; subst hr; exact Env.assign_sound ha hg hok e
  | weakAssign x e =>
    rcases hr with hr | hr <;> subst hr
    · exact (Env.weakAssign_sound ha hg hok e).1
    · exact (Env.weakAssign_sound ha hg hok e).2
  | arithVar op x y z => obtain ⟨c, hc, hs⟩ := hr; subst hs; exact Env.applyVar_sound ha hg op hok y z hc
  | arithCst op x y k => obtain ⟨c, hc, hs⟩ := hr; subst hs; exact Env.applyCst_sound ha hg op hok y k hc
  | bitVar op x y z =>
    obtain ⟨c, hc, hs⟩ := hr; subst hs
    exact Env.applyBitVar_sound ha hg op hok y z hc (fun h => by subst h; exact absurd rfl (hshl x y z))
  | bitCst op x y k => obtain ⟨c, hc, hs⟩ := hr; subst hs; exact Env.applyBitCst_sound ha hg op hok y k hc
  | assume csts => obtain ⟨hsat, hs⟩ := hr; subst hs; exact Env.add_sound ha hg hok hsat
  | select lhs c e1 e2 => simp only [Stmt.rel] at hr; subst hr; exact Env.select_sound ha hg hok.1 hok.2 e1 e2
  | forget x => obtain ⟨n, hs⟩ := hr; subst hs; exact Env.forget_sound ha hg hok n
  | havoc vs => exact Env.forgetAll_sound ha hg hok hr
  | project vs => exact Env.project_sound ha hg hok hr
  | expand x nx => simp only [Stmt.rel] at hr; subst hr; exact Env.expand_sound ha hg x hok
  | cast z bw d src => obtain ⟨hz, hs⟩ := hr; subst hs; exact Env.intCast_sound ha hg z bw hok src hz

def execS (st : Stmt) (hok : st.Ok) (a : SEnv) : SEnv := ⟨exec st a.1, exec_inv st hok a.2⟩

/-- the "ric" domain as the engine sees it -/
def eng : EngDom where
  A := SEnv
  γ := SEnv.γ
  ops := SEnv.ops
  Adm := GDom.Ok'
  exec := fun st h => execS st h.1
  exec_sound := fun st h a _ _ hg hr => exec_sound st h a.2 hg hr
  join_left := fun a b _ h => Env.join_upper a.2 b.2 (Or.inl h)
  join_right := fun a b _ h => Env.join_upper a.2 b.2 (Or.inr h)
  widen_left := fun a b _ h => Env.widen_upper a.2 b.2 (Or.inl h)
  widen_right := fun a b _ h => Env.widen_upper a.2 b.2 (Or.inr h)
  meet_sound := fun a b _ h1 h2 => Env.meet_sound a.2 b.2 h1 h2
  narrow_sound := fun a b _ h1 h2 => Env.narrow_sound a.2 b.2 h1 h2
  leq_sound := fun a b _ h hg => Env.leq_sound a.2 b.2 h hg

end RDom
end Crab
