import CrabProofs.Lemmas.IDomOps2

/-!
  `to_linear_constraint_system` of the interval domain: the exported system has exactly `γ` as
  its set of solutions.
-/
namespace Crab
namespace IDom
open Lin

namespace Env

/-- the two constraints exported for one binding -/
def lbCst (v : Var) (lb : Int) : Cst := ⟨(Expr.term (-1) v).addNum lb, .leq⟩
def ubCst (v : Var) (ub : Int) : Cst := ⟨(Expr.var v).subNum ub, .leq⟩

theorem sat_lbCst (v : Var) (lb : Int) (σ : State) : (lbCst v lb).sat σ ↔ lb ≤ σ v := by
  have : (Expr.term (-1) v).eval σ = -σ v := by simp [Expr.eval, Expr.term, Expr.evalTerms]
  simp only [lbCst, Cst.sat, Expr.eval_addNum, this]; omega

theorem sat_ubCst (v : Var) (ub : Int) (σ : State) : (ubCst v ub).sat σ ↔ σ v ≤ ub := by
  have : (Expr.var v).eval σ = σ v := by simp [Expr.eval, Expr.var, Expr.evalTerms]
  simp only [ubCst, Cst.sat, Expr.eval_subNum, this]; omega

/-- the body of the loop of `to_linear_constraint_system` -/
def cstStep (s : Sys) (p : Var × Itv) : Sys :=
  let s := match p.2.lb.number? with
    | some lb => Sys.addCst s (lbCst p.1 lb)
    | none => s
  match p.2.ub.number? with
    | some ub => Sys.addCst s (ubCst p.1 ub)
    | none => s

theorem toCsts_eq (e : Env) : e.toCsts = if e.bottom then Sys.addCst [] Cst.getFalse else e.m.foldl cstStep [] := rfl

theorem mem_cstStep {s : Sys} {p : Var × Itv} {c : Cst} :
    c ∈ cstStep s p ↔ c ∈ s ∨ (∃ lb, p.2.lb = .fin lb ∧ c = lbCst p.1 lb) ∨ (∃ ub, p.2.ub = .fin ub ∧ c = ubCst p.1 ub) := by
  unfold cstStep
  obtain ⟨v, ⟨l, u⟩⟩ := p
  cases l <;> cases u <;> simp [Bound.number?, Sys.mem_addCst, or_assoc]

theorem mem_foldCst {c : Cst} : ∀ (m : Map) (s : Sys),
    c ∈ m.foldl cstStep s ↔ c ∈ s ∨ ∃ p ∈ m, (∃ lb, p.2.lb = .fin lb ∧ c = lbCst p.1 lb) ∨ (∃ ub, p.2.ub = .fin ub ∧ c = ubCst p.1 ub) := by
  intro m
  induction m with
  | nil => intro s; simp
  | cons p rest ih =>
    intro s
    simp only [List.foldl_cons, ih, mem_cstStep, List.mem_cons]
    constructor
    · rintro ((h | h) | ⟨q, hq, h⟩)
      · exact Or.inl h
      · exact Or.inr ⟨p, Or.inl rfl, h⟩
      · exact Or.inr ⟨q, Or.inr hq, h⟩
    · rintro (h | ⟨q, hq | hq, h⟩)
      · exact Or.inl (Or.inl h)
      · subst hq; exact Or.inl (Or.inr h)
      · exact Or.inr ⟨q, hq, h⟩

/-- the exported constraints hold in every state of `γ` -/
theorem toCsts_sound {e : Env} (hs : e.m.Sorted) {σ : State} (hg : γ e σ) : Sys.sat e.toCsts σ := by
  rw [toCsts_eq]
  simp only [hg.1, Bool.false_eq_true, if_false]
  intro c hc
  rw [mem_foldCst] at hc
  rcases hc with hc | ⟨p, hp, hc⟩
  · simp at hc
  · have hm : Itv.mem (σ p.1) p.2 :=
      (γ_iff_of_not_bottom hg.1 σ).1 hg p.1 p.2 ((Map.mem_iff_find hs p.1 p.2).1 hp)
    rcases hc with ⟨lb, hl, hc⟩ | ⟨ub, hu, hc⟩
    · subst hc; rw [sat_lbCst]
      have := hm.1; rw [hl] at this; simpa using this
    · subst hc; rw [sat_ubCst]
      have := hm.2; rw [hu] at this; simpa using this

/-- every solution of the exported constraints is a state of `γ` (the stored intervals are
    well formed) -/
theorem toCsts_complete {e : Env} (hw : ∀ p ∈ e.m, p.2.WF) {σ : State} (h : Sys.sat e.toCsts σ) : γ e σ := by
  rw [toCsts_eq] at h
  cases hb : e.bottom with
  | true =>
    simp only [hb, if_true] at h
    have := h Cst.getFalse (by simp [Sys.addCst])
    exact absurd this (Cst.not_sat_getFalse σ)
  | false =>
    simp only [hb, Bool.false_eq_true, if_false] at h
    rw [γ_iff_of_not_bottom hb]
    intro x v hv
    have hp := Map.find_some_mem hv
    obtain ⟨hw1, hw2⟩ := hw (x, v) hp
    simp only at hw1 hw2
    constructor
    · cases hl : v.lb with
      | ninf => simp
      | pinf => exact absurd hl hw1
      | fin lb =>
        have := h (lbCst x lb) ((mem_foldCst _ _).2 (Or.inr ⟨(x, v), hp, Or.inl ⟨lb, hl, rfl⟩⟩))
        rw [sat_lbCst] at this; simpa using this
    · cases hu : v.ub with
      | pinf => simp
      | ninf => exact absurd hu hw2
      | fin ub =>
        have := h (ubCst x ub) ((mem_foldCst _ _).2 (Or.inr ⟨(x, v), hp, Or.inr ⟨ub, hu, rfl⟩⟩))
        rw [sat_ubCst] at this; simpa using this

end Env
end IDom
end Crab
