import CrabProofs.Lemmas.OctComplete

/-!
  Exactness of the canonical octagon model (consequences of the integer completeness of the tight
  closure, `OctComplete.lean`): least join, exact projection, exact inclusion test; coherence is
  an invariant of every operation, so the statements apply to every value built from `top`.
-/
namespace Crab
namespace Octagon
open Dbm

variable {n : Nat}

/-! ### coherence is preserved by the lattice operations -/

theorem join_coherent (a b : Oct n) (ha : Coherent a) (hb : Coherent b) : Coherent (join a b) := by
  unfold join
  cases hba : isBottom a
  · cases hbb : isBottom b
    · simp only [Bool.false_eq_true, if_false]
      exact pmax_coherent _ _ (close_closed a ha hba).2 (close_closed b hb hbb).2
    · simp only [Bool.false_eq_true, if_false, if_true]; exact ha
  · simp only [if_true]; exact hb

theorem forget_coherent (o : Oct n) (x : Fin n) (h : Coherent o) : Coherent (forget o x) := by
  unfold forget
  cases hb : isBottom o
  · simp only [Bool.false_eq_true, if_false]
    exact dropVar_coherent _ x (close_closed o h hb).2
  · simp only [if_true]; exact h

/-! ### closed entries are the tightest implied bounds -/

theorem isBottom_false_of_γ {o : Oct n} {σ : State n} (h : γ o σ) : isBottom o = false := by
  cases hb : isBottom o
  · rfl
  · exact absurd ⟨σ, h⟩ (bottom_sound o hb)

theorem entry_LE_of_implied (o : Oct n) (hco : Coherent o) (hb : isBottom o = false)
    (i j : Fin (2 * n)) (k : Int) (h : ∀ σ, γ o σ → ext σ i - ext σ j ≤ k) :
    W.LE ((close o).get i j) (some k) := by
  obtain ⟨h2, h3⟩ := tightClosed_attained (close o) (close_tightClosed o hco hb) i j
  cases hd : (close o).get i j with
  | none =>
    obtain ⟨σ, hσ, hlt⟩ := h3 hd k
    have := h σ ((close_preserves_γ o σ).1 hσ)
    omega
  | some d =>
    obtain ⟨σ, hσ, he⟩ := h2 d hd
    have := h σ ((close_preserves_γ o σ).1 hσ)
    exact W.LE_some_some.2 (by omega)

theorem entry_implied (o : Oct n) (i j : Fin (2 * n)) (k : Int)
    (h : W.LE ((close o).get i j) (some k)) (σ : State n) (hσ : γ o σ) : ext σ i - ext σ j ≤ k := by
  obtain ⟨d, hd, hdk⟩ := W.LE_some.1 h
  have := (close_preserves_γ o σ).2 hσ i j d hd
  omega

/-! ### join -/

theorem join_least (a b c : Oct n) (hca : Coherent a) (hcb : Coherent b)
    (ha : ∀ σ, γ a σ → γ c σ) (hb : ∀ σ, γ b σ → γ c σ)
    (σ : State n) (h : γ (join a b) σ) : γ c σ := by
  unfold join at h
  cases hba : isBottom a
  · cases hbb : isBottom b
    · simp only [hba, hbb, Bool.false_eq_true, if_false] at h
      intro i j k hk
      have h1 := entry_LE_of_implied a hca hba i j k (fun τ hτ => ha τ hτ i j k hk)
      have h2 := entry_LE_of_implied b hcb hbb i j k (fun τ hτ => hb τ hτ i j k hk)
      have h3 : W.LE ((Mat.pmax (close a) (close b)).get i j) (some k) := by
        simp only [Mat.pmax, Mat.get_ofFn]
        exact W.max_LE_iff.2 ⟨h1, h2⟩
      obtain ⟨d, hd, hdk⟩ := W.LE_some.1 h3
      have := h i j d hd
      omega
    · simp only [hba, hbb, Bool.false_eq_true, if_false, if_true] at h
      exact ha σ h
  · simp only [hba, if_true] at h
    exact hb σ h

/-! ### inclusion -/

theorem leq_iff (a b : Oct n) (hca : Coherent a) : leq a b = true ↔ ∀ σ, γ a σ → γ b σ := by
  unfold leq
  rw [Bool.or_eq_true]
  constructor
  · rintro (h | h) σ hσ
    · exact absurd ⟨σ, hσ⟩ (bottom_sound a h)
    · intro i j k hk
      simp only [List.all_eq_true] at h
      have := h i (List.mem_finRange i) j (List.mem_finRange j)
      rw [W.le_iff, hk] at this
      exact entry_implied a i j k this σ hσ
  · intro h
    cases hb : isBottom a
    · right
      simp only [List.all_eq_true]
      intro i _ j _
      rw [W.le_iff]
      intro k hk
      exact entry_LE_of_implied a hca hb i j k (fun σ hσ => h σ hσ i j k hk) k rfl
    · left; rfl

/-! ### forget (projection) -/

theorem updS_updS (σ : State n) (x : Fin n) (t s : Int) : updS (updS σ x t) x s = updS σ x s := by
  funext y; unfold updS; split <;> rfl

theorem updS_self (σ : State n) (x : Fin n) : updS σ x (σ x) = σ := by
  funext y; unfold updS; split
  · rename_i h; rw [h]
  · rfl

theorem updL_ext (σ : State n) (x : Fin n) (t : Int) : updL (ext σ) (pos x) t = ext (updS σ x t) := by
  funext i
  by_cases hi : varOf i = x
  · have hi' : varOf i = varOf (pos x) := by rw [varOf_pos]; exact hi
    rcases lit_cases hi' with rfl | rfl
    · rw [updL_self, ext_pos]; simp [updS]
    · rw [updL_bar, bar_pos, ext_neg]; simp [updS]
  · rw [updL_of_ne _ _ (by rw [varOf_pos]; exact hi), ext_updS_of_ne _ _ _ _ hi]

theorem forget_exact (o : Oct n) (hco : Coherent o) (x : Fin n) (σ : State n) :
    γ (forget o x) σ ↔ ∃ t, γ o (updS σ x t) := by
  constructor
  · intro h
    cases hb : isBottom o
    · have htc := close_tightClosed o hco hb
      unfold forget at h
      simp only [hb, Bool.false_eq_true, if_false] at h
      have hs : SatOn (close o) (fun y => y ≠ x) (ext σ) := by
        intro i j k hi hj hk
        apply h i j k
        simp only [Mat.dropIdx, Mat.get_ofFn, hi, hj, decide_false, Bool.or_false, Bool.false_eq_true, if_false]
        exact hk
      obtain ⟨t, ht⟩ := extend_one htc (ext_cohVal σ) (fun y => y ≠ x) (pos x)
        (by rw [varOf_pos]; exact fun hh => hh rfl) hs
      refine ⟨t, ?_⟩
      rw [← close_preserves_γ]
      unfold γ
      rw [← updL_ext]
      intro i j k hk
      apply ht i j k _ _ hk
      · by_cases hi : varOf i = x
        · right; rw [varOf_pos]; exact hi
        · left; exact hi
      · by_cases hj : varOf j = x
        · right; rw [varOf_pos]; exact hj
        · left; exact hj
    · unfold forget at h
      simp only [hb, if_true] at h
      exact absurd ⟨σ, h⟩ (bottom_sound o hb)
  · rintro ⟨t, h⟩
    have := forget_sound o x (updS σ x t) (σ x) h
    rwa [updS_updS, updS_self] at this

end Octagon
end Crab
