import CrabProofs.Lemmas.DisIntervalNorm

/-! The private list constructor of `dis_interval` (`Crab.Dis.mkList` = `normalize` + the merge at
    50 disjuncts): it describes at least the union of the vector, exactly the union below 50
    disjuncts, and it establishes the invariant `Dis.WF`. -/
namespace Crab
namespace Dis
open Bound

theorem wfList_of_stack {res : List Itv} (h : Stack res) : WFList res.reverse := by
  refine ⟨fun a ha => h.1 a (List.mem_reverse.mp ha), ?_⟩
  rw [List.pairwise_reverse]
  exact h.2

theorem memL_reverse {k : Int} {l : List Itv} : memL k l.reverse ↔ memL k l := by
  simp [memL]

/-- what private `normalize(l, is_bottom)` returns on a vector of 2 or more intervals -/
theorem normalizeList_spec (l : List Itv) (hl : ∀ i ∈ l, i.WF) (h2 : 2 ≤ l.length) :
    WFList (normalizeList l).1 ∧ (normalizeList l).1.length ≤ l.length ∧
    ((normalizeList l).2 = true → ∀ i ∈ l, i.isBottom = true) ∧
    ((normalizeList l).2 = false → (normalizeList l).1 = [] → ∀ k, memL k l) ∧
    ((normalizeList l).1 ≠ [] → ∀ k, memL k (normalizeList l).1 ↔ memL k l) := by
  have hinv : NInv (sortByLb l) [] Itv.top :=
    ⟨fun i hi => hl i (mem_sortByLb.mp hi), lbSorted_sortByLb l, stack_nil, by simp, Or.inl ⟨rfl, rfl⟩⟩
  have hspec := normLoop_spec (sortByLb l) [] Itv.top 0 hinv
  have hms : ∀ k, memL k (sortByLb l) ↔ memL k l := by
    intro k; simp [memL, mem_sortByLb]
  unfold normalizeList
  have hn : ¬ l.length ≤ 1 := by omega
  simp only [hn, if_false]
  cases hr : normLoop (sortByLb l) [] Itv.top 0 with
  | none =>
    rw [hr] at hspec
    simp only [NPost] at hspec
    refine ⟨⟨by simp, List.Pairwise.nil⟩, by simp, by simp, ?_, by simp⟩
    intro _ _ k
    rcases hspec k with h | h
    · exact (hms k).mp h
    · exact absurd h (memL_nil k)
  | some p =>
    obtain ⟨res, b⟩ := p
    rw [hr] at hspec
    obtain ⟨h1, h2', h3, h4, h5, h6⟩ := hspec
    simp only [length_sortByLb, List.length_nil, Nat.zero_add] at h3 h4 h5 h6
    refine ⟨wfList_of_stack h1, by simpa using h3, ?_, ?_, ?_⟩
    · intro hb i hi
      have hb : b = l.length := by simpa using hb
      exact h5 hb i (mem_sortByLb.mpr hi)
    · intro hb he
      have he : res = [] := by simpa using he
      have := (h6 he).2
      simp [this] at hb
    · intro _ k
      rw [memL_reverse, h2' k, hms k]
      simp [memL_nil]

/-- hull of a normalised vector -/
theorem approxNE_mem {x : Itv} {xs : List Itv} (h : WFList (x :: xs)) {k : Int}
    (hk : memL k (x :: xs)) : Itv.mem k (approxNE x xs) := by
  cases xs with
  | nil => simpa [approxNE, memL] using hk
  | cons y ys =>
    simp only [approxNE]
    obtain ⟨i, hi, hki⟩ := hk
    have hpx := (proper_iff x).mp (h.1 x (by simp))
    have hlast : (y :: ys).getLast (by simp) ∈ x :: y :: ys :=
      List.mem_cons_of_mem _ (List.getLast_mem _)
    have hpl := (proper_iff _).mp (h.1 _ hlast)
    have hpi := (proper_iff i).mp (h.1 i hi)
    -- lb of the first ≤ lb of i, ub of i ≤ ub of the last
    have h1 : Bound.le x.lb i.lb = true := by
      rcases List.mem_cons.mp hi with rfl | hi'
      · exact Bound.le_refl _
      · exact (gapOk_facts hpx.1 hpi.1 ((List.pairwise_cons.mp h.2).1 i hi')).2.2.2.2.1
    have h2 : Bound.le i.ub ((y :: ys).getLast (by simp)).ub = true := by
      by_cases he : i = (y :: ys).getLast (by simp)
      · rw [← he]; exact Bound.le_refl _
      · -- i is before the last element
        have hsplit : ∃ pre, x :: y :: ys = pre ++ [(y :: ys).getLast (by simp)] :=
          ⟨(x :: y :: ys).dropLast, by
            have := List.dropLast_concat_getLast (l := x :: y :: ys) (by simp)
            rw [List.getLast_cons (by simp)] at this
            exact this.symm⟩
        obtain ⟨pre, hpre⟩ := hsplit
        have hpw := h.2
        rw [hpre, List.pairwise_append] at hpw
        have hip : i ∈ pre := by
          rw [hpre] at hi
          rcases List.mem_append.mp hi with hi | hi
          · exact hi
          · simp at hi; exact absurd hi he
        exact (gapOk_facts hpi.1 hpl.1 (hpw.2.2 i hip _ (by simp))).2.2.2.2.2
    have hjoin : Itv.join x ((y :: ys).getLast (by simp)) =
        Itv.mk' (Bound.min x.lb ((y :: ys).getLast (by simp)).lb)
                (Bound.max x.ub ((y :: ys).getLast (by simp)).ub) := by
      simp [Itv.join, hpx.1, hpl.1]
    rw [hjoin, Itv.mem_mk']
    exact ⟨Bound.le_trans (Bound.le_trans (Bound.min_le_left _ _) h1) hki.1,
           Bound.le_trans hki.2 (Bound.le_trans h2 (Bound.le_max_right _ _))⟩

/-- the constructor describes at least the union of the vector -/
theorem mkList_mem_upper {l : List Itv} (hl : ∀ i ∈ l, i.WF) {k : Int} (hk : memL k l) :
    mem k (mkList l) := by
  by_cases h1 : l.length ≤ 1
  · match l, h1 with
    | [], _ => exact absurd hk (memL_nil k)
    | [a], _ =>
      simp [mkList, normalizeList, maxDisjunctions]
      exact hk
  · obtain ⟨hw, _, hb, ht, hm⟩ := normalizeList_spec l hl (by omega)
    unfold mkList
    cases hr : normalizeList l with
    | mk r isBot =>
      rw [hr] at hw hb ht hm
      simp only at hw hb ht hm
      cases isBot with
      | true =>
        obtain ⟨i, hi, hki⟩ := hk
        exact absurd hki (Itv.not_mem_of_isBottom (hb rfl i hi))
      | false =>
        cases r with
        | nil => exact mem_top k
        | cons x xs =>
          simp only
          have hk' : memL k (x :: xs) := (hm (by simp) k).mpr hk
          split
          · exact ⟨_, by simp, approxNE_mem hw hk'⟩
          · exact hk'

/-- below 50 disjuncts it describes nothing else -/
theorem mkList_mem_exact {l : List Itv} (hl : ∀ i ∈ l, i.WF) (hne : l ≠ [])
    (hlen : l.length < maxDisjunctions) {k : Int} (hk : mem k (mkList l)) : memL k l := by
  by_cases h1 : l.length ≤ 1
  · match l, h1 with
    | [], _ => exact absurd rfl hne
    | [a], _ =>
      simp [mkList, normalizeList, maxDisjunctions] at hk
      exact hk
  · obtain ⟨hw, hlen', hb, ht, hm⟩ := normalizeList_spec l hl (by omega)
    unfold mkList at hk
    cases hr : normalizeList l with
    | mk r isBot =>
      rw [hr] at hw hb ht hm hlen' hk
      simp only at hw hb ht hm hlen' hk
      cases isBot with
      | true => exact absurd hk (not_mem_bot k)
      | false =>
        cases r with
        | nil => exact ht rfl rfl k
        | cons x xs =>
          simp only at hk
          have : ¬ (x :: xs).length ≥ maxDisjunctions := by omega
          rw [if_neg this] at hk
          exact (hm (by simp) k).mp hk

/-- the constructor establishes the invariant (below 50 disjuncts; a vector of one interval is
    taken as it is) -/
theorem mkList_wf {l : List Itv} (hl : ∀ i ∈ l, i.WF) (h1 : ∀ a, l = [a] → proper a = true)
    (hlen : l.length < maxDisjunctions) : WF (mkList l) := by
  by_cases h1' : l.length ≤ 1
  · match l, h1' with
    | [], _ => simp [mkList, normalizeList, WF]
    | [a], _ =>
      simp [mkList, normalizeList, maxDisjunctions, WF, WFList]
      exact h1 a rfl
  · obtain ⟨hw, hlen', _, _, _⟩ := normalizeList_spec l hl (by omega)
    unfold mkList
    cases hr : normalizeList l with
    | mk r isBot =>
      rw [hr] at hw hlen'
      simp only at hw hlen'
      cases isBot with
      | true => simp [WF]
      | false =>
        cases r with
        | nil => simp [WF]
        | cons x xs =>
          simp only
          have : ¬ (x :: xs).length ≥ maxDisjunctions := by omega
          rw [if_neg this]
          exact ⟨by simp, by simp only [List.length_cons] at hlen' ⊢; omega, hw⟩

/-! ### a normalised vector is a fixed point of the constructor -/

theorem lbSorted_of_wfList {l : List Itv} (h : WFList l) : LbSorted l := by
  unfold LbSorted
  refine List.Pairwise.imp_of_mem ?_ h.2
  intro a b ha hb hg
  exact (gapOk_facts ((proper_iff a).mp (h.1 a ha)).1 ((proper_iff b).mp (h.1 b hb)).1 hg).2.2.2.2.1

theorem normLoop_of_wf (l : List Itv) : ∀ (res : List Itv) (prev : Itv) (b : Nat),
    WFList l → (∀ r ∈ res, proper r = true) → (∀ r ∈ res, ∀ i ∈ l, gapOk r i = true) →
    ((prev = Itv.top ∧ res = []) ∨ ∃ rest, res = prev :: rest) →
    normLoop l res prev b = some (l.reverse ++ res, b) := by
  induction l with
  | nil => intro res prev b _ _ _ _; simp [normLoop]
  | cons intv more ih =>
    intro res prev b hw hres hgap hprev
    have hpi := (proper_iff intv).mp (hw.1 intv (by simp))
    have hwm : WFList more :=
      ⟨fun a ha => hw.1 a (List.mem_cons_of_mem _ ha), (List.pairwise_cons.mp hw.2).2⟩
    have hdup : Itv.beq prev intv = false := by
      rcases hprev with ⟨hp, _⟩ | ⟨rest, hr⟩
      · subst hp
        obtain ⟨il, iu⟩ := intv
        cases il <;> cases iu <;> simp_all [Itv.beq, Itv.top, Itv.isTop, Itv.isBottom, Bound.gt, Bound.isInfinite]
      · have hpp := (proper_iff prev).mp (hres prev (by simp [hr]))
        exact (gapOk_facts hpp.1 hpi.1 (hgap prev (by simp [hr]) intv (by simp))).2.2.2.1
    have hab : (if (!prev.isTop) = true then absorb intv res else (res, some intv)) = (res, some intv) := by
      split
      · cases res with
        | nil => simp [absorb]
        | cons p rest =>
          have hpp := (proper_iff p).mp (hres p (by simp))
          obtain ⟨h1, h2, h3, _⟩ := gapOk_facts hpp.1 hpi.1 (hgap p (by simp) intv (by simp))
          simp [absorb, h1, h2, h3]
      · rfl
    have hstep : normLoop (intv :: more) res prev b = normLoop more (intv :: res) intv b := by
      rw [normLoop]
      simp only [hpi.2.1, Bool.false_eq_true, if_false, hdup, hpi.1, hab]
    rw [hstep, ih (intv :: res) intv b hwm]
    · simp
    · intro r hr
      rcases List.mem_cons.mp hr with rfl | hr
      · exact hw.1 _ (by simp)
      · exact hres r hr
    · intro r hr i hi
      rcases List.mem_cons.mp hr with rfl | hr
      · exact (List.pairwise_cons.mp hw.2).1 i hi
      · exact hgap r hr i (List.mem_cons_of_mem _ hi)
    · exact Or.inr ⟨res, rfl⟩

theorem normalizeList_of_wf {l : List Itv} (h : WFList l) : normalizeList l = (l, false) := by
  unfold normalizeList
  split
  · rfl
  · rename_i hlen
    rw [sortByLb_of_sorted (lbSorted_of_wfList h),
      normLoop_of_wf l [] Itv.top 0 h (by simp) (by simp) (Or.inl ⟨rfl, rfl⟩)]
    simp
    omega

/-- the constructor applied to the vector of a well-formed FINITE value gives the value back -/
theorem mkList_of_wf {l : List Itv} (h : WFList l) (hne : l ≠ []) (hlen : l.length < maxDisjunctions) :
    mkList l = ⟨.fin, l⟩ := by
  unfold mkList
  rw [normalizeList_of_wf h]
  cases l with
  | nil => exact absurd rfl hne
  | cons x xs =>
    simp only
    rw [if_neg (by omega)]

end Dis
end Crab
