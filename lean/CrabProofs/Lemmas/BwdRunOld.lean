import CrabProofs.Lemmas.BwdRun

/-!
  The fixpoint problem BEFORE commit 111ab80 (`bwdCtxOld`: `analyze` never starts from top):
  its collecting semantics is `CoReachX` — co-reachability with assertion failures only in
  blocks from which the exit block is reachable.  Kept for the counterexample of the old
  behaviour (DESIGN.md §4 #8).
-/
namespace Crab
namespace Bwd

open Fix

variable {A : Type}

def Setup.ctxOld (S : Setup A) : Ctx A :=
  bwdCtxOld S.D S.p S.good S.invAbs S.fin S.nesting S.delay S.descending

/-- the block transformer of the reversed system as a relation: `stepo n s s'` — `s` is a state
    at the END of block `n` (or the token), `s'` a state at its entry -/
def Setup.stepoOld (S : Setup A) : Nat → Option State → Option State → Prop
  | _, none, none => True
  | n, none, some σ' => S.good = false ∧ S.inv n σ' ∧ StmtsFail (S.p.block n).stmts σ'
  | n, some σ, some σ' => S.inv n σ' ∧ StmtsStep (S.p.block n).stmts σ' σ
  | _, some _, none => False

def Setup.semOld (S : Setup A) : Sem S.ctxOld (Option State) where
  γ := S.γo
  step := S.stepoOld
  analyze_sound := by
    intro n a s s' hγ hstep
    cases s' with
    | none => trivial
    | some σ' =>
      cases s with
      | none =>
        obtain ⟨hg, hinv, hfail⟩ := hstep
        show S.γ (bwdStmts S.D S.good (S.p.block n).stmts a (S.invAbs n)) σ'
        rw [hg]
        exact bwdStmts_fail_sound S.sound _ a _ σ' hinv hfail
      | some σ =>
        obtain ⟨hinv, hrun⟩ := hstep
        exact bwdStmts_step_sound S.sound S.good _ a _ σ' σ hinv hrun hγ
  join_left := by
    intro a b s h; cases s with
    | none => trivial
    | some σ => exact S.sound.join_left a b σ h
  join_right := by
    intro a b s h; cases s with
    | none => trivial
    | some σ => exact S.sound.join_right a b σ h
  widen_left := by
    intro a b s h; cases s with
    | none => trivial
    | some σ => exact S.sound.widen_left a b σ h
  widen_right := by
    intro a b s h; cases s with
    | none => trivial
    | some σ => exact S.sound.widen_right a b σ h
  meet_sound := by
    intro a b s h1 h2; cases s with
    | none => trivial
    | some σ => exact S.sound.meet_sound a b σ h1 h2
  narrow_sound := by
    intro a b s h1 h2; cases s with
    | none => trivial
    | some σ => exact S.sound.narrow_sound a b σ h1 h2
  leq_sound := by
    intro a b s h1 h2; cases s with
    | none => trivial
    | some σ => exact S.sound.leq_sound a b σ h1 h2

theorem Setup.asmOk_trueOld (S : Setup A) (n : Nat) (s : Option State) : asmOk S.ctxOld S.semOld n s := by
  simp [asmOk, hasAssumptions, Setup.ctxOld, bwdCtxOld, bwdCtx]


/-- the token reaches the end (in the reversed system: the `pre` side) of every block from
    which the exit block is reachable -/
theorem Setup.token_preOld (S : Setup A) (n : Nat) (h : ReachesExit S.p n) :
    ReachPre S.ctxOld S.semOld n none := by
  induction h with
  | here => exact ReachPre.init none trivial (S.asmOk_trueOld _ _)
  | edge n m hm _ ih =>
    have hpost : ReachPost S.ctxOld S.semOld m none := ReachPost.step m none none ih trivial
    exact ReachPre.flow m n none hm hpost (S.asmOk_trueOld _ _)

/-- co-reachable states (failures only in blocks that reach the exit) are in the collecting
    semantics of the reversed system -/
theorem Setup.reachPostOld_of_coReachX (S : Setup A) (n : Nat) (σ : State)
    (h : CoReachX S.p S.inv (!S.good) (S.γ S.fin) n σ) : ReachPost S.ctxOld S.semOld n (some σ) := by
  induction h with
  | exit σ σ' hinv hrun hfin =>
    have hpre : ReachPre S.ctxOld S.semOld S.p.exit (some σ') :=
      ReachPre.init (some σ') hfin (S.asmOk_trueOld _ _)
    exact ReachPost.step S.p.exit (some σ') (some σ) hpre ⟨hinv, hrun⟩
  | flow n m σ σ' hinv hm hrun _ ih =>
    have hpre : ReachPre S.ctxOld S.semOld n (some σ') :=
      ReachPre.flow m n (some σ') hm ih (S.asmOk_trueOld _ _)
    exact ReachPost.step n (some σ') (some σ) hpre ⟨hinv, hrun⟩
  | fail n σ herr hx hinv hfail =>
    have hg : S.good = false := by cases hgd : S.good <;> simp [hgd] at herr ⊢
    exact ReachPost.step n none (some σ) (S.token_preOld n hx) ⟨hg, hinv, hfail⟩

/-- if every block with an assertion can reach the exit, nothing is lost -/
theorem coReachX_of_coReach (p : Prog) (inv : Nat → State → Prop) (err : Bool) (fin : State → Prop)
    (hx : ∀ n, (∃ s ∈ (p.block n).stmts, s.isAssert = true) → ReachesExit p n)
    (n : Nat) (σ : State) (h : CoReach p inv err fin n σ) : CoReachX p inv err fin n σ := by
  induction h with
  | exit σ σ' hinv hrun hfin => exact CoReachX.exit σ σ' hinv hrun hfin
  | flow n m σ σ' hinv hm hrun _ ih => exact CoReachX.flow n m σ σ' hinv hm hrun ih
  | fail n σ herr hinv hfail =>
    exact CoReachX.fail n σ herr (hx n (stmtsFail_has_assert hfail)) hinv hfail

theorem coReach_of_coReachX (p : Prog) (inv : Nat → State → Prop) (err : Bool) (fin : State → Prop)
    (n : Nat) (σ : State) (h : CoReachX p inv err fin n σ) : CoReach p inv err fin n σ := by
  induction h with
  | exit σ σ' hinv hrun hfin => exact CoReach.exit σ σ' hinv hrun hfin
  | flow n m σ σ' hinv hm hrun _ ih => exact CoReach.flow n m σ σ' hinv hm hrun ih
  | fail n σ herr _ hinv hfail => exact CoReach.fail n σ herr hinv hfail

/-! ### the converse: the collecting semantics of the reversed system is co-reachability -/

/-- what a state of the reversed system at the END of block `n` stands for -/
def Setup.PreCharOld (S : Setup A) (n : Nat) : Option State → Prop
  | none => ReachesExit S.p n
  | some σ => (n = S.p.exit ∧ S.γ S.fin σ) ∨
      ∃ m, m ∈ (S.p.block n).succs ∧ CoReachX S.p S.inv (!S.good) (S.γ S.fin) m σ

def Setup.PostCharOld (S : Setup A) (n : Nat) : Option State → Prop
  | none => ReachesExit S.p n
  | some σ => CoReachX S.p S.inv (!S.good) (S.γ S.fin) n σ

mutual
theorem Setup.pre_charOld (S : Setup A) : ∀ (n : Nat) (s : Option State),
    ReachPre S.ctxOld S.semOld n s → S.PreCharOld n s
  | _, s, .init _ hinit _ => by
    cases s with
    | none => exact ReachesExit.here
    | some σ => exact Or.inl ⟨rfl, hinit⟩
  | n, s, .flow m _ _ hm hpost _ => by
    have h := Setup.post_charOld S m s hpost
    cases s with
    | none => exact ReachesExit.edge n m hm h
    | some σ => exact Or.inr ⟨m, hm, h⟩
theorem Setup.post_charOld (S : Setup A) : ∀ (n : Nat) (s : Option State),
    ReachPost S.ctxOld S.semOld n s → S.PostCharOld n s
  | n, s', .step _ s _ hpre hstep => by
    have h := Setup.pre_charOld S n s hpre
    cases s' with
    | none =>
      cases s with
      | none => exact h
      | some σ => exact hstep.elim
    | some σ' =>
      cases s with
      | none =>
        obtain ⟨hg, hinv, hfail⟩ := hstep
        exact CoReachX.fail n σ' (by simp [hg]) h hinv hfail
      | some σ =>
        obtain ⟨hinv, hrun⟩ := hstep
        rcases h with ⟨rfl, hfin⟩ | ⟨m, hm, hco⟩
        · exact CoReachX.exit σ' σ hinv hrun hfin
        · exact CoReachX.flow n m σ' σ hinv hm hrun hco
end
end Bwd
end Crab
