import CrabProofs.Lemmas.FunctorUfRefl

/-!
The instance of the non-vacuity examples of `uf_domain` in `Props/C03Functors2.lean`: variables and
symbols are natural numbers.
-/
namespace Crab
namespace Dom
namespace Fct
open Uf

namespace C03UfEx

/-- symbol 0 = `+`, symbol 1 = `*`, every other symbol = 7 (an arbitrary fixed meaning) -/
def I0 : Nat → List Int → Int
  | 0, [a, b] => a + b
  | 1, [a, b] => a * b
  | _, _ => 7


def ch : List (Term Nat) → Option (Term Nat) := List.head?

theorem ch_ok : ChooseOK ch := fun l t h => List.mem_of_mem_head? h


def terms : UF Nat Nat → Option (List (Nat × Term Nat))
  | .bot => none
  | .val u => some u.map


/-- `v0 := 5; v1 := v0 + v2; v3 := v0 + v2` -/
def ops : List (UF.Op Nat Nat) :=
  [.assign 0 0 (.const 5), .assign 0 1 (.app 0 [.var 0, .var 2]), .assign 0 3 (.app 0 [.var 0, .var 2])]


def run (l : List (UF.Op Nat Nat)) : Pool (UF Nat Nat) := runHist (fun _ => UF.top) (UF.toHist I0 ch l)


def sfin : St Nat := fun v => if v = 0 then 5 else if v = 2 then 2 else if v = 1 ∨ v = 3 then 7 else 0


end C03UfEx

end Fct
end Dom
end Crab
