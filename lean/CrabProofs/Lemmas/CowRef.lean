import CrabModel.Dom.CowRef

/-!
# The copy-on-write store: invariant and simulation by plain values
-/
namespace Crab
namespace Dom
namespace Cow

variable {A : Type}

/-! ### counting pointers -/

theorem hcnt_none (c : Nat) : hcnt c none = 0 := rfl

theorem hcnt_some (c : Nat) (h : Handle) :
    hcnt c (some h) = (if h.norm = c then 1 else 0) + (if h.base = some c then 1 else 0) := by
  obtain ⟨b, n⟩ := h
  cases b with
  | none => simp [hcnt, hrefs, List.count_cons]
  | some b => simp [hcnt, hrefs, List.count_cons]; omega

theorem cnt_cons (c : Nat) (a : Option Handle) (t : List (Option Handle)) :
    cnt c (a :: t) = hcnt c a + cnt c t := by
  simp [cnt, refs, hcnt, List.count_append]

theorem cnt_set (c : Nat) : ∀ (pool : List (Option Handle)) (d : Nat) (o x : Option Handle),
    pool[d]? = some o → cnt c (pool.set d x) + hcnt c o = cnt c pool + hcnt c x := by
  intro pool
  induction pool with
  | nil => intro d o x h; simp at h
  | cons a t ih =>
    intro d o x h
    cases d with
    | zero =>
      simp at h
      subst h
      simp [cnt_cons]; omega
    | succ d =>
      simp at h
      have := ih d o x h
      simp [cnt_cons]; omega

theorem hcnt_le_cnt (c : Nat) : ∀ (pool : List (Option Handle)) (o : Option Handle),
    o ∈ pool → hcnt c o ≤ cnt c pool := by
  intro pool
  induction pool with
  | nil => intro o h; simp at h
  | cons a t ih =>
    intro o h
    rw [cnt_cons]
    rcases List.mem_cons.mp h with h | h
    · subst h; omega
    · have := ih o h; omega

theorem cnt_pos_iff (c : Nat) (pool : List (Option Handle)) :
    0 < cnt c pool ↔ ∃ o ∈ pool, 0 < hcnt c o := by
  simp [cnt, hcnt, refs, List.count_pos_iff, List.mem_flatMap]

theorem cnt_replicate_none (c n : Nat) : cnt c (List.replicate n none) = 0 := by
  induction n with
  | zero => rfl
  | succ n ih => rw [List.replicate_succ, cnt_cons, ih, hcnt_none]

/-! ### primitives: effect on `rcOf`, `valOf` -/

theorem rcOf_zero_of_valOf_none (st : State A) (c : Nat) (h : valOf st c = none) : rcOf st c = 0 := by
  unfold valOf at h; unfold rcOf
  cases hc : st.cells c <;> simp_all

theorem rcOf_incr (st : State A) (c x : Nat) (hc : valOf st c ≠ none) :
    rcOf (incr st c) x = rcOf st x + (if x = c then 1 else 0) := by
  unfold valOf at hc
  unfold rcOf incr
  by_cases hx : x = c
  · subst hx; cases h : st.cells x <;> simp_all
  · simp [hx]

theorem valOf_incr (st : State A) (c x : Nat) : valOf (incr st c) x = valOf st x := by
  unfold valOf incr
  by_cases hx : x = c
  · subst hx; cases h : st.cells x <;> simp_all
  · simp [hx]

theorem rcOf_decr (st : State A) (c x : Nat) :
    rcOf (decr st c) x = rcOf st x - (if x = c then 1 else 0) := by
  unfold rcOf decr
  by_cases hx : x = c
  · subst hx
    cases h : st.cells x with
    | none => simp
    | some y =>
      by_cases hy : y.rc ≤ 1
      · simp [hy]
      · simp [hy]
  · simp [hx]

theorem valOf_decr (st : State A) (c x : Nat) :
    valOf (decr st c) x = if x = c ∧ rcOf st c ≤ 1 then none else valOf st x := by
  unfold valOf rcOf decr
  by_cases hx : x = c
  · subst hx
    cases h : st.cells x with
    | none => simp
    | some y =>
      by_cases hy : y.rc ≤ 1
      · simp [hy]
      · simp [hy]
  · simp [hx]

theorem rcOf_alloc (st : State A) (v : A) (x : Nat) :
    rcOf (alloc st v).1 x = if x = st.next then 1 else rcOf st x := by
  unfold rcOf alloc
  by_cases hx : x = st.next <;> simp [hx]

theorem valOf_alloc (st : State A) (v : A) (x : Nat) :
    valOf (alloc st v).1 x = if x = st.next then some v else valOf st x := by
  unfold valOf alloc
  by_cases hx : x = st.next <;> simp [hx]

theorem rcOf_write (st : State A) (c : Nat) (f : A → A) (x : Nat) :
    rcOf (write st c f) x = rcOf st x := by
  unfold rcOf write
  by_cases hx : x = c
  · subst hx; cases h : st.cells x <;> simp
  · simp [hx]

theorem valOf_write (st : State A) (c : Nat) (f : A → A) (x : Nat) :
    valOf (write st c f) x = if x = c then (valOf st c).map f else valOf st x := by
  unfold valOf write
  by_cases hx : x = c
  · subst hx; cases h : st.cells x <;> simp
  · simp [hx]

@[simp] theorem rcOf_setSlot (st : State A) (d : Nat) (o : Option Handle) (x : Nat) :
    rcOf (setSlot st d o) x = rcOf st x := rfl
@[simp] theorem valOf_setSlot (st : State A) (d : Nat) (o : Option Handle) (x : Nat) :
    valOf (setSlot st d o) x = valOf st x := rfl
@[simp] theorem pool_setSlot (st : State A) (d : Nat) (o : Option Handle) :
    (setSlot st d o).pool = st.pool.set d o := rfl
@[simp] theorem next_setSlot (st : State A) (d : Nat) (o : Option Handle) :
    (setSlot st d o).next = st.next := rfl
@[simp] theorem pool_incr (st : State A) (c : Nat) : (incr st c).pool = st.pool := rfl
@[simp] theorem pool_decr (st : State A) (c : Nat) : (decr st c).pool = st.pool := rfl
@[simp] theorem pool_alloc (st : State A) (v : A) : (alloc st v).1.pool = st.pool := rfl
@[simp] theorem pool_write (st : State A) (c : Nat) (f : A → A) : (write st c f).pool = st.pool := rfl
@[simp] theorem next_incr (st : State A) (c : Nat) : (incr st c).next = st.next := rfl
@[simp] theorem next_decr (st : State A) (c : Nat) : (decr st c).next = st.next := rfl
@[simp] theorem next_alloc (st : State A) (v : A) : (alloc st v).1.next = st.next + 1 := rfl
@[simp] theorem snd_alloc (st : State A) (v : A) : (alloc st v).2 = st.next := rfl
@[simp] theorem next_write (st : State A) (c : Nat) (f : A → A) : (write st c f).next = st.next := rfl

@[simp] theorem pool_decrO (st : State A) (o : Option Nat) : (decrO st o).pool = st.pool := by
  cases o <;> rfl
@[simp] theorem next_decrO (st : State A) (o : Option Nat) : (decrO st o).next = st.next := by
  cases o <;> rfl
@[simp] theorem pool_incrO (st : State A) (o : Option Nat) : (incrO st o).pool = st.pool := by
  cases o <;> rfl
@[simp] theorem next_incrO (st : State A) (o : Option Nat) : (incrO st o).next = st.next := by
  cases o <;> rfl
@[simp] theorem pool_release (st : State A) (h : Handle) : (release st h).pool = st.pool := by
  simp [release]
@[simp] theorem next_release (st : State A) (h : Handle) : (release st h).next = st.next := by
  simp [release]
@[simp] theorem pool_acquire (st : State A) (h : Handle) : (acquire st h).pool = st.pool := by
  simp [acquire]
@[simp] theorem next_acquire (st : State A) (h : Handle) : (acquire st h).next = st.next := by
  simp [acquire]

theorem rcOf_decrO (st : State A) (o : Option Nat) (x : Nat) :
    rcOf (decrO st o) x = rcOf st x - (if o = some x then 1 else 0) := by
  cases o with
  | none => simp [decrO]
  | some c =>
    simp only [decrO, rcOf_decr, Option.some.injEq]
    by_cases h : x = c
    · subst h; simp
    · have : ¬ c = x := fun e => h e.symm
      simp [h, this]

theorem rcOf_release (st : State A) (h : Handle) (x : Nat) :
    rcOf (release st h) x = rcOf st x - hcnt x (some h) := by
  rw [release, rcOf_decrO, rcOf_decr, hcnt_some]
  by_cases h1 : x = h.norm
  · have : h.norm = x := h1.symm
    simp [h1]; omega
  · have : ¬ h.norm = x := fun e => h1 e.symm
    simp [h1, this]

/-- a cell that is still counted after a `decr` kept its value -/
theorem valOf_decr_live (st : State A) (c x : Nat) (h : rcOf (decr st c) x ≠ 0) :
    valOf (decr st c) x = valOf st x := by
  rw [valOf_decr]
  rw [rcOf_decr] at h
  by_cases hx : x = c
  · subst hx
    have : ¬ rcOf st x ≤ 1 := by simp at h; omega
    simp [this]
  · simp [hx]

theorem valOf_decrO_live (st : State A) (o : Option Nat) (x : Nat) (h : rcOf (decrO st o) x ≠ 0) :
    valOf (decrO st o) x = valOf st x := by
  cases o with
  | none => rfl
  | some c => exact valOf_decr_live st c x h

theorem valOf_release_live (st : State A) (h : Handle) (x : Nat) (hl : rcOf (release st h) x ≠ 0) :
    valOf (release st h) x = valOf st x := by
  unfold release at *
  rw [valOf_decrO_live _ _ _ hl]
  apply valOf_decr_live
  rw [rcOf_decrO] at hl
  omega

/-- values never appear by decrementing -/
theorem valOf_decr_none (st : State A) (c x : Nat) (h : valOf st x = none) :
    valOf (decr st c) x = none := by
  rw [valOf_decr]; split <;> simp [h]

theorem valOf_release_none (st : State A) (h : Handle) (x : Nat) (hv : valOf st x = none) :
    valOf (release st h) x = none := by
  unfold release
  cases hb : h.base with
  | none => exact valOf_decr_none _ _ _ hv
  | some b => exact valOf_decr_none _ _ _ (valOf_decr_none _ _ _ hv)

/-- "no zombie": a cell whose count is 0 does not exist -/
def NoZ (st : State A) : Prop := ∀ c, rcOf st c = 0 → valOf st c = none

theorem NoZ_decr (st : State A) (c : Nat) (h : NoZ st) : NoZ (decr st c) := by
  intro x hx
  rw [valOf_decr]
  rw [rcOf_decr] at hx
  by_cases hxc : x = c
  · subst hxc
    by_cases h1 : rcOf st x ≤ 1
    · simp [h1]
    · simp at hx; omega
  · simp [hxc] at hx
    simp [hxc, h x hx]

theorem NoZ_decrO (st : State A) (o : Option Nat) (h : NoZ st) : NoZ (decrO st o) := by
  cases o with
  | none => exact h
  | some c => exact NoZ_decr st c h

theorem NoZ_release (st : State A) (hd : Handle) (h : NoZ st) : NoZ (release st hd) :=
  NoZ_decrO _ _ (NoZ_decr _ _ h)

/-! ### the invariant, with one wrapper possibly "in flight" (counted, not yet in a slot) -/

/-- `extra` is a wrapper whose pointers are already counted in the store but which is not (yet)
    stored in a client variable: a temporary / the right-hand side of an assignment. -/
structure PInv (st : State A) (extra : Option Handle) : Prop where
  /-- cell ids from `next` on are unused -/
  fresh : ∀ c, st.next ≤ c → valOf st c = none
  /-- an object whose use_count is 0 has been deleted -/
  nozombie : NoZ st
  /-- use_count = number of shared_ptrs that point to the object -/
  count : ∀ c, rcOf st c = cnt c st.pool + hcnt c extra
  /-- `*m_base_ref` (when not null) and `*m_norm_ref` hold the same value -/
  base : ∀ h b, (extra = some h ∨ some h ∈ st.pool) → h.base = some b → valOf st b = valOf st h.norm

/-- the invariant of the store between two client operations -/
abbrev Inv (st : State A) : Prop := PInv st none

theorem hcnt_norm_pos (h : Handle) : 0 < hcnt h.norm (some h) := by
  rw [hcnt_some]; simp; omega

theorem hcnt_base_pos (h : Handle) (b : Nat) (hb : h.base = some b) : 0 < hcnt b (some h) := by
  rw [hcnt_some]; simp [hb]

theorem PInv.live {st : State A} {extra : Option Handle} (hi : PInv st extra) (c : Nat)
    (h : 0 < cnt c st.pool + hcnt c extra) : valOf st c ≠ none ∧ c < st.next := by
  have hc := hi.count c
  have hv : valOf st c ≠ none := by
    intro hn
    have := rcOf_zero_of_valOf_none st c hn
    omega
  refine ⟨hv, ?_⟩
  apply Nat.lt_of_not_le
  intro hle
  exact hv (hi.fresh c hle)

theorem PInv.live_pool {st : State A} {extra : Option Handle} (hi : PInv st extra) (o : Option Handle)
    (ho : o ∈ st.pool) (c : Nat) (hc : 0 < hcnt c o) : valOf st c ≠ none ∧ c < st.next := by
  apply hi.live
  have := hcnt_le_cnt c st.pool o ho
  omega

theorem PInv.live_extra {st : State A} {extra : Option Handle} (hi : PInv st extra) (c : Nat)
    (hc : 0 < hcnt c extra) : valOf st c ≠ none ∧ c < st.next := by
  apply hi.live
  omega

theorem getH_eq_some {st : State A} {d : Nat} {h : Handle} :
    getH st d = some h ↔ st.pool[d]? = some (some h) := by
  unfold getH
  split <;> simp_all

theorem getH_eq_none {st : State A} {d : Nat} :
    getH st d = none ↔ (st.pool[d]? = none ∨ st.pool[d]? = some none) := by
  unfold getH
  split
  · simp_all
  · rename_i h
    cases hp : st.pool[d]? with
    | none => simp
    | some o =>
      cases o with
      | none => simp
      | some x => exact absurd hp (h x)

theorem getH_mem {st : State A} {d : Nat} {h : Handle} (hg : getH st d = some h) :
    some h ∈ st.pool := List.mem_of_getElem? (getH_eq_some.mp hg)

/-! ### `releaseSlot`, `place` -/

@[simp] theorem pool_releaseSlot (st : State A) (d : Nat) : (releaseSlot st d).pool = st.pool := by
  unfold releaseSlot; split <;> simp
@[simp] theorem next_releaseSlot (st : State A) (d : Nat) : (releaseSlot st d).next = st.next := by
  unfold releaseSlot; split <;> simp

theorem releaseSlot_some {st : State A} {d : Nat} {h : Handle} (hp : st.pool[d]? = some (some h)) :
    releaseSlot st d = release st h := by
  unfold releaseSlot; rw [getH_eq_some.mpr hp]

theorem releaseSlot_none {st : State A} {d : Nat} (hp : st.pool[d]? = some none) :
    releaseSlot st d = st := by
  unfold releaseSlot; rw [getH_eq_none.mpr (Or.inr hp)]

theorem rcOf_releaseSlot {st : State A} {d : Nat} {old : Option Handle} (hp : st.pool[d]? = some old)
    (x : Nat) : rcOf (releaseSlot st d) x = rcOf st x - hcnt x old := by
  cases old with
  | none => rw [releaseSlot_none hp, hcnt_none]; rfl
  | some h => rw [releaseSlot_some hp, rcOf_release]

theorem valOf_releaseSlot_live {st : State A} {d : Nat} {old : Option Handle}
    (hp : st.pool[d]? = some old) (x : Nat) (hl : rcOf (releaseSlot st d) x ≠ 0) :
    valOf (releaseSlot st d) x = valOf st x := by
  cases old with
  | none => rw [releaseSlot_none hp]
  | some h => rw [releaseSlot_some hp] at *; exact valOf_release_live st h x hl

theorem valOf_releaseSlot_none {st : State A} {d : Nat} {old : Option Handle}
    (hp : st.pool[d]? = some old) (x : Nat) (hv : valOf st x = none) :
    valOf (releaseSlot st d) x = none := by
  cases old with
  | none => rw [releaseSlot_none hp]; exact hv
  | some h => rw [releaseSlot_some hp]; exact valOf_release_none st h x hv

theorem NoZ_releaseSlot {st : State A} {d : Nat} {old : Option Handle}
    (hp : st.pool[d]? = some old) (hz : NoZ st) : NoZ (releaseSlot st d) := by
  cases old with
  | none => rw [releaseSlot_none hp]; exact hz
  | some h => rw [releaseSlot_some hp]; exact NoZ_release st h hz

/-- the view of a state is determined by the values of the cells its pool points to -/
theorem view_congr {st st' : State A} {pool : List (Option Handle)} (hp : st'.pool = pool)
    (hv : ∀ h, some h ∈ pool → valOf st' h.norm = valOf st h.norm) :
    view st' = pool.map (slotVal st) := by
  unfold view
  rw [hp]
  apply List.map_congr_left
  intro o ho
  cases o with
  | none => rfl
  | some h => exact hv h ho

/-- assignment: the in-flight wrapper lands in slot `d`, the old content is destroyed -/
theorem place_spec {st : State A} {d : Nat} {o : Option Handle} (hi : PInv st o)
    (hd : d < st.pool.length) :
    Inv (place st d o) ∧ view (place st d o) = (view st).set d (slotVal st o) := by
  obtain ⟨old, hold⟩ : ∃ old, st.pool[d]? = some old := ⟨st.pool[d], by simp [hd]⟩
  have hpool : (place st d o).pool = st.pool.set d o := by simp [place]
  have hrc : ∀ x, rcOf (place st d o) x = rcOf st x - hcnt x old := fun x => by
    simp [place, rcOf_releaseSlot hold]
  have hcount : ∀ x, rcOf (place st d o) x = cnt x (st.pool.set d o) + hcnt x none := fun x => by
    have h1 := hrc x
    have h2 := hi.count x
    have h3 := cnt_set x st.pool d old o hold
    rw [hcnt_none]; omega
  -- every cell still referenced keeps its value
  have hkeep : ∀ o', o' ∈ st.pool.set d o → ∀ c, 0 < hcnt c o' →
      valOf (place st d o) c = valOf st c := by
    intro o' ho' c hc
    have h1 := hcnt_le_cnt c _ o' ho'
    have h2 := hcount c
    have : rcOf (releaseSlot st d) c ≠ 0 := by
      have : rcOf (place st d o) c = rcOf (releaseSlot st d) c := rfl
      omega
    exact valOf_releaseSlot_live hold c this
  refine ⟨⟨?_, ?_, ?_, ?_⟩, ?_⟩
  · intro c hc
    exact valOf_releaseSlot_none hold c (hi.fresh c (by simpa [place] using hc))
  · exact NoZ_releaseSlot hold hi.nozombie
  · intro x; rw [hpool]; exact hcount x
  · intro h b hh hb
    have hmem : some h ∈ st.pool.set d o := by
      rcases hh with hh | hh
      · cases hh
      · rwa [hpool] at hh
    rw [hkeep _ hmem b (hcnt_base_pos h b hb), hkeep _ hmem h.norm (hcnt_norm_pos h)]
    apply hi.base h b _ hb
    rcases List.mem_or_eq_of_mem_set hmem with h1 | h1
    · exact Or.inr h1
    · exact Or.inl h1.symm
  · rw [view_congr hpool (st := st)]
    · rw [List.map_set]; rfl
    · intro h hh
      exact hkeep _ hh h.norm (hcnt_norm_pos h)

theorem rcOf_place {st : State A} {d : Nat} {old : Option Handle} (hp : st.pool[d]? = some old)
    (o : Option Handle) (x : Nat) : rcOf (place st d o) x = rcOf st x - hcnt x old := by
  simp [place, rcOf_releaseSlot hp]

theorem valOf_place_live {st : State A} {d : Nat} {old : Option Handle} (hp : st.pool[d]? = some old)
    (o : Option Handle) (x : Nat) (hl : rcOf (place st d o) x ≠ 0) :
    valOf (place st d o) x = valOf st x :=
  valOf_releaseSlot_live hp x hl

theorem length_view (st : State A) : (view st).length = st.pool.length := by simp [view]

theorem set_same {α : Type} (l : List α) (d : Nat) (a : α) (h : l[d]? = some a) : l.set d a = l := by
  apply List.ext_getElem?
  intro i
  rw [List.getElem?_set]
  by_cases hd : d = i
  · subst hd
    have : d < l.length := by
      apply Nat.lt_of_not_le; intro hle
      rw [List.getElem?_eq_none hle] at h; cases h
    rw [h]; simp [this]
  · simp [hd]

theorem view_getElem? (st : State A) (e : Nat) : (view st)[e]? = (st.pool[e]?).map (slotVal st) := by
  simp [view]

/-! ### `alloc`, `acquire`, emptying a slot -/

theorem alloc_spec {st : State A} (hi : Inv st) (v : A) :
    PInv (alloc st v).1 (some ⟨none, st.next⟩) ∧ view (alloc st v).1 = view st ∧
    valOf (alloc st v).1 st.next = some v ∧
    (∀ x, x < st.next → valOf (alloc st v).1 x = valOf st x) := by
  have hnext0 : rcOf st st.next = 0 :=
    rcOf_zero_of_valOf_none st _ (hi.fresh _ (Nat.le_refl _))
  have hold : ∀ x, x < st.next → valOf (alloc st v).1 x = valOf st x := by
    intro x hx
    rw [valOf_alloc]; simp [Nat.ne_of_lt hx]
  have hlive : ∀ h, some h ∈ st.pool → ∀ c, 0 < hcnt c (some h) → c < st.next :=
    fun h hh c hc => (hi.live_pool _ hh c hc).2
  refine ⟨⟨?_, ?_, ?_, ?_⟩, ?_, ?_, hold⟩
  · intro c hc
    simp at hc
    rw [valOf_alloc]
    have : c ≠ st.next := by omega
    simp [this]
    exact hi.fresh c (by omega)
  · intro x hx
    rw [rcOf_alloc] at hx
    rw [valOf_alloc]
    by_cases hxn : x = st.next
    · simp [hxn] at hx
    · simp [hxn] at hx ⊢
      exact hi.nozombie x hx
  · intro x
    rw [rcOf_alloc, hcnt_some]
    have := hi.count x
    rw [hcnt_none] at this
    by_cases hxn : x = st.next
    · subst hxn
      have : cnt st.next st.pool = 0 := by omega
      simp [this]
    · have h2 : ¬ st.next = x := fun e => hxn e.symm
      simp [hxn, h2]; omega
  · intro h b hh hb
    rcases hh with hh | hh
    · cases hh; cases hb
    · simp at hh
      rw [hold _ (hlive h hh b (hcnt_base_pos h b hb)), hold _ (hlive h hh _ (hcnt_norm_pos h))]
      exact hi.base h b (Or.inr hh) hb
  · rw [view_congr (st := st) (pool := st.pool) (by simp)]
    · rfl
    · intro h hh
      exact hold _ (hlive h hh _ (hcnt_norm_pos h))
  · rw [valOf_alloc]; simp

/-- second allocation of `create_base`: the in-flight wrapper `⟨null, c0⟩` becomes `⟨c0, fresh⟩` -/
theorem alloc_spec_base {st : State A} {c0 : Nat} (v : A) (hi : PInv st (some ⟨none, c0⟩))
    (hv : valOf st c0 = some v) :
    PInv (alloc st v).1 (some ⟨some c0, st.next⟩) ∧ view (alloc st v).1 = view st ∧
    valOf (alloc st v).1 st.next = some v := by
  have hnext0 : rcOf st st.next = 0 :=
    rcOf_zero_of_valOf_none st _ (hi.fresh _ (Nat.le_refl _))
  have hold : ∀ x, x < st.next → valOf (alloc st v).1 x = valOf st x := by
    intro x hx
    rw [valOf_alloc]; simp [Nat.ne_of_lt hx]
  have hlive : ∀ h, some h ∈ st.pool → ∀ c, 0 < hcnt c (some h) → c < st.next :=
    fun h hh c hc => (hi.live_pool _ hh c hc).2
  have hc0 : c0 < st.next := (hi.live_extra c0 (hcnt_norm_pos ⟨none, c0⟩)).2
  refine ⟨⟨?_, ?_, ?_, ?_⟩, ?_, ?_⟩
  · intro c hc
    simp at hc
    rw [valOf_alloc]
    have : c ≠ st.next := by omega
    simp [this]
    exact hi.fresh c (by omega)
  · intro x hx
    rw [rcOf_alloc] at hx
    rw [valOf_alloc]
    by_cases hxn : x = st.next
    · simp [hxn] at hx
    · simp [hxn] at hx ⊢
      exact hi.nozombie x hx
  · intro x
    rw [rcOf_alloc, hcnt_some]
    have := hi.count x
    rw [hcnt_some] at this
    by_cases hxn : x = st.next
    · subst hxn
      have : cnt st.next st.pool = 0 := by omega
      have h3 : ¬ c0 = st.next := by omega
      simp [this, h3]
    · have h2 : ¬ st.next = x := fun e => hxn e.symm
      simp [hxn, h2] at this ⊢; omega
  · intro h b hh hb
    rcases hh with hh | hh
    · cases hh; cases hb
      simp only
      rw [hold _ hc0, valOf_alloc, hv]; simp
    · simp at hh
      rw [hold _ (hlive h hh b (hcnt_base_pos h b hb)), hold _ (hlive h hh _ (hcnt_norm_pos h))]
      exact hi.base h b (Or.inr hh) hb
  · rw [view_congr (st := st) (pool := st.pool) (by simp)]
    · rfl
    · intro h hh
      exact hold _ (hlive h hh _ (hcnt_norm_pos h))
  · rw [valOf_alloc]; simp

theorem valOf_incrO (st : State A) (o : Option Nat) (x : Nat) : valOf (incrO st o) x = valOf st x := by
  cases o with
  | none => rfl
  | some c => exact valOf_incr st c x

theorem valOf_acquire (st : State A) (h : Handle) (x : Nat) : valOf (acquire st h) x = valOf st x := by
  rw [acquire, valOf_incrO, valOf_incr]

theorem rcOf_acquire (st : State A) (h : Handle) (x : Nat) (hn : valOf st h.norm ≠ none)
    (hb : ∀ b, h.base = some b → valOf st b ≠ none) :
    rcOf (acquire st h) x = rcOf st x + hcnt x (some h) := by
  rw [acquire, hcnt_some]
  cases hbase : h.base with
  | none =>
    simp only [incrO]
    rw [rcOf_incr _ _ _ hn]
    by_cases h1 : x = h.norm
    · have : h.norm = x := h1.symm
      simp [h1]
    · have : ¬ h.norm = x := fun e => h1 e.symm
      simp [h1, this]
  | some b =>
    simp only [incrO]
    rw [rcOf_incr _ _ _ (by rw [valOf_incr]; exact hb b hbase), rcOf_incr _ _ _ hn]
    have e1 : (x = h.norm) = (h.norm = x) := propext ⟨Eq.symm, Eq.symm⟩
    have e2 : (x = b) = (b = x) := propext ⟨Eq.symm, Eq.symm⟩
    simp [e1, e2]; omega

/-- copy construction of a temporary from the wrapper `h` stored in some variable -/
theorem acquire_spec {st : State A} (hi : Inv st) {h : Handle} (hh : some h ∈ st.pool) :
    PInv (acquire st h) (some h) ∧ view (acquire st h) = view st := by
  have hn := (hi.live_pool _ hh _ (hcnt_norm_pos h)).1
  have hb : ∀ b, h.base = some b → valOf st b ≠ none :=
    fun b hb => (hi.live_pool _ hh _ (hcnt_base_pos h b hb)).1
  refine ⟨⟨?_, ?_, ?_, ?_⟩, ?_⟩
  · intro c hc
    rw [valOf_acquire]; exact hi.fresh c (by simpa using hc)
  · intro x hx
    rw [valOf_acquire]
    rw [rcOf_acquire st h x hn hb] at hx
    exact hi.nozombie x (by omega)
  · intro x
    rw [rcOf_acquire st h x hn hb]
    have := hi.count x
    rw [hcnt_none] at this
    simp; omega
  · intro h' b hh' hb'
    rw [valOf_acquire, valOf_acquire]
    apply hi.base h' b _ hb'
    rcases hh' with hh' | hh'
    · cases hh'; exact Or.inr hh
    · exact Or.inr (by simpa using hh')
  · rw [view_congr (st := st) (pool := st.pool) (by simp)]
    · rfl
    · intro h' _; exact valOf_acquire st h _

/-- moving out of a variable: its wrapper is in flight, the variable is empty -/
theorem moveOut_spec {st : State A} (hi : Inv st) {s : Nat} {h : Handle}
    (hp : st.pool[s]? = some (some h)) :
    PInv (setSlot st s none) (some h) ∧ view (setSlot st s none) = (view st).set s none := by
  have hh : some h ∈ st.pool := List.mem_of_getElem? hp
  refine ⟨⟨?_, ?_, ?_, ?_⟩, ?_⟩
  · intro c hc; exact hi.fresh c hc
  · exact hi.nozombie
  · intro x
    have h1 := hi.count x
    have h2 := cnt_set x st.pool s (some h) none hp
    rw [hcnt_none] at h1 h2
    simp; omega
  · intro h' b hh' hb'
    simp only [valOf_setSlot]
    apply hi.base h' b _ hb'
    rcases hh' with hh' | hh'
    · cases hh'; exact Or.inr hh
    · simp at hh'
      rcases List.mem_or_eq_of_mem_set hh' with h1 | h1
      · exact Or.inr h1
      · cases h1
  · simp only [view, pool_setSlot, List.map_set]
    rfl

/-! ### `detach` and the in-place update -/

theorem cells_of_valOf {st : State A} {c : Nat} {v : A} (h : valOf st c = some v) :
    ∃ x, st.cells c = some x ∧ x.val = v ∧ rcOf st c = x.rc := by
  unfold valOf at h; unfold rcOf
  cases hc : st.cells c with
  | none => simp [hc] at h
  | some x => simp [hc] at h; exact ⟨x, rfl, h, rfl⟩

theorem detach_none {st : State A} {d : Nat} (hg : getH st d = none) : detach st d = none := by
  unfold detach; rw [hg]

/-- `detach()` on a live wrapper: afterwards the variable owns its cell alone (use_count 1, no
    base pointer), and no variable describes anything else than before -/
theorem detach_spec {st : State A} (hi : Inv st) {d : Nat} {h : Handle} (hg : getH st d = some h) :
    ∃ st1 n v, detach st d = some (st1, n) ∧ valOf st h.norm = some v ∧ Inv st1 ∧
      st1.pool[d]? = some (some ⟨none, n⟩) ∧ rcOf st1 n = 1 ∧ valOf st1 n = some v ∧
      view st1 = view st := by
  have hp : st.pool[d]? = some (some h) := getH_eq_some.mp hg
  have hh : some h ∈ st.pool := List.mem_of_getElem? hp
  have hdlt : d < st.pool.length := by
    apply Nat.lt_of_not_le; intro hle
    rw [List.getElem?_eq_none hle] at hp; cases hp
  obtain ⟨v, hv⟩ : ∃ v, valOf st h.norm = some v := by
    have := (hi.live_pool _ hh _ (hcnt_norm_pos h)).1
    cases hvv : valOf st h.norm with
    | none => exact absurd hvv this
    | some v => exact ⟨v, rfl⟩
  obtain ⟨x, hx, hxv, hxrc⟩ := cells_of_valOf hv
  have hviewd : (view st)[d]? = some (some v) := by
    rw [view_getElem?, hp]; simp [slotVal, readNorm, hv]
  by_cases hu : x.rc = 1
  · -- unique: only the base pointer is dropped
    have hdet : detach st d = some (setSlot (decrO st h.base) d (some ⟨none, h.norm⟩), h.norm) := by
      unfold detach; rw [hg]; simp only [hx]; simp [hu]
    have hcnth := hi.count h.norm
    have hle := hcnt_le_cnt h.norm st.pool _ hh
    rw [hcnt_none] at hcnth
    have hbne : h.base ≠ some h.norm := by
      intro hb
      have := hcnt_some h.norm h
      simp [hb] at this
      omega
    have hrc : ∀ y, rcOf (setSlot (decrO st h.base) d (some ⟨none, h.norm⟩)) y
        = cnt y (st.pool.set d (some ⟨none, h.norm⟩)) := by
      intro y
      have h1 := hi.count y
      have h2 := cnt_set y st.pool d (some h) (some ⟨none, h.norm⟩) hp
      rw [hcnt_none] at h1
      rw [hcnt_some, hcnt_some] at h2
      simp only [rcOf_setSlot, rcOf_decrO]
      simp at h2
      omega
    have hkeep : ∀ o', o' ∈ st.pool.set d (some ⟨none, h.norm⟩) → ∀ c, 0 < hcnt c o' →
        valOf (setSlot (decrO st h.base) d (some ⟨none, h.norm⟩)) c = valOf st c := by
      intro o' ho' c hc
      have h1 := hcnt_le_cnt c _ o' ho'
      have h2 := hrc c
      simp only [valOf_setSlot]
      apply valOf_decrO_live
      simp only [rcOf_setSlot] at h2
      omega
    refine ⟨_, _, v, hdet, hv, ⟨?_, ?_, ?_, ?_⟩, ?_, ?_, ?_, ?_⟩
    · intro c hc
      simp only [valOf_setSlot]
      have := hi.fresh c (by simpa using hc)
      cases hb : h.base with
      | none => simpa [decrO] using this
      | some b => simpa [decrO] using valOf_decr_none st b c this
    · intro y hy
      simp only [valOf_setSlot, rcOf_setSlot] at *
      exact NoZ_decrO st h.base hi.nozombie y hy
    · intro y
      rw [hcnt_none]; simp only [pool_setSlot, pool_decrO]
      rw [hrc y]; rfl
    · intro h' b hh' hb'
      have hmem : some h' ∈ st.pool.set d (some ⟨none, h.norm⟩) := by
        rcases hh' with hh' | hh'
        · cases hh'
        · simpa using hh'
      rw [hkeep _ hmem b (hcnt_base_pos h' b hb'), hkeep _ hmem _ (hcnt_norm_pos h')]
      rcases List.mem_or_eq_of_mem_set hmem with h1 | h1
      · exact hi.base h' b (Or.inr h1) hb'
      · cases h1; cases hb'
    · simp [hdlt]
    · have := hrc h.norm
      rw [this]
      have h2 := cnt_set h.norm st.pool d (some h) (some ⟨none, h.norm⟩) hp
      rw [hcnt_some, hcnt_some] at h2
      simp [hbne] at h2
      omega
    · have hmem : (some ⟨none, h.norm⟩ : Option Handle) ∈ st.pool.set d (some ⟨none, h.norm⟩) :=
        List.mem_set hdlt _
      rw [hkeep _ hmem h.norm (hcnt_norm_pos ⟨none, h.norm⟩)]
      exact hv
    · rw [view_congr (st := st) (pool := st.pool.set d (some ⟨none, h.norm⟩)) (by simp)]
      · rw [List.map_set]
        have hsv : slotVal st (some ⟨none, h.norm⟩) = some v := by simp [slotVal, readNorm, hv]
        rw [hsv]
        exact set_same _ _ _ hviewd
      · intro h' hh'
        exact hkeep _ hh' _ (hcnt_norm_pos h')
  · -- shared: clone into a fresh cell, release the old pointers
    have hdet : detach st d = some (place (alloc st x.val).1 d (some ⟨none, st.next⟩), st.next) := by
      unfold detach; rw [hg]; simp only [hx]; simp only [hu, if_false, snd_alloc]
      have : releaseSlot (alloc st x.val).1 d = release (alloc st x.val).1 h :=
        releaseSlot_some (by simpa using hp)
      simp only [place, this]
    obtain ⟨ha, hva, hvn, hold⟩ := alloc_spec hi x.val
    have hdlt' : d < (alloc st x.val).1.pool.length := by simpa using hdlt
    obtain ⟨hinv1, hview1⟩ := place_spec ha hdlt'
    have hp' : (alloc st x.val).1.pool[d]? = some (some h) := by simpa using hp
    have hlt := fun c hc => (hi.live_pool _ hh c hc).2
    have hcz : hcnt st.next (some h) = 0 := by
      cases hz : hcnt st.next (some h) with
      | zero => rfl
      | succ k =>
        have := hlt st.next (by omega)
        omega
    have hrcn : rcOf (place (alloc st x.val).1 d (some ⟨none, st.next⟩)) st.next = 1 := by
      rw [rcOf_place hp', rcOf_alloc, hcz]; simp
    refine ⟨_, _, v, hdet, hv, hinv1, ?_, hrcn, ?_, ?_⟩
    · simp [place, hdlt]
    · rw [valOf_place_live hp' _ _ (by omega), hvn, hxv]
    · rw [hview1, hva]
      apply set_same
      simp only [slotVal, readNorm]
      rw [hvn, hxv]; exact hviewd

/-- in-place update through a variable that owns its cell alone -/
theorem write_spec {st : State A} (hi : Inv st) {d n : Nat}
    (hp : st.pool[d]? = some (some ⟨none, n⟩)) (hrc : rcOf st n = 1) (f : A → A) :
    Inv (write st n f) ∧ view (write st n f) = (view st).set d ((valOf st n).map f) := by
  have hdlt : d < st.pool.length := by
    apply Nat.lt_of_not_le; intro hle
    rw [List.getElem?_eq_none hle] at hp; cases hp
  -- no other variable points to `n`
  have hother : ∀ e o', e ≠ d → st.pool[e]? = some o' → hcnt n o' = 0 := by
    intro e o' hed he
    have h1 := hi.count n
    have h2 := cnt_set n st.pool d (some ⟨none, n⟩) none hp
    rw [hcnt_none] at h1 h2
    have h3 := hcnt_norm_pos ⟨none, n⟩
    have hmem : o' ∈ st.pool.set d none := by
      apply List.mem_of_getElem? (i := e)
      rw [List.getElem?_set, if_neg (fun h : d = e => hed h.symm)]
      exact he
    have := hcnt_le_cnt n _ o' hmem
    simp only at h3
    omega
  have hnot : ∀ h', some h' ∈ st.pool → h' ≠ ⟨none, n⟩ → h'.norm ≠ n ∧ h'.base ≠ some n := by
    intro h' hh' hne
    obtain ⟨e, he⟩ := List.mem_iff_getElem?.mp hh'
    have hed : e ≠ d := by
      intro hed; subst hed
      rw [hp] at he; cases he; exact hne rfl
    have := hother e _ hed he
    rw [hcnt_some] at this
    constructor
    · intro h1; simp [h1] at this
    · intro h1; simp [h1] at this
  refine ⟨⟨?_, ?_, ?_, ?_⟩, ?_⟩
  · intro c hc
    rw [valOf_write]
    have := hi.fresh c (by simpa using hc)
    split
    · rename_i h1; subst h1; simp [this]
    · exact this
  · intro y hy
    rw [rcOf_write] at hy
    rw [valOf_write]
    have := hi.nozombie y hy
    split
    · rename_i h1; subst h1; simp [this]
    · exact this
  · intro y; rw [rcOf_write]; exact hi.count y
  · intro h' b hh' hb'
    rcases hh' with hh' | hh'
    · cases hh'
    · simp only [pool_write] at hh'
      have hne : h' ≠ ⟨none, n⟩ := by
        intro e; rw [e] at hb'; cases hb'
      obtain ⟨h1, h2⟩ := hnot h' hh' hne
      rw [valOf_write, valOf_write]
      have : ¬ b = n := by
        intro e; subst e; exact h2 hb'
      simp [this, h1]
      exact hi.base h' b (Or.inr hh') hb'
  · apply List.ext_getElem?
    intro i
    rw [view_getElem?, List.getElem?_set, length_view, view_getElem?]
    simp only [pool_write]
    by_cases hdi : d = i
    · subst hdi
      rw [hp]
      simp [hdlt, slotVal, readNorm, valOf_write]
    · simp only [hdi, if_false]
      cases hpi : st.pool[i]? with
      | none => rfl
      | some o' =>
        cases o' with
        | none => rfl
        | some h' =>
          have := hother i _ (fun e => hdi e.symm) hpi
          rw [hcnt_some] at this
          have hn : ¬ h'.norm = n := by
            intro h1; simp [h1] at this
          simp [slotVal, readNorm, valOf_write, hn]

/-! ### one operation: the shared store simulates plain values -/

theorem pget_view (st : State A) (e : Nat) : pget (view st) e = observe st e := by
  unfold pget observe getH
  rw [view_getElem?]
  cases hp : st.pool[e]? with
  | none => rfl
  | some o =>
    cases o with
    | none => rfl
    | some h =>
      simp only [Option.map, slotVal]
      cases readNorm st h <;> rfl

theorem observe_live {st : State A} (hi : Inv st) {e : Nat} {h : Handle} (hg : getH st e = some h) :
    ∃ v, observe st e = some v ∧ valOf st h.norm = some v := by
  have := (hi.live_pool _ (getH_mem hg) _ (hcnt_norm_pos h)).1
  unfold observe; rw [hg]
  cases hv : valOf st h.norm with
  | none => exact absurd hv this
  | some v => exact ⟨v, hv, rfl⟩

theorem observe_dead {st : State A} {e : Nat} (hg : getH st e = none) : observe st e = none := by
  unfold observe; rw [hg]

theorem assign_sim {st : State A} {h : Handle} (hi : PInv st (some h)) (d : Nat) {v : A}
    (hv : valOf st h.norm = some v) :
    (assign st d h).map view = passign (view st) d v ∧ ∀ st', assign st d h = some st' → Inv st' := by
  unfold assign passign
  rw [length_view]
  by_cases hd : d < st.pool.length
  · obtain ⟨h1, h2⟩ := place_spec hi hd
    simp only [hd, if_true, Option.map_some]
    refine ⟨?_, ?_⟩
    · rw [h2]; simp [slotVal, readNorm, hv]
    · intro st' hst; cases hst; exact h1
  · simp [hd]

theorem step_sim {st : State A} (hi : Inv st) (op : Op A) :
    (step st op).map view = pstep (view st) op ∧ ∀ st', step st op = some st' → Inv st' := by
  cases op with
  | mk d v =>
    obtain ⟨ha, hva, hvn, _⟩ := alloc_spec hi v
    have := assign_sim ha d (v := v) hvn
    simp only [step, pstep, snd_alloc]
    rw [← hva]; exact this
  | copy d s =>
    simp only [step, pstep, pget_view]
    cases hg : getH st s with
    | none => simp [observe_dead hg]
    | some h =>
      obtain ⟨v, hov, hv⟩ := observe_live hi hg
      obtain ⟨ha, hva⟩ := acquire_spec hi (getH_mem hg)
      have := assign_sim ha d (v := v) (by rw [valOf_acquire]; exact hv)
      simp only [hov]
      rw [← hva]; exact this
  | move d s =>
    simp only [step, pstep, pget_view]
    cases hg : getH st s with
    | none => simp [observe_dead hg]
    | some h =>
      obtain ⟨v, hov, hv⟩ := observe_live hi hg
      simp only [hov]
      by_cases hds : d = s
      · simp only [hds, if_true, Option.map_some, true_and]
        intro st' hst; cases hst; exact hi
      · obtain ⟨ha, hva⟩ := moveOut_spec hi (getH_eq_some.mp hg)
        have := assign_sim ha d (v := v) (by simpa using hv)
        simp only [hds, if_false]
        rw [← hva]; exact this
  | destroy d =>
    simp only [step, pstep, length_view]
    by_cases hd : d < st.pool.length
    · obtain ⟨h1, h2⟩ := place_spec (o := none) hi hd
      simp only [hd, if_true, Option.map_some]
      refine ⟨?_, ?_⟩
      · rw [h2]; rfl
      · intro st' hst; cases hst; exact h1
    · simp [hd]
  | mutate d f =>
    simp only [step, pstep, pget_view]
    cases hg : getH st d with
    | none => simp [observe_dead hg, detach_none hg]
    | some h =>
      obtain ⟨st1, n, v, hdet, hv, hi1, hp1, hrc1, hv1, hview1⟩ := detach_spec hi hg
      obtain ⟨hw1, hw2⟩ := write_spec hi1 hp1 hrc1 f
      have hov : observe st d = some v := by unfold observe; rw [hg]; exact hv
      simp only [hdet, hov, Option.map_some]
      refine ⟨?_, ?_⟩
      · rw [hw2, hview1, hv1]; rfl
      · intro st' hst; cases hst; exact hw1
  | mutate2 d s f =>
    simp only [step, pstep, pget_view]
    cases hg : getH st d with
    | none => simp [observe_dead hg, detach_none hg]
    | some h =>
      obtain ⟨st1, n, v, hdet, hv, hi1, hp1, hrc1, hv1, hview1⟩ := detach_spec hi hg
      have hov : observe st d = some v := by unfold observe; rw [hg]; exact hv
      have hos : observe st s = observe st1 s := by rw [← pget_view, ← pget_view, hview1]
      simp only [hdet, hov, hos]
      cases hgs : getH st1 s with
      | none => simp [observe_dead hgs]
      | some hs =>
        obtain ⟨w, how, hw⟩ := observe_live hi1 hgs
        obtain ⟨hw1, hw2⟩ := write_spec hi1 hp1 hrc1 (fun a => f a w)
        simp only [how, readNorm, hw, Option.map_some]
        refine ⟨?_, ?_⟩
        · rw [hw2, hview1, hv1]; rfl
        · intro st' hst; cases hst; exact hw1
  | query d =>
    simp only [step, pstep, pget_view]
    cases hg : getH st d with
    | none => simp [observe_dead hg]
    | some h =>
      obtain ⟨v, hov, _⟩ := observe_live hi hg
      simp only [hov, Option.map_some, true_and]
      intro st' hst; cases hst; exact hi
  | binary d a b g =>
    simp only [step, pstep, pget_view]
    cases hga : getH st a with
    | none => simp [observe_dead hga]
    | some ha =>
      obtain ⟨va, hoa, hva⟩ := observe_live hi hga
      cases hgb : getH st b with
      | none => simp [observe_dead hgb]
      | some hb =>
        obtain ⟨vb, hob, hvb⟩ := observe_live hi hgb
        obtain ⟨hal, hview, hvn, _⟩ := alloc_spec hi (g va vb)
        have := assign_sim hal d (v := g va vb) hvn
        simp only [hoa, hob, readNorm, hva, hvb, snd_alloc]
        rw [← hview]; exact this
  | binaryBase d a b g =>
    simp only [step, pstep, pget_view]
    cases hga : getH st a with
    | none => simp [observe_dead hga]
    | some ha =>
      obtain ⟨va, hoa, hva⟩ := observe_live hi hga
      cases hgb : getH st b with
      | none => simp [observe_dead hgb]
      | some hb =>
        obtain ⟨vb, hob, hvb⟩ := observe_live hi hgb
        have hrb : readBase st ha = some va := by
          unfold readBase
          cases hbase : ha.base with
          | none => exact hva
          | some bb =>
            simp only
            rw [hi.base ha bb (Or.inr (getH_mem hga)) hbase]; exact hva
        obtain ⟨hal, hview, hvn, _⟩ := alloc_spec hi (g va vb)
        obtain ⟨hal2, hview2, hvn2⟩ := alloc_spec_base (g va vb) hal hvn
        have := assign_sim hal2 d (v := g va vb) hvn2
        simp only [hoa, hob, hrb, readNorm, hvb, snd_alloc]
        rw [← hview, ← hview2]; exact this

/-! ### histories -/

theorem init_inv (n : Nat) : Inv (init n : State A) := by
  refine ⟨?_, ?_, ?_, ?_⟩
  · intro c _; rfl
  · intro c _; rfl
  · intro c
    show 0 = cnt c (List.replicate n none) + hcnt c none
    rw [cnt_replicate_none, hcnt_none]
  · intro h b hh hb
    rcases hh with hh | hh
    · cases hh
    · simp [init] at hh

theorem view_init (n : Nat) : view (init n : State A) = List.replicate n none := by
  simp [view, init, slotVal]

theorem run_sim {st : State A} (hi : Inv st) (ops : List (Op A)) :
    (run st ops).map view = prun (view st) ops ∧ ∀ st', run st ops = some st' → Inv st' := by
  induction ops generalizing st with
  | nil =>
    simp only [run, prun, Option.map_some, true_and]
    intro st' hst; cases hst; exact hi
  | cons op ops ih =>
    obtain ⟨h1, h2⟩ := step_sim hi op
    simp only [run, prun]
    cases hs : step st op with
    | none =>
      rw [hs] at h1
      simp only [Option.map_none] at h1
      rw [← h1]; simp
    | some st' =>
      rw [hs] at h1
      simp only [Option.map_some] at h1
      rw [← h1]
      exact ih (h2 st' hs)

/-! ### plain values: frame lemmas -/

theorem pget_set_ne (p : List (Option A)) (d e : Nat) (x : Option A) (h : e ≠ d) :
    pget (p.set d x) e = pget p e := by
  unfold pget
  rw [List.getElem?_set, if_neg (fun h' : d = e => h h'.symm)]

theorem pget_set_eq (p : List (Option A)) (d : Nat) (x : Option A) (h : d < p.length) :
    pget (p.set d x) d = x := by
  unfold pget
  rw [List.getElem?_set]
  simp only [if_true, h]
  cases x <;> rfl

theorem pget_lt {p : List (Option A)} {d : Nat} {v : A} (h : pget p d = some v) : d < p.length := by
  apply Nat.lt_of_not_le; intro hle
  unfold pget at h
  rw [List.getElem?_eq_none hle] at h; cases h

theorem passign_frame {p p' : List (Option A)} {d : Nat} {v : A} (h : passign p d v = some p')
    (e : Nat) (he : e ≠ d) : pget p' e = pget p e := by
  unfold passign at h
  split at h
  · cases h; exact pget_set_ne p d e _ he
  · cases h

/-- an operation on plain values changes only its target variables -/
theorem pstep_frame {p p' : List (Option A)} {op : Op A} (h : pstep p op = some p') (e : Nat)
    (he : e ∉ op.targets) : pget p' e = pget p e := by
  cases op with
  | mk d v =>
    simp [Op.targets] at he
    exact passign_frame h e he
  | copy d s =>
    simp [Op.targets] at he
    simp only [pstep] at h
    split at h
    · cases h
    · exact passign_frame h e he
  | move d s =>
    simp [Op.targets] at he
    simp only [pstep] at h
    split at h
    · cases h
    · split at h
      · cases h; rfl
      · rw [passign_frame h e he.1, pget_set_ne _ _ _ _ he.2]
  | destroy d =>
    simp [Op.targets] at he
    simp only [pstep] at h
    split at h
    · cases h; exact pget_set_ne p d e _ he
    · cases h
  | mutate d f =>
    simp [Op.targets] at he
    simp only [pstep] at h
    split at h
    · cases h
    · cases h; exact pget_set_ne p d e _ he
  | mutate2 d s f =>
    simp [Op.targets] at he
    simp only [pstep] at h
    split at h
    · cases h; exact pget_set_ne p d e _ he
    · cases h
  | query d =>
    simp only [pstep] at h
    split at h
    · cases h
    · cases h; rfl
  | binary d a b g =>
    simp [Op.targets] at he
    simp only [pstep] at h
    split at h
    · exact passign_frame h e he
    · cases h
  | binaryBase d a b g =>
    simp [Op.targets] at he
    simp only [pstep] at h
    split at h
    · exact passign_frame h e he
    · cases h

end Cow
end Dom
end Crab
