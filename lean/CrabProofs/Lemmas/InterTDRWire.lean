import CrabProofs.Lemmas.InterTDRSpec

/-!
  C09, whole top-down analysis — the call / return transformers `restrict` and `extend` on frames
  (`get_callee_entry`, `get_caller_continuation` applied to a stored or fresh post summary).
-/
namespace Crab.Inter

variable {p : IProg}

/-- `get_caller_continuation` on total states: `σ` caller state at the call, `ρ` gives the formals the
    values at the callee's exit, `σ'` = `σ` with `lhs := outputs`; the summary describes the state that
    agrees with `ρ` on the formals and with `σ'` elsewhere.  (`C09.call_sound` without the projection
    of the exit value, which a stored post summary has already undergone.) -/
theorem extend_sound (D : AbsDom) (ins outs lhs args : List Var) (caller sumOut : D.A) (σ ρ σ' : St)
    (hok : CallOK ins outs lhs args) (hσ : D.γ caller σ)
    (hρ' : D.γ sumOut (fun v => if v ∈ ins ++ outs then ρ v else σ' v))
    (hin : AllPairs (fun f a => ρ f = σ a) ins args)
    (hout : AllPairs (fun l o => σ' l = ρ o) lhs outs)
    (hfr : ∀ v, v ∉ lhs → σ' v = σ v) :
    D.γ (extend D ins outs lhs args caller sumOut) σ' := by
  obtain ⟨hl1, hl2, hnd, hseq, hpos, hlhs⟩ := hok
  let ρ' : St := fun v => if v ∈ ins ++ outs then ρ v else σ' v
  unfold extend
  by_cases hb1 : D.isBot caller = true
  · exact absurd hσ (D.isBot_sound hb1)
  by_cases hb2 : D.isBot sumOut = true
  · exact absurd hρ' (D.isBot_sound hb2)
  simp only [hb1, hb2]
  apply D.meet_sound
  · exact D.forget_sound lhs hσ (fun v hv => hfr v hv)
  · have h2 := wireInputs_sound D args lhs ins args _ _ (unifySeq_sound D lhs outs _ _ hρ')
    apply D.forget_sound _ h2
    intro v hv
    have hP := seqAssign_pairs lhs outs ρ' hnd hseq
    rcases wireInputsSt_spec args lhs ins args (seqAssign ρ' lhs outs) (fun a ha => ha) v with
      h | ⟨f, a, hp, hva, hfa, hal, h⟩
    · rw [h]
      by_cases hvl : v ∈ lhs
      · obtain ⟨o, ho, hq1, hq2⟩ := AllPairs.exists_of_mem (hP.and hout) (Nat.le_of_eq hl2) v hvl
        have hmem : o ∈ ins ++ outs := List.mem_append.mpr (Or.inr ho)
        have : ρ' o = ρ o := by simp only [ρ', hmem, if_true]
        rw [hq2, hq1, this]
      · rw [seqAssign_other lhs outs ρ' v hvl]
        by_cases hio : v ∈ ins ++ outs
        · have hk : v ∈ ins ∧ v ∈ args := by
            have hc : (List.filter (fun f => decide (f ∈ args)) ins ++ lhs).contains v = true := by
              cases hcv : (List.filter (fun f => decide (f ∈ args)) ins ++ lhs).contains v with
              | true => rfl
              | false =>
                exfalso; apply hv
                simp only [calleeLocals, List.mem_filter, hcv, Bool.not_false, and_true]
                exact hio
            rcases List.mem_append.mp (List.contains_iff_mem.mp hc) with h | h
            · have := List.mem_filter.mp h
              exact ⟨this.1, of_decide_eq_true this.2⟩
            · exact absurd h hvl
          obtain ⟨a, _, hq1, hq2⟩ := AllPairs.exists_of_mem (hpos.and hin) (Nat.le_of_eq hl1) v hk.1
          have hav : a = v := hq1 hk.2
          have : ρ' v = ρ v := by simp only [ρ', hio, if_true]
          rw [this, hq2, hav, hfr v hvl]
        · simp only [ρ', hio, if_false]
    · rw [h]
      have hfi : f ∈ ins := hp.mem_left
      have hfl : f ∉ lhs := fun e => hfa (hlhs f hfi e)
      rw [seqAssign_other lhs outs ρ' f hfl]
      have hmem : f ∈ ins ++ outs := List.mem_append.mpr (Or.inl hfi)
      have : ρ' f = ρ f := by simp only [ρ', hmem, if_true]
      rw [this, AllPairs.of_paired hin hp, hva, hfr a hal]

/-- a frame of size `nv` that agrees with the total state `σ` -/
def envOfSt (nv : Nat) (σ : St) : Env := (Array.range nv).map σ

theorem envOfSt_size (nv : Nat) (σ : St) : (envOfSt nv σ).size = nv := by simp [envOfSt]

theorem envOfSt_getD (nv : Nat) (σ : St) (v : Nat) (h : v < nv) : (envOfSt nv σ).getD v 0 = σ v := by
  simp [envOfSt, Array.getD_eq_getD_getElem?, h]

theorem Ext_envOfSt (nv : Nat) (σ : St) : Ext (envOfSt nv σ) σ := by
  intro v hv
  rw [envOfSt_size] at hv
  exact (envOfSt_getD nv σ v hv).symm

theorem CallOK.of_bool {ins outs lhs args : List Var} (h : callOKb ins outs lhs args = true) :
    CallOK ins outs lhs args := by
  simp only [callOKb, Bool.and_eq_true, decide_eq_true_eq, List.all_eq_true, List.mem_range,
    Bool.or_eq_true, Bool.not_eq_true', List.contains_eq_mem, decide_eq_false_iff_not, beq_iff_eq] at h
  obtain ⟨⟨⟨⟨⟨h1, h2⟩, h3⟩, h4⟩, h5⟩, h6⟩ := h
  refine ⟨h1, h2, h3, SeqOK.of_bool h4, ?_, ?_⟩
  · -- positional
    have key : ∀ (i : Nat) (xs ys : List Var), (∀ j, j < xs.length → xs.getD j 0 ∈ args → ys.getD j 0 = xs.getD j 0) →
        AllPairs (fun f a => f ∈ args → a = f) xs ys := by
      intro _ xs
      induction xs with
      | nil => intro ys _; cases ys <;> trivial
      | cons x xs ih =>
        intro ys hh
        cases ys with
        | nil => trivial
        | cons y ys =>
          refine ⟨fun hx => ?_, ih ys (fun j hj hm => ?_)⟩
          · have := hh 0 (by simp) (by simpa [List.getD] using hx)
            simpa [List.getD] using this
          · have := hh (j + 1) (by simpa using hj) (by simpa [List.getD] using hm)
            simpa [List.getD] using this
    apply key 0
    intro j hj hm
    rcases h5 j hj with h | h
    · exact absurd hm h
    · exact h
  · intro f hf hl
    rcases h6 f hf with h | h
    · exact absurd hl h
    · exact h

/-- `get_callee_entry`: the value computed for the callee describes every frame the call creates -/
theorem restrict_entryIn (D : IDom) (h : Nat) (args : List Var) (caller : D.A) (env : Env)
    (hF : FunOK p (p.fn h)) (hseq : SeqOK (p.fn h).ins args) (hlen : (p.fn h).ins.length = args.length)
    (hc : EnvIn D.toAbsDom caller env) :
    EntryIn D p h (restrict D.toAbsDom (p.fn h).ins args caller D.top) (args.map (fun a => env.getD a 0)) := by
  intro env' hsz' hm τ hτ
  have hσ := hc (toSt env) (Ext_toSt env)
  unfold restrict
  by_cases hb : D.isBot caller = true
  · exact absurd hσ (D.isBot_sound hb)
  · simp only [hb]
    apply D.project_sound _ (D.meet_sound (D.top_sound _) (unifySeq_sound D.toAbsDom _ args caller _ hσ))
    intro v hv
    have hm' : MatchVals (p.fn h).ins (args.map (toSt env)) τ :=
      MatchVals.congr (fun x hx => hτ x (by rw [hsz']; exact hF.ins_lt x hx)) hm
    have hp : AllPairs (fun f a => τ f = toSt env a) (p.fn h).ins args :=
      AllPairs.of_match_map hm' (fun _ _ => rfl)
    obtain ⟨a, _, q1, q2⟩ := AllPairs.exists_of_mem
      ((seqAssign_pairs _ args (toSt env) hF.ins_nodup hseq).and hp) (Nat.le_of_eq hlen) v hv
    rw [q1, q2]

/-- `get_caller_continuation` with a post summary that describes the call -/
theorem extend_envIn (D : IDom) (h : Nat) (lhs args : List Var) (caller post : D.A) (env : Env) (ov : List Int)
    (hF : FunOK p (p.fn h)) (hok : CallOK (p.fn h).ins (p.fn h).outs lhs args) (hsz : env.size = p.nv)
    (hlhs : ∀ v : Nat, v ∈ lhs → v < p.nv) (hargs : ∀ v : Nat, v ∈ args → v < p.nv)
    (hov : ov.length = (p.fn h).outs.length)
    (hc : EnvIn D.toAbsDom caller env)
    (hx : ExitIn D p h post (args.map (fun a => env.getD a 0)) ov) :
    EnvIn D.toAbsDom (extend D.toAbsDom (p.fn h).ins (p.fn h).outs lhs args caller post) (setMany env lhs ov) := by
  intro σ' hext
  have hσext := Ext_resetOn hext
  let iv := args.map (fun a => env.getD a 0)
  -- a state that gives the formals the values of the call
  let envh : Env := setMany (setMany (envOfSt p.nv σ') (p.fn h).ins iv) (p.fn h).outs ov
  have hsz1 : (setMany (envOfSt p.nv σ') (p.fn h).ins iv).size = p.nv := by
    rw [setMany_size, envOfSt_size]
  have hmo : MatchVals (p.fn h).outs ov (toSt envh) :=
    setMany_match _ _ _ hF.outs_nodup (fun x hx => by rw [hsz1]; exact hF.outs_lt x hx)
  have hmi : MatchVals (p.fn h).ins iv (toSt envh) := by
    have := setMany_match (p.fn h).ins iv (envOfSt p.nv σ') hF.ins_nodup
      (fun x hx => by rw [envOfSt_size]; exact hF.ins_lt x hx)
    refine MatchVals.of_getD_eq ?_ this
    intro x hx
    exact setMany_other _ _ _ _ (hF.disj x hx)
  -- the summary describes the mixed state
  have hρ' : D.γ post (fun v => if v ∈ (p.fn h).ins ++ (p.fn h).outs then toSt envh v else σ' v) := by
    apply hx (envOfSt p.nv _) (envOfSt_size _ _) _ _ _ (Ext_envOfSt _ _)
    · refine MatchVals.congr ?_ hmi
      intro x hx
      show (envOfSt p.nv _).getD x 0 = _
      rw [envOfSt_getD _ _ _ (hF.ins_lt x hx), if_pos (List.mem_append.mpr (Or.inl hx))]
    · refine MatchVals.congr ?_ hmo
      intro x hx
      show (envOfSt p.nv _).getD x 0 = _
      rw [envOfSt_getD _ _ _ (hF.outs_lt x hx), if_pos (List.mem_append.mpr (Or.inr hx))]
  obtain ⟨hl1, hl2, hnd, _⟩ := id hok
  apply extend_sound D.toAbsDom _ _ lhs args caller post (resetOn lhs env σ') (toSt envh) σ' hok
    (hc _ hσext) hρ'
  · apply AllPairs.of_match_map hmi
    intro y hy
    exact hσext y (by rw [hsz]; exact hargs y hy)
  · have hm : MatchVals lhs ov σ' := by
      have := setMany_match lhs ov env hnd (fun x hx => by rw [hsz]; exact hlhs x hx)
      refine MatchVals.congr ?_ this
      intro x hx
      exact hext x (by rw [setMany_size, hsz]; exact hlhs x hx)
    exact AllPairs.of_two_matches (by omega) hm hmo
  · intro v hv
    simp [resetOn, hv]

end Crab.Inter
