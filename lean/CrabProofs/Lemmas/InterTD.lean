import CrabProofs.Lemmas.InterBU

/-!
  Phase 2 of C10, the part about the order: what the fold `tdRun` guarantees about the entry
  value every function was analysed with (`TDState.entry`) — it contains `top` for recursive
  components and for functions without summary, and it contains every context stored by a
  function analysed earlier (induction over the top-down order).
-/
namespace Crab.Inter
open Crab.Fix

/-- inclusion of concretisations -/
def SubG (D : IDom) (a b : D.A) : Prop := ∀ σ, D.γ a σ → D.γ b σ

theorem SubG.refl (D : IDom) (a : D.A) : SubG D a a := fun _ h => h
theorem SubG.trans {D : IDom} {a b c : D.A} (h1 : SubG D a b) (h2 : SubG D b c) : SubG D a c :=
  fun σ h => h2 σ (h1 σ h)

/-- the contexts stored for functions without summary are `top` -/
def NoSumTop {BU TD : IDom} (T : SumTable BU) (C : Nat → Option TD.A) : Prop :=
  ∀ h a, C h = some a → T h = none → ∀ σ, TD.γ a σ

section CtxTable
variable (D : IDom)

theorem ctxJoin_mono (C : Nat → Option D.A) (g : Nat) (v : D.A) {h : Nat} {a : D.A} (ha : C h = some a) :
    ∃ a', ctxJoin D C g v h = some a' ∧ SubG D a a' := by
  unfold ctxJoin
  by_cases hg : h = g
  · subst hg
    simp only [if_true, ha]
    exact ⟨_, rfl, fun σ hσ => D.join_left hσ⟩
  · simp only [hg, if_false]
    exact ⟨a, ha, SubG.refl D a⟩

theorem ctxJoin_ins (C : Nat → Option D.A) (g : Nat) (v : D.A) :
    ∃ a', ctxJoin D C g v g = some a' ∧ SubG D v a' := by
  unfold ctxJoin
  simp only [if_true]
  cases C g with
  | none => exact ⟨v, rfl, SubG.refl D v⟩
  | some x => exact ⟨_, rfl, fun σ hσ => D.join_right hσ⟩

theorem ctxJoin_other (C : Nat → Option D.A) (g : Nat) (v : D.A) {h : Nat} (hg : h ≠ g) :
    ctxJoin D C g v h = C h := by
  simp [ctxJoin, hg]

theorem ctxJoinAll_mono : ∀ (l : List (Nat × D.A)) (C : Nat → Option D.A) {h : Nat} {a : D.A},
    C h = some a → ∃ a', ctxJoinAll D C l h = some a' ∧ SubG D a a'
  | [], C, h, a, ha => ⟨a, ha, SubG.refl D a⟩
  | (g, v) :: rest, C, h, a, ha => by
    obtain ⟨a1, h1, s1⟩ := ctxJoin_mono D C g v ha
    obtain ⟨a2, h2, s2⟩ := ctxJoinAll_mono rest (ctxJoin D C g v) h1
    exact ⟨a2, h2, s1.trans s2⟩

theorem ctxJoinAll_ins : ∀ (l : List (Nat × D.A)) (C : Nat → Option D.A) {h : Nat} {v : D.A},
    (h, v) ∈ l → ∃ a', ctxJoinAll D C l h = some a' ∧ SubG D v a'
  | [], _, _, _, hm => nomatch hm
  | (g, w) :: rest, C, h, v, hm => by
    rcases List.mem_cons.mp hm with he | hm'
    · cases he
      obtain ⟨a1, h1, s1⟩ := ctxJoin_ins D C g w
      obtain ⟨a2, h2, s2⟩ := ctxJoinAll_mono D rest (ctxJoin D C g w) h1
      exact ⟨a2, h2, s1.trans s2⟩
    · exact ctxJoinAll_ins rest (ctxJoin D C g w) hm'

end CtxTable

theorem NoSumTop.join {BU TD : IDom} {T : SumTable BU} {C : Nat → Option TD.A} (hC : NoSumTop T C)
    (g : Nat) (v : TD.A) (hv : T g = none → ∀ σ, TD.γ v σ) : NoSumTop T (ctxJoin TD C g v) := by
  intro h a ha hT σ
  by_cases hg : h = g
  · subst hg
    unfold ctxJoin at ha
    simp only [if_true] at ha
    cases hc : C h with
    | none => rw [hc] at ha; cases ha; exact hv hT σ
    | some x => rw [hc] at ha; cases ha; exact TD.join_right (hv hT σ)
  · rw [ctxJoin_other TD C g v hg] at ha
    exact hC h a ha hT σ

theorem NoSumTop.joinAll {BU TD : IDom} {T : SumTable BU} :
    ∀ (l : List (Nat × TD.A)) {C : Nat → Option TD.A}, NoSumTop T C →
      (∀ hc, hc ∈ l → T hc.1 ≠ none) → NoSumTop T (ctxJoinAll TD C l)
  | [], _, hC, _ => hC
  | (g, v) :: rest, _, hC, hl =>
    NoSumTop.joinAll rest (hC.join g v (fun hn => absurd hn (hl (g, v) (List.mem_cons_self ..))))
      (fun hc hm => hl hc (List.mem_cons_of_mem _ hm))

section TDRun
variable (BU TD : IDom) (cv : Conv BU TD) (p : IProg) (cfg : FixCfg) (T : SumTable BU) (init : TD.A)
  (extra : Nat → List (Nat × TD.A))

/-- the contexts joined into the table when `g` has been analysed with the final tables `st` -/
def storedCtxs (g : Nat) (st : Fix.St TD.A) : List (Nat × TD.A) :=
  (extra g).filter (fun hc => (T hc.1).isSome) ++
    funCtxs TD (tdCall BU TD cv p.nv T) T (p.fn g) st.pre

/-- the table the entry of `g` is read from -/
def ctxsAt (s : TDState TD) (gr : Nat × Bool) : Nat → Option TD.A :=
  if gr.2 then ctxJoin TD s.ctxs gr.1 TD.top else s.ctxs

def entryAt (s : TDState TD) (gr : Nat × Bool) : TD.A :=
  if s.isRoot then init else (ctxsAt TD s gr gr.1).getD TD.top

theorem tdStep_spec {s s1 : TDState TD} {gr : Nat × Bool}
    (h : tdStep BU TD cv p cfg T init extra s gr = some s1) :
    ∃ st, solve TD cfg gr.1 (p.fn gr.1) (tdCall BU TD cv p.nv T) (entryAt TD init s gr) = some st ∧
      s1 = { ctxs := ctxJoinAll TD (ctxsAt TD s gr) (storedCtxs BU TD cv p T extra gr.1 st),
             invs := optInsert s.invs gr.1 st, entry := optInsert s.entry gr.1 (entryAt TD init s gr),
             isRoot := false } := by
  unfold tdStep at h
  simp only at h
  cases hs : solve TD cfg gr.1 (p.fn gr.1) (tdCall BU TD cv p.nv T) (entryAt TD init s gr) with
  | none =>
    unfold entryAt ctxsAt at hs
    rw [hs] at h; cases h
  | some st =>
    refine ⟨st, rfl, ?_⟩
    unfold entryAt ctxsAt at hs
    rw [hs] at h
    simp only [Option.some.injEq] at h
    exact h.symm

theorem stored_has_summary (g : Nat) (st : Fix.St TD.A) :
    ∀ hc, hc ∈ storedCtxs BU TD cv p T extra g st → T hc.1 ≠ none := by
  intro hc hm
  unfold storedCtxs at hm
  rcases List.mem_append.mp hm with h | h
  · have := (List.mem_filter.mp h).2
    intro hn; rw [hn] at this; cases this
  · unfold funCtxs at h
    obtain ⟨b, _, hb⟩ := List.mem_flatMap.mp h
    generalize (p.fn g).blk b = blk at hb
    generalize st.pre b = a at hb
    generalize blk.stmts.toList = ss at hb
    induction ss generalizing a with
    | nil => nomatch hb
    | cons s ss ih =>
      simp only [blockCtxs] at hb
      rcases List.mem_append.mp hb with h1 | h1
      · cases s with
        | call c l r =>
          simp only at h1
          cases hT : T c with
          | none => rw [hT] at h1; nomatch h1
          | some sm =>
            rw [hT] at h1
            have : hc = (c, tdCalleeCtx TD sm r a) := by simpa using h1
            rw [this]; simp [hT]
        | assign _ _ => nomatch h1
        | bin _ _ _ _ => nomatch h1
        | havoc _ => nomatch h1
        | assume _ => nomatch h1
        | assert _ _ => nomatch h1
      · exact ih _ h1

theorem ctxsAt_mono (s : TDState TD) (gr : Nat × Bool) {h : Nat} {a : TD.A} (ha : s.ctxs h = some a) :
    ∃ a', ctxsAt TD s gr h = some a' ∧ SubG TD a a' := by
  unfold ctxsAt
  by_cases hr : gr.2 = true
  · simp only [hr, if_true]; exact ctxJoin_mono TD s.ctxs gr.1 TD.top ha
  · simp only [hr]; exact ⟨a, ha, SubG.refl TD a⟩

theorem ctxsAt_noSumTop (s : TDState TD) (gr : Nat × Bool) (h : NoSumTop T s.ctxs) :
    NoSumTop T (ctxsAt TD s gr) := by
  unfold ctxsAt
  by_cases hr : gr.2 = true
  · simp only [hr, if_true]; exact h.join gr.1 TD.top (fun _ σ => TD.top_sound σ)
  · simp only [hr]; exact h

/-- what the entry value of a non-root function contains -/
theorem entryAt_facts (s : TDState TD) (gr : Nat × Bool) (hroot : s.isRoot = false) :
    (∀ a, s.ctxs gr.1 = some a → SubG TD a (entryAt TD init s gr)) ∧
    (gr.2 = true → SubG TD TD.top (entryAt TD init s gr)) ∧
    (NoSumTop T s.ctxs → T gr.1 = none → SubG TD TD.top (entryAt TD init s gr)) := by
  unfold entryAt
  simp only [hroot, Bool.false_eq_true, if_false]
  refine ⟨?_, ?_, ?_⟩
  · intro a ha
    obtain ⟨a', h1, h2⟩ := ctxsAt_mono TD s gr ha
    rw [h1]; exact h2
  · intro hr
    unfold ctxsAt
    simp only [hr, if_true]
    obtain ⟨a', h1, h2⟩ := ctxJoin_ins TD s.ctxs gr.1 TD.top
    rw [h1]; exact h2
  · intro hn hT
    cases hc : ctxsAt TD s gr gr.1 with
    | none => exact SubG.refl TD _
    | some a => exact fun σ _ => ctxsAt_noSumTop BU TD T s gr hn gr.1 a hc hT σ

structure StepFacts (s s1 : TDState TD) (gr : Nat × Bool) (st : Fix.St TD.A) : Prop where
  solved : solve TD cfg gr.1 (p.fn gr.1) (tdCall BU TD cv p.nv T) (entryAt TD init s gr) = some st
  notRoot : s1.isRoot = false
  mono : ∀ h a, s.ctxs h = some a → ∃ a', s1.ctxs h = some a' ∧ SubG TD a a'
  noSum : NoSumTop T s.ctxs → NoSumTop T s1.ctxs
  stored : ∀ h c, (h, c) ∈ funCtxs TD (tdCall BU TD cv p.nv T) T (p.fn gr.1) st.pre →
    ∃ a', s1.ctxs h = some a' ∧ SubG TD c a'
  entry_eq : s1.entry = optInsert s.entry gr.1 (entryAt TD init s gr)
  invs_eq : s1.invs = optInsert s.invs gr.1 st

theorem tdStep_facts {s s1 : TDState TD} {gr : Nat × Bool}
    (h : tdStep BU TD cv p cfg T init extra s gr = some s1) :
    ∃ st, StepFacts BU TD cv p cfg T init s s1 gr st := by
  obtain ⟨st, hs, rfl⟩ := tdStep_spec BU TD cv p cfg T init extra h
  refine ⟨st, hs, rfl, ?_, ?_, ?_, rfl, rfl⟩
  · intro h a ha
    obtain ⟨a1, h1, s1⟩ := ctxsAt_mono TD s gr ha
    obtain ⟨a2, h2, s2⟩ := ctxJoinAll_mono TD _ _ h1
    exact ⟨a2, h2, s1.trans s2⟩
  · intro hn
    exact NoSumTop.joinAll _ (ctxsAt_noSumTop BU TD T s gr hn) (stored_has_summary BU TD cv p T extra gr.1 st)
  · intro h c hc
    exact ctxJoinAll_ins TD _ _ (List.mem_append.mpr (Or.inr hc))

theorem optInsert_other {α : Type} (T : Nat → Option α) (g : Nat) (v : α) {x : Nat} (h : x ≠ g) :
    optInsert T g v x = T x := by simp [optInsert, h]

theorem optInsert_new {α : Type} (T : Nat → Option α) (g : Nat) (v : α) (h : T g = none) :
    optInsert T g v g = some v := by simp [optInsert, h]

theorem tdRun_keep : ∀ (l : List (Nat × Bool)) (s R : TDState TD),
    tdRun BU TD cv p cfg T init extra l s = some R →
    (∀ x e, s.entry x = some e → R.entry x = some e) ∧ (∀ x st, s.invs x = some st → R.invs x = some st) ∧
    (∀ h a, s.ctxs h = some a → ∃ a', R.ctxs h = some a' ∧ SubG TD a a') ∧
    (∀ x, x ∉ l.map (·.1) → R.entry x = s.entry x ∧ R.invs x = s.invs x)
  | [], s, R, h => by
    simp only [tdRun, Option.some.injEq] at h
    subst h
    exact ⟨fun _ _ h => h, fun _ _ h => h, fun _ a h => ⟨a, h, SubG.refl TD a⟩, fun _ _ => ⟨rfl, rfl⟩⟩
  | gr :: l, s, R, h => by
    simp only [tdRun] at h
    cases hs : tdStep BU TD cv p cfg T init extra s gr with
    | none => rw [hs] at h; cases h
    | some s1 =>
      rw [hs] at h
      obtain ⟨st, hf⟩ := tdStep_facts BU TD cv p cfg T init extra hs
      obtain ⟨k1, k2, k3, k4⟩ := tdRun_keep l s1 R h
      refine ⟨?_, ?_, ?_, ?_⟩
      · intro x e hx
        exact k1 x e (by rw [hf.entry_eq]; exact optInsert_keep _ _ _ hx)
      · intro x st' hx
        exact k2 x st' (by rw [hf.invs_eq]; exact optInsert_keep _ _ _ hx)
      · intro h' a ha
        obtain ⟨a1, h1, s1'⟩ := hf.mono h' a ha
        obtain ⟨a2, h2, s2⟩ := k3 h' a1 h1
        exact ⟨a2, h2, s1'.trans s2⟩
      · intro x hx
        have hx1 : x ≠ gr.1 := fun e => hx (by simp [e])
        have hx2 : x ∉ l.map (·.1) := fun e => hx (by simp only [List.map_cons, List.mem_cons]; exact Or.inr e)
        obtain ⟨e1, e2⟩ := k4 x hx2
        rw [e1, e2, hf.entry_eq, hf.invs_eq, optInsert_other _ _ _ hx1, optInsert_other _ _ _ hx1]
        exact ⟨rfl, rfl⟩

/-- the entry value of the functions analysed by a run that does not start at the root -/
theorem tdRun_entry : ∀ (l : List (Nat × Bool)) (s R : TDState TD),
    tdRun BU TD cv p cfg T init extra l s = some R → s.isRoot = false → (l.map (·.1)).Nodup →
    (∀ x, x ∈ l.map (·.1) → s.entry x = none ∧ s.invs x = none) →
    ∀ gr, gr ∈ l → ∃ e st, R.entry gr.1 = some e ∧ R.invs gr.1 = some st ∧
      solve TD cfg gr.1 (p.fn gr.1) (tdCall BU TD cv p.nv T) e = some st ∧
      (∀ a, s.ctxs gr.1 = some a → SubG TD a e) ∧ (gr.2 = true → SubG TD TD.top e) ∧
      (NoSumTop T s.ctxs → T gr.1 = none → SubG TD TD.top e)
  | [], _, _, _, _, _, _, gr, hm => nomatch hm
  | gr0 :: l, s, R, h, hroot, hnd, hnone, gr, hm => by
    simp only [tdRun] at h
    cases hs : tdStep BU TD cv p cfg T init extra s gr0 with
    | none => rw [hs] at h; cases h
    | some s1 =>
      rw [hs] at h
      obtain ⟨st, hf⟩ := tdStep_facts BU TD cv p cfg T init extra hs
      obtain ⟨k1, k2, _, _⟩ := tdRun_keep BU TD cv p cfg T init extra l s1 R h
      have hnd' : (l.map (·.1)).Nodup := (List.nodup_cons.mp (by simpa using hnd)).2
      have hnotin : gr0.1 ∉ l.map (·.1) := (List.nodup_cons.mp (by simpa using hnd)).1
      have hn0 := hnone gr0.1 (by simp)
      rcases List.mem_cons.mp hm with rfl | hm'
      · obtain ⟨f1, f2, f3⟩ := entryAt_facts BU TD T init s gr hroot
        refine ⟨entryAt TD init s gr, st, ?_, ?_, hf.solved, f1, f2, f3⟩
        · exact k1 _ _ (by rw [hf.entry_eq]; exact optInsert_new _ _ _ hn0.1)
        · exact k2 _ _ (by rw [hf.invs_eq]; exact optInsert_new _ _ _ hn0.2)
      · have hne : ∀ x, x ∈ l.map (·.1) → s1.entry x = none ∧ s1.invs x = none := by
          intro x hx
          have hx0 : x ≠ gr0.1 := fun e => hnotin (e ▸ hx)
          have := hnone x (by simp only [List.map_cons, List.mem_cons]; exact Or.inr hx)
          rw [hf.entry_eq, hf.invs_eq, optInsert_other _ _ _ hx0, optInsert_other _ _ _ hx0]
          exact this
        obtain ⟨e, st', h1, h2, h3, h4, h5, h6⟩ := tdRun_entry l s1 R h hf.notRoot hnd' hne gr hm'
        refine ⟨e, st', h1, h2, h3, ?_, h5, fun hn => h6 (hf.noSum hn)⟩
        intro a ha
        obtain ⟨a', ha', hs'⟩ := hf.mono gr.1 a ha
        exact hs'.trans (h4 a' ha')

/-- a function analysed earlier has stored its contexts before the entry of a later one is read -/
theorem tdRun_before : ∀ (l : List (Nat × Bool)) (s R : TDState TD),
    tdRun BU TD cv p cfg T init extra l s = some R → (l.map (·.1)).Nodup →
    (∀ x, x ∈ l.map (·.1) → s.entry x = none ∧ s.invs x = none) →
    ∀ g h, (l.map (·.1)).idxOf g < (l.map (·.1)).idxOf h → h ∈ l.map (·.1) →
    ∀ stg eh, R.invs g = some stg → R.entry h = some eh →
    ∀ c, (h, c) ∈ funCtxs TD (tdCall BU TD cv p.nv T) T (p.fn g) stg.pre → SubG TD c eh
  | [], _, _, _, _, _, _, _, _, hh, _, _, _, _, _, _ => nomatch hh
  | gr0 :: l, s, R, hr, hnd, hnone, g, h, hidx, hh, stg, eh, hstg, heh, c, hc => by
    simp only [tdRun] at hr
    cases hs : tdStep BU TD cv p cfg T init extra s gr0 with
    | none => rw [hs] at hr; cases hr
    | some s1 =>
      rw [hs] at hr
      obtain ⟨st, hf⟩ := tdStep_facts BU TD cv p cfg T init extra hs
      obtain ⟨_, k2, _, _⟩ := tdRun_keep BU TD cv p cfg T init extra l s1 R hr
      have hnd' : (l.map (·.1)).Nodup := (List.nodup_cons.mp (by simpa using hnd)).2
      have hnotin : gr0.1 ∉ l.map (·.1) := (List.nodup_cons.mp (by simpa using hnd)).1
      have hn0 := hnone gr0.1 (by simp)
      have hne : ∀ x, x ∈ l.map (·.1) → s1.entry x = none ∧ s1.invs x = none := by
        intro x hx
        have hx0 : x ≠ gr0.1 := fun e => hnotin (e ▸ hx)
        have := hnone x (by simp only [List.map_cons, List.mem_cons]; exact Or.inr hx)
        rw [hf.entry_eq, hf.invs_eq, optInsert_other _ _ _ hx0, optInsert_other _ _ _ hx0]
        exact this
      simp only [List.map_cons, List.idxOf_cons] at hidx
      have hh0 : h ≠ gr0.1 := by
        intro e
        simp [e] at hidx
      have hhl : h ∈ l.map (·.1) := by
        simp only [List.map_cons, List.mem_cons] at hh
        exact hh.resolve_left hh0
      by_cases hg : g = gr0.1
      · -- `g` is the function analysed now
        have hst : R.invs g = some st := k2 _ _ (by rw [hf.invs_eq, hg]; exact optInsert_new _ _ _ hn0.2)
        rw [hstg] at hst
        cases hst
        rw [hg] at hc
        obtain ⟨a', ha', hsub⟩ := hf.stored h c hc
        obtain ⟨gr, hgr, rfl⟩ := List.mem_map.mp hhl
        obtain ⟨e, _, h1, _, _, h4, _, _⟩ :=
          tdRun_entry BU TD cv p cfg T init extra l s1 R hr hf.notRoot hnd' hne gr hgr
        rw [heh] at h1
        cases h1
        exact hsub.trans (h4 a' ha')
      · have hg' : (gr0.1 == g) = false := by simpa using (fun e => hg e.symm)
        have hh' : (gr0.1 == h) = false := by simpa using (fun e => hh0 e.symm)
        simp only [hg', hh'] at hidx
        exact tdRun_before l s1 R hr hnd' hne g h (by simpa using hidx) hhl stg eh hstg heh c hc

/-- what phase 2 guarantees about the entry values (`l` = the functions in top-down order) -/
structure TDFacts (l : List (Nat × Bool)) (R : TDState TD) : Prop where
  cov : ∀ g st, R.invs g = some st → g ∈ l.map (·.1) ∧
    ∃ e, R.entry g = some e ∧ solve TD cfg g (p.fn g) (tdCall BU TD cv p.nv T) e = some st
  covAll : ∀ g, g ∈ l.map (·.1) → ∃ st, R.invs g = some st
  entryCov : ∀ g e, R.entry g = some e → g ∈ l.map (·.1)
  root : ∀ gr rest, l = gr :: rest → R.entry gr.1 = some init
  top : ∀ gr, gr ∈ l → (∀ gr0 rest, l = gr0 :: rest → gr.1 ≠ gr0.1) → ∀ e, R.entry gr.1 = some e →
    (gr.2 = true ∨ T gr.1 = none) → SubG TD TD.top e
  before : ∀ g h, (l.map (·.1)).idxOf g < (l.map (·.1)).idxOf h → h ∈ l.map (·.1) →
    ∀ stg eh, R.invs g = some stg → R.entry h = some eh →
    ∀ c, (h, c) ∈ funCtxs TD (tdCall BU TD cv p.nv T) T (p.fn g) stg.pre → SubG TD c eh

theorem tdRun_facts (l : List (Nat × Bool)) (R : TDState TD)
    (h : tdRun BU TD cv p cfg T init extra l (TDState.empty TD) = some R) (hnd : (l.map (·.1)).Nodup) :
    TDFacts BU TD cv p cfg T init l R := by
  have hempty : ∀ x, x ∈ l.map (·.1) → (TDState.empty TD).entry x = none ∧ (TDState.empty TD).invs x = none :=
    fun _ _ => ⟨rfl, rfl⟩
  have hbefore := tdRun_before BU TD cv p cfg T init extra l _ R h hnd hempty
  obtain ⟨_, _, _, kout⟩ := tdRun_keep BU TD cv p cfg T init extra l _ R h
  cases l with
  | nil =>
    simp only [tdRun, Option.some.injEq] at h
    subst h
    exact ⟨(fun _ _ h => nomatch h), (fun _ h => nomatch h), (fun _ _ h => nomatch h), (fun _ _ h => nomatch h), (fun _ h => nomatch h), hbefore⟩
  | cons gr0 l2 =>
    have h' := h
    simp only [tdRun] at h'
    cases hs : tdStep BU TD cv p cfg T init extra (TDState.empty TD) gr0 with
    | none => rw [hs] at h'; cases h'
    | some s1 =>
      rw [hs] at h'
      obtain ⟨st0, hf⟩ := tdStep_facts BU TD cv p cfg T init extra hs
      obtain ⟨k1, k2, _, _⟩ := tdRun_keep BU TD cv p cfg T init extra l2 s1 R h'
      have hnd' : (l2.map (·.1)).Nodup := (List.nodup_cons.mp (by simpa using hnd)).2
      have hnotin : gr0.1 ∉ l2.map (·.1) := (List.nodup_cons.mp (by simpa using hnd)).1
      have hinit : entryAt TD init (TDState.empty TD) gr0 = init := by simp [entryAt, TDState.empty]
      have hne : ∀ x, x ∈ l2.map (·.1) → s1.entry x = none ∧ s1.invs x = none := by
        intro x hx
        have hx0 : x ≠ gr0.1 := fun e => hnotin (e ▸ hx)
        rw [hf.entry_eq, hf.invs_eq, optInsert_other _ _ _ hx0, optInsert_other _ _ _ hx0]
        exact ⟨rfl, rfl⟩
      have hent := tdRun_entry BU TD cv p cfg T init extra l2 s1 R h' hf.notRoot hnd' hne
      have hR0e : R.entry gr0.1 = some init := by
        apply k1; rw [hf.entry_eq, ← hinit]; exact optInsert_new _ _ _ rfl
      have hR0i : R.invs gr0.1 = some st0 := by
        apply k2; rw [hf.invs_eq]; exact optInsert_new _ _ _ rfl
      have hns : NoSumTop T s1.ctxs := hf.noSum (fun _ _ h => nomatch h)
      have hecov : ∀ g e, R.entry g = some e → g ∈ (gr0 :: l2).map (·.1) := by
        intro g e he
        by_cases hg : g ∈ (gr0 :: l2).map (·.1)
        · exact hg
        · have := (kout g hg).1
          rw [he] at this
          cases this
      refine ⟨?_, ?_, hecov, ?_, ?_, hbefore⟩
      · intro g st hst
        by_cases hg : g ∈ (gr0 :: l2).map (·.1)
        · refine ⟨hg, ?_⟩
          simp only [List.map_cons, List.mem_cons] at hg
          rcases hg with rfl | hg
          · rw [hR0i] at hst; cases hst
            exact ⟨init, hR0e, by rw [← hinit]; exact hf.solved⟩
          · obtain ⟨gr, hgr, rfl⟩ := List.mem_map.mp hg
            obtain ⟨e, st', h1, h2, h3, _⟩ := hent gr hgr
            rw [h2] at hst; cases hst
            exact ⟨e, h1, h3⟩
        · have := (kout g hg).2
          rw [hst] at this
          cases this
      · intro g hg
        simp only [List.map_cons, List.mem_cons] at hg
        rcases hg with rfl | hg
        · exact ⟨st0, hR0i⟩
        · obtain ⟨gr, hgr, rfl⟩ := List.mem_map.mp hg
          obtain ⟨_, st', _, h2, _⟩ := hent gr hgr
          exact ⟨st', h2⟩
      · intro gr rest he
        cases he
        exact hR0e
      · intro gr hgr hnr e he hor
        have hne0 : gr.1 ≠ gr0.1 := hnr gr0 l2 rfl
        have hgr2 : gr ∈ l2 := by
          rcases List.mem_cons.mp hgr with rfl | h2
          · exact absurd rfl hne0
          · exact h2
        obtain ⟨e', _, h1, _, _, _, h5, h6⟩ := hent gr hgr2
        rw [he] at h1; cases h1
        rcases hor with hr | hT
        · exact h5 hr
        · exact h6 hns hT

end TDRun
end Crab.Inter
