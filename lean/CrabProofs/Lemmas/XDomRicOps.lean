import CrabProofs.Lemmas.XDomRic

/-!
  The "ric" domain (model `Crab.RDom`): the lattice operations of `basic_domain_product2` and the
  transformers of `numerical_congruence_domain`, from the theorems of the two components.
-/
namespace Crab
namespace RDom
open XDom Lin

local notation "GL" => GDom.congLattice

/-- the concrete operations of `XDom` imply the ones the interval domain is stated with -/
theorem toIA_conc {op : ArithOp} {a b c : Int} (h : op.conc a b = some c) : (toIA op).conc a b = some c := by
  cases op <;> exact h

theorem toIB_conc {op : BitOp} {a b c : Int} (h : op.conc a b = some c) :
    (toIB op).conc a b = some c ∧ (toIB op = .lshr → b < 2 ^ 64) := by
  cases op <;> simp only [BitOp.conc, toIB, IDom.BitOp.conc] at h ⊢
  · exact ⟨h, fun e => by cases e⟩
  · exact ⟨h, fun e => by cases e⟩
  · exact ⟨h, fun e => by cases e⟩
  · split at h
    · rename_i h0; simp only [h0.1, if_true]; exact ⟨h, fun e => by cases e⟩
    · cases h
  · split at h
    · rename_i h0; simp only [h0.2.1, if_true]; exact ⟨h, fun _ => h0.2.2⟩
    · cases h
  · split at h
    · rename_i h0; simp only [h0.1, if_true]; exact ⟨h, fun e => by cases e⟩
    · cases h

namespace Env

/-! ### the operations of the interval domain keep a bottom environment bottom -/

theorem iset_bot {f : IDom.Env} (h : f.bottom = true) (k : Var) (v : Itv) : (f.set k v).bottom = true := by
  simp [IDom.Env.set, h]
theorem iassign_bot {f : IDom.Env} (h : f.bottom = true) (x : Var) (ex : Expr) : (f.assign x ex).bottom = true := by
  unfold IDom.Env.assign; split <;> exact iset_bot h _ _
theorem iweak_bot {f : IDom.Env} (h : f.bottom = true) (x : Var) (ex : Expr) : (f.weakAssign x ex).bottom = true := by
  unfold IDom.Env.weakAssign; split <;> simp [IDom.Env.joinKey, h]
theorem iadd_bot {f : IDom.Env} (h : f.bottom = true) (csts : Sys) : (f.add csts).bottom = true := by
  simp [IDom.Env.add, h]
theorem iselect_bot {f : IDom.Env} (h : f.bottom = true) (l : Var) (c : Lin.Cst) (e1 e2 : Expr) :
    (f.select l c e1 e2).bottom = true := by simp [IDom.Env.select, h]
theorem iforget_bot {f : IDom.Env} (h : f.bottom = true) (x : Var) : (f.forget x).bottom = true := by
  simp [IDom.Env.forget, h]
theorem iforgetAll_bot {f : IDom.Env} (h : f.bottom = true) (vs : List Var) : (f.forgetAll vs).bottom = true := by
  simp [IDom.Env.forgetAll, h]
theorem iproject_bot {f : IDom.Env} (h : f.bottom = true) (vs : List Var) : (f.project vs).bottom = true := by
  simp [IDom.Env.project, h]
theorem iexpand_bot {f : IDom.Env} (h : f.bottom = true) (x nx : Var) : (f.expand x nx).bottom = true := by
  simp [IDom.Env.expand, h]
theorem icast_bot {f : IDom.Env} (h : f.bottom = true) (z : Bool) (bw : Nat) (d s : Var) :
    (f.intCast z bw d s).bottom = true := by
  unfold IDom.Env.intCast
  simp only
  split
  · exact iadd_bot (iassign_bot h _ _) _
  · exact iassign_bot h _ _

/-! ### lattice operations -/

theorem mk'_sound {f : IDom.Env} {s : GDom.Env} {σ : State} (b : Bool) (h1 : IDom.Env.γ f σ)
    (h2 : GDom.Env.γ s σ) : (mk' f s b).γ σ := by
  unfold mk'
  have hg : (⟨false, f, s⟩ : Env).γ σ := ⟨rfl, h1, h2⟩
  split
  · rw [canon_of_γ hg]; exact hg
  · exact hg

theorem mk'_inv {f : IDom.Env} {s : GDom.Env} (b : Bool) (h1 : f.Sorted) (h2 : s.Inv) : (mk' f s b).Inv := by
  unfold mk'
  have hi : (⟨false, f, s⟩ : Env).Inv := ⟨h1, h2, fun h => by cases h⟩
  split
  · exact canon_inv hi
  · exact hi

/-- a yes answer of `operator<=` is an inclusion of concretisations -/
theorem leq_sound {a b : Env} (ha : a.Inv) (hb : b.Inv) (h : leq a b = true) {σ : State} (hg : a.γ σ) :
    b.γ σ := by
  unfold leq at h
  simp only [isBottom_false hg, Bool.false_eq_true, if_false] at h
  split at h
  · cases h
  · rename_i hbb
    simp only [Bool.not_eq_true] at hbb
    simp only [Bool.and_eq_true] at h
    exact ⟨(isBot_of_not_isBottom hbb).1, IDom.Env.leq_sound h.1 hg.2.1,
      XDom.Env.leq_sound GDom.congLaws ha.2.1 hb.2.1 h.2 hg.2.2⟩

theorem leq_of_isBottom {a : Env} (h : a.isBottom = true) (b : Env) : leq a b = true := by
  unfold leq; simp [h]

theorem leq_refl {a : Env} (ha : a.Inv) : leq a a = true := by
  unfold leq
  cases h : a.isBottom
  · simp only [Bool.false_eq_true, if_false, Bool.and_eq_true]
    exact ⟨IDom.Env.leq_refl ha.1, XDom.Env.leq_refl GDom.congLaws ha.2.1⟩
  · rfl

theorem leq_top {a : Env} (ha : a.Inv) : leq a top = true := by
  unfold leq
  cases h : a.isBottom
  · have : top.isBottom = false := rfl
    simp only [this, Bool.false_eq_true, if_false, Bool.and_eq_true]
    exact ⟨IDom.Env.leq_top a.f, XDom.Env.leq_top GDom.congLaws ha.2.1⟩
  · rfl

/-- join contains both arguments -/
theorem join_upper {a b : Env} (ha : a.Inv) (hb : b.Inv) {σ : State} (h : a.γ σ ∨ b.γ σ) : (join a b).γ σ := by
  unfold join
  split
  · rename_i hab
    rcases h with h | h
    · exact absurd h (not_γ_of_isBottom hab σ)
    · exact h
  · split
    · rename_i hbb
      rcases h with h | h
      · exact h
      · exact absurd h (not_γ_of_isBottom hbb σ)
    · rcases h with h | h
      · exact mk'_sound _ (IDom.Env.join_upper_left ha.1 b.f h.2.1)
          (XDom.Env.upper_sound GDom.congLaws GDom.congLaws.join ha.2.1 hb.2.1 (Or.inl h.2.2))
      · exact mk'_sound _ (IDom.Env.join_upper_right ha.1 h.2.1)
          (XDom.Env.upper_sound GDom.congLaws GDom.congLaws.join ha.2.1 hb.2.1 (Or.inr h.2.2))

theorem join_inv {a b : Env} (ha : a.Inv) (hb : b.Inv) : (join a b).Inv := by
  unfold join
  split
  · exact hb
  · split
    · exact ha
    · exact mk'_inv _ (IDom.Env.upperWith_sorted _ ha.1 hb.1) (XDom.Env.upper_inv GDom.congLaws GDom.congLaws.join ha.2.1 hb.2.1)

/-- `operator|=` contains both arguments -/
theorem joinEq_upper {a b : Env} (ha : a.Inv) (hb : b.Inv) {σ : State} (h : a.γ σ ∨ b.γ σ) : (joinEq a b).γ σ := by
  unfold joinEq
  split
  · rename_i hab
    rcases h with h | h
    · exact absurd h (not_γ_of_isBottom hab σ)
    · exact h
  · rename_i hab
    simp only [Bool.not_eq_true] at hab
    split
    · rename_i hbb
      rcases h with h | h
      · exact h
      · exact absurd h (not_γ_of_isBottom hbb σ)
    · refine ⟨(isBot_of_not_isBottom hab).1, ?_, ?_⟩
      · rcases h with h | h
        · exact IDom.Env.join_upper_left ha.1 b.f h.2.1
        · exact IDom.Env.join_upper_right ha.1 h.2.1
      · exact XDom.Env.upper_sound GDom.congLaws GDom.congLaws.join ha.2.1 hb.2.1
          (h.elim (fun h => Or.inl h.2.2) (fun h => Or.inr h.2.2))

theorem joinEq_inv {a b : Env} (ha : a.Inv) (hb : b.Inv) : (joinEq a b).Inv := by
  unfold joinEq
  split
  · exact hb
  · rename_i hab
    simp only [Bool.not_eq_true] at hab
    split
    · exact ha
    · exact ⟨IDom.Env.upperWith_sorted _ ha.1 hb.1, XDom.Env.upper_inv GDom.congLaws GDom.congLaws.join ha.2.1 hb.2.1,
        fun h => by rw [(isBot_of_not_isBottom hab).1] at h; cases h⟩

/-- widening contains both arguments -/
theorem widen_upper {a b : Env} (ha : a.Inv) (hb : b.Inv) {σ : State} (h : a.γ σ ∨ b.γ σ) : (widen a b).γ σ := by
  unfold widen
  rcases h with h | h
  · exact mk'_sound _ (IDom.Env.widen_upper_left ha.1 b.f h.2.1)
      (XDom.Env.upper_sound GDom.congLaws GDom.congLaws.widen ha.2.1 hb.2.1 (Or.inl h.2.2))
  · exact mk'_sound _ (IDom.Env.widen_upper_right ha.1 h.2.1)
      (XDom.Env.upper_sound GDom.congLaws GDom.congLaws.widen ha.2.1 hb.2.1 (Or.inr h.2.2))

theorem widen_inv {a b : Env} (ha : a.Inv) (hb : b.Inv) : (widen a b).Inv :=
  mk'_inv _ (IDom.Env.upperWith_sorted _ ha.1 hb.1) (XDom.Env.upper_inv GDom.congLaws GDom.congLaws.widen ha.2.1 hb.2.1)

/-- widening with thresholds contains both arguments -/
theorem widenTh_upper {ts : IDom.Thresholds} (hw : ts.WF) {a b : Env} (ha : a.Inv) (hb : b.Inv) {σ : State}
    (h : a.γ σ ∨ b.γ σ) : (widenTh ts a b).γ σ := by
  unfold widenTh
  rcases h with h | h
  · exact mk'_sound _ (IDom.Env.widenTh_upper_left hw ha.1 b.f h.2.1)
      (XDom.Env.upper_sound GDom.congLaws GDom.congLaws.widen ha.2.1 hb.2.1 (Or.inl h.2.2))
  · exact mk'_sound _ (IDom.Env.widenTh_upper_right hw ha.1 h.2.1)
      (XDom.Env.upper_sound GDom.congLaws GDom.congLaws.widen ha.2.1 hb.2.1 (Or.inr h.2.2))

theorem widenTh_inv (ts : IDom.Thresholds) {a b : Env} (ha : a.Inv) (hb : b.Inv) : (widenTh ts a b).Inv :=
  mk'_inv _ (IDom.Env.upperWith_sorted _ ha.1 hb.1) (XDom.Env.upper_inv GDom.congLaws GDom.congLaws.widen ha.2.1 hb.2.1)

/-- `is_top()` answers yes only on values that describe every state -/
theorem γ_of_isTop {e : Env} (he : e.Inv) (h : e.isTop = true) (σ : State) : e.γ σ := by
  unfold isTop at h
  simp only [Bool.and_eq_true] at h
  have h1 := IDom.Env.γ_of_isTop h.1 σ
  refine ⟨?_, h1, XDom.Env.γ_of_isTop GDom.congLaws he.2.1 h.2 σ⟩
  cases hb : e.isBot
  · rfl
  · have := he.2.2 hb; rw [h1.1] at this; cases this

/-- meet describes the common states -/
theorem meet_sound {a b : Env} (ha : a.Inv) (hb : b.Inv) {σ : State} (h1 : a.γ σ) (h2 : b.γ σ) : (meet a b).γ σ := by
  unfold meet
  split
  · exact h1
  · split
    · exact h2
    · exact mk'_sound _ (IDom.Env.meet_sound ha.1 h1.2.1 h2.2.1)
        (XDom.Env.lower_sound GDom.congLaws GDom.congLaws.meet ha.2.1 hb.2.1 h1.2.2 h2.2.2)

theorem mk'_exact {f : IDom.Env} {s : GDom.Env} {σ : State} (h : (mk' f s true).γ σ) :
    IDom.Env.γ f σ ∧ GDom.Env.γ s σ := by
  unfold mk' canon at h
  simp only [if_true, Bool.not_false] at h
  split at h
  · exact absurd h (not_γ_bot σ)
  · exact ⟨h.2.1, h.2.2⟩

/-- … and nothing else -/
theorem meet_lower {a b : Env} (ha : a.Inv) (hb : b.Inv) {σ : State} (h : (meet a b).γ σ) : a.γ σ ∧ b.γ σ := by
  unfold meet at h
  split at h
  · rename_i hc
    simp only [Bool.or_eq_true] at hc
    rcases hc with hc | hc
    · exact absurd h (not_γ_of_isBottom hc σ)
    · exact ⟨h, γ_of_isTop hb hc σ⟩
  · split at h
    · rename_i hc
      simp only [Bool.or_eq_true] at hc
      rcases hc with hc | hc
      · exact absurd h (not_γ_of_isBottom hc σ)
      · exact ⟨γ_of_isTop ha hc σ, h⟩
    · rename_i hn1 hn2
      simp only [Bool.or_eq_true, not_or, Bool.not_eq_true] at hn1 hn2
      obtain ⟨m1, m2⟩ := mk'_exact h
      obtain ⟨f1, f2⟩ := IDom.Env.meet_exact m1
      obtain ⟨s1, s2⟩ := XDom.Env.lower_below GDom.congLaws GDom.congLaws.meet
        (fun _ _ _ hk => Cong.meet_exact hk) ha.2.1 hb.2.1 m2
      exact ⟨⟨(isBot_of_not_isBottom hn1.1).1, f1, s1⟩, ⟨(isBot_of_not_isBottom hn2.1).1, f2, s2⟩⟩

theorem meet_inv {a b : Env} (ha : a.Inv) (hb : b.Inv) : (meet a b).Inv := by
  unfold meet
  split
  · exact ha
  · split
    · exact hb
    · exact mk'_inv _ (IDom.Env.lowerWith_sorted _ ha.1 b.f) (XDom.Env.lower_inv GDom.congLaws GDom.congLaws.meet ha.2.1 hb.2.1)

theorem meetEq_sound {a b : Env} (ha : a.Inv) (hb : b.Inv) {σ : State} (h1 : a.γ σ) (h2 : b.γ σ) : (meetEq a b).γ σ := by
  unfold meetEq
  simp only [isBottom_false h1, isBottom_false h2, Bool.false_eq_true, if_false]
  exact ⟨h1.1, IDom.Env.meet_sound ha.1 h1.2.1 h2.2.1,
    XDom.Env.lower_sound GDom.congLaws GDom.congLaws.meet ha.2.1 hb.2.1 h1.2.2 h2.2.2⟩

theorem meetEq_inv {a b : Env} (ha : a.Inv) (hb : b.Inv) : (meetEq a b).Inv := by
  unfold meetEq
  split
  · exact ha
  · rename_i hab
    simp only [Bool.not_eq_true] at hab
    split
    · exact hb
    · exact ⟨IDom.Env.lowerWith_sorted _ ha.1 b.f, XDom.Env.lower_inv GDom.congLaws GDom.congLaws.meet ha.2.1 hb.2.1,
        fun h => by rw [(isBot_of_not_isBottom hab).1] at h; cases h⟩

/-- narrowing keeps the common states -/
theorem narrow_sound {a b : Env} (ha : a.Inv) (hb : b.Inv) {σ : State} (h1 : a.γ σ) (h2 : b.γ σ) : (narrow a b).γ σ := by
  unfold narrow
  split
  · exact h1
  · split
    · exact h2
    · exact mk'_sound _ (IDom.Env.narrow_sound ha.1 h1.2.1 h2.2.1)
        (XDom.Env.lower_sound GDom.congLaws GDom.congLaws.narrow ha.2.1 hb.2.1 h1.2.2 h2.2.2)

theorem narrow_inv {a b : Env} (ha : a.Inv) (hb : b.Inv) : (narrow a b).Inv := by
  unfold narrow
  split
  · exact ha
  · split
    · exact hb
    · exact mk'_inv _ (IDom.Env.lowerWith_sorted _ ha.1 b.f) (XDom.Env.lower_inv GDom.congLaws GDom.congLaws.narrow ha.2.1 hb.2.1)

end Env
end RDom
end Crab
