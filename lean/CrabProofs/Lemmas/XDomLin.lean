import CrabProofs.Lemmas.XDomRename
import CrabProofs.Lemmas.IDomOps
import CrabProofs.Lemmas.LinSys

/-!
  Side conditions on the linear constraints handled by the non-relational domains: canonical
  expression (the invariant of the class `linear_expression`) whose variables have an index
  below `2^64` (`index_t = uint64_t`), and their preservation by the constraints the domains
  build themselves (`negate`, the two inequalities of `entails`, the bound of `zext`).
-/
set_option linter.unusedSectionVars false

namespace Crab
namespace XDom
open Lin

/-- every variable of the expression has a machine index -/
def VarsLt (ex : Expr) : Prop := ∀ p ∈ ex.terms, p.1 < 2 ^ 64

/-- a constraint as the class `linear_constraint` builds it, over machine-indexed variables -/
def CstOk (c : Lin.Cst) : Prop := c.expr.Canonical ∧ VarsLt c.expr

theorem varsLt_const (n : Int) : VarsLt (Expr.const n) := by simp [VarsLt, Expr.const]

theorem varsLt_scale {ex : Expr} (h : VarsLt ex) (n : Int) : VarsLt (ex.scale n) := by
  unfold Expr.scale
  split
  · simp [VarsLt, Expr.zero]
  · intro p hp
    obtain ⟨_, c, hc⟩ := Expr.scaleTerms_sublist_keys n ex.terms p hp
    exact h (p.1, c) hc

theorem varsLt_neg {ex : Expr} (h : VarsLt ex) : VarsLt ex.neg := varsLt_scale h (-1)

theorem varsLt_subNum {ex : Expr} (h : VarsLt ex) (n : Int) : VarsLt (ex.subNum n) := h

theorem cstOk_negate {c : Lin.Cst} (h : CstOk c) : CstOk c.negate := by
  refine ⟨IDom.canonical_negate h.1, ?_⟩
  unfold Lin.Cst.negate Lin.Cst.negateWith
  split
  · exact varsLt_const 0
  · split
    · exact varsLt_const 0
    · cases hk : c.kind <;> simp only []
      · exact h.2
      · exact h.2
      · exact varsLt_neg (varsLt_subNum h.2 1)
      · exact varsLt_neg h.2

theorem cstOk_leq {c : Lin.Cst} (h : CstOk c) : CstOk ⟨c.expr, .leq⟩ := h

theorem cstOk_scale_leq {c : Lin.Cst} (h : CstOk c) (n : Int) : CstOk ⟨c.expr.scale n, .leq⟩ :=
  ⟨IDom.canonical_scale h.1 n, varsLt_scale h.2 n⟩

theorem cstOk_var_subNum {x : Var} (hx : x < 2 ^ 64) (n : Int) (k : Kind) : CstOk ⟨(Expr.var x).subNum n, k⟩ := by
  refine ⟨⟨Expr.sorted_subNum n (Expr.sorted_var x), Expr.noZero_subNum n (Expr.noZero_var x)⟩, ?_⟩
  intro p hp
  simp only [Expr.subNum, Expr.addNum, Expr.var, List.mem_cons, List.not_mem_nil, or_false] at hp
  subst hp; exact hx

theorem eval_var (x : Var) (σ : State) : (Expr.var x).eval σ = σ x := by
  simp [Expr.eval, Expr.var, Expr.evalTerms]

/-- `get_variable()` answers `v` only on the expression `v` -/
theorem getVariable_spec {ex : Expr} {v : Var} (h : getVariable ex = some v) (σ : State) : ex.eval σ = σ v := by
  unfold getVariable at h
  split at h
  · simp at h
  · split at h
    · rename_i hc
      split at h
      · rename_i v' c hts
        split at h
        · rename_i h1
          simp only [Option.some.injEq] at h
          subst h; subst h1
          simp [Expr.eval, hts, Expr.evalTerms, hc.1]
        · simp at h
      · simp at h
    · simp at h

/-- the two inequalities `entails` replaces an equality with -/
theorem mem_eq_split (c : Lin.Cst) :
    (⟨c.expr, .leq⟩ : Lin.Cst) ∈ Sys.addCst (Sys.addCst [] ⟨c.expr, .leq⟩) ⟨c.expr.scale (-1), .leq⟩ ∧
    (⟨c.expr.scale (-1), .leq⟩ : Lin.Cst) ∈ Sys.addCst (Sys.addCst [] ⟨c.expr, .leq⟩) ⟨c.expr.scale (-1), .leq⟩ := by
  constructor
  · rw [Sys.mem_addCst, Sys.mem_addCst]; left; right; rfl
  · rw [Sys.mem_addCst]; right; rfl

theorem sat_of_eq_split {c : Lin.Cst} {σ : State} (hk : c.kind = .eq)
    (h1 : (⟨c.expr, .leq⟩ : Lin.Cst).sat σ) (h2 : (⟨c.expr.scale (-1), .leq⟩ : Lin.Cst).sat σ) : c.sat σ := by
  simp only [Lin.Cst.sat, Expr.eval_scale] at h1 h2
  simp only [Lin.Cst.sat, hk]
  omega

theorem sat_single {c : Lin.Cst} {σ : State} (h : c.sat σ) : Sys.sat [c] σ := by
  intro c' hc'
  simp only [List.mem_cons, List.not_mem_nil, or_false] at hc'
  subst hc'; exact h

/-! ### exported constraints -/

namespace Env
open Patricia Patricia.Tree

variable {V : Type} [GoodVal V] {L : Lattice V} {mem : Int → V → Prop}

theorem mem_insertSorted {p q : Var × V} : ∀ {l : List (Var × V)}, q ∈ insertSorted p l ↔ q = p ∨ q ∈ l := by
  intro l
  induction l with
  | nil => simp [insertSorted]
  | cons r rest ih =>
    simp only [insertSorted]
    split
    · simp
    · simp only [List.mem_cons, ih]
      constructor
      · rintro (h | h | h)
        · right; left; exact h
        · left; exact h
        · right; right; exact h
      · rintro (h | h | h)
        · right; left; exact h
        · left; exact h
        · right; right; exact h

theorem mem_foldr_insertSorted {q : Var × V} : ∀ {l : List (Var × V)}, q ∈ l.foldr insertSorted [] ↔ q ∈ l := by
  intro l
  induction l with
  | nil => simp
  | cons r rest ih => simp only [List.foldr_cons, mem_insertSorted, ih, List.mem_cons]

/-- the listed bindings of a non-bottom environment are its stored bindings -/
theorem mem_bindings {e : Env V} (he : Inv L e) (ne : e.isBot = false) {k : Var} {v : V} :
    (k, v) ∈ bindings e ↔ e.tree.lookup k = some v := by
  unfold bindings
  simp only [ne, Bool.false_eq_true, if_false]
  rw [mem_foldr_insertSorted]
  exact mem_toList_iff_lookup he.1

theorem mem_export_fold (f : Var × V → Option Lin.Cst) : ∀ (l : List (Var × V)) (init : Sys) (c : Lin.Cst),
    c ∈ l.foldl (fun s p => match f p with | some c => Sys.addCst s c | none => s) init →
    c ∈ init ∨ ∃ p ∈ l, f p = some c := by
  intro l
  induction l with
  | nil => intro init c h; exact Or.inl h
  | cons q rest ih =>
    intro init c h
    simp only [List.foldl_cons] at h
    rcases ih _ c h with h1 | ⟨p, hp, hfp⟩
    · cases hq : f q with
      | none => rw [hq] at h1; exact Or.inl h1
      | some c' =>
        rw [hq] at h1
        rcases Sys.mem_addCst.mp h1 with h2 | h2
        · exact Or.inl h2
        · exact Or.inr ⟨q, List.mem_cons_self, by rw [hq, h2]⟩
    · exact Or.inr ⟨p, List.mem_cons_of_mem _ hp, hfp⟩

/-- `to_linear_constraint_system()` holds in every state of `γ` as soon as the constraint of each
    binding holds for the members of its value -/
theorem exportCsts_sound (f : Var × V → Option Lin.Cst)
    (hf : ∀ k v c, f (k, v) = some c → ∀ σ : State, mem (σ k) v → c.sat σ)
    {e : Env V} (he : Inv L e) {σ : State} (hg : γ L mem e σ) : Sys.sat (exportCsts f e) σ := by
  unfold exportCsts
  simp only [hg.1, Bool.false_eq_true, if_false]
  intro c hc
  rcases mem_export_fold f _ _ c hc with h | ⟨p, hp, hfp⟩
  · simp at h
  · obtain ⟨k, v⟩ := p
    have hl := (mem_bindings he hg.1).mp hp
    have hm := hg.2 k
    rw [get_eq, hg.1, hl] at hm
    exact hf k v c hfp σ hm

/-- the exported system of bottom has no solution -/
theorem exportCsts_bot (f : Var × V → Option Lin.Cst) {e : Env V} (h : e.isBot = true) (σ : State) :
    ¬ Sys.sat (exportCsts f e) σ := by
  unfold exportCsts
  simp only [h, if_true]
  intro hs
  have : Lin.Cst.getFalse ∈ Sys.addCst [] Lin.Cst.getFalse := by rw [Sys.mem_addCst]; right; rfl
  exact Lin.Cst.not_sat_getFalse σ (hs _ this)

end Env

end XDom
end Crab
