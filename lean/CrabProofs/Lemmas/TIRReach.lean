import CrabModel.Transform.Simplify

/-!
  `mark_alive_blocks` (the worklist `reachFrom`) with the fuel of the model computes a set that
  contains the start node and is closed under `next` — hence contains every node reachable from
  the start.
-/
namespace Crab
namespace TIR

theorem length_le_of_nodup_subset : ∀ (xs ys : List Nat), xs.Nodup → (∀ x, x ∈ xs → x ∈ ys) →
    xs.length ≤ ys.length
  | [], _, _, _ => Nat.zero_le _
  | x :: r, ys, hnd, hsub => by
    have hx : x ∈ ys := hsub x List.mem_cons_self
    have hnd' := List.nodup_cons.mp hnd
    have ih := length_le_of_nodup_subset r (ys.erase x) hnd'.2 (by
      intro y hy
      have hy' : y ∈ ys := hsub y (List.mem_cons_of_mem _ hy)
      have hne : y ≠ x := by intro hc; subst hc; exact hnd'.1 hy
      exact (List.mem_erase_of_ne hne).mpr hy')
    rw [List.length_erase_of_mem hx] at ih
    have : 0 < ys.length := List.length_pos_of_mem hx
    simp only [List.length_cons]
    omega

/-- reflexive-transitive closure of `next` -/
inductive GPath (next : Label → List Label) : Label → Label → Prop
  | refl (a : Label) : GPath next a a
  | step {a b c : Label} : b ∈ next a → GPath next b c → GPath next a c

theorem GPath.trans {next : Label → List Label} {a b c : Label} (h1 : GPath next a b) (h2 : GPath next b c) :
    GPath next a c := by
  induction h1 with
  | refl _ => exact h2
  | step hm _ ih => exact GPath.step hm (ih h2)

theorem GPath.snoc {next : Label → List Label} {a b c : Label} (h1 : GPath next a b) (h2 : c ∈ next b) :
    GPath next a c := h1.trans (GPath.step h2 (GPath.refl c))

theorem closed_contains {next : Label → List Label} {R : List Label}
    (hcl : ∀ s, s ∈ R → ∀ s', s' ∈ next s → s' ∈ R) {a b : Label} (h : GPath next a b) (ha : a ∈ R) : b ∈ R := by
  induction h with
  | refl _ => exact ha
  | step hm _ ih => exact ih (hcl _ ha _ hm)

theorem reachFrom_spec (next : Label → List Label) (U : List Label)
    (hnext : ∀ l, (∀ s, s ∈ next l → s ∈ U) ∧ (next l).length ≤ U.length) :
    ∀ (fuel : Nat) (work seen : List Label),
      seen.Nodup → (∀ s, s ∈ seen → s ∈ U) → (∀ s, s ∈ work → s ∈ U) →
      (∀ s, s ∈ seen → ∀ s', s' ∈ next s → s' ∈ seen ∨ s' ∈ work) →
      work.length + (U.length - seen.length) * (U.length + 1) ≤ fuel →
      (∀ s, s ∈ seen → s ∈ reachFrom next fuel work seen) ∧
      (∀ s, s ∈ work → s ∈ reachFrom next fuel work seen) ∧
      (∀ s, s ∈ reachFrom next fuel work seen → ∀ s', s' ∈ next s → s' ∈ reachFrom next fuel work seen) := by
  intro fuel
  induction fuel with
  | zero =>
    intro work seen _ _ _ hI hf
    have hw : work = [] := by
      cases work with
      | nil => rfl
      | cons a r => simp at hf
    subst hw
    simp only [reachFrom]
    refine ⟨fun s hs => hs, fun s hs => by simp at hs, ?_⟩
    intro s hs s' hs'
    rcases hI s hs s' hs' with h | h
    · exact h
    · simp at h
  | succ fuel ih =>
    intro work seen hnd hsU hwU hI hf
    cases work with
    | nil =>
      simp only [reachFrom]
      refine ⟨fun s hs => hs, fun s hs => by simp at hs, ?_⟩
      intro s hs s' hs'
      rcases hI s hs s' hs' with h | h
      · exact h
      · simp at h
    | cons l rest =>
      simp only [reachFrom]
      by_cases hl : seen.contains l = true
      · simp only [hl, if_true]
        have hlm : l ∈ seen := by simpa using hl
        obtain ⟨h1, h2, h3⟩ := ih rest seen hnd hsU (fun s hs => hwU s (List.mem_cons_of_mem _ hs))
          (by
            intro s hs s' hs'
            rcases hI s hs s' hs' with h | h
            · exact Or.inl h
            · rcases List.mem_cons.mp h with rfl | h
              · exact Or.inl hlm
              · exact Or.inr h)
          (by simp only [List.length_cons] at hf; omega)
        refine ⟨h1, ?_, h3⟩
        intro s hs
        rcases List.mem_cons.mp hs with rfl | hs
        · exact h1 _ hlm
        · exact h2 s hs
      · have hl' : seen.contains l = false := by simpa using hl
        simp only [hl', Bool.false_eq_true, if_false]
        have hlm : l ∉ seen := by simpa using hl'
        have hlU : l ∈ U := hwU l List.mem_cons_self
        have hlen : (l :: seen).length ≤ U.length :=
          length_le_of_nodup_subset (l :: seen) U (List.nodup_cons.mpr ⟨hlm, hnd⟩)
            (by intro x hx; rcases List.mem_cons.mp hx with rfl | hx; exact hlU; exact hsU x hx)
        obtain ⟨h1, h2, h3⟩ := ih (next l ++ rest) (l :: seen) (List.nodup_cons.mpr ⟨hlm, hnd⟩)
          (by intro x hx; rcases List.mem_cons.mp hx with rfl | hx; exact hlU; exact hsU x hx)
          (by
            intro s hs
            rcases List.mem_append.mp hs with h | h
            · exact (hnext l).1 s h
            · exact hwU s (List.mem_cons_of_mem _ h))
          (by
            intro s hs s' hs'
            rcases List.mem_cons.mp hs with rfl | hs
            · exact Or.inr (List.mem_append.mpr (Or.inl hs'))
            · rcases hI s hs s' hs' with h | h
              · exact Or.inl (List.mem_cons_of_mem _ h)
              · rcases List.mem_cons.mp h with rfl | h
                · exact Or.inl List.mem_cons_self
                · exact Or.inr (List.mem_append.mpr (Or.inr h)))
          (by
            have hn := (hnext l).2
            simp only [List.length_cons, List.length_append] at hf hlen ⊢
            have : (U.length - seen.length) * (U.length + 1) =
                (U.length - (seen.length + 1)) * (U.length + 1) + (U.length + 1) := by
              have : U.length - seen.length = (U.length - (seen.length + 1)) + 1 := by omega
              rw [this, Nat.add_mul, Nat.one_mul]
            omega)
        refine ⟨fun s hs => h1 s (List.mem_cons_of_mem _ hs), ?_, h3⟩
        intro s hs
        rcases List.mem_cons.mp hs with rfl | hs
        · exact h1 _ List.mem_cons_self
        · exact h2 s (List.mem_append.mpr (Or.inr hs))

/-- every node reachable from `start` is in the computed set -/
theorem reachFrom_complete (next : Label → List Label) (U : List Label)
    (hnext : ∀ l, (∀ s, s ∈ next l → s ∈ U) ∧ (next l).length ≤ U.length)
    (start : Label) (hs : start ∈ U) {b : Label} (h : GPath next start b) :
    b ∈ reachFrom next ((U.length + 1) * (U.length + 1) + 1) [start] [] := by
  obtain ⟨_, h2, h3⟩ := reachFrom_spec next U hnext ((U.length + 1) * (U.length + 1) + 1) [start] []
    List.nodup_nil (by simp) (by intro s hs'; simp at hs'; rw [hs']; exact hs) (by simp)
    (by
      simp only [List.length_cons, List.length_nil, Nat.sub_zero]
      have : U.length * (U.length + 1) ≤ (U.length + 1) * (U.length + 1) :=
        Nat.mul_le_mul_right _ (Nat.le_succ _)
      omega)
  exact closed_contains h3 h (h2 start (by simp))

end TIR
end Crab
