import CrabProofs.Lemmas.CrawlCtrlGraph

/-!
  The boolean tests of the model decide post-dominance and reachability of the exit on
  well-formed CFGs; the immediate post-dominator of the model (`Prog.ipdom`) exists for every
  block other than the exit that reaches the exit, and the walk `pdfWalk` up the tree from a block
  enumerates its post-dominators.
-/
namespace Crab
namespace TIR

theorem reachFuel_eq (P : Prog) : P.reachFuel = (P.labels.length + 1) * (P.labels.length + 1) + 1 := by
  simp [Prog.reachFuel, Prog.labels]

theorem wf_next_succs {P : Prog} (hwf : WFp P) :
    ∀ l, (∀ s, s ∈ P.succsOf l → s ∈ P.labels) ∧ (P.succsOf l).length ≤ P.labels.length :=
  fun l => ⟨fun s hs => hwf.succ_lab l s hs,
    length_le_of_nodup_subset _ _ (hwf.nd_succ l) (fun s hs => hwf.succ_lab l s hs)⟩

theorem wf_next_avoid {P : Prog} (hwf : WFp P) (y : Label) :
    ∀ l, (∀ s, s ∈ succsAvoid P y l → s ∈ P.labels) ∧ (succsAvoid P y l).length ≤ P.labels.length := by
  intro l
  refine ⟨fun s hs => hwf.succ_lab l s (List.mem_filter.mp hs).1, ?_⟩
  exact Nat.le_trans (List.length_filter_le _ _) (wf_next_succs hwf l).2

theorem mem_succsAvoid {P : Prog} {y l s : Label} : s ∈ succsAvoid P y l ↔ s ∈ P.succsOf l ∧ s ≠ y := by
  simp [succsAvoid]

theorem avoid_to_gpath {P : Prog} {x y n : Label} (h : Avoid P x (· = y) n) : GPath (succsAvoid P y) n x := by
  induction h with
  | here _ => exact GPath.refl _
  | step _ hs hav ih => exact GPath.step (mem_succsAvoid.mpr ⟨hs, hav.start⟩) ih

theorem gpath_to_avoid {P : Prog} {x y n : Label} (h : GPath (succsAvoid P y) n x) (hn : n ≠ y) :
    Avoid P x (· = y) n := by
  revert hn
  refine GPath.ind_to (motive := fun n => n ≠ y → Avoid P x (· = y) n) ?_ ?_ h
  · intro hx; exact Avoid.here hx
  · intro n s hs _ ih hn
    have := mem_succsAvoid.mp hs
    exact Avoid.step hn this.1 (ih this.2)

theorem avoidB_iff {P : Prog} (hwf : WFp P) {x y n : Label} (hn : n ∈ P.labels) :
    P.avoidB x y n = true ↔ Avoid P x (· = y) n := by
  unfold Prog.avoidB
  constructor
  · intro h
    simp only [Bool.and_eq_true, bne_iff_ne, ne_eq, List.contains_iff_mem] at h
    rcases reachFrom_sound _ _ _ _ _ h.2 with h1 | ⟨w, hw, hp⟩
    · cases h1
    · have : w = n := by simpa using hw
      subst this
      exact gpath_to_avoid hp h.1
  · intro h
    simp only [Bool.and_eq_true, bne_iff_ne, ne_eq, List.contains_iff_mem]
    refine ⟨h.start, ?_⟩
    rw [reachFuel_eq]
    exact reachFrom_complete _ P.labels (wf_next_avoid hwf y) n hn (avoid_to_gpath h)

theorem pdomB_iff {P : Prog} (hwf : WFp P) {x y n : Label} (hn : n ∈ P.labels) :
    P.pdomB x y n = true ↔ PDom P x y n := by
  unfold Prog.pdomB PDom
  rw [← avoidB_iff hwf hn]
  cases P.avoidB x y n <;> simp

theorem GPath.reverse' {P : Prog} (hwf : WFp P) {a b : Label} (h : GPath P.predsOf a b) : GPath P.succsOf b a := by
  induction h with
  | refl _ => exact GPath.refl _
  | step hm _ ih => exact ih.snoc ((hwf.sym _ _).mpr hm)

theorem coReachable_iff {P : Prog} (hwf : WFp P) {x l : Label} (hx : x ∈ P.labels) :
    l ∈ P.coReachable x ↔ CoReach P x l := by
  constructor
  · intro h
    unfold Prog.coReachable at h
    rcases reachFrom_sound _ _ _ _ _ h with h1 | ⟨w, hw, hp⟩
    · cases h1
    · have : w = x := by simpa using hw
      subst this
      exact hp.reverse' hwf
  · exact coReachable_complete hwf hx

/-- a block that reaches the exit is a block -/
theorem CoReach.label {P : Prog} (hwf : WFp P) {x n : Label} (hx : x ∈ P.labels) (h : CoReach P x n) :
    n ∈ P.labels := by
  cases h with
  | refl _ => exact hx
  | step hs _ =>
    have := (hwf.sym _ _).mp hs
    exact mem_labels_of_pred this |> fun _ => by
      -- the source of an edge is a block: its successor list is not empty
      apply Classical.byContradiction
      intro hno
      have : P.block? n = none := block?_none_iff.mpr hno
      simp [Prog.succsOf, this] at hs

theorem gpath_label {P : Prog} (hwf : WFp P) {a b : Label} (ha : a ∈ P.labels) (h : GPath P.succsOf a b) :
    b ∈ P.labels := by
  induction h with
  | refl _ => exact ha
  | step hs _ ih => exact ih (hwf.succ_lab _ _ hs)

/-! ### the immediate post-dominator -/

theorem mem_spdoms {P : Prog} (hwf : WFp P) {x n y : Label} (hn : n ∈ P.labels) :
    y ∈ P.spdoms x n ↔ y ∈ P.labels ∧ y ≠ n ∧ PDom P x y n := by
  simp only [Prog.spdoms, List.mem_filter, Bool.and_eq_true, bne_iff_ne, ne_eq, pdomB_iff hwf hn]

/-- a nonempty list of post-dominators of a block that reaches the exit has a member that all
    of them post-dominate -/
theorem exists_closest {P : Prog} {x n : Label} (hco : CoReach P x n) :
    ∀ (L : List Label), L ≠ [] → (∀ y, y ∈ L → PDom P x y n) → ∃ p, p ∈ L ∧ ∀ y, y ∈ L → PDom P x y p := by
  intro L
  induction L with
  | nil => intro h; exact absurd rfl h
  | cons z r ih =>
    intro _ hall
    cases r with
    | nil =>
      refine ⟨z, List.mem_cons_self, ?_⟩
      intro y hy
      have : y = z := by simpa using hy
      subst this
      exact PDom.refl P x y
    | cons z' r' =>
      obtain ⟨p, hp, hmin⟩ := ih (by simp) (fun y hy => hall y (List.mem_cons_of_mem _ hy))
      rcases PDom.chain hco (hall z List.mem_cons_self) (hall p (List.mem_cons_of_mem _ hp)) with h | h
      · -- z post-dominates p: p stays the closest
        refine ⟨p, List.mem_cons_of_mem _ hp, ?_⟩
        intro y hy
        rcases List.mem_cons.mp hy with rfl | hy
        · exact h
        · exact hmin y hy
      · -- p post-dominates z: z is the closest
        refine ⟨z, List.mem_cons_self, ?_⟩
        intro y hy
        rcases List.mem_cons.mp hy with rfl | hy
        · exact PDom.refl P x y
        · exact PDom.trans (hmin y hy) h

/-- what `Prog.ipdom` answers -/
theorem ipdom_some {P : Prog} (hwf : WFp P) {x n p : Label} (hx : x ∈ P.labels) (hn : n ∈ P.labels)
    (h : P.ipdom x (P.coReachable x) n = some p) :
    p ∈ P.labels ∧ p ≠ n ∧ PDom P x p n ∧ CoReach P x n ∧ ∀ y, y ≠ n → PDom P x y n → PDom P x y p := by
  unfold Prog.ipdom at h
  split at h
  · cases h
  · rename_i hc
    simp only [Bool.or_eq_true, beq_iff_eq, Bool.not_eq_eq_eq_not, Bool.not_true, not_or,
      Bool.not_eq_false, List.contains_iff_mem] at hc
    have hco : CoReach P x n := (coReachable_iff hwf hx).mp hc.2
    have hmem := List.mem_of_find?_eq_some h
    have hq := List.find?_some h
    obtain ⟨hpl, hpn, hpd⟩ := (mem_spdoms hwf hn).mp hmem
    refine ⟨hpl, hpn, hpd, hco, ?_⟩
    intro y hyn hyd
    have hyl : y ∈ P.labels := gpath_label hwf hn (PDom.reach hco hyd).1
    have hy : y ∈ P.spdoms x n := (mem_spdoms hwf hn).mpr ⟨hyl, hyn, hyd⟩
    have := (List.all_eq_true.mp hq) y hy
    exact (pdomB_iff hwf hpl).mp this

theorem ipdom_exists {P : Prog} (hwf : WFp P) {x n : Label} (hx : x ∈ P.labels) (hn : n ∈ P.labels)
    (hco : CoReach P x n) (hnx : n ≠ x) : ∃ p, P.ipdom x (P.coReachable x) n = some p := by
  unfold Prog.ipdom
  have hc : (n == x || !(P.coReachable x).contains n) = false := by
    simp only [Bool.or_eq_false_iff, beq_eq_false_iff_ne, ne_eq, Bool.not_eq_eq_eq_not, Bool.not_false,
      List.contains_iff_mem]
    exact ⟨hnx, (coReachable_iff hwf hx).mpr hco⟩
  simp only [hc, Bool.false_eq_true, if_false]
  have hne : P.spdoms x n ≠ [] := by
    have : x ∈ P.spdoms x n := (mem_spdoms hwf hn).mpr ⟨hx, fun e => hnx e.symm, PDom.exit P x n⟩
    exact List.ne_nil_of_mem this
  obtain ⟨p, hp, hmin⟩ := exists_closest hco (P.spdoms x n) hne (fun y hy => ((mem_spdoms hwf hn).mp hy).2.2)
  have hpl := ((mem_spdoms hwf hn).mp hp).1
  cases hf : (P.spdoms x n).find? (fun p => (P.spdoms x n).all (fun y => P.pdomB x y p)) with
  | some q => exact ⟨q, rfl⟩
  | none =>
    have := List.find?_eq_none.mp hf p hp
    exfalso
    apply this
    apply List.all_eq_true.mpr
    intro y hy
    exact (pdomB_iff hwf hpl).mpr (hmin y hy)

theorem ipdom_none_of_exit {P : Prog} (x : Label) (co : List Label) : P.ipdom x co x = none := by
  simp [Prog.ipdom]

/-- the table answers like the function -/
theorem tabFn_ipdomTab {P : Prog} (x : Label) (co : List Label) {n : Label} (hn : n ∈ P.labels) :
    tabFn (P.ipdomTab x co) n = P.ipdom x co n := by
  unfold tabFn Prog.ipdomTab
  have : ∀ (L : List Label), n ∈ L → ((L.map (fun n => (n, P.ipdom x co n))).lookup n) = some (P.ipdom x co n) := by
    intro L
    induction L with
    | nil => intro h; cases h
    | cons a r ih =>
      intro h
      simp only [List.map_cons, List.lookup_cons]
      by_cases hna : n = a
      · subst hna; simp
      · have hb : (n == a) = false := by simpa using hna
        simp only [hb]
        exact ih ((List.mem_cons.mp h).resolve_left hna)
  rw [this P.labels hn]
  rfl

end TIR
end Crab
