import CrabModel.Lin.Term
import CrabProofs.Lemmas.LinSys

/-! Whole construction histories: replaying a history with the model operators gives an
    expression / constraint whose meaning is the mathematical meaning of the history. -/
namespace Crab.Lin
open Crab.Lin.Expr

namespace Term

/-- every expression built through the public operators satisfies the sorted-map invariant -/
theorem interp_sorted (t : Term) : t.interp.Sorted := by
  induction t with
  | num k => exact sorted_const k
  | var i => exact sorted_var i
  | term k i => exact sorted_term k i
  | add a b iha _ => exact sorted_add _ iha
  | sub a b iha _ => exact sorted_sub _ iha
  | neg a ih => exact sorted_neg ih
  | scale k a ih => exact sorted_scale k ih
  | addn a k ih => exact sorted_addNum k ih
  | subn a k ih => exact sorted_subNum k ih
  | addv a i ih => exact sorted_addVar i ih
  | subv a i ih => exact sorted_subVar i ih
  | nadd k a ih => exact sorted_addNum k ih
  | nsub k a _ => exact sorted_sub _ (sorted_const k)
  | vadd i a ih => exact sorted_addVar i ih
  | vsub i a _ => exact sorted_sub _ (sorted_term 1 i)
  | ren a m _ => exact sorted_rename _ m

/-- the value of the replayed expression is the meaning of the history -/
theorem eval_interp (t : Term) (σ : Var → Int) : t.interp.eval σ = t.den σ := by
  induction t generalizing σ with
  | num k => simp [interp, den]
  | var i => simp [interp, den]
  | term k i => simp [interp, den]
  | add a b iha ihb => simp [interp, den, eval_add, iha, ihb]
  | sub a b iha ihb => simp [interp, den, eval_sub, iha, ihb]
  | neg a ih => simp [interp, den, eval_neg, ih]
  | scale k a ih => simp [interp, den, eval_scale, ih]
  | addn a k ih => simp [interp, den, eval_addNum, ih]
  | subn a k ih => simp [interp, den, eval_subNum, ih]
  | addv a i ih => simp [interp, den, eval_addVar, ih]
  | subv a i ih => simp [interp, den, eval_subVar, ih]
  | nadd k a ih => simp [interp, den, eval_addNum, ih]; omega
  | nsub k a ih => simp [interp, den, eval_sub, ih]
  | vadd i a ih => simp [interp, den, eval_addVar, ih]; omega
  | vsub i a ih => simp [interp, den, eval_sub, ih]
  | ren a m ih => simp only [interp, den, eval_rename (interp_sorted a), ih]

/-- the replayed expression never stores a zero coefficient -/
theorem interp_noZero (t : Term) : t.interp.NoZero := by
  induction t with
  | num k => exact noZero_const k
  | var i => exact noZero_var i
  | term k i => exact noZero_term k i
  | add a b iha _ => exact noZero_add _ iha
  | sub a b iha _ => exact noZero_sub _ iha
  | neg a _ => exact noZero_neg _
  | scale k a _ => exact noZero_scale _ k
  | addn a k ih => exact noZero_addNum k ih
  | subn a k ih => exact noZero_subNum k ih
  | addv a i ih => exact noZero_addVar i ih
  | subv a i ih => exact noZero_subVar i ih
  | nadd k a ih => exact noZero_addNum k ih
  | nsub k a _ => exact noZero_sub _ (noZero_const k)
  | vadd i a ih => exact noZero_addVar i ih
  | vsub i a _ => exact noZero_sub _ (noZero_term 1 i)
  | ren a m _ => exact noZero_rename _ m

/-- every expression built through the public constructors and operators is canonical -/
theorem interp_canonical (t : Term) : t.interp.Canonical :=
  ⟨interp_sorted t, interp_noZero t⟩

end Term

namespace CTerm

theorem sat_relCst (op : Rel) (a b : Expr) (σ : Var → Int) :
    (relCst op a b).sat σ ↔ relHolds op (a.eval σ) (b.eval σ) := by
  cases op <;> simp only [relCst, Cst.sat, relHolds, eval_sub] <;> omega

theorem interp_sorted {c : CTerm} {r : Cst} (h : c.interp = some r) : r.expr.Sorted := by
  induction c generalizing r with
  | mk k t => simp only [interp, Option.some.injEq] at h; subst h; exact Term.interp_sorted t
  | rel op a b =>
    simp only [interp, Option.some.injEq] at h; subst h
    cases op <;> exact sorted_sub _ (Term.interp_sorted _)
  | negate c ih =>
    simp only [interp] at h
    cases hc : c.interp with
    | none => simp [hc] at h
    | some r' =>
      simp only [hc, Option.some.injEq] at h; subst h
      have hs := ih hc
      unfold Cst.negate Cst.negateWith
      split
      · exact sorted_const 0
      · split
        · exact sorted_const 0
        · obtain ⟨e, k⟩ := r'
          cases k
          · exact hs
          · exact hs
          · exact sorted_neg (sorted_subNum 1 hs)
          · exact sorted_neg hs
  | s2ns c ih =>
    simp only [interp] at h
    cases hc : c.interp with
    | none => simp [hc] at h
    | some r' =>
      simp only [hc] at h
      obtain ⟨_, hr⟩ := (Cst.strictToNonStrict_iff r' r).1 h
      subst hr
      exact sorted_addNum 1 (ih hc)
  | ren c m _ =>
    simp only [interp] at h
    cases hc : c.interp with
    | none => simp [hc] at h
    | some r' =>
      simp only [hc, Option.some.injEq] at h; subst h
      exact sorted_rename _ m

theorem interp_noZero {c : CTerm} {r : Cst} (h : c.interp = some r) : r.expr.NoZero := by
  induction c generalizing r with
  | mk k t => simp only [interp, Option.some.injEq] at h; subst h; exact Term.interp_noZero t
  | rel op a b =>
    simp only [interp, Option.some.injEq] at h; subst h
    cases op <;> exact noZero_sub _ (Term.interp_noZero _)
  | negate c ih =>
    simp only [interp] at h
    cases hc : c.interp with
    | none => simp [hc] at h
    | some r' =>
      simp only [hc, Option.some.injEq] at h; subst h
      have hs := ih hc
      unfold Cst.negate Cst.negateWith
      split
      · exact noZero_const 0
      · split
        · exact noZero_const 0
        · obtain ⟨e, k⟩ := r'
          cases k
          · exact hs
          · exact hs
          · exact noZero_neg _
          · exact noZero_neg _
  | s2ns c ih =>
    simp only [interp] at h
    cases hc : c.interp with
    | none => simp [hc] at h
    | some r' =>
      simp only [hc] at h
      obtain ⟨_, hr⟩ := (Cst.strictToNonStrict_iff r' r).1 h
      subst hr
      exact noZero_addNum 1 (ih hc)
  | ren c m _ =>
    simp only [interp] at h
    cases hc : c.interp with
    | none => simp [hc] at h
    | some r' =>
      simp only [hc, Option.some.injEq] at h; subst h
      exact noZero_rename _ m

/-- every constraint built through the public interface has a canonical expression -/
theorem interp_canonical {c : CTerm} {r : Cst} (h : c.interp = some r) : r.expr.Canonical :=
  ⟨interp_sorted h, interp_noZero h⟩

/-- the replayed constraint holds exactly where the history's meaning holds -/
theorem sat_interp {c : CTerm} {r : Cst} (h : c.interp = some r) (σ : Var → Int) :
    r.sat σ ↔ c.den σ := by
  induction c generalizing r σ with
  | mk k t =>
    simp only [interp, Option.some.injEq] at h; subst h
    cases k <;> simp [Cst.sat, den, kindHolds, Term.eval_interp]
  | rel op a b =>
    simp only [interp, Option.some.injEq] at h; subst h
    simp only [sat_relCst, den, Term.eval_interp]
  | negate c ih =>
    simp only [interp] at h
    cases hc : c.interp with
    | none => simp [hc] at h
    | some r' =>
      simp only [hc, Option.some.injEq] at h; subst h
      simp only [Cst.sat_negate, den, ih hc]
  | s2ns c ih =>
    simp only [interp] at h
    cases hc : c.interp with
    | none => simp [hc] at h
    | some r' =>
      simp only [hc] at h
      simp only [Cst.sat_strictToNonStrict h, den, ih hc]
  | ren c m ih =>
    simp only [interp] at h
    cases hc : c.interp with
    | none => simp [hc] at h
    | some r' =>
      simp only [hc, Option.some.injEq] at h; subst h
      simp only [Cst.sat_rename (interp_sorted hc), den, ih hc]

theorem denB_iff (c : CTerm) (σ : Var → Int) : c.denB σ = true ↔ c.den σ := by
  induction c generalizing σ with
  | mk k t => simp [denB, den]
  | rel op a b => simp [denB, den]
  | negate c ih => simp [denB, den, ← ih]
  | s2ns c ih => simp [denB, den, ih]
  | ren c m ih => simp [denB, den, ih]

end CTerm
end Crab.Lin
