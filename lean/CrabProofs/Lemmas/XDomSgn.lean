import CrabProofs.Lemmas.XDomLin
import CrabProofs.Lemmas.XDomStmt
import CrabProofs.Props.C08Fin
import CrabModel.Dom.SignDomain

/-!
  `sign_domain` (model `Crab.SDom`), scalar level: the table of `sign<z_number>` is total, the
  value lattice satisfies `XDom.Laws`, and the facts about the extracted table the constraint
  solving of the domain relies on — all of them decidable checks on the generated table
  (`decide +kernel`), so they are re-established whenever the table is regenerated.
-/
namespace Crab
namespace SDom
open XDom Lin

local notation "SL" => signLattice

/-! ### sign arithmetic on integers -/

theorem mul_sign (a b : Int) :
    (0 < a → 0 < b → 0 < a * b) ∧ (0 < a → b < 0 → a * b < 0) ∧ (a < 0 → 0 < b → a * b < 0) ∧
    (a < 0 → b < 0 → 0 < a * b) ∧ (a = 0 → a * b = 0) ∧ (b = 0 → a * b = 0) :=
  ⟨Int.mul_pos, Int.mul_neg_of_pos_of_neg, Int.mul_neg_of_neg_of_pos, Int.mul_pos_of_neg_of_neg,
   fun h => by rw [h, Int.zero_mul], fun h => by rw [h, Int.mul_zero]⟩

theorem mem_ltz {k : Int} : Sign.mem k .ltz ↔ k < 0 := by
  rcases Cls.of_cases k with ⟨h, e⟩ | ⟨h, e⟩ | ⟨h, e⟩ <;> simp [Sign.mem, Sign.has, e] <;> omega
theorem mem_gtz {k : Int} : Sign.mem k .gtz ↔ 0 < k := by
  rcases Cls.of_cases k with ⟨h, e⟩ | ⟨h, e⟩ | ⟨h, e⟩ <;> simp [Sign.mem, Sign.has, e] <;> omega
theorem mem_eqz {k : Int} : Sign.mem k .eqz ↔ k = 0 := by
  rcases Cls.of_cases k with ⟨h, e⟩ | ⟨h, e⟩ | ⟨h, e⟩ <;> simp [Sign.mem, Sign.has, e] <;> omega
theorem mem_nez {k : Int} : Sign.mem k .nez ↔ k ≠ 0 := by
  rcases Cls.of_cases k with ⟨h, e⟩ | ⟨h, e⟩ | ⟨h, e⟩ <;> simp [Sign.mem, Sign.has, e] <;> omega
theorem mem_gez {k : Int} : Sign.mem k .gez ↔ 0 ≤ k := by
  rcases Cls.of_cases k with ⟨h, e⟩ | ⟨h, e⟩ | ⟨h, e⟩ <;> simp [Sign.mem, Sign.has, e] <;> omega
theorem mem_lez {k : Int} : Sign.mem k .lez ↔ k ≤ 0 := by
  rcases Cls.of_cases k with ⟨h, e⟩ | ⟨h, e⟩ | ⟨h, e⟩ <;> simp [Sign.mem, Sign.has, e] <;> omega
theorem not_mem_bot (k : Int) : ¬ Sign.mem k .bot := by simp [Sign.mem, Sign.has]
theorem mem_top (k : Int) : Sign.mem k .top := by simp [Sign.mem, Sign.has]

/-! ### the table is total -/

theorem SOp.mem_all' (op : SOp) : op ∈ SOp.all := by cases op <;> decide

/-- every one of the 15 × 8 × 8 lookups succeeds -/
def totalCheck : Bool :=
  SOp.all.all (fun op => Sign.all.all (fun x => Sign.all.all (fun y => (Sign.binop op x y).isSome)))

theorem totalCheck_ok : totalCheck = true := by decide +kernel

/-- the total wrapper `sop` returns the answer of the table -/
theorem binop_eq_sop (op : SOp) (x y : Sign) : Sign.binop op x y = some (sop op x y) := by
  have h1 := List.all_eq_true.mp totalCheck_ok op (SOp.mem_all' op)
  have h2 := List.all_eq_true.mp h1 x (Sign.mem_all x)
  have h3 := List.all_eq_true.mp h2 y (Sign.mem_all y)
  unfold sop
  cases h : Sign.binop op x y with
  | none => rw [h] at h3; cases h3
  | some r => rfl

/-- every operation of `sign` over-approximates the concrete one (total form of `C08.sgn_op_sound`) -/
theorem sop_sound (op : SOp) {x y : Sign} {a b r : Int} (ha : Sign.mem a x) (hb : Sign.mem b y)
    (hc : op.conc a b = some r) : Sign.mem r (sop op x y) :=
  C08.sgn_op_sound op x y _ a b r (binop_eq_sop op x y) ha hb hc

theorem join_upper {x y : Sign} {k : Int} (h : Sign.mem k x ∨ Sign.mem k y) : Sign.mem k (sop .join x y) :=
  C08.sgn_join_upper x y _ k (binop_eq_sop .join x y) h

theorem meet_sound {x y : Sign} {k : Int} (hx : Sign.mem k x) (hy : Sign.mem k y) : Sign.mem k (sop .meet x y) :=
  C08.sgn_meet_sound x y _ k (binop_eq_sop .meet x y) hx hy

/-! ### lattice facts read off the table -/

/-- on stored values (neither bottom nor top): join and meet are idempotent, the join of two of
    them is not bottom, their meet is not top; the meet is below both arguments (all values) -/
def latticeCheck : Bool :=
  Sign.all.all (fun x => Sign.all.all (fun y =>
    let st := fun (s : Sign) => s != .bot && s != .top
    (!st x || (sop .join x x == x && sop .meet x x == x)) &&
    (!(st x && st y) || (sop .join x y != .bot && sop .meet x y != .top)) &&
    Cls.all.all (fun c => !(sop .meet x y).has c || (x.has c && y.has c))))

theorem latticeCheck_ok : latticeCheck = true := by decide +kernel

theorem lattice_facts (x y : Sign) :
    ((x ≠ .bot ∧ x ≠ .top) → sop .join x x = x ∧ sop .meet x x = x) ∧
    ((x ≠ .bot ∧ x ≠ .top) → (y ≠ .bot ∧ y ≠ .top) → sop .join x y ≠ .bot ∧ sop .meet x y ≠ .top) ∧
    (∀ c, (sop .meet x y).has c = true → x.has c = true ∧ y.has c = true) := by
  have h1 := List.all_eq_true.mp latticeCheck_ok x (Sign.mem_all x)
  have h2 := List.all_eq_true.mp h1 y (Sign.mem_all y)
  simp only [Bool.and_eq_true, Bool.or_eq_true, Bool.not_eq_true', bne_iff_ne, ne_eq, beq_iff_eq,
    List.all_eq_true, Bool.and_eq_false_iff, bne_eq_false_iff_eq] at h2
  obtain ⟨⟨h3, h4⟩, h5⟩ := h2
  refine ⟨fun hx => ?_, fun hx hy => ?_, fun c hc => ?_⟩
  · rcases h3 with h | h
    · rcases h with h | h
      · exact absurd h hx.1
      · exact absurd h hx.2
    · exact h
  · rcases h4 with h | h
    · rcases h with h | h
      · rcases h with h | h
        · exact absurd h hx.1
        · exact absurd h hx.2
      · rcases h with h | h
        · exact absurd h hy.1
        · exact absurd h hy.2
    · exact h
  · rcases h5 c (Cls.mem_all c) with h | h
    · rw [h] at hc; cases hc
    · exact h

/-- `operator<=` / `operator==` of the table, through the total wrappers of the lattice -/
theorem beq_eq (x y : Sign) : Sign.beq x y = some (decide (x = y)) := by
  have h1 := List.all_eq_true.mp C08.sgn_leq_table_exact x (Sign.mem_all x)
  have h2 := List.all_eq_true.mp h1 y (Sign.mem_all y)
  simp only [Bool.and_eq_true, beq_iff_eq] at h2
  exact h2.2

/-- `sign<z_number>` has no representation invariant -/
instance : GoodVal Sign := ⟨fun _ => True⟩

theorem stored_iff (v : Sign) : Stored SL v ↔ (v ≠ .bot ∧ v ≠ .top) := by
  simp [Stored, signLattice, GoodVal.good]

/-- `sign<z_number>` satisfies the laws the environment needs -/
theorem signLaws : Laws SL Sign.mem where
  isTop_top := rfl
  isBottom_top := rfl
  isBottom_bottom := rfl
  good_top := trivial
  good_bottom := trivial
  mem_top := mem_top
  not_mem_bottom := fun v k h => by
    have : v = .bot := by simpa [signLattice] using h
    rw [this]; exact not_mem_bot k
  beq_sound := fun x y h => by
    simp only [signLattice, beq_eq, Option.getD_some, decide_eq_true_eq] at h
    exact h
  leq_refl := fun x _ => by simp [signLattice, C08.sgn_leq_refl]
  leq_sound := fun x y k h hk => by
    apply C08.sgn_leq_sound x y _ k hk
    simp only [signLattice] at h
    cases hq : Sign.leq x y with
    | none => rw [hq] at h; cases h
    | some b => rw [hq] at h; simp only [Option.getD_some] at h; rw [h]
  nonbot_mem := fun v h => by
    have hv : v ≠ .bot := by simpa [signLattice] using h
    cases v
    · exact absurd rfl hv
    · exact ⟨-1, by decide⟩
    · exact ⟨1, by decide⟩
    · exact ⟨0, by decide⟩
    · exact ⟨1, by decide⟩
    · exact ⟨0, by decide⟩
    · exact ⟨0, by decide⟩
    · exact ⟨0, by decide⟩
  nontop_out := fun v h => by
    obtain ⟨h1, h2⟩ := (stored_iff v).mp h
    cases v
    · exact absurd rfl h1
    · exact ⟨0, by decide⟩
    · exact ⟨0, by decide⟩
    · exact ⟨1, by decide⟩
    · exact ⟨0, by decide⟩
    · exact ⟨-1, by decide⟩
    · exact ⟨1, by decide⟩
    · exact absurd rfl h2
  join :=
    { upper := fun _ _ _ h => join_upper h
      idem := fun x h => ((lattice_facts x x).1 ((stored_iff x).mp h)).1
      good := fun _ _ _ _ => trivial
      nonbot := fun x y hx hy => by
        have := ((lattice_facts x y).2.1 ((stored_iff x).mp hx) ((stored_iff y).mp hy)).1
        simpa [signLattice] using this }
  widen :=
    { upper := fun _ _ _ h => join_upper h
      idem := fun x h => ((lattice_facts x x).1 ((stored_iff x).mp h)).1
      good := fun _ _ _ _ => trivial
      nonbot := fun x y hx hy => by
        have := ((lattice_facts x y).2.1 ((stored_iff x).mp hx) ((stored_iff y).mp hy)).1
        simpa [signLattice] using this }
  meet :=
    { sound := fun _ _ _ h1 h2 => meet_sound h1 h2
      idem := fun x h => ((lattice_facts x x).1 ((stored_iff x).mp h)).2
      good := fun _ _ _ _ => trivial
      nontop := fun x y hx hy _ => by
        have := ((lattice_facts x y).2.1 ((stored_iff x).mp hx) ((stored_iff y).mp hy)).2
        simpa [signLattice] using this }
  narrow :=
    { sound := fun _ _ _ h1 h2 => meet_sound h1 h2
      idem := fun x h => ((lattice_facts x x).1 ((stored_iff x).mp h)).2
      good := fun _ _ _ _ => trivial
      nontop := fun x y hx hy _ => by
        have := ((lattice_facts x y).2.1 ((stored_iff x).mp hx) ((stored_iff y).mp hy)).2
        simpa [signLattice] using this }

/-- the meet of the table is below both arguments -/
theorem meet_lower {x y : Sign} {k : Int} (h : Sign.mem k (sop .meet x y)) : Sign.mem k x ∧ Sign.mem k y :=
  (lattice_facts x y).2.2 (Cls.of k) h

end SDom
end Crab
