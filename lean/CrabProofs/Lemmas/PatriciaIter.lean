import CrabProofs.Lemmas.PatriciaWF

/-! The explicit-stack iterator of `tree` delivers exactly the in-order list of bindings. -/
namespace Crab
namespace Patricia
open Tree

variable {V : Type}

/-- no empty child anywhere (part of well-formedness) -/
def NE : Tree V → Prop
  | .empty => True
  | .leaf _ _ => True
  | .node _ _ l r => l ≠ .empty ∧ r ≠ .empty ∧ NE l ∧ NE r

theorem WF.ne {P : V → Prop} {t : Tree V} (h : WF P t) : NE t := by
  induction t with
  | empty => trivial
  | leaf k v => trivial
  | node p m l r ihl ihr =>
    obtain ⟨_, _, _, _, _, h1, h2, w1, w2, _⟩ := h
    exact ⟨h1, h2, ihl w1, ihr w2⟩

/-- the stack only holds nodes entered through their left branch -/
def StackOK (F : Nat) (st : List (Tree V × Nat)) : Prop :=
  ∀ e ∈ st, e.2 = 0 ∧ NE e.1 ∧ e.1.height ≤ F ∧ ∃ p m l r, e.1 = .node p m l r

/-- the bindings still to be delivered after the current leaf -/
def pending (st : List (Tree V × Nat)) : List (Nat × V) := st.flatMap (fun e => e.1.rightB.toList)

theorem descend (F : Nat) :
    ∀ (fuel : Nat) (t : Tree V) (c : Tree V) (st : List (Tree V × Nat)), NE t → t ≠ .empty →
      t.height ≤ fuel → t.height ≤ F → StackOK F st →
      ∃ k v st', lookForNextLeaf fuel t ⟨c, st⟩ = ⟨.leaf k v, st'⟩ ∧ StackOK F st' ∧
        (k, v) :: pending st' = t.toList ++ pending st := by
  intro fuel
  induction fuel with
  | zero =>
    intro t c st _ hne hh _ _
    cases t <;> simp [Tree.height] at hh
    exact absurd rfl hne
  | succ fuel ih =>
    intro t c st hn hne hh hF hst
    cases t with
    | empty => exact absurd rfl hne
    | leaf k v => exact ⟨k, v, st, rfl, hst, rfl⟩
    | node p m l r =>
      obtain ⟨n1, n2, w1, w2⟩ := hn
      simp only [Tree.height] at hh hF
      have hl : l.height ≤ fuel := by omega
      have hlF : l.height ≤ F := by omega
      have hst' : StackOK F ((Tree.node p m l r, 0) :: st) := by
        intro e he
        simp at he
        rcases he with rfl | he
        · exact ⟨rfl, ⟨n1, n2, w1, w2⟩, by simpa [Tree.height] using hF, p, m, l, r, rfl⟩
        · exact hst e he
      obtain ⟨k, v, st', e1, e2, e3⟩ := ih l c ((Tree.node p m l r, 0) :: st) w1 n1 hl hlF hst'
      refine ⟨k, v, st', ?_, e2, ?_⟩
      · simp only [lookForNextLeaf]; exact e1
      · rw [e3]; simp [pending, Tree.rightB]

theorem increment_spec (F : Nat) {k : Nat} {v : V} {st : List (Tree V × Nat)} (hst : StackOK F st) :
    (st = [] ∧ (⟨.leaf k v, st⟩ : Iter V).increment (F + 1) = some ⟨.empty, []⟩) ∨
    (∃ k' v' st', (⟨.leaf k v, st⟩ : Iter V).increment (F + 1) = some ⟨.leaf k' v', st'⟩ ∧ StackOK F st' ∧
      (k', v') :: pending st' = pending st) := by
  cases st with
  | nil => exact Or.inl ⟨rfl, rfl⟩
  | cons e rest =>
    right
    obtain ⟨h0, hn, hh, p, m, l, r, he⟩ := hst e (by simp)
    obtain ⟨e1, e2⟩ := e
    simp only at h0 he
    subst h0 he
    have hrest : StackOK F rest := fun x hx => hst x (by simp [hx])
    obtain ⟨_, n2, _, w2⟩ := hn
    have hr : r.height ≤ F := by
      simp only [Tree.height] at hh
      omega
    obtain ⟨k', v', st', a1, a2, a3⟩ := descend F (F + 1) r .empty rest w2 n2 (by omega) hr hrest
    refine ⟨k', v', st', ?_, a2, ?_⟩
    · simp only [Iter.increment, Tree.isEmpty, popLoop, Bool.false_eq_true, if_false]
      simp [Tree.rightB, a1]
    · rw [a3]; simp [pending, Tree.rightB]

theorem collect_spec (F : Nat) :
    ∀ (n : Nat) (k : Nat) (v : V) (st : List (Tree V × Nat)), StackOK F st → (pending st).length < n →
      iterCollect (F + 1) n ⟨.leaf k v, st⟩ = some ((k, v) :: pending st) := by
  intro n
  induction n with
  | zero => intro k v st _ h; omega
  | succ n ih =>
    intro k v st hst hlen
    simp only [iterCollect]
    rcases increment_spec F (k := k) (v := v) hst with ⟨rfl, h⟩ | ⟨k', v', st', h, hst', hp⟩
    · rw [h]
      cases n with
      | zero => simp [iterCollect, pending]
      | succ n => simp [iterCollect, pending]
    · rw [h]
      have hl : (pending st').length < n := by
        have := congrArg List.length hp
        simp at this; omega
      simp only [ih k' v' st' hst' hl, hp]

/-- **the iterator delivers the in-order list of bindings** and never raises CRAB_ERROR -/
theorem iterate_eq_toList {t : Tree V} (hn : NE t) : iterate t = some t.toList := by
  unfold iterate Iter.begin
  by_cases he : t = .empty
  · subst he
    simp [lookForNextLeaf, popLoop, iterCollect]
  · obtain ⟨k, v, st', e1, e2, e3⟩ := descend t.height (t.height + 1) t .empty [] hn he (by omega)
      (Nat.le_refl _) (fun _ h => by cases h)
    rw [e1]
    have e3' : (k, v) :: pending st' = t.toList := by simpa [pending] using e3
    have hl : (pending st').length < t.size + 1 := by
      have := congrArg List.length e3'
      rw [size_eq_length]
      simp at this; omega
    rw [collect_spec t.height (t.size + 1) k v st' e2 hl, e3']

end Patricia
end Crab
