import CrabProofs.Lemmas.WtoStepB

/-! The step of `visitLoop` that pops a finished frame whose node is not the root of a component:
    its segment of the vertex stack is handed over to the parent frame. -/
namespace Crab
namespace Wto

/-- the parent frame after the child frame `p` has been popped ("propagate min") -/
def GF.merged (q p : GF) : GF :=
  { f := { node := q.f.node, succs := q.f.succs, min := if q.f.min > p.f.min then p.f.min else q.f.min },
    above := p.seg ++ q.above, done := q.done }

theorem Inv.of_same_stk {g : Graph} {K : Nat → Prop} {st0 : St} {part0 : List WtoC} {v : Nat}
    {gs gs' : List GF} {ln : List Nat} {part : List WtoC} {st : St} {W : List WtoC}
    (h : Inv g K st0 part0 v gs ln part st W) (hstk : stk gs' = stk gs)
    (hf : ∀ p ∈ gs', FrameOK g st0.num (dn st.dfn) ln (DoneNow st0 W) (stk gs) p)
    (hc : ChainOK g gs') : Inv g K st0 part0 v gs' ln part st W :=
  ⟨h.part_eq, by rw [hstk]; exact h.stack_eq, h.size_eq, h.num_ge, h.dfn_W,
    by rw [hstk]; exact h.dfn_stk, by rw [hstk]; exact h.dfn_other, by rw [hstk]; exact h.sorted,
    h.W_nodup, h.W_K, by rw [hstk]; exact h.stk_K, by rw [hstk]; exact h.disj, h.W_edges,
    by rw [hstk]; exact hf, hc, by rw [hstk]; exact h.root_in⟩

section
variable {g : Graph} {K : Nat → Prop} {st0 : St} {part0 : List WtoC} {v : Nat}
  {p : GF} {gs : List GF} {ln : List Nat} {part : List WtoC} {st : St} {W : List WtoC}

/-- the dfn of the node of the top frame -/
theorem Inv.node_dfn (h : Inv g K st0 part0 v (p :: gs) ln part st W) :
    getDfn st.dfn p.f.node = .fin (dn st.dfn p.f.node) := by
  obtain ⟨k, hk, _, _⟩ := h.dfn_stk _ h.node_mem_stk
  rw [dn_of_getDfn hk, hk]

/-- a frame whose node is not a root has a parent frame -/
theorem Inv.nonroot_has_parent (h : Inv g K st0 part0 v (p :: gs) ln part st W)
    (hlt : p.f.min < dn st.dfn p.f.node) : ∃ q gs', gs = q :: gs' := by
  cases gs with
  | cons q gs' => exact ⟨q, gs', rfl⟩
  | nil =>
    exfalso
    rcases h.top_frame.min_wit with he | ⟨z, _, hzS, hzd⟩
    · omega
    · have hs := h.sorted
      simp only [stk_cons, stk_nil, List.append_nil, GF.seg] at hs hzS
      rcases List.mem_append.1 hzS with hz | hz
      · have := sorted_above_gt (b := []) hs hz
        omega
      · simp at hz; subst hz; omega
end

theorem Inv.step_merge {g : Graph} {K : Nat → Prop} {st0 : St} {part0 : List WtoC} {v : Nat}
    {p q : GF} {gs : List GF} {ln : List Nat} {part : List WtoC} {st : St} {W : List WtoC}
    (h : Inv g K st0 part0 v (p :: q :: gs) ln part st W) (hs : p.f.succs = [])
    (hlt : p.f.min < dn st.dfn p.f.node) :
    Inv g K st0 part0 v (q.merged p :: gs) ln part st W := by
  have hp := h.top_frame
  have hq := h.frames q (by simp)
  have hstk : stk (q.merged p :: gs) = stk (p :: q :: gs) := by
    simp [stk_cons, GF.seg, GF.merged]
  have hsorted := h.sorted
  simp only [stk_cons, GF.seg] at hsorted
  -- q.node is below p.node on the stack
  have hqp : dn st.dfn q.f.node < dn st.dfn p.f.node := by
    have : (p.above ++ p.f.node :: (q.above ++ q.f.node :: stk gs)).Pairwise
        (fun a b => dn st.dfn a > dn st.dfn b) := by
      simpa [List.append_assoc] using hsorted
    exact sorted_below_lt this (by simp)
  have hmle_q : (q.merged p).f.min ≤ q.f.min := by
    simp only [GF.merged]; split <;> omega
  have hmle_p : (q.merged p).f.min ≤ p.f.min := by
    simp only [GF.merged]; split <;> omega
  have hsuccp : g.succ p.f.node = p.done := by rw [hp.succ_eq, hs]; simp
  apply h.of_same_stk hstk
  · intro r hr
    rcases List.mem_cons.1 hr with rfl | hr
    · refine ⟨hq.succ_eq, ?_, Nat.le_trans hmle_q hq.min_le, ?_, ?_, ?_, ?_, ?_, ?_⟩
      · simp only [GF.merged]; split
        · exact hp.min_gt
        · exact hq.min_gt
      · intro y hy
        rcases hq.ex_node y hy with hd | ⟨hyS, hle⟩
        · exact Or.inl hd
        · exact Or.inr ⟨hyS, Nat.le_trans hmle_q hle⟩
      · intro x hx y hy
        simp only [GF.merged, GF.seg, List.mem_append, List.mem_singleton] at hx
        rcases hx with (hx | hx) | hx
        · rcases hp.ex_above x hx y hy with hd | ⟨hyS, hle⟩
          · exact Or.inl hd
          · exact Or.inr ⟨hyS, Nat.le_trans hmle_p hle⟩
        · subst hx
          rw [hsuccp] at hy
          rcases hp.ex_node y hy with hd | ⟨hyS, hle⟩
          · exact Or.inl hd
          · exact Or.inr ⟨hyS, Nat.le_trans hmle_p hle⟩
        · rcases hq.ex_above x hx y hy with hd | ⟨hyS, hle⟩
          · exact Or.inl hd
          · exact Or.inr ⟨hyS, Nat.le_trans hmle_q hle⟩
      · by_cases hgt : q.f.min > p.f.min
        · have hm : (q.merged p).f.min = p.f.min := by simp [GF.merged, hgt]
          rcases hp.min_wit with he | ⟨z, hz, hzS, hzd⟩
          · omega
          · exact Or.inr ⟨z, hz, hzS, by rw [hm]; exact hzd⟩
        · have hm : (q.merged p).f.min = q.f.min := by simp [GF.merged, hgt]
          rcases hq.min_wit with he | ⟨z, hz, hzS, hzd⟩
          · exact Or.inl (by rw [hm]; exact he)
          · exact Or.inr ⟨z, hz, hzS, by rw [hm]; exact hzd⟩
      · intro x hx
        simp only [GF.merged, GF.seg, List.mem_append, List.mem_singleton] at hx
        rcases hx with (hx | hx) | hx
        · obtain ⟨z, hz, hzS, h1, h2⟩ := hp.above_wit x hx
          exact ⟨z, hz, hzS, Nat.le_trans hmle_p h1, h2⟩
        · subst hx
          rcases hp.min_wit with he | ⟨z, hz, hzS, hzd⟩
          · omega
          · exact ⟨z, hz, hzS, by omega, by omega⟩
        · obtain ⟨z, hz, hzS, h1, h2⟩ := hq.above_wit x hx
          exact ⟨z, hz, hzS, Nat.le_trans hmle_q h1, h2⟩
      · intro hd
        rcases hq.self_loop hd with h1 | h1
        · exact Or.inl h1
        · exact Or.inr (Nat.lt_of_le_of_lt hmle_q h1)
      · intro x hx
        simp only [GF.merged, GF.seg, List.mem_append, List.mem_singleton] at hx
        rcases hx with (hx | hx) | hx
        · obtain ⟨r, hr, h1, h2⟩ := hp.parent x hx
          refine ⟨r, ?_, h1, h2⟩
          simp only [GF.seg, GF.merged, List.mem_append, List.mem_singleton] at hr ⊢
          rcases hr with hr | hr
          · exact Or.inl (Or.inl (Or.inl hr))
          · exact Or.inl (Or.inl (Or.inr hr))
        · subst hx
          refine ⟨q.f.node, by simp [GF.seg, GF.merged], hqp, h.chain.1⟩
        · obtain ⟨r, hr, h1, h2⟩ := hq.parent x hx
          refine ⟨r, ?_, h1, h2⟩
          simp only [GF.seg, GF.merged, List.mem_append, List.mem_singleton] at hr ⊢
          rcases hr with hr | hr
          · exact Or.inl (Or.inr hr)
          · exact Or.inr hr
    · exact h.frames r (List.mem_cons_of_mem _ (List.mem_cons_of_mem _ hr))
  · exact ChainOK.congr_head (p := q) (p' := q.merged p) rfl h.chain.tail

end Wto
end Crab
