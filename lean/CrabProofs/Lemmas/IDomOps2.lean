import CrabProofs.Lemmas.IDomOps

/-!
  Soundness of the transformers of the interval domain, second part: `apply`, `select`, `forget`,
  `project`, `expand`, `rename`, integer casts, `to_linear_constraint_system`.
-/
namespace Crab
namespace IDom
open Lin

/-! ### concrete meaning of the arithmetic and bitwise operations (mathematical integers) -/

/-- `none`: the operation has no successor state (division by zero) or crab gives it no meaning on
    mathematical integers (unsigned operations on negative operands) -/
def ArithOp.conc : ArithOp → Int → Int → Option Int
  | .add, a, b => some (a + b)
  | .sub, a, b => some (a - b)
  | .mul, a, b => some (a * b)
  | .sdiv, a, b => if b = 0 then none else some (Int.tdiv a b)
  | .udiv, a, b => if 0 ≤ a ∧ 0 < b then some (a / b) else none
  | .srem, a, b => if b = 0 then none else some (Int.tmod a b)
  | .urem, a, b => if 0 ≤ a ∧ 0 < b then some (a % b) else none

def BitOp.conc : BitOp → Int → Int → Option Int
  | .and, a, b => some (ZNum.land a b)
  | .or, a, b => some (ZNum.lor a b)
  | .xor, a, b => some (ZNum.lxor a b)
  | .shl, a, k => if 0 ≤ k then some (a * 2 ^ k.toNat) else none
  | .lshr, a, k => if 0 ≤ k then some (a / 2 ^ k.toNat) else none
  | .ashr, a, k => if 0 ≤ k then some (a / 2 ^ k.toNat) else none

theorem ArithOp.eval_sound (op : ArithOp) {yi zi : Itv} {a b c : Int} (ha : Itv.mem a yi) (hb : Itv.mem b zi)
    (h : op.conc a b = some c) : Itv.mem c (op.eval yi zi) := by
  cases op <;> simp only [ArithOp.conc, ArithOp.eval] at h ⊢
  · simp only [Option.some.injEq] at h; subst h; exact addT_sound ha hb
  · simp only [Option.some.injEq] at h; subst h; exact subT_sound ha hb
  · simp only [Option.some.injEq] at h; subst h; exact Itv.mul_sound ha hb
  · split at h
    · simp at h
    · rename_i hb0; simp only [Option.some.injEq] at h; subst h; exact divT_sound ha hb hb0
  · exact Itv.udiv_sound ha hb c
  · split at h
    · simp at h
    · rename_i hb0; simp only [Option.some.injEq] at h; subst h; exact Itv.srem_sound ha hb hb0
  · split at h
    · rename_i hh; simp only [Option.some.injEq] at h; subst h; exact Itv.urem_sound ha hb hh.1 hh.2
    · simp at h

/-- every bitwise operation except `LShr` by an amount `≥ 2^64` -/
theorem BitOp.eval_sound (op : BitOp) {yi zi : Itv} {a b c : Int} (ha : Itv.mem a yi) (hb : Itv.mem b zi)
    (h : op.conc a b = some c) (h64 : op = .lshr → b < 2 ^ 64) : Itv.mem c (op.eval yi zi) := by
  cases op <;> simp only [BitOp.conc, BitOp.eval] at h ⊢
  · simp only [Option.some.injEq] at h; subst h; exact Itv.and_sound ha hb
  · simp only [Option.some.injEq] at h; subst h; exact Itv.or_sound ha hb
  · simp only [Option.some.injEq] at h; subst h; exact Itv.xor_sound ha hb
  · split at h
    · rename_i h0; simp only [Option.some.injEq] at h; subst h; exact Itv.shl_sound ha hb h0
    · simp at h
  · split at h
    · rename_i h0; simp only [Option.some.injEq] at h; subst h; exact Itv.lshr_sound ha hb h0 (h64 rfl)
    · simp at h
  · split at h
    · rename_i h0; simp only [Option.some.injEq] at h; subst h; exact Itv.ashr_sound ha hb h0
    · simp at h

namespace Env

theorem γ_of_isTop {e : Env} (h : e.isTop = true) (σ : State) : γ e σ := by
  unfold isTop at h
  simp only [Bool.and_eq_true, Bool.not_eq_eq_eq_not, Bool.not_true, List.isEmpty_iff] at h
  rw [γ_iff_of_not_bottom h.1]
  intro x v hv
  rw [h.2] at hv; simp [Map.find] at hv

/-! ### select -/

theorem select_sound {e : Env} {σ : State} (hg : γ e σ) (lhs : Var) {cond : Cst} (hc : cond.expr.Canonical)
    (e1 e2 : Expr) :
    γ (e.select lhs cond e1 e2) (upd σ lhs (if cond.sat σ then e1.eval σ else e2.eval σ)) := by
  unfold select
  simp only [hg.1, Bool.false_eq_true, if_false]
  split
  · rename_i hb
    have hn : ¬ cond.sat σ := by
      intro hs
      have := add_sound hg (csts := [cond]) (by simpa using hc) (by intro c' hc'; simp at hc'; subst hc'; exact hs)
      exact not_γ_bottom hb σ this
    simp only [hn, if_false]
    exact assign_sound hg lhs e2
  · split
    · rename_i hb
      have hs : cond.sat σ := by
        apply Classical.byContradiction
        intro hn
        have := add_sound hg (csts := [cond.negate]) (by simpa using canonical_negate hc)
          (by intro c' hc'; simp at hc'; subst hc'; exact (Cst.sat_negate cond σ).2 hn)
        exact not_γ_bottom hb σ this
      simp only [hs, if_true]
      exact assign_sound hg lhs e1
    · apply set_sound hg
      split
      · exact Itv.join_upper_left (evalExpr_sound hg e1)
      · exact Itv.join_upper_right (evalExpr_sound hg e2)

/-! ### forget -/

theorem forgetFold_spec : ∀ (vs : List Var) (e : Env), e.bottom = false →
    (vs.foldl (fun env v => env.forget v) e).bottom = false ∧
    ∀ x, Map.find (vs.foldl (fun env v => env.forget v) e).m x = if x ∈ vs then none else Map.find e.m x := by
  intro vs
  induction vs with
  | nil => intro e h; exact ⟨h, fun x => by simp⟩
  | cons v rest ih =>
    intro e h
    simp only [List.foldl_cons]
    have h1 : (e.forget v).bottom = false := by simp [forget, h]
    obtain ⟨hb, hf⟩ := ih (e.forget v) h1
    refine ⟨hb, fun x => ?_⟩
    rw [hf x]
    simp only [forget, h, Bool.false_eq_true, if_false, Map.find_remove, List.mem_cons]
    by_cases hx : x ∈ rest
    · simp [hx]
    · by_cases hxv : x = v <;> simp [hx, hxv]

/-- `forget(variables)`: the forgotten variables may take any value -/
theorem forgetAll_sound {e : Env} {σ σ' : State} (hg : γ e σ) (vs : List Var)
    (h : ∀ y, y ∉ vs → σ' y = σ y) : γ (e.forgetAll vs) σ' := by
  unfold forgetAll
  split
  · rename_i hbt
    simp only [hg.1, Bool.false_or] at hbt
    exact γ_of_isTop hbt σ'
  · obtain ⟨hb, hf⟩ := forgetFold_spec vs e hg.1
    rw [γ_iff_of_not_bottom hb]
    intro x v hv
    rw [hf x] at hv
    split at hv
    · simp at hv
    · rename_i hx
      rw [h x hx]
      exact (γ_iff_of_not_bottom hg.1 σ).1 hg x v hv

/-! ### project -/

/-- `project(variables)`: only the projected variables keep their value -/
theorem project_sound {e : Env} {σ σ' : State} (hg : γ e σ) (keys : List Var)
    (h : ∀ y ∈ keys, σ' y = σ y) : γ (e.project keys) σ' := by
  unfold project
  split
  · rename_i hbt
    simp only [hg.1, Bool.false_or] at hbt
    exact γ_of_isTop hbt σ'
  · simp only []
    split
    · -- copy of the kept keys
      have : ∀ (ks : List Var) (acc : Env), (∀ y ∈ ks, σ' y = σ y) → γ acc σ' →
          γ (ks.foldl (fun env key => env.set key (e.get key)) acc) σ' := by
        intro ks
        induction ks with
        | nil => intro acc _ ha; exact ha
        | cons k rest ih =>
          intro acc hk ha
          simp only [List.foldl_cons]
          apply ih _ (fun y hy => hk y (List.mem_cons_of_mem _ hy))
          apply set_sound_same ha
          rw [hk k List.mem_cons_self]; exact hg.2 k
      exact this keys top h (γ_top σ')
    · -- removal of the other keys
      obtain ⟨hb, hf⟩ := forgetFold_spec ((e.m.keys).filter (fun key => !keys.contains key)) e hg.1
      rw [γ_iff_of_not_bottom hb]
      intro x v hv
      rw [hf x] at hv
      split at hv
      · simp at hv
      · rename_i hx
        have hxk : x ∈ e.m.keys := by
          have := Map.find_some_mem hv
          exact List.mem_map.2 ⟨(x, v), this, rfl⟩
        have : x ∈ keys := by
          apply Classical.byContradiction
          intro hn
          apply hx
          rw [List.mem_filter]
          exact ⟨hxk, by simpa using hn⟩
        rw [h x this]
        exact (γ_iff_of_not_bottom hg.1 σ).1 hg x v hv

/-! ### expand -/

/-- `expand(x, new_x)`: `new_x` receives a copy of the value of `x` -/
theorem expand_sound {e : Env} {σ : State} (hg : γ e σ) (x nx : Var) {n : Int} (hn : Itv.mem n (e.get x)) :
    γ (e.expand x nx) (upd σ nx n) := by
  unfold expand
  split
  · rename_i hbt
    simp only [hg.1, Bool.false_or] at hbt
    exact γ_of_isTop hbt _
  · exact set_sound hg hn nx

/-! ### rename -/

/-- one step of the loop of `rename` -/
theorem renameStep_sound {m : Map} {τ : State} (hg : γ ⟨false, m⟩ τ) {k nk : Var} (hne : k ≠ nk)
    (hfresh : Map.find m nk = none) (n : Int) :
    γ ⟨false, match Map.find m k with
        | some v => (if !v.isTop then m.insert nk v else m).remove k
        | none => m⟩ (upd (upd τ nk (τ k)) k n) := by
  have hm := (γ_iff_of_not_bottom rfl τ).1 hg
  simp only [] at hm
  rw [γ_iff_of_not_bottom rfl]
  intro x w hw
  simp only [] at hw
  cases hk : Map.find m k with
  | none =>
    rw [hk] at hw
    simp only [] at hw
    have hxk : x ≠ k := fun h => by rw [h, hk] at hw; simp at hw
    have hxn : x ≠ nk := fun h => by rw [h, hfresh] at hw; simp at hw
    rw [upd_other _ _ hxk, upd_other _ _ hxn]
    exact hm x w hw
  | some v =>
    rw [hk] at hw
    simp only [] at hw
    rw [Map.find_remove] at hw
    split at hw
    · simp at hw
    · rename_i hxk
      rw [upd_other _ _ hxk]
      by_cases ht : v.isTop = true
      · simp only [ht, Bool.not_true, Bool.false_eq_true, if_false] at hw
        have hxn : x ≠ nk := fun h => by rw [h, hfresh] at hw; simp at hw
        rw [upd_other _ _ hxn]
        exact hm x w hw
      · simp only [ht, Bool.not_false, if_true, Map.find_insert] at hw
        split at hw
        · rename_i hxn
          simp only [Option.some.injEq] at hw
          subst hw; subst hxn
          rw [upd_same]; exact hm k v hk
        · rename_i hxn
          rw [upd_other _ _ hxn]
          exact hm x w hw

/-- the concrete relation of `rename(from, to)`: `to[i]` receives the value of `from[i]`, the
    variables outside both vectors keep their value (the `from[i]` become unconstrained) -/
def RenameRel : List Var → List Var → State → State → Prop
  | k :: from', nk :: to', τ, σ' => σ' nk = τ k ∧ RenameRel from' to' τ σ'
  | _, _, _, _ => True

theorem renameLoop_sound : ∀ (from' to' : List Var) (m : Map) (τ σ' : State),
    from'.length = to'.length → from'.Nodup → to'.Nodup → (∀ y ∈ to', y ∉ from') →
    (∀ y ∈ to', Map.find m y = none) →
    γ ⟨false, m⟩ τ → RenameRel from' to' τ σ' → (∀ y, y ∉ from' → y ∉ to' → σ' y = τ y) →
    γ ⟨false, renameLoop from' to' m⟩ σ' := by
  intro from'
  induction from' with
  | nil =>
    intro to' m τ σ' hlen _ _ _ _ hg _ hout
    cases to' with
    | nil =>
      simp only [renameLoop]
      have : σ' = τ := by funext y; exact hout y (by simp) (by simp)
      rw [this]; exact hg
    | cons _ _ => simp at hlen
  | cons k rest ih =>
    intro to' m τ σ' hlen hnf hnt hdis hfresh hg hrel hout
    cases to' with
    | nil => simp at hlen
    | cons nk rest' =>
      simp only [List.length_cons, Nat.add_right_cancel_iff] at hlen
      have hnf' := List.nodup_cons.1 hnf
      have hnt' := List.nodup_cons.1 hnt
      have hne : k ≠ nk := fun h => hdis nk List.mem_cons_self (h ▸ List.mem_cons_self)
      obtain ⟨hrel1, hrel2⟩ := hrel
      have hstep := renameStep_sound hg hne (hfresh nk List.mem_cons_self) (σ' k)
      -- the state after the step
      let τ1 := upd (upd τ nk (τ k)) k (σ' k)
      have hτ1 : ∀ y, y ≠ k → y ≠ nk → τ1 y = τ y := fun y h1 h2 => by
        simp only [τ1]; rw [upd_other _ _ h1, upd_other _ _ h2]
      unfold renameLoop
      simp only [hne, if_false]
      have key : γ ⟨false, renameLoop rest rest' (match Map.find m k with
          | some v => (if !v.isTop then m.insert nk v else m).remove k
          | none => m)⟩ σ' := by
        apply ih rest' _ τ1 σ' hlen hnf'.2 hnt'.2
        · intro y hy hyf; exact hdis y (List.mem_cons_of_mem _ hy) (List.mem_cons_of_mem _ hyf)
        · intro y hy
          have hynk : y ≠ nk := fun h => hnt'.1 (h ▸ hy)
          have hyk : y ≠ k := fun h => hdis y (List.mem_cons_of_mem _ hy) (h ▸ List.mem_cons_self)
          have hf := hfresh y (List.mem_cons_of_mem _ hy)
          cases hk : Map.find m k with
          | none => simpa using hf
          | some v =>
            simp only []
            rw [Map.find_remove]
            simp only [hyk, if_false]
            split
            · rw [Map.find_insert]; simp [hynk, hf]
            · exact hf
        · exact hstep
        · -- the relation on the remaining pairs
          have : ∀ (f t : List Var), (∀ y ∈ f, y ≠ k ∧ y ≠ nk) → RenameRel f t τ σ' → RenameRel f t τ1 σ' := by
            intro f
            induction f with
            | nil => intro t _ _; cases t <;> trivial
            | cons a f' ihf =>
              intro t ha hr
              cases t with
              | nil => trivial
              | cons b t' =>
                obtain ⟨hr1, hr2⟩ := hr
                have := ha a List.mem_cons_self
                exact ⟨by rw [hτ1 a this.1 this.2]; exact hr1,
                  ihf t' (fun y hy => ha y (List.mem_cons_of_mem _ hy)) hr2⟩
          apply this rest rest' _ hrel2
          intro y hy
          exact ⟨fun h => hnf'.1 (h ▸ hy), fun h => hdis nk List.mem_cons_self (h ▸ List.mem_cons_of_mem _ hy)⟩
        · intro y hy1 hy2
          by_cases hyk : y = k
          · subst hyk; simp [τ1]
          · by_cases hyn : y = nk
            · subst hyn
              simp only [τ1]; rw [upd_other _ _ hyk, upd_same]; exact hrel1
            · rw [hτ1 y hyk hyn]
              apply hout y
              · simp only [List.mem_cons, not_or]; exact ⟨hyk, hy1⟩
              · simp only [List.mem_cons, not_or]; exact ⟨hyn, hy2⟩
      cases hk : Map.find m k with
      | none => rw [hk] at key; exact key
      | some v => rw [hk] at key; exact key

/-- `rename(from, to)` for distinct sources and distinct, fresh targets -/
theorem rename_sound {e e' : Env} {σ σ' : State} (hg : γ e σ) {from' to' : List Var}
    (hr : e.rename from' to' = some e')
    (hnf : from'.Nodup) (hnt : to'.Nodup) (hdis : ∀ y ∈ to', y ∉ from')
    (hfresh : ∀ y ∈ to', Map.find e.m y = none)
    (hrel : RenameRel from' to' σ σ') (hout : ∀ y, y ∉ from' → y ∉ to' → σ' y = σ y) :
    γ e' σ' := by
  unfold rename at hr
  split at hr
  · rename_i hbt
    simp only [hg.1, Bool.or_false] at hbt
    simp only [Option.some.injEq] at hr; subst hr
    exact γ_of_isTop hbt σ'
  · split at hr
    · simp at hr
    · rename_i hlen
      simp only [Option.some.injEq] at hr; subst hr
      have hlen' : from'.length = to'.length := by
        apply Classical.byContradiction; intro h; exact hlen h
      have hg' : γ ⟨false, e.m⟩ σ := by
        rw [γ_iff_of_not_bottom rfl]; exact (γ_iff_of_not_bottom hg.1 σ).1 hg
      exact renameLoop_sound from' to' e.m σ σ' hlen' hnf hnt hdis hfresh hg' hrel hout

/-! ### integer casts -/

theorem intCast_sound {e : Env} {σ : State} (hg : γ e σ) (zext : Bool) (bw : Nat) (dst src : Var)
    (hz : zext = true → σ src ≤ 2 ^ bw - 1) : γ (e.intCast zext bw dst src) (upd σ dst (σ src)) := by
  unfold intCast
  have h1 := assign_sound hg dst (Expr.var src)
  have ev : (Expr.var src).eval σ = σ src := by simp [Expr.eval, Expr.var, Expr.evalTerms]
  rw [ev] at h1
  simp only []
  split
  · rename_i hzt
    apply add_sound h1
    · intro c hc
      simp only [List.mem_cons, List.not_mem_nil, or_false] at hc
      subst hc
      exact ⟨Expr.sorted_subNum _ (Expr.sorted_var dst), Expr.noZero_subNum _ (Expr.noZero_var dst)⟩
    · intro c hc
      simp only [List.mem_cons, List.not_mem_nil, or_false] at hc
      subst hc
      have := hz hzt
      have ev' : ∀ τ : State, (Expr.var dst).eval τ = τ dst := fun τ => by simp [Expr.eval, Expr.var, Expr.evalTerms]
      simp only [Cst.sat, Expr.eval_subNum, ev', upd_same]
      omega
  · exact h1

end Env
end IDom
end Crab
