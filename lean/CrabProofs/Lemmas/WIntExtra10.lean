import CrabProofs.Lemmas.WIntExtra9
import CrabProofs.Lemmas.Interval

/-!
  More lemmas about `Crab.WInt` (part 10): `mk_winterval`, `to_interval`, `trim_interval`.
-/
namespace Crab
namespace WInt
open WrapInt

/-! ### `mk_winterval` -/

/-- the residue of `z` modulo `2^w` -/
def resN (w : Nat) (z : Int) : Nat := (z % ((2 ^ w : Nat) : Int)).toNat

theorem resN_lt (w : Nat) (z : Int) : resN w z < 2 ^ w := by
  have hM : 0 < 2 ^ w := Nat.pow_pos (by decide)
  have h0 : 0 ≤ z % ((2 ^ w : Nat) : Int) := Int.emod_nonneg _ (by omega)
  have h1 : z % ((2 ^ w : Nat) : Int) < ((2 ^ w : Nat) : Int) := Int.emod_lt_of_pos _ (by omega)
  unfold resN; omega

theorem wofZ_val {w : Nat} (h1w : 1 ≤ w) (hw : w ≤ 64) {z : Int} (hz : ZNum.fitsInt64 z = true) :
    WrapInt.ofZ? z w = some ⟨w, resN w z⟩ := by
  rw [ofZ?_eq h1w hw z hz]
  simp only [ofBV, BitVec.toNat_ofInt]
  rfl

theorem fitsWrapint_iff {w : Nat} (hw : w ≤ 64) (z : Int) :
    WrapInt.fitsWrapint z w = ZNum.fitsInt64 z := by
  have : ¬ (w > 64) := by omega
  simp [fitsWrapint, this]

/-- `mk_winterval(n, w)` contains the residue of `n` -/
theorem ofZ_sound {w : Nat} (h1w : 1 ≤ w) (hw : w ≤ 64) {z : Int} {r : WInt}
    (h : WInt.ofZ z w = some r) : mem w (resN w z) r := by
  unfold WInt.ofZ at h
  rw [fitsWrapint_iff hw] at h
  cases hz : ZNum.fitsInt64 z
  · rw [hz] at h
    simp only [Bool.false_eq_true, if_false] at h
    injection h with h; subst h; exact mem_top _ _
  · rw [hz] at h
    simp only [if_true, wofZ_val h1w hw hz] at h
    injection h with h; subst h
    show mem w (resN w z) (W w (resN w z) (resN w z) false)
    rw [mem_W hw (resN_lt _ _) (resN_lt _ _)]
    right; exact Nat.le_refl _

/-- `mk_winterval(lb, ub, w)` contains the residues of `[lb, ub]` (a range that covers the whole
    circle gives top) -/
theorem ofZ2_sound {w : Nat} (h1w : 1 ≤ w) (hw : w ≤ 64) {lb ub z : Int} {r : WInt}
    (h : WInt.ofZ2 lb ub w = some r) (h1 : lb ≤ z) (h2 : z ≤ ub) : mem w (resN w z) r := by
  unfold WInt.ofZ2 at h
  rw [fitsWrapint_iff hw, fitsWrapint_iff hw] at h
  cases hz1 : ZNum.fitsInt64 lb
  · rw [hz1] at h
    simp only [Bool.not_false, if_true] at h
    injection h with h; subst h; exact mem_top _ _
  · cases hz2 : ZNum.fitsInt64 ub
    · rw [hz1, hz2] at h
      simp only [Bool.not_true, Bool.false_eq_true, if_false, Bool.not_false, if_true] at h
      injection h with h; subst h; exact mem_top _ _
    · rw [hz1, hz2] at h
      simp only [Bool.not_true, Bool.false_eq_true, if_false] at h
      by_cases hlen : ((2 ^ w : Nat) : Int) - 1 ≤ ub - lb
      · rw [if_pos hlen] at h
        injection h with h; subst h; exact mem_top _ _
      · rw [if_neg hlen] at h
        simp only [wofZ_val h1w hw hz1, wofZ_val h1w hw hz2] at h
        injection h with h; subst h
        show mem w (resN w z) (W w (resN w lb) (resN w ub) false)
        have e1 : z = lb + ((z - lb).toNat : Int) := by omega
        have e2 : ub = lb + ((ub - lb).toNat : Int) := by omega
        unfold resN
        rw [e1, e2]
        apply mem_of_steps_int hw <;> omega

/-! ### `to_interval` -/

theorem wtoSigned_val {w a : Nat} (h1w : 1 ≤ w) (hw : w ≤ 64) (ha : a < 2 ^ w) :
    WrapInt.toSigned ⟨w, a⟩ = some (sg (2 ^ w) a) := by
  have := toSigned_ofBV h1w hw (BitVec.ofNatLT a ha)
  simp only [ofBV, BitVec.toNat_ofNatLT] at this
  rw [this, ← sg_toInt, BitVec.toNat_ofNatLT]

/-- `to_interval()` contains the signed reading of every member -/
theorem toInterval_sound {w : Nat} (h1w : 1 ≤ w) (hw : w ≤ 64) {x : WInt} (hx : Shape w x) {i : Itv}
    (h : x.toInterval = some i) {v : Nat} (hv : v < 2 ^ w) (hm : mem w v x) :
    Itv.mem (sg (2 ^ w) v) i := by
  obtain ⟨s, e, hs, he, rfl⟩ := shape_cases hx hm.1
  cases hnt : (W w s e false).isTop
  · unfold toInterval at h
    simp only [hnt, Bool.false_eq_true, if_false, crossS_val hnt] at h
    cases hc : (signedLimit w).leq (W w s e false)
    · rw [hc] at h
      simp only [wtoSigned_val h1w hw hs, wtoSigned_val h1w hw he] at h
      injection h with h; subst h
      have hc' : ¬ (signedLimit w).leq (W w s e false) = true := by simp [hc]
      have hse : sg (2 ^ w) s ≤ sg (2 ^ w) e := by
        have := mt (crossS_iff h1w hw hs he hnt).mpr hc'
        omega
      have hm' := (mem_sord_iff h1w hw hs he hv hse).mp hm
      rw [Itv.mem_mk']
      simp only [Bound.le_fin_fin, decide_eq_true_eq]
      exact hm'
    · rw [hc] at h
      injection h with h; subst h; exact Itv.mem_top _
  · have : (W w s e false).toInterval = some Itv.top := by simp [toInterval, hnt]
    rw [this] at h; injection h with h; subst h; exact Itv.mem_top _

/-! ### `trim_interval` -/

theorem wdec_val {w n : Nat} (hw : w ≤ 64) : (WrapInt.dec ⟨w, n⟩).n = (n + 2 ^ 64 - 1) % 2 ^ w := by
  simp only [WrapInt.dec]
  rw [red_lt_form hw, red_mod hw]

theorem dec_mod {w n : Nat} (hw : w ≤ 64) (hn : n < 2 ^ w) :
    (n + 2 ^ 64 - 1) % 2 ^ w = if n = 0 then 2 ^ w - 1 else n - 1 := by
  have hM : 0 < 2 ^ w := Nat.pow_pos (by decide)
  have h1 : 2 ^ 64 = 2 ^ w * 2 ^ (64 - w) := pow64_split hw
  obtain ⟨K, hK⟩ : ∃ K, 2 ^ (64 - w) = K + 1 :=
    ⟨2 ^ (64 - w) - 1, by have : 0 < 2 ^ (64 - w) := Nat.pow_pos (by decide); omega⟩
  have : n + 2 ^ 64 - 1 = (n + 2 ^ w - 1) + 2 ^ w * K := by
    rw [h1, hK, Nat.mul_succ]; omega
  rw [this, Nat.add_mul_mod_self_left]
  split
  · next h0 => subst h0; simp
  · next h0 =>
    have : n + 2 ^ w - 1 = (n - 1) + 2 ^ w := by omega
    rw [this, Nat.add_mod_right]; exact Nat.mod_eq_of_lt (by omega)

theorem trim_coreA (M k e a : Nat) (hk : k < M) (he : e < M) (ha : a < M) (_hke : k ≠ e) (hak : a ≠ k)
    (hm : D M k a ≤ D M k e) : D M ((k + 1) % M) a ≤ D M ((k + 1) % M) e := by
  have m := mod_small_or (k + 1) M (by omega) (by omega)
  have s1 := D_spec M k a; have s2 := D_spec M k e
  have s3 := D_spec M ((k + 1) % M) a; have s4 := D_spec M ((k + 1) % M) e
  omega

theorem trim_coreB (M s k a p : Nat) (hs : s < M) (hk : k < M) (ha : a < M) (_hsk : s ≠ k) (hak : a ≠ k)
    (hp : p = if k = 0 then M - 1 else k - 1)
    (hm : D M s a ≤ D M s k) : D M s a ≤ D M s p := by
  have s1 := D_spec M s a; have s2 := D_spec M s k; have s3 := D_spec M s p
  split at hp <;> omega

/-- `trim_interval(i, j)` keeps every member of `i` that is not the value of the singleton `j` -/
theorem trim_sound {w : Nat} (h1w : 1 ≤ w) (hw : w ≤ 64) {i j : WInt} (hi : Shape w i) (hj : Shape w j)
    {a : Nat} (ha : a < 2 ^ w) (hm : mem w a i) (hne : ∀ b, b < 2 ^ w → mem w b j → a ≠ b) :
    mem w a (trim i j) := by
  obtain ⟨s, e, hs, he, rfl⟩ := shape_cases hi hm.1
  have hM := two_le_pow h1w
  cases hnt : (W w s e false).isTop
  · unfold trim
    simp only [hnt, Bool.false_eq_true, if_false]
    split
    · exact hm
    · next hsing =>
      have hsing' : j.isSingleton = true := by simpa using hsing
      have hjb : j.isBottom = false := by
        unfold isSingleton at hsing'
        cases hb : j.isBottom
        · rfl
        · simp [hb] at hsing'
      obtain ⟨k, k', hk, hk', rfl⟩ := shape_cases hj hjb
      have hkk : k = k' := by
        unfold isSingleton at hsing'
        simp only [Bool.not_false, Bool.true_and, Bool.and_eq_true, beq_iff_eq] at hsing'
        exact hsing'.2
      subst hkk
      have hjnt : (W w k k false).isTop = false := by
        unfold isSingleton at hsing'
        simp only [Bool.not_false, Bool.true_and, Bool.and_eq_true, Bool.not_eq_true'] at hsing'
        exact hsing'.1
      have hak : a ≠ k := hne k hk (by
        rw [mem_W hw hk hk]; right; exact Nat.le_refl _)
      have hd := mem_nontop hw hs he hnt hm
      have hsingle : (W w s e false).isSingleton = (s == e) := by
        simp [isSingleton, hnt]
      simp only [hsingle, beq_iff_eq]
      split
      · next hsk =>
        have hsk' : s = k := hsk
        subst hsk'
        split
        · next hse =>
          exfalso; subst hse
          rw [D_self] at hd
          rcases D_spec (2 ^ w) s a with ⟨_, b⟩ | ⟨_, b⟩ <;> omega
        · next hse =>
          show mem w a (W w (WrapInt.inc ⟨w, s⟩).n e false)
          rw [winc_val hw]
          rw [mem_W hw (Nat.mod_lt _ (by omega)) he]
          right
          exact trim_coreA _ s e a hs he ha hse hak hd
      · next hsk =>
        split
        · next hek =>
          have hek' : e = k := hek
          subst hek'
          split
          · next hse => exact absurd hse hsk
          · show mem w a (W w s (WrapInt.dec ⟨w, e⟩).n false)
            rw [wdec_val hw, dec_mod hw he]
            have hp : (if e = 0 then 2 ^ w - 1 else e - 1) < 2 ^ w := by split <;> omega
            rw [mem_W hw hs hp]
            right
            exact trim_coreB _ s e a _ hs he ha hsk hak rfl hd
        · exact hm
  · have : trim (W w s e false) j = W w s e false := by simp [trim, hnt]
    rw [this]; exact mem_of_isTop hnt

end WInt
end Crab
