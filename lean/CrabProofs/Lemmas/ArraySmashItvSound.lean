import CrabProofs.Lemmas.ArraySmashItvOps

/-!
  Soundness of every operation of the exact model of `array_smashing<interval_domain>` w.r.t. the
  concretisation `γx` inherited from the generic functor model, and the history theorem relative
  to an invariant of the abstract values (`history_sound_inv`).
-/
namespace Crab
namespace Dom

/-! ### histories whose abstract values satisfy an invariant -/

/-- per-step obligations relative to an invariant `I` of the abstract values (the invariant of
    BOTH operands of a lattice operation is available, which `Step.Sound` cannot express) -/
def Step.SoundInv {A S : Type} (I : A → Prop) (γ : A → S → Prop) : Step A S → Prop
  | .trans _ t => ∀ a, I a → I (t.f a) ∧ ∀ s s', γ a s → t.r s s' → γ (t.f a) s'
  | .upper _ _ _ g => ∀ a b, I a → I b → I (g a b) ∧ ∀ s, (γ a s ∨ γ b s) → γ (g a b) s
  | .lower _ _ _ g => ∀ a b, I a → I b → I (g a b) ∧ ∀ s, γ a s → γ b s → γ (g a b) s
  | .copy _ _ => True
  | .setBot _ bot => I bot

theorem step_sound_inv {A S : Type} (I : A → Prop) (γ : A → S → Prop) (st : Step A S)
    (hs : st.SoundInv I γ) (p : Pool A) (c : CPool S) (hI : ∀ i, I (p i))
    (h : ∀ i s, c i s → γ (p i) s) :
    (∀ i, I (st.run p i)) ∧ ∀ i s, st.coll c i s → γ (st.run p i) s := by
  cases st with
  | trans d t =>
    have hd := hs (p d) (hI d)
    refine ⟨fun i => ?_, fun i s hc => ?_⟩
    · simp only [Step.run, Pool.set]; split
      · exact hd.1
      · exact hI i
    · simp only [Step.coll, CPool.set, Step.run, Pool.set] at hc ⊢
      split
      · rename_i hi; simp only [hi, if_true] at hc
        obtain ⟨s0, h0, hr⟩ := hc
        exact hd.2 _ _ (h d s0 h0) hr
      · rename_i hi; simp only [hi, if_false] at hc; exact h i s hc
  | upper d a b g =>
    have hd := hs (p a) (p b) (hI a) (hI b)
    refine ⟨fun i => ?_, fun i s hc => ?_⟩
    · simp only [Step.run, Pool.set]; split
      · exact hd.1
      · exact hI i
    · simp only [Step.coll, CPool.set, Step.run, Pool.set] at hc ⊢
      split
      · rename_i hi; simp only [hi, if_true] at hc
        exact hd.2 _ (hc.elim (fun x => Or.inl (h a s x)) (fun x => Or.inr (h b s x)))
      · rename_i hi; simp only [hi, if_false] at hc; exact h i s hc
  | lower d a b g =>
    have hd := hs (p a) (p b) (hI a) (hI b)
    refine ⟨fun i => ?_, fun i s hc => ?_⟩
    · simp only [Step.run, Pool.set]; split
      · exact hd.1
      · exact hI i
    · simp only [Step.coll, CPool.set, Step.run, Pool.set] at hc ⊢
      split
      · rename_i hi; simp only [hi, if_true] at hc
        exact hd.2 _ (h a s hc.1) (h b s hc.2)
      · rename_i hi; simp only [hi, if_false] at hc; exact h i s hc
  | copy d s0 =>
    refine ⟨fun i => ?_, fun i s hc => ?_⟩
    · simp only [Step.run, Pool.set]; split
      · exact hI s0
      · exact hI i
    · simp only [Step.coll, CPool.set, Step.run, Pool.set] at hc ⊢
      split
      · rename_i hi; simp only [hi, if_true] at hc; exact h s0 s hc
      · rename_i hi; simp only [hi, if_false] at hc; exact h i s hc
  | setBot d bot =>
    refine ⟨fun i => ?_, fun i s hc => ?_⟩
    · simp only [Step.run, Pool.set]; split
      · exact hs
      · exact hI i
    · simp only [Step.coll, CPool.set, Step.run, Pool.set] at hc ⊢
      split
      · rename_i hi; simp only [hi, if_true] at hc
      · rename_i hi; simp only [hi, if_false] at hc; exact h i s hc

theorem history_sound_inv {A S : Type} (I : A → Prop) (γ : A → S → Prop) (hist : List (Step A S))
    (hs : ∀ st ∈ hist, st.SoundInv I γ) (p : Pool A) (c : CPool S) (hI : ∀ i, I (p i))
    (h : ∀ i s, c i s → γ (p i) s) :
    (∀ i, I (runHist p hist i)) ∧ ∀ i s, collHist c hist i s → γ (runHist p hist i) s := by
  induction hist generalizing p c with
  | nil => exact ⟨hI, by simpa [collHist, runHist] using h⟩
  | cons st rest ih =>
    simp only [collHist, runHist, List.foldl_cons]
    have h1 := step_sound_inv I γ st (hs st List.mem_cons_self) p c hI h
    exact ih (fun x hx => hs x (List.mem_cons_of_mem _ hx)) _ _ h1.1 h1.2

namespace SmashItv
open Crab.Dom.Arr Crab.IDom

/-- concretisation of the exact model: the one of the generic functor model -/
def γx (esz : Nat → Nat) (st : St) (s : CState) : Prop := ∃ h : st.base.Sorted, Smash.γ esz (absS st h) s

variable {esz : Nat → Nat}

theorem γx_top (s : CState) : γx esz St.top s := ⟨Env.sorted_top, Smash.γ_top s⟩

/-- what the harness dumps is implied: not bottom, every program integer in its interval -/
theorem γx_at {st : St} {s : CState} (h : γx esz st s) :
    st.isBottom = false ∧ ∀ x, Itv.mem (s.iv x) (st.atVar x) := by
  obtain ⟨hs, g, hg⟩ := h
  have h0 := hg (fun _ => 0)
  refine ⟨h0.1, fun x => ?_⟩
  have := h0.2 (enc (.prog x))
  rwa [dec_at] at this

/-! ### constraints -/

theorem mem_mkSys_fold (cs : List XCst) (acc : Crab.Lin.Sys) (c' : Crab.Lin.Cst)
    (h : c' ∈ cs.foldl (fun s c => Crab.Lin.Sys.addCst s ⟨mkExpr c.e, c.kind⟩) acc) :
    c' ∈ acc ∨ ∃ c ∈ cs, c' = ⟨mkExpr c.e, c.kind⟩ := by
  induction cs generalizing acc with
  | nil => exact Or.inl h
  | cons c rest ih =>
    simp only [List.foldl_cons] at h
    rcases ih _ h with h1 | ⟨c2, hc2, he⟩
    · rcases Crab.Lin.Sys.mem_addCst.1 h1 with h2 | h2
      · exact Or.inl h2
      · exact Or.inr ⟨c, List.mem_cons_self, h2⟩
    · exact Or.inr ⟨c2, List.mem_cons_of_mem _ hc2, he⟩

theorem mem_mkSys {cs : List XCst} {c' : Crab.Lin.Cst} (h : c' ∈ mkSys cs) :
    ∃ c ∈ cs, c' = ⟨mkExpr c.e, c.kind⟩ := by
  rcases mem_mkSys_fold cs [] c' h with h1 | h1
  · simp at h1
  · exact h1

theorem sat_mkSys {cs : List XCst} {ρ : Smash.Env} (h : ∀ c ∈ cs, c.holds (Smash.progOf ρ)) :
    Crab.Lin.Sys.sat (mkSys cs) (dec ρ) := by
  intro c' hc'
  obtain ⟨c, hc, rfl⟩ := mem_mkSys hc'
  have := h c hc
  unfold XCst.holds at this
  unfold Crab.Lin.Cst.sat
  simp only [eval_mkExpr]
  cases hk : c.kind <;> simp only [hk] at this ⊢ <;> exact this

theorem assume_sound {st : St} {s : CState} (hI : Inv st) (cs : List XCst) (h : γx esz st s)
    (hc : ∀ c ∈ cs, c.holds s.iv) : γx esz (st.assume cs) s := by
  obtain ⟨hs, g, hg⟩ := h
  refine ⟨(inv_assume hI cs).2, g, fun c => ?_⟩
  refine Env.add_sound (hg c) ?_ (sat_mkSys hc)
  intro c' hc'
  obtain ⟨c2, _, rfl⟩ := mem_mkSys hc'
  exact mkExpr_canonical _

/-! ### `array_assign` when no size is known: the code does nothing -/

theorem arrayAssign_nosize {st : St} {lhs rhs : Nat} (hlr : lhs ≠ rhs)
    (hr : st.sizes.constSize rhs = none) (hl : st.sizes.constSize lhs = none) :
    st.arrayAssign lhs rhs = st := by
  simp [St.arrayAssign, hlr, hr, hl]

theorem arrayAssign_sound {st : St} {s s' : CState} (hI : Inv st) (lhs rhs : Nat) (h : γx esz st s)
    (hsz : esz lhs = esz rhs) (hr : cAssign lhs rhs s = some s') : γx esz (st.arrayAssign lhs rhs) s' := by
  obtain ⟨hs, hg⟩ := h
  by_cases hk : lhs = rhs ∨ (st.sizes.constSize rhs).isSome = true ∨ (st.sizes.constSize lhs).isSome = true
  · refine ⟨(inv_arrayAssign hI lhs rhs).2, ?_⟩
    rw [abs_arrayAssign hI lhs rhs hk]
    exact Smash.aAssign_sound lhs rhs hg hsz hr
  · have hlr : lhs ≠ rhs := fun e => hk (Or.inl e)
    have h1 : st.sizes.constSize rhs = none := by
      cases hc : st.sizes.constSize rhs with
      | none => rfl
      | some k => exact absurd (Or.inr (Or.inl (by rw [hc]; rfl))) hk
    have h2 : st.sizes.constSize lhs = none := by
      cases hc : st.sizes.constSize lhs with
      | none => rfl
      | some k => exact absurd (Or.inr (Or.inr (by rw [hc]; rfl))) hk
    rw [arrayAssign_nosize hlr h1 h2]
    have hs' : s' = s.setArr lhs (s.ar rhs) := (Option.some.inj hr).symm
    subst hs'
    refine ⟨hs, Smash.untracked_update_sound lhs _ ?_ hg⟩
    show ¬ absSz st.sizes lhs = some (esz lhs)
    simp [absSz, h2]

/-- `array_init` over the empty range `[0, -1]` initialises no cell -/
theorem init_empty_range (v : Int) : Mem.init 4 0 (-1) v = Mem.empty := by
  funext o
  have : inCells 4 0 (-1) o = false := by
    simp only [inCells]
    have : ¬ ((o : Int) ≤ -1) := by omega
    simp [this]
  simp [Mem.init, Mem.storeRange, this]

end SmashItv
end Dom
end Crab
