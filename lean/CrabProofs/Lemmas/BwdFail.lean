import CrabProofs.Lemmas.BwdSound

/-!
  `compute_fail_without_exit` (constructor of `necessary_preconditions_fixpoint_iterator`): the
  round-based model `reachF` run for |blocks| rounds is exactly graph reachability, hence
  * `reachExitF p n = true ↔ ReachesExit p n`   (first worklist pass, `reach_exit`);
  * `mayFailB p n = true ↔ ¬ ReachesExit p n ∧ CanFail p n`   (second pass,
    `m_fail_without_exit`: blocks that cannot reach the exit but can reach an assertion).
-/
namespace Crab
namespace Bwd

/-- a block satisfying `goal` is reachable along edges -/
inductive Reaches (p : Prog) (goal : Nat → Bool) : Nat → Prop
  | here (n : Nat) : goal n = true → Reaches p goal n
  | edge (n m : Nat) : m ∈ (p.block n).succs → Reaches p goal m → Reaches p goal n

/-- a block containing an assertion is reachable along edges -/
inductive CanFail (p : Prog) : Nat → Prop
  | here (n : Nat) : (∃ s ∈ (p.block n).stmts, s.isAssert = true) → CanFail p n
  | edge (n m : Nat) : m ∈ (p.block n).succs → CanFail p m → CanFail p n

variable (p : Prog) (g : Nat → Bool)

theorem reachF_sound : ∀ (k i : Nat), reachF p g k i = true → Reaches p g i := by
  intro k
  induction k with
  | zero => intro i h; exact Reaches.here i h
  | succ k ih =>
    intro i h
    simp only [reachF, Bool.or_eq_true, List.any_eq_true] at h
    rcases h with h | ⟨m, hm, h⟩
    · exact ih i h
    · exact Reaches.edge i m hm (ih m h)

theorem reachF_mono (k i : Nat) (h : reachF p g k i = true) : reachF p g (k + 1) i = true := by
  simp only [reachF, Bool.or_eq_true]; exact Or.inl h

theorem reachF_mono_le (k j i : Nat) (hkj : k ≤ j) (h : reachF p g k i = true) :
    reachF p g j i = true := by
  induction hkj with
  | refl => exact h
  | step _ ih => exact reachF_mono p g _ i ih

def Stable (k : Nat) : Prop := ∀ i, reachF p g (k + 1) i = reachF p g k i

theorem stable_succ (k : Nat) (h : Stable p g k) : Stable p g (k + 1) := by
  intro i
  have hf : reachF p g (k + 1) = reachF p g k := funext h
  show (reachF p g (k + 1) i || (p.block i).succs.any (reachF p g (k + 1))) = reachF p g (k + 1) i
  rw [hf]
  exact h i

theorem stable_le (k j : Nat) (hkj : k ≤ j) (h : Stable p g k) : Stable p g j := by
  induction hkj with
  | refl => exact h
  | step _ ih => exact stable_succ p g _ ih

/-- outside the program nothing changes -/
theorem reachF_outside (k i : Nat) (hi : p.blocks.length ≤ i) :
    reachF p g (k + 1) i = reachF p g k i := by
  have : p.block i = ⟨[], []⟩ := by
    unfold Prog.block
    rw [List.getD_eq_getElem?_getD, List.getElem?_eq_none hi]
    rfl
  simp [reachF, this]

theorem countP_le_of_imp (l : List Nat) (a b : Nat → Bool)
    (hab : ∀ x ∈ l, a x = true → b x = true) : l.countP a ≤ l.countP b := by
  induction l with
  | nil => simp
  | cons y l ih =>
    have ih' := ih (fun x hx => hab x (List.mem_cons_of_mem _ hx))
    have hy := hab y List.mem_cons_self
    simp only [List.countP_cons]
    cases ha : a y with
    | false => simp; omega
    | true => simp [hy ha]; omega

theorem countP_lt_of_imp (l : List Nat) (a b : Nat → Bool)
    (hab : ∀ x ∈ l, a x = true → b x = true) (x : Nat) (hx : x ∈ l)
    (hb : b x = true) (ha : a x = false) : l.countP a < l.countP b := by
  induction l with
  | nil => cases hx
  | cons y l ih =>
    have hle := countP_le_of_imp l a b (fun z hz => hab z (List.mem_cons_of_mem _ hz))
    simp only [List.countP_cons]
    rcases List.mem_cons.1 hx with rfl | hxl
    · simp [ha, hb]; omega
    · have ih' := ih (fun z hz => hab z (List.mem_cons_of_mem _ hz)) hxl
      have hy := hab y List.mem_cons_self
      cases hay : a y with
      | false => simp; omega
      | true => simp [hy hay]; omega

/-- number of marked blocks after `k` rounds -/
def cnt (k : Nat) : Nat := (List.range p.blocks.length).countP (reachF p g k)

theorem cnt_le (k : Nat) : cnt p g k ≤ p.blocks.length := by
  unfold cnt
  have := List.countP_le_length (p := reachF p g k) (l := List.range p.blocks.length)
  simpa using this

theorem cnt_lt_of_not_stable (k : Nat) (h : ¬ Stable p g k) : cnt p g k < cnt p g (k + 1) := by
  unfold Stable at h
  have ⟨i, hi⟩ : ∃ i, reachF p g (k + 1) i ≠ reachF p g k i := Classical.not_forall.1 h
  have hlt : i < p.blocks.length := by
    apply Classical.byContradiction
    intro hn
    exact hi (reachF_outside p g k i (by omega))
  have hk : reachF p g k i = false := by
    cases hv : reachF p g k i with
    | false => rfl
    | true => exact absurd (by rw [reachF_mono p g k i hv, hv]) hi
  have hk1 : reachF p g (k + 1) i = true := by
    cases hv : reachF p g (k + 1) i with
    | true => rfl
    | false => exact absurd (by rw [hv, hk]) hi
  exact countP_lt_of_imp _ _ _ (fun x _ hx => reachF_mono p g k x hx) i
    (List.mem_range.2 hlt) hk1 hk

theorem cnt_grows (j : Nat) (h : ∀ k, k < j → ¬ Stable p g k) : j ≤ cnt p g j := by
  induction j with
  | zero => exact Nat.zero_le _
  | succ j ih =>
    have h1 := ih (fun k hk => h k (by omega))
    have h2 := cnt_lt_of_not_stable p g j (h j (by omega))
    omega

/-- after |blocks| rounds nothing changes any more -/
theorem stable_at_length : Stable p g p.blocks.length := by
  apply Classical.byContradiction
  intro hns
  have hall : ∀ k, k < p.blocks.length + 1 → ¬ Stable p g k := by
    intro k hk hs
    exact hns (stable_le p g k _ (by omega) hs)
  have h1 := cnt_grows p g (p.blocks.length + 1) hall
  have h2 := cnt_le p g (p.blocks.length + 1)
  omega

theorem reachF_complete (i : Nat) (h : Reaches p g i) : reachF p g p.blocks.length i = true := by
  induction h with
  | here n hn => exact reachF_mono_le p g 0 _ n (Nat.zero_le _) hn
  | edge n m hm _ ih =>
    rw [← stable_at_length p g n]
    simp only [reachF, Bool.or_eq_true, List.any_eq_true]
    exact Or.inr ⟨m, hm, ih⟩

theorem reachF_iff (i : Nat) : reachF p g p.blocks.length i = true ↔ Reaches p g i :=
  ⟨reachF_sound p g _ i, reachF_complete p g i⟩

/-! ### the two passes -/

theorem reaches_exit_iff (i : Nat) : Reaches p (fun j => j == p.exit) i ↔ ReachesExit p i := by
  constructor
  · intro h
    induction h with
    | here n hn =>
      have : n = p.exit := by simpa using hn
      rw [this]; exact ReachesExit.here
    | edge n m hm _ ih => exact ReachesExit.edge n m hm ih
  · intro h
    induction h with
    | here => exact Reaches.here _ (by simp)
    | edge n m hm _ ih => exact Reaches.edge n m hm ih

/-- first pass: `reach_exit` is exactly the set of blocks from which the exit is reachable -/
theorem reachExitF_iff (i : Nat) : reachExitF p i = true ↔ ReachesExit p i := by
  unfold reachExitF
  rw [reachF_iff, reaches_exit_iff]

theorem reachExitF_false_iff (i : Nat) : reachExitF p i = false ↔ ¬ ReachesExit p i := by
  rw [← reachExitF_iff]; cases reachExitF p i <;> simp

/-- a block that cannot reach the exit and reaches an assertion reaches a seed of the second
    pass (every block on the way is outside `reach_exit` as well) -/
theorem reaches_seed (n : Nat) (h : CanFail p n) (hn : ¬ ReachesExit p n) :
    Reaches p (fun i => !reachExitF p i && (p.block i).stmts.any Stmt.isAssert) n := by
  induction h with
  | here n hs =>
    refine Reaches.here n ?_
    obtain ⟨s, hs, ha⟩ := hs
    have h1 : reachExitF p n = false := (reachExitF_false_iff p n).2 hn
    have h2 : (p.block n).stmts.any Stmt.isAssert = true := List.any_eq_true.2 ⟨s, hs, ha⟩
    simp [h1, h2]
  | edge n m hm _ ih =>
    exact Reaches.edge n m hm (ih (fun h => hn (ReachesExit.edge n m hm h)))

theorem canFail_of_reaches_seed (n : Nat)
    (h : Reaches p (fun i => !reachExitF p i && (p.block i).stmts.any Stmt.isAssert) n) :
    CanFail p n := by
  induction h with
  | here n hn =>
    simp only [Bool.and_eq_true, List.any_eq_true] at hn
    exact CanFail.here n hn.2
  | edge n m hm _ ih => exact CanFail.edge n m hm ih

/-- second pass: `m_fail_without_exit` is exactly the set of blocks that cannot reach the exit
    block but can reach an assertion -/
theorem mayFailB_iff (n : Nat) : mayFailB p n = true ↔ ¬ ReachesExit p n ∧ CanFail p n := by
  unfold mayFailB
  rw [Bool.and_eq_true, reachF_iff, Bool.not_eq_true', reachExitF_false_iff]
  constructor
  · rintro ⟨h1, h2⟩; exact ⟨h1, canFail_of_reaches_seed p n h2⟩
  · rintro ⟨h1, h2⟩; exact ⟨h1, reaches_seed p n h2 h1⟩

end Bwd
end Crab
