import CrabProofs.Lemmas.WtoCheckSound
import CrabModel.Fix.Semantics

/-!
  Bridge from the C07 specification (`Crab.Wto.WtoWF`, decided by `checkWto`) to the
  well-formedness the fixpoint-iterator theorems assume (`Crab.Fix.WtoWF`, over `Crab.Fix.Comp`).
-/
namespace Crab
namespace Wto

mutual
/-- the same ordering as a term of the iterator model -/
def toComp : WtoC → Fix.Comp
  | .vertex v => .vertex v
  | .cycle h body => .cycle h (toCompL body)
def toCompL : List WtoC → List Fix.Comp
  | [] => []
  | c :: cs => toComp c :: toCompL cs
end

mutual
theorem nodes_toComp : ∀ (c : WtoC), (toComp c).nodes = flattenC c
  | .vertex v => by simp [toComp, Fix.Comp.nodes, flattenC]
  | .cycle h body => by simp [toComp, Fix.Comp.nodes, flattenC, nodesList_toCompL body]
theorem nodesList_toCompL : ∀ (l : List WtoC), Fix.nodesList (toCompL l) = flattenL l
  | [] => by simp [toCompL, Fix.nodesList, flattenL]
  | c :: cs => by simp [toCompL, Fix.nodesList, flattenL, nodes_toComp c, nodesList_toCompL cs]
end

mutual
theorem member_toComp (n : Nat) : ∀ (c : WtoC), (toComp c).member n = true ↔ n ∈ flattenC c
  | .vertex v => by
    simp only [toComp, Fix.Comp.member, flattenC, List.mem_singleton, beq_iff_eq]
    exact eq_comm
  | .cycle h body => by
    simp only [toComp, Fix.Comp.member, flattenC, List.mem_cons, Bool.or_eq_true, beq_iff_eq,
      memberList_toCompL n body]
    constructor
    · rintro (h1 | h1)
      · exact Or.inl h1.symm
      · exact Or.inr h1
    · rintro (h1 | h1)
      · exact Or.inl h1.symm
      · exact Or.inr h1
theorem memberList_toCompL (n : Nat) : ∀ (l : List WtoC), Fix.memberList n (toCompL l) = true ↔ n ∈ flattenL l
  | [] => by simp [toCompL, Fix.memberList, flattenL]
  | c :: cs => by
    simp only [toCompL, Fix.memberList, flattenL, List.mem_append, Bool.or_eq_true,
      member_toComp n c, memberList_toCompL n cs]
end

/-- the test that decides whether `headsOf` enters a cycle -/
theorem enters_iff (n h : Nat) (body : List WtoC) :
    (h == n || Fix.memberList n (toCompL body)) = true ↔ n ∈ flattenC (.cycle h body) := by
  simp only [Bool.or_eq_true, beq_iff_eq, memberList_toCompL, flattenC, List.mem_cons]
  constructor
  · rintro (h1 | h1)
    · exact Or.inl h1.symm
    · exact Or.inr h1
  · rintro (h1 | h1)
    · exact Or.inl h1.symm
    · exact Or.inr h1

mutual
theorem headsOf_nil_of_not_mem (n : Nat) : ∀ (c : WtoC), n ∉ flattenC c → (toComp c).headsOf n = []
  | .vertex v, _ => by simp [toComp, Fix.Comp.headsOf]
  | .cycle h body, hn => by
    have : ¬ ((h == n || Fix.memberList n (toCompL body)) = true) := fun hc => hn ((enters_iff n h body).1 hc)
    simp only [toComp, Fix.Comp.headsOf]
    simp [this]
theorem headsOfList_nil_of_not_mem (n : Nat) : ∀ (l : List WtoC), n ∉ flattenL l → Fix.headsOfList n (toCompL l) = []
  | [], _ => by simp [toCompL, Fix.headsOfList]
  | c :: cs, hn => by
    simp only [flattenL, List.mem_append, not_or] at hn
    simp [toCompL, Fix.headsOfList, headsOf_nil_of_not_mem n c hn.1, headsOfList_nil_of_not_mem n cs hn.2]
end

theorem flattenC_sub_of_mem {c : WtoC} {l : List WtoC} (h : c ∈ l) : ∀ x ∈ flattenC c, x ∈ flattenL l :=
  fun _ hx => mem_flattenL.2 ⟨c, h, hx⟩

theorem flatten_of_sub {c : WtoC} {l : List WtoC} (h : Sub c l) : ∀ x ∈ flattenC c, x ∈ flattenL l := by
  induction h with
  | here hm => exact flattenC_sub_of_mem hm
  | inside hm _ ih =>
    intro x hx
    exact flattenC_sub_of_mem hm x (by simp [flattenC, ih x hx])

theorem headsOf_sub_headsOfList (n : Nat) {c : WtoC} : ∀ {l : List WtoC}, c ∈ l →
    ∀ x ∈ (toComp c).headsOf n, x ∈ Fix.headsOfList n (toCompL l)
  | [], hm, _, _ => by cases hm
  | d :: ds, hm, x, hx => by
    simp only [toCompL, Fix.headsOfList, List.mem_append]
    rcases List.mem_cons.1 hm with rfl | hm
    · exact Or.inl hx
    · exact Or.inr (headsOf_sub_headsOfList n hm x hx)

/-- the head of a cycle containing `p` is one of the `headsOf p` -/
theorem head_mem_headsOfList {p h : Nat} {c : WtoC} {l : List WtoC} (hs : Sub c l) :
    ∀ body, c = .cycle h body → p ∈ flattenC (.cycle h body) → h ∈ Fix.headsOfList p (toCompL l) := by
  induction hs with
  | here hm =>
    intro body hc hp
    subst hc
    apply headsOf_sub_headsOfList p hm
    simp only [toComp, Fix.Comp.headsOf]
    rw [if_pos ((enters_iff p h body).2 hp)]
    simp
  | inside hm hsub ih =>
    rename_i h' body' _
    intro body hc hp
    apply headsOf_sub_headsOfList p hm
    have hp' : p ∈ flattenC (.cycle h' body') := by
      simp only [flattenC, List.mem_cons]
      exact Or.inr (flatten_of_sub hsub p (hc ▸ hp))
    simp only [toComp, Fix.Comp.headsOf]
    rw [if_pos ((enters_iff p h' body').2 hp')]
    exact List.mem_cons_of_mem _ (ih body hc hp)

/-! ### nesting: the filtered `headsOf` list is the list of strictly enclosing heads -/

theorem Encl.mono {l l' : List WtoC} {v : Nat} {hs : List Nat} (h : Encl l v hs)
    (hsub : ∀ c ∈ l, c ∈ l') : Encl l' v hs := by
  cases h with
  | vertex hm => exact Encl.vertex (hsub _ hm)
  | head hm => exact Encl.head (hsub _ hm)
  | inner hm hb => exact Encl.inner (hsub _ hm) hb

mutual
theorem encl_headsOfC (n : Nat) : ∀ (c : WtoC), (flattenC c).Nodup → n ∈ flattenC c →
    Encl [c] n (((toComp c).headsOf n).filter (· != n))
  | .vertex v, _, hn => by
    have : n = v := by simpa [flattenC] using hn
    subst this
    simp only [toComp, Fix.Comp.headsOf, List.filter_nil]
    exact Encl.vertex (List.mem_singleton.2 rfl)
  | .cycle h body, hnd, hn => by
    simp only [toComp, Fix.Comp.headsOf]
    rw [if_pos ((enters_iff n h body).2 hn)]
    simp only [flattenC, List.nodup_cons] at hnd
    by_cases hh : h = n
    · subst hh
      rw [headsOfList_nil_of_not_mem h body hnd.1]
      simp only [List.filter_cons, bne_self_eq_false, Bool.false_eq_true, if_false, List.filter_nil]
      exact Encl.head (body := body) (List.mem_singleton.2 rfl)
    · have hnb : n ∈ flattenL body := by
        rcases List.mem_cons.1 hn with h1 | h1
        · exact absurd h1.symm hh
        · exact h1
      have hb : (h != n) = true := by simpa using hh
      simp only [List.filter_cons, hb, if_true]
      exact Encl.inner (List.mem_singleton.2 rfl) (encl_headsOfL n body hnd.2 hnb)
theorem encl_headsOfL (n : Nat) : ∀ (l : List WtoC), (flattenL l).Nodup → n ∈ flattenL l →
    Encl l n ((Fix.headsOfList n (toCompL l)).filter (· != n))
  | [], _, hn => by simp [flattenL] at hn
  | c :: cs, hnd, hn => by
    simp only [flattenL, List.nodup_append] at hnd
    simp only [toCompL, Fix.headsOfList]
    by_cases hc : n ∈ flattenC c
    · have hcs : n ∉ flattenL cs := fun h2 => hnd.2.2 n hc n h2 rfl
      rw [headsOfList_nil_of_not_mem n cs hcs, List.append_nil]
      exact (encl_headsOfC n c hnd.1 hc).mono (by intro d hd; simp at hd; simp [hd])
    · have hcs : n ∈ flattenL cs := by
        simp only [flattenL, List.mem_append] at hn
        rcases hn with h1 | h1
        · exact absurd h1 hc
        · exact h1
      rw [headsOf_nil_of_not_mem n c hc, List.nil_append]
      exact (encl_headsOfL n cs hnd.2.1 hcs).mono (fun d hd => List.mem_cons_of_mem _ hd)
end

/-- a well-formed ordering in the sense of C07 is well-formed in the sense the fixpoint iterator
    theorems (C01 / C05 / C06) assume, for every context that reads its predecessor lists, start
    block and nesting table off the same graph -/
theorem fix_wtowf_of_wtowf {A : Type} {g : Graph} {e : Nat} {w : List WtoC}
    {nest : Nat → Option (List Nat)} (h : WtoWF g e w nest) (c : Fix.Ctx A)
    (hpreds : ∀ p n, p ∈ c.preds n → n ∈ g.succ p) (hentry : c.entry = e)
    (hnest : c.nesting = nest) : Fix.WtoWF c (toCompL w) := by
  have hnl := nodesList_toCompL w
  refine ⟨by rw [hnl]; exact h.nodup, ?_, ?_, ?_, ?_, ?_⟩
  · intro p n hp hpm
    rw [hnl] at hpm ⊢
    exact (h.nodes n).2 (Reach.step ((h.nodes p).1 hpm) (hpreds p n hp))
  · intro p n hp hpm _
    rw [hnl] at hpm
    rcases h.edges p n ((h.nodes p).1 hpm) (hpreds p n hp) with hb | ⟨body, hs, hm⟩
    · left
      simp only [Fix.pos, hnl]
      exact idxOf_lt_of_before h.nodup hb
    · right
      exact head_mem_headsOfList hs body rfl hm
  · rw [hnl, hentry]; exact (h.nodes e).2 Reach.refl
  · intro n hn
    rw [hnl] at hn
    rw [hnest]
    exact h.nest_some n _ (encl_headsOfL n w h.nodup hn)
  · intro n hn
    rw [hnl] at hn
    rw [hnest]
    exact h.nest_none n hn

end Wto
end Crab
