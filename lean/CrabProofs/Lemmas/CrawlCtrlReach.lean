import CrabProofs.Lemmas.CrawlCtrlCdg

/-!
  `add_control_deps::reach` (the model `Cdg.reaches`, with the fuel of the model) computes a set
  that contains the roots and is closed under the edges of the control-dependence graph; every
  block of the region between a branch `d` and the block where its branches join is reachable in
  a complete graph from the blocks control dependent on `d` (`region_reach`); a complete graph
  passes the decidable test `isCdgOK`, and the test gives back the facts the crawler proof uses
  (`CdgOKp`).
-/
namespace Crab
namespace TIR

/-! ### the worklist with another fuel argument -/

theorem reachFrom_spec_w (next : Label → List Label) (W : List Label → Nat)
    (hW : ∀ l seen, l ∉ seen → W (l :: seen) + (next l).length ≤ W seen) :
    ∀ (fuel : Nat) (work seen : List Label),
      (∀ s, s ∈ seen → ∀ s', s' ∈ next s → s' ∈ seen ∨ s' ∈ work) →
      work.length + W seen ≤ fuel →
      (∀ s, s ∈ seen → s ∈ reachFrom next fuel work seen) ∧
      (∀ s, s ∈ work → s ∈ reachFrom next fuel work seen) ∧
      (∀ s, s ∈ reachFrom next fuel work seen → ∀ s', s' ∈ next s → s' ∈ reachFrom next fuel work seen) := by
  intro fuel
  induction fuel with
  | zero =>
    intro work seen hI hf
    have hw : work = [] := by
      cases work with
      | nil => rfl
      | cons a r => simp at hf
    subst hw
    simp only [reachFrom]
    refine ⟨fun s hs => hs, fun s hs => by simp at hs, ?_⟩
    intro s hs s' hs'
    rcases hI s hs s' hs' with h | h
    · exact h
    · simp at h
  | succ fuel ih =>
    intro work seen hI hf
    cases work with
    | nil =>
      simp only [reachFrom]
      refine ⟨fun s hs => hs, fun s hs => by simp at hs, ?_⟩
      intro s hs s' hs'
      rcases hI s hs s' hs' with h | h
      · exact h
      · simp at h
    | cons l rest =>
      simp only [reachFrom]
      by_cases hl : seen.contains l = true
      · simp only [hl, if_true]
        have hlm : l ∈ seen := by simpa using hl
        obtain ⟨h1, h2, h3⟩ := ih rest seen
          (by
            intro s hs s' hs'
            rcases hI s hs s' hs' with h | h
            · exact Or.inl h
            · rcases List.mem_cons.mp h with rfl | h
              · exact Or.inl hlm
              · exact Or.inr h)
          (by simp only [List.length_cons] at hf; omega)
        refine ⟨h1, ?_, h3⟩
        intro s hs
        rcases List.mem_cons.mp hs with rfl | hs
        · exact h1 _ hlm
        · exact h2 s hs
      · have hl' : seen.contains l = false := by simpa using hl
        simp only [hl', Bool.false_eq_true, if_false]
        have hlm : l ∉ seen := by simpa using hl'
        obtain ⟨h1, h2, h3⟩ := ih (next l ++ rest) (l :: seen)
          (by
            intro s hs s' hs'
            rcases List.mem_cons.mp hs with rfl | hs
            · exact Or.inr (List.mem_append.mpr (Or.inl hs'))
            · rcases hI s hs s' hs' with h | h
              · exact Or.inl (List.mem_cons_of_mem _ h)
              · rcases List.mem_cons.mp h with rfl | h
                · exact Or.inl List.mem_cons_self
                · exact Or.inr (List.mem_append.mpr (Or.inr h)))
          (by
            have := hW l seen hlm
            simp only [List.length_cons, List.length_append] at hf ⊢
            omega)
        refine ⟨fun s hs => h1 s (List.mem_cons_of_mem _ hs), ?_, h3⟩
        intro s hs
        rcases List.mem_cons.mp hs with rfl | hs
        · exact h1 _ List.mem_cons_self
        · exact h2 s (List.mem_append.mpr (Or.inr hs))

/-! ### `Cdg.reaches` -/

/-- the entries whose key has not been visited yet, each with weight `|children| + 1` -/
def cdgW (g : Cdg) (seen : List Label) : Nat :=
  ((g.filter (fun p => !seen.contains p.1)).map (fun p => p.2.length + 1)).sum

theorem cdgW_mono (g : Cdg) (l : Label) (seen : List Label) : cdgW g (l :: seen) ≤ cdgW g seen := by
  unfold cdgW
  induction g with
  | nil => simp
  | cons p r ih =>
    simp only [List.filter_cons]
    by_cases h1 : seen.contains p.1 = true
    · have h2 : (l :: seen).contains p.1 = true := by
        simp only [List.contains_iff_mem] at h1 ⊢
        exact List.mem_cons_of_mem _ h1
      simp only [h1, h2, Bool.not_true, Bool.false_eq_true, if_false]
      exact ih
    · have h1' : seen.contains p.1 = false := by simpa using h1
      simp only [h1', Bool.not_false, if_true, List.map_cons, List.sum_cons]
      split
      · simp only [List.map_cons, List.sum_cons]; omega
      · omega

theorem cdgW_cons (g : Cdg) (l : Label) (seen : List Label) (hl : l ∉ seen) :
    cdgW g (l :: seen) + (g.kids l).length ≤ cdgW g seen := by
  induction g with
  | nil => simp [cdgW, Cdg.kids]
  | cons p r ih =>
    obtain ⟨k, K⟩ := p
    by_cases hk : l = k
    · subst hk
      have h1 : seen.contains l = false := by simpa using hl
      have h2 : (l :: seen).contains l = true := by simp
      have hm := cdgW_mono r l seen
      unfold cdgW at hm ⊢
      simp only [Cdg.kids, List.lookup_cons, beq_self_eq_true, Option.getD_some, List.filter_cons, h1, h2,
        Bool.not_true, Bool.false_eq_true, if_false, Bool.not_false, if_true, List.map_cons, List.sum_cons]
      omega
    · have hb : (l == k) = false := by simpa using hk
      have hkids : Cdg.kids ((k, K) :: r) l = Cdg.kids r l := by
        simp [Cdg.kids, List.lookup_cons, hb]
      rw [hkids]
      have hc : (l :: seen).contains k = seen.contains k := by
        have hne : k ≠ l := fun e => hk e.symm
        simp [hne]
      unfold cdgW at ih ⊢
      simp only [List.filter_cons, hc]
      split
      · simp only [List.map_cons, List.sum_cons]; omega
      · exact ih

theorem cdg_fuel_eq (g : Cdg) : g.fuel = 1 + (g.map (fun p => p.2.length + 1)).sum := by
  unfold Cdg.fuel
  have : ∀ (g : Cdg) (a : Nat), g.foldl (fun n p => n + p.2.length + 1) a = a + (g.map (fun p => p.2.length + 1)).sum := by
    intro g
    induction g with
    | nil => intro a; simp
    | cons p r ih => intro a; simp only [List.foldl_cons, ih, List.map_cons, List.sum_cons]; omega
  exact this g 1

theorem cdgW_nil (g : Cdg) : cdgW g [] + 1 = g.fuel := by
  rw [cdg_fuel_eq]
  unfold cdgW
  have : g.filter (fun p => !([] : List Label).contains p.1) = g := by
    apply List.filter_eq_self.mpr
    intro p _
    simp
  rw [this]
  omega

/-- the roots are reached -/
theorem reaches_root (g : Cdg) (roots : List Label) {r : Label} (hr : r ∈ roots) : g.reaches roots r = true := by
  unfold Cdg.reaches
  obtain ⟨_, h2, _⟩ := reachFrom_spec_w (fun l => (g.lookup l).getD []) (cdgW g) (cdgW_cons g)
    (g.fuel + roots.length) roots [] (by intro s hs; cases hs) (by have := cdgW_nil g; omega)
  exact List.contains_iff_mem.mpr (h2 r hr)

/-- the reached set is closed under the edges of the graph -/
theorem reaches_step (g : Cdg) (roots : List Label) {a b : Label} (ha : g.reaches roots a = true)
    (hb : b ∈ g.kids a) : g.reaches roots b = true := by
  unfold Cdg.reaches at ha ⊢
  obtain ⟨_, _, h3⟩ := reachFrom_spec_w (fun l => (g.lookup l).getD []) (cdgW g) (cdgW_cons g)
    (g.fuel + roots.length) roots [] (by intro s hs; cases hs) (by have := cdgW_nil g; omega)
  exact List.contains_iff_mem.mpr (h3 a (List.contains_iff_mem.mp ha) b hb)

/-! ### the region between a branch and its join -/

theorem gpath_avoid_sub {P : Prog} {s a b : Label} (h : GPath (succsAvoid P s) a b) : GPath P.succsOf a b :=
  h.mono (fun _ _ hl => (mem_succsAvoid.mp hl).1)

/-- `s` = a successor of `d` that strictly post-dominates `d`; from a block `b` of the region
    (reaches the exit, is not `s`, is post-dominated by `s`, and each of its post-dominators is
    reached in `g` from the children of `d` or strictly post-dominates `d`) every block `u` on a
    path that avoids `s` and that reaches the exit is reached in `g` from the children of `d` -/
theorem region_reach {P : Prog} {g : Cdg} (hg : CdgComplete P g) (hwf : WFp P) {x d s : Label}
    (hx : P.exit = some x) (hsd : PDom P x s d) (hsne : s ≠ d) (hss : s ∈ P.succsOf d) :
    ∀ {b u : Label}, GPath (succsAvoid P s) b u → CoReach P x u → b ∈ P.labels → b ≠ s → PDom P x s b →
      (∀ w, PDom P x w b → g.reaches (g.kids d) w = true ∨ (w ≠ d ∧ PDom P x w d)) →
      g.reaches (g.kids d) u = true := by
  -- a block of the region that strictly post-dominates `d` would be `s`
  have hkey : ∀ b, CoReach P x b → b ≠ s → PDom P x s b → (b ≠ d ∧ PDom P x b d) → False := by
    intro b hcb hbs hsb hbd
    have : PDom P x b s := PDom.succ hbd.2 hbd.1 hss
    exact hbs (PDom.antisymm hcb hsb this).symm
  intro b u hp
  induction hp with
  | refl a =>
    intro hco _ hbs hsb hQ
    rcases hQ a (PDom.refl P x a) with h | h
    · exact h
    · exact absurd h (hkey a hco hbs hsb)
  | @step b c u hc hp ih =>
    intro hco hbl hbs hsb hQ
    obtain ⟨hcs, hcne⟩ := mem_succsAvoid.mp hc
    have hcoc : CoReach P x c := (gpath_avoid_sub hp).trans hco
    have hcob : CoReach P x b := GPath.step hcs hcoc
    have hRb : g.reaches (g.kids d) b = true := by
      rcases hQ b (PDom.refl P x b) with h | h
      · exact h
      · exact absurd h (hkey b hcob hbs hsb)
    apply ih hco (hwf.succ_lab b c hcs) hcne (PDom.succ hsb (fun e => hbs e.symm) hcs)
    intro w hw
    by_cases hwb : w ≠ b ∧ PDom P x w b
    · exact hQ w hwb.2
    · left
      exact reaches_step g _ hRb (hg.fow x b c w hx hbl hcs hcoc hw hwb)

/-- the start of the region: the successors of `d` -/
theorem region_start {P : Prog} {g : Cdg} (hg : CdgComplete P g) {x d t : Label}
    (hx : P.exit = some x) (hd : d ∈ P.labels) (ht : t ∈ P.succsOf d) (hco : CoReach P x t) :
    ∀ w, PDom P x w t → g.reaches (g.kids d) w = true ∨ (w ≠ d ∧ PDom P x w d) := by
  intro w hw
  by_cases h : w ≠ d ∧ PDom P x w d
  · exact Or.inr h
  · exact Or.inl (reaches_root g _ (hg.fow x d t w hx hd ht hco hw h))

/-! ### the decidable test -/

/-- what `isCdgOK` says, as propositions -/
structure CdgOKp (P : Prog) (g : Cdg) : Prop where
  esc : ∀ d s t u, d ∈ P.labels → 2 ≤ (P.succsOf d).length → s ∈ P.succsOf d → s ∉ P.coExit →
    t ∈ P.succsOf d → GPath P.succsOf t u → u ∈ g.kids d
  join : ∀ d s, d ∈ P.labels → 2 ≤ (P.succsOf d).length → s ∈ P.succsOf d → s ∉ g.kids d →
    ∃ x, P.exit = some x ∧ (∀ t, t ∈ P.succsOf d → CoReach P x t ∧ PDom P x s t) ∧
      ∀ t u, t ∈ P.succsOf d → t ≠ s → GPath (succsAvoid P s) t u → CoReach P x u →
        g.reaches (g.kids d) u = true

theorem isCdgOK_spec {P : Prog} {g : Cdg} (hwf : WFp P) (h : isCdgOK P g = true) : CdgOKp P g := by
  unfold isCdgOK at h
  have hd := List.all_eq_true.mp h
  constructor
  · intro d s t u hdl h2 hs hsco ht hp
    have := hd d hdl
    simp only [Bool.or_eq_true, decide_eq_true_eq, Bool.and_eq_true] at this
    rcases this with h' | ⟨hA, _⟩
    · omega
    · rcases hA with hA | hA
      · simp only [Bool.not_eq_eq_eq_not, Bool.not_true, List.any_eq_false, Bool.not_eq_true', Bool.not_eq_false] at hA
        exact absurd (List.contains_iff_mem.mp (by simpa using hA s hs)) hsco
      · have hu : u ∈ reachFrom P.succsOf P.reachFuel (P.succsOf d) [] := by
          rw [reachFuel_eq]
          exact reachFrom_complete_list P.succsOf P.labels (wf_next_succs hwf) (P.succsOf d)
            (fun s hs => hwf.succ_lab d s hs) (wf_next_succs hwf d).2 ht hp
        exact List.contains_iff_mem.mp ((List.all_eq_true.mp hA) u hu)
  · intro d s hdl h2 hs hsk
    have := hd d hdl
    simp only [Bool.or_eq_true, decide_eq_true_eq, Bool.and_eq_true] at this
    rcases this with h' | ⟨_, hB⟩
    · omega
    · have hBs := (List.all_eq_true.mp hB) s hs
      simp only [Bool.or_eq_true, Bool.and_eq_true] at hBs
      rcases hBs with hBs | ⟨⟨hC1, hJ⟩, hC3⟩
      · exact absurd (List.contains_iff_mem.mp hBs) hsk
      · unfold Prog.joinB at hJ
        cases hx : P.exit with
        | none => rw [hx] at hJ; cases hJ
        | some x =>
          rw [hx] at hJ
          simp only at hJ
          refine ⟨x, rfl, ?_, ?_⟩
          · intro t ht
            have h1 := List.contains_iff_mem.mp ((List.all_eq_true.mp hC1) t ht)
            obtain ⟨x', hx', hco⟩ := mem_coExit hwf h1
            rw [hx] at hx'
            simp only [Option.some.injEq] at hx'
            subst hx'
            exact ⟨hco, (pdomB_iff hwf (hwf.succ_lab d t ht)).mp ((List.all_eq_true.mp hJ) t ht)⟩
          · intro t u ht hts hp hco
            have hu : u ∈ P.region d s := by
              unfold Prog.region
              rw [reachFuel_eq]
              refine reachFrom_complete_list (succsAvoid P s) P.labels (wf_next_avoid hwf s) _ ?_ ?_
                (List.mem_filter.mpr ⟨ht, by simpa using hts⟩) hp
              · intro a ha; exact hwf.succ_lab d a (List.mem_filter.mp ha).1
              · exact Nat.le_trans (List.length_filter_le _ _) (wf_next_succs hwf d).2
            have := (List.all_eq_true.mp hC3) u hu
            simp only [Bool.or_eq_true, Bool.not_eq_eq_eq_not, Bool.not_true] at this
            rcases this with h1 | h1
            · have := coExit_of_coReach hwf hx hco
              rw [List.contains_iff_mem.mpr this] at h1
              cases h1
            · exact h1

/-- a complete graph passes the test -/
theorem isCdgOK_of_complete {P : Prog} {g : Cdg} (hwf : WFp P) (hg : CdgComplete P g) : isCdgOK P g = true := by
  unfold isCdgOK
  apply List.all_eq_true.mpr
  intro d hdl
  simp only [Bool.or_eq_true, decide_eq_true_eq, Bool.and_eq_true]
  by_cases h2 : (P.succsOf d).length < 2
  · exact Or.inl h2
  · right
    have h2' : 2 ≤ (P.succsOf d).length := by omega
    constructor
    · by_cases hany : (P.succsOf d).any (fun s => !P.coExit.contains s) = true
      · right
        obtain ⟨s, hs, hsc⟩ := List.any_eq_true.mp hany
        have hsco : s ∉ P.coExit := by simpa using hsc
        apply List.all_eq_true.mpr
        intro u hu
        rcases reachFrom_sound _ _ _ _ _ hu with h1 | ⟨w, hw, hp⟩
        · cases h1
        · apply List.contains_iff_mem.mpr
          exact hg.escape d s w u hdl h2' hs (fun x hx hco => hsco (coExit_of_coReach hwf hx hco)) hw hp
      · left; simpa using hany
    · apply List.all_eq_true.mpr
      intro s hs
      simp only [Bool.or_eq_true, Bool.and_eq_true]
      by_cases hsk : s ∈ g.kids d
      · exact Or.inl (List.contains_iff_mem.mpr hsk)
      · right
        have hall : ∀ t, t ∈ P.succsOf d → t ∈ P.coExit := by
          intro t ht
          apply Classical.byContradiction
          intro htc
          exact hsk (hg.escape d t s s hdl h2' ht (fun x hx hco => htc (coExit_of_coReach hwf hx hco)) hs (GPath.refl s))
        obtain ⟨x, hx, hcos⟩ := mem_coExit hwf (hall s hs)
        have hsd : s ≠ d ∧ PDom P x s d := by
          apply Classical.byContradiction
          intro hno
          exact hsk (hg.fow x d s s hx hdl hs hcos (PDom.refl P x s) hno)
        have hcot : ∀ t, t ∈ P.succsOf d → CoReach P x t := by
          intro t ht
          obtain ⟨x', hx', hco⟩ := mem_coExit hwf (hall t ht)
          rw [hx] at hx'
          simp only [Option.some.injEq] at hx'
          subst hx'
          exact hco
        refine ⟨⟨?_, ?_⟩, ?_⟩
        · exact List.all_eq_true.mpr (fun t ht => List.contains_iff_mem.mpr (hall t ht))
        · unfold Prog.joinB
          rw [hx]
          apply List.all_eq_true.mpr
          intro t ht
          exact (pdomB_iff hwf (hwf.succ_lab d t ht)).mpr (PDom.succ hsd.2 hsd.1 ht)
        · apply List.all_eq_true.mpr
          intro u hu
          simp only [Bool.or_eq_true, Bool.not_eq_eq_eq_not, Bool.not_true]
          by_cases huc : u ∈ P.coExit
          · right
            obtain ⟨x', hx', hcou⟩ := mem_coExit hwf huc
            rw [hx] at hx'
            simp only [Option.some.injEq] at hx'
            subst hx'
            unfold Prog.region at hu
            rcases reachFrom_sound _ _ _ _ _ hu with h1 | ⟨t, ht, hp⟩
            · cases h1
            · obtain ⟨ht1, ht2⟩ := List.mem_filter.mp ht
              have hts : t ≠ s := by simpa using ht2
              exact region_reach hg hwf hx hsd.2 hsd.1 hs hp hcou (hwf.succ_lab d t ht1) hts
                (PDom.succ hsd.2 hsd.1 ht1) (region_start hg hx hdl ht1 (hcot t ht1))
          · left
            simpa using huc

/-- hence: what the crawler proof uses holds for every complete graph -/
theorem CdgComplete.okp {P : Prog} {g : Cdg} (hwf : WFp P) (hg : CdgComplete P g) : CdgOKp P g :=
  isCdgOK_spec hwf (isCdgOK_of_complete hwf hg)

end TIR
end Crab
