import CrabProofs.Props.C13WInt2
import CrabModel.Dom.WIntDomain

/-!
  Value-level lemmas for the wrapped interval *domain* (`Crab.WDom`,
  CrabModel/Dom/WIntDomain.lean): what `separate_domain::at` returns for a variable of declared
  width `w` is either the object `top()` (width 3) or an interval of width `w` (`Good w`); the
  scalar theorems of `C13WInt*.lean` (stated for `Shape w`) are lifted to `Good w` operands, and
  the results of the operations the domain chains (`+`, `-`, `*`, `mk_winterval`) are shown to be
  `Good w` again.
-/
namespace Crab
namespace WInt
open WrapInt

theorem isTop_top : (top : WInt).isTop = true := by decide

theorem good_shape {w : Nat} {x : WInt} (h : Good w x) (ht : x.isTop = false) : Shape w x := by
  rcases h with rfl | h
  · rw [isTop_top] at ht; cases ht
  · exact h

theorem good_of_shape {w : Nat} {x : WInt} (h : Shape w x) : Good w x := Or.inr h
theorem good_top (w : Nat) : Good w top := Or.inl rfl
theorem good_bot (w : Nat) : Good w bottom := Or.inr (Or.inl rfl)

theorem memBV_of_isTop {w : Nat} {v : BitVec w} {x : WInt} (h : x.isTop = true) : memBV v x :=
  mem_of_isTop h

/-- `+` keeps the shape -/
theorem add_good {w : Nat} (hw : w ≤ 64) {x y : WInt} (hx : Good w x) (hy : Good w y) : Good w (x.add y) := by
  unfold add
  by_cases hb : (x.isBottom || y.isBottom) = true
  · rw [if_pos hb]; exact good_bot w
  · rw [if_neg hb]
    by_cases ht : (x.isTop || y.isTop) = true
    · rw [if_pos ht]; exact good_top w
    · rw [if_neg ht]
      simp only [Bool.or_eq_true, not_or, Bool.not_eq_true] at hb ht
      have sx := good_shape hx ht.1
      have sy := good_shape hy ht.2
      obtain ⟨s1, e1, _, _, rfl⟩ := shape_cases sx hb.1
      obtain ⟨s2, e2, _, _, rfl⟩ := shape_cases sy hb.2
      dsimp only
      split
      · exact good_top w
      · exact good_of_shape (shape_mk2 rfl rfl (addT_lt hw _ _ rfl) (addT_lt hw _ _ rfl))

/-- binary `-` keeps the shape -/
theorem sub_good {w : Nat} (hw : w ≤ 64) {x y : WInt} (hx : Good w x) (hy : Good w y) : Good w (x.sub y) := by
  unfold sub
  by_cases hb : (x.isBottom || y.isBottom) = true
  · rw [if_pos hb]; exact good_bot w
  · rw [if_neg hb]
    by_cases ht : (x.isTop || y.isTop) = true
    · rw [if_pos ht]; exact good_top w
    · rw [if_neg ht]
      simp only [Bool.or_eq_true, not_or, Bool.not_eq_true] at hb ht
      have sx := good_shape hx ht.1
      have sy := good_shape hy ht.2
      obtain ⟨s1, e1, _, _, rfl⟩ := shape_cases sx hb.1
      obtain ⟨s2, e2, _, _, rfl⟩ := shape_cases sy hb.2
      dsimp only
      split
      · exact good_top w
      · exact good_of_shape (shape_mk2 rfl rfl (subT_lt hw _ _ rfl) (subT_lt hw _ _ rfl))

/-- `*` keeps the shape -/
theorem mul_good {w : Nat} (h1w : 1 ≤ w) (hw : w ≤ 64) {x y r : WInt} (hx : Good w x) (hy : Good w y)
    (h : x.mul y = some r) : Good w r := by
  by_cases hb : (x.isBottom || y.isBottom) = true
  · have : x.mul y = some bottom := by simp [mul, hb]
    rw [this] at h; injection h with h; subst h; exact good_bot w
  · by_cases ht : (x.isTop || y.isTop) = true
    · have : x.mul y = some top := by simp [mul, hb, ht]
      rw [this] at h; injection h with h; subst h; exact good_top w
    · have hb' : (x.isBottom || y.isBottom) = false := by simpa using hb
      have ht' : (x.isTop || y.isTop) = false := by simpa using ht
      simp only [Bool.or_eq_false_iff] at hb' ht'
      obtain ⟨s1, e1, h1, h2, rfl⟩ := shape_cases (good_shape hx ht'.1) hb'.1
      obtain ⟨s2, e2, h3, h4, rfl⟩ := shape_cases (good_shape hy ht'.2) hb'.2
      have ht2 : ((W w s1 e1 false).isTop || (W w s2 e2 false).isTop) = false := by simp [ht'.1, ht'.2]
      rw [mul_unfold rfl ht2] at h
      cases hc1 : (W w s1 e1 false).cut? with
      | none => rw [hc1] at h; cases h
      | some cuts =>
        cases hc2 : (W w s2 e2 false).cut? with
        | none => rw [hc1, hc2] at h; cases h
        | some ycuts =>
          rw [hc1, hc2] at h
          simp only [Option.bind_some] at h
          obtain ⟨p1, _⟩ := cut_spec h1w hw h1 h2 hc1
          obtain ⟨p2, _⟩ := cut_spec h1w hw h3 h4 hc2
          have ax : AllPieces w cuts := fun p hp => by
            obtain ⟨a, b, e, _⟩ := p1 p hp; exact ⟨a, b, e⟩
          have ay : AllPieces w ycuts := fun p hp => by
            obtain ⟨a, b, e, _⟩ := p2 p hp; exact ⟨a, b, e⟩
          exact (mulOuter_spec hw cuts ycuts ax ay (good_bottom w) h).1

/-- `SDiv` keeps the shape -/
theorem sdiv_good {w : Nat} (h1w : 1 ≤ w) (hw : w ≤ 64) {x y r : WInt} (hx : Good w x) (hy : Good w y)
    (h : x.sdiv y = some r) : Good w r := by
  by_cases hb : (x.isBottom || y.isBottom) = true
  · have : x.sdiv y = some bottom := by simp [sdiv, hb]
    rw [this] at h; injection h with h; subst h; exact good_bot w
  · by_cases ht : (x.isTop || y.isTop) = true
    · have : x.sdiv y = some top := by simp [sdiv, hb, ht]
      rw [this] at h; injection h with h; subst h; exact good_top w
    · have hb' : (x.isBottom || y.isBottom) = false := by simpa using hb
      have ht' : (x.isTop || y.isTop) = false := by simpa using ht
      simp only [Bool.or_eq_false_iff] at hb' ht'
      obtain ⟨s1, e1, h1, h2, rfl⟩ := shape_cases (good_shape hx ht'.1) hb'.1
      obtain ⟨s2, e2, h3, h4, rfl⟩ := shape_cases (good_shape hy ht'.2) hb'.2
      have ht2 : ((W w s1 e1 false).isTop || (W w s2 e2 false).isTop) = false := by simp [ht'.1, ht'.2]
      rw [sdiv_unfold rfl ht2] at h
      cases hc1 : (W w s1 e1 false).cut? with
      | none => rw [hc1] at h; cases h
      | some cuts =>
        cases hc2 : (W w s2 e2 false).cut? with
        | none => rw [hc1, hc2] at h; cases h
        | some ycuts =>
          rw [hc1, hc2] at h
          simp only [Option.bind_some] at h
          obtain ⟨p1, _⟩ := cut_spec h1w hw h1 h2 hc1
          obtain ⟨p2, _⟩ := cut_spec h1w hw h3 h4 hc2
          have ax : AllPieces w cuts := fun p hp => by
            obtain ⟨a, b, e, _⟩ := p1 p hp; exact ⟨a, b, e⟩
          have ay : AllPieces w ycuts := fun p hp => by
            obtain ⟨a, b, e, _⟩ := p2 p hp; exact ⟨a, b, e⟩
          exact (sdivOuter_spec hw cuts ycuts ax ay (good_bottom w) h).1

/-- `UDiv` keeps the shape -/
theorem udiv_good {w : Nat} (h1w : 1 ≤ w) (hw : w ≤ 64) {x y r : WInt} (hx : Good w x) (hy : Good w y)
    (h : x.udiv y = some r) : Good w r := by
  by_cases hb : (x.isBottom || y.isBottom) = true
  · have : x.udiv y = some bottom := by simp [udiv, hb]
    rw [this] at h; injection h with h; subst h; exact good_bot w
  · by_cases ht : (x.isTop || y.isTop) = true
    · have : x.udiv y = some top := by simp [udiv, hb, ht]
      rw [this] at h; injection h with h; subst h; exact good_top w
    · have hb' : (x.isBottom || y.isBottom) = false := by simpa using hb
      have ht' : (x.isTop || y.isTop) = false := by simpa using ht
      simp only [Bool.or_eq_false_iff] at hb' ht'
      obtain ⟨s1, e1, h1, h2, rfl⟩ := shape_cases (good_shape hx ht'.1) hb'.1
      obtain ⟨s2, e2, h3, h4, rfl⟩ := shape_cases (good_shape hy ht'.2) hb'.2
      unfold udiv at h
      simp only [Bool.or_self, Bool.false_eq_true, if_false] at h
      split at h
      · injection h with h; subst h; exact good_top w
      · cases hc1 : unsignedSplit? (W w s1 e1 false) with
        | none => rw [hc1] at h; cases h
        | some cuts =>
          cases hc2 : unsignedSplit? (W w s2 e2 false) with
          | none => rw [hc1, hc2] at h; cases h
          | some ycuts =>
            rw [hc1, hc2] at h
            simp only at h
            obtain ⟨ord1, _⟩ := usplit_spec h1w hw h1 h2 hc1
            obtain ⟨ord2, _⟩ := usplit_spec h1w hw h3 h4 hc2
            have allx : AllWB w cuts := fun p hp => by
              obtain ⟨a', b', rfl, hab, hb'⟩ := ord1 p hp
              exact ⟨a', b', rfl, by omega, hb'⟩
            have ally : AllW w ycuts := fun p hp => by
              obtain ⟨a', b', rfl, _, _⟩ := ord2 p hp
              exact ⟨a', b', rfl⟩
            exact (udivXs_spec hw ycuts ally cuts bottom r allx (Or.inr (Or.inl rfl)) h).1

/-- `default_implementation` is bottom or top -/
theorem defaultImpl_good (w : Nat) (x y : WInt) : Good w (x.defaultImpl y) := by
  unfold defaultImpl; split
  · exact good_bot w
  · exact good_top w

/-- `*` on `Good` operands -/
theorem mul_sound_good {w : Nat} (h1w : 1 ≤ w) (hw : w ≤ 64) {x y r : WInt} (hx : Good w x) (hy : Good w y)
    (h : x.mul y = some r) {u v : Nat} (hu : u < 2 ^ w) (hv : v < 2 ^ w) (hmu : mem w u x)
    (hmv : mem w v y) : mem w ((u * v) % 2 ^ w) r := by
  by_cases ht : (x.isTop || y.isTop) = true
  · have : x.mul y = some top := by simp [mul, hmu.1, hmv.1, ht]
    rw [this] at h; injection h with h; subst h; exact mem_top _ _
  · have ht' : (x.isTop || y.isTop) = false := by simpa using ht
    simp only [Bool.or_eq_false_iff] at ht'
    exact mul_sound h1w hw (good_shape hx ht'.1) (good_shape hy ht'.2) h hu hv hmu hmv

/-- `+` on `Good` operands -/
theorem add_sound_good {w : Nat} (h1w : 1 ≤ w) (hw : w ≤ 64) {x y : WInt} (hx : Good w x) (hy : Good w y)
    {a b : Nat} (ha : a < 2 ^ w) (hb : b < 2 ^ w) (hma : mem w a x) (hmb : mem w b y) :
    mem w ((a + b) % 2 ^ w) (x.add y) := by
  by_cases ht : (x.isTop || y.isTop) = true
  · have : x.add y = top := by simp [add, hma.1, hmb.1, ht]
    rw [this]; exact mem_top _ _
  · have ht' : (x.isTop || y.isTop) = false := by simpa using ht
    simp only [Bool.or_eq_false_iff] at ht'
    obtain ⟨s1, e1, a1, a2, rfl⟩ := shape_cases (good_shape hx ht'.1) hma.1
    obtain ⟨s2, e2, a3, a4, rfl⟩ := shape_cases (good_shape hy ht'.2) hmb.1
    exact add_W_sound h1w hw a1 a2 a3 a4 ha hb hma hmb

/-- `mk_winterval(n, w)` is `top()` or a singleton of width `w` -/
theorem ofZ_good {w : Nat} (h1w : 1 ≤ w) (hw : w ≤ 64) {z : Int} {r : WInt}
    (h : WInt.ofZ z w = some r) : Good w r := by
  unfold WInt.ofZ at h
  rw [fitsWrapint_iff hw] at h
  cases hz : ZNum.fitsInt64 z
  · rw [hz] at h
    simp only [Bool.false_eq_true, if_false] at h
    injection h with h; subst h; exact good_top w
  · rw [hz] at h
    simp only [if_true, wofZ_val h1w hw hz] at h
    injection h with h; subst h
    exact good_of_shape (shape_W (resN_lt _ _) (resN_lt _ _))

theorem emod_step (M a c : Int) (n : Nat) :
    ((a % M) + ((c % M) * n) % M) % M = (a + c * n) % M := by
  rw [Int.add_emod_emod, Int.emod_add_emod]
  have h2 : (c % M * n) % M = (c * n) % M := by
    rw [Int.mul_emod, Int.emod_emod_of_dvd _ (Int.dvd_refl M), ← Int.mul_emod]
  rw [Int.add_emod a, h2, ← Int.add_emod]

/-- the step of `eval_expr` on residues modulo `2^w` -/
theorem resN_step (w : Nat) (a c : Int) (n : Nat) :
    (resN w a + (resN w c * n) % 2 ^ w) % 2 ^ w = resN w (a + c * n) := by
  have hM : (0 : Int) < ((2 ^ w : Nat) : Int) := by exact_mod_cast Nat.pow_pos (by decide : 0 < 2)
  unfold resN
  have e1 : (((a % ((2 ^ w : Nat) : Int)).toNat : Nat) : Int) = a % ((2 ^ w : Nat) : Int) :=
    Int.toNat_of_nonneg (Int.emod_nonneg _ (by omega))
  have e2 : (((c % ((2 ^ w : Nat) : Int)).toNat : Nat) : Int) = c % ((2 ^ w : Nat) : Int) :=
    Int.toNat_of_nonneg (Int.emod_nonneg _ (by omega))
  apply Int.ofNat_inj.mp
  rw [Int.toNat_of_nonneg (Int.emod_nonneg _ (by omega))]
  push_cast at e1 e2 ⊢
  rw [e1, e2]
  exact emod_step _ a c n

end WInt

namespace WDom
open WInt Lin

/-- the loop of `eval_expr`: the accumulator contains the residue of the partial sum -/
theorem evalLoop_sound {w : Nat} (h1w : 1 ≤ w) (hw : w ≤ 64) (e : Env) (σ : Var → Nat) :
    ∀ (ts : List (Var × Int)) (r0 r : WInt) (acc : Int),
      (∀ p ∈ ts, σ p.1 < 2 ^ w ∧ mem w (σ p.1) (e.get p.1) ∧ Good w (e.get p.1)) →
      Good w r0 → mem w (resN w acc) r0 → Env.evalLoop e w ts r0 = some r →
      Good w r ∧ mem w (resN w (acc + Expr.evalTerms (fun v => (σ v : Int)) ts)) r := by
  intro ts
  induction ts with
  | nil =>
    intro r0 r acc _ hg hm h
    simp only [Env.evalLoop, Option.some.injEq] at h
    subst h
    simpa [Expr.evalTerms] using ⟨hg, hm⟩
  | cons p rest ih =>
    intro r0 r acc hts hg hm h
    obtain ⟨v, c⟩ := p
    simp only [Env.evalLoop] at h
    cases hc : WInt.ofZ c w with
    | none => rw [hc] at h; cases h
    | some ci =>
      rw [hc] at h
      simp only at h
      cases hp : WInt.mul ci (e.get v) with
      | none => rw [hp] at h; cases h
      | some pr =>
        rw [hp] at h
        simp only at h
        obtain ⟨hv, hmv, hgv⟩ := hts (v, c) (List.mem_cons_self ..)
        have gci := ofZ_good h1w hw hc
        have mci := ofZ_sound h1w hw hc
        have gpr := mul_good h1w hw gci hgv hp
        have mpr := mul_sound_good h1w hw gci hgv hp (resN_lt _ _) hv mci hmv
        have gr' := add_good hw hg gpr
        have mr' := add_sound_good h1w hw hg gpr (resN_lt _ _) (Nat.mod_lt _ (Nat.pow_pos (by decide))) hm mpr
        rw [resN_step] at mr'
        have := ih (r0.add pr) r (acc + c * (σ v : Int)) (fun q hq => hts q (List.mem_cons_of_mem _ hq)) gr' mr' h
        simpa [Expr.evalTerms, Int.add_assoc] using this

end WDom
end Crab
