import CrabProofs.Lemmas.AbsTransformer

/-!
  From one statement to blocks and to the contract `Crab.Fix.Sem` of the fixpoint engine:
  the sanity flag only removes results, the fold over a block, `prune_dead_variables`,
  `fwd_analyzer::analyze`, and the `Sem` instance of the iterator context `Analysis.mkCtx`.
-/
namespace Crab
namespace Analysis
open Crab.IR Crab.Fix

variable {A : Type}

/-! ### the sanity flag -/

theorem sanityGuard_mono {D : NDom A} {pre post r : A} (h : sanityGuard D true pre post = some r) :
    sanityGuard D false pre post = some r := by
  rw [sanityGuard_off, sanityGuard_some h]

/-- with the flag off `exec` never raises CRAB_ERROR … -/
theorem execStmtE_sanity_off (D : NDom A) (ia : Bool) (s : Stmt) (inv : A) :
    execStmtE D ⟨ia, false⟩ s inv = some (execStmt D ia s inv) := by
  have h : (execStmtE D ⟨ia, false⟩ s inv).isSome = true := by
    cases s <;> simp only [execStmtE, sanityGuard_off, Option.isSome_some]
    case binop op x y z =>
      have := applyBin_isSome D inv op x y z
      cases hr : applyBin D inv op x y z with
      | none => rw [hr] at this; cases this
      | some r => simp only []; split <;> rfl
    case assert c => split <;> rfl
    case bassert b => split <;> rfl
  unfold execStmt
  cases hr : execStmtE D ⟨ia, false⟩ s inv with
  | none => rw [hr] at h; cases h
  | some r => rfl

/-- … and switching it on can only turn a result into a CRAB_ERROR, never change it -/
theorem execStmtE_sanity_mono (D : NDom A) (ia : Bool) (s : Stmt) (inv r : A)
    (h : execStmtE D ⟨ia, true⟩ s inv = some r) : execStmtE D ⟨ia, false⟩ s inv = some r := by
  cases s <;> simp only [execStmtE] at h ⊢ <;> first | exact sanityGuard_mono h | exact h | skip
  case binop op x y z =>
    cases hr : applyBin D inv op x y z with
    | none => rw [hr] at h; cases h
    | some r' =>
      rw [hr] at h
      simp only at h ⊢
      split at h
      · rename_i hd; rw [if_pos hd]; exact h
      · rename_i hd; rw [if_neg hd]; exact sanityGuard_mono h

theorem execStmtsE_sanity_off (D : NDom A) (ia : Bool) (ss : List Stmt) (inv : A) :
    execStmtsE D ⟨ia, false⟩ ss inv = some (execStmts D ia ss inv) := by
  induction ss generalizing inv with
  | nil => rfl
  | cons s ss ih =>
    simp only [execStmtsE, execStmtE_sanity_off, execStmts, List.foldl_cons]
    exact ih _

theorem execStmtsE_sanity_mono (D : NDom A) (ia : Bool) (ss : List Stmt) (inv r : A)
    (h : execStmtsE D ⟨ia, true⟩ ss inv = some r) : execStmtsE D ⟨ia, false⟩ ss inv = some r := by
  induction ss generalizing inv with
  | nil => exact h
  | cons s ss ih =>
    simp only [execStmtsE] at h ⊢
    split at h
    · cases h
    · rename_i r' hr
      rw [execStmtE_sanity_mono D ia s inv r' hr]
      exact ih _ h

/-! ### blocks -/

/-- the result of a statement list is `next` only if the head steps and the tail runs on -/
theorem runStmts_cons_next (b i : Nat) (s : Stmt) (ss : List Stmt) (σ σ' : State) (ch : List Int)
    (h : (runStmts b i (s :: ss) σ ch).res = .next σ') :
    ∃ σ1 c ch1, stepStmt s σ c = .next σ1 ∧ (runStmts b (i + 1) ss σ1 ch1).res = .next σ' := by
  unfold runStmts at h
  simp only at h
  split at h
  · rename_i σ1 hs
    exact ⟨σ1, _, _, hs, h⟩
  · rename_i r hne
    simp only at h
    exact absurd h (fun hh => hne σ' hh)

/-- **the fold over a block**: the state an execution leaves the statement list with is described
    by the result of the transformer loop, and it still has the declared variables -/
theorem execStmtsE_sound (D : NDom A) (L : D.Laws) (cfg : TrCfg) (nI nB b : Nat) :
    ∀ (ss : List Stmt) (i : Nat) (inv inv' : A) (σ σ' : State) (ch : List Int),
      (∀ s ∈ ss, s.defOk nI nB = true) → Shape nI nB σ → D.γ inv σ →
      (runStmts b i ss σ ch).res = .next σ' → execStmtsE D cfg ss inv = some inv' →
      Shape nI nB σ' ∧ D.γ inv' σ' := by
  intro ss
  induction ss with
  | nil =>
    intro i inv inv' σ σ' ch _ hsh hg hr he
    simp only [runStmts] at hr
    cases hr
    cases Option.some.inj he
    exact ⟨hsh, hg⟩
  | cons s ss ih =>
    intro i inv inv' σ σ' ch hd hsh hg hr he
    obtain ⟨σ1, c, ch1, hs, hr1⟩ := runStmts_cons_next b i s ss σ σ' ch hr
    simp only [execStmtsE] at he
    split at he
    · cases he
    · rename_i inv1 he1
      have hg1 := execStmtE_sound D L cfg nI nB s inv inv1 σ σ1 c (hd s List.mem_cons_self) hsh hg hs he1
      exact ih (i + 1) inv1 inv' σ1 σ' ch1 (fun t ht => hd t (List.mem_cons_of_mem _ ht))
        (stepStmt_shape hsh hs) hg1 hr1 he

theorem defsOk_block (p : Program) (h : p.defsOk = true) (n : Nat) :
    ∀ s ∈ (p.block n).stmts, s.defOk p.nI p.nB = true := by
  intro s hs
  unfold Program.defsOk at h
  rw [List.all_eq_true] at h
  unfold Program.block at hs
  by_cases hn : n < p.blocks.size
  · have hm : p.blocks[n] ∈ p.blocks.toList := by simp
    have := h _ hm
    rw [List.all_eq_true] at this
    apply this
    simpa [Array.getD, hn] using hs
  · simp [Array.getD, hn] at hs

/-! ### `prune_dead_variables` and `analyze` -/

/-- forgetting variables only enlarges the concretisation: whatever set the liveness object
    reports, the pruned invariant still describes the state -/
theorem pruneDead_sound (D : NDom A) (L : D.Laws) (live : Option (Nat → List AVar))
    (formals : List AVar) (node : Nat) (inv : A) (σ : State) (hg : D.γ inv σ) :
    D.γ (pruneDead D live formals node inv) σ := by
  unfold pruneDead
  split
  · exact hg
  · split
    · exact hg
    · exact L.forgetAll_sound _ _ _ hg

/-- `analyzeE` is `analyze` when it returns, for both values of the sanity flag -/
theorem analyzeE_eq (D : NDom A) (cfg : FwdCfg) (sanity : Bool) (p : Program) (node : Nat)
    (inv r : A) (h : analyzeE D cfg sanity p node inv = some r) : r = analyze D cfg p node inv := by
  unfold analyzeE at h
  split at h
  · cases h
  · rename_i r' hr
    cases Option.some.inj h
    have hoff : execStmtsE D ⟨cfg.ignoreAssert, false⟩ (p.block node).stmts inv = some r' := by
      cases sanity with
      | false => exact hr
      | true => exact execStmtsE_sanity_mono D _ _ _ _ hr
    rw [execStmtsE_sanity_off] at hoff
    cases Option.some.inj hoff
    rfl

theorem analyzeE_sanity_off (D : NDom A) (cfg : FwdCfg) (p : Program) (node : Nat) (inv : A) :
    analyzeE D cfg false p node inv = some (analyze D cfg p node inv) := by
  simp only [analyzeE, execStmtsE_sanity_off, analyze]

/-- **the block transformer**: `fwd_analyzer::analyze` is sound w.r.t. the executable block
    semantics `BlockStep` -/
theorem analyze_sound (D : NDom A) (L : D.Laws) (cfg : FwdCfg) (p : Program)
    (hp : p.defsOk = true) (node : Nat) (inv : A) (σ σ' : State) (hsh : Shape p.nI p.nB σ)
    (hg : D.γ inv σ) (hst : BlockStep p node σ σ') :
    Shape p.nI p.nB σ' ∧ D.γ (analyze D cfg p node inv) σ' := by
  obtain ⟨ch, hr⟩ := hst
  have h := execStmtsE_sound D L ⟨cfg.ignoreAssert, false⟩ p.nI p.nB node (p.block node).stmts 0 inv _
    σ σ' ch (defsOk_block p hp node) hsh hg hr (execStmtsE_sanity_off D _ _ _)
  exact ⟨h.1, pruneDead_sound D L cfg.live cfg.formals node _ σ' h.2⟩

/-! ### the contract of the engine -/

/-- the `Sem` instance of the analyzer's iterator context: states with the declared variables
    described by the domain value; block relation = the executable block semantics -/
def analyzerSem (D : NDom A) (L : D.Laws) (ops : Fix.Ops A) (LL : LatLaws ops D.γ) (cfg : FwdCfg)
    (p : Program) (hp : p.defsOk = true) (preds : Nat → List Nat)
    (nesting : Nat → Option (List Nat)) (init : A) (assumptions : Option (List (Nat × A)))
    (delay descending : Nat) :
    Sem (mkCtx D ops cfg p preds nesting init assumptions delay descending) State where
  γ := fun a σ => Shape p.nI p.nB σ ∧ D.γ a σ
  step := fun n σ σ' => BlockStep p n σ σ'
  analyze_sound := fun n a s s' hg hst => analyze_sound D L cfg p hp n a s s' hg.1 hg.2 hst
  join_left := fun a b s h => ⟨h.1, LL.join_left a b s h.2⟩
  join_right := fun a b s h => ⟨h.1, LL.join_right a b s h.2⟩
  widen_left := fun a b s h => ⟨h.1, LL.widen_left a b s h.2⟩
  widen_right := fun a b s h => ⟨h.1, LL.widen_right a b s h.2⟩
  meet_sound := fun a b s h1 h2 => ⟨h1.1, LL.meet_sound a b s h1.2 h2.2⟩
  narrow_sound := fun a b s h1 h2 => ⟨h1.1, LL.narrow_sound a b s h1.2 h2.2⟩
  leq_sound := fun a b s h hg => ⟨hg.1, LL.leq_sound a b s h hg.2⟩

/-- every edge of the program is in the predecessor lists `predsOf` -/
theorem predsOf_covers (p : Program) (b n : Nat) (h : n ∈ (p.block b).succs) : b ∈ predsOf p n := by
  unfold predsOf
  rw [List.mem_filter]
  refine ⟨?_, by simpa using h⟩
  rw [List.mem_range]
  apply Classical.byContradiction
  intro hb
  simp [Program.block, Array.getD, hb] at h

end Analysis
end Crab
