import CrabProofs.Lemmas.OctClose

/-!
  Structural properties of the tight closure of integer octagons (stretch part):
  coherence is preserved by every operation, and for a closed coherent matrix whose tightened
  unary sums are non-negative, tightening followed by strengthening is closed again
  (Bagnara–Hill–Zaffanella).
-/
namespace Crab
namespace Octagon
open Dbm

variable {n : Nat}

/-- Miné coherence: every constraint is stored together with its twin -/
def Coherent (m : Oct n) : Prop := ∀ i j, m.get i j = m.get (bar j) (bar i)

/-! ### weights -/

theorem W_LE_antisymm {a b : W} (h1 : W.LE a b) (h2 : W.LE b a) : a = b := by
  cases a <;> cases b <;> simp_all [W.LE]
  omega

theorem W_min_min_comm (x : W) (k : W) : W.min (W.min x k) k = W.min x k := by
  cases x <;> cases k <;> simp [W.min]
  split <;> omega

theorem W_tight2_eq_add_half (a : W) : W.tight2 a = W.add (W.half a) (W.half a) := by
  cases a <;> simp [W.tight2, W.half, W.add]
  omega

theorem W_half_add_tight2 (a b : W) :
    W.half (W.add (W.tight2 a) (W.tight2 b)) = W.add (W.half a) (W.half b) := by
  cases a <;> cases b <;> simp [W.tight2, W.half, W.add]
  omega

theorem W_isNeg_tight2_sum {a b : W} (h : ¬ W.isNeg (W.add (W.tight2 a) (W.tight2 b)) = true) :
    W.LE (some 0) (W.add (W.half a) (W.half b)) := by
  cases a <;> cases b <;> simp_all [W.tight2, W.half, W.add, W.LE, W.isNeg]
  omega

theorem W_LE_add_add_self {a b : W} (h : W.LE (some 0) (W.add a b)) :
    W.LE a (W.add (W.add a a) b) := by
  cases a <;> cases b <;> simp_all [W.add, W.LE]
  omega

theorem W_LE_add_of_nonneg {a b c : W} (h : W.LE (some 0) (W.add b c)) :
    W.LE a (W.add a (W.add b c)) := by
  cases a <;> cases b <;> cases c <;> simp_all [W.add, W.LE]
  omega

theorem W_half_LE_of_LE {a b c : W} (h : W.LE a (W.add b (W.add c b))) :
    W.LE (W.half a) (W.add b (W.half c)) := by
  cases a <;> cases b <;> cases c <;> simp_all [W.add, W.LE, W.half]
  omega

theorem W_min_zero_of_nonneg {x : W} (h : W.LE (some 0) x) : W.min (some 0) x = some 0 := by
  cases x <;> simp_all [W.min, W.LE]

/-! ### (a) coherence is preserved -/

theorem top_coherent : Coherent (top : Oct n) := by
  intro i j; simp [top, Mat.top]

theorem ite_min_comm (P Q : Prop) [Decidable P] [Decidable Q] (x k : W) :
    (if Q then W.min (if P then W.min x k else x) k else (if P then W.min x k else x)) =
    (if P then W.min (if Q then W.min x k else x) k else (if Q then W.min x k else x)) := by
  by_cases p : P <;> by_cases q : Q <;> simp only [if_pos, if_neg, p, q, not_false_eq_true, W_min_min_comm]

theorem assumeCst_coherent (o : Oct n) (c : Cst n) (h : Coherent o) : Coherent (assumeCst o c) := by
  intro i j
  simp only [assumeCst, Mat.addEdge, Mat.get_ofFn]
  rw [h i j]
  have e1 : (bar j = bar c.col ∧ bar i = bar c.row) ↔ (i = c.row ∧ j = c.col) :=
    ⟨fun ⟨a, b⟩ => ⟨bar_inj b, bar_inj a⟩, fun ⟨a, b⟩ => ⟨by rw [b], by rw [a]⟩⟩
  have e2 : (bar j = c.row ∧ bar i = c.col) ↔ (i = bar c.col ∧ j = bar c.row) :=
    ⟨fun ⟨a, b⟩ => ⟨by rw [← b, bar_bar], by rw [← a, bar_bar]⟩,
     fun ⟨a, b⟩ => ⟨by rw [b, bar_bar], by rw [a, bar_bar]⟩⟩
  simp only [e1, e2]
  exact ite_min_comm _ _ _ _

theorem assumeAll_coherent (o : Oct n) (cs : List (Cst n)) (h : Coherent o) :
    Coherent (assumeAll o cs) := by
  unfold assumeAll
  induction cs generalizing o with
  | nil => exact h
  | cons c cs ih => exact ih _ (assumeCst_coherent o c h)

theorem tighten_coherent (m : Oct n) (h : Coherent m) : Coherent (tighten m) := by
  intro i j
  simp only [tighten, Mat.get_ofFn]
  rw [h i j]
  have e : (bar i = bar (bar j)) ↔ (j = bar i) := by
    rw [bar_bar]; exact ⟨fun a => a.symm, fun a => a.symm⟩
  by_cases p : j = bar i
  · rw [if_pos p, if_pos (e.2 p)]
  · rw [if_neg p, if_neg (mt e.1 p)]

theorem strengthen_coherent (m : Oct n) (h : Coherent m) : Coherent (strengthen m) := by
  intro i j
  simp only [strengthen, Mat.get_ofFn, bar_bar]
  rw [h i j, W.add_comm]

theorem pmin_coherent (a b : Oct n) (ha : Coherent a) (hb : Coherent b) :
    Coherent (Mat.pmin a b) := by
  intro i j
  simp only [Mat.pmin, Mat.get_ofFn]
  rw [ha i j, hb i j]

theorem pmax_coherent (a b : Oct n) (ha : Coherent a) (hb : Coherent b) :
    Coherent (Mat.pmax a b) := by
  intro i j
  simp only [Mat.pmax, Mat.get_ofFn]
  rw [ha i j, hb i j]

theorem meet_coherent (a b : Oct n) (ha : Coherent a) (hb : Coherent b) : Coherent (meet a b) :=
  pmin_coherent a b ha hb

theorem dropIdx_coherent (m : Oct n) (p : Fin (2 * n) → Bool) (hp : ∀ i, p (bar i) = p i)
    (h : Coherent m) : Coherent (m.dropIdx p) := by
  intro i j
  simp only [Mat.dropIdx, Mat.get_ofFn, hp]
  rw [h i j, Bool.or_comm]

theorem dropVar_coherent (m : Oct n) (x : Fin n) (h : Coherent m) :
    Coherent (m.dropIdx (fun i => decide (varOf i = x))) :=
  dropIdx_coherent m _ (fun i => by simp only [varOf_bar]) h

/-- a closed matrix below `m` is below the Floyd–Warshall closure of `m` -/
theorem closed_LE_fw {N : Nat} {c m : Mat N} (hc : Mat.Closed c) (h : Mat.LE c m) :
    Mat.LE c (Mat.fw m) := by
  have step : ∀ (ks : List (Fin N)) (m' : Mat N), Mat.LE c m' → Mat.LE c (ks.foldl Mat.fwStep m') := by
    intro ks
    induction ks with
    | nil => intro m' h'; exact h'
    | cons k ks ih =>
      intro m' h'
      rw [List.foldl_cons]
      apply ih
      intro i j
      simp only [Mat.fwStep, Mat.get_ofFn]
      exact W.LE_min (h' i j) (W.LE_trans (hc.tri i j k) (W.add_mono (h' i k) (h' k j)))
  apply step
  intro i j
  simp only [Mat.diag0, Mat.get_ofFn]
  split
  · rename_i hij
    subst hij
    refine W.LE_min (h i i) ?_
    rw [hc.diag i]
    exact W.LE_refl _
  · exact h i j

/-- the shortest-path closure of a coherent matrix is coherent (when consistent) -/
theorem fw_coherent (m : Oct n) (h : Coherent m) (hd : Mat.hasNegDiag (Mat.fw m) = false) :
    Coherent (Mat.fw m) := by
  have hcl := Mat.fw_closed hd
  -- the transposed-barred copy of `fw m` is closed and below `m`
  let c : Oct n := Mat.ofFn fun i j => (Mat.fw m).get (bar j) (bar i)
  have hc : Mat.Closed c := by
    constructor
    · intro i; simp only [c, Mat.get_ofFn]; exact hcl.diag _
    · intro i j k
      simp only [c, Mat.get_ofFn]
      rw [W.add_comm]
      exact hcl.tri _ _ _
  have hle : Mat.LE c m := by
    intro i j
    simp only [c, Mat.get_ofFn]
    rw [h i j]
    exact Mat.fw_LE m _ _
  have key := closed_LE_fw hc hle
  intro i j
  apply W_LE_antisymm
  · have := key (bar j) (bar i)
    simp only [c, Mat.get_ofFn, bar_bar] at this
    exact this
  · have := key i j
    simp only [c, Mat.get_ofFn] at this
    exact this

theorem close_coherent (o : Oct n) (h : Coherent o) (hd : Mat.hasNegDiag (Mat.fw o) = false) :
    Coherent (close o) :=
  strengthen_coherent _ (tighten_coherent _ (fw_coherent o h hd))

/-! ### (b) tightening + strengthening of a closed coherent matrix is closed -/

/-- half of the unary bound of literal `i` -/
def U (m : Oct n) (i : Fin (2 * n)) : W := W.half (m.get i (bar i))

theorem tighten_get_unary (m : Oct n) (i : Fin (2 * n)) :
    (tighten m).get i (bar i) = W.add (U m i) (U m i) := by
  simp only [tighten, Mat.get_ofFn, if_true, U]
  exact W_tight2_eq_add_half _

theorem tighten_get_of_ne (m : Oct n) {i j : Fin (2 * n)} (h : j ≠ bar i) :
    (tighten m).get i j = m.get i j := by
  simp only [tighten, Mat.get_ofFn, if_neg h]

theorem strengthen_tighten_get (m : Oct n) (i j : Fin (2 * n)) :
    (strengthen (tighten m)).get i j =
      W.min ((tighten m).get i j) (W.add (U m i) (U m (bar j))) := by
  simp only [strengthen, Mat.get_ofFn]
  have e1 : (tighten m).get i (bar i) = W.tight2 (m.get i (bar i)) := by
    simp only [tighten, Mat.get_ofFn, if_true]
  have e2 : (tighten m).get (bar j) j = W.tight2 (m.get (bar j) j) := by
    simp only [tighten, Mat.get_ofFn, bar_bar, if_true]
  rw [e1, e2, W_half_add_tight2]
  simp only [U, bar_bar]

theorem unary_nonneg (m : Oct n)
    (hu : ∀ i, ¬ W.isNeg (W.add ((tighten m).get i (bar i)) ((tighten m).get (bar i) i)) = true)
    (i : Fin (2 * n)) : W.LE (some 0) (W.add (U m i) (U m (bar i))) := by
  have := hu i
  have e1 : (tighten m).get i (bar i) = W.tight2 (m.get i (bar i)) := by
    simp only [tighten, Mat.get_ofFn, if_true]
  have e2 : (tighten m).get (bar i) i = W.tight2 (m.get (bar i) i) := by
    simp only [tighten, Mat.get_ofFn, bar_bar, if_true]
  rw [e1, e2] at this
  have := W_isNeg_tight2_sum this
  simpa only [U, bar_bar] using this

/-- `U i ≤ t i k + U k` -/
theorem U_LE_left (m : Oct n) (hc : Mat.Closed m) (hco : Coherent m)
    (hu : ∀ i, ¬ W.isNeg (W.add ((tighten m).get i (bar i)) ((tighten m).get (bar i) i)) = true)
    (i k : Fin (2 * n)) : W.LE (U m i) (W.add ((tighten m).get i k) (U m k)) := by
  by_cases hk : k = bar i
  · subst hk
    rw [tighten_get_unary]
    exact W_LE_add_add_self (unary_nonneg m hu i)
  · rw [tighten_get_of_ne m hk]
    apply W_half_LE_of_LE
    have t1 := hc.tri i (bar i) k
    have t2 := hc.tri k (bar i) (bar k)
    have e : m.get (bar k) (bar i) = m.get i k := (hco i k).symm
    rw [e] at t2
    exact W.LE_trans t1 (W.add_mono (W.LE_refl _) t2)

/-- `U j̄ ≤ U k̄ + t k j` -/
theorem U_LE_right (m : Oct n) (hc : Mat.Closed m) (hco : Coherent m)
    (hu : ∀ i, ¬ W.isNeg (W.add ((tighten m).get i (bar i)) ((tighten m).get (bar i) i)) = true)
    (k j : Fin (2 * n)) : W.LE (U m (bar j)) (W.add (U m (bar k)) ((tighten m).get k j)) := by
  have := U_LE_left m hc hco hu (bar j) (bar k)
  rw [← tighten_coherent m hco k j, W.add_comm] at this
  exact this

theorem strengthen_tighten_closed (m : Oct n) (hc : Mat.Closed m) (hco : Coherent m)
    (hu : ∀ i, ¬ W.isNeg (W.add ((tighten m).get i (bar i)) ((tighten m).get (bar i) i)) = true) :
    Mat.Closed (strengthen (tighten m)) := by
  constructor
  · intro i
    rw [strengthen_tighten_get, tighten_get_of_ne m (bar_ne i).symm, hc.diag i]
    exact W_min_zero_of_nonneg (unary_nonneg m hu i)
  · intro i j k
    have HL := U_LE_left m hc hco hu
    have HR := U_LE_right m hc hco hu
    rw [strengthen_tighten_get m i j]
    rcases W.min_eq_or ((tighten m).get i k) (W.add (U m i) (U m (bar k))) with e1 | e1 <;>
    rcases W.min_eq_or ((tighten m).get k j) (W.add (U m k) (U m (bar j))) with e2 | e2 <;>
    rw [strengthen_tighten_get m i k, strengthen_tighten_get m k j, e1, e2]
    · -- t i k + t k j
      by_cases hk : k = bar i
      · subst hk
        refine W.LE_trans (W.min_LE_right _ _) ?_
        rw [tighten_get_unary, W.add_assoc]
        refine W.add_mono (W.LE_refl _) ?_
        have := HR (bar i) j
        rwa [bar_bar] at this
      · by_cases hj : j = bar k
        · subst hj
          refine W.LE_trans (W.min_LE_right _ _) ?_
          rw [tighten_get_unary, bar_bar, ← W.add_assoc]
          exact W.add_mono (HL i k) (W.LE_refl _)
        · refine W.LE_trans (W.min_LE_left _ _) ?_
          rw [tighten_get_of_ne m hk, tighten_get_of_ne m hj]
          exact W.LE_trans (tighten_LE m i j) (hc.tri i j k)
    · -- t i k + (U k + U j̄)
      refine W.LE_trans (W.min_LE_right _ _) ?_
      rw [← W.add_assoc]
      exact W.add_mono (HL i k) (W.LE_refl _)
    · -- (U i + U k̄) + t k j
      refine W.LE_trans (W.min_LE_right _ _) ?_
      rw [W.add_assoc]
      exact W.add_mono (W.LE_refl _) (HR k j)
    · -- (U i + U k̄) + (U k + U j̄)
      refine W.LE_trans (W.min_LE_right _ _) ?_
      have h0 := unary_nonneg m hu k
      have e : W.add (W.add (U m i) (U m (bar k))) (W.add (U m k) (U m (bar j)))
          = W.add (W.add (U m i) (U m (bar j))) (W.add (U m k) (U m (bar k))) := by
        generalize U m i = a
        generalize U m (bar k) = b
        generalize U m k = c
        generalize U m (bar j) = d
        cases a <;> cases b <;> cases c <;> cases d <;> simp [W.add]
        omega
      rw [e]
      exact W_LE_add_of_nonneg h0

/-- the hypothesis of `strengthen_tighten_closed` follows from a non-negative diagonal of the result -/
theorem unary_of_diagNonneg (m : Oct n) (hc : Mat.Closed m)
    (hd : Mat.DiagNonneg (strengthen (tighten m))) (i : Fin (2 * n)) :
    ¬ W.isNeg (W.add ((tighten m).get i (bar i)) ((tighten m).get (bar i) i)) = true := by
  intro hneg
  have e2 : (tighten m).get (bar i) i = W.add (U m (bar i)) (U m (bar i)) := by
    have := tighten_get_unary m (bar i)
    rwa [bar_bar] at this
  rw [tighten_get_unary, e2] at hneg
  have hs := strengthen_tighten_get m i i
  rw [tighten_get_of_ne m (bar_ne i).symm, hc.diag i] at hs
  have hd' := hd i
  rw [hs] at hd'
  revert hneg hd'
  generalize U m i = a
  generalize U m (bar i) = b
  cases a <;> cases b <;> simp [W.add, W.isNeg, W.min]
  intro h1
  split <;> omega

/-- the tight closure of a consistent coherent octagon is closed (zero diagonal, triangle
    inequality) and coherent -/
theorem close_closed (o : Oct n) (hco : Coherent o) (hb : isBottom o = false) :
    Mat.Closed (close o) ∧ Coherent (close o) := by
  have hd : Mat.DiagNonneg (close o) := (Mat.diagNonneg_iff _).2 hb
  have hdf : Mat.DiagNonneg (Mat.fw o) :=
    Mat.DiagNonneg_of_LE (Mat.LE_trans (strengthen_LE _) (tighten_LE _)) hd
  have hnf : Mat.hasNegDiag (Mat.fw o) = false := (Mat.diagNonneg_iff _).1 hdf
  have hcl := Mat.fw_closed hnf
  have hcf := fw_coherent o hco hnf
  exact ⟨strengthen_tighten_closed _ hcl hcf (unary_of_diagNonneg _ hcl hd),
    close_coherent o hco hnf⟩

/-! ### (c) one variable: completeness over the integers -/

theorem W_min_self (a : W) : W.min a a = a := by
  cases a <;> simp [W.min]

theorem W_half_add_self (a : W) : W.half (W.add a a) = a := by
  cases a <;> simp [W.half, W.add]
  omega

theorem strengthen_tighten_get_unary (m : Oct n) (i : Fin (2 * n)) :
    (strengthen (tighten m)).get i (bar i) = W.add (U m i) (U m i) := by
  rw [strengthen_tighten_get, tighten_get_unary, bar_bar, W_min_self]

theorem lit_cases_one (x : Fin 1) (i : Fin (2 * 1)) : i = pos x ∨ i = neg x := by
  have hx : x.val = 0 := by omega
  have hi := i.isLt
  have : i.val = 0 ∨ i.val = 1 := by omega
  rcases this with h | h
  · left; apply Fin.ext; simp only [pos]; omega
  · right; apply Fin.ext; simp only [neg]; omega

/-- one variable: every value of the interval `bounds o x` is attained by a state of `o` -/
theorem bounds_attained_one (o : Oct 1) (hb : isBottom o = false) (x : Fin 1) (t : Int)
    (ht : Itv.mem t (bounds o x)) : γ o (fun _ => t) := by
  have hd : Mat.DiagNonneg (close o) := (Mat.diagNonneg_iff _).2 hb
  have hle : Mat.LE (close o) (Mat.fw o) := Mat.LE_trans (strengthen_LE _) (tighten_LE _)
  have hdf : Mat.DiagNonneg (Mat.fw o) := Mat.DiagNonneg_of_LE hle hd
  have hcl := Mat.fw_closed ((Mat.diagNonneg_iff _).1 hdf)
  unfold bounds boundsC at ht
  rw [show isBottomC (close o) = isBottom o from rfl, hb] at ht
  simp only [Bool.false_eq_true, if_false, Itv.mem] at ht
  obtain ⟨ht1, ht2⟩ := ht
  unfold γ
  rw [← Mat.fw_sat]
  intro i j k hk
  have hpn : ext (fun _ : Fin 1 => t) (pos x) = t := ext_pos _ _
  have hnn : ext (fun _ : Fin 1 => t) (neg x) = -t := ext_neg _ _
  rcases lit_cases_one x i with rfl | rfl <;> rcases lit_cases_one x j with rfl | rfl
  · rw [hcl.diag] at hk; cases hk; omega
  · obtain ⟨k', hk', hle'⟩ := hle (pos x) (neg x) k hk
    rw [hk'] at ht2
    simp only [W.half, Zones.toUb, Bound.le, decide_eq_true_eq] at ht2
    rw [hpn, hnn]; omega
  · obtain ⟨k', hk', hle'⟩ := hle (neg x) (pos x) k hk
    rw [hk'] at ht1
    simp only [W.half, Zones.toLb, Bound.le, decide_eq_true_eq] at ht1
    rw [hpn, hnn]; omega
  · rw [hcl.diag] at hk; cases hk; omega

/-- one variable: a non-bottom octagon has a non-empty interval -/
theorem bounds_nonempty_one (o : Oct 1) (hb : isBottom o = false) (x : Fin 1) :
    ∃ t, Itv.mem t (bounds o x) := by
  have hd : Mat.DiagNonneg (close o) := (Mat.diagNonneg_iff _).2 hb
  have hle : Mat.LE (close o) (Mat.fw o) := Mat.LE_trans (strengthen_LE _) (tighten_LE _)
  have hdf : Mat.DiagNonneg (Mat.fw o) := Mat.DiagNonneg_of_LE hle hd
  have hcl := Mat.fw_closed ((Mat.diagNonneg_iff _).1 hdf)
  have hu := unary_nonneg _ (unary_of_diagNonneg _ hcl hd) (pos x)
  have e1 : (close o).get (pos x) (neg x) = W.add (U (Mat.fw o) (pos x)) (U (Mat.fw o) (pos x)) := by
    have := strengthen_tighten_get_unary (Mat.fw o) (pos x)
    rwa [bar_pos] at this
  have e2 : (close o).get (neg x) (pos x) = W.add (U (Mat.fw o) (neg x)) (U (Mat.fw o) (neg x)) := by
    have := strengthen_tighten_get_unary (Mat.fw o) (neg x)
    rwa [bar_neg] at this
  unfold bounds boundsC
  rw [show isBottomC (close o) = isBottom o from rfl, hb]
  simp only [Bool.false_eq_true, if_false, Itv.mem, e1, e2, W_half_add_self]
  rw [bar_pos] at hu
  revert hu
  generalize U (Mat.fw o) (pos x) = a
  generalize U (Mat.fw o) (neg x) = b
  intro hu
  cases a with
  | none =>
    cases b with
    | none => exact ⟨0, by simp [Zones.toLb, Zones.toUb, Bound.le]⟩
    | some b => exact ⟨-b, by simp [Zones.toLb, Zones.toUb, Bound.le]⟩
  | some a =>
    cases b with
    | none => exact ⟨a, by simp [Zones.toLb, Zones.toUb, Bound.le]⟩
    | some b =>
      have := W.LE_some_some.1 hu
      exact ⟨a, by simp [Zones.toLb, Zones.toUb, Bound.le]; omega⟩

/-- one variable: completeness of the emptiness test over the integers -/
theorem bottom_complete_one (o : Oct 1) (hb : isBottom o = false) : ∃ σ, γ o σ := by
  obtain ⟨t, ht⟩ := bounds_nonempty_one o hb 0
  exact ⟨_, bounds_attained_one o hb 0 t ht⟩

/-- one variable: `bounds` is exact -/
theorem bounds_exact_one (o : Oct 1) (x : Fin 1) (t : Int) :
    Itv.mem t (bounds o x) ↔ ∃ σ, γ o σ ∧ σ x = t := by
  constructor
  · intro ht
    cases hb : isBottom o
    · exact ⟨_, bounds_attained_one o hb x t ht, rfl⟩
    · unfold bounds boundsC at ht
      rw [show isBottomC (close o) = isBottom o from rfl, hb] at ht
      exact absurd ht (Itv.not_mem_bot t)
  · rintro ⟨σ, hσ, rfl⟩
    exact bounds_sound o σ hσ x

end Octagon
end Crab
