import CrabProofs.Lemmas.TIRCrawlerFix

/-!
  Executions: for an answer `F` that solves the data-dependence inequations, two runs of
  `runWith` from the entry of a block, from states that agree on `F l a`, with the same havoc
  values, the second one following the successors chosen by the first one, never contradict each
  other on the outcomes of assertion `a` (`runWith_compat`).  Hence a variable that is not
  listed is not `RelevantData` (`not_relevantData`).
-/
namespace Crab
namespace TIR

/-! ### outcome sequences -/

def compat (s1 s2 : List Bool) : Prop := s1 <+: s2 ∨ s2 <+: s1

theorem conflict_append_left : ∀ (s t : List Bool), conflict s (s ++ t) = false
  | [], t => by cases t <;> rfl
  | x :: xs, t => by simp [conflict, conflict_append_left xs t]

theorem conflict_append_right : ∀ (s t : List Bool), conflict (s ++ t) s = false
  | [], t => by cases t <;> rfl
  | x :: xs, t => by simp [conflict, conflict_append_right xs t]

theorem conflict_of_compat {s1 s2 : List Bool} (h : compat s1 s2) : conflict s1 s2 = false := by
  rcases h with ⟨t, rfl⟩ | ⟨t, rfl⟩
  · exact conflict_append_left _ _
  · exact conflict_append_right _ _

theorem compat_refl (s : List Bool) : compat s s := Or.inl (List.prefix_refl s)

theorem compat_append_left (p : List Bool) {s1 s2 : List Bool} (h : compat s1 s2) : compat (p ++ s1) (p ++ s2) := by
  rcases h with h | h
  · exact Or.inl ((List.prefix_append_right_inj p).mpr h)
  · exact Or.inr ((List.prefix_append_right_inj p).mpr h)

theorem aSeq_append (a : AId) (t r : List TEv) : aSeq a (t ++ r) = aSeq a t ++ aSeq a r := by
  simp [aSeq, List.filterMap_append]

/-! ### one statement -/

/-- the statement at index `i` of block `l` is the assertion `a` -/
def tracked (a : AId) (l : Label) (i : Nat) : Stmt → Bool
  | .assert _ => l == a.1 && i == a.2
  | _ => false

theorem aSeq_tagEv_untracked (a : AId) (l : Label) (i : Nat) (s : Stmt) (σ : State) (v : Int)
    (h : tracked a l i s = false) :
    (∀ σ' ev, stepStmt s σ v = .cont σ' ev → aSeq a (tagEv l i ev) = []) ∧
    (∀ ev o, stepStmt s σ v = .stop ev o → aSeq a (tagEv l i ev) = []) := by
  cases s with
  | assert c =>
    simp only [tracked] at h
    constructor
    · intro σ' ev hs
      simp only [stepStmt] at hs
      split at hs
      · simp only [StepRes.cont.injEq] at hs
        rw [← hs.2]
        simp only [tagEv, aSeq, List.filterMap_cons, List.filterMap_nil, Bool.true_and, h]
        simp
      · cases hs
    · intro ev o hs
      simp only [stepStmt] at hs
      split at hs
      · cases hs
      · simp only [StepRes.stop.injEq] at hs
        rw [← hs.1]
        simp only [tagEv, aSeq, List.filterMap_cons, List.filterMap_nil, Bool.true_and, h]
        simp
  | assume c =>
    constructor
    · intro σ' ev hs
      simp only [stepStmt] at hs
      split at hs
      · simp only [StepRes.cont.injEq] at hs
        rw [← hs.2]
        simp [tagEv, aSeq]
      · cases hs
    · intro ev o hs
      simp only [stepStmt] at hs
      split at hs
      · cases hs
      · simp only [StepRes.stop.injEq] at hs
        rw [← hs.1]
        simp [tagEv, aSeq]
  | assign x e =>
    constructor
    · intro σ' ev hs; simp only [stepStmt, StepRes.cont.injEq] at hs; rw [← hs.2]; rfl
    · intro ev o hs; simp [stepStmt] at hs
  | havoc x =>
    constructor
    · intro σ' ev hs; simp only [stepStmt, StepRes.cont.injEq] at hs; rw [← hs.2]; rfl
    · intro ev o hs; simp [stepStmt] at hs
  | select x c e1 e2 =>
    constructor
    · intro σ' ev hs; simp only [stepStmt, StepRes.cont.injEq] at hs; rw [← hs.2]; rfl
    · intro ev o hs; simp [stepStmt] at hs
  | unreachable =>
    constructor
    · intro σ' ev hs; simp [stepStmt] at hs
    · intro ev o hs; simp only [stepStmt, StepRes.stop.injEq] at hs; rw [← hs.1]; rfl
  | bin op x p q =>
    constructor
    · intro σ' ev hs
      simp only [stepStmt] at hs
      split at hs
      · simp only [StepRes.cont.injEq] at hs; rw [← hs.2]; rfl
      · cases hs
    · intro ev o hs
      simp only [stepStmt] at hs
      split at hs
      · cases hs
      · simp only [StepRes.stop.injEq] at hs; rw [← hs.1]; rfl

/-- the tracked assertion behaves the same in two states that agree on its variables -/
theorem step_tracked (c : Cst) (σ σ' : State) (v : Int) (h : agreeOn c.vars σ σ') :
    (stepStmt (.assert c) σ v = .cont σ (some ⟨true, c, true⟩) ∧ stepStmt (.assert c) σ' v = .cont σ' (some ⟨true, c, true⟩)) ∨
    (stepStmt (.assert c) σ v = .stop (some ⟨true, c, false⟩) .failed ∧
      stepStmt (.assert c) σ' v = .stop (some ⟨true, c, false⟩) .failed) := by
  have hc : c.holds σ = c.holds σ' := Cst.holds_congr c σ σ' h
  simp only [stepStmt, ← hc]
  cases c.holds σ <;> simp

/-! ### one block -/

/-- what the two states have to agree on in front of statement `i` of block `l`
    (`ss` = the statements from `i` on) -/
def BlockInv (P : Prog) (F : Label → Facts) (a : AId) (l : Label) (i : Nat) (ss : List Stmt) (σ σ' : State) : Prop :=
  (∀ j c, ss[j]? = some (.assert c) → l = a.1 → i + j = a.2 → agreeOn (bwdData (ss.take j) c.vars) σ σ') ∧
  (∀ l', l' ∈ P.succsOf l → agreeOn (bwdData ss ((F l').get a)) σ σ')

theorem BlockInv_step {P : Prog} {F : Label → Facts} {a : AId} {l : Label} {i : Nat} {s : Stmt} {r : List Stmt}
    {σ σ' σ1 σ1' : State} {v : Int} {e e' : Option Event}
    (h : BlockInv P F a l i (s :: r) σ σ') (h1 : stepStmt s σ v = .cont σ1 e) (h2 : stepStmt s σ' v = .cont σ1' e') :
    BlockInv P F a l (i + 1) r σ1 σ1' := by
  have e1 := effect_of_step h1
  have e2 := effect_of_step h2
  refine ⟨?_, ?_⟩
  · intro j c hj hl hij
    have := h.1 (j + 1) c (by simpa using hj) hl (by omega)
    simp only [List.take_succ_cons, bwdData] at this
    exact dataStep_sound s _ σ σ' σ1 σ1' v this e1 e2
  · intro l' hl'
    have := h.2 l' hl'
    simp only [bwdData] at this
    exact dataStep_sound s _ σ σ' σ1 σ1' v this e1 e2

theorem BlockInv_entry {P : Prog} {F : Label → Facts} (hsol : isDataSol P F = true) {a : AId} {c0 : Cst}
    (hm : (a, c0) ∈ P.asserts) (l : Label) (σ σ' : State) (hag : agreeOn ((F l).get a) σ σ') :
    BlockInv P F a l 0 (P.stmtsOf l) σ σ' := by
  refine ⟨?_, ?_⟩
  · intro j c hj hl hij
    have hmem : ((l, j), c) ∈ P.asserts := mem_asserts hj
    have ha : a = (l, j) := by
      cases a with
      | mk a1 a2 => simp only at hl hij; subst hl; simp only [Nat.zero_add] at hij; subst hij; rfl
    intro y hy
    apply hag
    rw [ha]
    exact isDataSol_gen hsol hmem y hy
  · intro l' hl' y hy
    exact hag y (isDataSol_flow hsol hm hl' y hy)

/-- how the results of a block in the two runs are related -/
def BRel (P : Prog) (F : Label → Facts) (a : AId) (l : Label) (s1 s2 : List Bool) : BRes → BRes → Prop
  | .fall σ1 n1, .fall σ2 n2 => s1 = s2 ∧ n1 = n2 ∧ ∀ l', l' ∈ P.succsOf l → agreeOn ((F l').get a) σ1 σ2
  | .stop _, .fall _ _ => s1 <+: s2
  | .fall _ _, .stop _ => s2 <+: s1
  | .stop _, .stop _ => compat s1 s2

theorem BRel_prepend {P : Prog} {F : Label → Facts} {a : AId} {l : Label} (p : List Bool) {s1 s2 : List Bool}
    {b1 b2 : BRes} (h : BRel P F a l s1 s2 b1 b2) : BRel P F a l (p ++ s1) (p ++ s2) b1 b2 := by
  cases b1 <;> cases b2 <;> simp only [BRel] at h ⊢
  · exact ⟨by rw [h.1], h.2⟩
  · exact (List.prefix_append_right_inj p).mpr h
  · exact (List.prefix_append_right_inj p).mpr h
  · exact compat_append_left p h

theorem runStmts_cons_cont {hv : Nat → Var → Int} {l : Label} {i : Nat} {s : Stmt} {r : List Stmt} {σ σ1 : State}
    {nh : Nat} {ev : Option Event} (h : stepStmt s σ (hvVal hv nh s) = .cont σ1 ev) :
    runStmts hv l i (s :: r) σ nh =
      (tagEv l i ev ++ (runStmts hv l (i + 1) r σ1 (hvNext nh s)).1, (runStmts hv l (i + 1) r σ1 (hvNext nh s)).2) := by
  simp only [runStmts, h]

theorem runStmts_cons_stop {hv : Nat → Var → Int} {l : Label} {i : Nat} {s : Stmt} {r : List Stmt} {σ : State}
    {nh : Nat} {ev : Option Event} {o : Outcome} (h : stepStmt s σ (hvVal hv nh s) = .stop ev o) :
    runStmts hv l i (s :: r) σ nh = (tagEv l i ev, .stop o) := by
  simp only [runStmts, h]

theorem nil_prefix (s : List Bool) : [] <+: s := ⟨s, rfl⟩

/-- one block in lockstep -/
theorem runStmts_rel (P : Prog) (F : Label → Facts) (a : AId) (hv : Nat → Var → Int) (l : Label) :
    ∀ (ss : List Stmt) (i : Nat) (σ σ' : State) (nh : Nat), BlockInv P F a l i ss σ σ' →
      BRel P F a l (aSeq a (runStmts hv l i ss σ nh).1) (aSeq a (runStmts hv l i ss σ' nh).1)
        (runStmts hv l i ss σ nh).2 (runStmts hv l i ss σ' nh).2 := by
  intro ss
  induction ss with
  | nil =>
    intro i σ σ' nh h
    show BRel P F a l (aSeq a []) (aSeq a []) (.fall σ nh) (.fall σ' nh)
    refine ⟨rfl, rfl, ?_⟩
    intro l' hl'
    simpa [bwdData] using h.2 l' hl'
  | cons s r ih =>
    intro i σ σ' nh h
    by_cases htr : tracked a l i s = true
    · -- the assertion itself
      cases s with
      | assert c =>
        simp only [tracked, Bool.and_eq_true, beq_iff_eq] at htr
        have hag : agreeOn c.vars σ σ' := by
          have := h.1 0 c (by simp) htr.1 (by simpa using htr.2)
          simpa [bwdData] using this
        have hvv : hvVal hv nh (Stmt.assert c) = 0 := rfl
        rcases step_tracked c σ σ' 0 hag with ⟨h1, h2⟩ | ⟨h1, h2⟩
        · rw [runStmts_cons_cont (by rw [hvv]; exact h1), runStmts_cons_cont (by rw [hvv]; exact h2)]
          simp only [aSeq_append]
          apply BRel_prepend
          exact ih (i + 1) σ σ' _ (BlockInv_step h h1 h2)
        · rw [runStmts_cons_stop (by rw [hvv]; exact h1), runStmts_cons_stop (by rw [hvv]; exact h2)]
          simp only [BRel]
          exact compat_refl _
      | assign _ _ => simp [tracked] at htr
      | bin _ _ _ _ => simp [tracked] at htr
      | havoc _ => simp [tracked] at htr
      | assume _ => simp [tracked] at htr
      | select _ _ _ _ => simp [tracked] at htr
      | unreachable => simp [tracked] at htr
    · have htr' : tracked a l i s = false := by
        cases hh : tracked a l i s with
        | true => exact absurd hh htr
        | false => rfl
      have hu1 := aSeq_tagEv_untracked a l i s σ (hvVal hv nh s) htr'
      have hu2 := aSeq_tagEv_untracked a l i s σ' (hvVal hv nh s) htr'
      cases hs1 : stepStmt s σ (hvVal hv nh s) with
      | cont σ1 e1 =>
        cases hs2 : stepStmt s σ' (hvVal hv nh s) with
        | cont σ1' e2 =>
          rw [runStmts_cons_cont hs1, runStmts_cons_cont hs2]
          simp only [aSeq_append, hu1.1 σ1 e1 hs1, hu2.1 σ1' e2 hs2, List.nil_append]
          exact ih (i + 1) σ1 σ1' _ (BlockInv_step h hs1 hs2)
        | stop e2 o2 =>
          rw [runStmts_cons_cont hs1, runStmts_cons_stop hs2]
          simp only [aSeq_append, hu1.1 σ1 e1 hs1, hu2.2 e2 o2 hs2, List.nil_append]
          cases (runStmts hv l (i + 1) r σ1 (hvNext nh s)).2 with
          | fall _ _ => simp only [BRel]; exact nil_prefix _
          | stop _ => simp only [BRel]; exact Or.inr (nil_prefix _)
      | stop e1 o1 =>
        cases hs2 : stepStmt s σ' (hvVal hv nh s) with
        | cont σ1' e2 =>
          rw [runStmts_cons_stop hs1, runStmts_cons_cont hs2]
          simp only [aSeq_append, hu1.2 e1 o1 hs1, hu2.1 σ1' e2 hs2, List.nil_append]
          cases (runStmts hv l (i + 1) r σ1' (hvNext nh s)).2 with
          | fall _ _ => simp only [BRel]; exact nil_prefix _
          | stop _ => simp only [BRel]; exact Or.inl (nil_prefix _)
        | stop e2 o2 =>
          rw [runStmts_cons_stop hs1, runStmts_cons_stop hs2]
          simp only [hu1.2 e1 o1 hs1, hu2.2 e2 o2 hs2, BRel]
          exact compat_refl _

/-! ### whole runs -/

theorem runWith_stop {P : Prog} {hv : Nat → Var → Int} {ch : Chooser} {f step : Nat} {cnt : Counts} {l : Label}
    {i : Nat} {ss : List Stmt} {σ : State} {nh : Nat} {t : List TEv} {o : Outcome}
    (h : runStmts hv l i ss σ nh = (t, .stop o)) :
    runWith P hv ch (f + 1) step cnt l i ss σ nh = ⟨t, [], [], endOfStop t o⟩ := by
  simp only [runWith, h]

theorem runWith_halt {P : Prog} {hv : Nat → Var → Int} {ch : Chooser} {f step : Nat} {cnt : Counts} {l : Label}
    {i : Nat} {ss : List Stmt} {σ σ1 : State} {nh n1 : Nat} {t : List TEv} {e : End}
    (h : runStmts hv l i ss σ nh = (t, .fall σ1 n1)) (hn : nextOf P ch step cnt l σ1 = .halt e) :
    runWith P hv ch (f + 1) step cnt l i ss σ nh = ⟨t, [], [], e⟩ := by
  simp only [runWith, h, hn]

theorem runWith_goto {P : Prog} {hv : Nat → Var → Int} {ch : Chooser} {f step : Nat} {cnt : Counts} {l : Label}
    {i : Nat} {ss : List Stmt} {σ σ1 : State} {nh n1 : Nat} {t : List TEv} {l' : Label}
    (h : runStmts hv l i ss σ nh = (t, .fall σ1 n1)) (hn : nextOf P ch step cnt l σ1 = .goto l') :
    runWith P hv ch (f + 1) step cnt l i ss σ nh =
      ⟨t ++ (runWith P hv ch f (step + 1) (cnt.bump l) l' 0 (P.stmtsOf l') σ1 n1).evs,
       l' :: (runWith P hv ch f (step + 1) (cnt.bump l) l' 0 (P.stmtsOf l') σ1 n1).path,
       ⟨l', σ1, n1, step + 1, cnt.bump l⟩ :: (runWith P hv ch f (step + 1) (cnt.bump l) l' 0 (P.stmtsOf l') σ1 n1).visits,
       (runWith P hv ch f (step + 1) (cnt.bump l) l' 0 (P.stmtsOf l') σ1 n1).fin⟩ := by
  simp only [runWith, h, hn]

/-- a run starts with the events of its first block -/
theorem runWith_evs (P : Prog) (hv : Nat → Var → Int) (ch : Chooser) (f step : Nat) (cnt : Counts) (l : Label)
    (i : Nat) (ss : List Stmt) (σ : State) (nh : Nat) :
    ∃ extra, (runWith P hv ch (f + 1) step cnt l i ss σ nh).evs = (runStmts hv l i ss σ nh).1 ++ extra := by
  cases hr : runStmts hv l i ss σ nh with
  | mk t b =>
    cases b with
    | stop o => rw [runWith_stop hr]; exact ⟨[], by simp⟩
    | fall σ1 n1 =>
      cases hn : nextOf P ch step cnt l σ1 with
      | halt e => rw [runWith_halt hr hn]; exact ⟨[], by simp⟩
      | goto l' => rw [runWith_goto hr hn]; exact ⟨_, rfl⟩

theorem compat_of_prefix_left {s1 s2 : List Bool} (h : s1 <+: s2) (x : List Bool) : compat s1 (s2 ++ x) :=
  Or.inl (List.IsPrefix.trans h (List.prefix_append s2 x))

theorem compat_of_prefix_right {s1 s2 : List Bool} (h : s2 <+: s1) (x : List Bool) : compat (s1 ++ x) s2 :=
  Or.inr (List.IsPrefix.trans h (List.prefix_append s1 x))

/-- if the first run goes on to `l'` and the second chooser answers `l'` too, the second run
    either stops (astronomic values) or goes on to `l'` -/
theorem nextOf_follow {P : Prog} {ch1 ch2 : Chooser} {step : Nat} {cnt : Counts} {l l' : Label} {σ1 σ2 : State}
    (h1 : nextOf P ch1 step cnt l σ1 = .goto l')
    (h2 : ∀ n l'' σ'' sc, ch2 step n l'' σ'' sc = l') :
    nextOf P ch2 step cnt l σ2 = .goto l' ∨ ∃ e, nextOf P ch2 step cnt l σ2 = .halt e := by
  unfold nextOf at h1 ⊢
  by_cases hex : P.isExit l = true
  · simp [hex] at h1
  · simp only [hex, Bool.false_eq_true, if_false] at h1 ⊢
    by_cases hh2 : hugeState P.nvars σ2 = true
    · right; exact ⟨End.fuel, by simp [hh2]⟩
    · simp only [hh2, Bool.false_eq_true, if_false]
      by_cases hh1 : hugeState P.nvars σ1 = true
      · simp [hh1] at h1
      · simp only [hh1, Bool.false_eq_true, if_false] at h1
        cases hsc : P.succsOf l with
        | nil => rw [hsc] at h1; simp at h1
        | cons x xs =>
          rw [hsc] at h1
          simp only at h1 ⊢
          split at h1
          · rename_i hc
            simp only [Next.goto.injEq] at h1
            rw [h1] at hc
            left
            rw [h2, if_pos hc]
          · cases h1

/-- two runs in lockstep: the second one takes the successors the first one took -/
theorem runWith_compat (P : Prog) (F : Label → Facts) (hsol : isDataSol P F = true) (a : AId) (c0 : Cst)
    (hm : (a, c0) ∈ P.asserts) (hv : Nat → Var → Int) (ch1 ch2 : Chooser) :
    ∀ (f step : Nat) (cnt : Counts) (l : Label) (i : Nat) (ss : List Stmt) (σ σ' : State) (nh : Nat),
      BlockInv P F a l i ss σ σ' →
      (∀ k x, (runWith P hv ch1 f step cnt l i ss σ nh).path[k]? = some x →
          ∀ n l'' σ'' sc, ch2 (step + k) n l'' σ'' sc = x) →
      compat (aSeq a (runWith P hv ch1 f step cnt l i ss σ nh).evs)
             (aSeq a (runWith P hv ch2 f step cnt l i ss σ' nh).evs) := by
  intro f
  induction f with
  | zero => intro step cnt l i ss σ σ' nh _ _; simp only [runWith]; exact compat_refl _
  | succ f ih =>
    intro step cnt l i ss σ σ' nh hinv hch
    have hrel := runStmts_rel P F a hv l ss i σ σ' nh hinv
    obtain ⟨x1, hx1⟩ := runWith_evs P hv ch1 f step cnt l i ss σ nh
    obtain ⟨x2, hx2⟩ := runWith_evs P hv ch2 f step cnt l i ss σ' nh
    cases hr1 : runStmts hv l i ss σ nh with
    | mk t1 b1 =>
      cases hr2 : runStmts hv l i ss σ' nh with
      | mk t2 b2 =>
        rw [hr1, hr2] at hrel
        rw [hr1] at hx1
        rw [hr2] at hx2
        simp only at hrel hx1 hx2
        cases b1 with
        | stop o1 =>
          rw [runWith_stop hr1, hx2, aSeq_append]
          cases b2 with
          | stop o2 =>
            rw [runWith_stop hr2] at hx2
            simp only at hx2
            have : x2 = [] := by simpa using hx2.symm
            subst this
            simpa [BRel, aSeq] using hrel
          | fall σ2 n2 =>
            simp only [BRel] at hrel
            exact compat_of_prefix_left hrel _
        | fall σ1 n1 =>
          cases b2 with
          | stop o2 =>
            rw [runWith_stop hr2, hx1, aSeq_append]
            simp only [BRel] at hrel
            exact compat_of_prefix_right hrel _
          | fall σ2 n2 =>
            simp only [BRel] at hrel
            obtain ⟨hseq, hn, hend⟩ := hrel
            subst hn
            cases hn1 : nextOf P ch1 step cnt l σ1 with
            | halt e =>
              rw [runWith_halt hr1 hn1, hx2, aSeq_append, hseq]
              exact Or.inl (List.prefix_append _ _)
            | goto l' =>
              have hpath := runWith_goto (f := f) hr1 hn1
              have hc0 : ∀ n l'' σ'' sc, ch2 step n l'' σ'' sc = l' := by
                have := hch 0 l' (by rw [hpath]; simp)
                simpa using this
              rcases nextOf_follow (σ2 := σ2) hn1 hc0 with hn2 | ⟨e, hn2⟩
              · rw [hpath, runWith_goto hr2 hn2]
                simp only [aSeq_append, hseq]
                apply compat_append_left
                apply ih
                · exact BlockInv_entry hsol hm l' σ1 σ2 (hend l' (by
                    -- l' is a successor of l
                    unfold nextOf at hn1
                    by_cases hex : P.isExit l = true
                    · simp [hex] at hn1
                    · simp only [hex, Bool.false_eq_true, if_false] at hn1
                      by_cases hh1 : hugeState P.nvars σ1 = true
                      · simp [hh1] at hn1
                      · simp only [hh1, Bool.false_eq_true, if_false] at hn1
                        cases hsc : P.succsOf l with
                        | nil => rw [hsc] at hn1; simp at hn1
                        | cons x xs =>
                          rw [hsc] at hn1
                          simp only at hn1
                          split at hn1
                          · rename_i hc
                            simp only [Next.goto.injEq] at hn1
                            rw [hn1] at hc
                            exact List.contains_iff_mem.mp hc
                          · cases hn1))
                · intro k x hk n l'' σ'' sc
                  have := hch (k + 1) x (by rw [hpath]; simpa using hk) n l'' σ'' sc
                  have he : step + (k + 1) = step + 1 + k := by omega
                  rw [he] at this
                  exact this
              · rw [runWith_halt hr2 hn2, hx1, aSeq_append, hseq]
                exact Or.inr (List.prefix_append _ _)

/-- the chooser that follows `path` answers the `k`-th label at step `step0 + k` -/
theorem pathChooser_spec (step0 : Nat) (path : List Label) (k : Nat) (x : Label) (h : path[k]? = some x) :
    ∀ n l'' σ'' sc, pathChooser step0 path (step0 + k) n l'' σ'' sc = x := by
  intro n l'' σ'' sc
  simp [pathChooser, h]

/-- for every solution of the data-dependence inequations: a variable that is not listed for
    an assertion at the entry of a block is not relevant there through data dependences -/
theorem not_relevantData (P : Prog) (F : Label → Facts) (hsol : isDataSol P F = true) (a : AId) (c0 : Cst)
    (hm : (a, c0) ∈ P.asserts) (l : Label) (x : Var) (hx : x ∉ (F l).get a) : ¬ RelevantData P a l 0 x := by
  rintro ⟨σ, v, hv, prio, fuel, h⟩
  simp only [runFrom, List.drop_zero] at h
  have hag : agreeOn ((F l).get a) σ (σ.set x v) := by
    intro y hy
    have : y ≠ x := by intro hc; subst hc; exact hx hy
    simp [State.set, this]
  have hcompat := runWith_compat P F hsol a c0 hm hv (schedChooser P prio)
    (pathChooser 0 (runWith P hv (schedChooser P prio) fuel 0 [] l 0 (P.stmtsOf l) σ 0).path)
    fuel 0 [] l 0 (P.stmtsOf l) σ (σ.set x v) 0 (BlockInv_entry hsol hm l σ (σ.set x v) hag)
    (by
      intro k y hk
      have := pathChooser_spec 0 _ k y hk
      simpa using this)
  have hconf := conflict_of_compat hcompat
  unfold differData at h
  split at h
  · cases h
  · cases h
  · rw [hconf] at h; cases h

end TIR
end Crab
