import CrabProofs.Lemmas.BwdInst
import CrabProofs.Lemmas.RelDomEngine

/-!
  The canonical zone and octagon models (`ZonesOps.lean`, `OctagonOps.lean`; engine records
  `Zones.splitEng n`, `Octagon.eng n`) as domains of the backward analysis.

  A value tracks the variables `0 .. n-1` of a `bwd` program (`res`: the tracked part of a
  state); the other variables are unconstrained.  `RelLang` says how a constraint / an assignment
  of a `bwd` program is executed in the statement language of the model (`zoneCsts`,
  `zoneAssign`, ... of `CrabModel/Bwd/BwdInst.lean`); `RB.fwd` is the resulting forward API
  (`apply(op, x, y, z)` is `assign(x, y op z)` for `+` / `-`, a havoc of `x` otherwise;
  `select` is a havoc of `x`), `RB.dom = withGenBwd fwd rename bound`.

  THIS IS THE GENERIC RECIPE ON THE CANONICAL MODEL, NOT THE CODE OF split_dbm / split_oct:
  `split_dbm_domain::backward_assign / backward_apply` are indeed `BackwardAssignOps<DBM_t>`, but
  over split_dbm's own forward operations (sparse graph, variables added on demand), which are
  not modelled; here the forward operations are those of the canonical dense model, the fresh
  variable of `BackwardAssignOps` is an UNTRACKED index (`bound = n`: a constraint on it is
  ignored, so `x := e` with `x` in `e` loses the relation the real code keeps through `rename`;
  `x := x ± k` written as `bin_op` keeps it: it is inverted by `x := x ∓ k`), and
  `rename y x` = forget both.
-/
namespace Crab
namespace Bwd

/-- the tracked part of a state -/
def res (n : Nat) (σ : State) : Fin n → Int := fun i => σ i.val

theorem res_upd_tracked (n : Nat) (σ : State) (x : Fin n) (v : Int) :
    res n (upd σ x.val v) = fun y => if y = x then v else res n σ y := by
  funext y
  by_cases h : y = x
  · subst h; simp [res, upd]
  · have : y.val ≠ x.val := fun e => h (Fin.ext e)
    simp [res, upd, h, this]

theorem res_upd_untracked (n : Nat) (σ : State) (x : Var) (v : Int) (h : ¬ x < n) :
    res n (upd σ x v) = res n σ := by
  funext y
  have : y.val ≠ x := fun e => h (e ▸ y.isLt)
  simp [res, upd, this]

/-- how the statements of a `bwd` program are executed by a relational model over `n` variables -/
structure RelLang (n : Nat) (E : RelDom.EngDom (Fin n → Int)) where
  isBottom : E.A → Bool
  isBottom_sound : ∀ a s, isBottom a = true → ¬ E.γ a s
  top_sound : ∀ s, E.γ E.ops.top s
  assume : Cst → E.Stmt
  assume_rel : ∀ c (σ : State), c.holds σ → E.rel (assume c) (res n σ) (res n σ)
  havoc : Fin n → E.Stmt
  havoc_rel : ∀ x s s', (∀ y, y ≠ x → s' y = s y) → E.rel (havoc x) s s'
  assign : Fin n → Lin → E.Stmt
  assign_rel : ∀ x e (σ : State), E.rel (assign x e) (res n σ) (res n (upd σ x.val (e.eval σ)))

namespace RB
variable {n : Nat} {E : RelDom.EngDom (Fin n → Int)} (T : RelLang n E)

def γ (_ : RelLang n E) (a : E.A) (σ : State) : Prop := E.γ a (res n σ)

def forget (x : Var) (a : E.A) : E.A := if h : x < n then E.exec (T.havoc ⟨x, h⟩) a else a
def assign (x : Var) (e : Lin) (a : E.A) : E.A :=
  if h : x < n then E.exec (T.assign ⟨x, h⟩ e) a else a
def apply (op : BinOp) (x y : Var) (z : Operand) (a : E.A) : E.A :=
  match binLin op y z with
  | some e => assign T x e a
  | none => forget T x a
/-- `rename({y}, {x})`, coarsely: both variables are forgotten (`y` is an untracked index in
    every call `BackwardAssignOps` makes) -/
def rename (y x : Var) (a : E.A) : E.A := forget T y (forget T x a)

def fwd : BDom E.A where
  top := E.ops.top
  bot := E.ops.bot
  isBottom := T.isBottom
  leq := E.ops.leq
  join := E.ops.join
  meet := E.ops.meet
  widen := E.ops.widen
  narrow := E.ops.narrow
  assume := fun c a => E.exec (T.assume c) a
  forget := forget T
  assign := assign T
  apply := apply T
  select := fun x _ _ _ a => forget T x a
  bwdAssign := fun _ _ _ inv => inv
  bwdApply := fun _ _ _ _ _ inv => inv

/-- the model with `BackwardAssignOps` over its forward operations -/
def dom : BDom E.A := withGenBwd (fwd T) (rename T) (fun _ => n)

theorem forget_sound (x : Var) (a : E.A) (σ : State) (v : Int) (hg : γ T a σ) :
    γ T (forget T x a) (upd σ x v) := by
  unfold forget γ
  by_cases h : x < n
  · rw [dif_pos h]
    refine E.exec_sound _ a _ _ hg (T.havoc_rel _ _ _ ?_)
    intro y hy
    have := res_upd_tracked n σ ⟨x, h⟩ v
    simp only [] at this
    rw [this]; simp [hy]
  · rw [dif_neg h, res_upd_untracked n σ x v h]; exact hg

theorem assign_sound (x : Var) (e : Lin) (a : E.A) (σ : State) (hg : γ T a σ) :
    γ T (assign T x e a) (upd σ x (e.eval σ)) := by
  unfold assign γ
  by_cases h : x < n
  · rw [dif_pos h]
    exact E.exec_sound _ a _ _ hg (T.assign_rel ⟨x, h⟩ e σ)
  · rw [dif_neg h, res_upd_untracked n σ x _ h]; exact hg

theorem fwd_sound : BDomSound (fwd T) (γ T) where
  top_sound := fun σ => T.top_sound _
  isBottom_sound := fun a σ h => T.isBottom_sound a _ h
  join_left := fun a b σ h => E.join_left a b _ h
  join_right := fun a b σ h => E.join_right a b _ h
  widen_left := fun a b σ h => E.widen_left a b _ h
  widen_right := fun a b σ h => E.widen_right a b _ h
  meet_sound := fun a b σ h1 h2 => E.meet_sound a b _ h1 h2
  narrow_sound := fun a b σ h1 h2 => E.narrow_sound a b _ h1 h2
  leq_sound := fun a b σ h hg => E.leq_sound a b _ h hg
  assume_sound := fun c a σ hg hc => E.exec_sound _ a _ _ hg (T.assume_rel c σ hc)
  forget_sound := fun x a σ v hg => forget_sound T x a σ v hg
  assign_sound := fun x e a σ hg => assign_sound T x e a σ hg
  apply_sound := by
    intro op x y z a σ v hg hv
    show γ T (apply T op x y z a) _
    unfold apply
    cases hb : binLin op y z with
    | some e =>
      have := binLin_eval hb σ
      rw [hv, Option.some.injEq] at this
      rw [this]
      exact assign_sound T x e a σ hg
    | none => exact forget_sound T x a σ v hg
  select_sound := fun x _ _ _ a σ hg => forget_sound T x a σ _ hg
  bwdAssign_sound := fun _ _ _ _ _ h _ => h
  bwdApply_sound := fun _ _ _ _ _ _ _ _ h _ _ => h

theorem rename_after_forget : RenameAfterForget (fwd T) (γ T) (rename T) := by
  intro y x a τ w _ hg
  have h1 := forget_sound T x a τ (τ y) hg
  have h2 := forget_sound T x _ _ (τ y) h1
  rw [upd_upd] at h2
  exact forget_sound T y _ _ w h2

theorem bound_ok : BoundOk (γ T) (fun _ => n) := by
  intro a f τ v hf hg
  unfold γ
  have hf' : n ≤ f := hf
  rw [res_upd_untracked n τ f v (Nat.not_lt.2 hf')]
  exact hg

theorem dom_sound : BDomSound (dom T) (γ T) :=
  withGenBwd_sound (fwd_sound T) (rename T) (rename_after_forget T) _ (bound_ok T)

end RB

/-! ### zones -/

theorem zoneLe_sat (n : Nat) (c : Int) (ts : List (Int × Var)) (σ : State)
    (h : c + evalTerms ts σ ≤ 0) : ∀ k ∈ zoneLe n c ts, k.sat (res n σ) := by
  intro k hk
  unfold zoneLe at hk
  split at hk
  · rename_i a x
    simp only [evalTerms] at h
    split at hk
    · split at hk
      · rename_i ha; subst ha
        rw [List.mem_singleton.1 hk]; simp only [Zones.Cst.sat, res]; omega
      · split at hk
        · rename_i ha; subst ha
          rw [List.mem_singleton.1 hk]; simp only [Zones.Cst.sat, res]; omega
        · cases hk
    · cases hk
  · rename_i a x b y
    simp only [evalTerms] at h
    split at hk
    · split at hk
      · rename_i hab; obtain ⟨ha, hb⟩ := hab; subst ha; subst hb
        rw [List.mem_singleton.1 hk]; simp only [Zones.Cst.sat, res]; omega
      · split at hk
        · rename_i hab; obtain ⟨ha, hb⟩ := hab; subst ha; subst hb
          rw [List.mem_singleton.1 hk]; simp only [Zones.Cst.sat, res]; omega
        · cases hk
    · cases hk
  · cases hk

theorem zoneCsts_sat (n : Nat) (c : Cst) (σ : State) (h : c.holds σ) :
    ∀ k ∈ zoneCsts n c, k.sat (res n σ) := by
  obtain ⟨kd, e⟩ := c
  cases kd <;> simp only [zoneCsts, Cst.holds, Lin.eval] at h ⊢
  · exact zoneLe_sat n _ _ σ h
  · exact zoneLe_sat n _ _ σ (by omega)
  · intro k hk
    rcases List.mem_append.1 hk with hk | hk
    · exact zoneLe_sat n _ _ σ (by omega) k hk
    · have := Lin.neg_eval e σ
      simp only [Lin.eval] at this
      exact zoneLe_sat n _ _ σ (by omega) k hk
  · intro k hk; cases hk

theorem zoneAssign_rel (n : Nat) (x : Fin n) (e : Lin) (σ : State) :
    (zoneAssign n x e).rel (res n σ) (res n (upd σ x.val (e.eval σ))) := by
  rw [res_upd_tracked]
  unfold zoneAssign
  split
  · rename_i hts
    simp only [Zones.Stmt.rel, Lin.eval, hts, evalTerms]
    funext y; split <;> simp
  · rename_i a y hts
    split
    · rename_i h
      obtain ⟨ha, hy⟩ := h
      simp only [Zones.Stmt.rel, Lin.eval, hts, evalTerms, ha, res]
      funext v; split
      · omega
      · rfl
    · simp only [Zones.Stmt.rel]
      intro v hv; simp [hv]
  · simp only [Zones.Stmt.rel]
    intro v hv; simp [hv]

/-- the zone model (widening of split_dbm) executes the `bwd` statements -/
def zoneLang (n : Nat) : RelLang n (Zones.splitEng n) where
  isBottom := Zones.ZVal.isBottom
  isBottom_sound := fun a s h => (Zones.ZVal.isBottom_iff a).1 h s
  top_sound := fun s => Zones.top_γ s
  assume := fun c => Zones.Stmt.assume (zoneCsts n c)
  assume_rel := fun c σ h => ⟨rfl, zoneCsts_sat n c σ h⟩
  havoc := fun x => Zones.Stmt.havoc x
  havoc_rel := fun _ _ _ h => h
  assign := zoneAssign n
  assign_rel := zoneAssign_rel n

/-! ### octagons -/

theorem octLe_sat (n : Nat) (c : Int) (ts : List (Int × Var)) (σ : State)
    (h : c + evalTerms ts σ ≤ 0) : ∀ k ∈ octLe n c ts, k.sat (res n σ) := by
  intro k hk
  unfold octLe at hk
  split at hk
  · rename_i a x
    simp only [evalTerms] at h
    split at hk
    · split at hk
      · rename_i ha; subst ha
        rw [List.mem_singleton.1 hk]; simp only [Octagon.Cst.sat, res]; omega
      · split at hk
        · rename_i ha; subst ha
          rw [List.mem_singleton.1 hk]; simp only [Octagon.Cst.sat, res]; omega
        · cases hk
    · cases hk
  · rename_i a x b y
    simp only [evalTerms] at h
    split at hk
    · split at hk
      · rename_i hab; obtain ⟨ha, hb⟩ := hab; subst ha; subst hb
        rw [List.mem_singleton.1 hk]; simp only [Octagon.Cst.sat, res]; omega
      · split at hk
        · rename_i hab; obtain ⟨ha, hb⟩ := hab; subst ha; subst hb
          rw [List.mem_singleton.1 hk]; simp only [Octagon.Cst.sat, res]; omega
        · split at hk
          · rename_i hab; obtain ⟨ha, hb⟩ := hab; subst ha; subst hb
            rw [List.mem_singleton.1 hk]; simp only [Octagon.Cst.sat, res]; omega
          · split at hk
            · rename_i hab; obtain ⟨ha, hb⟩ := hab; subst ha; subst hb
              rw [List.mem_singleton.1 hk]; simp only [Octagon.Cst.sat, res]; omega
            · cases hk
    · cases hk
  · cases hk

theorem octCsts_sat (n : Nat) (c : Cst) (σ : State) (h : c.holds σ) :
    ∀ k ∈ octCsts n c, k.sat (res n σ) := by
  obtain ⟨kd, e⟩ := c
  cases kd <;> simp only [octCsts, Cst.holds, Lin.eval] at h ⊢
  · exact octLe_sat n _ _ σ h
  · exact octLe_sat n _ _ σ (by omega)
  · intro k hk
    rcases List.mem_append.1 hk with hk | hk
    · exact octLe_sat n _ _ σ (by omega) k hk
    · have := Lin.neg_eval e σ
      simp only [Lin.eval] at this
      exact octLe_sat n _ _ σ (by omega) k hk
  · intro k hk; cases hk

theorem octAssign_rel (n : Nat) (x : Fin n) (e : Lin) (σ : State) :
    (octAssign n x e).rel (res n σ) (res n (upd σ x.val (e.eval σ))) := by
  rw [res_upd_tracked]
  unfold octAssign
  split
  · rename_i hts
    simp only [Octagon.Stmt.rel, Lin.eval, hts, evalTerms]
    funext y; split <;> simp
  · rename_i a y hts
    split
    · rename_i hy
      split
      · rename_i ha
        simp only [Octagon.Stmt.rel, Lin.eval, hts, evalTerms, ha, res]
        funext v; split
        · omega
        · rfl
      · split
        · rename_i ha
          simp only [Octagon.Stmt.rel, Lin.eval, hts, evalTerms, ha, res]
          funext v; split
          · omega
          · rfl
        · simp only [Octagon.Stmt.rel]
          intro v hv; simp [hv]
    · simp only [Octagon.Stmt.rel]
      intro v hv; simp [hv]
  · simp only [Octagon.Stmt.rel]
    intro v hv; simp [hv]

/-- the octagon model executes the `bwd` statements -/
def octLang (n : Nat) : RelLang n (Octagon.eng n) where
  isBottom := Octagon.OVal.isBottom
  isBottom_sound := fun a s h => Octagon.OVal.isBottom_sound a h s
  top_sound := fun s => Octagon.top_γ s
  assume := fun c => Octagon.Stmt.assume (octCsts n c)
  assume_rel := fun c σ h => ⟨rfl, octCsts_sat n c σ h⟩
  havoc := fun x => Octagon.Stmt.havoc x
  havoc_rel := fun _ _ _ h => h
  assign := octAssign n
  assign_rel := octAssign_rel n

end Bwd
end Crab
