import CrabProofs.Lemmas.WIntExtra3

/-!
  More lemmas about `Crab.WInt` (part 4): `Trunc` and `Shl`.
-/
namespace Crab
namespace WInt
open WrapInt

/-- walking `D M s v` steps from `s` reaches `v` -/
theorem D_add_back {M s v : Nat} (hs : s < M) (hv : v < M) : (s + D M s v) % M = v := by
  rcases D_spec M s v with ⟨a, b⟩ | ⟨a, b⟩
  · rw [b]; have : s + (v - s) = v := by omega
    rw [this]; exact Nat.mod_eq_of_lt hv
  · rw [b]; have : s + (v + M - s) = v + M := by omega
    rw [this, Nat.add_mod_right]; exact Nat.mod_eq_of_lt hv

/-- the low `w - k` bits of an arithmetic shift are the logical shift -/
theorem sshr_low {w : Nat} (x : BitVec w) (k : Nat) (hk : k ≤ w) :
    (x.sshiftRight k).toNat % 2 ^ (w - k) = x.toNat / 2 ^ k := by
  apply Nat.eq_of_testBit_eq; intro i
  rw [Nat.testBit_mod_two_pow, Nat.testBit_div_two_pow, BitVec.testBit_toNat, BitVec.testBit_toNat,
    BitVec.getLsbD_sshiftRight]
  by_cases h : i < w - k
  · have a : ¬ (w ≤ i) := by omega
    have b : k + i < w := by omega
    simp [h, a, b, Nat.add_comm]
  · simp [h]
    have : w ≤ i + k := by omega
    exact BitVec.getLsbD_of_ge x _ this

theorem mk?_val {w k : Nat} (h1w : 1 ≤ w) (hw : w ≤ 64) (hk : k < 2 ^ w) : mk? k w = some ⟨w, k⟩ := by
  unfold mk?
  rw [widthOk_of h1w hw]
  simp only [if_true]
  split
  · rw [Nat.mod_eq_of_lt hk]
  · rfl

theorem lt_two_pow_self' (w : Nat) : w < 2 ^ w := Nat.lt_two_pow_self

/-- `wrapint::ashr` on reduced operands, amount `k < 2^w` -/
theorem washr_val {w s k : Nat} (h1w : 1 ≤ w) (hw : w ≤ 64) (hs : s < 2 ^ w) (hk : k < 2 ^ w) :
    WrapInt.ashr ⟨w, s⟩ ⟨w, k⟩ = some ⟨w, ((BitVec.ofNatLT s hs).sshiftRight k).toNat⟩ := by
  have := ashr_ofBV h1w hw (BitVec.ofNatLT s hs) (BitVec.ofNatLT k hk)
  simp only [ofBV, BitVec.toNat_ofNatLT, BitVec.sshiftRight_eq'] at this
  exact this

theorem winc_val {w n : Nat} (hw : w ≤ 64) : (WrapInt.inc ⟨w, n⟩).n = (n + 1) % 2 ^ w := by
  simp only [WrapInt.inc]
  rw [red_lt_form hw, red_mod hw]

theorem wkeep_val {w s k : Nat} (hw : w ≤ 64) (hs : s < 2 ^ w) (h1 : 1 ≤ k) (hk : k < w) :
    WrapInt.keepLower ⟨w, s⟩ k = some ⟨k, s % 2 ^ k⟩ := by
  have := keepLower_ofBV hw (BitVec.ofNatLT s hs) k h1 hk
  simp only [ofBV, BitVec.toNat_ofNatLT, BitVec.toNat_setWidth] at this
  exact this

theorem wkeep_zero {w s : Nat} (h1w : 1 ≤ w) : WrapInt.keepLower ⟨w, s⟩ 0 = none := by
  have : ¬ (0 ≥ w) := by omega
  simp [keepLower, this, mk?, widthOk]

/-! ### arithmetic of `Trunc` -/

/-- same upper bits, lower bits in order: the interval is shorter than `2^k` -/
theorem trunc_lenA {P M s e : Nat} (_he : e < M) (h1 : s / P = e / P) (h2 : s % P ≤ e % P)
    (hP : 0 < P) : D M s e < P := by
  have a1 := Nat.div_add_mod s P; have a2 := Nat.div_add_mod e P
  have a3 := Nat.mod_lt s hP; have a4 := Nat.mod_lt e hP
  rw [h1] at a1
  rcases D_spec M s e with ⟨a, b⟩ | ⟨a, b⟩ <;> omega

/-- upper bits one apart (modulo `2^(w-k)`), lower bits out of order: shorter than `2^k` -/
theorem trunc_lenB {P Q M s e : Nat} (hM : M = P * Q) (hQ : 2 ≤ Q) (hs : s < M) (_he : e < M)
    (h1 : (s / P + 1) % Q = e / P) (h2 : e % P < s % P) (hP : 0 < P) : D M s e < P := by
  have a1 := Nat.div_add_mod s P; have a2 := Nat.div_add_mod e P
  have a3 := Nat.mod_lt s hP; have a4 := Nat.mod_lt e hP
  have hSQ : s / P < Q := Nat.div_lt_of_lt_mul (hM ▸ hs)
  have hle : P * (s / P + 1) ≤ P * Q := Nat.mul_le_mul_left P hSQ
  have e1 : P * (e / P) = (P * (s / P) + P) % M := by
    rw [← h1, hM, ← Nat.mul_mod_mul_left, Nat.mul_add, Nat.mul_one]
  rw [Nat.mul_add, Nat.mul_one, ← hM] at hle
  have h2P : 2 * P ≤ M := by
    rw [hM, Nat.mul_comm 2 P]; exact Nat.mul_le_mul_left P hQ
  rw [e1] at a2
  rcases Nat.lt_or_ge (P * (s / P) + P) M with c | c
  · rw [Nat.mod_eq_of_lt c] at a2
    rcases D_spec M s e with ⟨a, b⟩ | ⟨a, b⟩ <;> omega
  · have : P * (s / P) + P = M := by omega
    rw [this, Nat.mod_self] at a2
    rcases D_spec M s e with ⟨a, b⟩ | ⟨a, b⟩ <;> omega

/-- members of an interval shorter than `P`, reduced modulo `P ∣ M` -/
theorem trunc_mem {w k : Nat} (hw : w ≤ 64) (hkw : k ≤ w) {s e v : Nat} (hs : s < 2 ^ w) (he : e < 2 ^ w)
    (hv : v < 2 ^ w) (hlen : D (2 ^ w) s e < 2 ^ k) (hm : D (2 ^ w) s v ≤ D (2 ^ w) s e) :
    mem k (v % 2 ^ k) (W k (s % 2 ^ k) (e % 2 ^ k) false) := by
  have hdvd : 2 ^ k ∣ 2 ^ w := Nat.pow_dvd_pow 2 hkw
  have e1 : v % 2 ^ k = (s + D (2 ^ w) s v) % 2 ^ k := by
    rw [← Nat.mod_mod_of_dvd (s + _) hdvd, D_add_back hs hv]
  have e2 : e % 2 ^ k = (s + D (2 ^ w) s e) % 2 ^ k := by
    rw [← Nat.mod_mod_of_dvd (s + _) hdvd, D_add_back hs he]
  rw [e1, e2]
  exact mem_of_steps (by omega) hlen hm

/-! ### `Trunc` on the model -/

/-- the answers of `Trunc(k)`, `k < w`, on a proper interval -/
theorem trunc_cases {w k : Nat} (h1w : 1 ≤ w) (hw : w ≤ 64) (hk : k < w) {s e : Nat} (hs : s < 2 ^ w)
    (he : e < 2 ^ w) (hnt : (W w s e false).isTop = false) {r : WInt}
    (h : (W w s e false).trunc k = some r) :
    r = top ∨ (r = W k (s % 2 ^ k) (e % 2 ^ k) false ∧ D (2 ^ w) s e < 2 ^ k) := by
  have hk2 : k < 2 ^ w := Nat.lt_trans hk Nat.lt_two_pow_self
  have hP : 0 < 2 ^ k := Nat.pow_pos (by decide)
  have hMPQ : 2 ^ w = 2 ^ k * 2 ^ (w - k) := by rw [← Nat.pow_add]; congr 1; omega
  have hQ : 2 ≤ 2 ^ (w - k) := two_le_pow (by omega)
  have hdvd : 2 ^ (w - k) ∣ 2 ^ w := Nat.pow_dvd_pow 2 (by omega)
  unfold trunc at h
  simp only [hnt, Bool.or_self, Bool.false_eq_true, if_false, mk?_val h1w hw hk2,
    washr_val h1w hw hs hk2, washr_val h1w hw he hk2, Option.bind_eq_bind, Option.bind_some] at h
  have l1 := sshr_low (BitVec.ofNatLT s hs) k (by omega)
  have l2 := sshr_low (BitVec.ofNatLT e he) k (by omega)
  simp only [BitVec.toNat_ofNatLT] at l1 l2
  by_cases hk0 : k = 0
  · -- `keep_lower(0)` raises CRAB_ERROR: the answer can only be `top()`
    subst hk0
    left
    simp only [wkeep_zero h1w, Option.bind_none] at h
    split at h
    · cases h
    · split at h
      · cases h
      · injection h with h; exact h.symm
  · have hk1 : 1 ≤ k := by omega
    simp only [wkeep_val hw hs hk1 hk, wkeep_val hw he hk1 hk, Option.bind_some] at h
    split at h
    · next c1 =>
      have c1' : ((BitVec.ofNatLT s hs).sshiftRight k).toNat = ((BitVec.ofNatLT e he).sshiftRight k).toNat := by
        simpa using c1
      have hSE : s / 2 ^ k = e / 2 ^ k := by rw [← l1, ← l2, c1']
      split at h
      · next c2 =>
        injection h with h
        right
        refine ⟨h.symm, ?_⟩
        exact trunc_lenA he hSE (by simpa using c2) hP
      · injection h with h; exact Or.inl h.symm
    · split at h
      · next c1 =>
        rw [winc_val hw] at c1
        have c1' : (((BitVec.ofNatLT s hs).sshiftRight k).toNat + 1) % 2 ^ w =
            ((BitVec.ofNatLT e he).sshiftRight k).toNat := by simpa using c1
        have hSE : (s / 2 ^ k + 1) % 2 ^ (w - k) = e / 2 ^ k := by
          rw [← l1, ← l2, ← c1', Nat.mod_mod_of_dvd _ hdvd, Nat.add_mod, Nat.mod_mod,
            ← Nat.add_mod]
        split at h
        · next c2 =>
          injection h with h
          right
          refine ⟨h.symm, ?_⟩
          have c2' : e % 2 ^ k < s % 2 ^ k := by simpa using c2
          exact trunc_lenB hMPQ hQ hs he hSE c2' hP
        · injection h with h; exact Or.inl h.symm
      · injection h with h; exact Or.inl h.symm

/-- the answers of `Trunc(w)` on a proper interval of width `w` -/
theorem trunc_cases_full {w : Nat} (h1w : 1 ≤ w) (hw : w ≤ 64) {s e : Nat} (hs : s < 2 ^ w)
    (he : e < 2 ^ w) (hnt : (W w s e false).isTop = false) {r : WInt}
    (h : (W w s e false).trunc w = some r) :
    r = top ∨ r = W w s e false := by
  have hk2 : w < 2 ^ w := Nat.lt_two_pow_self
  have k1 : ∀ c, WrapInt.keepLower ⟨w, c⟩ w = some ⟨w, c⟩ := fun c => by simp [keepLower]
  unfold trunc at h
  simp only [hnt, Bool.or_self, Bool.false_eq_true, if_false, mk?_val h1w hw hk2,
    washr_val h1w hw hs hk2, washr_val h1w hw he hk2, Option.bind_eq_bind, Option.bind_some, k1] at h
  split at h
  · split at h
    · injection h with h; exact Or.inr h.symm
    · injection h with h; exact Or.inl h.symm
  · split at h
    · split at h
      · injection h with h; exact Or.inr h.symm
      · injection h with h; exact Or.inl h.symm
    · injection h with h; exact Or.inl h.symm

theorem mem_nontop {w : Nat} (hw : w ≤ 64) {s e v : Nat} (hs : s < 2 ^ w) (he : e < 2 ^ w)
    (hnt : (W w s e false).isTop = false) (hm : mem w v (W w s e false)) :
    D (2 ^ w) s v ≤ D (2 ^ w) s e := by
  rw [mem_W hw hs he] at hm
  exact hm.resolve_left (isTop_W_false hw hs he hnt)

/-- `Trunc(k)`, `k ≤ w`, contains the low `k` bits of every member -/
theorem trunc_sound {w k : Nat} (h1w : 1 ≤ w) (hw : w ≤ 64) (hk : k ≤ w) {x r : WInt} (hx : Shape w x)
    (h : x.trunc k = some r) {v : Nat} (hv : v < 2 ^ w) (hm : mem w v x) : mem k (v % 2 ^ k) r := by
  obtain ⟨s, e, hs, he, rfl⟩ := shape_cases hx hm.1
  cases hnt : (W w s e false).isTop
  · rcases Nat.lt_or_ge k w with hkw | hkw
    · rcases trunc_cases h1w hw hkw hs he hnt h with rfl | ⟨rfl, hlen⟩
      · exact mem_top _ _
      · exact trunc_mem hw hk hs he hv hlen (mem_nontop hw hs he hnt hm)
    · have : k = w := by omega
      subst this
      rw [Nat.mod_eq_of_lt hv]
      rcases trunc_cases_full h1w hw hs he hnt h with rfl | rfl
      · exact mem_top _ _
      · exact hm
  · rw [show (W w s e false).trunc k = some (W w s e false) by simp [trunc, hnt]] at h
    injection h with h; subst h
    exact mem_of_isTop hnt

/-! ### `Shl` -/

theorem wshl_val {w s k : Nat} (hw : w ≤ 64) (hk : k < w) :
    WrapInt.shl ⟨w, s⟩ ⟨w, k⟩ = some ⟨w, (s * 2 ^ k) % 2 ^ w⟩ := by
  have : ¬ (k ≥ w) := by omega
  simp only [WrapInt.shl, if_true, this, if_false, red_mod hw, Nat.shiftLeft_eq]

/-- shifting left an interval shorter than `2^(w-j)` -/
theorem shl_mem {w j : Nat} (hw : w ≤ 64) (hj : j ≤ w) {s e v : Nat} (hs : s < 2 ^ w) (he : e < 2 ^ w)
    (hv : v < 2 ^ w) (hlen : D (2 ^ w) s e < 2 ^ (w - j)) (hm : D (2 ^ w) s v ≤ D (2 ^ w) s e) :
    mem w ((v * 2 ^ j) % 2 ^ w) (W w ((s * 2 ^ j) % 2 ^ w) ((e * 2 ^ j) % 2 ^ w) false) := by
  have hMPQ : 2 ^ w = 2 ^ (w - j) * 2 ^ j := by rw [← Nat.pow_add]; congr 1; omega
  have e1 : (v * 2 ^ j) % 2 ^ w = (s * 2 ^ j + D (2 ^ w) s v * 2 ^ j) % 2 ^ w := by
    rw [← Nat.add_mul, ← Nat.mod_mul_mod (s + _), D_add_back hs hv]
  have e2 : (e * 2 ^ j) % 2 ^ w = (s * 2 ^ j + D (2 ^ w) s e * 2 ^ j) % 2 ^ w := by
    rw [← Nat.add_mul, ← Nat.mod_mul_mod (s + _), D_add_back hs he]
  rw [e1, e2]
  apply mem_of_steps hw
  · have := Nat.mul_lt_mul_of_pos_right hlen (Nat.pow_pos (by decide) : 0 < 2 ^ j)
    rw [← hMPQ] at this; exact this
  · exact Nat.mul_le_mul_right _ hm

/-- `Shl(k)` contains `v * 2^k mod 2^w` for every member `v` -/
theorem shlK_sound {w k : Nat} (h1w : 1 ≤ w) (hw : w ≤ 64) {x r : WInt} (hx : Shape w x)
    (h : x.shlK k = some r) {v : Nat} (hv : v < 2 ^ w) (hm : mem w v x) :
    mem w ((v * 2 ^ k) % 2 ^ w) r := by
  obtain ⟨s, e, hs, he, rfl⟩ := shape_cases hx hm.1
  cases hnt : (W w s e false).isTop
  · unfold shlK at h
    simp only [hnt, Bool.false_eq_true, if_false] at h
    by_cases hkw : k ≥ w
    · simp only [hkw, if_true] at h
      injection h with h; subst h
      have : (v * 2 ^ k) % 2 ^ w = 0 := by
        apply Nat.mod_eq_zero_of_dvd
        exact Nat.dvd_trans (Nat.pow_dvd_pow 2 hkw) (Nat.dvd_mul_left _ _)
      rw [this, ofNatT_zero]
      show mem w 0 (W w 0 0 false)
      rw [mem_W hw (Nat.pow_pos (by decide)) (Nat.pow_pos (by decide))]
      right; exact Nat.le_refl _
    · simp only [hkw, if_false] at h
      have hkw' : k < w := by omega
      cases hy : (W w s e false).trunc (w - k) with
      | none => rw [hy] at h; cases h
      | some y =>
        rw [hy] at h
        simp only [Option.bind_eq_bind, Option.bind_some, mk?_val h1w hw (Nat.lt_trans hkw' Nat.lt_two_pow_self),
          wshl_val hw hkw'] at h
        split at h
        · next hyt =>
          injection h with h; subst h
          have hyt' : y.isTop = false := by simpa using hyt
          have hd := mem_nontop hw hs he hnt hm
          by_cases hk0 : k = 0
          · subst hk0
            simp only [Nat.pow_zero, Nat.mul_one, Nat.mod_eq_of_lt hs, Nat.mod_eq_of_lt he,
              Nat.mod_eq_of_lt hv]
            exact hm
          · rcases trunc_cases h1w hw (by omega : w - k < w) hs he hnt hy with rfl | ⟨_, hlen⟩
            · exact absurd hyt' (by decide)
            · exact shl_mem hw (by omega) hs he hv hlen hd
        · injection h with h; subst h; exact mem_top _ _
  · rw [show (W w s e false).shlK k = some (W w s e false) by simp [shlK, hnt]] at h
    injection h with h; subst h
    exact mem_of_isTop hnt

end WInt
end Crab
