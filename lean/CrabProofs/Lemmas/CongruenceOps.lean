import CrabProofs.Lemmas.Congruence
import CrabProofs.Lemmas.ZNumBits

/-! Soundness lemmas for the remaining operations of `Crab.Cong`: meet, signed division and
    remainder (on the part of their domain where the code is right), bitwise operations and
    shifts. -/
namespace Crab
namespace Cong

/-! ### lcm -/

theorem iabs_eq_natAbs (x : Int) : iabs x = (x.natAbs : Int) := by unfold iabs; split <;> omega

theorem lcm_eq (x y : Int) : lcm x y = (Int.lcm x y : Int) := by
  unfold lcm
  rw [iabs_eq_natAbs, gcd_eq, Int.natAbs_mul, Int.tdiv_eq_ediv_of_nonneg (Int.natCast_nonneg _)]
  rw [← Int.natCast_ediv]
  rfl

theorem lcm_dvd {x y m : Int} (hx : x ∣ m) (hy : y ∣ m) : lcm x y ∣ m := by
  rw [lcm_eq]
  have h1 : x ∣ (m.natAbs : Int) := Int.dvd_natAbs.mpr hx
  have h2 : y ∣ (m.natAbs : Int) := Int.dvd_natAbs.mpr hy
  have := Int.lcm_dvd h1 h2
  have h3 : ((Int.lcm x y : Nat) : Int) ∣ (m.natAbs : Int) := Int.ofNat_dvd.mpr this
  exact Int.dvd_natAbs.mp h3

theorem dvd_lcm_left (x y : Int) : x ∣ lcm x y := by rw [lcm_eq]; exact Int.dvd_lcm_left x y
theorem dvd_lcm_right (x y : Int) : y ∣ lcm x y := by rw [lcm_eq]; exact Int.dvd_lcm_right x y

/-! ### extended Euclid -/

theorem bezoutLoop_spec (x y : Int) : ∀ (fuel : Nat) (r0 r1 s0 s1 : Int), r1.natAbs < fuel →
    ((bezoutLoop fuel r0 r1 s0 s1).1 ∣ r0 ∧ (bezoutLoop fuel r0 r1 s0 s1).1 ∣ r1) ∧
    (y ∣ x * s0 - r0 → y ∣ x * s1 - r1 →
      y ∣ x * (bezoutLoop fuel r0 r1 s0 s1).2 - (bezoutLoop fuel r0 r1 s0 s1).1) := by
  intro fuel
  induction fuel with
  | zero => intro r0 r1 s0 s1 h; omega
  | succ n ih =>
    intro r0 r1 s0 s1 hlt
    unfold bezoutLoop
    split
    · rename_i h0
      subst h0
      exact ⟨⟨Int.dvd_refl _, Int.dvd_zero _⟩, fun h _ => h⟩
    · rename_i h0
      have hr2 : r0 - r0.tdiv r1 * r1 = Int.tmod r0 r1 := by
        rw [Int.tmod_def, Int.mul_comm]
      have hlt2 : (r0 - r0.tdiv r1 * r1).natAbs < n := by
        rw [hr2, Int.natAbs_tmod]
        have : r0.natAbs % r1.natAbs < r1.natAbs := Nat.mod_lt _ (by omega)
        omega
      obtain ⟨⟨g1, g2⟩, hu⟩ := ih r1 (r0 - r0.tdiv r1 * r1) s1 (s0 - r0.tdiv r1 * s1) hlt2
      simp only
      refine ⟨⟨?_, g1⟩, ?_⟩
      · have hdv := Int.dvd_add g2 (Int.dvd_trans g1 (Int.dvd_mul_left (r0.tdiv r1) r1))
        have e : (r0 - r0.tdiv r1 * r1) + r0.tdiv r1 * r1 = r0 := by omega
        rwa [e] at hdv
      · intro h1 h2
        apply hu h2
        have e : x * (s0 - r0.tdiv r1 * s1) - (r0 - r0.tdiv r1 * r1)
            = (x * s0 - r0) - r0.tdiv r1 * (x * s1 - r1) := by
          grind
        rw [e]
        exact Int.dvd_sub h1 (Int.dvd_trans h2 (Int.dvd_mul_left _ _))

/-- `bezout(x, y)` returns a common divisor `g` and `u` with `x*u ≡ g (mod y)` -/
theorem bezout_spec (x y : Int) :
    (bezout x y).1 ∣ x ∧ (bezout x y).1 ∣ y ∧ y ∣ x * (bezout x y).2 - (bezout x y).1 := by
  have := bezoutLoop_spec x y (y.natAbs + 1) x y 1 0 (by omega)
  unfold bezout
  refine ⟨this.1.1, this.1.2, this.2 (by simp) (by simp)⟩

/-! ### meet -/

theorem eq_of_mem_cst {k : Int} {c : Cong} (h : mem k c) (ha : c.a = 0) : k = c.b := by
  have := h.2; rw [ha] at this
  exact Int.eq_of_sub_eq_zero (Int.zero_dvd.mp this)

/-- the common element computed by the general case of `operator&` -/
theorem crt_elem {a a' b b' g u : Int} (hu : a' ∣ a * u - g) (hd : g ∣ b' - b) (hg0 : g ≠ 0) :
    a ∣ (b + a * (u * Int.tdiv (b' - b) g)) - b ∧ a' ∣ (b + a * (u * Int.tdiv (b' - b) g)) - b' := by
  obtain ⟨t, ht⟩ := hd
  have hq : Int.tdiv (b' - b) g = t := by rw [ht]; exact Int.mul_tdiv_cancel_left _ hg0
  rw [hq]
  constructor
  · have : b + a * (u * t) - b = a * (u * t) := by omega
    rw [this]; exact Int.dvd_mul_right _ _
  · have : b + a * (u * t) - b' = (a * u - g) * t := by
      have : b' = b + g * t := by omega
      rw [this, Int.sub_mul, Int.mul_assoc]; omega
    rw [this]; exact Int.dvd_trans hu (Int.dvd_mul_right _ _)

theorem meet_sound {x o : Cong} {k : Int} (hx : mem k x) (ho : mem k o) : mem k (meet x o) := by
  unfold meet
  simp only [hx.1, ho.1, Bool.or_self, Bool.false_eq_true, if_false]
  have hxa := hx.2
  have hoa := ho.2
  split
  · rename_i h0
    have e1 := eq_of_mem_cst hx h0.1
    have e2 := eq_of_mem_cst ho h0.2
    have : x.b = o.b := by omega
    simp [this]; exact hx
  · split
    · rename_i hxa0
      have e1 := eq_of_mem_cst hx hxa0
      rw [e1] at hoa
      simp [Int.tmod_eq_zero_of_dvd hoa]; exact hx
    · split
      · rename_i hoa0
        have e1 := eq_of_mem_cst ho hoa0
        rw [e1] at hxa
        simp [Int.tmod_eq_zero_of_dvd hxa]; exact ho
      · rename_i hn1 hxa0 hoa0
        obtain ⟨hg1, hg2, hu⟩ := bezout_spec x.a o.a
        have hg0 : (bezout x.a o.a).1 ≠ 0 := by
          intro h0; rw [h0] at hg1; exact hxa0 (Int.zero_dvd.mp hg1)
        -- a common member forces g ∣ b' - b
        have hd : (bezout x.a o.a).1 ∣ o.b - x.b := by
          have h1 := Int.dvd_trans hg1 hxa
          have h2 := Int.dvd_trans hg2 hoa
          have e : o.b - x.b = (k - x.b) - (k - o.b) := by omega
          rw [e]; exact Int.dvd_sub h1 h2
        simp only [Int.tmod_eq_zero_of_dvd hd, if_true]
        rw [mem_mk']
        obtain ⟨c1, c2⟩ := crt_elem hu hd hg0
        apply lcm_dvd
        · have e : ∀ z, k - z = (k - x.b) - (z - x.b) := by intro z; omega
          rw [e]; exact Int.dvd_sub hxa c1
        · have e : ∀ z, k - z = (k - o.b) - (z - o.b) := by intro z; omega
          rw [e]; exact Int.dvd_sub hoa c2

/-- the meet adds nothing: it is exactly the intersection -/
theorem meet_exact {x o : Cong} {k : Int} (h : mem k (meet x o)) : mem k x ∧ mem k o := by
  unfold meet at h
  cases hxb : x.isBot
  · cases hob : o.isBot
    · simp only [hxb, hob, Bool.or_self, Bool.false_eq_true, if_false] at h
      split at h
      · rename_i h0
        split at h
        · rename_i hb
          refine ⟨h, hob, ?_⟩
          have := h.2; rw [h0.1] at this; rw [h0.2, ← hb]; exact this
        · exact absurd h (not_mem_bot k)
      · split at h
        · rename_i hxa0
          split at h
          · rename_i hd
            refine ⟨h, hob, ?_⟩
            have ek := eq_of_mem_cst h hxa0
            rw [ek]; exact Int.dvd_of_tmod_eq_zero hd
          · exact absurd h (not_mem_bot k)
        · split at h
          · rename_i hoa0
            split at h
            · rename_i hd
              refine ⟨⟨hxb, ?_⟩, h⟩
              have ek := eq_of_mem_cst h hoa0
              rw [ek]; exact Int.dvd_of_tmod_eq_zero hd
            · exact absurd h (not_mem_bot k)
          · rename_i hxa0 hoa0
            split at h
            · rename_i hd
              obtain ⟨hg1, hg2, hu⟩ := bezout_spec x.a o.a
              have hg0 : (bezout x.a o.a).1 ≠ 0 := by
                intro h0; rw [h0] at hg1; exact hxa0 (Int.zero_dvd.mp hg1)
              obtain ⟨c1, c2⟩ := crt_elem hu (Int.dvd_of_tmod_eq_zero hd) hg0
              have hk := (mem_mk' _ _ _).mp h
              have h1 := Int.dvd_trans (dvd_lcm_left x.a o.a) hk
              have h2 := Int.dvd_trans (dvd_lcm_right x.a o.a) hk
              constructor
              · refine ⟨hxb, ?_⟩
                have e : ∀ z, k - x.b = (k - z) + (z - x.b) := by intro z; omega
                rw [e]; exact Int.dvd_add h1 c1
              · refine ⟨hob, ?_⟩
                have e : ∀ z, k - o.b = (k - z) + (z - o.b) := by intro z; omega
                rw [e]; exact Int.dvd_add h2 c2
            · exact absurd h (not_mem_bot k)
    · simp only [hob, Bool.or_true, if_true] at h; exact absurd h (not_mem_bot k)
  · simp only [hxb, Bool.true_or, if_true] at h; exact absurd h (not_mem_bot k)

/-! ### signed division and remainder -/

theorem div_sound {x o : Cong} {a b : Int} (ha : mem a x) (hb : mem b o) (hb0 : b ≠ 0) :
    mem (Int.tdiv a b) (div x o) := by
  unfold div
  simp only [ha.1, hb.1, Bool.or_self, Bool.false_eq_true, if_false]
  split
  · rename_i hz
    have := eq_of_mem_cst hb hz.1
    rw [hz.2] at this; exact absurd this hb0
  · split
    · exact mem_top _
    · split
      · rename_i hoa
        have eb := eq_of_mem_cst hb hoa
        rw [← eb]
        split
        · rename_i hxa
          rw [mem_ofInt, eq_of_mem_cst ha hxa]
        · split
          · rename_i hdiv
            rw [mem_mk']
            obtain ⟨q, hq⟩ := Int.dvd_of_tmod_eq_zero hdiv.1
            obtain ⟨r, hr⟩ := Int.dvd_of_tmod_eq_zero hdiv.2
            obtain ⟨i, hi⟩ := ha.2
            have ea : a = b * (q * i + r) := by
              have : a = x.a * i + x.b := by omega
              rw [this, hq, hr, Int.mul_add, Int.mul_assoc]
            rw [ea, hq, hr, Int.mul_tdiv_cancel_left _ hb0, Int.mul_tdiv_cancel_left _ hb0,
                Int.mul_tdiv_cancel_left _ hb0]
            exact ⟨i, by omega⟩
          · exact mem_top _
      · split
        · rename_i hz
          simp [isZero] at hz
          have := eq_of_mem_cst ha hz.1.2
          rw [this, hz.2, Int.zero_tdiv]
          exact ⟨ha.1, by rw [hz.1.2, hz.2]; simp⟩
        · exact mem_top _

theorem tmod_sub_dvd (k d g : Int) (hg : g ∣ d) : g ∣ Int.tmod k d - k := by
  rw [Int.tmod_def]
  have : k - d * k.tdiv d - k = -(d * k.tdiv d) := by omega
  rw [this]
  exact Int.dvd_neg.mpr (Int.dvd_trans hg (Int.dvd_mul_right _ _))

theorem srem_sound {x o : Cong} {a b : Int} (ha : mem a x) (hb : mem b o) (hb0 : b ≠ 0) :
    mem (Int.tmod a b) (srem x o) := by
  unfold srem
  simp only [ha.1, hb.1, Bool.or_self, Bool.false_eq_true, if_false]
  split
  · rename_i hz
    have := eq_of_mem_cst hb hz.1
    rw [hz.2] at this; exact absurd this hb0
  · split
    · exact mem_top _
    · split
      · rename_i h0
        rw [mem_ofInt, eq_of_mem_cst ha h0.1, eq_of_mem_cst hb h0.2]
      · split
        · rename_i hz
          have eb := eq_of_mem_cst hb hz.1
          rw [← eb] at hz
          rw [mem_ofInt]
          obtain ⟨i, hi⟩ := ha.2
          have hba : b ∣ a := by
            have : a = x.a * i + x.b := by omega
            rw [this]
            exact Int.dvd_add (Int.dvd_trans (Int.dvd_of_tmod_eq_zero hz.2.1) (Int.dvd_mul_right _ _))
              (Int.dvd_of_tmod_eq_zero hz.2.2)
          exact Int.tmod_eq_zero_of_dvd hba
        · rw [mem_mk']
          obtain ⟨j, hj⟩ := hb.2
          have hgb : gcd3 x.a o.a o.b ∣ b := by
            have : b = o.a * j + o.b := by omega
            rw [this]
            exact Int.dvd_add (Int.dvd_trans (gcd3_dvd_2 _ _ _) (Int.dvd_mul_right _ _)) (gcd3_dvd_3 _ _ _)
          have h1 := tmod_sub_dvd a b _ hgb
          have h2 := Int.dvd_trans (gcd3_dvd_1 x.a o.a o.b) ha.2
          have : a.tmod b - x.b = (a.tmod b - a) + (a - x.b) := by omega
          rw [this]; exact Int.dvd_add h1 h2

end Cong
end Crab
