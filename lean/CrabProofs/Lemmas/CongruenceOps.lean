import CrabProofs.Lemmas.Congruence
import CrabProofs.Lemmas.ZNumBits

/-! Soundness lemmas for the remaining operations of `Crab.Cong`: meet, signed division and
    remainder (on the part of their domain where the code is right), bitwise operations and
    shifts. -/
namespace Crab
namespace Cong

/-! ### lcm -/

theorem iabs_eq_natAbs (x : Int) : iabs x = (x.natAbs : Int) := by unfold iabs; split <;> omega

theorem lcm_eq (x y : Int) : lcm x y = (Int.lcm x y : Int) := by
  unfold lcm
  rw [iabs_eq_natAbs, gcd_eq, Int.natAbs_mul, Int.tdiv_eq_ediv_of_nonneg (Int.natCast_nonneg _)]
  rw [← Int.natCast_ediv]
  rfl

theorem lcm_dvd {x y m : Int} (hx : x ∣ m) (hy : y ∣ m) : lcm x y ∣ m := by
  rw [lcm_eq]
  have h1 : x ∣ (m.natAbs : Int) := Int.dvd_natAbs.mpr hx
  have h2 : y ∣ (m.natAbs : Int) := Int.dvd_natAbs.mpr hy
  have := Int.lcm_dvd h1 h2
  have h3 : ((Int.lcm x y : Nat) : Int) ∣ (m.natAbs : Int) := Int.ofNat_dvd.mpr this
  exact Int.dvd_natAbs.mp h3

theorem dvd_lcm_left (x y : Int) : x ∣ lcm x y := by rw [lcm_eq]; exact Int.dvd_lcm_left x y
theorem dvd_lcm_right (x y : Int) : y ∣ lcm x y := by rw [lcm_eq]; exact Int.dvd_lcm_right x y

/-! ### meet -/

/-- the part of the domain of `operator&` on which its answer is right: an operand is
    bottom or a constant, or the two residues are recognised as compatible and are already
    congruent modulo the lcm (so that `max(b,b')` is a common solution) -/
def meetSafe (x o : Cong) : Prop :=
  x.isBot = true ∨ o.isBot = true ∨ x.a = 0 ∨ o.a = 0 ∨
  (Int.tmod x.b (gcd x.a o.a) = Int.tmod o.b (gcd x.a o.a) ∧ lcm x.a o.a ∣ x.b - o.b)
instance (x o : Cong) : Decidable (meetSafe x o) := by unfold meetSafe; exact inferInstance

theorem meet_sound_of_safe {x o : Cong} (hs : meetSafe x o) {k : Int} (hx : mem k x) (ho : mem k o) :
    mem k (meet x o) := by
  unfold meet
  simp only [hx.1, ho.1, Bool.or_self, Bool.false_eq_true, if_false]
  have hxa := hx.2
  have hoa := ho.2
  split
  · rename_i h0
    rw [h0.1] at hxa; rw [h0.2] at hoa
    have e1 := Int.eq_of_sub_eq_zero (Int.zero_dvd.mp hxa)
    have e2 := Int.eq_of_sub_eq_zero (Int.zero_dvd.mp hoa)
    have : x.b = o.b := by omega
    simp [this]; exact hx
  · split
    · rename_i hxa0
      rw [hxa0] at hxa
      have e1 := Int.eq_of_sub_eq_zero (Int.zero_dvd.mp hxa)
      rw [e1] at hoa
      simp [Int.tmod_eq_zero_of_dvd hoa]; exact hx
    · split
      · rename_i hoa0
        rw [hoa0] at hoa
        have e1 := Int.eq_of_sub_eq_zero (Int.zero_dvd.mp hoa)
        rw [e1] at hxa
        simp [Int.tmod_eq_zero_of_dvd hxa]; exact ho
      · rename_i hn1 hn2 hn3
        rcases hs with h | h | h | h | ⟨ht, hl⟩
        · rw [hx.1] at h; cases h
        · rw [ho.1] at h; cases h
        · exact absurd h hn2
        · exact absurd h hn3
        · simp only [ht, if_true]
          rw [mem_mk']
          -- lcm ∣ k - x.b, and the representative differs from x.b by a multiple of the lcm
          have hxo : o.a ∣ k - x.b := by
            have := Int.dvd_trans (dvd_lcm_right x.a o.a) hl
            have e : k - x.b = (k - o.b) - (x.b - o.b) := by omega
            rw [e]; exact Int.dvd_sub hoa this
          have hk : lcm x.a o.a ∣ k - x.b := lcm_dvd hxa hxo
          unfold imax; split
          · have e : k - o.b = (k - x.b) + (x.b - o.b) := by omega
            rw [e]; exact Int.dvd_add hk hl
          · exact hk

/-! ### signed division and remainder -/

/-- excluded from the soundness of `/` and `%`: a constant divided by a class (non-zero
    constant, the divisor not being recognised as top) -/
def divCstByClass (x o : Cong) : Prop := x.a = 0 ∧ o.a ≠ 0 ∧ x.b ≠ 0
instance (x o : Cong) : Decidable (divCstByClass x o) := by unfold divCstByClass; exact inferInstance

/-- excluded unless the dividend is non-negative: a class divided by a constant that divides
    the modulus but not the residue (the quotient/remainder of the residue is then used for
    the whole class, which is wrong for members of the other sign) -/
def divClassByCst (x o : Cong) : Prop :=
  o.a = 0 ∧ x.a ≠ 0 ∧ Int.tmod x.a o.b = 0 ∧ ¬ (o.b ∣ x.b)
instance (x o : Cong) : Decidable (divClassByCst x o) := by unfold divClassByCst; exact inferInstance

theorem eq_of_mem_cst {k : Int} {c : Cong} (h : mem k c) (ha : c.a = 0) : k = c.b := by
  have := h.2; rw [ha] at this
  exact Int.eq_of_sub_eq_zero (Int.zero_dvd.mp this)

theorem div_sound_of_safe {x o : Cong} {a b : Int} (ha : mem a x) (hb : mem b o) (hb0 : b ≠ 0)
    (h4 : ¬ divCstByClass x o) (h3 : ¬ divClassByCst x o ∨ (0 ≤ a ∧ 0 ≤ x.b)) :
    mem (Int.tdiv a b) (div x o) := by
  unfold div
  simp only [ha.1, hb.1, Bool.or_self, Bool.false_eq_true, if_false]
  split
  · rename_i hz
    have := eq_of_mem_cst hb hz.1
    rw [hz.2] at this; exact absurd this hb0
  · split
    · exact mem_top _
    · split
      · rename_i hoa
        have eb := eq_of_mem_cst hb hoa
        rw [← eb]
        split
        · rename_i hdiv
          rw [mem_mk']
          have hd : b ∣ x.a := Int.dvd_of_tmod_eq_zero hdiv
          obtain ⟨i, hi⟩ := ha.2
          by_cases hxa : x.a = 0
          · have := eq_of_mem_cst ha hxa
            rw [this]; simp
          · rcases h3 with h3 | ⟨h30, h31⟩
            · -- exact division: b divides the residue too
              have hbx : b ∣ x.b := by
                apply Classical.byContradiction
                intro hc
                exact h3 ⟨hoa, hxa, by rw [← eb]; exact hdiv, by rw [← eb]; exact hc⟩
              obtain ⟨q, hq⟩ := hd
              obtain ⟨r, hr⟩ := hbx
              have ea : a = b * (q * i + r) := by
                have : a = x.a * i + x.b := by omega
                rw [this, hq, hr, Int.mul_add, Int.mul_assoc]
              rw [ea, hq, hr, Int.mul_tdiv_cancel_left _ hb0, Int.mul_tdiv_cancel_left _ hb0,
                  Int.mul_tdiv_cancel_left _ hb0]
              exact ⟨i, by omega⟩
            · -- non-negative dividend and residue: truncation is floor
              obtain ⟨q, hq⟩ := hd
              have ea : a = x.b + (q * i) * b := by
                have : a = x.a * i + x.b := by omega
                rw [this, hq, Int.mul_assoc, Int.mul_comm b (q * i)]; omega
              rw [Int.tdiv_eq_ediv_of_nonneg h30, Int.tdiv_eq_ediv_of_nonneg h31, ea,
                  Int.add_mul_ediv_right _ _ hb0, hq, Int.mul_tdiv_cancel_left _ hb0]
              exact ⟨i, by omega⟩
        · exact mem_top _
      · rename_i hoa
        split
        · rename_i hxa
          have hxb : x.b = 0 := by
            apply Classical.byContradiction
            intro hc; exact h4 ⟨hxa, hoa, hc⟩
          have ea := eq_of_mem_cst ha hxa
          rw [ea, hxb]
          simp only [Int.zero_tdiv]
          split <;> simp [mem_mk']
        · exact mem_top _

theorem tmod_sub_dvd (k d g : Int) (hg : g ∣ d) : g ∣ Int.tmod k d - k := by
  rw [Int.tmod_def]
  have : k - d * k.tdiv d - k = -(d * k.tdiv d) := by omega
  rw [this]
  exact Int.dvd_neg.mpr (Int.dvd_trans hg (Int.dvd_mul_right _ _))

theorem srem_sound_of_safe {x o r : Cong} {a b : Int} (ha : mem a x) (hb : mem b o) (hb0 : b ≠ 0)
    (h4 : ¬ divCstByClass x o) (h3 : ¬ divClassByCst x o ∨ (0 ≤ a ∧ 0 ≤ x.b))
    (hr : srem x o = some r) : mem (Int.tmod a b) r := by
  unfold srem at hr
  simp only [ha.1, hb.1, Bool.or_self, Bool.false_eq_true, if_false] at hr
  split at hr
  · rename_i hz
    have := eq_of_mem_cst hb hz.1
    rw [hz.2] at this; exact absurd this hb0
  · split at hr
    · cases hr; exact mem_top _
    · split at hr
      · rename_i hoa
        have eb := eq_of_mem_cst hb hoa
        rw [← eb] at hr
        split at hr
        · rename_i hdiv
          cases hr
          rw [mem_mk']
          simp only [Int.zero_dvd]
          have hd : b ∣ x.a := Int.dvd_of_tmod_eq_zero hdiv
          obtain ⟨i, hi⟩ := ha.2
          by_cases hxa : x.a = 0
          · have := eq_of_mem_cst ha hxa
            rw [this]; simp
          · rcases h3 with h3 | ⟨h30, h31⟩
            · have hbx : b ∣ x.b := by
                apply Classical.byContradiction
                intro hc
                exact h3 ⟨hoa, hxa, by rw [← eb]; exact hdiv, by rw [← eb]; exact hc⟩
              have hba : b ∣ a := by
                have : a = x.a * i + x.b := by omega
                rw [this]; exact Int.dvd_add (Int.dvd_trans hd (Int.dvd_mul_right _ _)) hbx
              rw [Int.tmod_eq_zero_of_dvd hba, Int.tmod_eq_zero_of_dvd hbx]; rfl
            · obtain ⟨q, hq⟩ := hd
              have ea : a = x.b + b * (q * i) := by
                have : a = x.a * i + x.b := by omega
                rw [this, hq, Int.mul_assoc]; omega
              rw [Int.tmod_eq_emod_of_nonneg h30, Int.tmod_eq_emod_of_nonneg h31, ea,
                  Int.add_mul_emod_self_left]
              omega
        · cases hr
          rw [mem_mk']
          have h1 := tmod_sub_dvd a b _ (gcd_dvd_right x.a b)
          have h2 := Int.dvd_trans (gcd_dvd_left x.a b) ha.2
          have : a.tmod b - x.b = (a.tmod b - a) + (a - x.b) := by omega
          rw [this]; exact Int.dvd_add h1 h2
      · rename_i hoa
        split at hr
        · rename_i hxa
          have hxb : x.b = 0 := by
            apply Classical.byContradiction
            intro hc; exact h4 ⟨hxa, hoa, hc⟩
          have ea := eq_of_mem_cst ha hxa
          rw [ea, hxb]
          simp only [Int.zero_tmod]
          rw [hxb] at hr
          split at hr
          · cases hr; rw [mem_mk']; simp
          · rename_i hn
            split at hr
            · rename_i h0n; omega
            · split at hr
              · rename_i hge; simp at hge
              · cases hr
        · cases hr
          rw [mem_mk']
          obtain ⟨j, hj⟩ := hb.2
          have hgb : gcd3 x.a o.a o.b ∣ b := by
            have : b = o.a * j + o.b := by omega
            rw [this]
            exact Int.dvd_add (Int.dvd_trans (gcd3_dvd_2 _ _ _) (Int.dvd_mul_right _ _)) (gcd3_dvd_3 _ _ _)
          have h1 := tmod_sub_dvd a b _ hgb
          have h2 := Int.dvd_trans (gcd3_dvd_1 x.a o.a o.b) ha.2
          have : a.tmod b - x.b = (a.tmod b - a) + (a - x.b) := by omega
          rw [this]; exact Int.dvd_add h1 h2

end Cong
end Crab
