import CrabProofs.Lemmas.DbmIncrCOE
import CrabProofs.Lemmas.DbmIncrAssign

/-!
  The `delta` of the first two loops of `close_over_edge` ("we add in delta so that we don't
  invalidate graph iterators"): pushing a new edge on `delta` and applying `delta` after the loop
  computes the same graph as writing the edge at once, because no pending edge is read or written
  before `apply_delta` (the pending edges are `se → jj` for pairwise distinct `se ≠ 0`, resp.
  `ii → de`).  Hence `closeOverEdge = closeOverEdgeI` for every duplicate-free enumeration.
-/
namespace Crab
namespace DbmIncr
open Dbm Zones

variable {n : Nat}

/-- closed form of `closeBounds` -/
theorem edge_closeBounds (g : Zone n) (a b : Fin (n + 1)) (wt : Int) (hb : b ≠ 0) (x y : Fin (n + 1)) :
    edge (closeBounds g a b wt) x y =
      if x = 0 ∧ y = b then W.min (edge g 0 b) (W.add (edge g 0 a) (some wt))
      else if x = a ∧ y = 0 then W.min (edge g a 0) (W.add (edge g b 0) (some wt))
      else edge g x y := by
  rw [closeBounds_eq]
  have eb : ∀ u, edge (relax g 0 u b) b 0 = edge g b 0 := fun u => edge_relax_ne _ _ (fun h => hb h.1)
  by_cases h1 : x = 0 ∧ y = b
  · obtain ⟨rfl, rfl⟩ := h1
    have hna : ¬ ((0 : Fin (n + 1)) = a ∧ y = 0) := fun h => hb h.2
    simp only [and_self, if_true]
    rcases e1 : edge g 0 a with _ | u <;> simp only
    · rcases e2 : edge g y 0 with _ | v <;> simp only
      · simp
      · rw [edge_relax_ne _ _ hna]; simp
    · rw [eb]
      rcases e2 : edge g y 0 with _ | v <;> simp only
      · rw [edge_relax_self]; simp
      · rw [edge_relax_ne _ _ hna, edge_relax_self]; simp
  · simp only [h1, if_false]
    by_cases h2 : x = a ∧ y = 0
    · obtain ⟨rfl, rfl⟩ := h2
      simp only [and_self, if_true]
      rcases e1 : edge g 0 x with _ | u <;> simp only
      · rcases e2 : edge g b 0 with _ | v <;> simp only
        · simp
        · rw [edge_relax_self]; simp
      · rw [eb]
        rcases e2 : edge g b 0 with _ | v <;> simp only
        · rw [edge_relax_ne _ _ h1]; simp
        · rw [edge_relax_self, edge_relax_ne _ _ h1]; simp
    · simp only [h2, if_false]
      rcases e1 : edge g 0 a with _ | u <;> simp only
      · rcases e2 : edge g b 0 with _ | v <;> simp only
        rw [edge_relax_ne _ _ h2]
      · rw [eb]
        rcases e2 : edge g b 0 with _ | v <;> simp only
        · rw [edge_relax_ne _ _ h1]
        · rw [edge_relax_ne _ _ h2, edge_relax_ne _ _ h1]

/-- an unrecorded edge is not touched by `apply_delta` -/
theorem edge_applyDelta_none (δ : List (Fin (n + 1) × Fin (n + 1) × Int)) (g : Zone n)
    (a b : Fin (n + 1)) (h : ∀ e ∈ δ, ¬ (e.1 = a ∧ e.2.1 = b)) :
    edge (applyDelta g δ) a b = edge g a b := by
  rw [edge_applyDelta δ g a b 0 (fun e he h1 h2 => absurd ⟨h1, h2⟩ (h e he))]
  have : ¬ ∃ e ∈ δ, e.1 = a ∧ e.2.1 = b := fun ⟨e, he, hh⟩ => h e he hh
  simp only [this, if_false]

/-- two writes at different edges commute -/
theorem setEdge_comm (g : Zone n) {a b c d : Fin (n + 1)} (w w' : Int) (h : ¬ (a = c ∧ b = d)) :
    setEdge (setEdge g a w b) c w' d = setEdge (setEdge g c w' d) a w b := by
  apply ext_edge
  intro x y
  simp only [edge_setEdge]
  by_cases h1 : x = c ∧ y = d
  · by_cases h2 : x = a ∧ y = b
    · exact absurd ⟨h2.1.symm.trans h1.1, h2.2.symm.trans h1.2⟩ h
    · obtain ⟨rfl, rfl⟩ := h1
      have h' : ¬ (x = a ∧ y = b) := h2
      simp only [and_self, if_true, h', if_false]
  · simp only [h1, if_false]

/-- a write outside the footprint of `closeBounds` commutes with it -/
theorem setEdge_closeBounds_comm (g : Zone n) {a b c d : Fin (n + 1)} (wt w : Int) (hb : b ≠ 0)
    (h1 : ¬ (c = 0 ∧ d = a)) (h2 : ¬ (c = b ∧ d = 0)) (h3 : ¬ (c = 0 ∧ d = b))
    (h4 : ¬ (c = a ∧ d = 0)) :
    setEdge (closeBounds g a b wt) c w d = closeBounds (setEdge g c w d) a b wt := by
  apply ext_edge
  intro x y
  rw [edge_setEdge, edge_closeBounds _ _ _ _ hb, edge_closeBounds _ _ _ _ hb]
  simp only [edge_setEdge]
  have k1 : ¬ ((0 : Fin (n + 1)) = c ∧ a = d) := fun h => h1 ⟨h.1.symm, h.2.symm⟩
  have k2 : ¬ (b = c ∧ (0 : Fin (n + 1)) = d) := fun h => h2 ⟨h.1.symm, h.2.symm⟩
  have k3 : ¬ ((0 : Fin (n + 1)) = c ∧ b = d) := fun h => h3 ⟨h.1.symm, h.2.symm⟩
  have k4 : ¬ (a = c ∧ (0 : Fin (n + 1)) = d) := fun h => h4 ⟨h.1.symm, h.2.symm⟩
  simp only [k1, k2, k3, k4, if_false]
  by_cases hxy : x = c ∧ y = d
  · obtain ⟨rfl, rfl⟩ := hxy
    simp [h3, h4]
  · simp only [hxy, if_false]

theorem applyDelta_setEdge_comm (δ : List (Fin (n + 1) × Fin (n + 1) × Int)) (g : Zone n)
    (a b : Fin (n + 1)) (w : Int) (h : ∀ e ∈ δ, ¬ (e.1 = a ∧ e.2.1 = b)) :
    applyDelta (setEdge g a w b) δ = setEdge (applyDelta g δ) a w b := by
  induction δ generalizing g with
  | nil => rfl
  | cons e δ ih =>
    simp only [applyDelta, List.foldl_cons] at ih ⊢
    rw [setEdge_comm g w e.2.2 (fun hh => h e (List.mem_cons_self ..) ⟨hh.1.symm, hh.2.symm⟩)]
    exact ih _ (fun e' he' => h e' (List.mem_cons_of_mem _ he'))

theorem applyDelta_closeBounds_comm (δ : List (Fin (n + 1) × Fin (n + 1) × Int)) (g : Zone n)
    (a b : Fin (n + 1)) (wt : Int) (hb : b ≠ 0)
    (h : ∀ e ∈ δ, ¬ (e.1 = 0 ∧ e.2.1 = a) ∧ ¬ (e.1 = b ∧ e.2.1 = 0) ∧ ¬ (e.1 = 0 ∧ e.2.1 = b) ∧
      ¬ (e.1 = a ∧ e.2.1 = 0)) :
    applyDelta (closeBounds g a b wt) δ = closeBounds (applyDelta g δ) a b wt := by
  induction δ generalizing g with
  | nil => rfl
  | cons e δ ih =>
    simp only [applyDelta, List.foldl_cons] at ih ⊢
    obtain ⟨h1, h2, h3, h4⟩ := h e (List.mem_cons_self ..)
    rw [setEdge_closeBounds_comm g wt e.2.2 hb h1 h2 h3 h4]
    exact ih _ (fun e' he' => h e' (List.mem_cons_of_mem _ he'))

theorem applyDelta_append (g : Zone n) (δ : List (Fin (n + 1) × Fin (n + 1) × Int))
    (e : Fin (n + 1) × Fin (n + 1) × Int) :
    applyDelta g (δ ++ [e]) = setEdge (applyDelta g δ) e.1 e.2.2 e.2.1 := by
  simp [applyDelta, List.foldl_append]

end DbmIncr
end Crab
