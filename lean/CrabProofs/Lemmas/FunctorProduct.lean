import CrabModel.Dom.Functors.Product

/-!
Lemmas about the product combinators (`Crab.Dom.Fct.Prod2`): soundness of every operation w.r.t.
`Prod2.γ` from the laws of `LDom` only, the order / lattice facts of C04, and the invariant `WF`.
-/
namespace Crab
namespace Dom
namespace Fct

variable {S : Type}

namespace Prod2
variable {D1 D2 : LDom S}

theorem canonicalize_eq_self {p : Prod2 D1 D2} (h0 : p.isBot = false) (h1 : D1.isBot p.fst = false)
    (h2 : D2.isBot p.snd = false) : p.canonicalize = p := by
  simp [canonicalize, h0, h1, h2]

theorem canonicalize_of_γ {p : Prod2 D1 D2} {s : S} (h : p.γ s) : p.canonicalize = p :=
  canonicalize_eq_self h.1 (D1.isBot_false_of_γ h.2.1) (D2.isBot_false_of_γ h.2.2)

/-- `canonicalize()` does not change the meaning -/
theorem γ_canonicalize (p : Prod2 D1 D2) (s : S) : p.canonicalize.γ s ↔ p.γ s := by
  unfold canonicalize
  cases h0 : p.isBot
  · simp only [Bool.not_false, if_true]
    split
    · rename_i hb
      constructor
      · intro h; exact absurd h.1 (by simp)
      · intro h
        rcases Bool.or_eq_true _ _ ▸ hb with hb | hb
        · exact absurd h.2.1 (D1.isBot_sound _ _ hb)
        · exact absurd h.2.2 (D2.isBot_sound _ _ hb)
    · rfl
  · simp

theorem γ_mk' (a : D1.B) (b : D2.B) (r : Bool) (s : S) :
    (mk' a b r : Prod2 D1 D2).γ s ↔ D1.γ a s ∧ D2.γ b s := by
  unfold mk'
  cases r
  · simp [γ]
  · simp only [if_true]
    rw [γ_canonicalize]; simp [γ]

theorem not_γ_of_isBottom {p : Prod2 D1 D2} (h : p.isBottom = true) (s : S) : ¬ p.γ s := by
  intro hg
  unfold isBottom at h
  rw [hg.1] at h
  simp only [Bool.false_eq_true, if_false, Bool.or_eq_true] at h
  rcases h with h | h
  · exact D1.isBot_sound _ _ h hg.2.1
  · exact D2.isBot_sound _ _ h hg.2.2

theorem isBot_false_of_not_isBottom {p : Prod2 D1 D2} (h : p.isBottom = false) : p.isBot = false := by
  unfold isBottom at h
  cases hb : p.isBot
  · rfl
  · simp [hb] at h

theorem γ_top (s : S) : (top : Prod2 D1 D2).γ s :=
  (γ_mk' _ _ _ s).2 ⟨D1.top_sound s, D2.top_sound s⟩

theorem not_γ_bottom (s : S) : ¬ (bottom : Prod2 D1 D2).γ s := fun h =>
  D1.bot_sound s ((γ_mk' _ _ _ s).1 h).1

theorem γ_setTop (p : Prod2 D1 D2) (s : S) : p.setTop.γ s := ⟨rfl, D1.top_sound s, D2.top_sound s⟩
theorem not_γ_setBottom (p : Prod2 D1 D2) (s : S) : ¬ p.setBottom.γ s := fun h => by simp [setBottom, γ] at h

/-! ### `operator<=` -/

theorem leq_sound {p q : Prod2 D1 D2} {s : S} (h : leq p q = true) (hg : p.γ s) : q.γ s := by
  unfold leq at h
  have hp : p.isBottom = false := by
    cases hb : p.isBottom
    · rfl
    · exact absurd hg (not_γ_of_isBottom hb s)
  rw [hp] at h
  simp only [Bool.false_eq_true, if_false] at h
  split at h
  · simp at h
  · rename_i hq
    simp only [Bool.and_eq_true] at h
    exact ⟨isBot_false_of_not_isBottom (by simpa using hq), D1.leq_sound _ _ s h.1 hg.2.1,
      D2.leq_sound _ _ s h.2 hg.2.2⟩

theorem leq_of_isBottom {p : Prod2 D1 D2} (h : p.isBottom = true) (q : Prod2 D1 D2) : leq p q = true := by
  simp [leq, h]

theorem leq_refl (h1 : D1.LeqRefl) (h2 : D2.LeqRefl) (p : Prod2 D1 D2) : leq p p = true := by
  unfold leq
  cases hb : p.isBottom
  · simp [h1 p.fst, h2 p.snd]
  · simp

theorem top_eq (h1 : D1.TopNotBot) (h2 : D2.TopNotBot) : (top : Prod2 D1 D2) = ⟨false, D1.top, D2.top⟩ := by
  unfold top mk'
  simp only [if_true]
  exact canonicalize_eq_self rfl h1 h2

theorem leq_top (h1 : D1.TopNotBot) (h2 : D2.TopNotBot) (l1 : D1.LeqTop) (l2 : D2.LeqTop)
    (p : Prod2 D1 D2) : leq p top = true := by
  rw [top_eq h1 h2]
  unfold leq
  cases hb : p.isBottom
  · have h1' : D1.isBot D1.top = false := h1
    have h2' : D2.isBot D2.top = false := h2
    simp [isBottom, h1', h2', l1 p.fst, l2 p.snd]
  · simp

theorem isBottom_bottom (h : D1.BotIsBot ∨ D2.BotIsBot) : (bottom : Prod2 D1 D2).isBottom = true := by
  unfold bottom mk' canonicalize isBottom
  have : (D1.isBot D1.bot || D2.isBot D2.bot) = true := by
    rcases h with h | h
    · have h' : D1.isBot D1.bot = true := h
      simp [h']
    · have h' : D2.isBot D2.bot = true := h
      simp [h']
  simp [this]

theorem isTop_top (h1 : D1.TopNotBot) (h2 : D2.TopNotBot) (t1 : D1.TopIsTop) (t2 : D2.TopIsTop) :
    (top : Prod2 D1 D2).isTop = true ∧ (top : Prod2 D1 D2).isBottom = false := by
  rw [top_eq h1 h2]
  have a1 : D1.isTop D1.top = true := t1
  have a2 : D2.isTop D2.top = true := t2
  have b1 : D1.isBot D1.top = false := h1
  have b2 : D2.isBot D2.top = false := h2
  simp [isTop, isBottom, a1, a2, b1, b2]

/-! ### upper bounds -/

theorem join_sound {p q : Prod2 D1 D2} {s : S} (h : p.γ s ∨ q.γ s) : (join p q).γ s := by
  unfold join
  split
  · rename_i hp
    exact h.elim (fun hg => absurd hg (not_γ_of_isBottom hp s)) id
  · split
    · rename_i hq
      exact h.elim id (fun hg => absurd hg (not_γ_of_isBottom hq s))
    · rw [γ_mk']
      rcases h with h | h
      · exact ⟨D1.join_l _ _ s h.2.1, D2.join_l _ _ s h.2.2⟩
      · exact ⟨D1.join_r _ _ s h.2.1, D2.join_r _ _ s h.2.2⟩

theorem joinEq_sound {p q : Prod2 D1 D2} {s : S} (h : p.γ s ∨ q.γ s) : (joinEq p q).γ s := by
  unfold joinEq
  split
  · rename_i hp
    exact h.elim (fun hg => absurd hg (not_γ_of_isBottom hp s)) id
  · rename_i hp
    split
    · rename_i hq
      exact h.elim id (fun hg => absurd hg (not_γ_of_isBottom hq s))
    · have hf : p.isBot = false := isBot_false_of_not_isBottom (by simpa using hp)
      refine ⟨hf, ?_⟩
      rcases h with h | h
      · exact ⟨D1.join_l _ _ s h.2.1, D2.join_l _ _ s h.2.2⟩
      · exact ⟨D1.join_r _ _ s h.2.1, D2.join_r _ _ s h.2.2⟩

theorem widenWith_sound {w1 : D1.B → D1.B → D1.B} {w2 : D2.B → D2.B → D2.B} (h1 : D1.USound w1)
    (h2 : D2.USound w2) {p q : Prod2 D1 D2} {s : S} (h : p.γ s ∨ q.γ s) : (widenWith w1 w2 p q).γ s := by
  unfold widenWith
  rw [γ_mk']
  rcases h with h | h
  · exact ⟨h1 _ _ s (Or.inl h.2.1), h2 _ _ s (Or.inl h.2.2)⟩
  · exact ⟨h1 _ _ s (Or.inr h.2.1), h2 _ _ s (Or.inr h.2.2)⟩

/-! ### lower bounds -/

theorem meet_sound {p q : Prod2 D1 D2} {s : S} (hp : p.γ s) (hq : q.γ s) : (meet p q).γ s := by
  unfold meet
  split
  · exact hp
  · split
    · exact hq
    · rw [γ_mk']; exact ⟨D1.meet_sound _ _ s hp.2.1 hq.2.1, D2.meet_sound _ _ s hp.2.2 hq.2.2⟩

theorem narrow_sound {p q : Prod2 D1 D2} {s : S} (hp : p.γ s) (hq : q.γ s) : (narrow p q).γ s := by
  unfold narrow
  split
  · exact hp
  · split
    · exact hq
    · rw [γ_mk']; exact ⟨D1.narrow_sound _ _ s hp.2.1 hq.2.1, D2.narrow_sound _ _ s hp.2.2 hq.2.2⟩

theorem meetEq_sound {p q : Prod2 D1 D2} {s : S} (hp : p.γ s) (hq : q.γ s) : (meetEq p q).γ s := by
  unfold meetEq
  split
  · exact hp
  · split
    · exact hq
    · exact ⟨hp.1, D1.meet_sound _ _ s hp.2.1 hq.2.1, D2.meet_sound _ _ s hp.2.2 hq.2.2⟩

end Prod2
end Fct
end Dom
end Crab
