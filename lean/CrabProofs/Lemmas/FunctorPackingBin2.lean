import CrabProofs.Lemmas.FunctorPackingBin

/-!
Binary operations of the packing domain, semantic part.  `GoodQ Q s p`: the class `p` lies inside
a class `q` of the reference partition `Q` and its value accepts every state that agrees with `s`
on `q`.  Merges inside the classes of `Q` keep goodness; when the final partition is aligned with
`Q` (it is: `mergeAll_finest`), goodness is membership in `γc`.
-/
namespace Crab
namespace Dom
namespace Fct

variable {V : Type} [DecidableEq V]

namespace PK
variable {N : NDom V}

def GoodQ (Q : List (Pack N)) (s : St V) (p : Pack N) : Prop :=
  ∃ q ∈ Q, Sub p q ∧ ∀ t, agree q.vars s t → N.γ p.val t

theorem GoodQ.γ_self {Q : List (Pack N)} {s : St V} {p : Pack N} (h : GoodQ Q s p) : N.γ p.val s := by
  obtain ⟨q, _, _, hv⟩ := h
  exact hv s (agree_refl _ _)

theorem agree_of_sub {p q : Pack N} (h : Sub p q) {s t : St V} (ht : agree q.vars s t) : agree p.vars s t :=
  fun v hv => ht v (h v hv)

/-- a class of `γc` that lies inside a class of `Q` is good -/
theorem goodQ_of_γc {Q : List (Pack N)} {s : St V} {p : Pack N} (h : Pack.γc p s) (hq : ∃ q ∈ Q, Sub p q) :
    GoodQ Q s p := by
  obtain ⟨q, hq, hs⟩ := hq
  exact ⟨q, hq, hs, fun t ht => h t (agree_of_sub hs ht)⟩

theorem coarser_of_good {Q l : List (Pack N)} {s : St V} (h : ∀ p ∈ l, GoodQ Q s p) : Coarser Q l :=
  fun p hp => by obtain ⟨q, hq, hs, _⟩ := h p hp; exact ⟨q, hq, hs⟩

/-- merging good classes inside one class of `Q` gives a good class -/
theorem merge_good {fresh : N.B} {l : List (Pack N)} {vars : List V} {acc : Pack N} {r : List (Pack N)}
    (hm : merge fresh l vars = some (acc, r)) {Q : List (Pack N)} (hQ : WFl Q) (hl : WFl l) {s : St V}
    (hall : ∀ p ∈ l, GoodQ Q s p) {q : Pack N} (hq : q ∈ Q) (hv : ∀ v ∈ vars, v ∈ q.vars)
    (hfresh : ∀ t, agree q.vars s t → N.γ fresh t) :
    Sub acc q ∧ ∀ t, agree q.vars s t → N.γ acc.val t := by
  have sp := merge_spec hm
  have hsub : Sub acc q := merge_within hm hQ (coarser_of_good hall) hq hv
  refine ⟨hsub, ?_⟩
  intro t ht
  apply sp.val_sound t (hfresh t ht)
  intro p hp hpa
  obtain ⟨qp, hqp, hs, hval⟩ := hall p hp
  have : qp = q := sub_unique hQ (hl.2 p hp) hqp hq hs (fun v hv => hsub v (hpa v hv))
  subst this
  exact hval t ht

/-- `mergeAll` keeps `γc` when the values given to new classes are those of classes of `γc` -/
theorem mergeAll_γc (fresh : Pack N → N.B) {s : St V} : ∀ (cs l l2 : List (Pack N)),
    mergeAll fresh cs l = some l2 → (∀ p ∈ l, Pack.γc p s) →
    (∀ c ∈ cs, ∀ t, agree c.vars s t → N.γ (fresh c) t) → ∀ q ∈ l2, Pack.γc q s
  | [], l, l2, h, hl, _ => by
    simp only [mergeAll, Option.some.injEq] at h; subst h; exact hl
  | c :: cs, l, l2, h, hl, hcs => by
    simp only [mergeAll] at h
    split at h
    · simp at h
    · rename_i acc r hm
      have sp := merge_spec hm
      apply mergeAll_γc fresh cs (acc :: r) l2 h _ (fun c' hc' => hcs c' (List.mem_cons_of_mem _ hc'))
      intro p hp
      rcases List.mem_cons.1 hp with rfl | hp
      · intro t ht
        apply sp.val_sound t (hcs c List.mem_cons_self t (fun v hv => ht v (sp.vars_sub v hv)))
        intro p' hp' hsub
        exact hl p' hp' t (fun v hv => ht v (hsub v hv))
      · exact hl p (sp.rest_sub p hp)

theorem mergeAll_isSome (fresh : Pack N → N.B) {s : St V} : ∀ (cs l : List (Pack N)),
    (∀ c ∈ cs, c.vars ≠ [] ∧ N.γ (fresh c) s) → (∀ p ∈ l, N.γ p.val s) → ∃ l2, mergeAll fresh cs l = some l2
  | [], l, _, _ => ⟨l, rfl⟩
  | c :: cs, l, hcs, hl => by
    have hc := hcs c List.mem_cons_self
    obtain ⟨⟨acc, r⟩, hm⟩ := merge_isSome (fresh := fresh c) hc.1 hc.2 hl
    simp only [mergeAll, hm]
    have sp := merge_spec hm
    apply mergeAll_isSome fresh cs (acc :: r) (fun c' hc' => hcs c' (List.mem_cons_of_mem _ hc'))
    intro p hp
    rcases List.mem_cons.1 hp with rfl | hp
    · exact sp.val_sound s hc.2 (fun p' hp' _ => hl p' hp')
    · exact hl p (sp.rest_sub p hp)

/-- the loop of `join_or_widening` / `meet_or_narrowing` on good classes: no bottom, no error
    branch taken for a wrong reason, all classes of the result good -/
theorem combineLoop_good (g : N.B → N.B → N.B) (uf cb : Bool) {Q : List (Pack N)} (hQ : WFl Q) {s : St V}
    (hfr : uf = true → ∀ q ∈ Q, ∀ t, agree q.vars s t → N.γ q.val t)
    (hg : ∀ (a : N.B) (q : Pack N), q ∈ Q → ∀ t, agree q.vars s t → N.γ a t → N.γ (g a q.val) t) :
    ∀ (Rs left : List (Pack N)) (res : PK N), (∀ R ∈ Rs, ∃ q ∈ Q, Sub R q) → WFl left →
      (∀ p ∈ left, GoodQ Q s p) → combineLoop g uf cb Q Rs left = some res →
      ∃ Z, res = .packs Z ∧ ∀ p ∈ Z, GoodQ Q s p
  | [], left, res, _, _, hall, h => by
    simp only [combineLoop, Option.some.injEq] at h; subst h; exact ⟨left, rfl, hall⟩
  | R :: Rs, left, res, hRs, hleft, hall, h => by
    simp only [combineLoop] at h
    split at h
    · simp at h
    · rename_i v vs hRv
      split at h
      · simp at h
      · rename_i q hpq
        have hq := packOf_some hpq
        have hRq : Sub R q := by
          obtain ⟨q', hq', hs⟩ := hRs R List.mem_cons_self
          have : q' = q := wfl_unique hQ hq' hq.1 (hs v (by rw [hRv]; exact List.mem_cons_self)) hq.2
          rw [← this]; exact hs
        have hfresh : ∀ t, agree q.vars s t → N.γ (if uf = true then q.val else N.top) t := by
          intro t ht
          split
          · rename_i hu; exact hfr hu q hq.1 t ht
          · exact N.top_sound t
        have hsome : ∃ res', merge (if uf = true then q.val else N.top) left R.vars = some res' :=
          merge_isSome (by rw [hRv]; simp) (hfresh s (agree_refl _ _)) (fun p hp => (hall p hp).γ_self)
        split at h
        · rename_i hnone
          obtain ⟨res', hres'⟩ := hsome
          rw [hnone] at hres'; simp at hres'
        · rename_i acc r hm
          have sp := merge_spec hm
          have hgood := merge_good hm hQ hleft hall hq.1 hRq hfresh
          have hm_good : ∀ t, agree q.vars s t → N.γ (g acc.val q.val) t :=
            fun t ht => hg acc.val q hq.1 t ht (hgood.2 t ht)
          have hnb : N.isBot (g acc.val q.val) = false := N.isBot_false_of_γ (hm_good s (agree_refl _ _))
          simp only [hnb, Bool.and_false, Bool.false_eq_true, if_false] at h
          apply combineLoop_good g uf cb hQ hfr hg Rs _ res (fun R' hR' => hRs R' (List.mem_cons_of_mem _ hR')) _ _ h
          · have := sp.wfl hleft
            rw [wfl_cons] at this
            rw [wfl_cons]; exact this
          · intro p hp
            rcases List.mem_cons.1 hp with rfl | hp
            · exact ⟨q, hq.1, hgood.1, hm_good⟩
            · exact hall p (sp.rest_sub p hp)

/-- the loop of `join_or_widening` seen from a state of the RIGHT operand: a class of the result is
    good, or it is an old class of the left operand that shares no variable with the processed
    classes of the right operand -/
theorem combineLoop_right (g : N.B → N.B → N.B) {Q : List (Pack N)} (hQ : WFl Q) {s : St V}
    (hQs : ∀ q ∈ Q, Pack.γc q s) (hg : ∀ a b t, N.γ b t → N.γ (g a b) t) :
    ∀ (Rs left Z : List (Pack N)), (∀ R ∈ Rs, ∃ q ∈ Q, Sub R q) → WFl left → Coarser Q left →
      combineLoop g false false Q Rs left = some (.packs Z) →
      ∀ p ∈ Z, GoodQ Q s p ∨ (p ∈ left ∧ ∀ R ∈ Rs, ∀ v ∈ R.vars, v ∉ p.vars)
  | [], left, Z, _, _, _, h => by
    simp only [combineLoop, Option.some.injEq, PK.packs.injEq] at h; subst h
    exact fun p hp => Or.inr ⟨hp, fun R hR => by simp at hR⟩
  | R :: Rs, left, Z, hRs, hleft, hco, h => by
    simp only [combineLoop] at h
    split at h
    · simp at h
    · rename_i v vs hRv
      split at h
      · simp at h
      · rename_i q hpq
        have hq := packOf_some hpq
        have hRq : Sub R q := by
          obtain ⟨q', hq', hs⟩ := hRs R List.mem_cons_self
          have : q' = q := wfl_unique hQ hq' hq.1 (hs v (by rw [hRv]; exact List.mem_cons_self)) hq.2
          rw [← this]; exact hs
        split at h
        · simp at h
        · rename_i acc r hm
          have sp := merge_spec hm
          have hsub : Sub acc q := merge_within hm hQ hco hq.1 hRq
          simp only [Bool.false_and, Bool.false_eq_true, if_false] at h
          have hw' := sp.wfl hleft
          rw [wfl_cons] at hw'
          have ih := combineLoop_right g hQ hQs hg Rs _ Z (fun R' hR' => hRs R' (List.mem_cons_of_mem _ hR'))
            (by rw [wfl_cons]; exact hw')
            (by
              intro p hp
              rcases List.mem_cons.1 hp with rfl | hp
              · exact ⟨q, hq.1, hsub⟩
              · exact hco p (sp.rest_sub p hp)) h
          intro p hp
          rcases ih p hp with hgd | ⟨hmem, hun⟩
          · exact Or.inl hgd
          · rcases List.mem_cons.1 hmem with rfl | hmem
            · exact Or.inl ⟨q, hq.1, hsub, fun t ht => hg _ _ t (hQs q hq.1 t ht)⟩
            · refine Or.inr ⟨sp.rest_sub p hmem, ?_⟩
              intro R' hR' w hw
              rcases List.mem_cons.1 hR' with rfl | hR'
              · exact hw'.1 p hmem w (sp.vars_sub w hw)
              · exact hun R' hR' w hw

/-- good classes of a partition that is aligned with the reference partition are in `γc` -/
theorem γc_of_good {Q Z : List (Pack N)} (hZ : WFl Z) (hal : Coarser Z Q) {s : St V} {p : Pack N} (hp : p ∈ Z)
    (h : GoodQ Q s p) : Pack.γc p s := by
  obtain ⟨q, hq, hs, hval⟩ := h
  obtain ⟨z, hz, hqz⟩ := hal q hq
  have : p = z := sub_unique hZ (hZ.2 p hp) hp hz (Sub.refl p) (Sub.trans hs hqz)
  subst this
  exact fun t ht => hval t (agree_of_sub hqz ht)

end PK
end Fct
end Dom
end Crab
