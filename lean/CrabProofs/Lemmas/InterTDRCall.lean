import CrabProofs.Lemmas.InterTDRInv

/-!
  C09, whole top-down analysis — `analyze_callee` (`callBody`) keeps the invariant `StOK`, its
  continuation is sound for the true call relation and the frame created by the call is covered.
-/
namespace Crab.Inter
open Crab.Fix (upd)
variable {p : IProg} {D : IDom} {P : TDParams}

theorem trueCR_facts (hP : ProgOK p) (hmain : p.main < p.funs.size) {h : Nat} {iv ov : List Int}
    (ht : TrueCR p h iv ov) : h < p.funs.size ∧ ov.length = (p.fn h).outs.length := by
  obtain ⟨ch, c, hr, hmem⟩ := ht
  obtain ⟨h1, _, hcov⟩ := (inv_reach hP hmain ch c hr).recs _ hmem
  obtain ⟨env, _, hout, _, _⟩ := hcov trivial
  refine ⟨h1, ?_⟩
  have : ov = (p.fn h).outs.map (fun o => env.getD o 0) := hout
  rw [this]; simp

/-- the wiring hypotheses at one call site -/
def WireOK (p : IProg) (h : Nat) (lhs args : List Var) : Prop :=
  SeqOK (p.fn h).ins args ∧ CallOK (p.fn h).ins (p.fn h).outs lhs args

theorem upd_same' {α : Type} (f : Nat → α) (k : Nat) (v : α) : upd f k v k = v := by simp [upd]
theorem upd_other' {α : Type} (f : Nat → α) (k : Nat) (v : α) {i : Nat} (h : i ≠ k) : upd f k v i = f i := by
  simp [upd, h]

/-- only the call stack changes -/
theorem StOK.restack {s : TDSt D} (h : StOK D p P s) (stk : List Nat)
    (hcov : ∀ x env, Covd D P s x env → Covd D P { s with stack := stk } x env)
    (hnd : stk.Nodup) (hpaths : ∃ k, pathsOK p P.wset k stk = true) :
    StOK D p P { s with stack := stk } :=
  { nofix := h.nofix, ctxs := h.ctxs, runs := h.runs, glob := h.glob,
    cov := fun ρ hρ b x hx k env hh lhs args h1 h2 h3 env' h4 h5 =>
      hcov _ _ (h.cov ρ hρ b x hx k env hh lhs args h1 h2 h3 env' h4 h5),
    nodup := hnd, paths := hpaths }

/-- only the contexts of one function change -/
theorem StOK.setCC {s : TDSt D} (h : StOK D p P s) (g : Nat) (l : List (FCtx D.toLat))
    (hl : ∀ c, c ∈ l → CtxOK D p s g c) : StOK D p P { s with cc := upd s.cc g l } :=
  { nofix := h.nofix,
    ctxs := by
      intro x c hc
      by_cases hx : x = g
      · subst hx
        rw [show ({ s with cc := upd s.cc x l } : TDSt D).cc x = l from upd_same' _ _ _] at hc
        exact hl c hc
      · rw [show ({ s with cc := upd s.cc g l } : TDSt D).cc x = s.cc x from upd_other' _ _ _ hx] at hc
        exact h.ctxs x c hc,
    runs := h.runs, glob := h.glob, cov := h.cov, nodup := h.nodup, paths := h.paths }

theorem isCalled_of_callee {g h : Nat} (hg : g < p.funs.size) (hc : h ∈ (p.fn g).callees) :
    p.isCalled h = true := by
  unfold IProg.isCalled
  rw [List.any_eq_true]
  refine ⟨g, List.mem_range.mpr hg, ?_⟩
  unfold IFun.callsFn
  simpa using hc

theorem pathsOK_head {W : List Nat} {k g : Nat} {stk : List Nat} (h : pathsOK p W k (g :: stk) = true)
    {x : Nat} (hx : x ∈ (p.fn g).callees) :
    ((g :: stk).contains x = true → W.contains x = true) ∧
    ((g :: stk).contains x = false → ∃ k', pathsOK p W k' (x :: g :: stk) = true) := by
  cases k with
  | zero => simp [pathsOK] at h
  | succ k =>
    simp only [pathsOK, List.all_eq_true] at h
    have := h x hx
    constructor
    · intro hc; rw [if_pos hc] at this; exact this
    · intro hc
      rw [if_neg (by rw [hc]; simp)] at this
      exact ⟨k, this⟩

theorem exitIn_top (D : IDom) (p : IProg) (h : Nat) (iv ov : List Int) :
    ExitIn D p h (D.project D.top ((p.fn h).ins ++ (p.fn h).outs)) iv ov :=
  fun _ _ _ _ σ _ => D.project_sound _ (D.top_sound σ) (fun _ _ => rfl)

theorem simpleRec_cases (h : P.simpleRec = true) : P.recursive = false ∨ P.wset = [] := by
  simp only [TDParams.simpleRec, Bool.or_eq_true, Bool.not_eq_true', List.isEmpty_iff] at h
  exact h

theorem callMiss_ok (hP : ProgOK p) (hmain : p.main < p.funs.size) (hmode : P.simpleRec = true)
    {rec : AF D} (hrec : AFOK D p P rec) {g h : Nat} {lhs args : List Var} (hg : g < p.funs.size)
    (hS : StmtOK p (p.fn g) (.call h lhs args)) (hW : WireOK p h lhs args) (hcal : h ∈ (p.fn g).callees)
    {a d r : D.A} {rean : Bool} {s s' : TDSt D} (hI : StOK D p P s) (hhd : s.stack.head? = some g)
    (hcall : callMiss D p P rec h lhs args a d rean s = some (r, s'))
    (hd : ∀ env : Env, env.size = p.nv → EnvIn D.toAbsDom a env →
      EntryIn D p h d (args.map (fun x => env.getD x 0)))
    (hWtop : P.wset.contains h = true → ∀ env', EnvIn D.toAbsDom d env') :
    StOK D p P s' ∧ LeSt D s s' ∧ ∀ env : Env, env.size = p.nv → EnvIn D.toAbsDom a env →
      (∀ ov, TrueCR p h (args.map (fun x => env.getD x 0)) ov → EnvIn D.toAbsDom r (setMany env lhs ov)) ∧
      (∀ env' : Env, env'.size = p.nv → MatchVals (p.fn h).ins (args.map (fun x => env.getD x 0)) (toSt env') →
        Covd D P s' h env') := by
  obtain ⟨hhlt, hlnd, hll, hla⟩ := hS.2.2
  have hFh := hP h hhlt
  have hvars := callArgs_lt hS
  obtain ⟨stk, hstk⟩ : ∃ stk, s.stack = g :: stk := by
    cases hs : s.stack with
    | nil => rw [hs] at hhd; cases hhd
    | cons x stk => rw [hs] at hhd; simp at hhd; exact ⟨stk, by rw [hhd]⟩
  obtain ⟨k, hk⟩ := hI.paths
  rw [hstk] at hk
  have hph := pathsOK_head hk hcal
  -- soundness of the continuation from a valid exit description
  have hcont : ∀ (post : D.A) (env : Env), env.size = p.nv → EnvIn D.toAbsDom a env →
      (∀ ov, TrueCR p h (args.map (fun x => env.getD x 0)) ov →
        ExitIn D p h post (args.map (fun x => env.getD x 0)) ov) →
      ∀ ov, TrueCR p h (args.map (fun x => env.getD x 0)) ov →
        EnvIn D.toAbsDom (extend D.toAbsDom (p.fn h).ins (p.fn h).outs lhs args a post) (setMany env lhs ov) := by
    intro post env hsz ha hx ov ht
    exact extend_envIn D h lhs args a post env ov hFh hW.2 hsz hvars.1 hvars.2
      (trueCR_facts hP hmain ht).2 ha (hx ov ht)
  unfold callMiss at hcall
  have hfix : s.fix h = none := by rw [hI.nofix]
  simp only [hfix] at hcall
  by_cases hon : s.stack.contains h = true
  · -- 4.b
    simp only [hon, if_true, Option.some.injEq, Prod.mk.injEq] at hcall
    obtain ⟨e1, e2⟩ := hcall
    subst e1; subst e2
    refine ⟨hI, LeSt.refl _, fun env hsz ha => ⟨?_, ?_⟩⟩
    · exact hcont _ env hsz ha (fun ov _ => exitIn_top D p h _ ov)
    · intro env' _ _
      refine Or.inr ⟨hph.1 (by rw [← hstk]; exact hon), ?_⟩
      simpa using hon
  · -- 4.c
    have hon' : s.stack.contains h = false := by simpa using hon
    simp only [hon', Bool.false_eq_true, if_false] at hcall
    cases hr : rec h d 0 { s with stack := h :: s.stack } with
    | none => rw [hr] at hcall; cases hcall
    | some res =>
      obtain ⟨nn, st, s2⟩ := res
      rw [hr] at hcall
      have hnotin : h ∉ s.stack := by simpa using hon'
      have hI1 : StOK D p P { s with stack := h :: s.stack } := by
        apply hI.restack
        · intro x env hc
          rcases hc with hc | ⟨h1, h2⟩
          · exact Or.inl hc
          · exact Or.inr ⟨h1, List.mem_cons_of_mem _ h2⟩
        · exact List.nodup_cons.mpr ⟨hnotin, hI.nodup⟩
        · rw [hstk]; exact hph.2 (by rw [← hstk]; exact hon')
      obtain ⟨hI2, hLe2, hnn, hrun⟩ := hrec h d 0 _ nn st s2 hI1 rfl hhlt hr
      subst hnn
      have hstk2 : s2.stack = h :: s.stack := hLe2.1
      -- the recorded run and its summary
      have hρs := (hI2.runs _ hrun).2
      have hfact := run_fact_valid hP hmain D ⟨h, d, st.pre, st.post⟩ hhlt hρs
      -- pop
      have hI3 : StOK D p P { s2 with stack := s2.stack.tail } := by
        apply hI2.restack
        · intro x env hc
          rcases hc with hc | ⟨h1, h2⟩
          · exact Or.inl hc
          · rw [hstk2] at h2
            rcases List.mem_cons.mp h2 with rfl | h2'
            · exact Or.inl ⟨_, hrun, rfl, hWtop h1 env⟩
            · exact Or.inr ⟨h1, by rw [hstk2]; exact h2'⟩
        · rw [hstk2]; exact hI.nodup
        · rw [hstk2, List.tail_cons, hstk]; exact ⟨k, hk⟩
      have hstab : stabilized D P { s2 with stack := s2.stack.tail } h = true := by
        unfold stabilized
        rcases simpleRec_cases hmode with hm | hm
        · simp [hm]
        · simp [hI2.nofix]
      have hd' : (if (true && (P.recursive && P.wset.contains h)) = true then st.pre 0 else d) = d := by
        rcases simpleRec_cases hmode with hm | hm
        · simp [hm]
        · simp [hm]
      simp only [Bool.true_and, hstab, if_true] at hcall
      simp only [Bool.true_and] at hd'
      rw [hd'] at hcall
      simp only [Option.some.injEq, Prod.mk.injEq] at hcall
      obtain ⟨e1, e2⟩ := hcall
      subst e1; subst e2
      have hLe : LeSt D s (addCtx D P { s2 with stack := s2.stack.tail } h
          ⟨d, D.project (st.post (p.fn h).exit) ((p.fn h).ins ++ (p.fn h).outs), !rean, false⟩) := by
        refine ⟨?_, ?_⟩
        · show s2.stack.tail = s.stack
          rw [hstk2]; rfl
        · exact hLe2.2
      refine ⟨?_, hLe, fun env hsz ha => ⟨?_, ?_⟩⟩
      · unfold addCtx
        apply hI3.setCC
        intro c hc
        rcases policyAddFixed_mem _ _ _ c hc with h1 | h1 | h1
        · exact hI3.ctxs h c h1
        · subst h1
          exact ⟨isCalled_of_callee hg hcal, fun _ => ⟨hfact, _, hrun, rfl, SubG.refl D d⟩⟩
        · exact ⟨isCalled_of_callee hg hcal, fun h2 => by rw [h1] at h2; cases h2⟩
      · refine hcont _ env hsz ha (fun ov ht => ?_)
        exact hfact _ ov ht (by simp [hla]) (trueCR_facts hP hmain ht).2 (hd env hsz ha)
      · intro env' hsz' hm
        exact Or.inl ⟨_, hrun, rfl, hd env hsz ha env' hsz' hm⟩

theorem EntryIn.leq {D : IDom} {h : Nat} {a b : D.A} {iv : List Int} (hle : D.leq a b = true)
    (ha : EntryIn D p h a iv) : EntryIn D p h b iv :=
  fun env hsz hm σ hσ => D.leq_sound hle (ha env hsz hm σ hσ)

theorem callBody_ok (hP : ProgOK p) (hmain : p.main < p.funs.size) (hmode : P.simpleRec = true)
    {rec : AF D} (hrec : AFOK D p P rec) {g h : Nat} {lhs args : List Var} (hg : g < p.funs.size)
    (hS : StmtOK p (p.fn g) (.call h lhs args)) (hW : WireOK p h lhs args) (hcal : h ∈ (p.fn g).callees)
    {a r : D.A} {s s' : TDSt D} (hI : StOK D p P s) (hhd : s.stack.head? = some g)
    (hcall : callBody D p P rec h lhs args a s = some (r, s')) :
    StOK D p P s' ∧ LeSt D s s' ∧ ∀ env : Env, env.size = p.nv → EnvIn D.toAbsDom a env →
      (∀ ov, TrueCR p h (args.map (fun x => env.getD x 0)) ov → EnvIn D.toAbsDom r (setMany env lhs ov)) ∧
      (∀ env' : Env, env'.size = p.nv → MatchVals (p.fn h).ins (args.map (fun x => env.getD x 0)) (toSt env') →
        Covd D P s' h env') := by
  obtain ⟨hhlt, hlnd, hll, hla⟩ := hS.2.2
  have hFh := hP h hhlt
  have hvars := callArgs_lt hS
  unfold callBody at hcall
  simp only at hcall
  -- the value the callee is entered with
  generalize hd0 : (if (P.recursive || !P.wset.contains h) = true
      then restrict D.toAbsDom (p.fn h).ins args a D.top else D.top) = d0 at hcall
  have hentry : ∀ env : Env, env.size = p.nv → EnvIn D.toAbsDom a env →
      EntryIn D p h d0 (args.map (fun x => env.getD x 0)) := by
    intro env hsz ha
    rw [← hd0]
    by_cases hcnd : (P.recursive || !P.wset.contains h) = true
    · rw [if_pos hcnd]
      exact restrict_entryIn D h args a env hFh hW.1 hla.symm ha
    · rw [if_neg hcnd]
      exact fun env' _ _ => envIn_top D env'
  have htop : P.wset.contains h = true → ∀ env', EnvIn D.toAbsDom d0 env' := by
    intro hc env'
    rcases simpleRec_cases hmode with hm | hm
    · rw [← hd0]; simp only [hm, hc, Bool.not_true, Bool.or_false, Bool.false_eq_true, if_false]
      exact envIn_top D env'
    · rw [hm] at hc; simp at hc
  cases hsc : scanCtx D (s.cc h) d0 (!(P.recursive && P.wset.contains h) && P.exactReuse) with
  | hit post =>
    rw [hsc] at hcall
    simp only [Option.some.injEq, Prod.mk.injEq] at hcall
    obtain ⟨e1, e2⟩ := hcall
    subst e1; subst e2
    obtain ⟨c, hc, hst, hpost, hle⟩ := scan_hit D _ _ _ _ hsc
    obtain ⟨hfact, ρ, hρ, hρf, hsub⟩ := (hI.ctxs h c hc).2 hst
    refine ⟨hI, LeSt.refl _, fun env hsz ha => ⟨?_, ?_⟩⟩
    · intro ov ht
      apply extend_envIn D h lhs args a post env ov hFh hW.2 hsz hvars.1 hvars.2 (trueCR_facts hP hmain ht).2 ha
      rw [← hpost]
      exact hfact _ ov ht (by simp [hla]) (trueCR_facts hP hmain ht).2 ((hentry env hsz ha).leq hle)
    · intro env' hsz' hm
      exact Or.inl ⟨ρ, hρ, hρf, hsub.envIn (((hentry env hsz ha).leq hle) env' hsz' hm)⟩
  | reanalyze en rest =>
    rw [hsc] at hcall
    simp only at hcall
    obtain ⟨hle, hsubl⟩ := scan_rean D _ _ _ _ _ hsc
    have hI1 : StOK D p P { s with cc := upd s.cc h rest } :=
      hI.setCC h rest (fun c hc => hI.ctxs h c (hsubl c hc))
    obtain ⟨k1, k2, k3⟩ := callMiss_ok hP hmain hmode hrec hg hS hW hcal hI1 hhd hcall
      (fun env hsz ha => (hentry env hsz ha).leq hle)
      (fun hc env' σ hσ => D.leq_sound hle (htop hc env' σ hσ))
    exact ⟨k1, ⟨k2.1, k2.2⟩, k3⟩
  | miss =>
    rw [hsc] at hcall
    simp only at hcall
    exact callMiss_ok hP hmain hmode hrec hg hS hW hcal hI hhd hcall hentry htop

end Crab.Inter
