import CrabModel.Fix.Semantics

/-!
# Structural facts about weak topological orderings used by the soundness proof (C01)

* `member` is membership in `nodes`;
* heads of the components containing a block are blocks of the component;
* `ListOK c w` : the only consequence of `WtoWF.edge` the soundness proof needs — inside every
  list of sibling components (top level, and every cycle body, recursively) there is no edge
  from a later sibling into an earlier one — and its derivation from `WtoWF`.
-/
namespace Crab
namespace Fix
namespace Sound

variable {A : Type}

mutual
theorem Comp.member_iff (e : Nat) : ∀ x : Comp, x.member e = true ↔ e ∈ x.nodes
  | .vertex v => by
      simp only [Comp.member, Comp.nodes, beq_iff_eq, List.mem_singleton]
      exact eq_comm
  | .cycle h b => by
      have := memberList_iff e b
      simp only [Comp.member, Comp.nodes, Bool.or_eq_true, beq_iff_eq, List.mem_cons, this]
      constructor
      · intro h'; rcases h' with h' | h'
        · exact Or.inl h'.symm
        · exact Or.inr h'
      · intro h'; rcases h' with h' | h'
        · exact Or.inl h'.symm
        · exact Or.inr h'
theorem memberList_iff (e : Nat) : ∀ xs : List Comp, memberList e xs = true ↔ e ∈ nodesList xs
  | [] => by simp [memberList, nodesList]
  | x :: xs => by
      have h1 := Comp.member_iff e x
      have h2 := memberList_iff e xs
      simp [memberList, nodesList, h1, h2]
end

mutual
theorem Comp.headsOf_sub (p n : Nat) : ∀ x : Comp, n ∈ x.headsOf p → n ∈ x.nodes ∧ p ∈ x.nodes
  | .vertex v => by simp [Comp.headsOf]
  | .cycle h b => by
      intro hn
      have ih := headsOfList_sub p n b
      have hm := memberList_iff p b
      simp only [Comp.headsOf] at hn
      split at hn
      · rename_i hc
        have hp : p ∈ (Comp.cycle h b).nodes := by
          simp only [Comp.nodes, List.mem_cons]
          simp only [Bool.or_eq_true, beq_iff_eq] at hc
          rcases hc with hc | hc
          · exact Or.inl hc.symm
          · exact Or.inr (hm.1 hc)
        simp only [List.mem_cons] at hn
        rcases hn with hn | hn
        · exact ⟨by simp [Comp.nodes, hn], hp⟩
        · exact ⟨by simp [Comp.nodes, (ih hn).1], hp⟩
      · simp at hn
theorem headsOfList_sub (p n : Nat) : ∀ xs : List Comp,
    n ∈ headsOfList p xs → n ∈ nodesList xs ∧ p ∈ nodesList xs
  | [] => by simp [headsOfList]
  | x :: xs => by
      intro hn
      have h1 := Comp.headsOf_sub p n x
      have h2 := headsOfList_sub p n xs
      simp only [headsOfList, List.mem_append] at hn
      simp only [nodesList, List.mem_append]
      rcases hn with hn | hn
      · exact ⟨Or.inl (h1 hn).1, Or.inl (h1 hn).2⟩
      · exact ⟨Or.inr (h2 hn).1, Or.inr (h2 hn).2⟩
end

mutual
/-- no edge from a later sibling into an earlier one, recursively in every body, and no
    self-loop on a block that is a plain vertex of the ordering -/
def CompOK (c : Ctx A) : Comp → Prop
  | .vertex v => v ∉ c.preds v
  | .cycle _ body => ListOK c body
def ListOK (c : Ctx A) : List Comp → Prop
  | [] => True
  | x :: xs => CompOK c x ∧ ListOK c xs ∧
      ∀ p n, p ∈ c.preds n → n ∈ x.nodes → p ∈ nodesList xs → False
end

/-- the part of `WtoWF` that is local to a list of sibling components -/
def LWF (c : Ctx A) (xs : List Comp) : Prop :=
  (nodesList xs).Nodup ∧
  ∀ p n, p ∈ c.preds n → p ∈ nodesList xs → n ∈ nodesList xs →
    (nodesList xs).idxOf p < (nodesList xs).idxOf n ∨ n ∈ headsOfList p xs

theorem LWF.tail {c : Ctx A} {x : Comp} {xs : List Comp} (h : LWF c (x :: xs)) : LWF c xs := by
  obtain ⟨hnd, he⟩ := h
  simp only [nodesList] at hnd he
  have hnd' := List.nodup_append.1 hnd
  refine ⟨hnd'.2.1, ?_⟩
  intro p n hpn hp hn
  have hpx : p ∉ x.nodes := fun h' => hnd'.2.2 p h' p hp rfl
  have hnx : n ∉ x.nodes := fun h' => hnd'.2.2 n h' n hn rfl
  have := he p n hpn (List.mem_append.2 (Or.inr hp)) (List.mem_append.2 (Or.inr hn))
  rw [List.idxOf_append, List.idxOf_append] at this
  simp only [hpx, hnx, if_false] at this
  rcases this with h1 | h1
  · left; omega
  · right
    simp only [headsOfList, List.mem_append] at h1
    rcases h1 with h1 | h1
    · exact absurd (Comp.headsOf_sub p n x h1).1 hnx
    · exact h1

theorem LWF.no_back {c : Ctx A} {x : Comp} {xs : List Comp} (h : LWF c (x :: xs)) :
    ∀ p n, p ∈ c.preds n → n ∈ x.nodes → p ∈ nodesList xs → False := by
  obtain ⟨hnd, he⟩ := h
  simp only [nodesList] at hnd he
  have hnd' := List.nodup_append.1 hnd
  intro p n hpn hn hp
  have hpx : p ∉ x.nodes := fun h' => hnd'.2.2 p h' p hp rfl
  have hnx : n ∉ nodesList xs := fun h' => hnd'.2.2 n hn n h' rfl
  have := he p n hpn (List.mem_append.2 (Or.inr hp)) (List.mem_append.2 (Or.inl hn))
  rw [List.idxOf_append, List.idxOf_append] at this
  simp only [hpx, hn, if_false, if_true] at this
  rcases this with h1 | h1
  · have := List.idxOf_lt_length_of_mem hn
    omega
  · simp only [headsOfList, List.mem_append] at h1
    rcases h1 with h1 | h1
    · exact hpx (Comp.headsOf_sub p n x h1).2
    · exact hnx (headsOfList_sub p n xs h1).1

theorem LWF.no_self {c : Ctx A} {v : Nat} {xs : List Comp} (h : LWF c (Comp.vertex v :: xs)) :
    v ∉ c.preds v := by
  obtain ⟨hnd, he⟩ := h
  simp only [nodesList, Comp.nodes] at hnd he
  have hnd1 := List.nodup_cons.1 hnd
  intro hv
  have := he v v hv (by simp) (by simp)
  rcases this with h1 | h1
  · omega
  · simp only [headsOfList, Comp.headsOf, List.nil_append] at h1
    exact hnd1.1 (by simpa using (headsOfList_sub v v xs h1).1)

theorem LWF.body {c : Ctx A} {h : Nat} {b xs : List Comp} (hw : LWF c (Comp.cycle h b :: xs)) :
    LWF c b := by
  obtain ⟨hnd, he⟩ := hw
  simp only [nodesList, Comp.nodes] at hnd he
  have hnd1 := List.nodup_cons.1 hnd
  have hnd' := List.nodup_append.1 hnd1.2
  refine ⟨hnd'.1, ?_⟩
  intro p n hpn hp hn
  have hph : p ≠ h := fun e => hnd1.1 (by simp [← e, hp])
  have hnh : n ≠ h := fun e => hnd1.1 (by simp [← e, hn])
  have hnx : n ∉ nodesList xs := fun h' => hnd'.2.2 n hn n h' rfl
  have := he p n hpn (by simp [hp]) (by simp [hn])
  simp only [List.cons_append, List.idxOf_cons, List.idxOf_append] at this
  have e1 : (h == p) = false := by simp [Ne.symm hph]
  have e2 : (h == n) = false := by simp [Ne.symm hnh]
  simp only [hp, hn, if_true, e1, e2, cond_false] at this
  rcases this with h1 | h1
  · left; omega
  · right
    simp only [headsOfList, Comp.headsOf, List.mem_append] at h1
    rcases h1 with h1 | h1
    · split at h1
      · simp only [List.mem_cons] at h1
        rcases h1 with h1 | h1
        · exact absurd h1 hnh
        · exact h1
      · simp at h1
    · exact absurd (headsOfList_sub p n xs h1).1 hnx

mutual
theorem LWF.compOK {c : Ctx A} : ∀ (x : Comp) (xs : List Comp), LWF c (x :: xs) → CompOK c x
  | .vertex _, _, h => by
      simp only [CompOK]
      exact h.no_self
  | .cycle _ b, _, h => by
      simp only [CompOK]
      exact LWF.listOK b h.body
theorem LWF.listOK {c : Ctx A} : ∀ xs : List Comp, LWF c xs → ListOK c xs
  | [], _ => by simp [ListOK]
  | x :: xs, h => by
      simp only [ListOK]
      exact ⟨LWF.compOK x xs h, LWF.listOK xs h.tail, h.no_back⟩
end

end Sound
end Fix
end Crab
