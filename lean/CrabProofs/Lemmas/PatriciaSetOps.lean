import CrabProofs.Lemmas.PatriciaSet

/-!
  `discrete_domain`: `operator+=(Element)`, `operator-=(Element)`, `operator-(Range)` (difference)
  and `contain` — the remaining set operations of discrete_domains.hpp, stated through `contain`.
-/
namespace Crab
open Patricia Patricia.Tree

namespace PSet

/-- removing a list of keys one after the other (the loop of `discrete_domain::operator-(Range)`) -/
theorem removeAll_spec {c : Ctx Bool} (hc : c.SoundOn IsTrue) (es : List Nat) (hes : ∀ k ∈ es, k < 2 ^ 64) :
    ∀ {s : T}, Inv s →
      Inv (es.foldl (fun s k => PSet.remove c s k) s) ∧
        ∀ k', member (es.foldl (fun s k => PSet.remove c s k) s) k' = (!decide (k' ∈ es) && member s k') := by
  induction es with
  | nil => intro s hs; exact ⟨hs, fun k' => by simp⟩
  | cons e es ih =>
    intro s hs
    obtain ⟨w, l⟩ := remove_spec' hc hs (hes e (by simp))
    obtain ⟨w2, l2⟩ := ih (fun k hk => hes k (by simp [hk])) w
    refine ⟨by simpa [List.foldl] using w2, fun k' => ?_⟩
    simp only [List.foldl]
    rw [l2, l]
    by_cases h1 : k' = e <;> by_cases h2 : k' ∈ es <;> simp [h1, h2]

end PSet

namespace DD

theorem add_spec {c : Ctx Bool} (hc : c.SoundOn PSet.IsTrue) {a : DD} (ha : Inv a) {k : Nat} (hk : k < 2 ^ 64) :
    Inv (add c a k) ∧ ∀ k', (add c a k).contain k' = (decide (k' = k) || a.contain k') := by
  unfold add
  cases h1 : a.isTop
  · simp only [Bool.false_eq_true, if_false]
    obtain ⟨w, l⟩ := PSet.add_spec hc ha.1 hk
    have hi : Inv ⟨false, PSet.add c a.set k⟩ := ⟨w, fun h => by cases h⟩
    refine ⟨hi, fun k' => ?_⟩
    rw [contain_eq hi, contain_eq ha, l, h1]; simp
  · simp only [if_true]
    refine ⟨ha, fun k' => ?_⟩
    rw [contain_eq ha, h1]; simp

theorem remove_spec {c : Ctx Bool} (hc : c.SoundOn PSet.IsTrue) {a : DD} (ha : Inv a) {k : Nat} (hk : k < 2 ^ 64) :
    Inv (remove c a k) ∧
      (a.isTop = false → ∀ k', (remove c a k).contain k' = (!decide (k' = k) && a.contain k')) ∧
      (a.isTop = true → remove c a k = a) := by
  unfold remove
  cases h1 : a.isTop
  · simp only [Bool.false_eq_true, if_false]
    obtain ⟨w, l⟩ := PSet.remove_spec' hc ha.1 hk
    have hi : Inv ⟨false, PSet.remove c a.set k⟩ := ⟨w, fun h => by cases h⟩
    refine ⟨hi, (fun _ k' => ?_), fun h => by cases h⟩
    rw [contain_eq hi, contain_eq ha, l, h1]; simp
  · simp only [if_true]
    exact ⟨ha, (fun h => by cases h), fun _ => trivial⟩

/-- `a - b` for a non-top `b`: defined, and it contains exactly the elements of `a` not in `b`
    when `a` is not top; a top `a` is returned unchanged (the code cannot represent co-finite sets) -/
theorem diff_spec {c : Ctx Bool} (hc : c.SoundOn PSet.IsTrue) {a b : DD} (ha : Inv a) (hb : Inv b)
    (hbt : b.isTop = false) :
    ∃ r, diff c a b = some r ∧ Inv r ∧
      (a.isTop = false → ∀ k, r.contain k = (a.contain k && !b.contain k)) ∧
      (a.isTop = true → r = a) := by
  unfold diff
  cases h1 : a.isTop
  · simp only [Bool.false_eq_true, if_false, elems, hbt]
    have hes : ∀ k ∈ PSet.elems b.set, k < 2 ^ 64 := by
      intro k hk
      have hm := ((PSet.elems_spec hb.1).2.2.1 k).mp hk
      exact WF.key_lt hb.1 ((PSet.member_iff hb.1).mp hm)
    obtain ⟨w, l⟩ := PSet.removeAll_spec hc (PSet.elems b.set) hes ha.1
    have hi : Inv ⟨false, (PSet.elems b.set).foldl (fun s k => PSet.remove c s k) a.set⟩ :=
      ⟨w, fun h => by cases h⟩
    refine ⟨_, rfl, hi, (fun _ k => ?_), fun h => by cases h⟩
    rw [contain_eq hi, contain_eq ha, contain_eq hb, l, h1, hbt]
    have e : decide (k ∈ PSet.elems b.set) = PSet.member b.set k := by
      cases hm : PSet.member b.set k
      · have : ¬ k ∈ PSet.elems b.set := fun hk => by
          have := ((PSet.elems_spec hb.1).2.2.1 k).mp hk
          rw [hm] at this; cases this
        simp [this]
      · have : k ∈ PSet.elems b.set := ((PSet.elems_spec hb.1).2.2.1 k).mpr hm
        simp [this]
    rw [e]; simp [Bool.and_comm]
  · simp only [if_true]
    exact ⟨a, rfl, ha, (fun h => by cases h), fun _ => rfl⟩

/-- `a - b` with `b` top and `a` not top is the CRAB_ERROR of iterating a top set -/
theorem diff_top_error (c : Ctx Bool) {a b : DD} (hat : a.isTop = false) (hbt : b.isTop = true) :
    diff c a b = none := by
  simp [diff, hat, elems, hbt]

end DD
end Crab
