import CrabProofs.Lemmas.PatriciaSet

/-!
  `discrete_domain`: `operator+=(Element)`, `operator-=(Element)`, `operator-(Range)` (difference)
  and `contain` — the remaining set operations of discrete_domains.hpp, stated through `contain`.
-/
namespace Crab
open Patricia Patricia.Tree

namespace PSet

/-- removing a list of keys one after the other (the loop of `discrete_domain::operator-(Range)`) -/
theorem removeAll_spec {c : Ctx Bool} (hc : c.SoundOn IsTrue) (es : List Nat) (hes : ∀ k ∈ es, k < 2 ^ 64) :
    ∀ {s : T}, Inv s →
      Inv (es.foldl (fun s k => PSet.remove c s k) s) ∧
        ∀ k', member (es.foldl (fun s k => PSet.remove c s k) s) k' = (!decide (k' ∈ es) && member s k') := by
  induction es with
  | nil => intro s hs; exact ⟨hs, fun k' => by simp⟩
  | cons e es ih =>
    intro s hs
    obtain ⟨w, l⟩ := remove_spec' hc hs (hes e (by simp))
    obtain ⟨w2, l2⟩ := ih (fun k hk => hes k (by simp [hk])) w
    refine ⟨by simpa [List.foldl] using w2, fun k' => ?_⟩
    simp only [List.foldl]
    rw [l2, l]
    by_cases h1 : k' = e <;> by_cases h2 : k' ∈ es <;> simp [h1, h2]

end PSet

namespace DD

theorem add_spec {c : Ctx Bool} (hc : c.SoundOn PSet.IsTrue) {a : DD} (ha : Inv a) {k : Nat} (hk : k < 2 ^ 64) :
    Inv (add c a k) ∧ ∀ k', (add c a k).contain k' = (decide (k' = k) || a.contain k') := by
  unfold add
  cases h1 : a.isTop
  · simp only [Bool.false_eq_true, if_false]
    obtain ⟨w, l⟩ := PSet.add_spec hc ha.1 hk
    have hi : Inv ⟨false, PSet.add c a.set k⟩ := ⟨w, fun h => by cases h⟩
    refine ⟨hi, fun k' => ?_⟩
    rw [contain_eq hi, contain_eq ha, l, h1]; simp
  · simp only [if_true]
    refine ⟨ha, fun k' => ?_⟩
    rw [contain_eq ha, h1]; simp

theorem remove_spec {c : Ctx Bool} (hc : c.SoundOn PSet.IsTrue) {a : DD} (ha : Inv a) {k : Nat} (hk : k < 2 ^ 64) :
    Inv (remove c a k) ∧
      (a.isTop = false → ∀ k', (remove c a k).contain k' = (!decide (k' = k) && a.contain k')) ∧
      (a.isTop = true → remove c a k = a) := by
  unfold remove
  cases h1 : a.isTop
  · simp only [Bool.false_eq_true, if_false]
    obtain ⟨w, l⟩ := PSet.remove_spec' hc ha.1 hk
    have hi : Inv ⟨false, PSet.remove c a.set k⟩ := ⟨w, fun h => by cases h⟩
    refine ⟨hi, (fun _ k' => ?_), fun h => by cases h⟩
    rw [contain_eq hi, contain_eq ha, l, h1]; simp
  · simp only [if_true]
    exact ⟨ha, (fun h => by cases h), fun _ => trivial⟩

/-- `a - b` for a non-top `b`: defined, and it contains exactly the elements of `a` not in `b`
    when `a` is not top; a top `a` is returned unchanged (the code cannot represent co-finite sets) -/
theorem diff_spec {c : Ctx Bool} (hc : c.SoundOn PSet.IsTrue) {a b : DD} (ha : Inv a) (hb : Inv b)
    (hbt : b.isTop = false) :
    ∃ r, diff c a b = some r ∧ Inv r ∧
      (a.isTop = false → ∀ k, r.contain k = (a.contain k && !b.contain k)) ∧
      (a.isTop = true → r = a) := by
  unfold diff
  cases h1 : a.isTop
  · simp only [Bool.false_eq_true, if_false, elems, hbt]
    have hes : ∀ k ∈ PSet.elems b.set, k < 2 ^ 64 := by
      intro k hk
      have hm := ((PSet.elems_spec hb.1).2.2.1 k).mp hk
      exact WF.key_lt hb.1 ((PSet.member_iff hb.1).mp hm)
    obtain ⟨w, l⟩ := PSet.removeAll_spec hc (PSet.elems b.set) hes ha.1
    have hi : Inv ⟨false, (PSet.elems b.set).foldl (fun s k => PSet.remove c s k) a.set⟩ :=
      ⟨w, fun h => by cases h⟩
    refine ⟨_, rfl, hi, (fun _ k => ?_), fun h => by cases h⟩
    rw [contain_eq hi, contain_eq ha, contain_eq hb, l, h1, hbt]
    have e : decide (k ∈ PSet.elems b.set) = PSet.member b.set k := by
      cases hm : PSet.member b.set k
      · have : ¬ k ∈ PSet.elems b.set := fun hk => by
          have := ((PSet.elems_spec hb.1).2.2.1 k).mp hk
          rw [hm] at this; cases this
        simp [this]
      · have : k ∈ PSet.elems b.set := ((PSet.elems_spec hb.1).2.2.1 k).mpr hm
        simp [this]
    rw [e]; simp [Bool.and_comm]
  · simp only [if_true]
    exact ⟨a, rfl, ha, (fun h => by cases h), fun _ => rfl⟩

/-- `a - b` with `b` top and `a` not top is the CRAB_ERROR of iterating a top set -/
theorem diff_top_error (c : Ctx Bool) {a b : DD} (hat : a.isTop = false) (hbt : b.isTop = true) :
    diff c a b = none := by
  simp [diff, hat, elems, hbt]

end DD
end Crab

namespace Crab
open Patricia Patricia.Tree
namespace DD

/-- one pair of `discrete_domain::rename` on sets-as-predicates -/
def renameStepSpec (m : Nat → Bool) (p : Nat × Nat) : Nat → Bool :=
  if p.1 = p.2 then m
  else if m p.1 then fun k => if k = p.2 then true else if k = p.1 then false else m k
  else m

theorem add_isTop_false (c : Ctx Bool) {a : DD} (h : a.isTop = false) (k : Nat) : (add c a k).isTop = false := by
  simp [add, h]
theorem remove_isTop_false (c : Ctx Bool) {a : DD} (h : a.isTop = false) (k : Nat) : (remove c a k).isTop = false := by
  simp [remove, h]

theorem renameFold_spec {c : Ctx Bool} (hc : c.SoundOn PSet.IsTrue) (ps : List (Nat × Nat))
    (hps : ∀ p ∈ ps, p.1 < 2 ^ 64 ∧ p.2 < 2 ^ 64) :
    ∀ {d : DD} {m : Nat → Bool}, Inv d → d.isTop = false → (∀ k, d.contain k = m k) →
      let r := ps.foldl (fun d p =>
        if p.1 = p.2 then d
        else if d.contain p.1 then add c (remove c d p.1) p.2 else d) d
      Inv r ∧ r.isTop = false ∧ ∀ k, r.contain k = (ps.foldl renameStepSpec m) k := by
  induction ps with
  | nil => intro d m hd ht hm; exact ⟨hd, ht, hm⟩
  | cons p ps ih =>
    intro d m hd ht hm
    have hp := hps p (by simp)
    have hps' : ∀ q ∈ ps, q.1 < 2 ^ 64 ∧ q.2 < 2 ^ 64 := fun q hq => hps q (by simp [hq])
    simp only [List.foldl]
    by_cases e : p.1 = p.2
    · have : renameStepSpec m p = m := by simp [renameStepSpec, e]
      rw [if_pos e, this]
      exact ih hps' hd ht hm
    · rw [if_neg e]
      cases hcnt : d.contain p.1
      · have : renameStepSpec m p = m := by
          have : m p.1 = false := by rw [← hm]; exact hcnt
          simp [renameStepSpec, e, this]
        rw [this]
        simpa using ih hps' hd ht hm
      · obtain ⟨w1, l1, _⟩ := remove_spec hc hd hp.1
        have t1 := remove_isTop_false c ht p.1
        obtain ⟨w2, l2⟩ := add_spec hc w1 hp.2
        have t2 := add_isTop_false c t1 p.2
        have hm' : ∀ k, (add c (remove c d p.1) p.2).contain k = renameStepSpec m p k := by
          intro k
          have hmp : m p.1 = true := by rw [← hm]; exact hcnt
          rw [l2, l1 ht, hm]
          simp only [renameStepSpec, if_neg e, hmp, if_true]
          by_cases h1 : k = p.2
          · simp [h1]
          · by_cases h2 : k = p.1 <;> simp [h1, h2]
        simpa using ih hps' w2 t2 hm'

/-- `rename(from, to)` of a value that is neither top nor bottom: defined when the vectors have
    the same length, and the result is the left fold of the per-pair specification -/
theorem rename_spec {c : Ctx Bool} (hc : c.SoundOn PSet.IsTrue) {a : DD} (ha : Inv a)
    (hat : a.isTop = false) (hab : a.isBottom = false) (frm to : List Nat) (hlen : frm.length = to.length)
    (hf : ∀ k ∈ frm, k < 2 ^ 64) (ht : ∀ k ∈ to, k < 2 ^ 64) :
    ∃ r, rename c a frm to = some r ∧ Inv r ∧ r.isTop = false ∧
      ∀ k, r.contain k = ((frm.zip to).foldl renameStepSpec a.contain) k := by
  have hps : ∀ p ∈ frm.zip to, p.1 < 2 ^ 64 ∧ p.2 < 2 ^ 64 := by
    intro p hp
    have := List.of_mem_zip hp
    exact ⟨hf _ this.1, ht _ this.2⟩
  obtain ⟨w, t, l⟩ := renameFold_spec hc (frm.zip to) hps (d := a) (m := a.contain) ha hat (fun _ => rfl)
  refine ⟨_, ?_, w, t, l⟩
  simp [rename, hat, hab, hlen]

/-- top and bottom are returned unchanged -/
theorem rename_top_bottom (c : Ctx Bool) {a : DD} (h : a.isTop = true ∨ a.isBottom = true) (frm to : List Nat) :
    rename c a frm to = some a := by
  rcases h with h | h <;> simp [rename, h]

end DD
end Crab
