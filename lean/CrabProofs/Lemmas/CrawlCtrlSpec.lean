import CrabProofs.Lemmas.CrawlCtrlReach

/-!
  The control-dependence graph OF THE DEFINITION (`Prog.cdgSpec`, Crawler.lean: Ferrante /
  Ottenstein / Warren with the iterative post-dominator table `Prog.pdom`), the input of the old
  statement `C18.crawler_ctrl_sound_Statement`: on a well-formed CFG all of whose blocks reach the
  exit, `|blocks| + 2` rounds of the iteration compute exactly the post-dominators, and the graph
  is complete (`cdgSpec_complete`).
-/
namespace Crab
namespace TIR

/-! ### the table iteration -/

theorem gpath_first_to {next : Label → List Label} {a b : Label} (h : GPath next a b) (hne : a ≠ b) :
    ∃ t, t ∈ next a ∧ GPath next t b := by
  cases h with
  | refl _ => exact absurd rfl hne
  | step hm hp => exact ⟨_, hm, hp⟩

theorem mem_interAll_cons (y : Label) : ∀ (r : List (List Label)) (s : List Label),
    y ∈ interAll (s :: r) ↔ y ∈ s ∧ ∀ t, t ∈ r → y ∈ t := by
  intro r
  induction r with
  | nil => intro s; simp [interAll]
  | cons t r' ih =>
    intro s
    have h := ih (s.filter (fun x => t.contains x))
    simp only [interAll, List.foldl_cons] at h ⊢
    rw [h]
    simp only [List.mem_filter, List.contains_iff_mem, List.mem_cons]
    constructor
    · rintro ⟨⟨h1, h2⟩, h3⟩
      exact ⟨h1, fun t' ht' => ht'.elim (fun e => e ▸ h2) (h3 t')⟩
    · rintro ⟨h1, h2⟩
      exact ⟨⟨h1, h2 t (Or.inl rfl)⟩, fun t' ht' => h2 t' (Or.inr ht')⟩

theorem lookup_map_self (f : Label → List Label) (n : Label) : ∀ (L : List Label),
    ((L.map (fun l => (l, f l))).lookup n).getD [] = if n ∈ L then f n else [] := by
  intro L
  induction L with
  | nil => simp
  | cons a r ih =>
    simp only [List.map_cons, List.lookup_cons]
    by_cases hna : n = a
    · subst hna; simp
    · have hb : (n == a) = false := by simpa using hna
      simp only [hb, ih, List.mem_cons, hna, false_or]

/-- one round, tabulated over the blocks -/
def nextM (P : Prog) (x : Label) (m : Label → List Label) : Label → List Label :=
  fun n => if n ∈ P.labels then pdomRound P x m n else []

/-- the table after `k` rounds -/
def mK (P : Prog) (x : Label) : Nat → Label → List Label
  | 0 => fun _ => P.labels
  | k + 1 => nextM P x (mK P x k)

theorem pdomIter_succ (P : Prog) (x : Label) (k : Nat) (m : Label → List Label) :
    pdomIter P x (k + 1) m = pdomIter P x k (nextM P x m) := by
  simp only [pdomIter]
  congr 1
  funext n
  rw [lookup_map_self]
  rfl

theorem pdomIter_mK (P : Prog) (x : Label) : ∀ (k j : Nat), pdomIter P x k (mK P x j) = mK P x (j + k) := by
  intro k
  induction k with
  | zero => intro j; rfl
  | succ k ih =>
    intro j
    rw [pdomIter_succ]
    have : nextM P x (mK P x j) = mK P x (j + 1) := rfl
    rw [this, ih (j + 1)]
    congr 1
    omega

theorem pdom_eq_mK (P : Prog) (x : Label) : P.pdom x = mK P x (P.blocks.length + 2) := by
  unfold Prog.pdom
  have := pdomIter_mK P x (P.blocks.length + 2) 0
  simp only [Nat.zero_add] at this
  exact this

/-! ### no post-dominator is ever removed -/

theorem mK_complete {P : Prog} (hwf : WFp P) {x : Label} (hall : ∀ l, l ∈ P.labels → CoReach P x l) :
    ∀ (k : Nat) (n y : Label), n ∈ P.labels → y ∈ P.labels → PDom P x y n → y ∈ mK P x k n := by
  intro k
  induction k with
  | zero => intro n y _ hy _; exact hy
  | succ k ih =>
    intro n y hn hy hpd
    show y ∈ nextM P x (mK P x k) n
    simp only [nextM, hn, if_true, pdomRound]
    by_cases hnx : n = x
    · subst hnx
      simp [PDom.of_exit hpd]
    · have hb : (n == x) = false := by simpa using hnx
      simp only [hb, Bool.false_eq_true, if_false]
      by_cases hyn : y = n
      · subst hyn; exact List.mem_cons_self
      · apply List.mem_cons_of_mem
        apply List.mem_filter.mpr
        refine ⟨?_, by simpa using hyn⟩
        obtain ⟨t, ht, _⟩ := gpath_first_to (hall n hn) hnx
        cases hsc : P.succsOf n with
        | nil => rw [hsc] at ht; cases ht
        | cons s0 r =>
          simp only [List.map_cons]
          apply (mem_interAll_cons y _ _).mpr
          have hs : ∀ s, s ∈ P.succsOf n → y ∈ mK P x k s :=
            fun s hs => ih s y (hwf.succ_lab n s hs) hy (PDom.succ hpd hyn hs)
          rw [hsc] at hs
          refine ⟨hs s0 List.mem_cons_self, ?_⟩
          intro t' ht'
          obtain ⟨s, hs', rfl⟩ := List.mem_map.mp ht'
          exact hs s (List.mem_cons_of_mem _ hs')

/-! ### after `k` rounds the blocks that can avoid `y` within `k` steps have lost `y` -/

/-- some path from `n` to `x` with fewer than `k` edges avoids `y` -/
def AvoidK (P : Prog) (x y : Label) : Nat → Label → Prop
  | 0, _ => False
  | k + 1, n => (n = x ∧ x ≠ y) ∨ (n ≠ y ∧ ∃ s, s ∈ P.succsOf n ∧ AvoidK P x y k s)

theorem mK_sound {P : Prog} (hwf : WFp P) {x y : Label} :
    ∀ (k : Nat) (n : Label), n ∈ P.labels → AvoidK P x y k n → y ∉ mK P x k n := by
  intro k
  induction k with
  | zero => intro n _ h; exact absurd h (by simp [AvoidK])
  | succ k ih =>
    intro n hn hav hy
    have hy' : y ∈ pdomRound P x (mK P x k) n := by
      have : mK P x (k + 1) n = nextM P x (mK P x k) n := rfl
      rw [this] at hy
      simpa [nextM, hn] using hy
    simp only [pdomRound] at hy'
    rcases hav with ⟨hnx, hxy⟩ | ⟨hny, s, hs, havs⟩
    · subst hnx
      simp only [beq_self_eq_true, if_true, List.mem_singleton] at hy'
      exact hxy hy'.symm
    · by_cases hnx : n = x
      · subst hnx
        simp only [beq_self_eq_true, if_true, List.mem_singleton] at hy'
        exact hny hy'.symm
      · have hb : (n == x) = false := by simpa using hnx
        simp only [hb, Bool.false_eq_true, if_false] at hy'
        rcases List.mem_cons.mp hy' with h | h
        · exact hny h.symm
        · have hin := (List.mem_filter.mp h).1
          cases hsc : P.succsOf n with
          | nil => rw [hsc] at hs; cases hs
          | cons s0 r =>
            rw [hsc] at hin hs
            simp only [List.map_cons] at hin
            obtain ⟨h0, hr⟩ := (mem_interAll_cons y _ _).mp hin
            have hsl : s ∈ P.labels := hwf.succ_lab n s (by rw [hsc]; exact hs)
            rcases List.mem_cons.mp hs with rfl | hs'
            · exact ih s hsl havs h0
            · exact ih s hsl havs (hr _ (List.mem_map.mpr ⟨s, hs', rfl⟩))

theorem AvoidK_mono (P : Prog) (x y : Label) : ∀ (k : Nat) (n : Label), AvoidK P x y k n → AvoidK P x y (k + 1) n := by
  intro k
  induction k with
  | zero => intro n h; exact absurd h (by simp [AvoidK])
  | succ k ih =>
    intro n h
    rcases h with h | ⟨h1, s, hs, h2⟩
    · exact Or.inl h
    · exact Or.inr ⟨h1, s, hs, ih s h2⟩

theorem AvoidK_mono_le (P : Prog) (x y : Label) {k j : Nat} (h : k ≤ j) (n : Label) (hk : AvoidK P x y k n) :
    AvoidK P x y j n := by
  induction h with
  | refl => exact hk
  | step _ ih => exact AvoidK_mono P x y _ n ih

theorem avoid_AvoidK {P : Prog} {x y n : Label} (h : Avoid P x (· = y) n) : ∃ k, AvoidK P x y k n := by
  induction h with
  | here hx => exact ⟨1, Or.inl ⟨rfl, hx⟩⟩
  | step hn hs _ ih =>
    obtain ⟨k, hk⟩ := ih
    exact ⟨k + 1, Or.inr ⟨hn, _, hs, hk⟩⟩

theorem AvoidK_label {P : Prog} (hwf : WFp P) {x y : Label} (hx : x ∈ P.labels) :
    ∀ (k : Nat) (n : Label), AvoidK P x y k n → n ∈ P.labels := by
  intro k n h
  cases k with
  | zero => exact absurd h (by simp [AvoidK])
  | succ k =>
    rcases h with ⟨h, _⟩ | ⟨_, s, hs, _⟩
    · rw [h]; exact hx
    · exact (hwf.sym n s).mp hs |> fun hp => by
        apply Classical.byContradiction
        intro hno
        have : P.block? n = none := block?_none_iff.mpr hno
        simp [Prog.succsOf, this] at hs

theorem AvoidK_stable (P : Prog) (x y : Label) (k : Nat)
    (hst : ∀ n, AvoidK P x y (k + 1) n → AvoidK P x y k n) :
    ∀ (j : Nat) (n : Label), AvoidK P x y (k + j) n → AvoidK P x y k n := by
  intro j
  induction j with
  | zero => intro n h; exact h
  | succ j ih =>
    intro n h
    apply hst
    have h' : AvoidK P x y ((k + j) + 1) n := h
    rcases h' with h' | ⟨h1, s, hs, h2⟩
    · exact Or.inl h'
    · exact Or.inr ⟨h1, s, hs, ih s h2⟩

open Classical in
/-- within `|blocks| + 1` rounds nothing new becomes avoidable -/
theorem AvoidK_bound {P : Prog} (hwf : WFp P) {x y : Label} (hx : x ∈ P.labels) {n : Label}
    (h : Avoid P x (· = y) n) : AvoidK P x y (P.labels.length + 1) n := by
  let c : Nat → Nat := fun k => (P.labels.filter (fun n => decide (AvoidK P x y k n))).length
  have hcle : ∀ k, c k ≤ P.labels.length := fun k => List.length_filter_le _ _
  -- some round `j ≤ |labels|` adds nothing
  have hex : ∃ j, j ≤ P.labels.length ∧ ∀ n, AvoidK P x y (j + 1) n → AvoidK P x y j n := by
    apply Classical.byContradiction
    intro hno
    have hgrow : ∀ k, k ≤ P.labels.length + 1 → k ≤ c k := by
      intro k
      induction k with
      | zero => intro _; exact Nat.zero_le _
      | succ k ih =>
        intro hk
        have hk' : k ≤ P.labels.length := by omega
        have : ¬ ∀ n, AvoidK P x y (k + 1) n → AvoidK P x y k n := fun hs => hno ⟨k, hk', hs⟩
        obtain ⟨z, hz⟩ := Classical.not_forall.mp this
        obtain ⟨hz1, hz2⟩ := Classical.not_imp.mp hz
        have hlt : c k < c (k + 1) := by
          apply filter_length_lt _ _ P.labels _ z (AvoidK_label hwf hx _ z hz1)
          · simpa using hz1
          · simpa using hz2
          · intro m _ hm
            have : AvoidK P x y k m := by simpa using hm
            simpa using AvoidK_mono P x y k m this
        have := ih (by omega)
        omega
    have := hgrow (P.labels.length + 1) (Nat.le_refl _)
    have := hcle (P.labels.length + 1)
    omega
  obtain ⟨j, hj, hst⟩ := hex
  obtain ⟨k, hk⟩ := avoid_AvoidK h
  have hjn : AvoidK P x y j n := by
    by_cases hkj : k ≤ j
    · exact AvoidK_mono_le P x y hkj n hk
    · have he : k = j + (k - j) := by omega
      rw [he] at hk
      exact AvoidK_stable P x y j hst (k - j) n hk
  exact AvoidK_mono_le P x y (by omega) n hjn

/-- THE ITERATIVE TABLE COMPUTES THE POST-DOMINATORS (every block reaches the exit) -/
theorem pdom_table_iff {P : Prog} (hwf : WFp P) {x : Label} (hx : x ∈ P.labels)
    (hall : ∀ l, l ∈ P.labels → CoReach P x l) {n y : Label} (hn : n ∈ P.labels) (hy : y ∈ P.labels) :
    (P.pdom x n).contains y = true ↔ PDom P x y n := by
  rw [pdom_eq_mK, List.contains_iff_mem]
  constructor
  · intro hm hav
    have hb := AvoidK_bound hwf hx hav
    have hlen : P.labels.length = P.blocks.length := by simp [Prog.labels]
    exact mK_sound hwf _ n hn (AvoidK_mono_le P x y (by omega) n hb) hm
  · exact mK_complete hwf hall _ n y hn hy

/-! ### the graph of the definition -/

theorem mem_specCdg {P : Prog} {x d u : Label} (hd : d ∈ P.labels) (hu : u ∈ P.labels)
    (hc : ((P.succsOf d).any (fun s => (P.pdom x s).contains u) && !((P.pdom x d).contains u && u != d)) = true) :
    (d, u) ∈ P.specCdg x := by
  unfold Prog.specCdg
  apply List.mem_flatMap.mpr
  refine ⟨d, hd, ?_⟩
  apply List.mem_map.mpr
  exact ⟨u, List.mem_filter.mpr ⟨hu, hc⟩, rfl⟩

theorem kids_cdgSpec {P : Prog} {x d u : Label} (hd : d ∈ P.labels) (h : (d, u) ∈ P.specCdg x) :
    u ∈ (P.cdgSpec x).kids d := by
  have hu : u ∈ ((P.specCdg x).filter (fun p => p.1 == d)).map (·.2) :=
    List.mem_map.mpr ⟨(d, u), List.mem_filter.mpr ⟨h, by simp⟩, rfl⟩
  have := lookup_filterMap_key
    (fun n => if (((P.specCdg x).filter (fun p => p.1 == n)).map (·.2)).isEmpty then none
      else some (n, ((P.specCdg x).filter (fun p => p.1 == n)).map (·.2)))
    (by
      intro m p hp
      split at hp
      · cases hp
      · simp only [Option.some.injEq] at hp; rw [← hp])
    P.labels d (d, ((P.specCdg x).filter (fun p => p.1 == d)).map (·.2)) hd
    (by
      have hne : (((P.specCdg x).filter (fun p => p.1 == d)).map (·.2)).isEmpty = false := by
        cases hk : ((P.specCdg x).filter (fun p => p.1 == d)).map (·.2) with
        | nil => rw [hk] at hu; cases hu
        | cons _ _ => rfl
      simp [hne])
  unfold Cdg.kids Prog.cdgSpec
  simp only at this ⊢
  rw [this]
  exact hu

/-- on a CFG all of whose blocks reach the exit, the graph of the definition is complete -/
theorem cdgSpec_complete {P : Prog} (hwf : WFp P) {x : Label} (hx : P.exit = some x)
    (hall : ∀ l, l ∈ P.labels → CoReach P x l) : CdgComplete P (P.cdgSpec x) where
  escape := by
    intro d s t u _ _ hs hesc _ _
    exact absurd (hall s (hwf.succ_lab d s hs)) (hesc x hx)
  fow := by
    intro x' d t u hx' hd ht hco hpd hns
    rw [hx] at hx'
    simp only [Option.some.injEq] at hx'
    subst hx'
    have hxl : x ∈ P.labels := hwf.exit x hx
    have htl : t ∈ P.labels := hwf.succ_lab d t ht
    have hul : u ∈ P.labels := gpath_label hwf htl (PDom.reach hco hpd).1
    apply kids_cdgSpec hd
    apply mem_specCdg hd hul
    simp only [Bool.and_eq_true, List.any_eq_true, Bool.not_eq_eq_eq_not, Bool.not_true, Bool.and_eq_false_iff]
    refine ⟨⟨t, ht, (pdom_table_iff hwf hxl hall htl hul).mpr hpd⟩, ?_⟩
    by_cases hud : u = d
    · right; simpa using hud
    · left
      cases hc : (P.pdom x d).contains u with
      | false => rfl
      | true => exact absurd ⟨hud, (pdom_table_iff hwf hxl hall hd hul).mp hc⟩ hns

end TIR
end Crab
