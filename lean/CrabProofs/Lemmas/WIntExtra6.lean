import CrabProofs.Lemmas.WIntExtra5

/-!
  More lemmas about `Crab.WInt` (part 6): `unsigned_mul` and `signed_mul` on pieces that lie in
  one hemisphere and do not cross the south pole.
-/
set_option linter.unusedSimpArgs false

namespace Crab
namespace WInt
open WrapInt

/-- `mem_of_steps` from an integer origin -/
theorem mem_of_steps_int {w : Nat} (hw : w ≤ 64) {X : Int} {t l : Nat} (hl : l < 2 ^ w) (htl : t ≤ l) :
    mem w ((X + (t : Int)) % ((2 ^ w : Nat) : Int)).toNat
      (W w (X % ((2 ^ w : Nat) : Int)).toNat ((X + (l : Int)) % ((2 ^ w : Nat) : Int)).toNat false) := by
  have hM : 0 < 2 ^ w := Nat.pow_pos (by decide)
  have hMi : ((2 ^ w : Nat) : Int) ≠ 0 := by omega
  have hx0 : 0 ≤ X % ((2 ^ w : Nat) : Int) := Int.emod_nonneg _ hMi
  have hxlt : X % ((2 ^ w : Nat) : Int) < ((2 ^ w : Nat) : Int) := Int.emod_lt_of_pos _ (by omega)
  obtain ⟨x, hx⟩ : ∃ x : Nat, (x : Int) = X % ((2 ^ w : Nat) : Int) :=
    ⟨(X % ((2 ^ w : Nat) : Int)).toNat, Int.toNat_of_nonneg hx0⟩
  have key : ∀ t : Nat, ((X + (t : Int)) % ((2 ^ w : Nat) : Int)).toNat = (x + t) % 2 ^ w := by
    intro t
    rw [← Int.emod_add_emod, ← hx, ← Int.natCast_add, ← Int.natCast_emod, Int.toNat_natCast]
  have key0 : (X % ((2 ^ w : Nat) : Int)).toNat = x := by rw [← hx, Int.toNat_natCast]
  rw [key t, key l, key0]
  have hxm : x % 2 ^ w = x := Nat.mod_eq_of_lt (by omega)
  have := mem_of_steps (x := x) hw hl htl
  rw [hxm] at this
  exact this

theorem emod_sub_left (a b M : Int) : ((a - M) * b) % M = (a * b) % M := by
  have : (a - M) * b = a * b + M * (-b) := by grind
  rw [this, Int.add_mul_emod_self_left]

theorem emod_sub_right (a b M : Int) : (a * (b - M)) % M = (a * b) % M := by
  have : a * (b - M) = a * b + M * (-a) := by grind
  rw [this, Int.add_mul_emod_self_left]

/-- the product modulo `M` can be computed on the signed readings -/
theorem mul_mod_sg (M p q : Nat) :
    (p * q) % M = ((sg M p * sg M q) % (M : Int)).toNat := by
  have e : ((sg M p * sg M q) % (M : Int)) = (((p * q) % M : Nat) : Int) := by
    rw [Int.natCast_emod, Int.natCast_mul]
    rcases sg_spec M p with ⟨_, b1⟩ | ⟨_, b1⟩ <;> rcases sg_spec M q with ⟨_, b2⟩ | ⟨_, b2⟩ <;>
      rw [b1, b2]
    · rw [emod_sub_right]
    · rw [emod_sub_left]
    · rw [emod_sub_left, emod_sub_right]
  rw [e, Int.toNat_natCast]

theorem mulT_val {w : Nat} (hw : w ≤ 64) (a b : Nat) :
    mulT ⟨w, a⟩ ⟨w, b⟩ = ⟨w, (a * b) % 2 ^ w⟩ := by
  simp only [mulT, red_mod hw]

theorem umaxT_cast {w : Nat} : (((umaxT w).n : Nat) : Int) = ((2 ^ w : Nat) : Int) - 1 := by
  have : 0 < 2 ^ w := Nat.pow_pos (by decide)
  simp only [umaxT]; omega

/-! ### `unsigned_mul` -/

theorem unsignedMul_sound {w : Nat} (hw : w ≤ 64) {a b c d u v : Nat}
    (hau : a ≤ u) (hub : u ≤ b) (hcv : c ≤ v) (hvd : v ≤ d) :
    mem w ((u * v) % 2 ^ w) (unsignedMul (W w a b false) (W w c d false)) := by
  unfold unsignedMul
  simp only [umaxT_cast]
  split
  · next hc =>
    simp only [mulT_val hw]
    show mem w ((u * v) % 2 ^ w) (W w ((a * c) % 2 ^ w) ((b * d) % 2 ^ w) false)
    have h1 : a * c ≤ u * v := Nat.mul_le_mul hau hcv
    have h2 : u * v ≤ b * d := Nat.mul_le_mul hub hvd
    have e1 : u * v = a * c + (u * v - a * c) := by omega
    have e2 : b * d = a * c + (b * d - a * c) := by omega
    have c1 := Int.natCast_mul b d; have c2 := Int.natCast_mul a c
    rw [e1, e2]
    apply mem_of_steps hw
    · have hM : 0 < 2 ^ w := Nat.pow_pos (by decide)
      omega
    · omega
  · exact mem_top _ _

/-- `unsigned_mul` answers `top()` or an interval of width `w` -/
theorem unsignedMul_good {w : Nat} (hw : w ≤ 64) (a b c d : Nat) :
    Good w (unsignedMul (W w a b false) (W w c d false)) := by
  have hM : 0 < 2 ^ w := Nat.pow_pos (by decide)
  unfold unsignedMul
  dsimp only
  split
  · right; simp only [mulT_val hw]
    exact shape_W (Nat.mod_lt _ hM) (Nat.mod_lt _ hM)
  · left; rfl

/-! ### `signed_mul` -/

theorem msb_val {w a : Nat} (h1w : 1 ≤ w) (hw : w ≤ 64) (ha : a < 2 ^ w) :
    WrapInt.msb ⟨w, a⟩ = decide (2 ^ (w - 1) ≤ a) := by
  have := msb_ofBV h1w hw (BitVec.ofNatLT a ha)
  simp only [ofBV, BitVec.toNat_ofNatLT] at this
  rw [this, BitVec.msb_eq_decide, BitVec.toNat_ofNatLT]

theorem sgnT_val {w a : Nat} (h1w : 1 ≤ w) (hw : w ≤ 64) (ha : a < 2 ^ w) :
    sgnT ⟨w, a⟩ = sg (2 ^ w) a := by
  have hM := pow_succ_pred h1w
  unfold sgnT
  rw [msb_val h1w hw ha]
  have hx : a ^^^ (umaxT w).n = 2 ^ w - 1 - a := by
    have h1 : (BitVec.ofNatLT a ha ^^^ BitVec.allOnes w).toNat = 2 ^ w - 1 - a := by
      rw [BitVec.xor_allOnes, BitVec.toNat_not, BitVec.toNat_ofNatLT]
    rw [BitVec.toNat_xor, BitVec.toNat_ofNatLT, BitVec.toNat_allOnes] at h1
    exact h1
  simp only [hx]
  rcases sg_spec (2 ^ w) a with ⟨c, d⟩ | ⟨c, d⟩
  · have : ¬ 2 ^ (w - 1) ≤ a := by omega
    simp only [this, decide_false, Bool.false_eq_true, if_false, d]
  · have : 2 ^ (w - 1) ≤ a := by omega
    simp only [this, decide_true, if_true, d]
    omega

/-- the integer products of the members of two boxes of signed numbers, all negative -/
theorem prod_nn {a b c d u v : Int} (h1 : a ≤ u) (h2 : u ≤ b) (h3 : b ≤ -1) (h4 : c ≤ v) (h5 : v ≤ d)
    (h6 : d ≤ -1) : b * d ≤ u * v ∧ u * v ≤ a * c := by
  have x1 := Int.mul_le_mul_of_nonpos_right h1 (by omega : v ≤ 0)
  have x2 := Int.mul_le_mul_of_nonpos_left (by omega : a ≤ 0) h4
  have x3 := Int.mul_le_mul_of_nonpos_right h2 (by omega : d ≤ 0)
  have x4 := Int.mul_le_mul_of_nonpos_left (by omega : u ≤ 0) h5
  omega

/-- first box negative, second box non-negative -/
theorem prod_np {a b c d u v : Int} (h1 : a ≤ u) (h2 : u ≤ b) (h3 : b ≤ -1) (h0 : 0 ≤ c) (h4 : c ≤ v)
    (h5 : v ≤ d) : a * d ≤ u * v ∧ u * v ≤ b * c := by
  have x1 := Int.mul_le_mul_of_nonneg_right h1 (by omega : 0 ≤ d)
  have x2 := Int.mul_le_mul_of_nonpos_left (by omega : u ≤ 0) h5
  have x3 := Int.mul_le_mul_of_nonneg_right h2 (by omega : 0 ≤ v)
  have x4 := Int.mul_le_mul_of_nonpos_left (by omega : b ≤ 0) h4
  omega

theorem prod_pn {a b c d u v : Int} (h0 : 0 ≤ a) (h1 : a ≤ u) (h2 : u ≤ b) (h4 : c ≤ v) (h5 : v ≤ d)
    (h6 : d ≤ -1) : b * c ≤ u * v ∧ u * v ≤ a * d := by
  have := prod_np h4 h5 h6 h0 h1 h2
  rw [Int.mul_comm c b, Int.mul_comm v u, Int.mul_comm d a] at this
  exact this

/-- the interval `[lo, hi]` of integers, shorter than the circle, read modulo `2^w` -/
theorem mem_int_range {w : Nat} (hw : w ≤ 64) {lo hi p : Int} (h1 : lo ≤ p) (h2 : p ≤ hi)
    (hlen : hi - lo < ((2 ^ w : Nat) : Int) - 1) :
    mem w (p % ((2 ^ w : Nat) : Int)).toNat
      (W w (lo % ((2 ^ w : Nat) : Int)).toNat (hi % ((2 ^ w : Nat) : Int)).toNat false) := by
  have e1 : p = lo + ((p - lo).toNat : Int) := by omega
  have e2 : hi = lo + ((hi - lo).toNat : Int) := by omega
  rw [e1, e2]
  apply mem_of_steps_int hw <;> omega

theorem tbf : (true == false) = false := rfl
theorem fbt : (false == true) = false := rfl
theorem tnf : (true != false) = true := rfl
theorem fnt : (false != true) = true := rfl

/-- `signed_mul` on two pieces, each inside one hemisphere -/
theorem signedMul_sound {w : Nat} (h1w : 1 ≤ w) (hw : w ≤ 64) {a b c d u v : Nat}
    (h1 : Hemi w a b) (h2 : Hemi w c d)
    (hau : a ≤ u) (hub : u ≤ b) (hcv : c ≤ v) (hvd : v ≤ d) :
    mem w ((u * v) % 2 ^ w) (signedMul (W w a b false) (W w c d false)) := by
  obtain ⟨hab, hb, hh1⟩ := h1
  obtain ⟨hcd, hd, hh2⟩ := h2
  have hM := pow_succ_pred h1w
  have ga := sg_spec (2 ^ w) a; have gb := sg_spec (2 ^ w) b
  have gc := sg_spec (2 ^ w) c; have gd := sg_spec (2 ^ w) d
  have gu := sg_spec (2 ^ w) u; have gv := sg_spec (2 ^ w) v
  unfold signedMul
  simp only [msb_val h1w hw (by omega : a < 2 ^ w), msb_val h1w hw hb, msb_val h1w hw (by omega : c < 2 ^ w),
    msb_val h1w hw hd, sgnT_val h1w hw (by omega : a < 2 ^ w), sgnT_val h1w hw hb,
    sgnT_val h1w hw (by omega : c < 2 ^ w), sgnT_val h1w hw hd, umaxT_cast, mulT_val hw]
  rcases hh1 with hx | hx <;> rcases hh2 with hy | hy
  · -- both non-negative
    have f1 : ¬ 2 ^ (w - 1) ≤ a := by omega
    have f2 : ¬ 2 ^ (w - 1) ≤ b := by omega
    have f3 : ¬ 2 ^ (w - 1) ≤ c := by omega
    have f4 : ¬ 2 ^ (w - 1) ≤ d := by omega
    simp only [f1, f2, f3, f4, decide_false, BEq.rfl, Bool.and_self, if_true, Bool.not_false]
    exact unsignedMul_sound hw hau hub hcv hvd
  · -- first non-negative, second negative
    have f1 : ¬ 2 ^ (w - 1) ≤ a := by omega
    have f2 : ¬ 2 ^ (w - 1) ≤ b := by omega
    have f3 : 2 ^ (w - 1) ≤ c := by omega
    have f4 : 2 ^ (w - 1) ≤ d := by omega
    simp only [f1, f2, f3, f4, decide_false, decide_true, BEq.rfl, Bool.and_true, Bool.true_and,
      Bool.and_false, Bool.false_and, bne_self_eq_false, Bool.or_self, Bool.not_false, if_true,
      Bool.false_eq_true, if_false, Bool.not_true, tbf, fbt, tnf, fnt]
    have hp := prod_pn (a := sg (2 ^ w) a) (b := sg (2 ^ w) b) (c := sg (2 ^ w) c) (d := sg (2 ^ w) d)
      (u := sg (2 ^ w) u) (v := sg (2 ^ w) v) (by omega) (by omega) (by omega) (by omega) (by omega)
      (by omega)
    split
    · next hc =>
      rw [mul_mod_sg, mul_mod_sg (2 ^ w) b c, mul_mod_sg (2 ^ w) a d]
      exact mem_int_range hw hp.1 hp.2 hc
    · exact mem_top _ _
  · -- first negative, second non-negative
    have f1 : 2 ^ (w - 1) ≤ a := by omega
    have f2 : 2 ^ (w - 1) ≤ b := by omega
    have f3 : ¬ 2 ^ (w - 1) ≤ c := by omega
    have f4 : ¬ 2 ^ (w - 1) ≤ d := by omega
    simp only [f1, f2, f3, f4, decide_false, decide_true, BEq.rfl, Bool.and_true, Bool.true_and,
      Bool.and_false, Bool.false_and, bne_self_eq_false, Bool.or_self, Bool.not_false, if_true,
      Bool.false_eq_true, if_false, Bool.not_true, tbf, fbt, tnf, fnt]
    have hp := prod_np (a := sg (2 ^ w) a) (b := sg (2 ^ w) b) (c := sg (2 ^ w) c) (d := sg (2 ^ w) d)
      (u := sg (2 ^ w) u) (v := sg (2 ^ w) v) (by omega) (by omega) (by omega) (by omega) (by omega)
      (by omega)
    split
    · next hc =>
      rw [mul_mod_sg, mul_mod_sg (2 ^ w) a d, mul_mod_sg (2 ^ w) b c]
      exact mem_int_range hw hp.1 hp.2 hc
    · exact mem_top _ _
  · -- both negative
    have f1 : 2 ^ (w - 1) ≤ a := by omega
    have f2 : 2 ^ (w - 1) ≤ b := by omega
    have f3 : 2 ^ (w - 1) ≤ c := by omega
    have f4 : 2 ^ (w - 1) ≤ d := by omega
    simp only [f1, f2, f3, f4, decide_true, BEq.rfl, Bool.and_self, if_true, Bool.not_true,
      Bool.false_eq_true, if_false]
    have hp := prod_nn (a := sg (2 ^ w) a) (b := sg (2 ^ w) b) (c := sg (2 ^ w) c) (d := sg (2 ^ w) d)
      (u := sg (2 ^ w) u) (v := sg (2 ^ w) v) (by omega) (by omega) (by omega) (by omega) (by omega)
      (by omega)
    split
    · next hc =>
      rw [mul_mod_sg, mul_mod_sg (2 ^ w) b d, mul_mod_sg (2 ^ w) a c]
      exact mem_int_range hw hp.1 hp.2 hc
    · exact mem_top _ _

/-- `signed_mul` answers `top()` or an interval of width `w` -/
theorem signedMul_good {w : Nat} (hw : w ≤ 64) (a b c d : Nat) :
    Good w (signedMul (W w a b false) (W w c d false)) := by
  have hM : 0 < 2 ^ w := Nat.pow_pos (by decide)
  have sh : ∀ p q r s : Nat, Good w (mk2 (mulT ⟨w, p⟩ ⟨w, q⟩) (mulT ⟨w, r⟩ ⟨w, s⟩)) := by
    intro p q r s
    right; simp only [mulT_val hw]
    exact shape_W (Nat.mod_lt _ hM) (Nat.mod_lt _ hM)
  have tp : Good w top := Or.inl rfl
  unfold signedMul
  simp only
  split
  · split
    · exact unsignedMul_good hw a b c d
    · split
      · exact sh _ _ _ _
      · exact tp
  · split
    · split
      · split
        · exact sh _ _ _ _
        · exact tp
      · split
        · split
          · exact sh _ _ _ _
          · exact tp
        · exact tp
    · exact tp

end WInt
end Crab
