import CrabModel.Fix.Semantics
namespace Crab
namespace Fix
variable {A : Type}

/-- initial invariant of a cycle head -/
def cyclePre (c : Ctx A) (st : St A) (head : Nat) : A :=
  let cycleNesting := (c.nesting head).getD []
  let pre0 := (c.preds head).foldl
    (fun a p => match c.nesting p with
      | none => a
      | some np => if !(nestingGt np cycleNesting) then c.ops.join a (st.post p) else a) c.ops.bot
  let pre1 := if head == c.entry then c.ops.join pre0 c.init else pre0
  strengthen c head pre1

theorem visitComp_zero (c : Ctx A) (st : St A) (x : Comp) : visitComp c 0 st x = none := by
  cases x <;> rfl

theorem visitComp_vertex (c : Ctx A) (f : Nat) (st : St A) (v : Nat) :
    visitComp c (f+1) st (.vertex v) = some (visitVertex c st v) := rfl

theorem visitComp_cycle (c : Ctx A) (f : Nat) (st : St A) (head : Nat) (body : List Comp) :
    visitComp c (f+1) st (.cycle head body) =
      if st.skip && !(st.skip && (Comp.cycle head body).member c.entry) then some st
      else match ascend c f { st with skip := false } head body 1 (cyclePre c st head) with
        | none => none
        | some (st', pre) =>
          if c.descending = 0 then some st' else descend c f st' head body 1 pre := rfl

theorem visitList_zero (c : Ctx A) (st : St A) (xs : List Comp) : visitList c 0 st xs = none := by
  cases xs <;> rfl
theorem visitList_nil (c : Ctx A) (f : Nat) (st : St A) : visitList c (f+1) st [] = some st := rfl
theorem visitList_cons (c : Ctx A) (f : Nat) (st : St A) (x : Comp) (xs : List Comp) :
    visitList c (f+1) st (x :: xs) =
      match visitComp c f st x with
      | none => none
      | some st => visitList c f st xs := rfl

theorem ascend_zero (c : Ctx A) (st : St A) (h : Nat) (b : List Comp) (i : Nat) (p : A) :
    ascend c 0 st h b i p = none := rfl
theorem ascend_succ (c : Ctx A) (f : Nat) (st : St A) (head : Nat) (body : List Comp) (it : Nat) (pre : A) :
    ascend c (f+1) st head body it pre =
      match visitList c f (computePost c { st with pre := upd st.pre head pre } head pre) body with
      | none => none
      | some st' =>
        if c.ops.leq (newPre c st' head) pre then
          some ({ st' with pre := upd st'.pre head (newPre c st' head) }, newPre c st' head)
        else ascend c f st' head body (it + 1) (extrapolate c it pre (newPre c st' head)) := rfl

theorem descend_zero (c : Ctx A) (st : St A) (h : Nat) (b : List Comp) (i : Nat) (p : A) :
    descend c 0 st h b i p = none := rfl
theorem descend_succ (c : Ctx A) (f : Nat) (st : St A) (head : Nat) (body : List Comp) (it : Nat) (pre : A) :
    descend c (f+1) st head body it pre =
      match visitList c f (computePost c st head pre) body with
      | none => none
      | some st' =>
        if c.ops.leq pre (newPre c st' head) then some st'
        else if it > c.descending then some st'
        else descend c f { st' with pre := upd st'.pre head (refine c it pre (newPre c st' head)) }
              head body (it + 1) (refine c it pre (newPre c st' head)) := rfl

/-! ### fuel monotonicity -/

theorem fuel_mono_aux (c : Ctx A) : ∀ f,
    (∀ st x r, visitComp c f st x = some r → ∀ f', f ≤ f' → visitComp c f' st x = some r) ∧
    (∀ st xs r, visitList c f st xs = some r → ∀ f', f ≤ f' → visitList c f' st xs = some r) ∧
    (∀ st h b i p r, ascend c f st h b i p = some r →
      ∀ f', f ≤ f' → ascend c f' st h b i p = some r) ∧
    (∀ st h b i p r, descend c f st h b i p = some r →
      ∀ f', f ≤ f' → descend c f' st h b i p = some r) := by
  intro f
  induction f with
  | zero =>
    refine ⟨?_, ?_, ?_, ?_⟩
    · intro st x r h; simp [visitComp_zero] at h
    · intro st xs r h; simp [visitList_zero] at h
    · intro st h b i p r h; simp [ascend_zero] at h
    · intro st h b i p r h; simp [descend_zero] at h
  | succ f ih =>
    obtain ⟨ihC, ihL, ihA, ihD⟩ := ih
    refine ⟨?_, ?_, ?_, ?_⟩
    · intro st x r h f' hf'
      obtain ⟨g, rfl⟩ : ∃ g, f' = g + 1 := ⟨f' - 1, by omega⟩
      have hg : f ≤ g := by omega
      cases x with
      | vertex v => simpa [visitComp_vertex] using h
      | cycle head body =>
        rw [visitComp_cycle] at h ⊢
        by_cases hs : (st.skip && !(st.skip && (Comp.cycle head body).member c.entry)) = true
        · rw [if_pos hs] at h ⊢; exact h
        · rw [if_neg hs] at h ⊢
          cases hA : ascend c f { st with skip := false } head body 1 (cyclePre c st head) with
          | none => simp [hA] at h
          | some q =>
            obtain ⟨st', p⟩ := q
            rw [hA] at h
            rw [ihA _ _ _ _ _ _ hA g hg]
            simp only at h ⊢
            by_cases hd : c.descending = 0
            · rw [if_pos hd] at h ⊢; exact h
            · rw [if_neg hd] at h ⊢; exact ihD _ _ _ _ _ _ h g hg
    · intro st xs r h f' hf'
      obtain ⟨g, rfl⟩ : ∃ g, f' = g + 1 := ⟨f' - 1, by omega⟩
      have hg : f ≤ g := by omega
      cases xs with
      | nil => simpa [visitList_nil] using h
      | cons x xs =>
        rw [visitList_cons] at h ⊢
        cases hC : visitComp c f st x with
        | none => simp [hC] at h
        | some st1 =>
          rw [hC] at h
          rw [ihC _ _ _ hC g hg]
          exact ihL _ _ _ h g hg
    · intro st head body it pre r h f' hf'
      obtain ⟨g, rfl⟩ : ∃ g, f' = g + 1 := ⟨f' - 1, by omega⟩
      have hg : f ≤ g := by omega
      rw [ascend_succ] at h ⊢
      cases hL : visitList c f (computePost c { st with pre := upd st.pre head pre } head pre) body with
      | none => simp [hL] at h
      | some st1 =>
        rw [hL] at h
        rw [ihL _ _ _ hL g hg]
        simp only at h ⊢
        by_cases hl : c.ops.leq (newPre c st1 head) pre = true
        · rw [if_pos hl] at h ⊢; exact h
        · rw [if_neg hl] at h ⊢; exact ihA _ _ _ _ _ _ h g hg
    · intro st head body it pre r h f' hf'
      obtain ⟨g, rfl⟩ : ∃ g, f' = g + 1 := ⟨f' - 1, by omega⟩
      have hg : f ≤ g := by omega
      rw [descend_succ] at h ⊢
      cases hL : visitList c f (computePost c st head pre) body with
      | none => simp [hL] at h
      | some st1 =>
        rw [hL] at h
        rw [ihL _ _ _ hL g hg]
        simp only at h ⊢
        by_cases hl : c.ops.leq pre (newPre c st1 head) = true
        · rw [if_pos hl] at h ⊢; exact h
        · rw [if_neg hl] at h ⊢
          by_cases hi : it > c.descending
          · rw [if_pos hi] at h ⊢; exact h
          · rw [if_neg hi] at h ⊢; exact ihD _ _ _ _ _ _ h g hg

theorem visitComp_mono {c : Ctx A} {f f' : Nat} {st : St A} {x : Comp} {r : St A}
    (h : visitComp c f st x = some r) (hf : f ≤ f') : visitComp c f' st x = some r :=
  (fuel_mono_aux c f).1 _ _ _ h _ hf

theorem visitList_mono {c : Ctx A} {f f' : Nat} {st : St A} {xs : List Comp} {r : St A}
    (h : visitList c f st xs = some r) (hf : f ≤ f') : visitList c f' st xs = some r :=
  (fuel_mono_aux c f).2.1 _ _ _ h _ hf

theorem ascend_mono {c : Ctx A} {f f' : Nat} {st : St A} {head : Nat} {body : List Comp}
    {it : Nat} {pre : A} {r : St A × A}
    (h : ascend c f st head body it pre = some r) (hf : f ≤ f') :
    ascend c f' st head body it pre = some r :=
  (fuel_mono_aux c f).2.2.1 _ _ _ _ _ _ h _ hf

theorem descend_mono {c : Ctx A} {f f' : Nat} {st : St A} {head : Nat} {body : List Comp}
    {it : Nat} {pre : A} {r : St A}
    (h : descend c f st head body it pre = some r) (hf : f ≤ f') :
    descend c f' st head body it pre = some r :=
  (fuel_mono_aux c f).2.2.2 _ _ _ _ _ _ h _ hf

theorem run_mono {c : Ctx A} {f f' : Nat} {w : List Comp} {r : St A}
    (h : run c f w = some r) (hf : f ≤ f') : run c f' w = some r :=
  visitList_mono (c := c) h hf

/-! ### total correctness: some fuel suffices -/

/-- one iteration of the decreasing sequence: it terminates if the body does and the rest of
    the sequence (entered only while `it ≤ descending`) does -/
theorem descend_step (c : Ctx A) (head : Nat) (body : List Comp)
    (H : ∀ st, ∃ f r, visitList c f st body = some r) (it : Nat) (st : St A) (pre : A)
    (K : it ≤ c.descending → ∀ st' pre', ∃ f r, descend c f st' head body (it + 1) pre' = some r) :
    ∃ f r, descend c f st head body it pre = some r := by
  obtain ⟨f1, st1, h1⟩ := H (computePost c st head pre)
  by_cases hl : c.ops.leq pre (newPre c st1 head) = true
  · refine ⟨f1 + 1, st1, ?_⟩
    rw [descend_succ, h1]; simp only; rw [if_pos hl]
  · by_cases hi : it > c.descending
    · refine ⟨f1 + 1, st1, ?_⟩
      rw [descend_succ, h1]; simp only; rw [if_neg hl, if_pos hi]
    · obtain ⟨f2, r, h2⟩ := K (by omega)
        { st1 with pre := upd st1.pre head (refine c it pre (newPre c st1 head)) }
        (refine c it pre (newPre c st1 head))
      refine ⟨max f1 f2 + 1, r, ?_⟩
      rw [descend_succ, visitList_mono h1 (Nat.le_max_left f1 f2)]; simp only
      rw [if_neg hl, if_neg hi]
      exact descend_mono h2 (Nat.le_max_right f1 f2)

theorem descend_total (c : Ctx A) (head : Nat) (body : List Comp)
    (H : ∀ st, ∃ f r, visitList c f st body = some r) :
    ∀ k it st pre, c.descending + 1 - it ≤ k →
      ∃ f r, descend c f st head body it pre = some r := by
  intro k
  induction k with
  | zero =>
    intro it st pre hk
    exact descend_step c head body H it st pre (fun h => by omega)
  | succ k ih =>
    intro it st pre hk
    exact descend_step c head body H it st pre (fun h st' pre' => ih (it + 1) st' pre' (by omega))

/-- one iteration of the increasing sequence -/
theorem ascend_step (c : Ctx A) (head : Nat) (body : List Comp)
    (H : ∀ st, ∃ f r, visitList c f st body = some r) (it : Nat) (st : St A) (pre : A)
    (K : ∀ st' np, c.ops.leq np pre = false →
      ∃ f r, ascend c f st' head body (it + 1) (extrapolate c it pre np) = some r) :
    ∃ f r, ascend c f st head body it pre = some r := by
  obtain ⟨f1, st1, h1⟩ := H (computePost c { st with pre := upd st.pre head pre } head pre)
  by_cases hl : c.ops.leq (newPre c st1 head) pre = true
  · refine ⟨f1 + 1, ({ st1 with pre := upd st1.pre head (newPre c st1 head) }, newPre c st1 head), ?_⟩
    rw [ascend_succ, h1]; simp only; rw [if_pos hl]
  · obtain ⟨f2, r, h2⟩ := K st1 (newPre c st1 head) (by simpa using hl)
    refine ⟨max f1 f2 + 1, r, ?_⟩
    rw [ascend_succ, visitList_mono h1 (Nat.le_max_left f1 f2)]; simp only
    rw [if_neg hl]
    exact ascend_mono h2 (Nat.le_max_right f1 f2)

/-- beyond the delay every non-converged iteration is a strict widening step -/
theorem ascend_total_widen (c : Ctx A) (wf : WellFounded (WidenStep c)) (head : Nat)
    (body : List Comp) (H : ∀ st, ∃ f r, visitList c f st body = some r) :
    ∀ pre it st, c.delay < it → ∃ f r, ascend c f st head body it pre = some r := by
  intro pre
  induction pre using wf.induction with
  | _ pre ih =>
    intro it st hit
    refine ascend_step c head body H it st pre (fun st' np hnp => ?_)
    have he : extrapolate c it pre np = c.ops.widen pre np := by
      simp [extrapolate]; omega
    rw [he]
    exact ih _ ⟨np, hnp, rfl⟩ (it + 1) st' (by omega)

theorem ascend_total (c : Ctx A) (wf : WellFounded (WidenStep c)) (head : Nat)
    (body : List Comp) (H : ∀ st, ∃ f r, visitList c f st body = some r) :
    ∀ k it st pre, c.delay + 1 - it ≤ k → ∃ f r, ascend c f st head body it pre = some r := by
  intro k
  induction k with
  | zero =>
    intro it st pre hk
    exact ascend_total_widen c wf head body H pre it st (by omega)
  | succ k ih =>
    intro it st pre hk
    exact ascend_step c head body H it st pre (fun st' np _ => ih (it + 1) st' _ (by omega))

theorem visitComp_cycle_total (c : Ctx A) (wf : WellFounded (WidenStep c)) (head : Nat)
    (body : List Comp) (H : ∀ st, ∃ f r, visitList c f st body = some r) (st : St A) :
    ∃ f r, visitComp c f st (.cycle head body) = some r := by
  by_cases hs : (st.skip && !(st.skip && (Comp.cycle head body).member c.entry)) = true
  · exact ⟨1, st, by rw [visitComp_cycle, if_pos hs]⟩
  · obtain ⟨f1, ⟨st1, p1⟩, h1⟩ := ascend_total c wf head body H (c.delay + 1) 1
      { st with skip := false } (cyclePre c st head) (by omega)
    by_cases hd : c.descending = 0
    · refine ⟨f1 + 1, st1, ?_⟩
      rw [visitComp_cycle, if_neg hs, h1]; simp only; rw [if_pos hd]
    · obtain ⟨f2, r, h2⟩ := descend_total c head body H (c.descending + 1) 1 st1 p1 (by omega)
      refine ⟨max f1 f2 + 1, r, ?_⟩
      rw [visitComp_cycle, if_neg hs, ascend_mono h1 (Nat.le_max_left f1 f2)]; simp only
      rw [if_neg hd]
      exact descend_mono h2 (Nat.le_max_right f1 f2)

mutual
theorem visitComp_total (c : Ctx A) (wf : WellFounded (WidenStep c)) :
    ∀ (x : Comp) (st : St A), ∃ f r, visitComp c f st x = some r
  | .vertex v, st => ⟨1, _, visitComp_vertex c 0 st v⟩
  | .cycle head body, st =>
    visitComp_cycle_total c wf head body (fun st => visitList_total c wf body st) st
theorem visitList_total (c : Ctx A) (wf : WellFounded (WidenStep c)) :
    ∀ (xs : List Comp) (st : St A), ∃ f r, visitList c f st xs = some r
  | [], st => ⟨1, st, visitList_nil c 0 st⟩
  | x :: xs, st => by
    obtain ⟨f1, st1, h1⟩ := visitComp_total c wf x st
    obtain ⟨f2, r, h2⟩ := visitList_total c wf xs st1
    refine ⟨max f1 f2 + 1, r, ?_⟩
    rw [visitList_cons, visitComp_mono h1 (Nat.le_max_left f1 f2)]
    exact visitList_mono h2 (Nat.le_max_right f1 f2)
end

theorem run_total (c : Ctx A) (wf : WellFounded (WidenStep c)) (w : List Comp) :
    ∃ f r, run c f w = some r :=
  visitList_total c wf w _

end Fix
end Crab
