import CrabModel.Transform.Liveness
import CrabProofs.Lemmas.TIRSem

/-!
  Liveness: the specification `LiveAt` is what matters for executions (states that agree on
  the live variables have the same executions); every solution of the specification equations
  contains `LiveAt`; the coded liveness is such a solution when no block contains `unreachable`
  (or with the repair) and the seed reaches the exit block (or with the repair).
-/
namespace Crab
namespace TIR

theorem VarSet.mem_diff {a b : VarSet} {x : Var} : x ∈ VarSet.diff a b ↔ x ∈ a ∧ x ∉ b := by
  simp [VarSet.diff]

theorem VarSet.subset_iff {a b : VarSet} : VarSet.subset a b = true ↔ ∀ x, x ∈ a → x ∈ b := by
  simp [VarSet.subset]

theorem uses_unreachable {s : Stmt} (h : s.isUnreachable = true) : s.uses = [] := by
  cases s <;> simp_all [Stmt.isUnreachable, Stmt.uses]

theorem defs_unreachable {s : Stmt} (h : s.isUnreachable = true) : s.defs = [] := by
  cases s <;> simp_all [Stmt.isUnreachable, Stmt.defs]

theorem stepStmt_unreachable {s : Stmt} (σ : State) (hv : Int) (h : s.isUnreachable = true) :
    stepStmt s σ hv = .stop none .blocked := by
  cases s <;> simp_all [Stmt.isUnreachable, stepStmt]

/-! ### states that agree on the live variables have the same executions -/

theorem exec_agree (P : Prog) {stmts : List Stmt} {l : Label} {σ : State} {t : List Event} {o : Outcome}
    (h : Exec P stmts l σ t o) :
    ∀ σ' : State, (∀ y, LiveAt P stmts l y → σ y = σ' y) → Exec P stmts l σ' t o := by
  induction h with
  | @exit l σ hex =>
    intro σ' hag
    have : P.outputs.map σ = P.outputs.map σ' := by
      apply List.map_congr_left
      intro y hy
      exact hag y (LiveAt.out hex hy)
    rw [this]
    exact Exec.exit hex
  | goto hex hmem _ ih =>
    intro σ' hag
    exact Exec.goto hex hmem (ih σ' (fun y hy => hag y (LiveAt.goto hex hmem hy)))
  | stuck hex hs =>
    intro σ' _
    exact Exec.stuck hex hs
  | @cont s rest l σ σ1 ev t o hv hstep _ ih =>
    intro σ' hag
    have hrel := stepStmt_agree s σ σ' hv (fun y hy => hag y (LiveAt.here hy))
    rw [hstep] at hrel
    cases hs' : stepStmt s σ' hv with
    | stop e o' => rw [hs'] at hrel; exact absurd hrel (by simp [StepRes.Rel])
    | cont σ1' ev' =>
      rw [hs'] at hrel
      obtain ⟨hev, hst⟩ := hrel
      subst hev
      have hnu : s.isUnreachable = false := by
        cases hu : s.isUnreachable with
        | false => rfl
        | true => rw [stepStmt_unreachable σ hv hu] at hstep; cases hstep
      refine Exec.cont hv hs' (ih σ1' ?_)
      intro y hy
      apply hst
      by_cases hd : y ∈ s.defs
      · exact Or.inl hd
      · exact Or.inr (hag y (LiveAt.later hnu hd hy))
  | @stop s rest l σ ev o hv hstep =>
    intro σ' hag
    have hrel := stepStmt_agree s σ σ' hv (fun y hy => hag y (LiveAt.here hy))
    rw [hstep] at hrel
    cases hs' : stepStmt s σ' hv with
    | cont σ1' ev' => rw [hs'] at hrel; exact absurd hrel (by simp [StepRes.Rel])
    | stop e o' =>
      rw [hs'] at hrel
      obtain ⟨hev, ho⟩ := hrel
      subst hev; subst ho
      exact Exec.stop hv hs'

/-! ### every solution of the specification equations contains `LiveAt` -/

theorem mem_labels_of_block {P : Prog} {l : Label} {b : Block} (h : P.block? l = some b) :
    l ∈ P.labels := by
  unfold Prog.block? at h
  have hm := List.mem_of_find?_eq_some h
  have hl := List.find?_some h
  simp only [beq_iff_eq] at hl
  unfold Prog.labels
  exact List.mem_map.mpr ⟨b, hm, hl⟩

theorem mem_labels_of_succ {P : Prog} {l l' : Label} (h : l' ∈ P.succsOf l) : l ∈ P.labels := by
  unfold Prog.succsOf at h
  cases hb : P.block? l with
  | none => rw [hb] at h; simp at h
  | some b => exact mem_labels_of_block hb

/-- the exit label, if any, is a block -/
def Prog.exitPresent (P : Prog) : Prop := ∀ l, P.isExit l = true → l ∈ P.labels

theorem liveAt_sub_sol (P : Prog) (L : LiveMap) (hsol : isSpecSol P L = true) (hex : P.exitPresent)
    {stmts : List Stmt} {l : Label} {x : Var} (h : LiveAt P stmts l x) : x ∈ specIn stmts (L l) := by
  induction h with
  | @here s rest l x hu =>
    simp only [specIn]
    cases hs : s.isUnreachable with
    | true => rw [uses_unreachable hs] at hu; simp at hu
    | false => simp [hu]
  | later hnu hd _ ih =>
    simp only [specIn, hnu]
    simp only [Bool.false_eq_true, if_false, List.mem_append]
    exact Or.inl (VarSet.mem_diff.mpr ⟨ih, hd⟩)
  | @goto l l' x hne hmem _ ih =>
    simp only [specIn]
    have hl : l ∈ P.labels := mem_labels_of_succ hmem
    simp only [isSpecSol, List.all_eq_true] at hsol
    have h1 := hsol l hl
    simp only [hne, Bool.false_eq_true, if_false, List.all_eq_true] at h1
    exact (VarSet.subset_iff.mp (h1 l' hmem)) x ih
  | @out l x hx hm =>
    simp only [specIn]
    have hl : l ∈ P.labels := hex l hx
    simp only [isSpecSol, List.all_eq_true] at hsol
    have h1 := hsol l hl
    simp only [hx, if_true] at h1
    exact (VarSet.subset_iff.mp h1) x hm

/-! ### the coded liveness -/

/-- no block contains an `unreachable` statement -/
def Prog.noUnreachable (P : Prog) : Bool :=
  P.blocks.all (fun b => b.stmts.all (fun s => !s.isUnreachable))

theorem killGen_spec (stmts : List Stmt) (hnu : stmts.all (fun s => !s.isUnreachable) = true) :
    ∃ kill gen, killGen stmts = some (kill, gen) ∧
      ∀ (out : VarSet) (x : Var), x ∈ specIn stmts out → x ∈ VarSet.diff out kill ++ gen := by
  induction stmts with
  | nil => exact ⟨[], [], rfl, fun out x hx => by simpa [specIn, VarSet.diff] using hx⟩
  | cons s rest ih =>
    simp only [List.all_cons, Bool.and_eq_true, Bool.not_eq_eq_eq_not, Bool.not_true] at hnu
    obtain ⟨kill, gen, hkg, hsp⟩ := ih hnu.2
    refine ⟨kill ++ s.defs, VarSet.diff gen s.defs ++ s.uses, ?_, ?_⟩
    · simp [killGen, hkg, hnu.1]
    · intro out x hx
      simp only [specIn, hnu.1, Bool.false_eq_true, if_false, List.mem_append] at hx
      simp only [List.mem_append]
      rcases hx with hx | hx
      · obtain ⟨h1, h2⟩ := VarSet.mem_diff.mp hx
        have := hsp out x h1
        simp only [List.mem_append] at this
        rcases this with h3 | h3
        · obtain ⟨h4, h5⟩ := VarSet.mem_diff.mp h3
          exact Or.inl (VarSet.mem_diff.mpr ⟨h4, by simp [h5, h2]⟩)
        · exact Or.inr (Or.inl (VarSet.mem_diff.mpr ⟨h3, h2⟩))
      · exact Or.inr (Or.inr hx)

theorem stmts_noUnreachable {P : Prog} (h : P.noUnreachable = true) (l : Label) :
    (P.stmtsOf l).all (fun s => !s.isUnreachable) = true := by
  unfold Prog.stmtsOf
  cases hb : P.block? l with
  | none => simp
  | some b =>
    simp only
    unfold Prog.noUnreachable at h
    rw [List.all_eq_true] at h
    unfold Prog.block? at hb
    exact h b (List.mem_of_find?_eq_some hb)

/-- `analyze` contains the specification transfer function when the block has no `unreachable`
    statement, or with the repair -/
theorem specIn_sub_blockIn (v : Variant) (P : Prog) (l : Label) (out : VarSet)
    (h : v.unreachGen = true ∨ P.noUnreachable = true) (x : Var)
    (hx : x ∈ specIn (P.stmtsOf l) out) : x ∈ blockIn v (P.stmtsOf l) out := by
  unfold blockIn
  cases hv : v.unreachGen with
  | true => simpa using hx
  | false =>
    simp only [Bool.false_eq_true, if_false]
    rcases h with h | h
    · rw [hv] at h; cases h
    · obtain ⟨kill, gen, hkg, hsp⟩ := killGen_spec (P.stmtsOf l) (stmts_noUnreachable h l)
      rw [hkg]
      exact hsp out x hx

theorem bwdPass_flag (v : Variant) (P : Prog) (seed : Option Label) :
    ∀ (order : List Label) (m : LiveMap), (bwdPass v P seed order m true).2 = true := by
  intro order
  induction order with
  | nil => intro m; rfl
  | cons n rest ih =>
    intro m
    simp only [bwdPass]
    split
    · exact ih m
    · exact ih _

/-- a round without change: the map is unchanged and every block of the order is stable -/
theorem bwdPass_stable (v : Variant) (P : Prog) (seed : Option Label) :
    ∀ (order : List Label) (m m' : LiveMap), bwdPass v P seed order m false = (m', false) →
      m' = m ∧ ∀ n, n ∈ order →
        VarSet.subset (blockIn v (P.stmtsOf n) (outOf P seed m n)) (m n) = true := by
  intro order
  induction order with
  | nil =>
    intro m m' h
    simp only [bwdPass, Prod.mk.injEq] at h
    exact ⟨h.1.symm, fun n hn => by simp at hn⟩
  | cons n rest ih =>
    intro m m' h
    simp only [bwdPass] at h
    split at h
    · rename_i hsub
      obtain ⟨h1, h2⟩ := ih m m' h
      refine ⟨h1, ?_⟩
      intro n' hn'
      rcases List.mem_cons.mp hn' with rfl | hn'
      · exact hsub
      · exact h2 n' hn'
    · have := bwdPass_flag v P seed rest (m.set n (blockIn v (P.stmtsOf n) (outOf P seed m n) ++ m n))
      rw [h] at this
      cases this

theorem bwdIter_stable (v : Variant) (P : Prog) (seed : Option Label) (order : List Label) :
    ∀ (fuel : Nat) (m r : LiveMap), bwdIter v P seed order fuel m = some r →
      ∀ n, n ∈ order → VarSet.subset (blockIn v (P.stmtsOf n) (outOf P seed r n)) (r n) = true := by
  intro fuel
  induction fuel with
  | zero => intro m r h; simp [bwdIter] at h
  | succ f ih =>
    intro m r h
    simp only [bwdIter] at h
    split at h
    · exact ih _ r h
    · rename_i m' heq
      simp only [Option.some.injEq] at h
      subst h
      obtain ⟨h1, h2⟩ := bwdPass_stable v P seed order m m' heq
      subst h1
      exact h2

/-- the seed reaches the exit block (always true with the repair, or when nothing is live at
    the exit) -/
def seedOk (v : Variant) (P : Prog) (order : List Label) : Prop :=
  ∀ x, P.exit = some x → seedLabel v P order = some x ∨ P.liveAtExit = []

/-- the coded liveness is a solution of the specification equations under the stated
    hypotheses -/
theorem coded_isSpecSol (v : Variant) (P : Prog) (order : List Label) (L : LiveMap)
    (h : codedLiveOut v P order = some L)
    (hord : ∀ l, l ∈ P.labels → l ∈ order)
    (hsucc : ∀ l l', l' ∈ P.succsOf l → l' ∈ P.labels)
    (hun : v.unreachGen = true ∨ P.noUnreachable = true)
    (hseed : seedOk v P order) : isSpecSol P L = true := by
  unfold codedLiveOut at h
  simp only at h
  cases hit : bwdIter v P (seedLabel v P order) order ((P.blocks.length + 1) * (P.nvars + 2) + 2) (fun _ => []) with
  | none => rw [hit] at h; cases h
  | some inM =>
    rw [hit] at h
    simp only [Option.some.injEq] at h
    subst h
    have hst := bwdIter_stable v P _ order _ _ inM hit
    simp only [isSpecSol, List.all_eq_true]
    intro l hl
    have hlo : l ∈ order := hord l hl
    have hlo' : order.contains l = true := by simpa using hlo
    split
    · rename_i hx
      apply VarSet.subset_iff.mpr
      intro x hxm
      have hx' : P.exit = some l := by simpa [Prog.isExit] using hx
      rcases hseed l hx' with hs | hs
      · simp [outOf, hs, hxm]
      · rw [hs] at hxm; simp at hxm
    · simp only [List.all_eq_true]
      intro l' hl'
      have hl'lab : l' ∈ P.labels := hsucc l l' hl'
      have hl'o : l' ∈ order := hord l' hl'lab
      have hl'o' : order.contains l' = true := by simpa using hl'o
      simp only [hl'o', if_true]
      apply VarSet.subset_iff.mpr
      intro x hx
      have h1 := specIn_sub_blockIn v P l' (outOf P (seedLabel v P order) inM l') hun x hx
      have h2 := (VarSet.subset_iff.mp (hst l' hl'o)) x h1
      simp only [outOf, List.mem_append, List.mem_flatMap]
      exact Or.inr ⟨l', hl', h2⟩

end TIR
end Crab
