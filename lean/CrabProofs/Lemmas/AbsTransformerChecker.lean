import CrabProofs.Lemmas.AbsTransformerBlock
import CrabProofs.Lemmas.CheckerSound

/-!
  The statement loop of the assertion checker (`Analysis.checkStmts`, model of
  `intra_checker::run`) re-propagates the block-entry invariant with the analyzer's own
  transformer.  `checkStmts_sound` (CheckerSound.lean) asks for a transformer that is sound on
  EVERY statement and state; `intra_abs_transformer` is sound on the statements that define
  declared variables, in states with the declared variables.  This file proves the loop sound
  relative to a statement predicate `P` and a state invariant `I` kept by every step, and
  instantiates it with `execStmt`.
-/
namespace Crab
namespace Analysis
open Crab.IR

variable {A : Type}

theorem nextInv_sound_on (D : CheckDom A) (tr : Stmt → A → A) (s : Stmt) (a : A)
    (σ σ1 : State) (hγ : D.γ a σ) (ht : D.γ (tr s a) σ1) : D.γ (nextInv D tr s a) σ1 := by
  cases s <;> try exact ht
  case assert c =>
    simp only [nextInv]
    split
    · rename_i hu
      exact absurd hγ (checkAssert_unreachable D a c σ (by simpa using hu))
    · exact ht
  case bassert b =>
    simp only [nextInv]
    split
    · rename_i hu
      exact absurd hγ (checkBoolAssert_unreachable D a b σ (by simpa using hu))
    · exact ht

/-- the statement loop, for a transformer sound on the statements of `P` in the states of `I` -/
theorem checkStmts_sound_on (D : CheckDom A) (tr : Stmt → A → A) (P : Stmt → Prop)
    (I : State → Prop)
    (hI : ∀ s σ ch σ', I σ → stepStmt s σ ch = .next σ' → I σ')
    (htr : ∀ s a σ ch σ', P s → I σ → D.γ a σ → stepStmt s σ ch = .next σ' → D.γ (tr s a) σ')
    (b : Nat) :
    ∀ (ss : List Stmt) (i : Nat) (a : A) (σ : State) (ch : List Int), (∀ s ∈ ss, P s) → I σ →
      D.γ a σ → ∀ (j : Nat) (σ' : State) (ok : Bool) (v : CheckKind),
        Event.check b j σ' ok ∈ (runStmts b i ss σ ch).events →
        (j, v) ∈ checkStmts D tr i ss a →
        v ≠ .unreachable ∧ (v = .safe → ok = true) := by
  intro ss
  induction ss with
  | nil => intro i a σ ch _ _ _ j σ' ok v h; simp [runStmts] at h
  | cons s ss ih =>
    intro i a σ ch hP hIσ hγ j σ' ok v hev hv
    rw [checkStmts_cons] at hv
    simp only [List.mem_append] at hv
    rcases runStmts_cons_mem b i s ss σ ch _ hev with he | ⟨σ1, hs, htail⟩
    · injection he with _ hj _ hok
      rcases hv with hv | hv
      · obtain ⟨_, hnu, hsafe⟩ := headVerdict_sound D s a i j v σ
          (if s.usesChoice then popChoice ch else (0, ch)).1 hγ hv
        refine ⟨hnu, fun hvs => ?_⟩
        have := hsafe hvs
        rw [hok]
        split
        · rename_i hf; exact absurd hf this
        · rfl
      · have := checkStmts_index_ge D tr _ _ _ _ _ hv; omega
    · rcases hv with hv | hv
      · obtain ⟨hj, _, _⟩ := headVerdict_sound D s a i j v σ 0 hγ hv
        obtain ⟨_, _, _, he, hle⟩ := runStmts_events_check b ss (i + 1) σ1 _ _ htail
        injection he with _ hj' _ _
        omega
      · have ht := htr s a σ _ σ1 (hP s List.mem_cons_self) hIσ hγ hs
        exact ih (i + 1) _ σ1 _ (fun t h => hP t (List.mem_cons_of_mem _ h)) (hI s σ _ σ1 hIσ hs)
          (nextInv_sound_on D tr s a σ σ1 hγ ht) j σ' ok v htail hv

/-- the checker loop run with `intra_abs_transformer` (sanity flag off) on one block -/
theorem checkBlock_sound_exec (N : NDom A) (L : N.Laws) (C : CheckDom A) (hC : C.γ = N.γ)
    (ia : Bool) (p : Program) (hp : p.defsOk = true) (pre : Nat → A) (b : Nat) (σ : State)
    (ch : List Int) (hsh : Shape p.nI p.nB σ) (hγ : N.γ (pre b) σ)
    (j : Nat) (σ' : State) (ok : Bool) (v : CheckKind)
    (hev : Event.check b j σ' ok ∈ (runBlock p b σ ch).events)
    (hv : (j, v) ∈ checkBlock C (execStmt N ia) p pre b) :
    v ≠ .unreachable ∧ (v = .safe → ok = true) := by
  refine checkStmts_sound_on C (execStmt N ia) (fun s => s.defOk p.nI p.nB = true)
    (Shape p.nI p.nB) (fun s σ ch σ' h hs => stepStmt_shape h hs) ?_ b (p.block b).stmts 0 (pre b)
    σ ch (defsOk_block p hp b) hsh (by rw [hC]; exact hγ) j σ' ok v hev hv
  intro s a σ ch σ' hP hI hg hs
  rw [hC] at hg ⊢
  exact execStmtE_sound N L ⟨ia, false⟩ p.nI p.nB s a _ σ σ' ch hP hI hg hs
    (execStmtE_sanity_off N ia s a)

end Analysis
end Crab
