import CrabProofs.Lemmas.WtoStepE

/-! Root pop, case "vertex": the root is not in `loop_nodes`. -/
namespace Crab
namespace Wto

theorem Inv.node_lt_size {g : Graph} {K : Nat → Prop} {st0 : St} {part0 : List WtoC} {v : Nat}
    {p : GF} {gs : List GF} {ln : List Nat} {part : List WtoC} {st : St} {W : List WtoC}
    (h : Inv g K st0 part0 v (p :: gs) ln part st W) (hK : ClosedK g K st0) : p.f.node < st.dfn.size := by
  rw [h.size_eq]; exact (hK _ (h.stk_K _ h.node_mem_stk).1).1

theorem Inv.step_vertex {g : Graph} {K : Nat → Prop} {st0 : St} {part0 : List WtoC} {v : Nat}
    {p : GF} {gs : List GF} {ln : List Nat} {part : List WtoC} {st : St} {W : List WtoC}
    (h : Inv g K st0 part0 v (p :: gs) ln part st W) (hK : ClosedK g K st0) (hs : p.f.succs = [])
    (hroot : p.f.min = dn st.dfn p.f.node) (hln : p.f.node ∉ ln)
    {el : Nat} {stack1 : List Nat} (hst : st.stack = el :: stack1) :
    Inv g K st0 part0 v gs ln (.vertex p.f.node :: part)
      { st with dfn := setDfn st.dfn p.f.node .inf, stack := stack1 } (.vertex p.f.node :: W) := by
  obtain ⟨habove, hsucc⟩ := h.root_not_loop hs hroot hln
  have hsz := h.node_lt_size hK
  have hseg : p.seg = [p.f.node] := by simp [GF.seg, habove]
  have hstack : stack1 = stk gs ++ st0.stack := by
    have := h.stack_eq
    rw [stk_cons, hseg, hst] at this
    simp only [List.cons_append, List.cons.injEq] at this
    exact this.2
  have hnW : p.f.node ∉ flattenL W := fun hw => h.disj _ hw h.node_mem_stk
  have hfl : flattenL (WtoC.vertex p.f.node :: W) = p.f.node :: flattenL W := by
    simp [flattenL, flattenC]
  apply h.pop_root
  · rw [h.part_eq]; rfl
  · exact hstack
  · simp
  · exact Nat.le_refl _
  · intro x
    rw [hfl, hseg]; simp
  · rw [hfl]; exact List.nodup_cons.2 ⟨hnW, h.W_nodup⟩
  · intro x hx
    rw [hfl] at hx
    simp only
    rw [getDfn_setDfn _ _ _ _ hsz]
    rcases List.mem_cons.1 hx with rfl | hx
    · simp
    · rw [if_neg (fun e : x = p.f.node => hnW (e ▸ hx))]
      exact h.dfn_W x hx
  · intro x hx
    rw [hfl] at hx
    simp only [List.mem_cons, not_or] at hx
    simp only
    rw [getDfn_setDfn_ne _ _ _ _ hx.1]
  · intro x hx y hy
    rw [hfl] at hx
    rcases List.mem_cons.1 hx with rfl | hx
    · rcases hsucc y hy with hd | hd
      · right
        exact EdgeOK.cross (W2 := [WtoC.vertex p.f.node]) (W1 := W) (by simp [flattenL, flattenC]) hd
      · exact Or.inl hd
    · rcases h.W_edges x hx y hy with hd | hd
      · exact Or.inl hd
      · exact Or.inr (hd.append_left [WtoC.vertex p.f.node])

end Wto
end Crab
