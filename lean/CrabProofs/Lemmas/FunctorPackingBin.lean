import CrabProofs.Lemmas.FunctorPackingStmt

/-!
Binary operations of the packing domain, structural part: what `restrictTo`, `mergeAll` and
`combineLoop` do to the partitions (invariant, coarsening, and the fact that the partition built by
`mergeAll` is the FINEST common coarsening: it is below every disjoint partition that is above both
arguments — this is what aligns the two operands of `join_or_widening` / `meet_or_narrowing`).
-/
namespace Crab
namespace Dom
namespace Fct

variable {V : Type} [DecidableEq V]

namespace PK
variable {N : NDom V}

/-- all variables of `p` are variables of `q` -/
def Sub (p q : Pack N) : Prop := ∀ v ∈ p.vars, v ∈ q.vars

theorem Sub.refl (p : Pack N) : Sub p p := fun _ h => h
theorem Sub.trans {p q r : Pack N} (h1 : Sub p q) (h2 : Sub q r) : Sub p r := fun v hv => h2 v (h1 v hv)

/-- every class of `l` lies inside one class of `Q` -/
def Coarser (Q l : List (Pack N)) : Prop := ∀ p ∈ l, ∃ q ∈ Q, Sub p q

theorem containsV_iff {l : List (Pack N)} {v : V} : containsV l v = true ↔ ∃ p ∈ l, v ∈ p.vars := by
  unfold containsV
  rw [List.any_eq_true]
  constructor
  · rintro ⟨p, hp, hc⟩; exact ⟨p, hp, List.contains_iff_mem.1 hc⟩
  · rintro ⟨p, hp, hc⟩; exact ⟨p, hp, List.contains_iff_mem.2 hc⟩

/-- in a disjoint family of non-empty classes, a class that lies inside two classes pins them -/
theorem sub_unique {Q : List (Pack N)} (hQ : WFl Q) {p q q' : Pack N} (hne : p.vars ≠ []) (hq : q ∈ Q)
    (hq' : q' ∈ Q) (h : Sub p q) (h' : Sub p q') : q = q' := by
  obtain ⟨v, hv⟩ := List.exists_mem_of_ne_nil _ hne
  exact wfl_unique hQ hq hq' (h v hv) (h' v hv)

/-! ### `restrictTo` -/

theorem restrictTo_mem {l other : List (Pack N)} {q : Pack N} (h : q ∈ restrictTo l other) :
    ∃ p ∈ l, q.vars = p.vars.filter (fun v => containsV other v) ∧ q.vars ≠ [] ∧
      q.val = (p.vars.filter (fun v => !containsV other v)).foldl N.forget p.val := by
  unfold restrictTo at h
  rw [List.mem_filterMap] at h
  obtain ⟨p, hp, hf⟩ := h
  simp only at hf
  split at hf
  · simp at hf
  · rename_i hne
    simp only [Option.some.injEq] at hf
    subst hf
    refine ⟨p, hp, rfl, ?_, rfl⟩
    intro he; apply hne; simp only at he; rw [he]; rfl

theorem restrictTo_wfl {l : List (Pack N)} (other : List (Pack N)) (h : WFl l) : WFl (restrictTo l other) := by
  constructor
  · unfold restrictTo
    apply List.Pairwise.filterMap _ _ h.1
    intro a a' hd b hb b' hb'
    simp only at hb hb'
    split at hb
    · simp at hb
    · split at hb'
      · simp at hb'
      · simp only [Option.some.injEq] at hb hb'
        subst hb; subst hb'
        intro v hv hv'
        exact hd v (List.mem_filter.1 hv).1 (List.mem_filter.1 hv').1
  · intro q hq
    obtain ⟨p, _, _, hne, _⟩ := restrictTo_mem hq
    exact hne

/-- the variables that survive are the common ones -/
theorem restrictTo_vars {l other : List (Pack N)} {q : Pack N} (h : q ∈ restrictTo l other) {v : V}
    (hv : v ∈ q.vars) : containsV other v = true ∧ ∃ p ∈ l, v ∈ p.vars := by
  obtain ⟨p, hp, he, _, _⟩ := restrictTo_mem h
  rw [he] at hv
  have := List.mem_filter.1 hv
  exact ⟨this.2, p, hp, this.1⟩

theorem restrictTo_keeps {l other : List (Pack N)} {p : Pack N} (hp : p ∈ l) {v : V} (hv : v ∈ p.vars)
    (hc : containsV other v = true) : ∃ q ∈ restrictTo l other, v ∈ q.vars := by
  have hk : v ∈ p.vars.filter (fun v => containsV other v) := List.mem_filter.2 ⟨hv, hc⟩
  refine ⟨⟨p.vars.filter (fun v => containsV other v),
    (p.vars.filter (fun v => !containsV other v)).foldl N.forget p.val⟩, ?_, hk⟩
  unfold restrictTo
  rw [List.mem_filterMap]
  refine ⟨p, hp, ?_⟩
  simp only
  split
  · rename_i he
    rw [List.isEmpty_iff] at he
    rw [he] at hk; simp at hk
  · rfl

/-- forgetting variables: a state that differs only on the forgotten variables is accepted -/
theorem foldl_forget_sound : ∀ (xs : List V) (b : N.B) (t t' : St V), N.γ b t' → (∀ u, u ∉ xs → t u = t' u) →
    N.γ (xs.foldl N.forget b) t
  | [], b, t, t', h, he => by
    have : t = t' := funext (fun u => he u (by simp))
    rw [this]; exact h
  | x :: xs, b, t, t', h, he => by
    simp only [List.foldl_cons]
    apply foldl_forget_sound xs _ t (t'.set x (t x)) (N.forget_sound b x t' (t x) h)
    intro u hu
    unfold St.set
    split
    · rename_i hux; rw [hux]
    · rename_i hux
      exact he u (by simp [hux, hu])

theorem restrictTo_γc {l : List (Pack N)} (other : List (Pack N)) {s : St V} (h : ∀ p ∈ l, Pack.γc p s) :
    ∀ q ∈ restrictTo l other, Pack.γc q s := by
  intro q hq t ht
  obtain ⟨p, hp, hvars, _, hval⟩ := restrictTo_mem hq
  rw [hval]
  -- `t` with the values of `s` on the forgotten variables of the class
  let t' : St V := fun u => if u ∈ p.vars.filter (fun v => !containsV other v) then s u else t u
  apply foldl_forget_sound _ _ t t'
  · apply h p hp
    intro v hv
    by_cases hc : containsV other v = true
    · have hk : v ∈ q.vars := by rw [hvars]; exact List.mem_filter.2 ⟨hv, hc⟩
      have hnf : v ∉ p.vars.filter (fun v => !containsV other v) := by
        intro hm; have := (List.mem_filter.1 hm).2; simp [hc] at this
      simp only [t', hnf, if_false]
      exact ht v hk
    · have hf : v ∈ p.vars.filter (fun v => !containsV other v) :=
        List.mem_filter.2 ⟨hv, by simpa using hc⟩
      simp only [t', hf, if_true]
  · intro u hu
    simp only [t', hu, if_false]

/-! ### `mergeAll` -/

/-- structure of a successful `mergeAll` -/
theorem mergeAll_struct (fresh : Pack N → N.B) : ∀ (cs l l2 : List (Pack N)), mergeAll fresh cs l = some l2 →
    (WFl l → WFl l2) ∧ Coarser l2 l ∧ Coarser l2 cs
  | [], l, l2, h => by
    simp only [mergeAll, Option.some.injEq] at h; subst h
    exact ⟨id, fun p hp => ⟨p, hp, Sub.refl p⟩, fun p hp => by simp at hp⟩
  | c :: cs, l, l2, h => by
    simp only [mergeAll] at h
    split at h
    · simp at h
    · rename_i acc r hm
      have sp := merge_spec hm
      obtain ⟨h1, h2, h3⟩ := mergeAll_struct fresh cs (acc :: r) l2 h
      refine ⟨fun hw => h1 (sp.wfl hw), ?_, ?_⟩
      · intro p hp
        rcases sp.coarsens p hp with hr | hs
        · exact h2 p (List.mem_cons_of_mem _ hr)
        · obtain ⟨q, hq, hsq⟩ := h2 acc List.mem_cons_self
          exact ⟨q, hq, fun v hv => hsq v (hs v hv)⟩
      · intro p hp
        rcases List.mem_cons.1 hp with rfl | hp
        · obtain ⟨q, hq, hsq⟩ := h2 acc List.mem_cons_self
          exact ⟨q, hq, fun v hv => hsq v (sp.vars_sub v hv)⟩
        · exact h3 p hp

/-- the merged class lies inside the class of `Z` that contains the merged variables, for every
    disjoint `Z` above the current partition -/
theorem merge_within {fresh : N.B} {l : List (Pack N)} {vars : List V} {acc : Pack N} {r : List (Pack N)}
    (hm : merge fresh l vars = some (acc, r)) {Z : List (Pack N)} (hZ : WFl Z) (hl : Coarser Z l)
    {z : Pack N} (hz : z ∈ Z) (hv : ∀ v ∈ vars, v ∈ z.vars) : Sub acc z := by
  have sp := merge_spec hm
  intro u hu
  rcases sp.origin u hu with h | ⟨p, hp, hup, _, v, hvv, hvp⟩
  · exact hv u h
  · obtain ⟨zp, hzp, hsub⟩ := hl p hp
    have : zp = z := wfl_unique hZ hzp hz (hsub v hvp) (hv v hvv)
    rw [← this]; exact hsub u hup

/-- **finest**: every disjoint partition above `l` and above the classes `cs` is above the result -/
theorem mergeAll_finest (fresh : Pack N → N.B) {Z : List (Pack N)} (hZ : WFl Z) : ∀ (cs l l2 : List (Pack N)),
    mergeAll fresh cs l = some l2 → Coarser Z l → Coarser Z cs → Coarser Z l2
  | [], l, l2, h, hl, _ => by
    simp only [mergeAll, Option.some.injEq] at h; subst h; exact hl
  | c :: cs, l, l2, h, hl, hcs => by
    simp only [mergeAll] at h
    split at h
    · simp at h
    · rename_i acc r hm
      have sp := merge_spec hm
      apply mergeAll_finest fresh hZ cs (acc :: r) l2 h _ (fun p hp => hcs p (List.mem_cons_of_mem _ hp))
      intro p hp
      rcases List.mem_cons.1 hp with rfl | hp
      · obtain ⟨z, hz, hsub⟩ := hcs c List.mem_cons_self
        exact ⟨z, hz, merge_within hm hZ hl hz hsub⟩
      · exact hl p (sp.rest_sub p hp)

/-! ### `combineLoop` -/

theorem combineLoop_struct (g : N.B → N.B → N.B) (uf cb : Bool) (right2 : List (Pack N)) :
    ∀ (Rs left Z : List (Pack N)), combineLoop g uf cb right2 Rs left = some (.packs Z) →
      (WFl left → WFl Z) ∧ Coarser Z left ∧ Coarser Z Rs
  | [], left, Z, h => by
    simp only [combineLoop, Option.some.injEq, PK.packs.injEq] at h; subst h
    exact ⟨id, fun p hp => ⟨p, hp, Sub.refl p⟩, fun p hp => by simp at hp⟩
  | R :: Rs, left, Z, h => by
    simp only [combineLoop] at h
    split at h
    · simp at h
    · split at h
      · simp at h
      · rename_i q _
        split at h
        · split at h <;> simp at h
        · rename_i acc r hm
          split at h
          · simp at h
          · have sp := merge_spec hm
            obtain ⟨h1, h2, h3⟩ := combineLoop_struct g uf cb right2 Rs _ Z h
            have hacc : ∃ z ∈ Z, ∀ v ∈ acc.vars, v ∈ z.vars := by
              obtain ⟨z, hz, hs⟩ := h2 _ List.mem_cons_self
              exact ⟨z, hz, hs⟩
            refine ⟨?_, ?_, ?_⟩
            · intro hw
              apply h1
              have := sp.wfl hw
              rw [wfl_cons] at this
              rw [wfl_cons]; exact this
            · intro p hp
              rcases sp.coarsens p hp with hr | hs
              · exact h2 p (List.mem_cons_of_mem _ hr)
              · obtain ⟨z, hz, hsz⟩ := hacc
                exact ⟨z, hz, fun v hv => hsz v (hs v hv)⟩
            · intro p hp
              rcases List.mem_cons.1 hp with rfl | hp
              · obtain ⟨z, hz, hsz⟩ := hacc
                exact ⟨z, hz, fun v hv => hsz v (sp.vars_sub v hv)⟩
              · exact h3 p hp

end PK
end Fct
end Dom
end Crab
