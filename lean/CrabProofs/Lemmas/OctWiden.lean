import CrabModel.Dom.OctWiden
import CrabProofs.Lemmas.OctClose
import CrabProofs.Lemmas.DbmWiden

/-!
  Facts about the split-octagon widening model (`CrabModel/Dom/OctWiden.lean`):
  * every edge of `splitWiden U l r` has one of three origins (`splitWiden_cases`): an explicit
    edge of `r` that the unary bounds of `l` imply (right weight), an edge of `l` that `r` covers
    explicitly, or an edge of `l` that the unary bounds of `r` imply (left weight);
  * hence the result is implied by either operand (`splitWiden_sat_left/right`), its unary bounds
    are unary bounds of `l` with the same weight that `r` covers (`bnd_splitWiden`);
  * a failed inclusion test exhibits an uncovered edge (`leqV_false`), and then either a unary bound
    disappears or — all unary bounds kept — the relational edges NOT implied by the unary bounds
    become strictly fewer (`widenOV_measure`).
-/
namespace Crab
namespace OctW
open Dbm Octagon

variable {n : Nat}

/-! ### arithmetic -/

theorem tdiv2_eq (a : Int) : a.tdiv 2 = if 0 ≤ a then a / 2 else -((-a) / 2) := by
  split
  · rename_i h; exact Int.tdiv_eq_ediv_of_nonneg h
  · rename_i h
    have : a.tdiv 2 = -((-a).tdiv 2) := by rw [Int.neg_tdiv, Int.neg_neg]
    rw [this, Int.tdiv_eq_ediv_of_nonneg (by omega)]

theorem tdiv2_mono {a b : Int} (h : a ≤ b) : a.tdiv 2 ≤ b.tdiv 2 := by
  rw [tdiv2_eq, tdiv2_eq]; split <;> split <;> omega

theorem ediv2_le_tdiv2 (a : Int) : a / 2 ≤ a.tdiv 2 := by
  rw [tdiv2_eq]; split <;> omega

theorem le_some_false {a : W} {k : Int} : W.le a (some k) = false ↔ a = none ∨ ∃ x, a = some x ∧ k < x := by
  cases a with
  | none => simp [W.le]
  | some x => simp [W.le]

theorem hsum_some {a b : W} {q : Int} :
    hsum a b = some q ↔ ∃ p1 p2, a = some p1 ∧ b = some p2 ∧ q = (p1 + p2).tdiv 2 := by
  cases a <;> cases b <;> simp [hsum, eq_comm]

theorem hsum_none_left (b : W) : hsum none b = none := rfl
theorem hsum_none_right (a : W) : hsum a none = none := by cases a <;> rfl

theorem isRel_bar (i : Fin (2 * n)) : isRel i (bar i) = false := by
  simp [isRel, varOf_bar]

theorem isRel_ne {i j : Fin (2 * n)} (h : isRel i j = true) : i ≠ j := by
  intro e; subst e; simp [isRel] at h

/-- two different literals of the same variable are opposite -/
theorem eq_bar_of_not_isRel {i j : Fin (2 * n)} (h : isRel i j = false) (hne : i ≠ j) : j = bar i := by
  have hv : varOf i = varOf j := by simpa [isRel] using h
  have h1 : i.val / 2 = j.val / 2 := congrArg Fin.val hv
  have h2 : i.val ≠ j.val := fun e => hne (Fin.ext e)
  apply Fin.ext
  simp only [bar_val]
  split <;> omega

theorem implW_congr {m1 m2 : Oct n} (h : ∀ i, m1.get i (bar i) = m2.get i (bar i)) (i j : Fin (2 * n)) :
    implW m1 i j = implW m2 i j := by
  unfold implW
  have := h (bar j)
  rw [bar_bar] at this
  rw [h i, this]

/-- the weight read off the unary bounds is implied by the graph -/
theorem implW_sound {m : Oct n} {σ : State n} (h : γ m σ) {i j : Fin (2 * n)} {q : Int}
    (hq : implW m i j = some q) : ext σ i - ext σ j ≤ q := by
  obtain ⟨p1, p2, h1, h2, rfl⟩ := hsum_some.1 hq
  have a1 := h i (bar i) p1 h1
  have a2 := h (bar j) j p2 h2
  rw [ext_bar] at a1 a2
  have := ediv2_le_tdiv2 (p1 + p2)
  omega

/-! ### the three origins of an edge of the result -/

theorem stage1_some {l r : Oct n} {i j : Fin (2 * n)} {a : Int} (h : (stage1 l r).get i j = some a) :
    i ≠ j ∧ l.get i j = some a ∧ W.le (r.get i j) (some a) = true := by
  simp only [stage1, Mat.get_ofFn] at h
  cases hl : l.get i j with
  | none => rw [hl] at h; cases h
  | some e =>
    rw [hl] at h
    simp only at h
    split at h
    · rename_i hc
      cases h
      exact ⟨hc.1, rfl, hc.2⟩
    · cases h

theorem stage1_of {l r : Oct n} {i j : Fin (2 * n)} {a : Int} (hne : i ≠ j) (hl : l.get i j = some a)
    (hr : W.le (r.get i j) (some a) = true) : (stage1 l r).get i j = some a := by
  simp only [stage1, Mat.get_ofFn, hl]
  rw [if_pos ⟨hne, hr⟩]

theorem stage2_some {l r g1 : Oct n} {i j : Fin (2 * n)} {a : Int} (h : (stage2 l r g1).get i j = some a) :
    g1.get i j = some a ∨
      (l.get i j = some a ∧ isRel i j = true ∧ W.le (implW r i j) (some a) = true) := by
  simp only [stage2, Mat.get_ofFn] at h
  cases hg : g1.get i j with
  | some b => rw [hg] at h; exact Or.inl h
  | none =>
    rw [hg] at h
    cases hl : l.get i j with
    | none => rw [hl] at h; cases h
    | some e =>
      rw [hl] at h
      simp only at h
      split at h
      · rename_i hc
        cases h
        exact Or.inr ⟨rfl, hc.1, hc.2.1⟩
      · cases h

theorem stage3_some {U' : Fin (2 * n) → Bool} {l r g2 : Oct n} {i j : Fin (2 * n)} {a : Int}
    (h : (stage3 U' l r g2).get i j = some a) :
    (r.get i j = some a ∧ isRel i j = true ∧ W.le (implW l i j) (some a) = true) ∨ g2.get i j = some a := by
  simp only [stage3, Mat.get_ofFn] at h
  cases hr : r.get i j with
  | none => rw [hr] at h; exact Or.inr h
  | some e =>
    rw [hr] at h
    simp only at h
    split at h
    · rename_i hc
      cases h
      exact Or.inl ⟨rfl, hc.1, hc.2.1⟩
    · exact Or.inr h

/-- every edge `(i, j, a)` of the result is
    (A) an explicit edge of `r` between two variables that the unary bounds of `l` imply, or
    (B) an edge of `l` covered by an explicit edge of `r`, or
    (C) an edge of `l` between two variables covered by the unary bounds of `r` -/
theorem splitWiden_cases {U : Fin (2 * n) → Bool} {l r : Oct n} {i j : Fin (2 * n)} {a : Int}
    (h : (splitWiden U l r).get i j = some a) :
    (r.get i j = some a ∧ isRel i j = true ∧ W.le (implW l i j) (some a) = true) ∨
    (l.get i j = some a ∧ i ≠ j ∧ W.le (r.get i j) (some a) = true) ∨
    (l.get i j = some a ∧ isRel i j = true ∧ W.le (implW r i j) (some a) = true) := by
  unfold splitWiden at h
  rcases stage3_some h with hA | h2
  · exact Or.inl hA
  · rcases stage2_some h2 with h1 | hC
    · obtain ⟨h1, h2, h3⟩ := stage1_some h1
      exact Or.inr (Or.inl ⟨h2, h1, h3⟩)
    · exact Or.inr (Or.inr hC)

/-- unary bounds: only kept (left weight, covered by the explicit bound of `r`), never created -/
theorem bnd_splitWiden {U : Fin (2 * n) → Bool} {l r : Oct n} {i : Fin (2 * n)} {a : Int}
    (h : (splitWiden U l r).get i (bar i) = some a) :
    l.get i (bar i) = some a ∧ W.le (r.get i (bar i)) (some a) = true := by
  rcases splitWiden_cases h with hA | hB | hC
  · rw [isRel_bar] at hA; exact absurd hA.2.1 (by decide)
  · exact ⟨hB.1, hB.2.2⟩
  · rw [isRel_bar] at hC; exact absurd hC.2.1 (by decide)

/-! ### the result contains both operands -/

theorem le_sound {w : W} {k d : Int} (hle : W.le w (some k) = true) (hw : ∀ q, w = some q → d ≤ q) : d ≤ k := by
  obtain ⟨x, hx, hxk⟩ := W.le_some_iff.1 hle
  have := hw x hx
  omega

theorem splitWiden_sat_left (U : Fin (2 * n) → Bool) (l r : Oct n) (σ : State n) (h : γ l σ) :
    γ (splitWiden U l r) σ := by
  intro i j a ha
  rcases splitWiden_cases ha with hA | hB | hC
  · exact le_sound hA.2.2 fun q hq => implW_sound h hq
  · exact h i j a hB.1
  · exact h i j a hC.1

theorem splitWiden_sat_right (U : Fin (2 * n) → Bool) (l r : Oct n) (σ : State n) (h : γ r σ) :
    γ (splitWiden U l r) σ := by
  intro i j a ha
  rcases splitWiden_cases ha with hA | hB | hC
  · exact h i j a hA.1
  · exact le_sound hB.2.2 fun q hq => h i j q hq
  · exact le_sound hC.2.2 fun q hq => implW_sound h hq

theorem restrict_some {c : Fin n → Bool} {m : Oct n} {i j : Fin (2 * n)} {a : Int}
    (h : (restrict c m).get i j = some a) : m.get i j = some a ∧ c (varOf i) = true ∧ c (varOf j) = true := by
  simp only [restrict, Mat.get_ofFn] at h
  split at h
  · rename_i hc; exact ⟨h, hc.1, hc.2⟩
  · cases h

theorem restrict_of {c : Fin n → Bool} (m : Oct n) {i j : Fin (2 * n)} (hi : c (varOf i) = true)
    (hj : c (varOf j) = true) : (restrict c m).get i j = m.get i j := by
  simp only [restrict, Mat.get_ofFn]
  rw [if_pos ⟨hi, hj⟩]

theorem restrict_none_left {c : Fin n → Bool} (m : Oct n) {i j : Fin (2 * n)} (hi : c (varOf i) = false) :
    (restrict c m).get i j = none := by
  simp [restrict, hi]

theorem restrict_none_right {c : Fin n → Bool} (m : Oct n) {i j : Fin (2 * n)} (hj : c (varOf j) = false) :
    (restrict c m).get i j = none := by
  simp [restrict, hj]

theorem restrict_sat (c : Fin n → Bool) (m : Oct n) (σ : State n) (h : γ m σ) : γ (restrict c m) σ :=
  fun i j a ha => h i j a (restrict_some ha).1

theorem cohere_sat (m : Oct n) (σ : State n) : γ (cohere m) σ ↔ γ m σ := by
  constructor
  · intro h i j k hk
    have hle : W.le ((cohere m).get i j) (some k) = true := by
      simp only [cohere, Mat.get_ofFn, hk]
      cases m.get (bar j) (bar i) with
      | none => simp [W.min, W.le]
      | some b => simp only [W.min, W.le]; split <;> simp <;> omega
    exact le_sound hle fun q hq => h i j q hq
  · intro h i j k hk
    simp only [cohere, Mat.get_ofFn] at hk
    cases h1 : m.get i j with
    | none =>
      rw [h1] at hk
      have := h (bar j) (bar i) k (by simpa [W.min] using hk)
      rw [ext_bar, ext_bar] at this
      omega
    | some a =>
      rw [h1] at hk
      cases h2 : m.get (bar j) (bar i) with
      | none => rw [h2] at hk; simp only [W.min] at hk; cases hk; exact h i j _ h1
      | some b =>
        rw [h2] at hk
        simp only [W.min] at hk
        have e1 := h i j a h1
        have e2 := h (bar j) (bar i) b h2
        rw [ext_bar, ext_bar] at e2
        cases hk
        split <;> omega

theorem nfTight_sound : SoundNf (n := n) nfTight := by
  intro a σ h i j k hk
  simp only [nfTight, Mat.get_ofFn] at hk
  split at hk
  · cases hk
  · have := (close_preserves_γ (cohere a.g) σ).2 ((cohere_sat a.g σ).2 h)
    exact this i j k hk

theorem normOf_sound {nf : OVal n → Oct n} (hnf : SoundNf nf) (b : OVal n) (σ : State n) (h : γ b.g σ) :
    γ (normOf nf b) σ := by
  unfold normOf
  split
  · exact h
  · exact hnf b σ h

theorem widenV_upper {nf : OVal n → Oct n} (hnf : SoundNf nf) (x y : Val n) (σ : State n) :
    (γV x σ → γV (widenV nf x y) σ) ∧ (γV y σ → γV (widenV nf x y) σ) := by
  cases x with
  | none => exact ⟨fun h => h.elim, fun h => h⟩
  | some a =>
    cases y with
    | none => exact ⟨fun h => h, fun h => h.elim⟩
    | some b =>
      constructor
      · intro h
        exact splitWiden_sat_left _ _ _ σ (restrict_sat _ _ σ h)
      · intro h
        exact splitWiden_sat_right _ _ _ σ (restrict_sat _ _ σ (normOf_sound hnf b σ h))

/-! ### a failed inclusion test exhibits an uncovered edge -/

theorem leqG_false {yl x : Oct n} (h : leqG yl x = false) :
    ∃ i j k, i ≠ j ∧ x.get i j = some k ∧ W.le (yl.get i j) (some k) = false ∧
      W.le (implW yl i j) (some k) = false := by
  unfold leqG at h
  rw [List.all_eq_false] at h
  obtain ⟨i, _, hi⟩ := h
  rw [Bool.not_eq_true, List.all_eq_false] at hi
  obtain ⟨j, _, hj⟩ := hi
  rw [Bool.not_eq_true, Bool.or_eq_false_iff] at hj
  obtain ⟨hne, hm⟩ := hj
  cases hx : x.get i j with
  | none => rw [hx] at hm; cases hm
  | some k =>
    rw [hx] at hm
    simp only [Bool.or_eq_false_iff] at hm
    exact ⟨i, j, k, by simpa using hne, hx, hm.1, hm.2⟩

theorem touches_true {m : Oct n} {v : Fin n} (h : touches m v = true) :
    ∃ i j k, i ≠ j ∧ (varOf i = v ∨ varOf j = v) ∧ m.get i j = some k := by
  unfold touches at h
  rw [List.any_eq_true] at h
  obtain ⟨i, _, hi⟩ := h
  rw [List.any_eq_true] at hi
  obtain ⟨j, _, hj⟩ := hi
  simp only [Bool.and_eq_true, Bool.or_eq_true, decide_eq_true_eq] at hj
  obtain ⟨⟨hne, hv⟩, hs⟩ := hj
  obtain ⟨k, hk⟩ := Option.isSome_iff_exists.1 hs
  exact ⟨i, j, k, hne, hv, hk⟩

theorem implW_restrict_false {c : Fin n → Bool} {m : Oct n} {i j : Fin (2 * n)} {k : Int}
    (h : W.le (implW m i j) (some k) = false) : W.le (implW (restrict c m) i j) (some k) = false := by
  unfold implW
  by_cases hi : c (varOf i) = true
  · by_cases hj : c (varOf j) = true
    · rw [restrict_of m hi (by rw [varOf_bar]; exact hi), restrict_of m (by rw [varOf_bar]; exact hj) hj]
      exact h
    · rw [restrict_none_right m (i := bar j) (j := j) (by simpa using hj), hsum_none_right]; rfl
  · rw [restrict_none_left m (i := i) (j := bar i) (by simpa using hi), hsum_none_left]; rfl

theorem get_restrict_false {c : Fin n → Bool} {m : Oct n} {i j : Fin (2 * n)} {k : Int}
    (h : W.le (m.get i j) (some k) = false) : W.le ((restrict c m).get i j) (some k) = false := by
  by_cases hi : c (varOf i) = true
  · by_cases hj : c (varOf j) = true
    · rw [restrict_of m hi hj]; exact h
    · rw [restrict_none_right m (by simpa using hj)]; rfl
  · rw [restrict_none_left m (by simpa using hi)]; rfl

/-- `y ⋢ x`: some off-diagonal edge of `x` is covered neither by an explicit edge nor by the unary
    bounds of the (normalised) `y`, seen through the common variables -/
theorem leqV_false {nf : OVal n → Oct n} {a b : OVal n} (h : leqV nf (some b) (some a) = false) :
    ∃ i j k, i ≠ j ∧ a.g.get i j = some k ∧
      W.le ((restrict (common a b) (normOf nf b)).get i j) (some k) = false ∧
      W.le (implW (restrict (common a b) (normOf nf b)) i j) (some k) = false := by
  simp only [leqV, Bool.and_eq_false_iff] at h
  rcases h with h | h
  · rw [List.all_eq_false] at h
    obtain ⟨v, _, hv⟩ := h
    simp only [Bool.not_eq_true, Bool.or_eq_false_iff, Bool.not_eq_false'] at hv
    obtain ⟨i, j, k, hne, hvar, hk⟩ := touches_true hv.1
    have hc : common a b v = false := by simp [common, hv.2]
    refine ⟨i, j, k, hne, hk, ?_, ?_⟩
    · rcases hvar with e | e
      · rw [restrict_none_left _ (by rw [e]; exact hc)]; rfl
      · rw [restrict_none_right _ (by rw [e]; exact hc)]; rfl
    · unfold implW
      rcases hvar with e | e
      · rw [restrict_none_left _ (i := i) (j := bar i) (by rw [e]; exact hc), hsum_none_left]; rfl
      · rw [restrict_none_right _ (i := bar j) (j := j) (by rw [e]; exact hc), hsum_none_right]; rfl
  · obtain ⟨i, j, k, hne, hk, h1, h2⟩ := leqG_false h
    exact ⟨i, j, k, hne, hk, get_restrict_false h1, implW_restrict_false h2⟩

/-! ### the measure decreases -/

theorem isTight_true {m : Oct n} {i j : Fin (2 * n)} (h : isTight m (i, j) = true) :
    isRel i j = true ∧ ∃ w, m.get i j = some w ∧ W.le (implW m i j) (some w) = false := by
  simp only [isTight, Bool.and_eq_true] at h
  refine ⟨h.1, ?_⟩
  cases hm : m.get i j with
  | none => rw [hm] at h; simp at h
  | some w => rw [hm] at h; exact ⟨w, rfl, by simpa using h.2⟩

theorem isTight_of {m : Oct n} {i j : Fin (2 * n)} {w : Int} (hr : isRel i j = true) (hm : m.get i j = some w)
    (hi : W.le (implW m i j) (some w) = false) : isTight m (i, j) = true := by
  simp [isTight, hr, hm, hi]

/-- the heart of the chain condition.  `a` = graph of `x`, `r'` = the right operand as the widening
    sees it, `g3` the result.  If `x` has an edge that `r'` covers neither explicitly nor through
    its unary bounds, then a unary bound disappears, or all unary bounds are kept and the
    relational edges not implied by the unary bounds become strictly fewer. -/
theorem widen_measure (U : Fin (2 * n) → Bool) (c : Fin n → Bool) (a r' : Oct n)
    (hr' : ∀ i j k, r'.get i j = some k → c (varOf i) = true ∧ c (varOf j) = true)
    {i j : Fin (2 * n)} {k : Int} (hne : i ≠ j) (hk : a.get i j = some k)
    (h1 : W.le (r'.get i j) (some k) = false) (h2 : W.le (implW r' i j) (some k) = false) :
    let g3 := splitWiden U (restrict c a) r'
    nBnd g3 < nBnd a ∨ (nBnd g3 = nBnd a ∧ nTight g3 < nTight a) := by
  intro g3
  -- unary bounds of the result are unary bounds of `a`, same weight, covered by `r'`
  have hb : ∀ i w, g3.get i (bar i) = some w →
      a.get i (bar i) = some w ∧ W.le (r'.get i (bar i)) (some w) = true := by
    intro i w hw
    obtain ⟨e1, e2⟩ := bnd_splitWiden hw
    exact ⟨(restrict_some e1).1, e2⟩
  have himp : ∀ i, hasBnd g3 i = true → hasBnd a i = true := by
    intro i hi
    obtain ⟨w, hw⟩ := Option.isSome_iff_exists.1 hi
    simp [hasBnd, (hb i w hw).1]
  by_cases hB : ∃ i, hasBnd a i = true ∧ hasBnd g3 i = false
  · obtain ⟨i0, hq, hp⟩ := hB
    exact Or.inl (Zones.countP_lt_of_imp _ _ _ himp i0 (List.mem_finRange i0) hq hp)
  · have hall : ∀ i, hasBnd a i = true → hasBnd g3 i = true := by
      intro i hi
      cases hg : hasBnd g3 i
      · exact absurd ⟨i, hi, hg⟩ hB
      · rfl
    -- all unary bounds are kept: same entries in `a`, `restrict c a`, `g3`
    have hEq : ∀ i, g3.get i (bar i) = a.get i (bar i) := by
      intro i
      cases ha : a.get i (bar i) with
      | none =>
        cases hg : g3.get i (bar i) with
        | none => rfl
        | some w => rw [(hb i w hg).1] at ha; cases ha
      | some w =>
        obtain ⟨w', hw'⟩ := Option.isSome_iff_exists.1 (hall i (by simp [hasBnd, ha]))
        rw [hw', ← (hb i w' hw').1, ha]
    have hcov : ∀ i w, a.get i (bar i) = some w → W.le (r'.get i (bar i)) (some w) = true := by
      intro i w hw
      rw [← hEq i] at hw
      exact (hb i w hw).2
    have hEqL : ∀ i, (restrict c a).get i (bar i) = a.get i (bar i) := by
      intro i
      cases ha : a.get i (bar i) with
      | none =>
        cases hg : (restrict c a).get i (bar i) with
        | none => rfl
        | some w => rw [(restrict_some hg).1] at ha; cases ha
      | some w =>
        obtain ⟨q, hq, _⟩ := W.le_some_iff.1 (hcov i w ha)
        obtain ⟨ci, _⟩ := hr' _ _ _ hq
        rw [restrict_of a ci (by rw [varOf_bar]; exact ci), ha]
    have hI3 : ∀ i j, implW g3 i j = implW a i j := implW_congr hEq
    have hIL : ∀ i j, implW (restrict c a) i j = implW a i j := implW_congr hEqL
    have hcnt : nBnd g3 = nBnd a := by
      unfold nBnd
      apply List.countP_congr
      intro i _
      simp [hasBnd, hEq i]
    refine Or.inr ⟨hcnt, ?_⟩
    -- tight edges of the result are tight edges of `a`
    have hsub : ∀ p, isTight g3 p = true → isTight a p = true := by
      rintro ⟨p, q⟩ hp
      obtain ⟨hrel, w, hw, hi⟩ := isTight_true hp
      rw [hI3] at hi
      rcases splitWiden_cases hw with hA | hB' | hC
      · rw [hIL, hi] at hA; exact absurd hA.2.2 (by decide)
      · exact isTight_of hrel (restrict_some hB'.1).1 hi
      · exact isTight_of hrel (restrict_some hC.1).1 hi
    -- the uncovered edge is relational ..
    have hrel : isRel i j = true := by
      cases hr : isRel i j
      · have hj := eq_bar_of_not_isRel hr hne
        subst hj
        rw [hcov i k hk] at h1; cases h1
      · rfl
    -- .. not implied by the unary bounds of `a` ..
    have hta : isTight a (i, j) = true := by
      apply isTight_of hrel hk
      cases hle : W.le (implW a i j) (some k)
      · rfl
      · exfalso
        obtain ⟨q, hq, hqk⟩ := W.le_some_iff.1 hle
        obtain ⟨p1, p2, e1, e2, rfl⟩ := hsum_some.1 hq
        obtain ⟨s1, hs1, l1⟩ := W.le_some_iff.1 (hcov i p1 e1)
        have e2' : a.get (bar j) (bar (bar j)) = some p2 := by rw [bar_bar]; exact e2
        obtain ⟨s2, hs2, l2⟩ := W.le_some_iff.1 (hcov (bar j) p2 e2')
        rw [bar_bar] at hs2
        have : implW r' i j = some ((s1 + s2).tdiv 2) := by simp [implW, hs1, hs2, hsum]
        rw [this] at h2
        have := tdiv2_mono (show s1 + s2 ≤ p1 + p2 by omega)
        simp [W.le] at h2
        omega
    -- .. and not a tight edge of the result
    have htg : isTight g3 (i, j) = false := by
      cases ht : isTight g3 (i, j)
      · rfl
      · exfalso
        obtain ⟨_, w, hw, hi⟩ := isTight_true ht
        rw [hI3] at hi
        rcases splitWiden_cases hw with hA | hB' | hC
        · rw [hIL, hi] at hA; exact absurd hA.2.2 (by decide)
        · have := (restrict_some hB'.1).1
          rw [hk] at this; cases this
          rw [hB'.2.2] at h1; cases h1
        · have := (restrict_some hC.1).1
          rw [hk] at this; cases this
          rw [hC.2.2] at h2; cases h2
    exact Zones.countP_lt_of_imp _ _ _ hsub (i, j) (Zones.mem_allPairs i j) hta htg

theorem restrict_dom (c : Fin n → Bool) (m : Oct n) :
    ∀ i j k, (restrict c m).get i j = some k → c (varOf i) = true ∧ c (varOf j) = true :=
  fun _ _ _ h => (restrict_some h).2

theorem nTight_le (m : Oct n) : nTight m ≤ (2 * n) * (2 * n) := by
  unfold nTight
  rw [← Zones.length_allPairs]
  exact List.countP_le_length

theorem nBnd_le (m : Oct n) : nBnd m ≤ 2 * n := by
  unfold nBnd
  have := List.countP_le_length (p := hasBnd m) (l := List.finRange (2 * n))
  simpa using this

/-- a strict step lowers the measure -/
theorem omeas_widenV_lt (nf : OVal n → Oct n) (x y : Val n) (h : leqV nf y x = false) :
    Prod.Lex (· < ·) (Prod.Lex (· < ·) (· < ·)) (omeas (widenV nf x y)) (omeas x) := by
  cases x with
  | none =>
    cases y with
    | none => simp [leqV] at h
    | some b => exact Prod.Lex.left _ _ (by decide)
  | some a =>
    cases y with
    | none => simp [leqV] at h
    | some b =>
      obtain ⟨i, j, k, hne, hk, h1, h2⟩ := leqV_false h
      apply Prod.Lex.right
      have := widen_measure (fun j => a.un.contains (newId (common a b) j)) (common a b) a.g
        (restrict (common a b) (normOf nf b)) (restrict_dom _ _) hne hk h1 h2
      rcases this with hlt | ⟨heq, hlt⟩
      · exact Prod.Lex.left _ _ hlt
      · show Prod.Lex _ _ (nBnd (splitWiden _ _ _), nTight (splitWiden _ _ _)) (nBnd a.g, nTight a.g)
        rw [heq]
        exact Prod.Lex.right _ hlt

/-- the same as one natural number -/
def nmeas (n : Nat) : Val n → Nat
  | none => (2 * n + 1) * ((2 * n) * (2 * n) + 1)
  | some a => nBnd a.g * ((2 * n) * (2 * n) + 1) + nTight a.g

theorem nmeas_some_lt (a : OVal n) : nmeas n (some a) < (2 * n + 1) * ((2 * n) * (2 * n) + 1) := by
  have h1 := nBnd_le a.g
  have h2 := nTight_le a.g
  show nBnd a.g * ((2 * n) * (2 * n) + 1) + nTight a.g < _
  calc nBnd a.g * ((2 * n) * (2 * n) + 1) + nTight a.g
      < nBnd a.g * ((2 * n) * (2 * n) + 1) + ((2 * n) * (2 * n) + 1) := by omega
    _ = (nBnd a.g + 1) * ((2 * n) * (2 * n) + 1) := by rw [Nat.add_mul, Nat.one_mul]
    _ ≤ (2 * n + 1) * ((2 * n) * (2 * n) + 1) := Nat.mul_le_mul_right _ (by omega)

theorem nmeas_widenV_lt (nf : OVal n → Oct n) (x y : Val n) (h : leqV nf y x = false) :
    nmeas n (widenV nf x y) < nmeas n x := by
  cases x with
  | none =>
    cases y with
    | none => simp [leqV] at h
    | some b => exact nmeas_some_lt b
  | some a =>
    cases y with
    | none => simp [leqV] at h
    | some b =>
      obtain ⟨i, j, k, hne, hk, h1, h2⟩ := leqV_false h
      have := widen_measure (fun j => a.un.contains (newId (common a b) j)) (common a b) a.g
        (restrict (common a b) (normOf nf b)) (restrict_dom _ _) hne hk h1 h2
      show nBnd (splitWiden _ _ _) * _ + nTight (splitWiden _ _ _) < nBnd a.g * _ + nTight a.g
      rcases this with hlt | ⟨heq, hlt⟩
      · have h2 := nTight_le (splitWiden (fun j => a.un.contains (newId (common a b) j))
          (restrict (common a b) a.g) (restrict (common a b) (normOf nf b)))
        calc _ < nBnd (splitWiden _ _ _) * ((2 * n) * (2 * n) + 1) + ((2 * n) * (2 * n) + 1) :=
              Nat.add_lt_add_left (by omega) _
          _ = (nBnd (splitWiden _ _ _) + 1) * ((2 * n) * (2 * n) + 1) := by rw [Nat.add_mul, Nat.one_mul]
          _ ≤ nBnd a.g * ((2 * n) * (2 * n) + 1) := Nat.mul_le_mul_right _ hlt
          _ ≤ _ := Nat.le_add_right _ _
      · rw [heq]; omega

/-! ### the inclusion test is sound; no self loops -/

theorem leqG_true {yl x : Oct n} (h : leqG yl x = true) {i j : Fin (2 * n)} {k : Int} (hne : i ≠ j)
    (hk : x.get i j = some k) :
    W.le (yl.get i j) (some k) = true ∨ W.le (implW yl i j) (some k) = true := by
  unfold leqG at h
  rw [List.all_eq_true] at h
  have := h i (List.mem_finRange i)
  rw [List.all_eq_true] at this
  have := this j (List.mem_finRange j)
  rw [hk] at this
  simpa [hne] using this

theorem leqG_sat {yl x : Oct n} (hx : NoSelfLoop x) (h : leqG yl x = true) (σ : State n) (hy : γ yl σ) :
    γ x σ := by
  intro i j k hk
  by_cases hne : i = j
  · subst hne; rw [hx i] at hk; cases hk
  · rcases leqG_true h hne hk with h1 | h1
    · exact le_sound h1 fun q hq => hy i j q hq
    · exact le_sound h1 fun q hq => implW_sound hy hq

theorem leqV_sound {nf : OVal n → Oct n} (hnf : SoundNf nf) (y : Val n) (a : OVal n) (hx : NoSelfLoop a.g)
    (h : leqV nf y (some a) = true) (σ : State n) (hy : γV y σ) : γV (some a) σ := by
  cases y with
  | none => exact hy.elim
  | some b =>
    simp only [leqV, Bool.and_eq_true] at h
    exact leqG_sat hx h.2 σ (normOf_sound hnf b σ hy)

theorem splitWiden_noSelfLoop (U : Fin (2 * n) → Bool) (l r : Oct n) : NoSelfLoop (splitWiden U l r) := by
  intro i
  cases h : (splitWiden U l r).get i i with
  | none => rfl
  | some a =>
    rcases splitWiden_cases h with hA | hB | hC
    · exact absurd rfl (isRel_ne hA.2.1)
    · exact absurd rfl hB.2.1
    · exact absurd rfl (isRel_ne hC.2.1)

end OctW
end Crab
