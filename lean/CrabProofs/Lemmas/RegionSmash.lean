import CrabModel.Dom.RegionSmash
import CrabProofs.Lemmas.SmallRange
import CrabProofs.Lemmas.IntervalLattice
import CrabProofs.Lemmas.Bound

/-!
  Soundness of the `RegionSmash` functor w.r.t. the concrete region semantics
  (`CrabModel/Dom/RegionSem.lean`): helper lemmas and the per-operation preservation of `Gamma`.
-/
namespace Crab
namespace Rgn
open Classical

/-! ### small facts about the concrete state -/

@[simp] theorem upd_same {α} (f : Nat → α) (i : Nat) (v : α) : upd f i v i = v := by simp [upd]
theorem upd_other {α} (f : Nat → α) {i j : Nat} (v : α) (h : j ≠ i) : upd f i v j = f j := by simp [upd, h]
@[simp] theorem updN_same {α} (f : Nat → α) (i : Nat) (v : α) : updN f i v i = v := by simp [updN]
theorem updN_other {α} (f : Nat → α) {i j : Nat} (v : α) (h : j ≠ i) : updN f i v j = f j := by simp [updN, h]

theorem Mem.read_write (m : Mem) (a a' : Int) (v : CellVal) (t : List Nat) :
    (m.write a v t).read a' = if a' = a then some v else m.read a' := by
  unfold Mem.read Mem.cell Mem.write
  simp only [List.lookup_cons]
  by_cases h : a' = a
  · subst h; simp
  · have : (a' == a) = false := by simpa using h
    simp [this, h]

@[simp] theorem Mem.write_members (m : Mem) (a : Int) (v : CellVal) (t : List Nat) :
    (m.write a v t).members = m.members := rfl

@[simp] theorem Mem.addMember_read (m : Mem) (a a' : Int) : (m.addMember a).read a' = m.read a' := by
  unfold Mem.addMember; split <;> rfl

theorem Mem.mem_addMember (m : Mem) (a a' : Int) : a' ∈ (m.addMember a).members ↔ a' = a ∨ a' ∈ m.members := by
  unfold Mem.addMember
  split
  · rename_i h; constructor
    · intro h'; exact Or.inr h'
    · rintro (h' | h')
      · subst h'; exact h
      · exact h'
  · simp

theorem Mem.nodup_addMember (m : Mem) (a : Int) (h : m.members.Nodup) : (m.addMember a).members.Nodup := by
  unfold Mem.addMember
  split
  · exact h
  · rename_i hn; exact List.nodup_cons.2 ⟨hn, h⟩

theorem Mem.length_addMember (m : Mem) (a : Int) :
    (a ∈ m.members ∧ (m.addMember a).members.length = m.members.length) ∨
    (a ∉ m.members ∧ (m.addMember a).members.length = m.members.length + 1) := by
  unfold Mem.addMember
  split
  · rename_i h; exact Or.inl ⟨h, rfl⟩
  · rename_i h; exact Or.inr ⟨h, by simp⟩

/-- a list without duplicates of length at most one has at most one element -/
theorem eq_of_length_le_one {l : List Int} (h : l.length ≤ 1) {a b : Int} (ha : a ∈ l) (hb : b ∈ l) : a = b := by
  match l, h with
  | [], _ => cases ha
  | [x], _ =>
    simp at ha hb; rw [ha, hb]
  | _ :: _ :: _, h => simp at h

theorem useRef_some {σ : State} {r g : Nat} {p : Ptr} (h : σ.useRef r g = some p) :
    σ.refs r = .ptr p ∧ p.addr ∈ (σ.mems g).members := by
  unfold State.useRef at h
  split at h
  · cases h
  · rename_i q hq
    split at h
    · rename_i hm; cases h; exact ⟨hq, hm⟩
    · cases h

theorem deref_some {σ : State} {r g : Nat} {p : Ptr} (h : σ.deref r g = some p) :
    σ.refs r = .ptr p ∧ p.addr ∈ (σ.mems g).members := by
  unfold State.deref at h
  split at h
  · cases h
  · rename_i q hq
    split at h
    · cases h; exact useRef_some hq
    · cases h

/-! ### valuations -/

theorem Val.set_set (ρ : Val) (x : GVar) (k k' : Int) : (ρ.set x k).set x k' = ρ.set x k' := by
  funext y; simp only [Val.set]; split <;> rfl

theorem Val.set_self (ρ : Val) (x : GVar) : ρ.set x (ρ x) = ρ := by
  funext y; simp only [Val.set]; split
  · rename_i h; rw [h]
  · rfl

theorem valOf_setInt (σ : State) (x : Nat) (v : Int) (t : List Nat) (c : Nat → Int) (d : Int) :
    valOf (σ.setInt x v t) c d = (valOf σ c d).set (.int x) v := by
  funext y
  cases y with
  | int x' =>
    simp only [valOf, State.setInt, Val.set, upd]
    by_cases h : x' = x
    · subst h; simp
    · simp [h]
  | ref r => simp [valOf, State.setInt, Val.set]
  | rgn g => simp [valOf, Val.set]
  | dup => simp [valOf, Val.set]

theorem valOf_setRef (σ : State) (r : Nat) (v : RefVal) (t : List Nat) (c : Nat → Int) (d : Int) :
    valOf (σ.setRef r v t) c d = (valOf σ c d).set (.ref r) v.toInt := by
  funext y
  cases y with
  | ref r' =>
    simp only [valOf, State.setRef, Val.set, upd]
    by_cases h : r' = r
    · subst h; simp
    · simp [h]
  | int x => simp [valOf, State.setRef, Val.set]
  | rgn g => simp [valOf, Val.set]
  | dup => simp [valOf, Val.set]

theorem valOf_sel_rgn (σ : State) (g : Nat) (v : Int) (c : Nat → Int) (d : Int) :
    valOf σ (updN c g v) d = (valOf σ c d).set (.rgn g) v := by
  funext y
  cases y with
  | rgn g' =>
    simp only [valOf, Val.set, updN]
    by_cases h : g' = g
    · subst h; simp
    · simp [h]
  | int x => simp [valOf, Val.set]
  | ref r => simp [valOf, Val.set]
  | dup => simp [valOf, Val.set]

theorem valOf_dup (σ : State) (c : Nat → Int) (d d' : Int) :
    (valOf σ c d).set .dup d' = valOf σ c d' := by
  funext y; cases y <;> simp [valOf, Val.set]

/-- selections exist -/
theorem sel_exists (σ : State) : ∃ c, Sel σ c := by
  refine ⟨fun g => if h : ∃ v, Vis σ g v then choose h else 0, ?_⟩
  intro g
  constructor
  · intro h; simp only [dif_pos h]; exact choose_spec h
  · intro h; simp only [dif_neg h]

/-- changing the selection of one region to a visible value -/
theorem sel_updN {σ : State} {c : Nat → Int} (hc : Sel σ c) {g : Nat} {v : Int} (hv : Vis σ g v) :
    Sel σ (updN c g v) := by
  intro g'
  by_cases h : g' = g
  · subst h
    simp only [updN_same]
    exact ⟨fun _ => hv, fun hn => absurd ⟨v, hv⟩ hn⟩
  · simp only [updN_other c v h]; exact hc g'

/-- with at most one member every selection of a region with a written cell picks that cell -/
theorem sel_unique {B : Type} {D : Base B} {A : RS B} {σ : State} (hG : Gamma D A σ) {g : Nat}
    (hone : (σ.mems g).members.length ≤ 1) {c : Nat → Int} (hc : Sel σ c)
    {a : Int} {cv : CellVal} (hr : (σ.mems g).read a = some cv) : c g = cv.toInt := by
  have hv : Vis σ g cv.toInt := ⟨a, cv, hr, rfl⟩
  obtain ⟨a', cv', hr', he⟩ := (hc g).1 ⟨_, hv⟩
  have h1 := hG.member g a cv hr
  have h2 := hG.member g a' cv' hr'
  have : a' = a := eq_of_length_le_one hone h2 h1
  subst this
  rw [hr] at hr'; cases hr'; exact he.symm

theorem length_le_one_of_cnt {c : SmallRange} {n : Nat} (h : SmallRange.γ c n)
    (hz : (c.isZero || c.isOne) = true) : n ≤ 1 := by
  cases c <;> simp [SmallRange.isZero, SmallRange.isOne, SmallRange.γ] at hz h ⊢ <;> omega

/-! ### nullity -/

theorem isNullRef_sound {B : Type} {D : Base B} {A : RS B} {σ : State} (hG : Gamma D A σ) (r : Nat) :
    (A.isNullRef D r = some true → σ.refs r = .null) ∧
    (A.isNullRef D r = some false → σ.refs r ≠ .null) := by
  obtain ⟨c, hc⟩ := sel_exists σ
  have hm := D.toItv_sound (.ref r) (hG.base c 0 hc)
  simp only [valOf] at hm
  unfold RS.isNullRef
  constructor
  · intro h
    simp only at h
    split at h
    · cases h
    · split at h
      · rename_i hlb hub
        -- the interval is [0,0]
        cases hr : σ.refs r with
        | null => rfl
        | ptr p =>
          exfalso
          rw [hr] at hm
          simp only [RefVal.toInt, Itv.mem, hlb, hub, Bound.le] at hm
          have := hG.nonnull r p hr
          simp at hm
          omega
      · cases h
  · intro h hn
    simp only at h
    split at h
    · rename_i hle
      rw [hn] at hm
      simp only [RefVal.toInt] at hm
      -- 0 ∈ i  implies  [0,0] <= i
      have : Itv.leq (Itv.single 0) (D.toItv A.base (.ref r)) = true := by
        simp only [Itv.mem] at hm
        have hlu := Bound.le_trans hm.1 hm.2
        simp only [Itv.leq, Itv.single, Itv.isBottom, Bound.gt]
        simp [hm.1, hm.2, hlu]
      simp [this] at hle
    · split at h <;> cases h

/-! ### ref_load -/

variable {B : Type}

/-- the base value computed by `ref_load` for the destination variable `y` -/
def loadBase (D : Base B) (A : RS B) (r g : Nat) (y : GVar) : B :=
  if A.isNullRef D r = some true then D.forget y A.base
  else if (A.cnt g).isZero || (A.cnt g).isOne then D.assign y (.rgn g) A.base
  else D.forget .dup (D.assign y .dup (D.expand (.rgn g) .dup A.base))

theorem refLoad_base (D : Base B) (A : RS B) (r g : Nat) (dst : LDst) :
    (A.refLoad D r g dst).base = loadBase D A r g dst.gvar := by
  unfold RS.refLoad loadBase
  split
  · rfl
  · split <;> rfl

theorem refLoad_cnt (D : Base B) (A : RS B) (r g : Nat) (dst : LDst) : (A.refLoad D r g dst).cnt = A.cnt := by
  unfold RS.refLoad; split
  · rfl
  · split <;> rfl
theorem refLoad_init (D : Base B) (A : RS B) (r g : Nat) (dst : LDst) : (A.refLoad D r g dst).init = A.init := by
  unfold RS.refLoad; split
  · rfl
  · split <;> rfl
theorem refLoad_rsites (D : Base B) (A : RS B) (r g : Nat) (dst : LDst) : (A.refLoad D r g dst).rsites = A.rsites := by
  unfold RS.refLoad; split
  · rfl
  · split <;> rfl
theorem refLoad_sites_int (D : Base B) (A : RS B) (r g x : Nat) : (A.refLoad D r g (.ivar x)).sites = A.sites := by
  unfold RS.refLoad; split
  · rfl
  · split <;> rfl
theorem refLoad_sites_ref (D : Base B) (A : RS B) (r g r' : Nat) (h : A.isNullRef D r ≠ some true) :
    (A.refLoad D r g (.rvar r')).sites = updN A.sites r' (A.rsites g) := by
  unfold RS.refLoad; split
  · rename_i h'; exact absurd h' h
  · split <;> rfl

theorem loadBase_sound {D : Base B} {A : RS B} {σ : State} (hG : Gamma D A σ) {r g : Nat} {a : Int} {cv : CellVal}
    (hr : (σ.mems g).read a = some cv) (y : GVar) (hy : y ≠ .dup)
    {c : Nat → Int} (d : Int) (hc : Sel σ c) :
    D.γ (loadBase D A r g y) ((valOf σ c d).set y cv.toInt) := by
  have hb := hG.base c d hc
  unfold loadBase
  split
  · exact D.forget_sound y _ hb
  · split
    · rename_i hz
      have hone := length_le_one_of_cnt (hG.count g) hz
      have hcg : c g = cv.toInt := sel_unique hG hone hc hr
      have := D.assign_sound y (.rgn g) hb
      simp only [valOf] at this
      rw [hcg] at this
      exact this
    · have hv : Vis σ g cv.toInt := ⟨a, cv, hr, rfl⟩
      have hb2 := hG.base (updN c g cv.toInt) d (sel_updN hc hv)
      rw [valOf_sel_rgn] at hb2
      have h1 := D.expand_sound (.rgn g) .dup cv.toInt hb hb2
      have h2 := D.assign_sound y .dup h1
      have h3 := D.forget_sound .dup d h2
      have e : ((((valOf σ c d).set .dup cv.toInt).set y (((valOf σ c d).set .dup cv.toInt) .dup)).set .dup d)
             = (valOf σ c d).set y cv.toInt := by
        funext z
        simp only [Val.set]
        by_cases hz : z = .dup
        · subst hz
          have : (GVar.dup = y) = False := by simp [Ne.symm hy]
          simp [this, valOf]
        · simp [hz]
      rw [e] at h3
      exact h3

/-- `x := ref_load(r, g)` into an integer variable is sound -/
theorem loadInt_sound {D : Base B} {A : RS B} {σ σ' : State} {r g x : Nat} (hG : Gamma D A σ)
    (hs : σ.refLoadInt r g x = some σ') : Gamma D (A.refLoad D r g (.ivar x)) σ' := by
  unfold State.refLoadInt at hs
  split at hs
  · cases hs
  · rename_i p hp
    split at hs
    · rename_i v hv
      cases hs
      refine ⟨hG.member, hG.nodup, ?_, ?_, ?_, ?_, hG.nonnull, hG.nonnullc, ?_⟩
      · rw [refLoad_cnt]; exact hG.count
      · rw [refLoad_init]; exact hG.init
      · rw [refLoad_sites_int]; exact hG.sites
      · rw [refLoad_rsites]; exact hG.rsites
      · intro c d hc
        rw [refLoad_base, valOf_setInt]
        exact loadBase_sound hG hv (.int x) (by simp) d hc
    · cases hs

/-- `r' := ref_load(r, g)` into a reference variable is sound -/
theorem loadRef_sound {D : Base B} {A : RS B} {σ σ' : State} {r g r' : Nat} (hG : Gamma D A σ)
    (hs : σ.refLoadRef r g r' = some σ') : Gamma D (A.refLoad D r g (.rvar r')) σ' := by
  unfold State.refLoadRef at hs
  split at hs
  · cases hs
  · rename_i p hp
    have hnn : A.isNullRef D r ≠ some true := by
      intro h
      have := (isNullRef_sound hG r).1 h
      rw [(deref_some hp).1] at this; cases this
    split at hs
    · rename_i v hv
      cases hs
      refine ⟨hG.member, hG.nodup, ?_, ?_, ?_, ?_, ?_, hG.nonnullc, ?_⟩
      · rw [refLoad_cnt]; exact hG.count
      · rw [refLoad_init]; exact hG.init
      · rw [refLoad_sites_ref _ _ _ _ _ hnn]
        intro r0 q S hq hS
        by_cases h : r0 = r'
        · subst h
          simp only [State.setRef, upd_same] at hq
          simp only [updN_same] at hS
          subst hq
          exact hG.rsites g p.addr q S hv hS
        · simp only [State.setRef, upd_other _ _ h] at hq
          simp only [updN_other _ _ h] at hS
          exact hG.sites r0 q S hq hS
      · rw [refLoad_rsites]; exact hG.rsites
      · intro r0 q hq
        by_cases h : r0 = r'
        · subst h
          simp only [State.setRef, upd_same] at hq
          subst hq
          exact hG.nonnullc g p.addr q hv
        · simp only [State.setRef, upd_other _ _ h] at hq
          exact hG.nonnull r0 q hq
      · intro c d hc
        rw [refLoad_base, valOf_setRef]
        exact loadBase_sound hG hv (.ref r') (by simp) d hc
    · cases hs

/-! ### ref_store -/

/-- the value a store writes, read off a valuation -/
def svOf (ρ : Val) : SVal → Int
  | .cst k => k
  | .ivar x => ρ (.int x)
  | .rvar r => ρ (.ref r)
  | .null => 0

theorem svOf_valOf (σ : State) (c : Nat → Int) (d : Int) (v : SVal) : svOf (valOf σ c d) v = (v.eval σ).toInt := by
  cases v <;> simp [svOf, valOf, SVal.eval, CellVal.toInt, RefVal.toInt]

theorem memWrite_strong {D : Base B} {b : B} {ρ : Val} (g : Nat) (v : SVal) (h : D.γ b ρ) :
    D.γ (RS.memWrite D b g v false) (ρ.set (.rgn g) (svOf ρ v)) := by
  cases v with
  | cst k => exact D.assignC_sound _ _ h
  | ivar x => exact D.assign_sound _ _ h
  | rvar r => exact D.assign_sound _ _ h
  | null => exact D.assignC_sound _ _ h

theorem memWrite_weak {D : Base B} {b : B} {ρ : Val} (g : Nat) (v : SVal) (h : D.γ b ρ) :
    D.γ (RS.memWrite D b g v true) ρ ∧ D.γ (RS.memWrite D b g v true) (ρ.set (.rgn g) (svOf ρ v)) := by
  cases v with
  | cst k => exact ⟨D.weakAssignC_keep _ _ h, D.weakAssignC_sound _ _ h⟩
  | ivar x => exact ⟨D.weakAssign_keep _ _ h, D.weakAssign_sound _ _ h⟩
  | rvar r => exact ⟨D.weakAssign_keep _ _ h, D.weakAssign_sound _ _ h⟩
  | null => exact ⟨D.weakAssignC_keep _ _ h, D.weakAssignC_sound _ _ h⟩

theorem setMem_mems_same (σ : State) (g : Nat) (m : Mem) : (σ.setMem g m).mems g = m := by
  simp [State.setMem]
theorem setMem_mems_other (σ : State) {g g' : Nat} (m : Mem) (h : g' ≠ g) : (σ.setMem g m).mems g' = σ.mems g' := by
  simp [State.setMem, upd_other _ _ h]

theorem valOf_setMem (σ : State) (g : Nat) (m : Mem) (c : Nat → Int) (d : Int) :
    valOf (σ.setMem g m) c d = valOf σ c d := by
  funext y; cases y <;> rfl

theorem unionSites_some {a b : Option (List Nat)} {S : List Nat} (h : unionSites a b = some S) :
    ∃ Sa Sb, a = some Sa ∧ b = some Sb ∧ S = Sa ++ Sb := by
  cases a <;> cases b <;> simp [unionSites] at h
  exact ⟨_, _, rfl, rfl, h.symm⟩

theorem refStore_cnt (D : Base B) (A : RS B) (r g : Nat) (v : SVal) : (A.refStore D r g v).cnt = A.cnt := by
  unfold RS.refStore; split
  · rfl
  · split <;> rfl
theorem refStore_sites (D : Base B) (A : RS B) (r g : Nat) (v : SVal) : (A.refStore D r g v).sites = A.sites := by
  unfold RS.refStore; split
  · rfl
  · split <;> rfl

/-- `ref_store(r, g, v)` is sound -/
theorem store_sound {D : Base B} {A : RS B} {σ σ' : State} {r g : Nat} {v : SVal} {tags : List Nat}
    (hG : Gamma D A σ) (hs : σ.refStore r g (v.eval σ) tags = some σ') : Gamma D (A.refStore D r g v) σ' := by
  unfold State.refStore at hs
  split at hs
  · cases hs
  · rename_i p hp
    split at hs
    rotate_left
    · cases hs
    cases hs
    obtain ⟨hrp, hmem⟩ := deref_some hp
    have hnn : A.isNullRef D r ≠ some true := by
      intro h
      have := (isNullRef_sound hG r).1 h
      rw [hrp] at this; cases this
    -- reads of the new state
    have hread : ∀ a', (((σ.setMem g ((σ.mems g).write p.addr (v.eval σ) tags)).mems g).read a')
        = if a' = p.addr then some (v.eval σ) else (σ.mems g).read a' := by
      intro a'; rw [setMem_mems_same, Mem.read_write]
    have hother : ∀ g', g' ≠ g → (σ.setMem g ((σ.mems g).write p.addr (v.eval σ) tags)).mems g' = σ.mems g' :=
      fun g' h => setMem_mems_other σ _ h
    -- in the strong case the written cell is the only written cell of the region
    have honly : (A.init g = false ∨ (σ.mems g).members.length ≤ 1) → ∀ a' cv',
        (σ.mems g).read a' = some cv' → a' = p.addr := by
      intro hst a' cv' h'
      rcases hst with hi | hl
      · rw [hG.init g hi a'] at h'; cases h'
      · exact eq_of_length_le_one hl (hG.member g a' cv' h') hmem
    have hstrong : (A.init g = false || (A.cnt g).isZero || (A.cnt g).isOne) = true →
        (A.init g = false ∨ (σ.mems g).members.length ≤ 1) := by
      intro h
      by_cases hi : A.init g = false
      · exact Or.inl hi
      · right
        have : ((A.cnt g).isZero || (A.cnt g).isOne) = true := by
          simp only [Bool.or_eq_true, decide_eq_true_eq] at h ⊢
          rcases h with (h | h) | h
          · exact absurd h hi
          · exact Or.inl h
          · exact Or.inr h
        exact length_le_one_of_cnt (hG.count g) this
    refine ⟨?_, ?_, ?_, ?_, ?_, ?_, hG.nonnull, ?_, ?_⟩
    · -- member
      intro g' a' cv' h'
      by_cases hg : g' = g
      · subst hg
        rw [hread] at h'
        rw [setMem_mems_same, Mem.write_members]
        split at h'
        · rename_i ha; rw [ha]; exact hmem
        · exact hG.member _ a' cv' h'
      · rw [hother g' hg] at h' ⊢; exact hG.member g' a' cv' h'
    · intro g'
      by_cases hg : g' = g
      · subst hg; rw [setMem_mems_same, Mem.write_members]; exact hG.nodup _
      · rw [hother g' hg]; exact hG.nodup g'
    · intro g'
      rw [refStore_cnt]
      by_cases hg : g' = g
      · subst hg; rw [setMem_mems_same, Mem.write_members]; exact hG.count _
      · rw [hother g' hg]; exact hG.count g'
    · -- init
      intro g' hi a'
      have hg : g' ≠ g := by
        intro hg; subst hg
        unfold RS.refStore at hi
        rw [if_neg hnn] at hi
        split at hi <;> simp at hi
      have : A.init g' = false := by
        unfold RS.refStore at hi
        rw [if_neg hnn] at hi
        split at hi <;> simpa [updN_other _ _ hg] using hi
      rw [hother g' hg]; exact hG.init g' this a'
    · rw [refStore_sites]; exact hG.sites
    · -- rsites
      intro g' a' q S h' hS
      by_cases hg : g' = g
      rotate_left
      · rw [hother g' hg] at h'
        have : A.rsites g' = some S := by
          unfold RS.refStore at hS
          rw [if_neg hnn] at hS
          split at hS <;> (cases v <;> simp only [updN_other _ _ hg] at hS <;> exact hS)
        exact hG.rsites g' a' q S h' this
      · subst hg
        rw [hread] at h'
        unfold RS.refStore at hS
        rw [if_neg hnn] at hS
        split at hS
        · -- strong
          rename_i hst
          have hon := honly (hstrong hst)
          split at h'
          · -- the new cell
            cases v with
            | cst k => simp [SVal.eval] at h'
            | ivar x => simp [SVal.eval] at h'
            | null => simp [SVal.eval] at h'
            | rvar r0 =>
              simp only [SVal.eval, Option.some.injEq, CellVal.ref.injEq] at h'
              simp only [updN_same] at hS
              exact hG.sites r0 q S h' hS
          · rename_i hne; exact absurd (hon a' _ h') hne
        · -- weak
          split at h'
          · cases v with
            | cst k => simp [SVal.eval] at h'
            | ivar x => simp [SVal.eval] at h'
            | null => simp [SVal.eval] at h'
            | rvar r0 =>
              simp only [SVal.eval, Option.some.injEq, CellVal.ref.injEq] at h'
              simp only [updN_same] at hS
              obtain ⟨Sa, Sb, _, hb, hS'⟩ := unionSites_some hS
              rw [hS']; exact List.mem_append_right _ (hG.sites r0 q Sb h' hb)
          · cases v with
            | cst k => exact hG.rsites _ a' q S h' hS
            | ivar x => exact hG.rsites _ a' q S h' hS
            | null => exact hG.rsites _ a' q S h' hS
            | rvar r0 =>
              simp only [updN_same] at hS
              obtain ⟨Sa, Sb, ha, _, hS'⟩ := unionSites_some hS
              rw [hS']; exact List.mem_append_left _ (hG.rsites _ a' q Sa h' ha)
    · -- nonnullc
      intro g' a' q h'
      by_cases hg : g' = g
      · subst hg
        rw [hread] at h'
        split at h'
        · cases v with
          | cst k => simp [SVal.eval] at h'
          | ivar x => simp [SVal.eval] at h'
          | null => simp [SVal.eval] at h'
          | rvar r0 =>
            simp only [SVal.eval, Option.some.injEq, CellVal.ref.injEq] at h'
            exact hG.nonnull r0 q h'
        · exact hG.nonnullc _ a' q h'
      · rw [hother g' hg] at h'; exact hG.nonnullc g' a' q h'
    · -- base
      intro c d hc
      rw [valOf_setMem]
      -- a selection of the old state that agrees with c outside g
      obtain ⟨c1, hc1⟩ := sel_exists σ
      have hc0 : Sel σ (updN c g (c1 g)) := by
        intro g'
        by_cases hg : g' = g
        · subst hg; simp only [updN_same]; exact hc1 _
        · simp only [updN_other _ _ hg]
          have := hc g'
          simp only [Vis, hother g' hg] at this
          exact this
      have hρ0 := hG.base _ d hc0
      have hcc : updN (updN c g (c1 g)) g (c g) = c := by
        funext g'; by_cases hg : g' = g
        · subst hg; simp
        · simp [updN_other _ _ hg]
      have hval : valOf σ c d = (valOf σ (updN c g (c1 g)) d).set (.rgn g) (c g) := by
        rw [← valOf_sel_rgn, hcc]
      -- the selection of g in the new state
      have hvis' : Vis (σ.setMem g ((σ.mems g).write p.addr (v.eval σ) tags)) g (v.eval σ).toInt :=
        ⟨p.addr, v.eval σ, by rw [hread]; simp, rfl⟩
      obtain ⟨a', cv', hr', he'⟩ := (hc g).1 ⟨_, hvis'⟩
      rw [hread] at hr'
      unfold RS.refStore
      rw [if_neg hnn]
      split
      · -- strong
        rename_i hst
        have hon := honly (hstrong hst)
        have hcg : c g = (v.eval σ).toInt := by
          split at hr'
          · cases hr'; exact he'.symm
          · rename_i hne; exact absurd (hon a' _ hr') hne
        have := memWrite_strong (D := D) g v hρ0
        rw [svOf_valOf] at this
        rw [hval, hcg]; exact this
      · -- weak
        have hw := memWrite_weak (D := D) g v hρ0
        rw [svOf_valOf] at hw
        split at hr'
        · cases hr'
          rw [hval, ← he']; exact hw.2
        · -- an old cell: c is a selection of the old state
          have hsel : Sel σ c := by
            intro g'
            by_cases hg : g' = g
            · subst hg
              have hv : Vis σ g' (c g') := ⟨a', cv', hr', he'⟩
              exact ⟨fun _ => hv, fun hn => absurd ⟨_, hv⟩ hn⟩
            · have := hc g'
              simp only [Vis, hother g' hg] at this
              exact this
          exact (memWrite_weak (D := D) g v (hG.base c d hsel)).1

/-! ### ref_make, ref_gep, ref_free -/

theorem vis_congr {σ σ' : State} (h : ∀ g a, (σ'.mems g).read a = (σ.mems g).read a) (g : Nat) (v : Int) :
    Vis σ' g v ↔ Vis σ g v := by
  simp only [Vis, h]

theorem sel_congr {σ σ' : State} (h : ∀ g a, (σ'.mems g).read a = (σ.mems g).read a) (c : Nat → Int) :
    Sel σ' c ↔ Sel σ c := by
  simp only [Sel, vis_congr h]

/-- adding a member address to region `g` and assigning reference `r`: the common part of
    `ref_make` and `ref_gep` -/
theorem addRef_sound {D : Base B} {A A' : RS B} {σ : State} {r g : Nat} {q : Ptr} {tg : List Nat} {σ1 : State}
    (hG : Gamma D A σ)
    (h1 : σ1.mems = σ.mems ∧ σ1.refs = σ.refs ∧ σ1.ints = σ.ints)
    (hq0 : q.addr ≠ 0)
    (hcnt : ∀ g', SmallRange.γ (A'.cnt g') (((σ1.setRef r (.ptr q) tg).setMem g ((σ.mems g).addMember q.addr)).mems g').members.length)
    (hinit : A'.init = A.init) (hrs : A'.rsites = A.rsites)
    (hsite : ∀ S, A'.sites r = some S → q.site ∈ S)
    (hsites : ∀ r', r' ≠ r → A'.sites r' = A.sites r')
    (hbase : ∀ c d, Sel σ c → D.γ A'.base ((valOf σ c d).set (.ref r) q.addr)) :
    Gamma D A' ((σ1.setRef r (.ptr q) tg).setMem g ((σ.mems g).addMember q.addr)) := by
  obtain ⟨hm, hr, hi⟩ := h1
  have hread : ∀ g' a, ((((σ1.setRef r (.ptr q) tg).setMem g ((σ.mems g).addMember q.addr)).mems g').read a)
      = (σ.mems g').read a := by
    intro g' a
    by_cases hg : g' = g
    · subst hg; rw [setMem_mems_same, Mem.addMember_read]
    · rw [setMem_mems_other _ _ hg]; simp only [State.setRef, hm]
  have hrefs : ∀ r', ((σ1.setRef r (.ptr q) tg).setMem g ((σ.mems g).addMember q.addr)).refs r'
      = if r' = r then .ptr q else σ.refs r' := by
    intro r'; simp only [State.setMem, State.setRef, upd, hr]
  refine ⟨?_, ?_, hcnt, ?_, ?_, ?_, ?_, ?_, ?_⟩
  · intro g' a cv h'
    rw [hread] at h'
    by_cases hg : g' = g
    · subst hg; rw [setMem_mems_same, Mem.mem_addMember]; exact Or.inr (hG.member _ a cv h')
    · rw [setMem_mems_other _ _ hg]; simp only [State.setRef, hm]; exact hG.member g' a cv h'
  · intro g'
    by_cases hg : g' = g
    · subst hg; rw [setMem_mems_same]; exact Mem.nodup_addMember _ _ (hG.nodup _)
    · rw [setMem_mems_other _ _ hg]; simp only [State.setRef, hm]; exact hG.nodup g'
  · intro g' hi' a; rw [hread]; rw [hinit] at hi'; exact hG.init g' hi' a
  · intro r' p S hp hS
    rw [hrefs] at hp
    by_cases h : r' = r
    · subst h; simp at hp; subst hp; exact hsite S hS
    · simp [h] at hp; rw [hsites r' h] at hS; exact hG.sites r' p S hp hS
  · intro g' a p S h' hS; rw [hread] at h'; rw [hrs] at hS; exact hG.rsites g' a p S h' hS
  · intro r' p hp
    rw [hrefs] at hp
    by_cases h : r' = r
    · subst h; simp at hp; subst hp; exact hq0
    · simp [h] at hp; exact hG.nonnull r' p hp
  · intro g' a p h'; rw [hread] at h'; exact hG.nonnullc g' a p h'
  · intro c d hc
    have hc' : Sel σ c := (sel_congr hread c).1 hc
    have : valOf ((σ1.setRef r (.ptr q) tg).setMem g ((σ.mems g).addMember q.addr)) c d
        = (valOf σ c d).set (.ref r) q.addr := by
      funext y
      cases y with
      | ref r' =>
        simp only [valOf, hrefs, Val.set]
        by_cases h : r' = r
        · subst h; simp [RefVal.toInt]
        · simp [h]
      | int x => simp [valOf, State.setMem, State.setRef, Val.set, hi]
      | rgn g' => simp [valOf, Val.set]
      | dup => simp [valOf, Val.set]
    rw [this]; exact hbase c d hc'

/-- `ref_make` is sound -/
theorem make_sound {D : Base B} {A : RS B} {σ σ' : State} {r g site : Nat} {size : Int}
    (hG : Gamma D A σ) (hs : σ.refMake r g size site = some σ') :
    Gamma D (A.refMake D r g site) σ' := by
  unfold State.refMake at hs
  split at hs
  · cases hs
  · simp only [Option.some.injEq] at hs
    subst hs
    refine addRef_sound (q := ⟨g, site, 1000 * ((site : Int) + 1)⟩) hG ⟨rfl, rfl, rfl⟩ (by simp; omega) ?_ rfl rfl ?_ ?_ ?_
    · intro g'
      by_cases hg : g' = g
      · subst hg
        rw [setMem_mems_same]
        simp only [RS.refMake, updN_same]
        rcases Mem.length_addMember (σ.mems g') (1000 * ((site : Int) + 1)) with ⟨hin, hl⟩ | ⟨_, hl⟩
        · rw [hl]
          refine SmallRange.increment_same (hG.count g') ?_
          cases hm : (σ.mems g').members with
          | nil => rw [hm] at hin; cases hin
          | cons _ _ => simp
        · rw [hl]; exact SmallRange.increment_sound (hG.count g')
      · rw [setMem_mems_other _ _ hg]
        simp only [RS.refMake, updN_other _ _ hg, State.setRef]
        exact hG.count g'
    · intro S hS; simp only [RS.refMake, updN_same, Option.some.injEq] at hS; subst hS; simp
    · intro r' h; simp only [RS.refMake, updN_other _ _ h]
    · intro c d hc; exact D.forget_sound _ _ (hG.base c d hc)

/-- `ref_gep` with a constant offset is sound -/
theorem gep_sound {D : Base B} {A : RS B} {σ σ' : State} {r1 g1 r2 g2 : Nat} {k : Int}
    (hG : Gamma D A σ) (hs : σ.refGep r1 g1 r2 g2 k = some σ') :
    Gamma D (A.refGep D r1 g1 r2 g2 k) σ' := by
  unfold State.refGep at hs
  split at hs
  · cases hs
  · rename_i p hp
    obtain ⟨hrp, hmem⟩ := useRef_some hp
    dsimp only at hs
    split at hs
    rotate_left
    · cases hs
    rename_i hcond
    simp only [Option.some.injEq] at hs
    subst hs
    refine addRef_sound (q := ⟨g2, p.site, p.addr + k⟩) hG ⟨rfl, rfl, rfl⟩ (by simp; omega) ?_ rfl rfl ?_ ?_ ?_
    · intro g'
      by_cases hg : g' = g2
      · subst hg
        rw [setMem_mems_same]
        by_cases hz : g1 = g' ∧ k = 0
        · obtain ⟨h1, h2⟩ := hz
          subst h1; subst h2
          simp only [RS.refGep, and_self, if_true]
          rcases Mem.length_addMember (σ.mems g1) (p.addr + 0) with ⟨_, hl⟩ | ⟨hn, _⟩
          · rw [hl]; exact hG.count g1
          · simp at hn; exact absurd hmem hn
        · simp only [RS.refGep, if_neg hz, updN_same]
          rcases Mem.length_addMember (σ.mems g') (p.addr + k) with ⟨hin, hl⟩ | ⟨_, hl⟩
          · rw [hl]
            refine SmallRange.increment_same (hG.count g') ?_
            cases hm : (σ.mems g').members with
            | nil => rw [hm] at hin; cases hin
            | cons _ _ => simp
          · rw [hl]; exact SmallRange.increment_sound (hG.count g')
      · rw [setMem_mems_other _ _ hg]
        simp only [State.setRef]
        have : (A.refGep D r1 g1 r2 g2 k).cnt g' = A.cnt g' := by
          simp only [RS.refGep]; split
          · rfl
          · exact updN_other _ _ hg
        rw [this]; exact hG.count g'
    · intro S hS
      simp only [RS.refGep, updN_same] at hS
      exact hG.sites r1 p S hrp hS
    · intro r' h; simp only [RS.refGep, updN_other _ _ h]
    · intro c d hc
      have := D.assignAdd_sound (.ref r2) (.ref r1) k (hG.base c d hc)
      simp only [valOf, hrp, RefVal.toInt] at this
      exact this

/-- `ref_free` only forgets the allocation sites of the freed reference -/
theorem free_sound {D : Base B} {A : RS B} {σ σ' : State} {r g : Nat}
    (hG : Gamma D A σ) (hs : σ.refFree g r = some σ') : Gamma D (A.refFree r) σ' := by
  have key : ∀ fr, Gamma D (A.refFree r) { σ with freed := fr } := by
    intro fr
    refine ⟨hG.member, hG.nodup, hG.count, hG.init, ?_, hG.rsites, hG.nonnull, hG.nonnullc, hG.base⟩
    intro r' p S hp hS
    by_cases h : r' = r
    · subst h; simp [RS.refFree] at hS
    · simp only [RS.refFree, updN_other _ _ h] at hS; exact hG.sites r' p S hp hS
  unfold State.refFree at hs
  split at hs
  · cases hs; exact key σ.freed
  · split at hs
    · cases hs
    · split at hs
      · cases hs
      · cases hs; exact key _

/-! ### join, widening -/

theorem join_sound {D : Base B} {A1 A2 : RS B} {σ : State} (h : Gamma D A1 σ ∨ Gamma D A2 σ) :
    Gamma D (RS.join D A1 A2) σ := by
  have hcnt : ∀ g, SmallRange.γ (((A1.cnt g).join (A2.cnt g)).getD .zeroOrMore) (σ.mems g).members.length := by
    intro g
    have hs := SmallRange.join_isSome (A1.cnt g) (A2.cnt g)
    cases hj : (A1.cnt g).join (A2.cnt g) with
    | none => rw [hj] at hs; cases hs
    | some x =>
      simp only [Option.getD]
      exact SmallRange.join_sound (h.elim (fun h => Or.inl (h.count g)) (fun h => Or.inr (h.count g))) hj
  rcases h with h | h
  · refine ⟨h.member, h.nodup, hcnt, ?_, ?_, ?_, h.nonnull, h.nonnullc, fun c d hc => D.join_left (h.base c d hc)⟩
    · intro g hi a
      simp only [RS.join, Bool.or_eq_false_iff] at hi
      exact h.init g hi.1 a
    · intro r p S hp hS
      obtain ⟨Sa, Sb, ha, _, hS'⟩ := unionSites_some hS
      rw [hS']; exact List.mem_append_left _ (h.sites r p Sa hp ha)
    · intro g a p S h' hS
      obtain ⟨Sa, Sb, ha, _, hS'⟩ := unionSites_some hS
      rw [hS']; exact List.mem_append_left _ (h.rsites g a p Sa h' ha)
  · refine ⟨h.member, h.nodup, hcnt, ?_, ?_, ?_, h.nonnull, h.nonnullc, fun c d hc => D.join_right (h.base c d hc)⟩
    · intro g hi a
      simp only [RS.join, Bool.or_eq_false_iff] at hi
      exact h.init g hi.2 a
    · intro r p S hp hS
      obtain ⟨Sa, Sb, _, hb, hS'⟩ := unionSites_some hS
      rw [hS']; exact List.mem_append_right _ (h.sites r p Sb hp hb)
    · intro g a p S h' hS
      obtain ⟨Sa, Sb, _, hb, hS'⟩ := unionSites_some hS
      rw [hS']; exact List.mem_append_right _ (h.rsites g a p Sb h' hb)

theorem widen_sound {D : Base B} {A1 A2 : RS B} {σ : State} (h : Gamma D A1 σ ∨ Gamma D A2 σ) :
    Gamma D (RS.widen D A1 A2) σ := by
  have hj := join_sound (D := D) h
  rcases h with h | h
  · exact ⟨hj.member, hj.nodup, hj.count, hj.init, hj.sites, hj.rsites, hj.nonnull, hj.nonnullc,
      fun c d hc => D.widen_left (h.base c d hc)⟩
  · exact ⟨hj.member, hj.nodup, hj.count, hj.init, hj.sites, hj.rsites, hj.nonnull, hj.nonnullc,
      fun c d hc => D.widen_right (h.base c d hc)⟩

/-! ### region_copy -/

/-- `region_copy(l, r)` (l ≠ r) is sound -/
theorem copy_sound {D : Base B} {A : RS B} {σ σ' : State} {l r : Nat} (hlr : l ≠ r)
    (hG : Gamma D A σ) (hs : σ.regionCopy l r = some σ') : Gamma D (A.regionCopy D l r) σ' := by
  simp only [State.regionCopy, Option.some.injEq] at hs
  subst hs
  have hml : (σ.setMem l (σ.mems r)).mems l = σ.mems r := setMem_mems_same _ _ _
  have hmo : ∀ g, g ≠ l → (σ.setMem l (σ.mems r)).mems g = σ.mems g := fun g h => setMem_mems_other _ _ h
  refine ⟨?_, ?_, ?_, ?_, hG.sites, ?_, hG.nonnull, ?_, ?_⟩
  · intro g a cv h'
    by_cases hg : g = l
    · subst hg; rw [hml] at h' ⊢; exact hG.member r a cv h'
    · rw [hmo g hg] at h' ⊢; exact hG.member g a cv h'
  · intro g
    by_cases hg : g = l
    · subst hg; rw [hml]; exact hG.nodup r
    · rw [hmo g hg]; exact hG.nodup g
  · intro g
    by_cases hg : g = l
    · subst hg; rw [hml]; simp only [RS.regionCopy, updN_same]; exact hG.count r
    · rw [hmo g hg]; simp only [RS.regionCopy, updN_other _ _ hg]; exact hG.count g
  · intro g hi a
    by_cases hg : g = l
    · subst hg; rw [hml]; simp only [RS.regionCopy, updN_same] at hi; exact hG.init r hi a
    · rw [hmo g hg]; simp only [RS.regionCopy, updN_other _ _ hg] at hi; exact hG.init g hi a
  · intro g a p S h' hS
    by_cases hg : g = l
    · subst hg; rw [hml] at h'; simp only [RS.regionCopy, updN_same] at hS; exact hG.rsites r a p S h' hS
    · rw [hmo g hg] at h'; simp only [RS.regionCopy, updN_other _ _ hg] at hS; exact hG.rsites g a p S h' hS
  · intro g a p h'
    by_cases hg : g = l
    · subst hg; rw [hml] at h'; exact hG.nonnullc r a p h'
    · rw [hmo g hg] at h'; exact hG.nonnullc g a p h'
  · intro c d hc
    rw [valOf_setMem]
    have hrl : r ≠ l := fun h => hlr h.symm
    -- visibility in the new state
    have hvl : ∀ v, Vis (σ.setMem l (σ.mems r)) l v ↔ Vis σ r v := by intro v; simp only [Vis, hml]
    have hvo : ∀ g, g ≠ l → ∀ v, Vis (σ.setMem l (σ.mems r)) g v ↔ Vis σ g v := by
      intro g hg v; simp only [Vis, hmo g hg]
    -- a selection of the old state that agrees with c outside l
    obtain ⟨c1, hc1⟩ := sel_exists σ
    have hc0 : Sel σ (updN c l (c1 l)) := by
      intro g
      by_cases hg : g = l
      · subst hg; simp only [updN_same]; exact hc1 _
      · simp only [updN_other _ _ hg]
        have := hc g
        simp only [hvo g hg] at this
        exact this
    have hcc : updN (updN c l (c1 l)) l (c l) = c := by
      funext g; by_cases hg : g = l
      · subst hg; simp
      · simp [updN_other _ _ hg]
    have hval : valOf σ c d = (valOf σ (updN c l (c1 l)) d).set (.rgn l) (c l) := by
      rw [← valOf_sel_rgn, hcc]
    have hρ0 := hG.base _ d hc0
    have hc0r : (updN c l (c1 l)) r = c r := updN_other _ _ hrl
    simp only [RS.regionCopy]
    split
    · -- the source is a singleton: c l = c r
      rename_i hz
      have hone := length_le_one_of_cnt (hG.count r) hz
      have hcl : c l = c r := by
        by_cases hex : ∃ v, Vis σ r v
        · obtain ⟨a1, cv1, hr1, he1⟩ := ((hc l).1 (by obtain ⟨v, hv⟩ := hex; exact ⟨v, (hvl v).2 hv⟩))
          rw [hml] at hr1
          have h2 := sel_unique hG hone hc0 hr1
          rw [hc0r] at h2
          rw [h2, ← he1]
        · have h1 := (hc l).2 (by rintro ⟨v, hv⟩; exact hex ⟨v, (hvl v).1 hv⟩)
          have h2 := (hc r).2 (by rintro ⟨v, hv⟩; exact hex ⟨v, (hvo r hrl v).1 hv⟩)
          rw [h1, h2]
      have := D.assign_sound (.rgn l) (.rgn r) hρ0
      simp only [valOf, hc0r] at this
      rw [hval, hcl]; exact this
    · -- weak: forget the destination, then expand the source into it
      have hf : ∀ {ρ : Val}, D.γ A.base ρ → D.γ (D.forget (.rgn l) A.base) ρ := by
        intro ρ h
        have := D.forget_sound (.rgn l) (ρ (.rgn l)) h
        rw [Val.set_self] at this; exact this
      have h1 := hf hρ0
      have h2 : D.γ (D.forget (.rgn l) A.base) ((valOf σ (updN c l (c1 l)) d).set (.rgn r) (c l)) := by
        by_cases hex : ∃ v, Vis σ r v
        · have hv : Vis σ r (c l) := by
            have := (hc l).1 (by obtain ⟨v, hv⟩ := hex; exact ⟨v, (hvl v).2 hv⟩)
            exact (hvl _).1 this
          have := hG.base _ d (sel_updN hc0 hv)
          rw [valOf_sel_rgn] at this
          exact hf this
        · have hcl0 : c l = 0 := (hc l).2 (by rintro ⟨v, hv⟩; exact hex ⟨v, (hvl v).1 hv⟩)
          have hcr0 : c r = 0 := (hc r).2 (by rintro ⟨v, hv⟩; exact hex ⟨v, (hvo r hrl v).1 hv⟩)
          have : (valOf σ (updN c l (c1 l)) d).set (.rgn r) (c l) = valOf σ (updN c l (c1 l)) d := by
            rw [hcl0]
            have : (valOf σ (updN c l (c1 l)) d) (.rgn r) = 0 := by simp only [valOf, hc0r, hcr0]
            rw [← this, Val.set_self]
          rw [this]; exact h1
      have := D.expand_sound (.rgn r) (.rgn l) (c l) h1 h2
      rw [hval]; exact this

end Rgn
end Crab
