import CrabModel.Dom.Octagon
import CrabProofs.Lemmas.Dbm
import CrabProofs.Lemmas.Interval

/-!
  Soundness / exactness of the canonical integer octagon model (`CrabModel.Dom.Octagon`):
  the tight closure `close = strengthen ∘ tighten ∘ fw` keeps the integer solutions and only lowers
  entries; every operation of the model is sound (or exact) for `γ`.
  No coherence hypothesis is needed: everything holds for all `n` and all matrices.
-/
namespace Crab
namespace Octagon
open Dbm

variable {n : Nat}

/-- functional update of a state -/
def updS (σ : State n) (x : Fin n) (t : Int) : State n := fun y => if y = x then t else σ y

/-! ### literals -/

theorem bar_val (i : Fin (2 * n)) :
    (bar i).val = if i.val % 2 = 0 then i.val + 1 else i.val - 1 := rfl

theorem varOf_bar (i : Fin (2 * n)) : varOf (bar i) = varOf i := by
  apply Fin.ext
  simp only [varOf, bar_val]
  split <;> omega

theorem bar_bar (i : Fin (2 * n)) : bar (bar i) = i := by
  apply Fin.ext
  simp only [bar_val]
  split <;> split <;> omega

theorem bar_ne (i : Fin (2 * n)) : bar i ≠ i := by
  intro h
  have := congrArg Fin.val h
  simp only [bar_val] at this
  split at this <;> omega

theorem bar_inj {i j : Fin (2 * n)} (h : bar i = bar j) : i = j := by
  have := congrArg bar h
  rwa [bar_bar, bar_bar] at this

theorem bar_pos (x : Fin n) : bar (pos x) = neg x := by
  apply Fin.ext
  simp only [bar_val, pos, neg]
  split <;> omega

theorem bar_neg (x : Fin n) : bar (neg x) = pos x := by
  apply Fin.ext
  simp only [bar_val, pos, neg]
  split <;> omega

theorem varOf_pos (x : Fin n) : varOf (pos x) = x := by
  apply Fin.ext
  simp only [varOf, pos]
  omega

theorem varOf_neg (x : Fin n) : varOf (neg x) = x := by
  apply Fin.ext
  simp only [varOf, neg]
  omega

theorem ext_bar (σ : State n) (i : Fin (2 * n)) : ext σ (bar i) = - ext σ i := by
  unfold ext
  rw [varOf_bar]
  by_cases h : i.val % 2 = 0
  · have hb : ¬ (bar i).val % 2 = 0 := by
      simp only [bar_val]; split <;> omega
    rw [if_pos h, if_neg hb]
  · have hb : (bar i).val % 2 = 0 := by
      simp only [bar_val]; split <;> omega
    rw [if_neg h, if_pos hb]
    omega

theorem ext_pos (σ : State n) (x : Fin n) : ext σ (pos x) = σ x := by
  unfold ext
  rw [varOf_pos]
  have : (pos x).val % 2 = 0 := by simp only [pos]; omega
  rw [if_pos this]

theorem ext_neg (σ : State n) (x : Fin n) : ext σ (neg x) = - σ x := by
  rw [← bar_pos, ext_bar, ext_pos]

theorem ext_updS_of_ne (σ : State n) (x : Fin n) (t : Int) (i : Fin (2 * n)) (h : varOf i ≠ x) :
    ext (updS σ x t) i = ext σ i := by
  unfold ext updS
  rw [if_neg h]

/-! ### generic matrix facts (kept in this namespace) -/

theorem sat_get {N : Nat} {m : Mat N} {v : Fin N → Int} (h : m.sat v) (i j : Fin N) :
    W.LE (some (v i - v j)) (m.get i j) := (Mat.sat_iff m v).1 h i j

theorem pmin_sat {N : Nat} (a b : Mat N) (v : Fin N → Int) :
    (Mat.pmin a b).sat v ↔ a.sat v ∧ b.sat v := by
  constructor
  · intro h
    constructor
    · refine Mat.sat_of_LE (a := Mat.pmin a b) ?_ h
      intro i j
      simp only [Mat.pmin, Mat.get_ofFn]
      exact W.min_LE_left _ _
    · refine Mat.sat_of_LE (a := Mat.pmin a b) ?_ h
      intro i j
      simp only [Mat.pmin, Mat.get_ofFn]
      exact W.min_LE_right _ _
  · rintro ⟨ha, hb⟩
    rw [Mat.sat_iff]
    intro i j
    simp only [Mat.pmin, Mat.get_ofFn]
    exact W.LE_min (sat_get ha i j) (sat_get hb i j)

theorem pmax_sat_left {N : Nat} (a b : Mat N) (v : Fin N → Int) (h : a.sat v) :
    (Mat.pmax a b).sat v := by
  rw [Mat.sat_iff]
  intro i j
  simp only [Mat.pmax, Mat.get_ofFn]
  exact W.LE_trans (sat_get h i j) (W.LE_max_left _ _)

theorem pmax_sat_right {N : Nat} (a b : Mat N) (v : Fin N → Int) (h : b.sat v) :
    (Mat.pmax a b).sat v := by
  rw [Mat.sat_iff]
  intro i j
  simp only [Mat.pmax, Mat.get_ofFn]
  exact W.LE_trans (sat_get h i j) (W.LE_max_right _ _)

/-! ### weights -/

theorem tight2_LE (a : W) : W.LE (W.tight2 a) a := by
  cases a <;> simp [W.tight2, W.LE]
  omega

/-- integrality: an even quantity below `a` is below `2 * ⌊a / 2⌋` -/
theorem LE_tight2 {t : Int} {a : W} (h : W.LE (some (2 * t)) a) : W.LE (some (2 * t)) (W.tight2 a) := by
  cases a <;> simp_all [W.tight2, W.LE]
  omega

theorem LE_half_add {t : Int} {a b : W} {p q : Int} (ha : W.LE (some p) a) (hb : W.LE (some q) b)
    (e : 2 * t = p + q) : W.LE (some t) (W.half (W.add a b)) := by
  cases a <;> cases b <;> simp_all [W.half, W.add, W.LE]
  omega

/-! ### tightening, strengthening, tight closure -/

theorem tighten_LE (m : Oct n) : Mat.LE (tighten m) m := by
  intro i j
  simp only [tighten, Mat.get_ofFn]
  split
  · exact tight2_LE _
  · exact W.LE_refl _

theorem tighten_sat (m : Oct n) (σ : State n) : (tighten m).sat (ext σ) ↔ m.sat (ext σ) := by
  constructor
  · exact Mat.sat_of_LE (tighten_LE m)
  · intro h
    rw [Mat.sat_iff]
    intro i j
    simp only [tighten, Mat.get_ofFn]
    split
    · rename_i hj
      subst hj
      have h1 := sat_get h i (bar i)
      rw [ext_bar] at h1 ⊢
      have e : ext σ i - -ext σ i = 2 * ext σ i := by omega
      rw [e] at h1 ⊢
      exact LE_tight2 h1
    · exact sat_get h i j

theorem strengthen_LE (m : Oct n) : Mat.LE (strengthen m) m := by
  intro i j
  simp only [strengthen, Mat.get_ofFn]
  exact W.min_LE_left _ _

theorem strengthen_sat (m : Oct n) (σ : State n) : (strengthen m).sat (ext σ) ↔ m.sat (ext σ) := by
  constructor
  · exact Mat.sat_of_LE (strengthen_LE m)
  · intro h
    rw [Mat.sat_iff]
    intro i j
    simp only [strengthen, Mat.get_ofFn]
    refine W.LE_min (sat_get h i j) ?_
    refine LE_half_add (sat_get h i (bar i)) (sat_get h (bar j) j) ?_
    rw [ext_bar, ext_bar]
    omega

theorem close_LE (o : Oct n) : Mat.LE (close o) o :=
  Mat.LE_trans (strengthen_LE _) (Mat.LE_trans (tighten_LE _) (Mat.fw_LE o))

theorem close_preserves_γ (o : Oct n) (σ : State n) : γ (close o) σ ↔ γ o σ := by
  unfold γ close
  rw [strengthen_sat, tighten_sat, Mat.fw_sat]

theorem top_γ (σ : State n) : γ (top : Oct n) σ := Mat.top_sat _

/-! ### constraints -/

theorem Cst.sat_iff_entry (c : Cst n) (σ : State n) :
    c.sat σ ↔ ext σ c.row - ext σ c.col ≤ c.bound := by
  cases c <;> simp only [Cst.sat, Cst.row, Cst.col, Cst.bound, ext_pos, ext_neg] <;> omega

theorem assumeCst_exact (o : Oct n) (c : Cst n) (σ : State n) :
    γ (assumeCst o c) σ ↔ (γ o σ ∧ c.sat σ) := by
  unfold γ assumeCst
  rw [Mat.addEdge_sat, Mat.addEdge_sat, ext_bar, ext_bar, Cst.sat_iff_entry]
  constructor
  · rintro ⟨⟨h1, h2⟩, _⟩
    exact ⟨h1, h2⟩
  · rintro ⟨h1, h2⟩
    exact ⟨⟨h1, h2⟩, by omega⟩

theorem assumeAll_exact (o : Oct n) (cs : List (Cst n)) (σ : State n) :
    γ (assumeAll o cs) σ ↔ (γ o σ ∧ ∀ c ∈ cs, c.sat σ) := by
  unfold assumeAll
  induction cs generalizing o with
  | nil => simp
  | cons c cs ih =>
    rw [List.foldl_cons, ih, assumeCst_exact]
    simp only [List.mem_cons, forall_eq_or_imp]
    exact and_assoc

/-! ### queries -/

theorem bottom_sound (o : Oct n) (h : isBottom o = true) : ¬ ∃ σ, γ o σ := by
  rintro ⟨σ, hσ⟩
  exact Mat.not_sat_of_hasNegDiag h (ext σ) ((close_preserves_γ o σ).2 hσ)

theorem bounds_sound (o : Oct n) (σ : State n) (h : γ o σ) (x : Fin n) :
    Itv.mem (σ x) (bounds o x) := by
  unfold bounds boundsC
  rw [show isBottomC (close o) = isBottom o from rfl]
  cases hb : isBottom o
  · have hc : (close o).sat (ext σ) := (close_preserves_γ o σ).2 h
    have h1 := sat_get hc (neg x) (pos x)
    have h2 := sat_get hc (pos x) (neg x)
    rw [ext_pos, ext_neg] at h1 h2
    simp only [Bool.false_eq_true, if_false, Itv.mem]
    constructor
    · cases hg : (close o).get (neg x) (pos x) with
      | none => simp [W.half, Zones.toLb, Bound.le]
      | some k =>
        rw [hg] at h1
        have := W.LE_some_some.1 h1
        simp only [W.half, Zones.toLb, Bound.le, decide_eq_true_eq]
        omega
    · cases hg : (close o).get (pos x) (neg x) with
      | none => simp [W.half, Zones.toUb, Bound.le]
      | some k =>
        rw [hg] at h2
        have := W.LE_some_some.1 h2
        simp only [W.half, Zones.toUb, Bound.le, decide_eq_true_eq]
        omega
  · exact absurd ⟨σ, h⟩ (bottom_sound o hb)

theorem entails_sound (o : Oct n) (c : Cst n) (h : entails o c = true) (σ : State n)
    (hσ : γ o σ) : c.sat σ := by
  unfold entails entailsC at h
  rw [show isBottomC (close o) = isBottom o from rfl, Bool.or_eq_true] at h
  rcases h with h | h
  · exact absurd ⟨σ, hσ⟩ (bottom_sound o h)
  · rw [W.le_iff] at h
    have hc : (close o).sat (ext σ) := (close_preserves_γ o σ).2 hσ
    have := W.LE_some_some.1 (W.LE_trans (sat_get hc c.row c.col) h)
    exact (Cst.sat_iff_entry c σ).2 this

/-! ### lattice operations and projection -/

theorem join_upper (a b : Oct n) (σ : State n) (h : γ a σ ∨ γ b σ) : γ (join a b) σ := by
  unfold join
  cases ha : isBottom a
  · cases hb : isBottom b
    · simp only [Bool.false_eq_true, if_false]
      rcases h with h | h
      · exact pmax_sat_left _ _ _ ((close_preserves_γ a σ).2 h)
      · exact pmax_sat_right _ _ _ ((close_preserves_γ b σ).2 h)
    · simp only [Bool.false_eq_true, if_false, if_true]
      rcases h with h | h
      · exact h
      · exact absurd ⟨σ, h⟩ (bottom_sound b hb)
  · simp only [if_true]
    rcases h with h | h
    · exact absurd ⟨σ, h⟩ (bottom_sound a ha)
    · exact h

theorem meet_exact (a b : Oct n) (σ : State n) : γ (meet a b) σ ↔ (γ a σ ∧ γ b σ) :=
  pmin_sat a b (ext σ)

theorem forget_sound (o : Oct n) (x : Fin n) (σ : State n) (t : Int) (h : γ o σ) :
    γ (forget o x) (updS σ x t) := by
  unfold forget
  cases hb : isBottom o
  · simp only [Bool.false_eq_true, if_false]
    have hc : (close o).sat (ext σ) := (close_preserves_γ o σ).2 h
    intro i j k hk
    simp only [Mat.dropIdx, Mat.get_ofFn] at hk
    split at hk
    · cases hk
    · rename_i hp
      simp only [Bool.or_eq_true, decide_eq_true_eq, not_or] at hp
      rw [ext_updS_of_ne _ _ _ _ hp.1, ext_updS_of_ne _ _ _ _ hp.2]
      exact hc i j k hk
  · exact absurd ⟨σ, h⟩ (bottom_sound o hb)

end Octagon
end Crab
