import CrabProofs.Lemmas.FixSMain
import CrabProofs.Lemmas.FixSoundRun

/-!
  Soundness of the state-passing iterator, part 2: skipping up to the start block and the global
  collecting semantics (port of `FixSoundRun.lean`): `runS_sound`.
-/
namespace Crab
namespace Fix
namespace Sound

variable {A S σ : Type} {c : Ctx A} {sem : Sem c S} {an : AnS A σ} {I : σ → Prop} {Le : σ → σ → Prop}
  {Cov : σ → Nat → S → Prop}

theorem visitCompS_skipped (c : Ctx A) (an : AnS A σ) (fuel : Nat) (st : St A) (x : Comp) (s : σ)
    (hs : st.skip = true) (hm : x.member c.entry = false) :
    visitCompS c an (fuel + 1) st x s = some (st, s) := by
  cases x with
  | vertex v =>
    have hv : (v == c.entry) = false := by simpa [Comp.member] using hm
    simp [visitCompS, visitVertexS, hs, hv]
  | cycle h B =>
    simp [visitCompS, hs, hm]

theorem visitCompS_enter (c : Ctx A) (an : AnS A σ) (fuel : Nat) (st : St A) (x : Comp) (s : σ)
    (hs : st.skip = true) (hm : x.member c.entry = true) :
    visitCompS c an fuel st x s = visitCompS c an fuel { st with skip := false } x s := by
  cases fuel with
  | zero => simp [visitCompS]
  | succ fuel =>
    cases x with
    | vertex v =>
      have hv : (v == c.entry) = true := by simpa [Comp.member] using hm
      simp [visitCompS, visitVertexS, hs, hv]
    | cycle h B =>
      simp [visitCompS, hs, hm]

theorem visitListS_top (ok : AnOK c sem an I Le Cov) : ∀ (w : List Comp) (fuel : Nat) (st st' : St A) (s s' : σ),
    visitListS c an fuel st w s = some (st', s') → st.skip = true → I s → c.entry ∈ nodesList w →
    ListOK c w → (nodesList w).Nodup →
    ∃ K R, w = K ++ R ∧ c.entry ∈ nodesList R ∧ VisitGoodS c sem I Le Cov (nodesList R) st s st' s'
  | [], _, _, _, _, _, _, _, _, he, _, _ => by simp [nodesList] at he
  | x :: xs, 0, _, _, _, _, H, _, _, _, _, _ => by simp [visitListS] at H
  | x :: xs, fuel + 1, st, st', s, s', H, hs, hI, he, hok, hnd => by
      cases hm : x.member c.entry with
      | false =>
        have hex : c.entry ∉ x.nodes := fun h => by
          rw [(Comp.member_iff c.entry x).2 h] at hm; exact Bool.noConfusion hm
        simp only [nodesList, List.mem_append] at he
        have he' : c.entry ∈ nodesList xs := he.resolve_left hex
        cases fuel with
        | zero => simp [visitListS, visitCompS] at H
        | succ fuel =>
          simp only [visitListS, visitCompS_skipped c an fuel st x s hs hm] at H
          simp only [ListOK] at hok
          simp only [nodesList] at hnd
          obtain ⟨K, R, hw, heR, hG⟩ := visitListS_top ok xs (fuel + 1) st st' s s' H hs hI he' hok.2.1
            (List.nodup_append.1 hnd).2.1
          exact ⟨x :: K, R, by simp [hw], heR, hG⟩
      | true =>
        have H' : visitListS c an (fuel + 1) { st with skip := false } (x :: xs) s = some (st', s') := by
          simp only [visitListS] at H ⊢
          rw [← visitCompS_enter c an fuel st x s hs hm]; exact H
        have hG := (visit_allS ok (fuel + 1)).2.1 _ (x :: xs) s st' s' H' rfl hI hok hnd
        exact ⟨[], x :: xs, rfl, he, hG⟩

/-- Soundness of `runS`: the tables contain the collecting semantics, the state invariant is
    kept, the state has grown, and every reachable concrete state of every block is covered. -/
theorem runS_sound (ok : AnOK c sem an I Le Cov) (w : List Comp) (fuel : Nat) (st : St A) (s s' : σ)
    (hwf : WtoWF c w) (hI : I s) (hrun : runS c an fuel w s = some (st, s')) :
    I s' ∧ Le s s' ∧
    (∀ n x, ReachPre c sem n x → sem.γ (st.pre n) x ∧ Cov s' n x) ∧
    (∀ n x, ReachPost c sem n x → sem.γ (st.post n) x) := by
  have hok : ListOK c w := LWF.listOK w ⟨hwf.nodup, hwf.edge⟩
  unfold runS at hrun
  obtain ⟨K, R, hw, heR, hG, hI', hLe, hCov⟩ :=
    visitListS_top ok w fuel _ st s s' hrun rfl hI hwf.entry_mem hok hwf.nodup
  subst hw
  have hR := reach_in_region c sem K R
    (Ext sem { pre := upd (fun _ => c.ops.bot) c.entry c.init, post := fun _ => c.ops.bot,
               skip := true })
    hok hwf.closed heR
  refine ⟨hI', hLe, ?_, ?_⟩
  · intro n x hr
    have hL := hR.1 n x hr
    have hp := (hG.2 n x hL).1
    exact ⟨hp, hCov n hL.mem x hp⟩
  · intro n x' hr
    obtain ⟨x, hL, hs⟩ := hR.2 n x' hr
    exact (hG.2 n x hL).2 x' hs

end Sound
end Fix
end Crab
