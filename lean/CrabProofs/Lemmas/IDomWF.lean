import CrabProofs.Lemmas.IDomWFScalar
import CrabProofs.Lemmas.IDomInst

/-!
  `Env.ValWF`: every stored interval is well formed (`lb ≠ +oo`, `ub ≠ -oo`).  It holds of `top`
  and `bottom` and is preserved by every operation of the interval domain, so it holds of every
  value the domain can build.  On such environments the partial interval operations used by the
  domain (`+` in `assign` / `operator[]`, `-` in `compute_residual`, `+`, `-`, `/` in `apply`) are
  defined: the versions of these functions written with `Option` (= with the CRAB_ERROR of
  `-oo + +oo`) return `some` of the total functions of the model (`evalExprO_eq`,
  `residualLoopO_eq`, `ArithOp.evalO_eq`).  The CRAB_ERROR is unreachable.
-/
namespace Crab
namespace IDom
open Lin

namespace Env

def ValWF (e : Env) : Prop := ∀ p ∈ e.m, p.2.WF

theorem valwf_bot : ValWF bot := by simp [ValWF, bot]
theorem valwf_top : ValWF top := by simp [ValWF, top]

theorem get_wf {e : Env} (h : e.ValWF) (x : Var) : (e.get x).WF := by
  unfold get
  split
  · exact Itv.wf_bot
  · cases hf : e.m.find x with
    | none => exact Itv.wf_top
    | some v => exact h (x, v) (Map.find_some_mem hf)

theorem remove_valwf {m : Map} (h : ∀ p ∈ m, p.2.WF) (k : Var) : ∀ p ∈ m.remove k, p.2.WF :=
  fun p hp => h p (List.mem_filter.1 hp).1

theorem insert_valwf {m : Map} (h : ∀ p ∈ m, p.2.WF) (k : Var) {v : Itv} (hv : v.WF) : ∀ p ∈ m.insert k v, p.2.WF := by
  intro p hp
  rcases Map.insert_keys_subset hp with e | hm
  · subst e; exact hv
  · exact h p hm

theorem set_valwf {e : Env} (h : e.ValWF) (k : Var) {v : Itv} (hv : v.WF) : (e.set k v).ValWF := by
  unfold set
  split
  · exact h
  · split
    · exact valwf_bot
    · split
      · exact remove_valwf h k
      · exact insert_valwf h k hv

theorem forget_valwf {e : Env} (h : e.ValWF) (k : Var) : (e.forget k).ValWF := by
  unfold forget; split
  · exact h
  · exact remove_valwf h k

theorem joinKey_valwf {e : Env} (h : e.ValWF) (k : Var) {v : Itv} (hv : v.WF) : (e.joinKey k v).ValWF := by
  unfold joinKey
  split
  · exact h
  · split
    · exact valwf_bot
    · split
      · exact remove_valwf h k
      · split
        · exact remove_valwf h k
        · rename_i old hold
          simp only []
          split
          · exact remove_valwf h k
          · exact insert_valwf h k (Itv.wf_join (h (k, old) (Map.find_some_mem hold)) hv)

theorem upperWith_valwf {op : Itv → Itv → Itv} (hop : ∀ x y, x.WF → y.WF → (op x y).WF) {a b : Env}
    (ha : a.ValWF) (hb : b.ValWF) : (upperWith op a b).ValWF := by
  unfold upperWith
  split
  · exact hb
  · split
    · exact ha
    · intro p hp
      simp only [Map.mergeAbs, List.mem_filterMap] at hp
      obtain ⟨q, hq, he⟩ := hp
      cases hf : Map.find b.m q.1 with
      | none => simp [hf] at he
      | some y =>
        simp only [hf] at he
        split at he
        · simp at he
        · simp only [Option.some.injEq] at he; subst he
          exact hop _ _ (ha q hq) (hb (q.1, y) (Map.find_some_mem hf))

theorem mergeKeep_valwf {op : Itv → Itv → Itv} (hop : ∀ x y, x.WF → y.WF → (op x y).WF) {a : Map}
    (ha : ∀ p ∈ a, p.2.WF) : ∀ (b : Map), (∀ p ∈ b, p.2.WF) → ∀ p ∈ Map.mergeKeep op a b, p.2.WF := by
  intro b
  induction b with
  | nil => intro _; exact ha
  | cons q rest ih =>
    intro hb
    have ih' := ih (fun p hp => hb p (List.mem_cons_of_mem _ hp))
    unfold Map.mergeKeep at ih' ⊢
    simp only [List.foldr_cons]
    have hq := hb q List.mem_cons_self
    cases hf : Map.find a q.1 with
    | none => exact insert_valwf ih' _ hq
    | some x => exact insert_valwf ih' _ (hop _ _ (ha (q.1, x) (Map.find_some_mem hf)) hq)

theorem lowerWith_valwf {op : Itv → Itv → Itv} (hop : ∀ x y, x.WF → y.WF → (op x y).WF) {a b : Env}
    (ha : a.ValWF) (hb : b.ValWF) : (lowerWith op a b).ValWF := by
  unfold lowerWith
  split
  · exact valwf_bot
  · split
    · exact valwf_bot
    · exact mergeKeep_valwf hop ha b.m hb

/-! ### expressions -/

theorem evalFold_wf {e : Env} (h : e.ValWF) : ∀ (ts : List (Var × Int)) (r : Itv), r.WF →
    (ts.foldl (fun r p => addT r (Itv.mul (Itv.single p.2) (e.get p.1))) r).WF := by
  intro ts
  induction ts with
  | nil => intro r hr; exact hr
  | cons p rest ih =>
    intro r hr
    simp only [List.foldl_cons]
    exact ih _ (wf_addT hr (Itv.wf_mul (Itv.wf_single _) (get_wf h _)))

theorem evalExpr_wf {e : Env} (h : e.ValWF) (ex : Expr) : (e.evalExpr ex).WF :=
  evalFold_wf h ex.terms _ (Itv.wf_single _)

/-- `operator[](e)` / the loop of `assign` with the CRAB_ERROR of `+` -/
def evalFoldO (e : Env) : List (Var × Int) → Itv → Option Itv
  | [], r => some r
  | p :: rest, r =>
    match Itv.add r (Itv.mul (Itv.single p.2) (e.get p.1)) with
    | some r' => evalFoldO e rest r'
    | none => none

def evalExprO (e : Env) (ex : Expr) : Option Itv := evalFoldO e ex.terms (Itv.single ex.cst)

theorem evalFoldO_eq {e : Env} (h : e.ValWF) : ∀ (ts : List (Var × Int)) (r : Itv), r.WF →
    evalFoldO e ts r = some (ts.foldl (fun r p => addT r (Itv.mul (Itv.single p.2) (e.get p.1))) r) := by
  intro ts
  induction ts with
  | nil => intro r _; rfl
  | cons p rest ih =>
    intro r hr
    have hm := Itv.wf_mul (Itv.wf_single p.2) (get_wf h p.1)
    simp only [evalFoldO, add_eq_addT hr hm, List.foldl_cons]
    exact ih _ (wf_addT hr hm)

/-- evaluating an expression never raises CRAB_ERROR -/
theorem evalExprO_eq {e : Env} (h : e.ValWF) (ex : Expr) : evalExprO e ex = some (e.evalExpr ex) :=
  evalFoldO_eq h ex.terms _ (Itv.wf_single _)

theorem assign_valwf {e : Env} (h : e.ValWF) (x : Var) (ex : Expr) : (e.assign x ex).ValWF := by
  unfold assign
  split
  · exact set_valwf h x (get_wf h _)
  · exact set_valwf h x (evalExpr_wf h ex)

theorem weakAssign_valwf {e : Env} (h : e.ValWF) (x : Var) (ex : Expr) : (e.weakAssign x ex).ValWF := by
  unfold weakAssign
  split
  · exact joinKey_valwf h x (get_wf h _)
  · exact joinKey_valwf h x (evalExpr_wf h ex)

end Env

/-- the `switch` of `apply` with the CRAB_ERRORs of `+`, `-`, `/` -/
def ArithOp.evalO (op : ArithOp) (yi zi : Itv) : Option Itv :=
  match op with
  | .add => Itv.add yi zi
  | .sub => Itv.sub yi zi
  | .sdiv => Itv.div yi zi
  | op => some (op.eval yi zi)

theorem ArithOp.evalO_eq (op : ArithOp) {x y : Itv} (hx : x.WF) (hy : y.WF) : op.evalO x y = some (op.eval x y) := by
  cases op <;> simp only [ArithOp.evalO, ArithOp.eval]
  · exact add_eq_addT hx hy
  · exact sub_eq_subT hx hy
  · exact div_eq_divT x y

/-! ### the solver -/

theorem refine_valwf {st : SolverSt} (h : st.env.ValWF) (v : Var) {i : Itv} (hi : i.WF) :
    (refine st v i).2.env.ValWF := by
  unfold refine
  simp only []
  split
  · exact h
  · split
    · exact Env.set_valwf h v (Itv.wf_meet (Env.get_wf h v) hi)
    · exact h

theorem residualLoop_wf {env : Env} (h : env.ValWF) (pivot : Var) : ∀ (ts : List (Var × Int)) (r : Itv) (n : Nat),
    r.WF → (residualLoop env pivot ts r n).1.WF := by
  intro ts
  induction ts with
  | nil => intro r n hr; exact hr
  | cons p rest ih =>
    obtain ⟨v, c⟩ := p
    intro r n hr
    unfold residualLoop
    split
    · exact ih r n hr
    · simp only []
      have hw := wf_subT hr (Itv.wf_mul (Itv.wf_single c) (Env.get_wf h v))
      split
      · exact hw
      · exact ih _ _ hw

/-- `compute_residual` with the CRAB_ERROR of `-` -/
def residualLoopO (env : Env) (pivot : Var) : List (Var × Int) → Itv → Nat → Option (Itv × Nat)
  | [], r, n => some (r, n)
  | (v, c) :: rest, r, n =>
    if v = pivot then residualLoopO env pivot rest r n
    else
      match Itv.sub r (Itv.mul (Itv.single c) (env.get v)) with
      | some r' => if r'.isTop then some (r', n + 1) else residualLoopO env pivot rest r' (n + 1)
      | none => none

/-- computing a residual never raises CRAB_ERROR -/
theorem residualLoopO_eq {env : Env} (h : env.ValWF) (pivot : Var) : ∀ (ts : List (Var × Int)) (r : Itv) (n : Nat),
    r.WF → residualLoopO env pivot ts r n = some (residualLoop env pivot ts r n) := by
  intro ts
  induction ts with
  | nil => intro r n _; rfl
  | cons p rest ih =>
    obtain ⟨v, c⟩ := p
    intro r n hr
    unfold residualLoopO residualLoop
    split
    · exact ih r n hr
    · have hm := Itv.wf_mul (Itv.wf_single c) (Env.get_wf h v)
      simp only [sub_eq_subT hr hm]
      split
      · rfl
      · exact ih _ _ (wf_subT hr hm)

theorem propagateTerm_valwf (c : Cst) {st : SolverSt} (h : st.env.ValWF) (pivot : Var) (coef : Int) :
    (propagateTerm c st pivot coef).2.env.ValWF := by
  have hres := residualLoop_wf h pivot c.expr.terms (Itv.single c.constant) st.ops (Itv.wf_single _)
  unfold propagateTerm
  simp only []
  unfold computeResidual
  generalize residualLoop st.env pivot c.expr.terms (Itv.single c.constant) st.ops = ro at hres
  have hrhs : (if (!ro.1.isTop) = true then divT ro.1 (Itv.single coef) else Itv.top).WF := by
    split
    · exact wf_divT hres (Itv.wf_single _)
    · exact Itv.wf_top
  generalize (if (!ro.1.isTop) = true then divT ro.1 (Itv.single coef) else Itv.top) = rhs at hrhs
  have h' : (SolverSt.mk st.env st.refined ro.2).env.ValWF := h
  cases c.kind with
  | eq => exact refine_valwf h' _ hrhs
  | leq =>
    simp only []
    by_cases hc : coef > 0
    · simp only [hc, if_true]; exact refine_valwf h' _ (Itv.wf_lowerHalfLine hrhs)
    · simp only [hc]; exact refine_valwf h' _ (Itv.wf_upperHalfLine hrhs)
  | lt => exact h
  | neq =>
    simp only []
    by_cases h1 : (!Itv.beq (Itv.mul rhs (Itv.single coef)) ro.1) = true
    · simp only [h1, if_true]; exact h
    · simp only [h1]
      by_cases h2 : (Itv.trim (st.env.get pivot) rhs).isBottom = true
      · simp only [h2, if_true]; exact h
      · simp only [h2]
        by_cases h3 : (!Itv.beq (st.env.get pivot) (Itv.trim (st.env.get pivot) rhs)) = true
        · simp only [h3, if_true]; exact Env.set_valwf h _ (Itv.wf_trim (Env.get_wf h _) _)
        · simp only [h3]; exact h

theorem propagateLoop_valwf (c : Cst) : ∀ (ts : List (Var × Int)) (st : SolverSt), st.env.ValWF →
    (propagateLoop c ts st).2.env.ValWF := by
  intro ts
  induction ts with
  | nil => intro st h; exact h
  | cons p rest ih =>
    obtain ⟨v, k⟩ := p
    intro st h
    have h1 := propagateTerm_valwf c h v k
    unfold propagateLoop
    generalize propagateTerm c st v k = r at h1
    obtain ⟨b, st'⟩ := r
    cases b
    · exact ih st' h1
    · exact h1

theorem propagateAll_valwf : ∀ (tbl : List Cst) (st : SolverSt), st.env.ValWF → (propagateAll tbl st).2.env.ValWF := by
  intro tbl
  induction tbl with
  | nil => intro st h; exact h
  | cons c rest ih =>
    intro st h
    have h1 := propagateLoop_valwf c c.expr.terms st h
    unfold propagateAll propagate
    generalize propagateLoop c c.expr.terms st = r at h1
    obtain ⟨b, st'⟩ := r
    cases b
    · exact ih st' h1
    · exact h1

theorem solveSmallLoop_valwf (tbl : List Cst) : ∀ (fuel : Nat) (st : SolverSt), st.env.ValWF →
    (solveSmallLoop tbl fuel st).2.env.ValWF := by
  intro fuel
  induction fuel with
  | zero =>
    intro st h
    have h1 := propagateAll_valwf tbl ⟨st.env, [], st.ops⟩ h
    unfold solveSmallLoop
    generalize propagateAll tbl ⟨st.env, [], st.ops⟩ = r at h1
    obtain ⟨b, st'⟩ := r
    cases b <;> exact h1
  | succ n ih =>
    intro st h
    have h1 := propagateAll_valwf tbl ⟨st.env, [], st.ops⟩ h
    unfold solveSmallLoop
    generalize propagateAll tbl ⟨st.env, [], st.ops⟩ = r at h1
    obtain ⟨b, st'⟩ := r
    cases b
    · simp only []; split
      · exact ih st' h1
      · exact h1
    · exact h1

theorem solveLargeLoop_valwf (tbl : List Cst) (maxOp : Nat) : ∀ (fuel : Nat) (st : SolverSt), st.env.ValWF →
    (solveLargeLoop tbl maxOp fuel st).2.env.ValWF := by
  intro fuel
  induction fuel with
  | zero =>
    intro st h
    have h1 := propagateAll_valwf (st.refined.flatMap (trigger tbl)) ⟨st.env, [], st.ops⟩ h
    unfold solveLargeLoop
    simp only []
    generalize propagateAll (st.refined.flatMap (trigger tbl)) ⟨st.env, [], st.ops⟩ = r at h1
    obtain ⟨b, st'⟩ := r
    cases b <;> exact h1
  | succ n ih =>
    intro st h
    have h1 := propagateAll_valwf (st.refined.flatMap (trigger tbl)) ⟨st.env, [], st.ops⟩ h
    unfold solveLargeLoop
    simp only []
    generalize propagateAll (st.refined.flatMap (trigger tbl)) ⟨st.env, [], st.ops⟩ = r at h1
    obtain ⟨b, st'⟩ := r
    cases b
    · simp only []; split
      · exact ih st' h1
      · exact h1
    · exact h1

theorem solveLarge_valwf (tbl : List Cst) (maxOp : Nat) (st : SolverSt) (h : st.env.ValWF) :
    (solveLarge tbl maxOp st).2.env.ValWF := by
  unfold solveLarge
  have h1 := propagateAll_valwf tbl ⟨st.env, [], 0⟩ h
  generalize propagateAll tbl ⟨st.env, [], 0⟩ = r at h1
  obtain ⟨b, st'⟩ := r
  cases b
  · exact solveLargeLoop_valwf _ _ _ st' h1
  · exact h1

theorem solverRun_valwf (csts : Sys) (maxCycles : Nat) {env : Env} (h : env.ValWF) :
    (solverRun csts maxCycles env).ValWF := by
  unfold solverRun
  simp only []
  generalize prepLoop csts [] 0 = p
  by_cases hc : p.contradiction = true
  · simp only [hc, if_true]; exact Env.valwf_bot
  · simp only [hc]
    generalize hr : (if (decide (p.tbl.length > largeCstThreshold) || decide (p.opc > largeOpThreshold)) = true
        then solveLarge p.tbl (p.opc * maxCycles) ⟨env, [], 0⟩
        else solveSmall p.tbl maxCycles ⟨env, [], 0⟩) = r
    have hr' : r.2.env.ValWF := by
      rw [← hr]
      split
      · exact solveLarge_valwf _ _ _ h
      · exact solveSmallLoop_valwf _ _ ⟨env, [], 0⟩ h
    by_cases hb : r.1 = true
    · simp only [hb, if_true]; exact Env.valwf_bot
    · simp only [hb]; exact hr'

namespace Env

theorem add_valwf {e : Env} (h : e.ValWF) (csts : Sys) : (e.add csts).ValWF := by
  unfold add; split
  · exact h
  · exact solverRun_valwf _ _ h

theorem select_valwf {e : Env} (h : e.ValWF) (lhs : Var) (c : Cst) (e1 e2 : Expr) : (e.select lhs c e1 e2).ValWF := by
  unfold select
  split
  · exact h
  · split
    · exact assign_valwf h _ _
    · split
      · exact assign_valwf h _ _
      · exact set_valwf h _ (Itv.wf_join (evalExpr_wf h e1) (evalExpr_wf h e2))

theorem foldForget_valwf : ∀ (ks : List Var) (acc : Env), acc.ValWF →
    (ks.foldl (fun env key => env.forget key) acc).ValWF := by
  intro ks
  induction ks with
  | nil => intro acc h; exact h
  | cons k rest ih => intro acc h; exact ih _ (forget_valwf h k)

theorem forgetAll_valwf {e : Env} (h : e.ValWF) (vs : List Var) : (e.forgetAll vs).ValWF := by
  unfold forgetAll; split
  · exact h
  · exact foldForget_valwf _ _ h

theorem project_valwf {e : Env} (h : e.ValWF) (ks : List Var) : (e.project ks).ValWF := by
  unfold project; split
  · exact h
  · simp only []; split
    · have : ∀ (ks : List Var) (acc : Env), acc.ValWF →
          (ks.foldl (fun env key => env.set key (e.get key)) acc).ValWF := by
        intro ks
        induction ks with
        | nil => intro acc ha; exact ha
        | cons k rest ih => intro acc ha; exact ih _ (set_valwf ha k (get_wf h k))
      exact this _ _ valwf_top
    · exact foldForget_valwf _ _ h

theorem expand_valwf {e : Env} (h : e.ValWF) (x nx : Var) : (e.expand x nx).ValWF := by
  unfold expand; split
  · exact h
  · exact set_valwf h nx (get_wf h x)

theorem intCast_valwf {e : Env} (h : e.ValWF) (z : Bool) (bw : Nat) (d s : Var) : (e.intCast z bw d s).ValWF := by
  unfold intCast
  simp only []
  split
  · exact add_valwf (assign_valwf h _ _) _
  · exact assign_valwf h _ _

theorem renameLoop_valwf : ∀ (f t : List Var) (m : Map), (∀ p ∈ m, p.2.WF) → ∀ p ∈ renameLoop f t m, p.2.WF := by
  intro f
  induction f with
  | nil => intro t m h; unfold renameLoop; exact h
  | cons k rest ih =>
    intro t m h
    cases t with
    | nil => unfold renameLoop; exact h
    | cons nk rest' =>
      unfold renameLoop
      split
      · exact ih _ _ h
      · split
        · rename_i v hv
          apply ih
          apply remove_valwf
          split
          · exact insert_valwf h _ (h (k, v) (Map.find_some_mem hv))
          · exact h
        · exact ih _ _ h

theorem rename_valwf {e e' : Env} {f t : List Var} (hr : e.rename f t = some e') (h : e.ValWF) : e'.ValWF := by
  unfold rename at hr
  split at hr
  · simp only [Option.some.injEq] at hr; subst hr; exact h
  · split at hr
    · simp at hr
    · simp only [Option.some.injEq] at hr; subst hr; exact renameLoop_valwf _ _ _ h

end Env

/-- every statement keeps the stored intervals well formed -/
theorem Stmt.exec_valwf (st : Stmt) {a : Env} (h : a.ValWF) : (st.exec a).ValWF := by
  cases st <;> simp only [Stmt.exec]
  · exact Env.assign_valwf h _ _
  · exact Env.set_valwf h _ (ArithOp.eval_wf _ (Env.get_wf h _) (Env.get_wf h _))
  · exact Env.set_valwf h _ (ArithOp.eval_wf _ (Env.get_wf h _) (Itv.wf_single _))
  · exact Env.set_valwf h _ (BitOp.eval_wf _ (Env.get_wf h _) (Env.get_wf h _))
  · exact Env.set_valwf h _ (BitOp.eval_wf _ (Env.get_wf h _) (Itv.wf_single _))
  · exact Env.add_valwf h _
  · exact Env.select_valwf h _ _ _ _
  · exact Env.forgetAll_valwf h _
  · exact Env.project_valwf h _
  · exact Env.expand_valwf h _ _
  · exact Env.intCast_valwf h _ _ _ _

end IDom
end Crab
