import CrabProofs.Lemmas.BwdInst
import CrabProofs.Lemmas.XDomEngineInst

/-!
  The non-relational domains of the `XDom` layer (`constant_domain`, `sign_domain`,
  `congruence_domain`: exact models `CDom` / `SDom` / `GDom`, engine records `*.eng`) as domains of
  the backward analysis.

  * `XB.fwd E X`: the forward API, each field one statement of `XDom.Stmt` executed by the domain
    (`E.exec`).  The models are defined for machine-indexed variables (`index_t = uint64_t`, the
    keys of the Patricia tree) and canonical constraints: `E.exec` takes a proof of `E.Adm st`.
    A `bwd` program is over `Nat` indices, so `XB.run` tests `E.Adm st` (decidable) and returns
    top on the statements no real program can contain (`XB.run_adm`: the test succeeds whenever
    the variables of the statement are below `2^64`).
  * `constDom`, `signDom` = `withForgetBwd` of it: `backward_assign` / `backward_apply` of
    constant_domain.hpp / sign_domain.hpp after commit ced0dcf (`operator-=(x)`, `& inv`).
  * `congFwd`: the forward record of `congruence_domain`, whose backward operations are
    `BackwardAssignOps` (`congDom_sound_of`: the contract, GIVEN the contracts of `rename` and of
    the fresh variable for the Patricia-tree environment, which are not discharged here).
-/
namespace Crab
namespace Bwd
open XDom

def xOp : BinOp → XDom.ArithOp
  | .add => .add
  | .sub => .sub
  | .mul => .mul
  | .sdiv => .sdiv

theorem xOp_conc {op : BinOp} {a b v : Int} (h : binSem op a b = some v) :
    (xOp op).conc a b = some v := by
  cases op <;> simpa [binSem, xOp, XDom.ArithOp.conc] using h

instance (ex : Crab.Lin.Expr) : Decidable (VarsLt ex) := by unfold VarsLt; exact inferInstance
instance (c : Crab.Lin.Cst) : Decidable (CstOk c) := by unfold CstOk; exact inferInstance
instance (st : XDom.Stmt) : Decidable st.Ok := by
  cases st <;> unfold XDom.Stmt.Ok <;> exact inferInstance

theorem varsLt_toExpr (e : Lin) (h : ∀ v ∈ e.vars, v < 2 ^ 64) : VarsLt e.toExpr := by
  intro p hp
  unfold Lin.toExpr Crab.Lin.Expr.add at hp
  simp only [] at hp
  have key : ∀ (l acc : List (Crab.Lin.Var × Int)), (∀ q ∈ acc, q.1 < 2 ^ 64) → (∀ q ∈ l, q.1 < 2 ^ 64) →
      ∀ q ∈ l.foldl (fun acc p => Crab.Lin.Expr.addTerm acc p.1 p.2) acc, q.1 < 2 ^ 64 := by
    intro l
    induction l with
    | nil => intro acc ha _ q hq; exact ha q hq
    | cons t l ih =>
      intro acc ha hl q hq
      simp only [List.foldl_cons] at hq
      refine ih _ ?_ (fun r hr => hl r (List.mem_cons_of_mem _ hr)) q hq
      intro r hr
      rcases Crab.Lin.Expr.mem_addTerm hr with h1 | h1
      · exact ha r h1
      · rw [h1.1]; exact hl t List.mem_cons_self
  refine key _ _ (by simp [Crab.Lin.Expr.const]) ?_ p hp
  intro q hq
  simp only [Lin.pairs, List.mem_map] at hq
  obtain ⟨t, ht, rfl⟩ := hq
  exact h t.2 (List.mem_map.2 ⟨t, ht, rfl⟩)

theorem cstOk_toLin (c : Cst) (h : ∀ v ∈ c.e.vars, v < 2 ^ 64) : CstOk c.toLin :=
  ⟨Cst.toLin_canonical c, varsLt_toExpr c.e h⟩

/-- what the engine record lacks: `is_bottom`, top, decidability of the side condition -/
structure XExtra (E : XDom.EngDom) where
  isBottom : E.A → Bool
  isBottom_sound : ∀ a s, isBottom a = true → ¬ E.γ a s
  top_sound : ∀ s, E.γ E.ops.top s
  dec : ∀ st, Decidable (E.Adm st)

namespace XB
variable (E : XDom.EngDom) (X : XExtra E)

/-- one call of the domain; top outside the side condition of the model (not reachable from a
    real program, see `run_adm`) -/
def run (st : XDom.Stmt) (a : E.A) : E.A :=
  match X.dec st with
  | isTrue h => E.exec st h a
  | isFalse _ => E.ops.top

theorem run_adm (st : XDom.Stmt) (h : E.Adm st) (a : E.A) : run E X st a = E.exec st h a := by
  unfold run
  cases X.dec st with
  | isTrue _ => rfl
  | isFalse hn => exact absurd h hn

theorem run_sound (st : XDom.Stmt) (a : E.A) (s s' : XDom.State) (hg : E.γ a s) (hr : st.rel s s') :
    E.γ (run E X st a) s' := by
  unfold run
  cases X.dec st with
  | isTrue h => exact E.exec_sound st h a s s' hg hr
  | isFalse _ => exact X.top_sound s'

def fwd : BDom E.A where
  top := E.ops.top
  bot := E.ops.bot
  isBottom := X.isBottom
  leq := E.ops.leq
  join := E.ops.join
  meet := E.ops.meet
  widen := E.ops.widen
  narrow := E.ops.narrow
  assume := fun c a => run E X (.assume [c.toLin]) a
  forget := fun x a => run E X (.forget x) a
  assign := fun x e a => run E X (.assign x e.toExpr) a
  apply := fun op x y z a =>
    match z with
    | .var w => run E X (.arithVar (xOp op) x y w) a
    | .const k => run E X (.arithCst (xOp op) x y k) a
  select := fun x c e1 e2 a => run E X (.select x c.toLin e1.toExpr e2.toExpr) a
  bwdAssign := fun _ _ _ inv => inv
  bwdApply := fun _ _ _ _ _ inv => inv

theorem select_cond (c : Cst) (σ : State) (u v : Int) :
    (if c.toLin.sat σ then u else v) = (if c.sat σ then u else v) := by
  by_cases h : c.holds σ
  · rw [if_pos ((Cst.toLin_sat c σ).2 h), if_pos ((Cst.sat_iff c σ).2 h)]
  · rw [if_neg (fun h' => h ((Cst.toLin_sat c σ).1 h')), if_neg (fun h' => h ((Cst.sat_iff c σ).1 h'))]

theorem fwd_sound : BDomSound (fwd E X) E.γ where
  top_sound := X.top_sound
  isBottom_sound := X.isBottom_sound
  join_left := E.join_left
  join_right := E.join_right
  widen_left := E.widen_left
  widen_right := E.widen_right
  meet_sound := E.meet_sound
  narrow_sound := E.narrow_sound
  leq_sound := E.leq_sound
  assume_sound := by
    intro c a σ hg hc
    refine run_sound E X _ a σ σ hg ⟨?_, rfl⟩
    intro c' hc'; rw [List.mem_singleton.1 hc']; exact (Cst.toLin_sat c σ).2 hc
  forget_sound := fun x a σ v hg => run_sound E X _ a σ _ hg ⟨v, rfl⟩
  assign_sound := by
    intro x e a σ hg
    refine run_sound E X _ a σ _ hg ?_
    show _ = XDom.upd σ x (e.toExpr.eval σ)
    rw [Lin.toExpr_eval]; rfl
  apply_sound := by
    intro op x y z a σ v hg hv
    cases z with
    | var w => exact run_sound E X _ a σ _ hg ⟨v, xOp_conc hv, rfl⟩
    | const k => exact run_sound E X _ a σ _ hg ⟨v, xOp_conc hv, rfl⟩
  select_sound := by
    intro x c e1 e2 a σ hg
    refine run_sound E X _ a σ _ hg ?_
    show _ = XDom.upd σ x (if c.toLin.sat σ then e1.toExpr.eval σ else e2.toExpr.eval σ)
    rw [Lin.toExpr_eval, Lin.toExpr_eval, select_cond]; rfl
  bwdAssign_sound := fun _ _ _ _ _ h _ => h
  bwdApply_sound := fun _ _ _ _ _ _ _ _ h _ _ => h

end XB

/-! ### constants -/

def constX : XExtra CDom.eng where
  isBottom := fun a => a.1.isBot
  isBottom_sound := fun _ s h => XDom.Env.not_γ_of_bot h s
  top_sound := fun s => XDom.Env.γ_top CDom.cstLaws s
  dec := fun st => inferInstanceAs (Decidable st.Ok)

/-- `constant_domain` with its backward operations (forget `x`, meet the invariant) -/
def constDom : BDom CDom.SEnv := withForgetBwd (XB.fwd CDom.eng constX)

theorem constDom_sound : BDomSound constDom CDom.SEnv.γ :=
  withForgetBwd_sound (XB.fwd_sound CDom.eng constX)

/-! ### signs -/

def signX : XExtra SDom.eng where
  isBottom := fun a => a.1.isBot
  isBottom_sound := fun _ s h => XDom.Env.not_γ_of_bot h s
  top_sound := fun s => XDom.Env.γ_top SDom.signLaws s
  dec := fun st => inferInstanceAs (Decidable st.Ok)

/-- `sign_domain` with its backward operations (forget `x`, meet the invariant) -/
def signDom : BDom SDom.SEnv := withForgetBwd (XB.fwd SDom.eng signX)

theorem signDom_sound : BDomSound signDom SDom.SEnv.γ :=
  withForgetBwd_sound (XB.fwd_sound SDom.eng signX)

/-! ### congruences -/

instance (st : XDom.Stmt) : Decidable (GDom.Ok' st) := by
  unfold GDom.Ok'
  have : Decidable (∀ x y z, st ≠ .bitVar .shl x y z) := by
    cases st with
    | bitVar op x y z =>
      cases op
      case shl => exact isFalse (fun h => h x y z rfl)
      all_goals exact isTrue (fun _ _ _ h => by cases h)
    | _ => exact isTrue (fun _ _ _ h => by cases h)
  exact inferInstance

def congX : XExtra GDom.eng where
  isBottom := fun a => a.1.isBot
  isBottom_sound := fun _ s h => XDom.Env.not_γ_of_bot h s
  top_sound := fun s => XDom.Env.γ_top GDom.congLaws s
  dec := fun st => inferInstanceAs (Decidable (GDom.Ok' st))

/-- the forward operations of `congruence_domain` -/
def congFwd : BDom GDom.SEnv := XB.fwd GDom.eng congX

theorem congFwd_sound : BDomSound congFwd GDom.SEnv.γ := XB.fwd_sound GDom.eng congX

/-- `congruence_domain::backward_assign / backward_apply` are `BackwardAssignOps`: the contract
    holds for every model of `rename({y}, {x})` / of the fresh variable that satisfies the two
    side contracts -/
theorem congDom_sound_of (rename : Var → Var → GDom.SEnv → GDom.SEnv)
    (hren : RenameAfterForget congFwd GDom.SEnv.γ rename) (bound : GDom.SEnv → Nat)
    (hb : BoundOk GDom.SEnv.γ bound) :
    BDomSound (withGenBwd congFwd rename bound) GDom.SEnv.γ :=
  withGenBwd_sound congFwd_sound rename hren bound hb

end Bwd
end Crab
