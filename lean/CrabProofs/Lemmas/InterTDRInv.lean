import CrabProofs.Lemmas.InterTDRWire
import CrabProofs.Lemmas.InterTDSound

/-!
  C09, whole top-down analysis — the invariant of the state of the analysis (`StOK`): no pending
  recursion fixpoint, every stored context that is not stale is a valid summary backed by a recorded
  run, every recorded run is sound, is below the context-insensitive invariants and has its call
  sites covered; the call stack is a simple call path satisfying `pathsOK`.
-/
namespace Crab.Inter
open Crab.Fix (upd)
variable {p : IProg}

theorem isSubsumed_leq {L : Lat} (c : FCtx L) (d : L.A) (e : Bool) (h : c.isSubsumed d e = true) :
    L.leq d c.pre = true := by
  unfold FCtx.isSubsumed at h
  by_cases hc : (c.exact && e) = true
  · simp only [hc, if_true, Bool.and_eq_true] at h; exact h.1
  · simp only [hc] at h; exact h

theorem scan_hit (D : IDom) : ∀ (ccs : List (FCtx D.toLat)) (d : D.A) (e : Bool) (post : D.A),
    scanCtx D ccs d e = .hit post → ∃ c, c ∈ ccs ∧ c.stale = false ∧ c.post = post ∧ D.leq d c.pre = true
  | [], _, _, _, h => by simp [scanCtx] at h
  | c :: cs, d, e, post, h => by
    unfold scanCtx at h
    by_cases hs : c.isSubsumed d e = true
    · simp only [hs, if_true] at h
      by_cases hst : c.stale = true
      · simp [hst] at h
      · have hst' : c.stale = false := by simpa using hst
        simp only [hst', Bool.false_eq_true, if_false, Scan.hit.injEq] at h
        exact ⟨c, List.mem_cons_self .., hst', h, isSubsumed_leq c d e hs⟩
    · have hs' : c.isSubsumed d e = false := by simpa using hs
      simp only [hs', Bool.false_eq_true, if_false] at h
      cases hr : scanCtx D cs d e with
      | hit post' =>
        rw [hr] at h
        simp only [Scan.hit.injEq] at h
        obtain ⟨c', hc', h1, h2, h3⟩ := scan_hit D cs d e post' hr
        exact ⟨c', List.mem_cons_of_mem _ hc', h1, h ▸ h2, h3⟩
      | reanalyze en rest => rw [hr] at h; cases h
      | miss => rw [hr] at h; cases h

theorem scan_rean (D : IDom) : ∀ (ccs : List (FCtx D.toLat)) (d : D.A) (e : Bool) (en : D.A)
    (rest : List (FCtx D.toLat)), scanCtx D ccs d e = .reanalyze en rest →
    D.leq d en = true ∧ ∀ c, c ∈ rest → c ∈ ccs
  | [], _, _, _, _, h => by simp [scanCtx] at h
  | c :: cs, d, e, en, rest, h => by
    unfold scanCtx at h
    by_cases hs : c.isSubsumed d e = true
    · simp only [hs, if_true] at h
      by_cases hst : c.stale = true
      · simp only [hst, if_true, Scan.reanalyze.injEq] at h
        obtain ⟨h1, h2⟩ := h
        subst h1; subst h2
        exact ⟨isSubsumed_leq c d e hs, fun c' hc' => List.mem_cons_of_mem _ hc'⟩
      · have hst' : c.stale = false := by simpa using hst
        simp [hst'] at h
    · have hs' : c.isSubsumed d e = false := by simpa using hs
      simp only [hs', Bool.false_eq_true, if_false] at h
      cases hr : scanCtx D cs d e with
      | hit post' => rw [hr] at h; cases h
      | reanalyze en' rest' =>
        rw [hr] at h
        simp only [Scan.reanalyze.injEq] at h
        obtain ⟨h1, h2⟩ := h
        subst h1; subst h2
        obtain ⟨k1, k2⟩ := scan_rean D cs d e en' rest' hr
        refine ⟨k1, fun c' hc' => ?_⟩
        rcases List.mem_cons.mp hc' with rfl | hc''
        · exact List.mem_cons_self ..
        · exact List.mem_cons_of_mem _ (k2 c' hc'')
      | miss => rw [hr] at h; cases h

/-- the contexts after `default_context_sensitivity_policy::add`: old ones, the new one, or stale -/
theorem policyAddFixed_mem {L : Lat} (max : Option Nat) (ccs : List (FCtx L)) (cc c : FCtx L)
    (h : c ∈ policyAddFixed max ccs cc) : c ∈ ccs ∨ c = cc ∨ c.stale = true := by
  have happ : ∀ c, c ∈ ccs ++ [cc] → c ∈ ccs ∨ c = cc ∨ c.stale = true := by
    intro c hc
    rcases List.mem_append.mp hc with h | h
    · exact Or.inl h
    · exact Or.inr (Or.inl (by simpa using h))
  unfold policyAddFixed at h
  cases max with
  | none => exact happ c h
  | some m =>
    match ccs, h, happ with
    | [], h, happ => exact happ c h
    | [_], h, happ => exact happ c h
    | c1 :: c2 :: rest, h, happ =>
      by_cases hlen : (c1 :: c2 :: rest).length > m
      · simp only [hlen, if_true] at h
        rcases List.mem_cons.mp h with rfl | h'
        · exact Or.inr (Or.inr rfl)
        · have hm := (List.mem_filter.mp h').1
          apply happ
          rcases List.mem_append.mp hm with h'' | h''
          · exact List.mem_append.mpr (Or.inl (List.mem_cons_of_mem _ (List.mem_cons_of_mem _ h'')))
          · exact List.mem_append.mpr (Or.inr h'')
      · simp only [hlen, if_false] at h
        exact happ c h


section Inv
variable (D : IDom) (p : IProg) (P : TDParams)

/-- the frame `env'` of a call of `h` is covered: a recorded run of `h` was started with a value
    describing it, or `h` is a widening point whose analysis (from `top`) is in progress -/
def Covd (s : TDSt D) (h : Nat) (env' : Env) : Prop :=
  (∃ ρ, ρ ∈ s.runs ∧ ρ.fn = h ∧ EnvIn D.toAbsDom ρ.entry env') ∨
  (P.wset.contains h = true ∧ h ∈ s.stack)

/-- the call sites of block `b` are covered for the executions of the block from the frame `x` -/
def BlockCov (s : TDSt D) (f : IFun) (b : Nat) (x : Env) : Prop :=
  ∀ k env h lhs args, Pref (TrueCR p) (f.blk b) k x env → k < (f.blk b).stmts.size →
    (f.blk b).stmts.getD k default = .call h lhs args →
    ∀ env' : Env, env'.size = p.nv → MatchVals (p.fn h).ins (args.map (fun a => env.getD a 0)) (toSt env') →
      Covd D P s h env'

def CtxOK (s : TDSt D) (h : Nat) (c : FCtx D.toLat) : Prop :=
  p.isCalled h = true ∧
  (c.stale = false → FactValid D p h c.pre c.post ∧ ∃ ρ, ρ ∈ s.runs ∧ ρ.fn = h ∧ SubG D c.pre ρ.entry)

structure StOK (s : TDSt D) : Prop where
  nofix : s.fix = fun _ => none
  ctxs : ∀ h c, c ∈ s.cc h → CtxOK D p s h c
  runs : ∀ ρ, ρ ∈ s.runs → ρ.fn < p.funs.size ∧ RunSound D p ρ
  glob : ∀ ρ, ρ ∈ s.runs → ∃ tp tq, s.gpre ρ.fn = some tp ∧ s.gpost ρ.fn = some tq ∧
    ∀ b, SubG D (ρ.pre b) (tp b) ∧ SubG D (ρ.post b) (tq b)
  cov : ∀ ρ, ρ ∈ s.runs → ∀ b x, LPre (TrueCR p) (p.fn ρ.fn) (RunEntry D p ρ) b x →
    BlockCov D p P s (p.fn ρ.fn) b x
  nodup : s.stack.Nodup
  paths : ∃ k, pathsOK p P.wset k s.stack = true

/-- the state only grows and the call stack is back where it was -/
def LeSt (s s' : TDSt D) : Prop := s'.stack = s.stack ∧ ∃ l, s'.runs = s.runs ++ l

/-- the contract of `analyze_function` on a state satisfying the invariant, for the function on top
    of the call stack: the invariant is kept, the run is recorded with the entry value it was given -/
def AFOK (rec : AF D) : Prop :=
  ∀ g e it (s : TDSt D) nn st s', StOK D p P s → s.stack.head? = some g → g < p.funs.size →
    rec g e it s = some (nn, st, s') →
    StOK D p P s' ∧ LeSt D s s' ∧ nn = true ∧ (⟨g, e, st.pre, st.post⟩ : RunRec D) ∈ s'.runs

end Inv

variable {D : IDom} {P : TDParams}

theorem LeSt.refl (s : TDSt D) : LeSt D s s := ⟨rfl, [], by simp⟩

theorem LeSt.trans {a b c : TDSt D} (h1 : LeSt D a b) (h2 : LeSt D b c) : LeSt D a c := by
  obtain ⟨e1, l1, r1⟩ := h1
  obtain ⟨e2, l2, r2⟩ := h2
  exact ⟨e2.trans e1, l1 ++ l2, by rw [r2, r1, List.append_assoc]⟩

theorem LeSt.mem_runs {a b : TDSt D} (h : LeSt D a b) {ρ : RunRec D} (hρ : ρ ∈ a.runs) : ρ ∈ b.runs := by
  obtain ⟨_, l, r⟩ := h
  rw [r]; exact List.mem_append.mpr (Or.inl hρ)

theorem Covd.mono {a b : TDSt D} (h : LeSt D a b) {x : Nat} {env : Env} (hc : Covd D P a x env) :
    Covd D P b x env := by
  rcases hc with ⟨ρ, h1, h2, h3⟩ | ⟨h1, h2⟩
  · exact Or.inl ⟨ρ, h.mem_runs h1, h2, h3⟩
  · exact Or.inr ⟨h1, by rw [h.1]; exact h2⟩

theorem BlockCov.mono {a b : TDSt D} (h : LeSt D a b) {f : IFun} {n : Nat} {x : Env}
    (hc : BlockCov D p P a f n x) : BlockCov D p P b f n x :=
  fun k env hh lhs args h1 h2 h3 env' h4 h5 => (hc k env hh lhs args h1 h2 h3 env' h4 h5).mono h

end Crab.Inter
