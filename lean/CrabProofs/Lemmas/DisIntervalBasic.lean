import CrabModel.Scalar.DisInterval
import CrabProofs.Lemmas.IDomWFScalar

/-! Basic facts for the model of `dis_interval<z_number>` (`Crab.Dis`): the predicates on pairs of
    intervals used by `normalize` and `operator|` (by case analysis on the four bounds),
    membership, the insertion sort. -/
namespace Crab
namespace Dis
open Bound

theorem proper_iff (a : Itv) :
    proper a = true ↔ a.isBottom = false ∧ a.isTop = false ∧ a.WF := by
  simp [proper, Itv.WF, and_assoc]

theorem mem_fin {k : Int} {l : List Itv} : mem k ⟨.fin, l⟩ ↔ ∃ i ∈ l, Itv.mem k i := Iff.rfl
theorem mem_top (k : Int) : mem k top := trivial
theorem not_mem_bot (k : Int) : ¬ mem k bot := fun h => h

theorem contains_iff (x : Dis) (k : Int) : x.contains k = true ↔ mem k x := by
  obtain ⟨st, l⟩ := x
  cases st <;> simp [contains, mem, Itv.contains_iff]

/-! ### pairs of intervals -/

/-- two intervals that `normalize` neither merges nor drops are separated by a gap -/
theorem sep_of_not_merge {a b : Itv} (ha : a.isBottom = false) (hb : b.isBottom = false)
    (hwa : a.WF) (hwb : b.WF) (hs : Bound.le a.lb b.lb = true)
    (ho : overlap a b = false) (hc : areConsecutive a b = false) : gapOk a b = true := by
  obtain ⟨al, au⟩ := a
  obtain ⟨bl, bu⟩ := b
  cases al <;> cases au <;> cases bl <;> cases bu <;>
    simp [overlap, areConsecutive, gapOk, succB, Itv.meet, Itv.mk', Itv.isBottom, Itv.bot, Itv.WF,
      Bound.gt, Bound.max, Bound.min] at * <;> (try (repeat' split at ho)) <;> simp_all <;> omega

/-- the join of two overlapping or adjacent intervals is their union -/
theorem join_exact_of_merge' {a b : Itv} (ha : a.isBottom = false) (hb : b.isBottom = false)
    (h : overlap a b = true ∨ areConsecutive a b = true) {k : Int} (hk : Itv.mem k (Itv.join a b)) :
    Itv.mem k a ∨ Itv.mem k b := by
  obtain ⟨al, au⟩ := a
  obtain ⟨bl, bu⟩ := b
  cases al <;> cases au <;> cases bl <;> cases bu <;>
    simp [overlap, areConsecutive, succB, Itv.meet, Itv.join, Itv.mk', Itv.isBottom, Itv.bot, Itv.mem,
      Bound.gt, Bound.max, Bound.min] at * <;> (try (repeat' split at h)) <;>
    (try (repeat' split at hk)) <;> simp_all <;> omega

theorem join_exact_of_merge {a b : Itv}
    (h : overlap a b = true ∨ areConsecutive a b = true) {k : Int} (hk : Itv.mem k (Itv.join a b)) :
    Itv.mem k a ∨ Itv.mem k b := by
  cases ha : a.isBottom
  · cases hb : b.isBottom
    · exact join_exact_of_merge' ha hb h hk
    · left; simpa [Itv.join, ha, hb] using hk
  · right; simpa [Itv.join, ha] using hk

theorem gapOk_facts {a b : Itv} (ha : a.isBottom = false) (hb : b.isBottom = false)
    (h : gapOk a b = true) :
    overlap a b = false ∧ areConsecutive a b = false ∧ Itv.leq b a = false ∧ Itv.beq a b = false ∧
    Bound.le a.lb b.lb = true ∧ Bound.le a.ub b.ub = true := by
  obtain ⟨al, au⟩ := a
  obtain ⟨bl, bu⟩ := b
  cases al <;> cases au <;> cases bl <;> cases bu <;>
    simp [overlap, areConsecutive, gapOk, succB, Itv.meet, Itv.leq, Itv.beq, Itv.mk', Itv.isBottom, Itv.bot,
      Bound.gt, Bound.max, Bound.min] at * <;> (try (repeat' split)) <;> simp_all <;> omega

theorem gapOk_trans {a b c : Itv} (hb : b.isBottom = false) (h1 : gapOk a b = true)
    (h2 : gapOk b c = true) : gapOk a c = true := by
  obtain ⟨al, au⟩ := a
  obtain ⟨bl, bu⟩ := b
  obtain ⟨cl, cu⟩ := c
  cases au <;> cases bl <;> cases bu <;> cases cl <;> simp [gapOk, Itv.isBottom, Bound.gt] at * <;> omega

/-- members of separated intervals differ by at least two -/
theorem gapOk_mem {a b : Itv} (h : gapOk a b = true) {j k : Int} (hj : Itv.mem j a) (hk : Itv.mem k b) :
    j + 1 < k := by
  obtain ⟨al, au⟩ := a
  obtain ⟨bl, bu⟩ := b
  cases au <;> cases bl <;> simp [gapOk, Itv.mem] at * <;> omega

theorem join_isBottom {a b : Itv} (ha : a.isBottom = false) : (Itv.join a b).isBottom = false := by
  unfold Itv.join
  simp only [ha, Bool.false_eq_true, if_false]
  split
  · exact ha
  · rename_i hb
    have hb : b.isBottom = false := by simpa using hb
    obtain ⟨al, au⟩ := a
    obtain ⟨bl, bu⟩ := b
    cases al <;> cases au <;> cases bl <;> cases bu <;>
      simp [Itv.mk', Itv.isBottom, Itv.bot, Bound.gt, Bound.max, Bound.min] at * <;>
      (try (repeat' split)) <;> simp_all <;> omega

/-- the lower bound of the join of two non-bottom intervals -/
theorem join_lb {a b : Itv} (ha : a.isBottom = false) (hb : b.isBottom = false) :
    (Itv.join a b).lb = Bound.min a.lb b.lb := by
  obtain ⟨al, au⟩ := a
  obtain ⟨bl, bu⟩ := b
  cases al <;> cases au <;> cases bl <;> cases bu <;>
    simp [Itv.join, Itv.mk', Itv.isBottom, Itv.bot, Bound.gt, Bound.max, Bound.min] at * <;>
    (try (repeat' split)) <;> simp_all <;> omega

/-! ### the insertion sort -/

theorem mem_insertByLb {i x : Itv} {l : List Itv} : i ∈ insertByLb x l ↔ i = x ∨ i ∈ l := by
  induction l with
  | nil => simp [insertByLb]
  | cons y ys ih =>
    unfold insertByLb
    split
    · simp
    · simp [ih]; constructor
      · rintro (h | h | h) <;> simp [h]
      · rintro (h | h | h) <;> simp [h]

theorem length_insertByLb (x : Itv) (l : List Itv) : (insertByLb x l).length = l.length + 1 := by
  induction l with
  | nil => rfl
  | cons y ys ih => unfold insertByLb; split <;> simp [ih]

theorem mem_sortByLb {i : Itv} {l : List Itv} : i ∈ sortByLb l ↔ i ∈ l := by
  induction l with
  | nil => simp [sortByLb]
  | cons y ys ih => simp [sortByLb, mem_insertByLb, ih]

theorem length_sortByLb (l : List Itv) : (sortByLb l).length = l.length := by
  induction l with
  | nil => rfl
  | cons y ys ih => simp [sortByLb, length_insertByLb, ih]

/-- sorted by lower bound -/
def LbSorted (l : List Itv) : Prop := l.Pairwise (fun a b => Bound.le a.lb b.lb = true)

theorem lbSorted_insertByLb {x : Itv} {l : List Itv} (h : LbSorted l) : LbSorted (insertByLb x l) := by
  induction l with
  | nil => simp [insertByLb, LbSorted]
  | cons y ys ih =>
    unfold LbSorted at h ih ⊢
    rw [List.pairwise_cons] at h
    unfold insertByLb
    split
    · rename_i hxy
      rw [List.pairwise_cons]
      refine ⟨?_, List.pairwise_cons.mpr h⟩
      intro z hz
      rcases List.mem_cons.mp hz with rfl | hz
      · exact hxy
      · exact Bound.le_trans hxy (h.1 z hz)
    · rename_i hxy
      have hyx : Bound.le y.lb x.lb = true := Bound.not_le (by simpa using hxy)
      rw [List.pairwise_cons]
      refine ⟨?_, ih h.2⟩
      intro z hz
      rcases mem_insertByLb.mp hz with rfl | hz
      · exact hyx
      · exact h.1 z hz

theorem lbSorted_sortByLb (l : List Itv) : LbSorted (sortByLb l) := by
  induction l with
  | nil => simp [sortByLb, LbSorted]
  | cons y ys ih => exact lbSorted_insertByLb ih

/-- sorting a vector that is already sorted by lower bound changes nothing -/
theorem sortByLb_of_sorted {l : List Itv} (h : LbSorted l) : sortByLb l = l := by
  induction l with
  | nil => rfl
  | cons y ys ih =>
    unfold LbSorted at h
    rw [List.pairwise_cons] at h
    simp only [sortByLb, ih h.2]
    cases ys with
    | nil => rfl
    | cons z zs => simp [insertByLb, h.1 z (by simp)]

end Dis
end Crab
